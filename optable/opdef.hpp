// opdef.hpp — helpers for the operation-table translation units (compiled once per GLM configuration).
#pragma once
#include "optable.hpp"
#include <glm/glm.hpp>
#include <glm/gtc/quaternion.hpp>
#include <glm/gtc/matrix_transform.hpp>
#include <glm/gtc/matrix_inverse.hpp>
#include <glm/gtc/matrix_access.hpp>
#include <glm/gtc/packing.hpp>
#include <glm/gtc/round.hpp>
#include <glm/gtc/ulp.hpp>
#include <glm/gtc/integer.hpp>
#include <glm/gtc/epsilon.hpp>
#include <glm/gtc/reciprocal.hpp>
#include <glm/gtc/bitfield.hpp>
#include <glm/gtc/color_space.hpp>
#include <glm/ext/scalar_common.hpp>
#include <glm/ext/vector_common.hpp>
#include <glm/ext/scalar_ulp.hpp>
#include <glm/ext/vector_ulp.hpp>
#include <glm/ext/matrix_clip_space.hpp>
#include <glm/ext/matrix_projection.hpp>
#include <glm/ext/scalar_integer.hpp>
#include <glm/ext/vector_integer.hpp>
#include <glm/gtx/matrix_decompose.hpp>
#include <glm/gtx/quaternion.hpp>
#include <glm/gtx/common.hpp>
#include <glm/gtx/dual_quaternion.hpp>
#include <glm/gtx/rotate_vector.hpp>
#include <glm/gtx/norm.hpp>
#include <glm/gtx/projection.hpp>
#include <glm/gtx/perpendicular.hpp>
#include <glm/gtx/component_wise.hpp>
#include <glm/gtx/normal.hpp>
#include <glm/gtx/closest_point.hpp>
#include <glm/gtx/transform.hpp>
#include <glm/gtx/euler_angles.hpp>
#include <glm/gtx/color_space.hpp>
#include <glm/gtx/color_space_YCoCg.hpp>
#include <cstring>
#include <string>
#include <vector>

#ifndef OPS_PART
#define OPS_PART 0
#endif
#ifdef OPS_WITH_MEDIUMP
#define OPS_MEDIUMP(x) x
#else
#define OPS_MEDIUMP(x)
#endif
#ifndef OPS_ALIGNED
#define OPS_ALIGNED 0
#endif
#if OPS_ALIGNED
#define QH glm::aligned_highp
#define QM glm::aligned_mediump
#define QL glm::aligned_lowp
#else
#define QH glm::packed_highp
#define QM glm::packed_mediump
#define QL glm::packed_lowp
#endif

std::vector<OpInfo>& ops_vec();

template <class T> struct SA;
template <> struct SA<float> { static float get(const Slot& s) { return s.f; } static void put(Slot& s, float v) { s.ul = 0; s.f = v; } enum { L = 'f' }; static const char* name() { return "float"; } };
template <> struct SA<double> { static double get(const Slot& s) { return s.d; } static void put(Slot& s, double v) { s.d = v; } enum { L = 'd' }; static const char* name() { return "double"; } };
template <> struct SA<int> { static int get(const Slot& s) { return s.i; } static void put(Slot& s, int v) { s.ul = 0; s.i = v; } enum { L = 'i' }; static const char* name() { return "int"; } };
template <> struct SA<unsigned> { static unsigned get(const Slot& s) { return s.u; } static void put(Slot& s, unsigned v) { s.ul = 0; s.u = v; } enum { L = 'u' }; static const char* name() { return "uint"; } };
template <> struct SA<bool> { static bool get(const Slot& s) { return s.i != 0; } static void put(Slot& s, bool v) { s.ul = 0; s.i = v ? 1 : 0; } enum { L = 'b' }; static const char* name() { return "bool"; } };

template <glm::qualifier Q> struct QN;
template <> struct QN<QH> { static const char* name() { return "highp"; } };
template <> struct QN<QM> { static const char* name() { return "mediump"; } };
template <> struct QN<QL> { static const char* name() { return "lowp"; } };

template <int L, class T, glm::qualifier Q> struct VL;
template <class T, glm::qualifier Q> struct VL<1, T, Q> { static glm::vec<1, T, Q> ld(const Slot* s) { return glm::vec<1, T, Q>(SA<T>::get(s[0])); } };
template <class T, glm::qualifier Q> struct VL<2, T, Q> { static glm::vec<2, T, Q> ld(const Slot* s) { return glm::vec<2, T, Q>(SA<T>::get(s[0]), SA<T>::get(s[1])); } };
template <class T, glm::qualifier Q> struct VL<3, T, Q> { static glm::vec<3, T, Q> ld(const Slot* s) { return glm::vec<3, T, Q>(SA<T>::get(s[0]), SA<T>::get(s[1]), SA<T>::get(s[2])); } };
template <class T, glm::qualifier Q> struct VL<4, T, Q> { static glm::vec<4, T, Q> ld(const Slot* s) { return glm::vec<4, T, Q>(SA<T>::get(s[0]), SA<T>::get(s[1]), SA<T>::get(s[2]), SA<T>::get(s[3])); } };

template <glm::length_t L, class T, glm::qualifier Q> static inline void ST(Slot* o, glm::vec<L, T, Q> const& v) { for (int i = 0; i < (int)L; ++i) SA<T>::put(o[i], v[i]); }
template <class T> static inline void ST1(Slot* o, T v) { SA<T>::put(o[0], v); }
template <int C, int R, class T, glm::qualifier Q> static inline glm::mat<C, R, T, Q> LDM(const Slot* s) {
	glm::mat<C, R, T, Q> m;
	for (int c = 0; c < C; ++c) m[c] = VL<R, T, Q>::ld(s + c * R);
	return m;
}
template <glm::length_t C, glm::length_t R, class T, glm::qualifier Q> static inline void STM(Slot* o, glm::mat<C, R, T, Q> const& m) {
	for (int c = 0; c < C; ++c) for (int r = 0; r < R; ++r) SA<T>::put(o[c * R + r], m[c][r]);
}
template <class T, glm::qualifier Q> static inline glm::qua<T, Q> LDQ(const Slot* s) {  // slots in w,x,y,z order (independent of memory order)
	return glm::qua<T, Q>(SA<T>::get(s[0]), SA<T>::get(s[1]), SA<T>::get(s[2]), SA<T>::get(s[3]));
}
template <class T, glm::qualifier Q> static inline void STQ(Slot* o, glm::qua<T, Q> const& q) { SA<T>::put(o[0], q.w); SA<T>::put(o[1], q.x); SA<T>::put(o[2], q.y); SA<T>::put(o[3], q.z); }

template <class T> static inline long double amax(const Slot* in, int first, int n) {
	long double m = 0;
	for (int i = first; i < first + n; ++i) { long double v = (long double)SA<T>::get(in[i]); if (v < 0) v = -v; if (v > m) m = v; }
	return m;
}
template <class T> static inline long double asum(const Slot* in, int first, int n) {
	long double m = 0;
	for (int i = first; i < first + n; ++i) { long double v = (long double)SA<T>::get(in[i]); m += v < 0 ? -v : v; }
	return m;
}

// '@' in a spec string stands for the element type letter of the instance; '#' for the vector length digit(s)
static inline const char* spec(const char* s, char tl, int L = 0) {
	std::string o;
	for (; *s; ++s) {
		if (*s == '@') o += tl;
		else if (*s == '#') o += std::to_string(L);
		else o += *s;
	}
	return strdup(o.c_str());
}
static inline void add_op(const std::string& name, const char* args, const char* outs, char cls, char cls_lowp, int k, OpFn fn, ScaleFn sc = nullptr, ScaleFn guard = nullptr) {
	OpInfo o; o.name = strdup(name.c_str()); o.args = args; o.outs = outs; o.cls = cls; o.cls_lowp = cls_lowp; o.k = k; o.fn = fn; o.scale = sc; o.guard = guard;
	ops_vec().push_back(o);
}
template <class T, glm::qualifier Q> static inline std::string nm(const char* base, const char* shape) { return std::string(base) + "." + shape + "." + SA<T>::name() + "." + QN<Q>::name(); }
template <class T, glm::qualifier Q, int L> static inline std::string nmv(const char* base) { return nm<T, Q>(base, (std::string("vec") + std::to_string(L)).c_str()); }

#define FN [](const Slot* in, Slot* out)
#define SC [](const Slot* in) -> long double

struct Registrar { Registrar(void (*f)()) { f(); } };
