// optable.hpp — interface between the per-configuration operation libraries (libops_<cfg>.so) and the
// differential driver. No GLM types cross this interface: inputs and outputs are arrays of 8-byte slots.
#pragma once
#include <cstdint>

struct Slot {
	union { float f; double d; int32_t i; uint32_t u; int64_t l; uint64_t ul; };
};

typedef void (*OpFn)(const Slot* in, Slot* out);
typedef long double (*ScaleFn)(const Slot* in);

// args : space separated tokens <type><domain><count>, type f/d/i/u, count 1..16
//   float domains : G general non-NaN (specials, ties, huge, tiny, inf) | F finite moderate | N anything incl. NaN |
//                   P positive moderate | U unit-length group | A angle | Z in [0,1] | X finite, incl. 0 and tiny/huge
//   int domains   : I anything | M small magnitude (|x| < 2^12) | S shift count [0,32) | D non-zero small | K [0,32]
// outs : tokens <type><count>, type f/d/i/u/b(bool as int32)
// cls  : B bit-identical | V same value (or both NaN) | U within k ulp of `scale(in)` | R relative 2^-11 (lowp approximations)
struct OpInfo {
	const char* name;
	const char* args;
	const char* outs;
	char cls;       // class for highp / mediump
	char cls_lowp;  // class when the qualifier is lowp (R where GLM documents a hardware approximation)
	int k;          // ulp multiplier for class U
	OpFn fn;
	ScaleFn scale;  // class U: largest intermediate magnitude; null: per-component k-ulp comparison
	ScaleFn guard;  // optional: relative distance of the inputs from a branch threshold / singularity; cases below 2^-10 are counted, not compared
};

extern "C" {
int op_count();
const OpInfo* op_info(int i);
unsigned cfg_simd();         // GLM_CONFIG_SIMD
unsigned cfg_arch();         // GLM_ARCH
unsigned cfg_aligned();      // 1 when the library was built on aligned types
const char* cfg_name();
}
