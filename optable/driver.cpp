// driver.cpp — differential driver over per-configuration operation libraries (C03, C15, C20).
// Loads libops_<cfg>.so files (each a separately compiled copy of GLM, hidden visibility, RTLD_LOCAL), feeds the
// same generated input slots to the same-named operation in every library and compares the outputs with the
// operation's comparison class. One pbt target per operation; failure key = <configuration>/<class>.
#include "fp.hpp"
#include "optable.hpp"
#include <dlfcn.h>
#include <atomic>
#include <thread>
#include <xmmintrin.h>
#include <map>
#include <string>
#include <utility>

struct Lib {
	std::string name, path;
	void* h = nullptr;
	std::map<std::string, const OpInfo*> ops;
	unsigned simd = 0, aligned = 0;
};
struct Arg { char type, dom; int n; };
struct OpEntry {
	std::string name;
	const OpInfo* base;
	std::vector<std::pair<int, const OpInfo*>> others;  // (lib index, op)
	std::vector<Arg> args, outs;
	int nin = 0, nout = 0;
	bool lowp = false;
	bool zero_sign_free = false;  // min/max family: GLSL and C leave the sign of a zero result unspecified (fmax(-0,+0) may be either)
};
static std::vector<Lib> g_libs;
static std::vector<OpEntry> g_ops;
static bool g_threads_mode = false;  // C20: two threads run the same operation concurrently (ThreadSanitizer build)
static std::atomic<int> g_tsan_reports(0);
#if defined(__has_feature)
#if __has_feature(thread_sanitizer)
#define OPS_TSAN 1
extern "C" void __tsan_on_report(void*) { g_tsan_reports++; }  // the runtime calls this for every report it produces
#endif
#endif
static bool g_bits_mode = false;   // C15: every output must be bit-identical (NaN payloads aside)
static const char* g_prop = "C03";

static std::vector<Arg> parse_spec(const char* s, bool outs) {
	std::vector<Arg> v;
	while (*s) {
		while (*s == ' ') ++s;
		if (!*s) break;
		Arg a; a.type = *s++; a.dom = outs ? 'o' : *s++; a.n = (int)strtol(s, (char**)&s, 10);
		v.push_back(a);
	}
	return v;
}
static int slots_of(const Arg& a) { return (a.dom == 'O' || a.dom == 'L') ? 2 * a.n : a.n; }

// ------------------------------------------------------------------------------------------ generators
template <class T> static T gen_dom(pbt::Ctx& c, char dom) {
	using namespace fp;
	switch (dom) {
	case 'G': return gen_float<T>(c, FD_NONNAN);
	case 'N': { T v = gen_float<T>(c, FD_ANY); if (is_nan(v)) v = std::numeric_limits<T>::quiet_NaN() * (sign_bit(v) ? T(-1) : T(1)); return v; }  // quiet NaNs only: GLSL has no signalling NaN
	case 'X': return gen_float<T>(c, FD_FINITE);
	case 'F': return gen_moderate<T>(c, 6, 6);
	case 'P': { T v = gen_moderate<T>(c, 6, 6); v = v < 0 ? -v : v; return v == 0 ? T(0.5) : v; }
	case 'Y': { T v = gen_moderate<T>(c, 6, 6); return v == 0 ? T(1) : v; }
	case 'J': { T v = gen_float<T>(c, FD_NONNAN); return sign_bit(v) ? -v : v; }
	case 'Z': { uint64_t k = c.draw(6); return k == 0 ? T(0) : k == 1 ? T(1) : k == 2 ? T(0.5) : (T)c.unit(); }
	case 'A': { uint64_t k = c.draw(4); if (k == 0) return (T)((double)c.range(-8, 8) * 0.78539816339744830962); return (T)c.uniform(-7.0, 7.0); }
	case 'T': { uint64_t k = c.draw(6); return k == 0 ? T(0) : k == 1 ? T(1) : k == 2 ? T(-1) : (T)c.uniform(-1.0, 1.0); }
	case 'R': { T v = gen_moderate<T>(c, 6, 6); return T(1) + (v < 0 ? -v : v); }
	case 'Q': { uint64_t k = c.draw(4); if (k == 0) return (T)((double)c.range(0, 2000) * 0.5); if (k == 1) return (T)c.uniform(0.0, 1073741000.0); return (T)c.uniform(0.0, 100.0); }
	case 'C': { uint64_t k = c.draw(4); if (k == 0) return (T)((double)c.range(-2000, 2000) * 0.5); if (k == 1) return (T)c.uniform(-2147483000.0, 2147483000.0); return gen_moderate<T>(c, 10, 20); }
	default: return gen_moderate<T>(c, 6, 6);
	}
}
template <class T> static void put(Slot& s, T v);
template <> void put<float>(Slot& s, float v) { s.ul = 0; s.f = v; }
template <> void put<double>(Slot& s, double v) { s.d = v; }
template <class T> static T get(const Slot& s);
template <> float get<float>(const Slot& s) { return s.f; }
template <> double get<double>(const Slot& s) { return s.d; }

template <class T> static void gen_float_group(pbt::Ctx& c, const Arg& a, Slot* s, const Slot* prevE) {
	const int n = a.n;
	switch (a.dom) {
	case 'U': {  // unit-length group
		long double v[16], nn = 0;
		if (c.draw(8) == 0) { for (int i = 0; i < n; ++i) v[i] = 0; v[c.draw(n)] = c.coin() ? 1 : -1; nn = 1; }
		else { for (int i = 0; i < n; ++i) { v[i] = (long double)gen_dom<T>(c, 'F'); nn += v[i] * v[i]; } if (nn == 0) { v[0] = 1; nn = 1; } }
		nn = sqrtl(nn);
		for (int i = 0; i < n; ++i) put<T>(s[i], (T)(v[i] / nn));
		return;
	}
	case 'V': {
		bool ok = false;
		for (int i = 0; i < n; ++i) { T v = gen_dom<T>(c, 'F'); put<T>(s[i], v); if (v >= T(0.015625) || v <= T(-0.015625)) ok = true; }
		if (!ok) put<T>(s[0], T(1));
		return;
	}
	case 'W': {  // well-conditioned square matrix: dominant diagonal
		int N = n == 4 ? 2 : n == 9 ? 3 : 4;
		for (int col = 0; col < N; ++col) for (int r = 0; r < N; ++r) {
			T v = (col == r) ? (T)((c.coin() ? 1 : -1) * c.uniform(1.0, 4.0)) : (T)c.uniform(-0.2, 0.2);
			put<T>(s[col * N + r], v);
		}
		return;
	}
	case 'E': {
		if (prevE) {
			for (int i = 0; i < n; ++i) {
				T v = get<T>(prevE[i]);
				uint64_t k = c.draw(8);
				if (k == 1) v = gen_dom<T>(c, 'G'); else if (k == 2) v = -v; else if (k == 3) v = fp::frombits<T>(fp::tobits(v) + 1);
				put<T>(s[i], v);
			}
		} else for (int i = 0; i < n; ++i) put<T>(s[i], gen_dom<T>(c, c.draw(16) == 0 ? 'N' : 'G'));
		return;
	}
	case 'O': for (int i = 0; i < n; ++i) { T x = gen_dom<T>(c, 'G'), y = gen_dom<T>(c, 'G'); put<T>(s[i], x < y ? x : y); put<T>(s[n + i], x < y ? y : x); } return;
	case 'L': for (int i = 0; i < n; ++i) { T x = gen_dom<T>(c, 'F'), d = gen_dom<T>(c, 'P'); put<T>(s[i], x); put<T>(s[n + i], x + d + T(0.015625)); } return;
	default: for (int i = 0; i < n; ++i) put<T>(s[i], gen_dom<T>(c, a.dom));
	}
}
static void gen_int_group(pbt::Ctx& c, const Arg& a, Slot* s, const Slot* prevE) {
	const bool sg = a.type == 'i';
	auto any = [&]() -> uint32_t { return sg ? (uint32_t)fp::gen_int<int32_t>(c) : fp::gen_int<uint32_t>(c); };
	auto set = [&](Slot& sl, uint32_t v) { sl.ul = 0; sl.u = v; };
	const int n = a.n;
	for (int i = 0; i < n; ++i) {
		switch (a.dom) {
		case 'I': set(s[i], any()); break;
		case 'M': set(s[i], sg ? (uint32_t)(int32_t)c.range(-4095, 4095) : (uint32_t)c.range(0, 4095)); break;
		case 'S': set(s[i], (uint32_t)c.draw(32)); break;
		case 'W': set(s[i], (uint32_t)c.draw(16)); break;
		case 'H': set(s[i], (uint32_t)c.draw(32768)); break;
		case 'K': set(s[i], (uint32_t)(int32_t)c.range(-20, 20)); break;
		case 'B': set(s[i], (uint32_t)c.draw(2)); break;
		case 'D': { if (sg) { int32_t v = (int32_t)c.range(1, 4095); set(s[i], (uint32_t)(c.coin() ? -v : v)); } else { uint32_t v = any(); set(s[i], v ? v : 1u); } break; }
		case 'E': {
			if (prevE) { uint32_t v = prevE[i].u; uint64_t k = c.draw(8); if (k == 1) v = any(); else if (k == 2) v ^= 1u << c.draw(32); set(s[i], v); }
			else set(s[i], any());
			break;
		}
		case 'O': { uint32_t x = any(), y = any(); bool lt = sg ? ((int32_t)x < (int32_t)y) : (x < y); set(s[i], lt ? x : y); set(s[n + i], lt ? y : x); break; }
		default: set(s[i], any());
		}
	}
}

static void gen_inputs(pbt::Ctx& c, const OpEntry& op, Slot* in) {
	int pos = 0; const Slot* prevE = nullptr; int prevEn = 0;
	for (const Arg& a : op.args) {
		const Slot* pe = (a.dom == 'E' && prevE && prevEn == a.n) ? prevE : nullptr;
		if (a.type == 'f') gen_float_group<float>(c, a, in + pos, pe);
		else if (a.type == 'd') gen_float_group<double>(c, a, in + pos, pe);
		else gen_int_group(c, a, in + pos, pe);
		if (a.dom == 'E') { prevE = pe ? nullptr : in + pos; prevEn = a.n; }
		pos += slots_of(a);
	}
}
static std::string fmt_slots(const std::vector<Arg>& spec, const Slot* s) {
	std::string o; char b[64]; int pos = 0;
	for (const Arg& a : spec) {
		o += "(";
		for (int i = 0; i < slots_of(a); ++i, ++pos) {
			if (a.type == 'f') snprintf(b, sizeof b, "%a", (double)s[pos].f);
			else if (a.type == 'd') snprintf(b, sizeof b, "%a", s[pos].d);
			else if (a.type == 'u') snprintf(b, sizeof b, "%uu", s[pos].u);
			else snprintf(b, sizeof b, "%d", s[pos].i);
			o += (i ? "," : ""); o += b;
		}
		o += ")";
	}
	return o;
}

// ------------------------------------------------------------------------------------------ comparison
template <class T> static const char* cmp_float(T a, T b, char cls, int k, long double scale, bool has_scale, double* ratio) {
	using namespace fp;
	*ratio = 0;
	if (same_bits(a, b)) return nullptr;
	if (is_nan(a) && is_nan(b)) return nullptr;
	if (cls == 'B') return g_bits_mode ? "bits" : "bits";
	if (a == b) return nullptr;  // +0 / -0
	if (is_nan(a) || is_nan(b) || is_inf(a) || is_inf(b)) {
		if (cls == 'V') return "value";
		// overflow of one side at the edge of the range is a 1-ulp-class difference only when the other is max; treat as failure
		return "value-special";
	}
	if (cls == 'V') return "value";
	long double d = (long double)a - (long double)b; if (d < 0) d = -d;
	if (cls == 'R' || cls == 'r') {
		long double m = std::fabs((long double)a) > std::fabs((long double)b) ? std::fabs((long double)a) : std::fabs((long double)b);
		if (has_scale && scale > m) m = scale;
		long double tol = m * (cls == 'r' ? (1.0L / 256 + 1.0L / 2048) : (1.0L / 2048)) + (long double)std::numeric_limits<T>::min();
		*ratio = (double)(d / tol);
		return d <= tol ? nullptr : "rel-2^-11";
	}
	long double tol;
	if (has_scale) tol = k * ulp_at<T>(scale);
	else { long double m = std::fabs((long double)a) > std::fabs((long double)b) ? std::fabs((long double)a) : std::fabs((long double)b); tol = k * ulp_at<T>(m); }
	*ratio = (double)(d / tol);
	return d <= tol ? nullptr : "ulp";
}

static void prop_op(pbt::Ctx& c, int idx) {
	const OpEntry& op = g_ops[idx];
	Slot in[160], ref[64], out[64];
	memset(in, 0, sizeof in);
	gen_inputs(c, op, in);
	if (c.verbose) c.logf("%s in=%s", op.name.c_str(), fmt_slots(op.args, in).c_str());
	// non-trivial: inputs not all equal
	bool alleq = true;
	for (int i = 1; i < op.nin; ++i) if (in[i].ul != in[0].ul) alleq = false;
	if (!alleq || op.nin == 1) c.nontrivial();
	if (op.base->guard) {
		long double g = op.base->guard(in);
		if (!(g >= 1.0L / 1024)) { c.cls("near-threshold(not-compared)"); return; }
	}
	if (op.lowp && !g_bits_mode && (op.base->cls_lowp == 'R' || op.base->cls_lowp == 'r')) {
		// hardware reciprocal / rsqrt approximations are specified on the normal range only: inputs whose magnitude is outside
		// [2^-60, 2^60] (denormal reciprocals, overflowing reciprocals) are counted, not compared
		int pos = 0; bool extreme = false;
		for (const Arg& a : op.args) for (int i = 0; i < slots_of(a); ++i, ++pos) {
			double v = a.type == 'f' ? (double)in[pos].f : a.type == 'd' ? in[pos].d : 1.0;
			double m = std::fabs(v);
			if (m != 0 && !(m >= 8.673617379884035e-19 && m <= 1.152921504606847e18)) extreme = true;
		}
		if (extreme) { c.cls("lowp-extreme-magnitude(not-compared)"); return; }
	}
	if (g_threads_mode) {
		// re-entrancy: a second thread evaluates the operation on other inputs while this thread evaluates it on `in`, without any
		// synchronisation between the two. The result must be the single-threaded one, and (ThreadSanitizer build) no data race may be
		// reported: a function-local static or any other shared scratch storage inside GLM is a race even when the values happen to agree.
		Slot in2[160]; memset(in2, 0, sizeof in2);
		gen_inputs(c, op, in2);
		for (size_t li = 0; li <= op.others.size(); ++li) {
			const OpInfo* oi = li == 0 ? op.base : op.others[li - 1].second;
			const std::string& ln = li == 0 ? g_libs[0].name : g_libs[op.others[li - 1].first].name;
			Slot s1[64], s2[64], o1[64], o2[64];
			memset(s1, 0, sizeof s1); memset(s2, 0, sizeof s2);
			oi->fn(in, s1); oi->fn(in2, s2);  // single-threaded results
			const int before = g_tsan_reports.load();
			bool differs = false;
			{
				std::thread t([&] { for (int k = 0; k < 8; ++k) { memset(o2, 0, sizeof o2); oi->fn(in2, o2); } });
				for (int k = 0; k < 8; ++k) { memset(o1, 0, sizeof o1); oi->fn(in, o1); if (memcmp(o1, s1, sizeof o1) != 0) differs = true; }
				t.join();
				if (memcmp(o2, s2, sizeof o2) != 0) differs = true;
			}
			if (g_tsan_reports.load() != before) c.failk("tsan/" + ln + "/data-race", "%s in %s: ThreadSanitizer reported a data race while two threads evaluated the operation concurrently on inputs %s and %s", op.name.c_str(), ln.c_str(), fmt_slots(op.args, in).c_str(), fmt_slots(op.args, in2).c_str());
			if (differs) {
				bool nanonly = true;  // NaN payloads may differ between evaluations of the same input
				int pos = 0;
				for (const Arg& a : op.outs) for (int i = 0; i < slots_of(a); ++i, ++pos) {
					if (o1[pos].ul == s1[pos].ul && o2[pos].ul == s2[pos].ul) continue;
					bool n1 = a.type == 'f' ? (fp::is_nan(o1[pos].f) && fp::is_nan(s1[pos].f)) : a.type == 'd' ? (fp::is_nan(o1[pos].d) && fp::is_nan(s1[pos].d)) : false;
					bool n2 = a.type == 'f' ? (fp::is_nan(o2[pos].f) && fp::is_nan(s2[pos].f)) : a.type == 'd' ? (fp::is_nan(o2[pos].d) && fp::is_nan(s2[pos].d)) : false;
					if (!((o1[pos].ul == s1[pos].ul || n1) && (o2[pos].ul == s2[pos].ul || n2))) nanonly = false;
				}
				if (!nanonly) c.failk("tsan/" + ln + "/concurrent-result-differs", "%s in %s: evaluated concurrently with another call, f(%s) = %s, single-threaded %s", op.name.c_str(), ln.c_str(), fmt_slots(op.args, in).c_str(), fmt_slots(op.outs, o1).c_str(), fmt_slots(op.outs, s1).c_str());
			}
		}
		return;
	}
	// every operation is a pure function of its arguments: one case in eight evaluates f(in), f(other inputs), f(in) in every library and
	// requires the first and third results to be bit-identical (hidden state carried from one call to the next; the two-call history is
	// part of the case, so it replays from the choice list)
	if (c.draw(8) == 0) {
		Slot in2[160], o1[64], o2[64], o3[64];
		memset(in2, 0, sizeof in2);
		gen_inputs(c, op, in2);
		c.cls("two-call history");
		for (size_t li = 0; li <= op.others.size(); ++li) {
			const OpInfo* oi = li == 0 ? op.base : op.others[li - 1].second;
			const std::string& ln = li == 0 ? g_libs[0].name : g_libs[op.others[li - 1].first].name;
			memset(o1, 0, sizeof o1); memset(o2, 0, sizeof o2); memset(o3, 0, sizeof o3);
			oi->fn(in, o1); oi->fn(in2, o2); oi->fn(in, o3);
			bool same = true; int pos = 0;
			for (const Arg& a : op.outs) for (int i = 0; i < slots_of(a); ++i, ++pos) {
				if (o1[pos].ul == o3[pos].ul) continue;
				if (a.type == 'f' && fp::is_nan(o1[pos].f) && fp::is_nan(o3[pos].f)) continue;
				if (a.type == 'd' && fp::is_nan(o1[pos].d) && fp::is_nan(o3[pos].d)) continue;
				same = false;
			}
			if (!same) c.failk(ln + "/depends-on-previous-call", "%s in %s: f(x) = %s, then f(%s), then f(x) = %s", op.name.c_str(), ln.c_str(), fmt_slots(op.outs, o1).c_str(), fmt_slots(op.args, in2).c_str(), fmt_slots(op.outs, o3).c_str());
		}
	}
	memset(ref, 0, sizeof ref);
	const unsigned csr0 = _mm_getcsr() & ~0x3fu;  // control part of MXCSR (rounding mode, FTZ, DAZ, exception masks); bits 0-5 are sticky flags
	op.base->fn(in, ref);
	if ((_mm_getcsr() & ~0x3fu) != csr0) { unsigned now = _mm_getcsr() & ~0x3fu; _mm_setcsr(csr0); c.failk(g_libs[0].name + "/mxcsr-changed", "%s in %s changed the MXCSR control bits from 0x%04x to 0x%04x: every later floating-point operation of the thread is affected", op.name.c_str(), g_libs[0].name.c_str(), csr0, now); }
	long double scale = 0; bool has_scale = op.base->scale != nullptr;
	if (has_scale) scale = op.base->scale(in);
	if (c.verbose) c.logf("%s=%s", g_libs[0].name.c_str(), fmt_slots(op.outs, ref).c_str());
	for (auto& ot : op.others) {
		const Lib& lib = g_libs[ot.first];
		memset(out, 0, sizeof out);
		ot.second->fn(in, out);
		if ((_mm_getcsr() & ~0x3fu) != csr0) { unsigned now = _mm_getcsr() & ~0x3fu; _mm_setcsr(csr0); c.failk(lib.name + "/mxcsr-changed", "%s in %s changed the MXCSR control bits from 0x%04x to 0x%04x: every later floating-point operation of the thread is affected", op.name.c_str(), lib.name.c_str(), csr0, now); }
		char cls = g_bits_mode ? (op.zero_sign_free ? 'V' : 'B') : (op.lowp ? op.base->cls_lowp : op.base->cls);
		int pos = 0; const char* why = nullptr; int badpos = -1; double worst = 0;
		for (const Arg& a : op.outs) for (int i = 0; i < a.n; ++i, ++pos) {
			const char* w = nullptr; double r = 0;
			if (a.type == 'f') w = cmp_float<float>(ref[pos].f, out[pos].f, cls, op.base->k, scale, has_scale, &r);
			else if (a.type == 'd') w = cmp_float<double>(ref[pos].d, out[pos].d, cls, op.base->k, scale, has_scale, &r);
			else if (ref[pos].u != out[pos].u) w = "int";
			if (r > worst) worst = r;
			if (w && !why) { why = w; badpos = pos; }
		}
		if (worst > 0) c.metric("max err/tol", worst);
		std::string whys = why ? why : "";
		if (why && op.args.size() == 1 && badpos < op.nin) {  // component-wise unary op: name the input class of the failing lane
			const Arg& a0 = op.args[0];
			double xin = a0.type == 'f' ? (double)in[badpos].f : a0.type == 'd' ? in[badpos].d : 0.0;
			if ((a0.type == 'f' || a0.type == 'd') && std::fabs(xin) < 4503599627370496.0 && std::fabs(xin - std::trunc(xin)) == 0.5) whys += "-tie";
		}
		if (why) {
			c.failk(lib.name + "/" + whys, "%s: %s gives %s, %s gives %s (first difference at output %d) for inputs %s", op.name.c_str(), g_libs[0].name.c_str(), fmt_slots(op.outs, ref).c_str(),
			        lib.name.c_str(), fmt_slots(op.outs, out).c_str(), badpos, fmt_slots(op.args, in).c_str());
		}
	}
}
template <int I> static void tramp(pbt::Ctx& c) { prop_op(c, I); }
template <int... Is> static void fill_tramps(pbt::PropFn* t, std::integer_sequence<int, Is...>) { ((t[Is] = &tramp<Is>), ...); }
static const int MAXOPS = 8192;
static pbt::PropFn g_tramps[MAXOPS];
template <int B> static void fill_block() { fill_tramps(g_tramps, std::make_integer_sequence<int, 0>()); }

template <int Base, int... Is> static void fill_from(std::integer_sequence<int, Is...>) {
	static const pbt::PropFn block[] = {&tramp<Base + Is>...};
	for (size_t i = 0; i < sizeof...(Is); ++i) g_tramps[Base + i] = block[i];
}

int main(int argc, char** argv) {
	fill_from<0>(std::make_integer_sequence<int, 1024>());
	fill_from<1024>(std::make_integer_sequence<int, 1024>());
	fill_from<2048>(std::make_integer_sequence<int, 1024>());
	fill_from<3072>(std::make_integer_sequence<int, 1024>());
	fill_from<4096>(std::make_integer_sequence<int, 1024>());
	fill_from<5120>(std::make_integer_sequence<int, 1024>());
	fill_from<6144>(std::make_integer_sequence<int, 1024>());
	fill_from<7168>(std::make_integer_sequence<int, 1024>());
	const char* libs = getenv("OPS_LIBS");
	if (!libs) { fprintf(stderr, "OPS_LIBS not set\n"); return 2; }
	if (const char* m = getenv("OPS_MODE")) { g_bits_mode = !strcmp(m, "bits"); g_threads_mode = !strcmp(m, "threads"); }
	if (const char* p = getenv("OPS_PROPERTY")) g_prop = p;
	const char* filter = getenv("OPS_FILTER");  // optional substring of operation names
	std::string s = libs;
	size_t p = 0;
	while (p < s.size()) {
		size_t e = s.find(';', p); if (e == std::string::npos) e = s.size();
		std::string item = s.substr(p, e - p); p = e + 1;
		if (item.empty()) continue;
		size_t c = item.find(':');
		Lib L; L.name = item.substr(0, c); L.path = item.substr(c + 1);
		L.h = dlopen(L.path.c_str(), RTLD_NOW | RTLD_LOCAL);
		if (!L.h) { fprintf(stderr, "dlopen %s: %s\n", L.path.c_str(), dlerror()); return 2; }
		auto cnt = (int (*)())dlsym(L.h, "op_count"); auto inf = (const OpInfo* (*)(int))dlsym(L.h, "op_info");
		auto simd = (unsigned (*)())dlsym(L.h, "cfg_simd"); auto al = (unsigned (*)())dlsym(L.h, "cfg_aligned");
		if (!cnt || !inf) { fprintf(stderr, "%s: missing entry points\n", L.path.c_str()); return 2; }
		int n = cnt();
		for (int i = 0; i < n; ++i) L.ops[inf(i)->name] = inf(i);
		L.simd = simd ? simd() : 0; L.aligned = al ? al() : 0;
		fprintf(stderr, "[lib] %-28s ops=%d GLM_CONFIG_SIMD=%u aligned=%u\n", L.name.c_str(), n, L.simd, L.aligned);
		if (const char* need = getenv("OPS_REQUIRE_SIMD")) if (g_libs.size() >= 1 && !strcmp(need, "1") && !L.simd && L.name.compare(0, 4, "pure") != 0 /* a second pure library (pure-wxyz) is a legitimate comparand */) { fprintf(stderr, "library %s was expected to be a SIMD build but GLM_CONFIG_SIMD is off\n", L.name.c_str()); return 2; }
		g_libs.push_back(L);
	}
	if (g_libs.size() < 2) { fprintf(stderr, "need at least two libraries\n"); return 2; }
	uint64_t q = 3000, t = 300000;
	if (const char* e = getenv("OPS_CASES_QUICK")) q = strtoull(e, nullptr, 10);
	if (const char* e = getenv("OPS_CASES_THOROUGH")) t = strtoull(e, nullptr, 10);
	for (auto& kv : g_libs[0].ops) {
		if (filter && kv.first.find(filter) == std::string::npos) continue;
		OpEntry E; E.name = kv.first; E.base = kv.second;
		for (size_t i = 1; i < g_libs.size(); ++i) { auto it = g_libs[i].ops.find(kv.first); if (it != g_libs[i].ops.end()) E.others.push_back({(int)i, it->second}); }
		if (E.others.empty()) continue;
		E.args = parse_spec(E.base->args, false); E.outs = parse_spec(E.base->outs, true);
		for (auto& a : E.args) E.nin += slots_of(a);
		for (auto& a : E.outs) E.nout += a.n;
		E.lowp = E.name.size() > 5 && E.name.compare(E.name.size() - 5, 5, ".lowp") == 0;
		{
			static const char* const fam[] = {"min.", "max.", "min_s.", "max_s.", "min3.", "max4.", "fmin.", "fmax.", "clamp.", "clamp_s.", "fclamp."};
			for (const char* f : fam) if (E.name.compare(0, strlen(f), f) == 0) E.zero_sign_free = true;
		}
		if (E.nin > 150 || E.nout > 60 || (int)g_ops.size() >= MAXOPS) { fprintf(stderr, "op %s too large\n", E.name.c_str()); return 2; }
		g_ops.push_back(E);
	}
	static std::string rule = "inputs generated per argument domain (specials, ties, moderate, unit vectors, well-conditioned matrices...) and fed bit-identically to every library; non-trivial = not all input slots equal";
	for (size_t i = 0; i < g_ops.size(); ++i) {
		pbt::Target T; T.name = g_ops[i].name; T.fn = g_tramps[i]; T.quick_cases = q; T.thorough_cases = t; T.rule = rule;
		pbt::targets().push_back(T);
	}
	fprintf(stderr, "[driver] %zu operations x %zu libraries, mode=%s\n", g_ops.size(), g_libs.size(), g_threads_mode ? "threads" : g_bits_mode ? "bits" : "class");
	return pbt::pbt_main(argc, argv, g_prop);
}
