// ops_common.cpp — common, exponential and trigonometric function groups (float element types).
#include "opdef.hpp"

#define U1(NAME, DOM, CLS, CLSL, K, EXPR) add_op(nmv<T, Q, L>(NAME), spec("@" DOM "#", tl, L), o, CLS, CLSL, K, FN { V x = LV::ld(in); ST(out, EXPR); })
#define U2(NAME, DOMS, CLS, CLSL, K, EXPR, SCALE) add_op(nmv<T, Q, L>(NAME), spec(DOMS, tl, L), o, CLS, CLSL, K, FN { V x = LV::ld(in); V y = LV::ld(in + L); ST(out, EXPR); }, SCALE)

template <class T, glm::qualifier Q, int L> static void reg_common() {
	typedef glm::vec<L, T, Q> V; typedef VL<L, T, Q> LV; const char tl = (char)SA<T>::L; const char* o = spec("@#", tl, L);
	const char* ob = spec("b#", tl, L); const char* oi = spec("i#", tl, L);
	U1("abs", "G", 'V', 'V', 0, glm::abs(x));
	U1("sign", "G", 'V', 'V', 0, glm::sign(x));
	U1("floor", "G", 'V', 'V', 0, glm::floor(x));
	U1("ceil", "G", 'V', 'V', 0, glm::ceil(x));
	U1("trunc", "G", 'V', 'V', 0, glm::trunc(x));
	U1("round", "G", 'V', 'V', 0, glm::round(x));
	U1("roundEven", "G", 'V', 'V', 0, glm::roundEven(x));
	U1("fract", "G", 'V', 'V', 0, glm::fract(x));
	// mod = x - y*floor(x/y): when x/y is (nearly) an integer the floor may legitimately flip between an exact and an approximate
	// (lowp) or differently rounded division; such cases are counted, not compared
	add_op(nmv<T, Q, L>("mod"), spec("@F# @Y#", tl, L), o, 'U', 'R', 8, FN { ST(out, glm::mod(LV::ld(in), LV::ld(in + L))); }, SC { return amax<T>(in, 0, L) + amax<T>(in, L, L); },
	       SC { long double g = 1; for (int i = 0; i < L; ++i) { long double q = (long double)SA<T>::get(in[i]) / (long double)SA<T>::get(in[L + i]); long double f = q - floorl(q); if (f > 0.5L) f = 1 - f; f /= (1 + (q < 0 ? -q : q)); if (f < g) g = f; } return g; });
	add_op(nmv<T, Q, L>("mod_s"), spec("@F# @Y1", tl, L), o, 'U', 'R', 8, FN { ST(out, glm::mod(LV::ld(in), SA<T>::get(in[L]))); }, SC { return amax<T>(in, 0, L) + amax<T>(in, L, 1); },
	       SC { long double g = 1; for (int i = 0; i < L; ++i) { long double q = (long double)SA<T>::get(in[i]) / (long double)SA<T>::get(in[L]); long double f = q - floorl(q); if (f > 0.5L) f = 1 - f; f /= (1 + (q < 0 ? -q : q)); if (f < g) g = f; } return g; });
	add_op(nmv<T, Q, L>("modf"), spec("@G#", tl, L), spec("@# @#", tl, L), 'V', 'V', 0, FN { V i; V f = glm::modf(LV::ld(in), i); ST(out, f); ST(out + L, i); });
	U2("min", "@G# @G#", 'V', 'V', 0, glm::min(x, y), nullptr);
	U2("max", "@G# @G#", 'V', 'V', 0, glm::max(x, y), nullptr);
	add_op(nmv<T, Q, L>("min_s"), spec("@G# @G1", tl, L), o, 'V', 'V', 0, FN { ST(out, glm::min(LV::ld(in), SA<T>::get(in[L]))); });
	add_op(nmv<T, Q, L>("max_s"), spec("@G# @G1", tl, L), o, 'V', 'V', 0, FN { ST(out, glm::max(LV::ld(in), SA<T>::get(in[L]))); });
	add_op(nmv<T, Q, L>("clamp"), spec("@G# @O#", tl, L), o, 'V', 'V', 0, FN { ST(out, glm::clamp(LV::ld(in), LV::ld(in + L), LV::ld(in + 2 * L))); });
	add_op(nmv<T, Q, L>("clamp_s"), spec("@G# @O1", tl, L), o, 'V', 'V', 0, FN { ST(out, glm::clamp(LV::ld(in), SA<T>::get(in[L]), SA<T>::get(in[L + 1]))); });
	add_op(nmv<T, Q, L>("mix"), spec("@F# @F# @Z#", tl, L), o, 'U', 'U', 8, FN { ST(out, glm::mix(LV::ld(in), LV::ld(in + L), LV::ld(in + 2 * L))); }, SC { return amax<T>(in, 0, 2 * L); });
	add_op(nmv<T, Q, L>("mix_s"), spec("@F# @F# @Z1", tl, L), o, 'U', 'U', 8, FN { ST(out, glm::mix(LV::ld(in), LV::ld(in + L), SA<T>::get(in[2 * L]))); }, SC { return amax<T>(in, 0, 2 * L); });
	add_op(nmv<T, Q, L>("mix_b"), spec("@G# @G# iB#", tl, L), o, 'B', 'B', 0, FN { ST(out, glm::mix(LV::ld(in), LV::ld(in + L), glm::vec<L, bool, Q>(VL<L, int, Q>::ld(in + 2 * L)))); });
	U2("step", "@G# @G#", 'V', 'V', 0, glm::step(x, y), nullptr);
	add_op(nmv<T, Q, L>("step_s"), spec("@G1 @G#", tl, L), o, 'V', 'V', 0, FN { ST(out, glm::step(SA<T>::get(in[0]), LV::ld(in + 1))); });
	add_op(nmv<T, Q, L>("smoothstep"), spec("@L# @F#", tl, L), o, 'U', 'R', 16, FN { ST(out, glm::smoothstep(LV::ld(in), LV::ld(in + L), LV::ld(in + 2 * L))); }, SC { return 1.0L; });
	add_op(nmv<T, Q, L>("smoothstep_s"), spec("@L1 @F#", tl, L), o, 'U', 'R', 16, FN { ST(out, glm::smoothstep(SA<T>::get(in[0]), SA<T>::get(in[1]), LV::ld(in + 2))); }, SC { return 1.0L; });
	add_op(nmv<T, Q, L>("isnan"), spec("@N#", tl, L), ob, 'B', 'B', 0, FN { ST(out, glm::isnan(LV::ld(in))); });
	add_op(nmv<T, Q, L>("isinf"), spec("@N#", tl, L), ob, 'B', 'B', 0, FN { ST(out, glm::isinf(LV::ld(in))); });
	add_op(nmv<T, Q, L>("fma"), spec("@F# @F# @F#", tl, L), o, 'U', 'U', 4, FN { ST(out, glm::fma(LV::ld(in), LV::ld(in + L), LV::ld(in + 2 * L))); }, SC { return amax<T>(in, 0, L) * amax<T>(in, L, L) + amax<T>(in, 2 * L, L); });
	add_op(nmv<T, Q, L>("frexp"), spec("@X#", tl, L), spec("@# i#", tl, L), 'B', 'B', 0, FN { glm::vec<L, int, Q> e; V m = glm::frexp(LV::ld(in), e); ST(out, m); ST(out + L, e); });
	add_op(nmv<T, Q, L>("ldexp"), spec("@F# iK#", tl, L), o, 'V', 'V', 0, FN { ST(out, glm::ldexp(LV::ld(in), VL<L, int, Q>::ld(in + L))); });
	// ext/vector_common
	U2("fmin", "@N# @N#", 'V', 'V', 0, glm::fmin(x, y), nullptr);
	U2("fmax", "@N# @N#", 'V', 'V', 0, glm::fmax(x, y), nullptr);
	add_op(nmv<T, Q, L>("fclamp"), spec("@N# @O#", tl, L), o, 'V', 'V', 0, FN { ST(out, glm::fclamp(LV::ld(in), LV::ld(in + L), LV::ld(in + 2 * L))); });
	add_op(nmv<T, Q, L>("min3"), spec("@G# @G# @G#", tl, L), o, 'V', 'V', 0, FN { ST(out, glm::min(LV::ld(in), LV::ld(in + L), LV::ld(in + 2 * L))); });
	add_op(nmv<T, Q, L>("max4"), spec("@G# @G# @G# @G#", tl, L), o, 'V', 'V', 0, FN { ST(out, glm::max(LV::ld(in), LV::ld(in + L), LV::ld(in + 2 * L), LV::ld(in + 3 * L))); });
	add_op(nmv<T, Q, L>("iround"), spec("@Q#", tl, L), oi, 'B', 'B', 0, FN { ST(out, glm::iround(LV::ld(in))); });
	// exponential: one libm call per component in every configuration -> identical values
	U1("sqrt", "J", 'V', 'R', 0, glm::sqrt(x));
	U1("inversesqrt", "P", 'U', 'r', 2, glm::inversesqrt(x));  // pure lowp uses the 2^-8 bit-trick approximation, SIMD lowp the 2^-11 rsqrt instruction
	U1("exp", "F", 'V', 'V', 0, glm::exp(x));
	U1("log", "P", 'V', 'V', 0, glm::log(x));
	U1("exp2", "F", 'V', 'V', 0, glm::exp2(x));
	U1("log2", "P", 'V', 'V', 0, glm::log2(x));
	U2("pow", "@P# @F#", 'V', 'V', 0, glm::pow(x, y), nullptr);
	// trigonometric
	U1("radians", "F", 'V', 'V', 0, glm::radians(x));
	U1("degrees", "F", 'V', 'V', 0, glm::degrees(x));
	U1("sin", "A", 'V', 'V', 0, glm::sin(x));
	U1("cos", "A", 'V', 'V', 0, glm::cos(x));
	U1("tan", "A", 'V', 'V', 0, glm::tan(x));
	U1("asin", "T", 'V', 'V', 0, glm::asin(x));
	U1("acos", "T", 'V', 'V', 0, glm::acos(x));
	U1("atan", "F", 'V', 'V', 0, glm::atan(x));
	U2("atan2", "@F# @F#", 'V', 'V', 0, glm::atan(x, y), nullptr);
	U1("sinh", "A", 'V', 'V', 0, glm::sinh(x));
	U1("cosh", "A", 'V', 'V', 0, glm::cosh(x));
	U1("tanh", "A", 'V', 'V', 0, glm::tanh(x));
	U1("asinh", "F", 'V', 'V', 0, glm::asinh(x));
	U1("acosh", "R", 'V', 'V', 0, glm::acosh(x));
	U1("atanh", "T", 'V', 'V', 0, glm::atanh(x));
}

template <glm::qualifier Q, int L> static void reg_bits() {
	add_op(nmv<float, Q, L>("floatBitsToInt"), spec("fN#", 'f', L), spec("i#", 'f', L), 'B', 'B', 0, FN { ST(out, glm::floatBitsToInt(VL<L, float, Q>::ld(in))); });
	add_op(nmv<float, Q, L>("floatBitsToUint"), spec("fN#", 'f', L), spec("u#", 'f', L), 'B', 'B', 0, FN { ST(out, glm::floatBitsToUint(VL<L, float, Q>::ld(in))); });
	add_op(nmv<float, Q, L>("intBitsToFloat"), spec("iI#", 'f', L), spec("f#", 'f', L), 'B', 'B', 0, FN { ST(out, glm::intBitsToFloat(VL<L, int, Q>::ld(in))); });
	add_op(nmv<float, Q, L>("uintBitsToFloat"), spec("uI#", 'f', L), spec("f#", 'f', L), 'B', 'B', 0, FN { ST(out, glm::uintBitsToFloat(VL<L, unsigned, Q>::ld(in))); });
}

// the bit casts after a history of component stores (construct, modify components through operator[] in a loop whose trip count is
// only known at run time, convert, use ONE lane): a cast implemented by type punning instead of a copy lets an optimising compiler
// reorder the read before the stores; one lane per instance because using all lanes keeps the object live in memory
template <glm::qualifier Q, int LANE> __attribute__((noinline)) static unsigned hist_f2u(float a, unsigned k, int which) {
	glm::vec<4, float, Q> v(a, a + 1.0f, a + 2.0f, a + 3.0f);
	for (unsigned i = 0; i < k; ++i) v[i & 3] += static_cast<float>(i);
	return which ? glm::floatBitsToUint(v)[LANE] : (unsigned)glm::floatBitsToInt(v)[LANE];
}
template <glm::qualifier Q, int LANE> __attribute__((noinline)) static float hist_u2f(unsigned a, unsigned k, int which) {
	glm::vec<4, unsigned, Q> v(a, a + 1u, a + 2u, a + 3u);
	for (unsigned i = 0; i < k; ++i) v[i & 3] += i * 2654435761u;
	return which ? glm::uintBitsToFloat(v)[LANE] : glm::intBitsToFloat(glm::vec<4, int, Q>(v))[LANE];
}
template <glm::qualifier Q> static void reg_bits_history() {
	add_op(nmv<float, Q, 4>("floatBitsToInt_after_stores"), "fF1 iW1", "u4", 'B', 'B', 0, FN { float a = in[0].f; unsigned k = (unsigned)in[1].i; ST1(out, hist_f2u<Q, 0>(a, k, 0)); ST1(out + 1, hist_f2u<Q, 1>(a, k, 0)); ST1(out + 2, hist_f2u<Q, 2>(a, k, 0)); ST1(out + 3, hist_f2u<Q, 3>(a, k, 0)); });
	add_op(nmv<float, Q, 4>("floatBitsToUint_after_stores"), "fF1 iW1", "u4", 'B', 'B', 0, FN { float a = in[0].f; unsigned k = (unsigned)in[1].i; ST1(out, hist_f2u<Q, 0>(a, k, 1)); ST1(out + 1, hist_f2u<Q, 1>(a, k, 1)); ST1(out + 2, hist_f2u<Q, 2>(a, k, 1)); ST1(out + 3, hist_f2u<Q, 3>(a, k, 1)); });
	add_op(nmv<float, Q, 4>("uintBitsToFloat_after_stores"), "uI1 iW1", "f4", 'B', 'B', 0, FN { unsigned a = in[0].u; unsigned k = (unsigned)in[1].i; ST1(out, hist_u2f<Q, 0>(a, k, 1)); ST1(out + 1, hist_u2f<Q, 1>(a, k, 1)); ST1(out + 2, hist_u2f<Q, 2>(a, k, 1)); ST1(out + 3, hist_u2f<Q, 3>(a, k, 1)); });
	add_op(nmv<float, Q, 4>("intBitsToFloat_after_stores"), "uI1 iW1", "f4", 'B', 'B', 0, FN { unsigned a = in[0].u; unsigned k = (unsigned)in[1].i; ST1(out, hist_u2f<Q, 0>(a, k, 0)); ST1(out + 1, hist_u2f<Q, 1>(a, k, 0)); ST1(out + 2, hist_u2f<Q, 2>(a, k, 0)); ST1(out + 3, hist_u2f<Q, 3>(a, k, 0)); });
}

template <glm::qualifier Q> static void reg_q() {
#if OPS_PART == 0
	reg_bits_history<Q>();
	reg_common<float, Q, 1>(); reg_common<float, Q, 2>(); reg_common<float, Q, 3>(); reg_common<float, Q, 4>();
	reg_bits<Q, 1>(); reg_bits<Q, 2>(); reg_bits<Q, 3>(); reg_bits<Q, 4>();
#else
	reg_common<double, Q, 1>(); reg_common<double, Q, 2>(); reg_common<double, Q, 3>(); reg_common<double, Q, 4>();
#endif
}
static void reg_all() { reg_q<QH>(); OPS_MEDIUMP(reg_q<QM>();) reg_q<QL>(); }
static Registrar r_common(reg_all);
