// ops_geom.cpp — geometric functions and matrix algebra.
#include "opdef.hpp"

template <class T, glm::qualifier Q, int L> static void reg_geom() {
	typedef glm::vec<L, T, Q> V; typedef VL<L, T, Q> LV; const char tl = (char)SA<T>::L; const char* o = spec("@#", tl, L); const char* o1 = spec("@1", tl, L);
	const char* a2 = spec("@F# @F#", tl, L); const char* a1 = spec("@F#", tl, L);
	add_op(nmv<T, Q, L>("dot"), a2, o1, 'U', 'U', 8, FN { ST1(out, glm::dot(LV::ld(in), LV::ld(in + L))); }, SC { long double s = 0; for (int i = 0; i < L; ++i) { long double p = (long double)SA<T>::get(in[i]) * (long double)SA<T>::get(in[L + i]); s += p < 0 ? -p : p; } return s; });
	add_op(nmv<T, Q, L>("length"), a1, o1, 'U', 'R', 8, FN { ST1(out, glm::length(LV::ld(in))); }, SC { return amax<T>(in, 0, L) * 2; });
	add_op(nmv<T, Q, L>("distance"), a2, o1, 'U', 'R', 8, FN { ST1(out, glm::distance(LV::ld(in), LV::ld(in + L))); }, SC { return amax<T>(in, 0, 2 * L) * 4; });
	add_op(nmv<T, Q, L>("normalize"), spec("@V#", tl, L), o, 'U', 'R', 8, FN { ST(out, glm::normalize(LV::ld(in))); }, SC { return 1.0L; });
	add_op(nmv<T, Q, L>("faceforward"), spec("@F# @F# @F#", tl, L), o, 'V', 'V', 0, FN { ST(out, glm::faceforward(LV::ld(in), LV::ld(in + L), LV::ld(in + 2 * L))); }, nullptr,
	       SC {  // decision = sign of dot(Nref, I): exact zero on small integers is a legitimate, exactly computed case
		       long double d = 0, s = 0; bool ints = true;
		       for (int i = 0; i < L; ++i) { long double a = (long double)SA<T>::get(in[L + i]), b = (long double)SA<T>::get(in[2 * L + i]); d += a * b; s += (a * b < 0 ? -a * b : a * b); if (a != (long double)(long long)a || b != (long double)(long long)b || a > 1024 || a < -1024 || b > 1024 || b < -1024) ints = false; }
		       if (d == 0) return ints ? 1.0L : 0.0L;
		       return (d < 0 ? -d : d) / s; });
	if constexpr (L >= 2) {
		// the decision dot(Nref, I) == 0 exactly: Nref = (I.y, -I.x, 0, ...) makes the two products cancel without rounding
		// dot(Nref, I) == -0 exactly (every product is -0: Nref = +0 vector, I all negative): "dot < 0" is false for -0, a sign-bit test is not
		add_op(nmv<T, Q, L>("faceforward_dot_negzero"), spec("@F# @P#", tl, L), o, 'V', 'V', 0, FN { V n = LV::ld(in), i = -LV::ld(in + L); V r(T(0)); ST(out, glm::faceforward(n, i, r)); });
		add_op(nmv<T, Q, L>("faceforward_dot0"), spec("@F# @F#", tl, L), o, 'V', 'V', 0, FN { V n = LV::ld(in), i = LV::ld(in + L); V r(T(0)); r[0] = i[1]; r[1] = -i[0]; ST(out, glm::faceforward(n, i, r)); });
	}
	add_op(nmv<T, Q, L>("reflect"), spec("@F# @U#", tl, L), o, 'U', 'U', 16, FN { ST(out, glm::reflect(LV::ld(in), LV::ld(in + L))); }, SC { return amax<T>(in, 0, L) * 4; });
	add_op(nmv<T, Q, L>("refract"), spec("@U# @U# @P1", tl, L), o, 'U', 'U', 64, FN { ST(out, glm::refract(LV::ld(in), LV::ld(in + L), SA<T>::get(in[2 * L]))); }, SC { return 4.0L + 4 * amax<T>(in, 2 * L, 1) * amax<T>(in, 2 * L, 1); },
	       SC {  // k = 1 - eta^2 (1 - dot(N,I)^2): near k = 0 the square root is ill-conditioned and the branch may legitimately flip
		       long double d = 0; for (int i = 0; i < L; ++i) d += (long double)SA<T>::get(in[i]) * (long double)SA<T>::get(in[L + i]);
		       long double eta = (long double)SA<T>::get(in[2 * L]); long double k = 1 - eta * eta * (1 - d * d);
		       return (k < 0 ? -k : k) / (1 + eta * eta); });
	// refract's branch decision on inputs where it cannot legitimately differ: N is a signed coordinate axis, so dot(N, I) = +-I[axis] is
	// exact in any summation order, and k = 1 - eta^2 (1 - d^2) is the same sequence of correctly rounded operations in every build; eta is
	// placed j ulps (|j| <= 20) from 1/sqrt(1 - d^2), i.e. k within a few ulps of 0 on either side. A contracted or reassociated k flips
	// the total-internal-reflection branch (zero vector against a unit-size vector) or moves sqrt(k) by ~1e-4.
	add_op(nmv<T, Q, L>("refract_axis_threshold"), spec("@U# iW1 iK1", tl, L), o, 'U', 'R', 16,
	       FN { V iv = LV::ld(in); int axis = (int)((unsigned)in[L].i % (unsigned)L); bool neg = (((unsigned)in[L].i / (unsigned)L) & 1u) != 0; int j = in[L + 1].i;
		       V n(T(0)); n[axis] = neg ? T(-1) : T(1);
		       double d = (double)iv[axis], om = 1.0 - d * d;
		       T eta = om > 1e-6 ? (T)(1.0 / std::sqrt(om)) : T(1);
		       for (int s = 0; s < (j < 0 ? -j : j); ++s) eta = std::nextafter(eta, j < 0 ? T(0) : std::numeric_limits<T>::infinity());
		       ST(out, glm::refract(iv, n, eta)); },
	       SC { int axis = (int)((unsigned)in[L].i % (unsigned)L); double d = (double)SA<T>::get(in[axis]); double om = 1.0 - d * d; long double eta = om > 1e-6 ? 1.0L / sqrtl((long double)om) : 1.0L; return 2.0L + 2 * eta; });
}
// vec3 values whose invisible 4th SIMD lane holds junk (inf / NaN / a large number): an aligned vec3 is stored in a 4-lane register and
// lane-wise operators, truncating constructors and cross() leave arbitrary data there; no visible result may depend on it.
template <class T, glm::qualifier Q> static glm::vec<3, T, Q> junk3(const Slot* in, int variant) {
	typedef glm::vec<3, T, Q> V3; typedef glm::vec<4, T, Q> V4;
	V3 v = VL<3, T, Q>::ld(in);
	T big = std::numeric_limits<T>::infinity();
	switch (variant) {
	case 0: return V3(V4(v, big));                        // truncating constructor of a vec4 with inf in w
	case 1: return V3(V4(v, big) * V4(T(1), T(1), T(1), T(0)));  // inf * 0 = NaN in w from a lane-wise operator (exact in x,y,z)
	case 2: return V3(V4(v, big) - V4(T(0), T(0), T(0), big));  // NaN in w, then truncated
	default: return V3(V4(v, T(3e30)) * T(2));
	}
}
template <class T, glm::qualifier Q> static void reg_hidden() {
	const char tl = (char)SA<T>::L; typedef glm::vec<3, T, Q> V3;
	add_op(nm<T, Q>("dot_hidden_lane", "vec3"), spec("@F3 @F3 iW1", tl), spec("@2", tl), 'U', 'U', 8, FN { V3 a = junk3<T, Q>(in, in[6].i & 3), b = junk3<T, Q>(in + 3, (in[6].i >> 2) & 3); SA<T>::put(out[0], glm::dot(a, b)); SA<T>::put(out[1], glm::dot(b, a)); },
	       SC { long double s = 0; for (int i = 0; i < 3; ++i) { long double p = (long double)SA<T>::get(in[i]) * (long double)SA<T>::get(in[3 + i]); s += p < 0 ? -p : p; } return s; });
	add_op(nm<T, Q>("length_hidden_lane", "vec3"), spec("@F3 iW1", tl), spec("@2", tl), 'U', 'R', 8, FN { V3 a = junk3<T, Q>(in, in[3].i & 3); SA<T>::put(out[0], glm::length(a)); SA<T>::put(out[1], glm::distance(a, V3(T(0)))); }, SC { return amax<T>(in, 0, 3) * 2; });
	add_op(nm<T, Q>("normalize_hidden_lane", "vec3"), spec("@V3 iW1", tl), spec("@3", tl), 'U', 'R', 8, FN { ST(out, glm::normalize(junk3<T, Q>(in, in[3].i & 3))); }, SC { return 1.0L; });
	add_op(nm<T, Q>("eq_hidden_lane", "vec3"), spec("@E3 @E3 iW1", tl), "b2", 'B', 'B', 0, FN { V3 a = junk3<T, Q>(in, in[6].i & 3), b = junk3<T, Q>(in + 3, (in[6].i >> 2) & 3); ST1(out, a == b); ST1(out + 1, a != b); });
	add_op(nm<T, Q>("reflect_hidden_lane", "vec3"), spec("@F3 @U3 iW1", tl), spec("@3", tl), 'U', 'U', 16, FN { ST(out, glm::reflect(junk3<T, Q>(in, in[6].i & 3), junk3<T, Q>(in + 3, (in[6].i >> 2) & 3))); }, SC { return amax<T>(in, 0, 3) * 4; });
	add_op(nm<T, Q>("cross_hidden_lane", "vec3"), spec("@F3 @F3 iW1", tl), spec("@3", tl), 'U', 'U', 8, FN { ST(out, glm::cross(junk3<T, Q>(in, in[6].i & 3), junk3<T, Q>(in + 3, (in[6].i >> 2) & 3))); }, SC { return 2 * amax<T>(in, 0, 3) * amax<T>(in, 3, 3); });
	add_op(nm<T, Q>("min_max_hidden_lane", "vec3"), spec("@G3 @G3 iW1", tl), spec("@6", tl), 'V', 'V', 0, FN { V3 a = junk3<T, Q>(in, in[6].i & 3), b = junk3<T, Q>(in + 3, (in[6].i >> 2) & 3); ST(out, glm::min(a, b)); ST(out + 3, glm::max(a, b)); });
}
template <class T, glm::qualifier Q> static void reg_cross() {
	typedef VL<3, T, Q> LV; const char tl = (char)SA<T>::L;
	add_op(nm<T, Q>("cross", "vec3"), spec("@F3 @F3", tl), spec("@3", tl), 'U', 'U', 8, FN { ST(out, glm::cross(LV::ld(in), LV::ld(in + 3))); }, SC { return 2 * amax<T>(in, 0, 3) * amax<T>(in, 3, 3); });
}

// matrices: C columns x R rows
template <class T, glm::qualifier Q, int C, int R> static void reg_mat() {
	typedef glm::mat<C, R, T, Q> M; const char tl = (char)SA<T>::L; const int N = C * R;
	std::string shape = "mat" + std::to_string(C) + "x" + std::to_string(R);
	std::string sN = std::to_string(N);
	const char* aM = strdup((std::string(1, tl) + "F" + sN).c_str());
	const char* aMM = strdup((std::string(aM) + " " + aM).c_str());
	const char* oM = strdup((std::string(1, tl) + sN).c_str());
	auto name = [&](const char* b) { return nm<T, Q>(b, shape.c_str()); };
	add_op(name("add"), aMM, oM, 'V', 'V', 0, FN { STM(out, LDM<C, R, T, Q>(in) + LDM<C, R, T, Q>(in + C * R)); });
	add_op(name("sub"), aMM, oM, 'V', 'V', 0, FN { STM(out, LDM<C, R, T, Q>(in) - LDM<C, R, T, Q>(in + C * R)); });
	add_op(name("neg"), aM, oM, 'B', 'B', 0, FN { STM(out, -LDM<C, R, T, Q>(in)); });
	add_op(name("mul_s"), strdup((std::string(aM) + " " + std::string(1, tl) + "F1").c_str()), oM, 'V', 'V', 0, FN { STM(out, LDM<C, R, T, Q>(in) * SA<T>::get(in[C * R])); });
	add_op(name("div_s"), strdup((std::string(aM) + " " + std::string(1, tl) + "Y1").c_str()), oM, 'U', 'R', 2, FN { STM(out, LDM<C, R, T, Q>(in) / SA<T>::get(in[C * R])); });
	add_op(name("compmult"), aMM, oM, 'V', 'V', 0, FN { STM(out, glm::matrixCompMult(LDM<C, R, T, Q>(in), LDM<C, R, T, Q>(in + C * R))); });
	add_op(name("transpose"), aM, oM, 'B', 'B', 0, FN { STM(out, glm::transpose(LDM<C, R, T, Q>(in))); });
	add_op(name("mul_vec"), strdup((std::string(aM) + " " + std::string(1, tl) + "F" + std::to_string(C)).c_str()), strdup((std::string(1, tl) + std::to_string(R)).c_str()), 'U', 'U', 8,
	       FN { ST(out, LDM<C, R, T, Q>(in) * VL<C, T, Q>::ld(in + C * R)); }, SC { return C * amax<T>(in, 0, C * R) * amax<T>(in, C * R, C); });
	add_op(name("vec_mul"), strdup((std::string(1, tl) + "F" + std::to_string(R) + " " + aM).c_str()), strdup((std::string(1, tl) + std::to_string(C)).c_str()), 'U', 'U', 8,
	       FN { ST(out, VL<R, T, Q>::ld(in) * LDM<C, R, T, Q>(in + R)); }, SC { return R * amax<T>(in, 0, R) * amax<T>(in, R, C * R); });
	add_op(name("outer"), strdup((std::string(1, tl) + "F" + std::to_string(R) + " " + std::string(1, tl) + "F" + std::to_string(C)).c_str()), oM, 'V', 'V', 0,
	       FN { STM(out, glm::outerProduct(VL<R, T, Q>::ld(in), VL<C, T, Q>::ld(in + R))); });
	add_op(name("op_eq"), strdup((std::string(1, tl) + "E" + sN + " " + std::string(1, tl) + "E" + sN).c_str()), "b1", 'B', 'B', 0, FN { ST1(out, LDM<C, R, T, Q>(in) == LDM<C, R, T, Q>(in + C * R)); });
}
// products mat<K,R> * mat<C,K> -> mat<C,R>
template <class T, glm::qualifier Q, int K, int R, int C> static void reg_matmul() {
	const char tl = (char)SA<T>::L;
	std::string shape = "mat" + std::to_string(K) + "x" + std::to_string(R) + "_mat" + std::to_string(C) + "x" + std::to_string(K);
	add_op(nm<T, Q>("mul", shape.c_str()), strdup((std::string(1, tl) + "F" + std::to_string(K * R) + " " + std::string(1, tl) + "F" + std::to_string(C * K)).c_str()), strdup((std::string(1, tl) + std::to_string(C * R)).c_str()), 'U', 'U', 8,
	       FN { STM(out, LDM<K, R, T, Q>(in) * LDM<C, K, T, Q>(in + K * R)); }, SC { return K * amax<T>(in, 0, K * R) * amax<T>(in, K * R, C * K); });
}
template <int N> static inline int scaled_k(int32_t raw) { const int kmax = 130 / N; return (int)(((unsigned)raw) % (unsigned)(2 * kmax + 1)) - kmax; }
template <class T, glm::qualifier Q, int N> static void reg_square() {
	const char tl = (char)SA<T>::L; std::string shape = "mat" + std::to_string(N) + "x" + std::to_string(N); std::string sN = std::to_string(N * N);
	const char* aM = strdup((std::string(1, tl) + "F" + sN).c_str()); const char* aW = strdup((std::string(1, tl) + "W" + sN).c_str()); const char* oM = strdup((std::string(1, tl) + sN).c_str());
	add_op(nm<T, Q>("determinant", shape.c_str()), aM, strdup((std::string(1, tl) + "1").c_str()), 'U', 'U', 16, FN { ST1(out, glm::determinant(LDM<N, N, T, Q>(in))); },
	       SC { long double m = amax<T>(in, 0, N * N), p = 1; for (int i = 0; i < N; ++i) p *= m; return p * (N == 4 ? 24 : N == 3 ? 6 : 2); });
	// inverse on well-conditioned inputs (domain W: identity-dominant matrix I*d + small perturbation)
	add_op(nm<T, Q>("inverse", shape.c_str()), aW, oM, 'U', 'R', 256, FN { STM(out, glm::inverse(LDM<N, N, T, Q>(in))); }, SC { return 1.0L; });
	// the same well-conditioned matrix scaled by 2^k, |k| <= 130 / N: the determinant runs to both ends of the exponent range (for float
	// into the subnormals and up to 2^127), where a hardware reciprocal estimate (0 above 2^126, inf for subnormals) shows even after
	// Newton steps. Compared whenever both det and 1/det are finite in every correct implementation: 2^-127.5 <= |det| <= 2^127.5 for
	// float (a subnormal det or 1/det carries a relative error of at most 2^-20.5, a few ulps of the result, inside the 256-ulp bound).
	add_op(nm<T, Q>("inverse_scaled", shape.c_str()), strdup((std::string(aW) + " iE1").c_str()), oM, 'U', 'R', 256,
	       FN { glm::mat<N, N, T, Q> m = LDM<N, N, T, Q>(in); int k = scaled_k<N>(in[N * N].i); m = m * (T)std::ldexp(1.0, k); STM(out, glm::inverse(m)); },
	       SC { int k = scaled_k<N>(in[N * N].i); return ldexpl(1.0L, -k); },
	       SC {
		       int k = scaled_k<N>(in[N * N].i);
		       long double a[N][N];
		       for (int col = 0; col < N; ++col) for (int r = 0; r < N; ++r) a[col][r] = (long double)(sizeof(T) == 4 ? (double)in[col * N + r].f : in[col * N + r].d);
		       long double det = 1;  // Gaussian elimination; the matrix is diagonally dominant, no pivoting needed
		       for (int i = 0; i < N; ++i) { det *= a[i][i]; for (int j = i + 1; j < N; ++j) { long double f = a[j][i] / a[i][i]; for (int l = i; l < N; ++l) a[j][l] -= f * a[i][l]; } }
		       long double lg = log2l(fabsl(det)) + (long double)N * k;
		       long double lim = (sizeof(T) == 4 ? 127.5L : 1000.0L);
		       return (lg > lim || lg < -lim) ? 0.0L : 1.0L; });
	add_op(nm<T, Q>("inverseTranspose", shape.c_str()), aW, oM, 'U', 'R', 256, FN { STM(out, glm::inverseTranspose(LDM<N, N, T, Q>(in))); }, SC { return 1.0L; });
	add_op(nm<T, Q>("div_mat", shape.c_str()), strdup((std::string(aM) + " " + aW).c_str()), oM, 'U', 'R', 256, FN { STM(out, LDM<N, N, T, Q>(in) / LDM<N, N, T, Q>(in + N * N)); }, SC { return N * amax<T>(in, 0, N * N); });
}

// gtx / gtc helpers built on the core functions (each one more function that is compared across SIMD levels, configuration macros,
// optimisation levels and compilers, run under the sanitizers, by two threads, and through the two-call history)
template <class T, glm::qualifier Q> static void reg_gtx() {
	const char tl = (char)SA<T>::L;
	typedef glm::vec<3, T, Q> V3; typedef glm::vec<4, T, Q> V4; typedef glm::vec<2, T, Q> V2;
	auto name = [&](const char* b, const char* shape) { return nm<T, Q>(b, shape); };
	const char* v3 = spec("@F3", tl), * v3v3 = spec("@F3 @F3", tl), * o3 = spec("@3", tl), * o1 = spec("@1", tl), * o16 = spec("@16", tl);
	// gtx/rotate_vector
	add_op(name("gtx_rotateX", "vec3"), spec("@F3 @A1", tl), o3, 'U', 'U', 16, FN { ST(out, glm::rotateX(VL<3, T, Q>::ld(in), SA<T>::get(in[3]))); }, SC { return 2 * amax<T>(in, 0, 3); });
	add_op(name("gtx_rotateY", "vec4"), spec("@F4 @A1", tl), spec("@4", tl), 'U', 'U', 16, FN { ST(out, glm::rotateY(VL<4, T, Q>::ld(in), SA<T>::get(in[4]))); }, SC { return 2 * amax<T>(in, 0, 4); });
	add_op(name("gtx_rotateZ", "vec3"), spec("@F3 @A1", tl), o3, 'U', 'U', 16, FN { ST(out, glm::rotateZ(VL<3, T, Q>::ld(in), SA<T>::get(in[3]))); }, SC { return 2 * amax<T>(in, 0, 3); });
	add_op(name("gtx_rotate_axis", "vec3"), spec("@F3 @A1 @U3", tl), o3, 'U', 'U', 64, FN { ST(out, glm::rotate(VL<3, T, Q>::ld(in), SA<T>::get(in[3]), VL<3, T, Q>::ld(in + 4))); }, SC { return 4 * amax<T>(in, 0, 3); });
	add_op(name("gtx_rotate2d", "vec2"), spec("@F2 @A1", tl), spec("@2", tl), 'U', 'U', 16, FN { ST(out, glm::rotate(VL<2, T, Q>::ld(in), SA<T>::get(in[2]))); }, SC { return 2 * amax<T>(in, 0, 2); });
	// gtx/norm, gtx/projection, gtx/perpendicular, gtx/component_wise, gtx/normal, gtx/closest_point
	add_op(name("gtx_length2", "vec3"), v3, o1, 'U', 'U', 8, FN { ST1(out, glm::length2(VL<3, T, Q>::ld(in))); }, SC { long double m = amax<T>(in, 0, 3); return 3 * m * m; });
	add_op(name("gtx_distance2", "vec4"), spec("@F4 @F4", tl), o1, 'U', 'U', 8, FN { ST1(out, glm::distance2(VL<4, T, Q>::ld(in), VL<4, T, Q>::ld(in + 4))); }, SC { long double m = amax<T>(in, 0, 8); return 16 * m * m; });
	add_op(name("gtx_l1Norm", "vec3"), v3v3, o1, 'U', 'U', 8, FN { ST1(out, glm::l1Norm(VL<3, T, Q>::ld(in), VL<3, T, Q>::ld(in + 3))); }, SC { return 6 * amax<T>(in, 0, 6); });
	add_op(name("gtx_l2Norm", "vec3"), v3v3, o1, 'U', 'R', 8, FN { ST1(out, glm::l2Norm(VL<3, T, Q>::ld(in), VL<3, T, Q>::ld(in + 3))); }, SC { return 4 * amax<T>(in, 0, 6); });
	add_op(name("gtx_lMaxNorm", "vec3"), v3v3, o1, 'U', 'U', 4, FN { ST1(out, glm::lMaxNorm(VL<3, T, Q>::ld(in), VL<3, T, Q>::ld(in + 3))); }, SC { return 2 * amax<T>(in, 0, 6); });
	add_op(name("gtx_proj", "vec3"), spec("@F3 @U3", tl), o3, 'U', 'U', 32, FN { ST(out, glm::proj(VL<3, T, Q>::ld(in), VL<3, T, Q>::ld(in + 3))); }, SC { return 4 * amax<T>(in, 0, 3); });
	add_op(name("gtx_perp", "vec3"), spec("@F3 @U3", tl), o3, 'U', 'U', 32, FN { ST(out, glm::perp(VL<3, T, Q>::ld(in), VL<3, T, Q>::ld(in + 3))); }, SC { return 4 * amax<T>(in, 0, 3); });
	add_op(name("gtx_compAdd_compMul", "vec4"), spec("@F4", tl), spec("@2", tl), 'U', 'U', 8, FN { V4 v = VL<4, T, Q>::ld(in); ST1(out, glm::compAdd(v)); ST1(out + 1, glm::compMul(v)); }, SC { long double m = 1 + amax<T>(in, 0, 4); return 4 * m * m * m * m; });
	add_op(name("gtx_compMin_compMax", "vec3"), v3, spec("@2", tl), 'V', 'V', 0, FN { V3 v = VL<3, T, Q>::ld(in); ST1(out, glm::compMin(v)); ST1(out + 1, glm::compMax(v)); });
	add_op(name("gtx_triangleNormal", "vec3"), spec("@F3 @F3 @F3", tl), o3, 'U', 'R', 4096, FN { ST(out, glm::triangleNormal(VL<3, T, Q>::ld(in), VL<3, T, Q>::ld(in + 3), VL<3, T, Q>::ld(in + 6))); }, SC { return 1.0L; },
	       SC {  // degenerate (thin) triangles: the normal is ill-conditioned
		       long double a[3], b[3]; for (int i = 0; i < 3; ++i) { a[i] = (long double)SA<T>::get(in[i]) - (long double)SA<T>::get(in[3 + i]); b[i] = (long double)SA<T>::get(in[i]) - (long double)SA<T>::get(in[6 + i]); }
		       long double cx = a[1] * b[2] - a[2] * b[1], cy = a[2] * b[0] - a[0] * b[2], cz = a[0] * b[1] - a[1] * b[0];
		       long double n = sqrtl(cx * cx + cy * cy + cz * cz), la = sqrtl(a[0] * a[0] + a[1] * a[1] + a[2] * a[2]), lb = sqrtl(b[0] * b[0] + b[1] * b[1] + b[2] * b[2]);
		       return (la * lb > 0) ? n / (la * lb) : 0.0L; });
	add_op(name("gtx_closestPointOnLine", "vec3"), spec("@F3 @F3 @F3", tl), o3, 'U', 'U', 4096, FN { ST(out, glm::closestPointOnLine(VL<3, T, Q>::ld(in), VL<3, T, Q>::ld(in + 3), VL<3, T, Q>::ld(in + 6))); }, SC { return 4 * (1 + amax<T>(in, 0, 9)); },
	       SC { long double d = 0; for (int i = 0; i < 3; ++i) { long double e = (long double)SA<T>::get(in[6 + i]) - (long double)SA<T>::get(in[3 + i]); d += e * e; } return d; });  // a == b: direction undefined
	// gtx/transform, gtx/euler_angles (builders only: no angle extraction, whose conditioning near gimbal lock is C04's subject)
	add_op(name("gtx_translate", "mat4x4"), v3, o16, 'V', 'V', 0, FN { STM(out, glm::translate(VL<3, T, Q>::ld(in))); });
	add_op(name("gtx_scale", "mat4x4"), v3, o16, 'V', 'V', 0, FN { STM(out, glm::scale(VL<3, T, Q>::ld(in))); });
	add_op(name("gtx_rotate", "mat4x4"), spec("@A1 @U3", tl), o16, 'U', 'U', 64, FN { STM(out, glm::rotate(SA<T>::get(in[0]), VL<3, T, Q>::ld(in + 1))); }, SC { return 4.0L; });
	add_op(name("gtx_eulerAngleXYZ", "mat4x4"), spec("@A3", tl), o16, 'U', 'U', 32, FN { STM(out, glm::eulerAngleXYZ(SA<T>::get(in[0]), SA<T>::get(in[1]), SA<T>::get(in[2]))); }, SC { return 4.0L; });
	add_op(name("gtx_eulerAngleYXZ", "mat4x4"), spec("@A3", tl), o16, 'U', 'U', 32, FN { STM(out, glm::eulerAngleYXZ(SA<T>::get(in[0]), SA<T>::get(in[1]), SA<T>::get(in[2]))); }, SC { return 4.0L; });
	add_op(name("gtx_yawPitchRoll", "mat4x4"), spec("@A3", tl), o16, 'U', 'U', 32, FN { STM(out, glm::yawPitchRoll(SA<T>::get(in[0]), SA<T>::get(in[1]), SA<T>::get(in[2]))); }, SC { return 4.0L; });
	add_op(name("gtx_orientate3", "mat3x3"), spec("@A3", tl), spec("@9", tl), 'U', 'U', 32, FN { STM(out, glm::orientate3(VL<3, T, Q>::ld(in))); }, SC { return 4.0L; });
	// gtc/round on floating arguments (exact multiples and powers of two are value-preserving in every build)
	add_op(name("gtc_ceilMultiple", "vec3"), spec("@F3 @P3", tl), o3, 'V', 'V', 0, FN { ST(out, glm::ceilMultiple(VL<3, T, Q>::ld(in), VL<3, T, Q>::ld(in + 3))); });
	add_op(name("gtc_floorMultiple", "vec3"), spec("@F3 @P3", tl), o3, 'V', 'V', 0, FN { ST(out, glm::floorMultiple(VL<3, T, Q>::ld(in), VL<3, T, Q>::ld(in + 3))); });
	add_op(name("gtc_roundMultiple", "vec2"), spec("@F2 @P2", tl), spec("@2", tl), 'V', 'V', 0, FN { ST(out, glm::roundMultiple(VL<2, T, Q>::ld(in), VL<2, T, Q>::ld(in + 2))); });
	(void)sizeof(V2);
}

template <class T, glm::qualifier Q> static void reg_tq() {
	reg_gtx<T, Q>();
	reg_geom<T, Q, 1>(); reg_geom<T, Q, 2>(); reg_geom<T, Q, 3>(); reg_geom<T, Q, 4>();
	reg_cross<T, Q>();
	reg_hidden<T, Q>();
	reg_mat<T, Q, 2, 2>(); reg_mat<T, Q, 2, 3>(); reg_mat<T, Q, 2, 4>(); reg_mat<T, Q, 3, 2>(); reg_mat<T, Q, 3, 3>(); reg_mat<T, Q, 3, 4>(); reg_mat<T, Q, 4, 2>(); reg_mat<T, Q, 4, 3>(); reg_mat<T, Q, 4, 4>();
	reg_matmul<T, Q, 2, 2, 2>(); reg_matmul<T, Q, 3, 3, 3>(); reg_matmul<T, Q, 4, 4, 4>(); reg_matmul<T, Q, 4, 4, 2>(); reg_matmul<T, Q, 4, 3, 3>(); reg_matmul<T, Q, 2, 4, 3>(); reg_matmul<T, Q, 3, 2, 4>(); reg_matmul<T, Q, 4, 2, 4>(); reg_matmul<T, Q, 3, 4, 2>();
	reg_square<T, Q, 2>(); reg_square<T, Q, 3>(); reg_square<T, Q, 4>();
}
#if OPS_PART == 0
template <glm::qualifier Q> static void reg_q() { reg_tq<float, Q>(); }
#else
template <glm::qualifier Q> static void reg_q() { reg_tq<double, Q>(); }
#endif
static void reg_all() { reg_q<QH>(); OPS_MEDIUMP(reg_q<QM>();) reg_q<QL>(); }
static Registrar r_geom(reg_all);
