// ops_quat.cpp — quaternion algebra, casts, matrix constructors and shape conversions, transforms.
#include "opdef.hpp"

static inline void launder_q(void* q) { __asm__ volatile("" : : "r"(q) : "memory"); }
template <class T, glm::qualifier Q> static void reg_quat() {
	typedef glm::qua<T, Q> Qt; const char tl = (char)SA<T>::L;
	auto name = [&](const char* b) { return nm<T, Q>(b, "quat"); };
	const char* q1 = spec("@F4", tl), * q2 = spec("@F4 @F4", tl), * u1 = spec("@U4", tl), * u2 = spec("@U4 @U4", tl), * o4 = spec("@4", tl), * o1 = spec("@1", tl);
	add_op(name("add"), q2, o4, 'V', 'V', 0, FN { STQ(out, LDQ<T, Q>(in) + LDQ<T, Q>(in + 4)); });
	add_op(name("sub"), q2, o4, 'V', 'V', 0, FN { STQ(out, LDQ<T, Q>(in) - LDQ<T, Q>(in + 4)); });
	add_op(name("neg"), q1, o4, 'B', 'B', 0, FN { STQ(out, -LDQ<T, Q>(in)); });
	add_op(name("mul"), q2, o4, 'U', 'U', 8, FN { STQ(out, LDQ<T, Q>(in) * LDQ<T, Q>(in + 4)); }, SC { return 4 * amax<T>(in, 0, 4) * amax<T>(in, 4, 4); });
	add_op(name("mul_s"), spec("@F4 @F1", tl), o4, 'V', 'V', 0, FN { STQ(out, LDQ<T, Q>(in) * SA<T>::get(in[4])); });
	add_op(name("mul_s_compound"), spec("@F4 @F1", tl), o4, 'V', 'V', 0, FN { Qt q = LDQ<T, Q>(in); q *= SA<T>::get(in[4]); STQ(out, q); });
	add_op(name("div_s_compound"), spec("@F4 @Y1", tl), o4, 'U', 'R', 2, FN { Qt q = LDQ<T, Q>(in); q /= SA<T>::get(in[4]); STQ(out, q); });
	add_op(name("add_compound"), q2, o4, 'V', 'V', 0, FN { Qt q = LDQ<T, Q>(in); q += LDQ<T, Q>(in + 4); q -= LDQ<T, Q>(in + 4) * T(0.5); STQ(out, q); });
	add_op(name("div_s"), spec("@F4 @Y1", tl), o4, 'U', 'R', 2, FN { STQ(out, LDQ<T, Q>(in) / SA<T>::get(in[4])); });
	add_op(name("dot"), q2, o1, 'U', 'U', 8, FN { ST1(out, glm::dot(LDQ<T, Q>(in), LDQ<T, Q>(in + 4))); }, SC { return 4 * amax<T>(in, 0, 4) * amax<T>(in, 4, 4); });
	add_op(name("length"), q1, o1, 'U', 'R', 8, FN { ST1(out, glm::length(LDQ<T, Q>(in))); }, SC { return 2 * amax<T>(in, 0, 4); });
	add_op(name("normalize"), spec("@V4", tl), o4, 'U', 'R', 8, FN { STQ(out, glm::normalize(LDQ<T, Q>(in))); }, SC { return 1.0L; });
	// copy construction, copy assignment and cross-qualifier / cross-type conversion (hand-written when defaulted functions are off)
	add_op(name("copy_ctor_assign"), q1, o4, 'B', 'B', 0, FN { Qt a = LDQ<T, Q>(in); launder_q(&a); Qt b(a); launder_q(&b); Qt c2(T(1), T(2), T(3), T(4)); c2 = b; launder_q(&c2); STQ(out, c2); });
	add_op(name("convert_qualifier"), q1, o4, 'B', 'B', 0, FN { Qt a = LDQ<T, Q>(in); launder_q(&a); glm::qua<T, glm::packed_mediump> m(a); launder_q(&m); Qt b(m); STQ(out, b); });
	add_op(name("convert_elemtype"), q1, o4, 'V', 'V', 0, FN { Qt a = LDQ<T, Q>(in); launder_q(&a); glm::qua<double, Q> d(a); launder_q(&d); glm::qua<float, Q> f(d); launder_q(&f); Qt b(f); STQ(out, b); });
	add_op(name("conjugate"), q1, o4, 'B', 'B', 0, FN { STQ(out, glm::conjugate(LDQ<T, Q>(in))); });
	add_op(name("inverse"), spec("@V4", tl), o4, 'U', 'R', 16, FN { STQ(out, glm::inverse(LDQ<T, Q>(in))); }, nullptr);
	add_op(name("op_eq"), spec("@E4 @E4", tl), "b1", 'B', 'B', 0, FN { ST1(out, LDQ<T, Q>(in) == LDQ<T, Q>(in + 4)); });
	add_op(name("op_ne"), spec("@E4 @E4", tl), "b1", 'B', 'B', 0, FN { ST1(out, LDQ<T, Q>(in) != LDQ<T, Q>(in + 4)); });
	add_op(name("rotate_vec3"), spec("@U4 @F3", tl), spec("@3", tl), 'U', 'U', 16, FN { ST(out, LDQ<T, Q>(in) * VL<3, T, Q>::ld(in + 4)); }, SC { return 8 * amax<T>(in, 4, 3); });
	add_op(name("rotate_vec4"), spec("@U4 @F4", tl), spec("@4", tl), 'U', 'U', 16, FN { ST(out, LDQ<T, Q>(in) * VL<4, T, Q>::ld(in + 4)); }, SC { return 8 * amax<T>(in, 4, 4); });
	add_op(name("vec3_rotate"), spec("@F3 @U4", tl), spec("@3", tl), 'U', 'U', 16, FN { ST(out, VL<3, T, Q>::ld(in) * LDQ<T, Q>(in + 3)); }, SC { return 8 * amax<T>(in, 0, 3); });
	add_op(name("mat3_cast"), u1, spec("@9", tl), 'U', 'U', 8, FN { STM(out, glm::mat3_cast(LDQ<T, Q>(in))); }, SC { return 4.0L; });
	add_op(name("mat4_cast"), u1, spec("@16", tl), 'U', 'U', 8, FN { STM(out, glm::mat4_cast(LDQ<T, Q>(in))); }, SC { return 4.0L; });
	add_op(name("quat_cast_roundtrip"), u1, spec("@4", tl), 'U', 'U', 64, FN { STQ(out, glm::quat_cast(glm::mat3_cast(LDQ<T, Q>(in)))); }, SC { return 1.0L; });
	add_op(name("angleAxis"), spec("@A1 @U3", tl), o4, 'U', 'U', 8, FN { STQ(out, glm::angleAxis(SA<T>::get(in[0]), VL<3, T, Q>::ld(in + 1))); }, SC { return 1.0L; });
	add_op(name("lerp"), spec("@U4 @U4 @Z1", tl), o4, 'U', 'U', 8, FN { STQ(out, glm::lerp(LDQ<T, Q>(in), LDQ<T, Q>(in + 4), SA<T>::get(in[8]))); }, SC { return 2.0L; });
	add_op(name("slerp"), spec("@U4 @U4 @Z1", tl), o4, 'U', 'U', 256, FN { STQ(out, glm::slerp(LDQ<T, Q>(in), LDQ<T, Q>(in + 4), SA<T>::get(in[8]))); }, SC { return 1.0L; },
	       SC { long double d = 0; for (int i = 0; i < 4; ++i) d += (long double)SA<T>::get(in[i]) * (long double)SA<T>::get(in[4 + i]); if (d < 0) d = -d; long double a = 1 - d; return a < d ? a : d; });
	add_op(name("eulerAngles"), u1, spec("@3", tl), 'U', 'U', 1024, FN { ST(out, glm::eulerAngles(LDQ<T, Q>(in))); }, SC { return 4.0L; },
	       SC { Qt q = LDQ<T, Q>(in); long double s = 2 * ((long double)q.y * q.w - (long double)q.x * q.z); if (s < 0) s = -s; return 1 - s; });
	add_op(name("from_euler"), spec("@A3", tl), o4, 'U', 'U', 16, FN { STQ(out, Qt(VL<3, T, Q>::ld(in))); }, SC { return 1.0L; });
	add_op(name("ctor_s_v"), spec("@F1 @F3", tl), o4, 'B', 'B', 0, FN { STQ(out, Qt(SA<T>::get(in[0]), VL<3, T, Q>::ld(in + 1))); });
	add_op(name("wxyz"), q1, o4, 'B', 'B', 0, FN { STQ(out, Qt::wxyz(SA<T>::get(in[0]), SA<T>::get(in[1]), SA<T>::get(in[2]), SA<T>::get(in[3]))); });
}

template <class T, glm::qualifier Q, int C, int R> static void reg_matctor() {
	typedef glm::mat<C, R, T, Q> M; const char tl = (char)SA<T>::L; const int N = C * R;
	std::string shape = "mat" + std::to_string(C) + "x" + std::to_string(R);
	const char* oM = strdup((std::string(1, tl) + std::to_string(N)).c_str());
	const char* aM = strdup((std::string(1, tl) + "G" + std::to_string(N)).c_str());
	auto name = [&](const char* b) { return nm<T, Q>(b, shape.c_str()); };
	add_op(name("ctor_scalar"), spec("@G1", tl), oM, 'B', 'B', 0, FN { STM(out, M(SA<T>::get(in[0]))); });
	add_op(name("ctor_columns"), aM, oM, 'B', 'B', 0, FN { M m = LDM<C, R, T, Q>(in); M n(m); STM(out, n); });
	add_op(name("to_mat4"), aM, spec("@16", tl), 'B', 'B', 0, FN { STM(out, glm::mat<4, 4, T, Q>(LDM<C, R, T, Q>(in))); });
	add_op(name("to_mat2"), aM, spec("@4", tl), 'B', 'B', 0, FN { STM(out, glm::mat<2, 2, T, Q>(LDM<C, R, T, Q>(in))); });
	add_op(name("to_mat3x4"), aM, spec("@12", tl), 'B', 'B', 0, FN { STM(out, glm::mat<3, 4, T, Q>(LDM<C, R, T, Q>(in))); });
	add_op(name("to_mat4x2"), aM, spec("@8", tl), 'B', 'B', 0, FN { STM(out, glm::mat<4, 2, T, Q>(LDM<C, R, T, Q>(in))); });
	// cross-element-type and cross-qualifier conversions of the same shape (separate constructor templates, with their own
	// initializer-list / assignment branches per language level)
	{
		typedef typename std::conditional<std::is_same<T, float>::value, double, float>::type U2;
		const char ul = std::is_same<T, float>::value ? 'd' : 'f';
		add_op(name("convert_elemtype"), aM, strdup((std::string(1, ul) + std::to_string(N)).c_str()), 'B', 'B', 0, FN { glm::mat<C, R, U2, Q> u(LDM<C, R, T, Q>(in)); STM(out, u); });
		add_op(name("convert_to_int"), strdup((std::string(1, tl) + "C" + std::to_string(N)).c_str()), strdup((std::string("i") + std::to_string(N)).c_str()), 'B', 'B', 0, FN { glm::mat<C, R, int, Q> u(LDM<C, R, T, Q>(in)); STM(out, u); });
		add_op(name("convert_qualifier"), aM, oM, 'B', 'B', 0, FN { glm::mat<C, R, T, glm::packed_mediump> u(LDM<C, R, T, Q>(in)); glm::mat<C, R, T, Q> b(u); STM(out, b); });
		add_op(name("assign_elemtype"), aM, strdup((std::string(1, ul) + std::to_string(N)).c_str()), 'B', 'B', 0, FN { glm::mat<C, R, U2, Q> u(U2(7)); u = LDM<C, R, T, Q>(in); STM(out, u); });
	}
	add_op(name("row"), aM, strdup((std::string(1, tl) + std::to_string(C)).c_str()), 'B', 'B', 0, FN { ST(out, glm::row(LDM<C, R, T, Q>(in), R - 1)); });
	add_op(name("column"), aM, strdup((std::string(1, tl) + std::to_string(R)).c_str()), 'B', 'B', 0, FN { ST(out, glm::column(LDM<C, R, T, Q>(in), C - 1)); });
}

template <class T, glm::qualifier Q> static void reg_transform() {
	const char tl = (char)SA<T>::L; typedef glm::mat<4, 4, T, Q> M4;
	auto name = [&](const char* b) { return nm<T, Q>(b, "mat4x4"); };
	const char* o16 = spec("@16", tl);
	add_op(name("translate"), spec("@F16 @F3", tl), o16, 'U', 'U', 8, FN { STM(out, glm::translate(LDM<4, 4, T, Q>(in), VL<3, T, Q>::ld(in + 16))); }, SC { return 4 * amax<T>(in, 0, 16) * (1 + amax<T>(in, 16, 3)); });
	add_op(name("scale"), spec("@F16 @F3", tl), o16, 'V', 'V', 0, FN { STM(out, glm::scale(LDM<4, 4, T, Q>(in), VL<3, T, Q>::ld(in + 16))); });
	add_op(name("rotate"), spec("@F16 @A1 @V3", tl), o16, 'U', 'U', 64, FN { STM(out, glm::rotate(LDM<4, 4, T, Q>(in), SA<T>::get(in[16]), VL<3, T, Q>::ld(in + 17))); }, SC { return 8 * amax<T>(in, 0, 16); });
	add_op(name("lookAt"), spec("@F3 @F3 @U3", tl), o16, 'U', 'U', 4096, FN { STM(out, glm::lookAt(VL<3, T, Q>::ld(in), VL<3, T, Q>::ld(in + 3), VL<3, T, Q>::ld(in + 6))); }, SC { return 1 + 4 * amax<T>(in, 0, 3); },
	       SC {  // eye == center or up parallel to the view direction is outside the domain
		       long double f[3], n = 0; for (int i = 0; i < 3; ++i) { f[i] = (long double)SA<T>::get(in[3 + i]) - (long double)SA<T>::get(in[i]); n += f[i] * f[i]; }
		       if (n < 1e-6L) return 0.0L;
		       long double u[3] = {(long double)SA<T>::get(in[6]), (long double)SA<T>::get(in[7]), (long double)SA<T>::get(in[8])};
		       long double cx = f[1] * u[2] - f[2] * u[1], cy = f[2] * u[0] - f[0] * u[2], cz = f[0] * u[1] - f[1] * u[0];
		       return (cx * cx + cy * cy + cz * cz) / n; });
	add_op(name("perspective"), spec("@P1 @P1 @O1", tl), o16, 'U', 'U', 64, FN { T fov = SA<T>::get(in[0]); fov = fov / (T(1) + fov) * T(3); T lo = glm::abs(SA<T>::get(in[2])) + T(0.01), hi = lo + glm::abs(SA<T>::get(in[3]) - SA<T>::get(in[2])) + T(0.5); STM(out, glm::perspective(fov, SA<T>::get(in[1]), lo, hi)); }, nullptr);
	add_op(name("ortho"), spec("@O1 @O1 @O1", tl), o16, 'U', 'U', 64, FN { T l = SA<T>::get(in[0]), r = SA<T>::get(in[1]) + T(0.5), b = SA<T>::get(in[2]), t = SA<T>::get(in[3]) + T(0.5), n = SA<T>::get(in[4]), f = SA<T>::get(in[5]) + T(0.5); STM(out, glm::ortho(l, r, b, t, n, f)); }, nullptr);
	add_op(name("frustum"), spec("@O1 @O1 @O1", tl), o16, 'U', 'U', 64, FN { T l = SA<T>::get(in[0]), r = SA<T>::get(in[1]) + T(0.5), b = SA<T>::get(in[2]), t = SA<T>::get(in[3]) + T(0.5), n = glm::abs(SA<T>::get(in[4])) + T(0.01), f = n + glm::abs(SA<T>::get(in[5]) - SA<T>::get(in[4])) + T(0.5); STM(out, glm::frustum(l, r, b, t, n, f)); }, nullptr);
	(void)sizeof(M4);
}

// integer packers reading a vector that sits at the smallest address offset its type allows (alignof(u8vec4) is 1 when packed): a
// wider load through a cast pointer is then misaligned (UBSan alignment check); values are compared as well
template <class V> struct alignas(64) MinAligned { char pad[alignof(V)]; V p; };
template <class V, class R, R (*F)(V const&)> static void pack_minaligned(const Slot* in, Slot* out) {
	MinAligned<V> b; memset(&b, 0, sizeof b);
	for (int i = 0; i < (int)V::length(); ++i) b.p[i] = (typename V::value_type)in[i].u;
	launder_q(&b);
	unsigned long long r = (unsigned long long)F(b.p);
	if (sizeof(R) < 8) r &= (1ULL << (8 * sizeof(R))) - 1;
	out[0].ul = 0; out[1].ul = 0; out[0].u = (unsigned)r; out[1].u = (unsigned)(r >> 32);
}
template <glm::qualifier Q> static void reg_pack_int() {
	auto name = [&](const char* b) { return nm<float, Q>(b, "pack"); };
	add_op(name("packInt2x8_minaligned"), "uI2", "u2", 'B', 'B', 0, &pack_minaligned<glm::i8vec2, glm::int16, &glm::packInt2x8>);
	add_op(name("packUint2x8_minaligned"), "uI2", "u2", 'B', 'B', 0, &pack_minaligned<glm::u8vec2, glm::uint16, &glm::packUint2x8>);
	add_op(name("packInt4x8_minaligned"), "uI4", "u2", 'B', 'B', 0, &pack_minaligned<glm::i8vec4, glm::int32, &glm::packInt4x8>);
	add_op(name("packUint4x8_minaligned"), "uI4", "u2", 'B', 'B', 0, &pack_minaligned<glm::u8vec4, glm::uint32, &glm::packUint4x8>);
	add_op(name("packInt2x16_minaligned"), "uI2", "u2", 'B', 'B', 0, &pack_minaligned<glm::i16vec2, int, &glm::packInt2x16>);
	add_op(name("packUint2x16_minaligned"), "uI2", "u2", 'B', 'B', 0, &pack_minaligned<glm::u16vec2, glm::uint, &glm::packUint2x16>);
	add_op(name("packInt4x16_minaligned"), "uI4", "u2", 'B', 'B', 0, &pack_minaligned<glm::i16vec4, glm::int64, &glm::packInt4x16>);
	add_op(name("packUint4x16_minaligned"), "uI4", "u2", 'B', 'B', 0, &pack_minaligned<glm::u16vec4, glm::uint64, &glm::packUint4x16>);
	add_op(name("packInt2x32_minaligned"), "uI2", "u2", 'B', 'B', 0, &pack_minaligned<glm::i32vec2, glm::int64, &glm::packInt2x32>);
	add_op(name("packUint2x32_minaligned"), "uI2", "u2", 'B', 'B', 0, &pack_minaligned<glm::u32vec2, glm::uint64, &glm::packUint2x32>);
}

template <glm::qualifier Q> static void reg_pack() {
	reg_pack_int<Q>();
	auto name = [&](const char* b) { return nm<float, Q>(b, "pack"); };
	add_op(name("packUnorm4x8"), "fG4", "u1", 'B', 'B', 0, FN { ST1(out, (unsigned)glm::packUnorm4x8(glm::vec4(VL<4, float, Q>::ld(in)))); });
	add_op(name("packSnorm4x8"), "fG4", "u1", 'B', 'B', 0, FN { ST1(out, (unsigned)glm::packSnorm4x8(glm::vec4(VL<4, float, Q>::ld(in)))); });
	add_op(name("packUnorm2x16"), "fG2", "u1", 'B', 'B', 0, FN { ST1(out, (unsigned)glm::packUnorm2x16(glm::vec2(VL<2, float, Q>::ld(in)))); });
	add_op(name("packSnorm2x16"), "fG2", "u1", 'B', 'B', 0, FN { ST1(out, (unsigned)glm::packSnorm2x16(glm::vec2(VL<2, float, Q>::ld(in)))); });
	add_op(name("packHalf2x16"), "fN2", "u1", 'B', 'B', 0, FN { ST1(out, (unsigned)glm::packHalf2x16(glm::vec2(VL<2, float, Q>::ld(in)))); });
	add_op(name("unpackUnorm4x8"), "uI1", "f4", 'B', 'B', 0, FN { ST(out, glm::unpackUnorm4x8(in[0].u)); });
	add_op(name("unpackSnorm4x8"), "uI1", "f4", 'B', 'B', 0, FN { ST(out, glm::unpackSnorm4x8(in[0].u)); });
	add_op(name("unpackHalf2x16"), "uI1", "f2", 'B', 'B', 0, FN { ST(out, glm::unpackHalf2x16(in[0].u)); });
	add_op(name("unpackUnorm2x16"), "uI1", "f2", 'B', 'B', 0, FN { ST(out, glm::unpackUnorm2x16(in[0].u)); });
	// gtc packHalf / unpackHalf on vectors of the library's qualifier and on explicitly packed vectors (which differ from the default
	// gentypes under GLM_FORCE_DEFAULT_ALIGNED_GENTYPES): lanes as 16-bit codes
	add_op(name("packHalf_vec3"), "fN3", "u3", 'B', 'B', 0, FN { glm::vec<3, glm::uint16, Q> p = glm::packHalf(VL<3, float, Q>::ld(in)); for (int i = 0; i < 3; ++i) ST1(out + i, (unsigned)p[i]); });
	add_op(name("packHalf_vec3_packed"), "fN3", "u3", 'B', 'B', 0, FN { glm::vec<3, float, glm::packed_highp> v(in[0].f, in[1].f, in[2].f); launder_q(&v); glm::vec<3, glm::uint16, glm::packed_highp> p = glm::packHalf(v); for (int i = 0; i < 3; ++i) ST1(out + i, (unsigned)p[i]); });
	add_op(name("packHalf_vec4"), "fN4", "u4", 'B', 'B', 0, FN { glm::vec<4, glm::uint16, Q> p = glm::packHalf(VL<4, float, Q>::ld(in)); for (int i = 0; i < 4; ++i) ST1(out + i, (unsigned)p[i]); });
	add_op(name("packHalf_vec2_packed"), "fN2", "u2", 'B', 'B', 0, FN { glm::vec<2, float, glm::packed_highp> v(in[0].f, in[1].f); launder_q(&v); glm::vec<2, glm::uint16, glm::packed_highp> p = glm::packHalf(v); for (int i = 0; i < 2; ++i) ST1(out + i, (unsigned)p[i]); });
	add_op(name("unpackHalf_vec3"), "uH3", "f3", 'B', 'B', 0, FN { glm::vec<3, glm::uint16, Q> p((glm::uint16)in[0].u, (glm::uint16)in[1].u, (glm::uint16)in[2].u); ST(out, glm::unpackHalf(p)); });
	add_op(name("unpackHalf_vec3_packed"), "uH3", "f3", 'B', 'B', 0, FN { glm::vec<3, glm::uint16, glm::packed_highp> p((glm::uint16)in[0].u, (glm::uint16)in[1].u, (glm::uint16)in[2].u); launder_q(&p); ST(out, glm::unpackHalf(p)); });
	add_op(name("unpackHalf_vec4_packed"), "uH4", "f4", 'B', 'B', 0, FN { glm::vec<4, glm::uint16, glm::packed_highp> p((glm::uint16)in[0].u, (glm::uint16)in[1].u, (glm::uint16)in[2].u, (glm::uint16)in[3].u); launder_q(&p); ST(out, glm::unpackHalf(p)); });
	add_op(name("nextFloat"), "fX1", "f1", 'B', 'B', 0, FN { ST1(out, glm::nextFloat(in[0].f)); });
	add_op(name("prevFloat"), "fX1", "f1", 'B', 'B', 0, FN { ST1(out, glm::prevFloat(in[0].f)); });
	add_op(name("nextDouble"), "dX1", "d1", 'B', 'B', 0, FN { ST1(out, glm::nextFloat(in[0].d)); });
	add_op(name("floatDistance"), "fP1 fP1", "i1", 'B', 'B', 0, FN { ST1(out, (int)glm::floatDistance(in[0].f, in[1].f)); });
	// the other spellings and overloads of ext/scalar_ulp, ext/vector_ulp and gtc/ulp (each has its own pre-C++11 fallback branch)
	add_op(name("prevDouble"), "dX1", "d1", 'B', 'B', 0, FN { ST1(out, glm::prevFloat(in[0].d)); });
	add_op(name("nextFloat_n"), "fX1 iW1", "f1", 'B', 'B', 0, FN { ST1(out, glm::nextFloat(in[0].f, in[1].i)); });
	add_op(name("prevFloat_n"), "fX1 iW1", "f1", 'B', 'B', 0, FN { ST1(out, glm::prevFloat(in[0].f, in[1].i)); });
	add_op(name("nextDouble_n"), "dX1 iW1", "d1", 'B', 'B', 0, FN { ST1(out, glm::nextFloat(in[0].d, in[1].i)); });
	add_op(name("prevDouble_n"), "dX1 iW1", "d1", 'B', 'B', 0, FN { ST1(out, glm::prevFloat(in[0].d, in[1].i)); });
	add_op(name("next_float"), "fX1", "f1", 'B', 'B', 0, FN { ST1(out, glm::next_float(in[0].f)); });
	add_op(name("prev_float"), "fX1", "f1", 'B', 'B', 0, FN { ST1(out, glm::prev_float(in[0].f)); });
	add_op(name("next_double"), "dX1", "d1", 'B', 'B', 0, FN { ST1(out, glm::next_float(in[0].d)); });
	add_op(name("prev_double"), "dX1", "d1", 'B', 'B', 0, FN { ST1(out, glm::prev_float(in[0].d)); });
	add_op(name("nextFloat_vec4"), "fX4", "f4", 'B', 'B', 0, FN { ST(out, glm::nextFloat(VL<4, float, Q>::ld(in))); });
	add_op(name("prevFloat_vec4"), "fX4", "f4", 'B', 'B', 0, FN { ST(out, glm::prevFloat(VL<4, float, Q>::ld(in))); });
	add_op(name("prevFloat_vec3_n"), "fX3 iW3", "f3", 'B', 'B', 0, FN { ST(out, glm::prevFloat(VL<3, float, Q>::ld(in), glm::vec<3, int, Q>(in[3].i, in[4].i, in[5].i))); });
	add_op(name("nextDouble_vec2_n"), "dX2 iW1", "d2", 'B', 'B', 0, FN { ST(out, glm::nextFloat(VL<2, double, Q>::ld(in), in[2].i)); });
	add_op(name("prevDouble_vec4"), "dX4", "d4", 'B', 'B', 0, FN { ST(out, glm::prevFloat(VL<4, double, Q>::ld(in))); });
	add_op(name("floatDistance_double"), "dP1 dP1", "u2", 'B', 'B', 0, FN { glm::uint64 d = (glm::uint64)glm::floatDistance(in[0].d, in[1].d); out[0].u = (unsigned)d; out[1].u = (unsigned)(d >> 32); });
	add_op(name("float_distance"), "fP1 fP1", "i1", 'B', 'B', 0, FN { ST1(out, (int)glm::float_distance(in[0].f, in[1].f)); });
	add_op(name("float_distance_double"), "dP1 dP1", "u2", 'B', 'B', 0, FN { glm::uint64 d = (glm::uint64)glm::float_distance(in[0].d, in[1].d); out[0].u = (unsigned)d; out[1].u = (unsigned)(d >> 32); });
	add_op(name("floatDistance_vec4"), "fP4 fP4", "i4", 'B', 'B', 0, FN { ST(out, glm::floatDistance(VL<4, float, Q>::ld(in), VL<4, float, Q>::ld(in + 4))); });
	// gtx colour spaces (float and integer paths; the integer YCoCg-R lifting has compiler- and type-dependent shifts)
	add_op(name("rgbColor"), "fZ3", "f3", 'U', 'U', 16, FN { glm::vec<3, float, Q> h = VL<3, float, Q>::ld(in); h.x *= 359.0f; ST(out, glm::rgbColor(h)); }, SC { return 1.0L; });
	add_op(name("hsvColor"), "fZ3", "f3", 'U', 'U', 64, FN { ST(out, glm::hsvColor(VL<3, float, Q>::ld(in))); }, SC { return 360.0L; });
	add_op(name("saturation"), "fZ1 fZ3", "f3", 'U', 'U', 16, FN { ST(out, glm::saturation(in[0].f * 2.0f, VL<3, float, Q>::ld(in + 1))); }, SC { return 4.0L; });
	add_op(name("luminosity"), "fZ3", "f1", 'U', 'U', 8, FN { ST1(out, glm::luminosity(VL<3, float, Q>::ld(in))); }, SC { return 1.0L; });
	add_op(name("rgb2YCoCg"), "fZ3", "f3", 'U', 'U', 8, FN { ST(out, glm::rgb2YCoCg(VL<3, float, Q>::ld(in))); }, SC { return 1.0L; });
	add_op(name("YCoCg2rgb"), "fZ3", "f3", 'U', 'U', 8, FN { ST(out, glm::YCoCg2rgb(VL<3, float, Q>::ld(in))); }, SC { return 2.0L; });
	add_op(name("rgb2YCoCgR_float"), "fZ3", "f3", 'U', 'U', 8, FN { ST(out, glm::rgb2YCoCgR(VL<3, float, Q>::ld(in))); }, SC { return 1.0L; });
	add_op(name("YCoCgR2rgb_float"), "fZ3", "f3", 'U', 'U', 8, FN { ST(out, glm::YCoCgR2rgb(VL<3, float, Q>::ld(in))); }, SC { return 2.0L; });
	add_op(name("rgb2YCoCgR_int"), "iH3", "i3", 'B', 'B', 0, FN { ST(out, glm::rgb2YCoCgR(glm::vec<3, int, Q>(in[0].i, in[1].i, in[2].i))); });
	add_op(name("YCoCgR2rgb_int"), "iH1 iC2", "i3", 'B', 'B', 0, FN { ST(out, glm::YCoCgR2rgb(glm::vec<3, int, Q>(in[0].i, in[1].i % 32768, in[2].i % 32768))); });
	add_op(name("rgb2YCoCgR_int16"), "iH3", "i3", 'B', 'B', 0, FN { glm::vec<3, glm::int16, Q> r = glm::rgb2YCoCgR(glm::vec<3, glm::int16, Q>((glm::int16)(in[0].i % 256), (glm::int16)(in[1].i % 256), (glm::int16)(in[2].i % 256))); for (int i = 0; i < 3; ++i) ST1(out + i, (int)r[i]); });
	add_op(name("rgb2YCoCgR_uint8"), "iH3", "i3", 'B', 'B', 0, FN { glm::vec<3, glm::uint8, Q> r = glm::rgb2YCoCgR(glm::vec<3, glm::uint8, Q>((glm::uint8)in[0].i, (glm::uint8)in[1].i, (glm::uint8)in[2].i)); glm::vec<3, glm::uint8, Q> b = glm::YCoCgR2rgb(r); for (int i = 0; i < 3; ++i) ST1(out + i, (int)r[i] * 256 + (int)b[i]); });
	add_op(name("convertLinearToSRGB"), "fZ4", "f4", 'V', 'V', 0, FN { ST(out, glm::convertLinearToSRGB(VL<4, float, Q>::ld(in))); });
	add_op(name("convertSRGBToLinear"), "fZ4", "f4", 'V', 'V', 0, FN { ST(out, glm::convertSRGBToLinear(VL<4, float, Q>::ld(in))); });
}

// gtx functions that read or write quaternion components by index (storage-order dependent code)
template <class T, glm::qualifier Q> static void reg_gtxquat() {
	const char tl = (char)SA<T>::L;
	auto name = [&](const char* b) { return nm<T, Q>(b, "quat"); };
	// decompose(T * R(q) * S): orientation (w,x,y,z), scale, translation. The branch of the quaternion extraction is chosen by the trace
	// and the largest diagonal entry of R: cases within 1/32 of a branch boundary are counted, not compared (either branch is right, with
	// different rounding)
	add_op(name("decompose"), spec("@U4 @P3 @F3", tl), spec("@4 @3 @3", tl), 'U', 'R', 256,  // lowp: normalize() inside uses the rsqrt approximation
	       FN { glm::qua<T, Q> q = LDQ<T, Q>(in); glm::vec<3, T, Q> sc = VL<3, T, Q>::ld(in + 4), tr = VL<3, T, Q>::ld(in + 7);
		       glm::mat<4, 4, T, Q> M = glm::translate(glm::mat<4, 4, T, Q>(T(1)), tr) * glm::mat4_cast(q) * glm::scale(glm::mat<4, 4, T, Q>(T(1)), sc);
		       glm::vec<3, T, Q> s2, t2, skew; glm::vec<4, T, Q> persp; glm::qua<T, Q> o;
		       bool ok = glm::decompose(M, s2, o, t2, skew, persp);
		       if (!ok) { o = glm::qua<T, Q>(T(0), T(0), T(0), T(0)); s2 = t2 = glm::vec<3, T, Q>(T(0)); }
		       STQ(out, o); ST(out + 4, s2); ST(out + 7, t2); },
	       SC { return 4 * (1 + amax<T>(in, 4, 6)); },
	       SC { long double w = (long double)SA<T>::get(in[0]), x = (long double)SA<T>::get(in[1]), y = (long double)SA<T>::get(in[2]), z = (long double)SA<T>::get(in[3]);
		       long double n = w * w + x * x + y * y + z * z; if (!(n > 0.25L)) return 0.0L;
		       long double d0 = (w * w + x * x - y * y - z * z) / n, d1 = (w * w - x * x + y * y - z * z) / n, d2 = (w * w - x * x - y * y + z * z) / n, tr = d0 + d1 + d2;
		       long double m = fabsl(tr); if (fabsl(d0 - d1) < m) m = fabsl(d0 - d1); if (fabsl(d1 - d2) < m) m = fabsl(d1 - d2); if (fabsl(d0 - d2) < m) m = fabsl(d0 - d2);
		       long double smin = fabsl((long double)SA<T>::get(in[4])); for (int i = 5; i < 7; ++i) if (fabsl((long double)SA<T>::get(in[i])) < smin) smin = fabsl((long double)SA<T>::get(in[i]));
		       if (smin < 1.0L / 64) return 0.0L;
		       return m * 32; });
	// qua(u, v) for exactly opposite unit vectors: the half-turn branch builds its axis from a local vector; the result is documented as
	// "some axis orthogonal to u", but it is a deterministic function of u in every configuration and at every optimisation level
	add_op(name("from_opposite_vectors"), spec("@U3", tl), spec("@4", tl), 'U', 'U', 64, FN { glm::vec<3, T, Q> u = VL<3, T, Q>::ld(in); launder_q(&u); glm::vec<3, T, Q> v = -u; launder_q(&v); STQ(out, glm::qua<T, Q>(u, v)); }, SC { return 1.0L; },
	       SC { long double x = (long double)SA<T>::get(in[0]), y = (long double)SA<T>::get(in[1]), z = (long double)SA<T>::get(in[2]); long double n = x * x + y * y + z * z; if (!(n > 0.25L)) return 0.0L; return (y * y + z * z) / n; });  // u next to the x axis: the fallback-axis branch may flip with rounding
	add_op(name("from_two_vectors"), spec("@U3 @U3", tl), spec("@4", tl), 'U', 'U', 4096, FN { STQ(out, glm::qua<T, Q>(VL<3, T, Q>::ld(in), VL<3, T, Q>::ld(in + 3))); }, SC { return 1.0L; },
	       SC { long double d = 0; for (int i = 0; i < 3; ++i) d += (long double)SA<T>::get(in[i]) * (long double)SA<T>::get(in[3 + i]); return (1 + d) * 64; });
	add_op(name("gtx_rotate_vec3"), spec("@U4 @F3", tl), spec("@3", tl), 'U', 'U', 64, FN { ST(out, glm::rotate(LDQ<T, Q>(in), VL<3, T, Q>::ld(in + 4))); }, SC { return 4 * amax<T>(in, 4, 3); });
	add_op(name("gtx_toMat4"), spec("@U4", tl), spec("@16", tl), 'U', 'U', 8, FN { STM(out, glm::toMat4(LDQ<T, Q>(in))); }, SC { return 4.0L; });
	add_op(name("gtx_extractRealComponent"), spec("@T3", tl), spec("@1", tl), 'U', 'U', 8, FN { glm::qua<T, Q> q = glm::qua<T, Q>::wxyz(T(0), SA<T>::get(in[0]) * T(0.5), SA<T>::get(in[1]) * T(0.5), SA<T>::get(in[2]) * T(0.5)); ST1(out, glm::extractRealComponent(q)); }, SC { return 1.0L; });
}

// classifiers of gtx/common and gtx/compatibility (each has a pre-C++11 fallback)
template <class T, glm::qualifier Q> static void reg_classify() {
	const char tl = (char)SA<T>::L;
	add_op(nm<T, Q>("isdenormal", "scalar"), spec("@N1", tl), "i1", 'B', 'B', 0, FN { ST1(out, (int)glm::isdenormal(SA<T>::get(in[0]))); });
	add_op(nm<T, Q>("isdenormal", "vec3"), spec("@N3", tl), "i3", 'B', 'B', 0, FN { glm::vec<3, bool, Q> r = glm::isdenormal(VL<3, T, Q>::ld(in)); for (int i = 0; i < 3; ++i) ST1(out + i, (int)r[i]); });
	add_op(nm<T, Q>("isdenormal_next_to_zero", "scalar"), spec("iW1", tl), "i1", 'B', 'B', 0, FN { T x = std::numeric_limits<T>::denorm_min() * (T)(in[0].i); ST1(out, (int)glm::isdenormal(x) * 2 + (int)glm::isdenormal(-x)); });
	add_op(nm<T, Q>("gtx_fmod", "vec2"), spec("@F2 @Y2", tl), spec("@2", tl), 'B', 'B', 0, FN { ST(out, glm::fmod(VL<2, T, Q>::ld(in), VL<2, T, Q>::ld(in + 2))); });
}

// gtx dual quaternions: every constructor, the transforms and the blends (w,x,y,z of the real part, then of the dual part)
template <class T, glm::qualifier Q> static inline void STDQ(Slot* o, glm::tdualquat<T, Q> const& d) { STQ(o, d.real); STQ(o + 4, d.dual); }
template <class T, glm::qualifier Q> static void reg_dualquat() {
	const char tl = (char)SA<T>::L;
	auto name = [&](const char* b) { return nm<T, Q>(b, "dualquat"); };
	typedef glm::tdualquat<T, Q> DQ;
	add_op(name("ctor_q"), spec("@U4", tl), spec("@8", tl), 'B', 'B', 0, FN { DQ d(LDQ<T, Q>(in)); launder_q(&d); STDQ(out, d); });
	add_op(name("ctor_q_q"), spec("@U4 @F4", tl), spec("@8", tl), 'B', 'B', 0, FN { DQ d(LDQ<T, Q>(in), LDQ<T, Q>(in + 4)); launder_q(&d); STDQ(out, d); });
	add_op(name("ctor_q_t"), spec("@U4 @F3", tl), spec("@8", tl), 'U', 'U', 8, FN { DQ d(LDQ<T, Q>(in), VL<3, T, Q>::ld(in + 4)); STDQ(out, d); }, SC { return 1 + amax<T>(in, 4, 3); });
	add_op(name("ctor_default"), spec("@F1", tl), spec("@8", tl), 'B', 'B', 0, FN { (void)in; DQ d = DQ(); launder_q(&d); DQ e(d); STDQ(out, e); }, nullptr, SC { (void)in;
#if GLM_CONFIG_CTOR_INIT != GLM_CTOR_INIT_DISABLE
		return 1.0L;
#else
		return 0.0L;  // default construction leaves the members uninitialised unless GLM_FORCE_CTOR_INIT: not compared
#endif
	});
	add_op(name("mul_point"), spec("@U4 @F3 @F3", tl), spec("@3", tl), 'U', 'U', 64, FN { DQ d(LDQ<T, Q>(in), VL<3, T, Q>::ld(in + 4)); ST(out, d * VL<3, T, Q>::ld(in + 7)); }, SC { return 4 * (1 + amax<T>(in, 4, 3) + amax<T>(in, 7, 3)); });
	add_op(name("mul_ctor_q_point"), spec("@U4 @F3", tl), spec("@3", tl), 'U', 'U', 64, FN { DQ d(LDQ<T, Q>(in)); ST(out, d * VL<3, T, Q>::ld(in + 4)); }, SC { return 4 * (1 + amax<T>(in, 4, 3)); });
	add_op(name("lerp"), spec("@U4 @F3 @U4 @F3 @Z1", tl), spec("@8", tl), 'U', 'U', 64, FN { DQ a(LDQ<T, Q>(in), VL<3, T, Q>::ld(in + 4)), b(LDQ<T, Q>(in + 7), VL<3, T, Q>::ld(in + 11)); STDQ(out, glm::lerp(a, b, SA<T>::get(in[14]))); }, SC { return 4 * (1 + amax<T>(in, 4, 3) + amax<T>(in, 11, 3)); });
	add_op(name("normalize_inverse"), spec("@U4 @F3", tl), spec("@8", tl), 'U', 'R', 64, FN { DQ a(LDQ<T, Q>(in), VL<3, T, Q>::ld(in + 4)); STDQ(out, glm::inverse(glm::normalize(a * T(1.5)))); }, SC { return 4 * (1 + amax<T>(in, 4, 3)); });
	add_op(name("mat3x4_cast"), spec("@U4 @F3", tl), spec("@12", tl), 'U', 'U', 64, FN { DQ a(LDQ<T, Q>(in), VL<3, T, Q>::ld(in + 4)); STM(out, glm::mat3x4_cast(a)); }, SC { return 4 * (1 + amax<T>(in, 4, 3)); });
}

template <class T, glm::qualifier Q> static void reg_tq() {
	reg_quat<T, Q>();
	reg_dualquat<T, Q>();
	reg_classify<T, Q>();
	reg_gtxquat<T, Q>();
	reg_matctor<T, Q, 2, 2>(); reg_matctor<T, Q, 2, 3>(); reg_matctor<T, Q, 2, 4>(); reg_matctor<T, Q, 3, 2>(); reg_matctor<T, Q, 3, 3>(); reg_matctor<T, Q, 3, 4>(); reg_matctor<T, Q, 4, 2>(); reg_matctor<T, Q, 4, 3>(); reg_matctor<T, Q, 4, 4>();
	reg_transform<T, Q>();
}
#if OPS_PART == 0
template <glm::qualifier Q> static void reg_q() { reg_tq<float, Q>(); reg_pack<Q>(); }
#else
template <glm::qualifier Q> static void reg_q() { reg_tq<double, Q>(); }
#endif
static void reg_all() { reg_q<QH>(); OPS_MEDIUMP(reg_q<QM>();) reg_q<QL>(); }
static Registrar r_quat(reg_all);

#if OPS_PART == 0
std::vector<OpInfo>& ops_vec() { static std::vector<OpInfo> v; return v; }
extern "C" {
__attribute__((visibility("default"))) int op_count() { return (int)ops_vec().size(); }
__attribute__((visibility("default"))) const OpInfo* op_info(int i) { return &ops_vec()[i]; }
__attribute__((visibility("default"))) unsigned cfg_simd() { return (unsigned)GLM_CONFIG_SIMD; }
__attribute__((visibility("default"))) unsigned cfg_arch() { return (unsigned)GLM_ARCH; }
__attribute__((visibility("default"))) unsigned cfg_aligned() { return OPS_ALIGNED; }
#ifndef OPS_CFG_NAME
#define OPS_CFG_NAME "unnamed"
#endif
__attribute__((visibility("default"))) const char* cfg_name() { return OPS_CFG_NAME; }
}
#endif
