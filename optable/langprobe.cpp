// langprobe.cpp — a small C++98-compatible library of GLM calls whose implementation is chosen by the *detected* language level
// (GLM_LANG from __cplusplus, GLM_HAS_CXX11_STL, GLM_HAS_CONSTEXPR ...), built once per (compiler, -std=) pair and compared bit for bit
// by props/C15_lang.cpp. No GLM_FORCE_CXX* macro is defined here: the level is whatever the compiler flag says.
#define GLM_ENABLE_EXPERIMENTAL
#include <glm/glm.hpp>
#include <glm/gtc/round.hpp>
#include <glm/gtc/ulp.hpp>
#include <glm/gtc/integer.hpp>
#include <glm/gtc/epsilon.hpp>
#include <glm/ext/scalar_common.hpp>
#include <glm/ext/vector_common.hpp>
#include <glm/ext/scalar_ulp.hpp>
#include <glm/gtx/common.hpp>
#include <glm/gtx/norm.hpp>
#include <glm/gtx/fast_square_root.hpp>
#include <glm/gtx/fast_exponential.hpp>
#include <glm/gtx/log_base.hpp>
#include <glm/gtx/optimum_pow.hpp>
#include <glm/gtx/integer.hpp>
#include <string.h>

#if defined(__GNUC__)
#define LP_EXPORT extern "C" __attribute__((visibility("default")))
#else
#define LP_EXPORT extern "C"
#endif

// every entry maps (x, y) to one value of the same type; y is ignored by unary functions
template <class T> struct Fn { const char* name; T (*fn)(T, T); int domain; };  // name: "<glm function>[.<variant>]" (the harness appends ".lang.<type>")  // domain: 0 any finite/inf/nan, 1 finite, 2 positive, 3 |x| <= 1, 4 x >= 1, 5 moderate
#define U1(NAME, EXPR) template <class T> static T f_##NAME(T x, T y) { (void)y; return EXPR; }
#define B2(NAME, EXPR) template <class T> static T f_##NAME(T x, T y) { return EXPR; }
U1(round, glm::round(x))
U1(roundEven, glm::roundEven(x))
U1(trunc, glm::trunc(x))
U1(floor, glm::floor(x))
U1(ceil, glm::ceil(x))
U1(fract, glm::fract(x))
U1(sign, glm::sign(x))
U1(abs, glm::abs(x))
U1(exp2, glm::exp2(x))
U1(log2, glm::log2(x))
U1(sqrt, glm::sqrt(x))
U1(inversesqrt, glm::inversesqrt(x))
U1(asinh, glm::asinh(x))
U1(acosh, glm::acosh(x))
U1(atanh, glm::atanh(x))
U1(isnan, (T)(glm::isnan(x) ? 1 : 0))
U1(isinf, (T)(glm::isinf(x) ? 1 : 0))
U1(isdenormal, (T)(glm::isdenormal(x) ? 1 : 0))
U1(nextFloat, glm::nextFloat(x))
U1(prevFloat, glm::prevFloat(x))
U1(next_float, glm::next_float(x))
U1(prev_float, glm::prev_float(x))
U1(vec_round, glm::round(glm::vec<4, T, glm::defaultp>(x, -x, x + T(0.5), x - T(0.5))).z)
U1(vec_roundEven, glm::roundEven(glm::vec<3, T, glm::defaultp>(x, -x, x + T(0.5))).z)
U1(vec_trunc, glm::trunc(glm::vec<2, T, glm::defaultp>(x, -x)).y)
B2(min, glm::min(x, y))
B2(max, glm::max(x, y))
B2(fmin, glm::fmin(x, y))
B2(fmax, glm::fmax(x, y))
B2(fclamp, glm::fclamp(x, glm::min(y, -y), glm::max(y, -y)))
B2(mod, glm::mod(x, y))
B2(mix, glm::mix(x, y, T(0.25)))
B2(fma, glm::fma(x, y, T(0.5)))
B2(step, glm::step(x, y))
B2(smoothstep, glm::smoothstep(glm::min(x, y), glm::max(x, y) + T(1), (x + y) * T(0.5)))
B2(pow, glm::pow(glm::abs(x), glm::fract(y)))
B2(vec_fmin, glm::fmin(glm::vec<3, T, glm::defaultp>(x, y, x), glm::vec<3, T, glm::defaultp>(y, x, y)).y)
B2(vec_min, glm::min(glm::vec<4, T, glm::defaultp>(x, y, x, y), y).x)
B2(epsilonEqual, (T)(glm::epsilonEqual(x, y, glm::abs(x) * T(0.0009765625)) ? 1 : 0))
template <class T> static T f_ldexp_frexp(T x, T y) { int e = 77; T m = glm::frexp(x, e); (void)y; return glm::ldexp(m, e) + (T)e; }
B2(lxNorm3, glm::lxNorm(glm::vec<3, T, glm::defaultp>(x, y, x - y), 3u))
B2(lxNorm5, glm::lxNorm(glm::vec<3, T, glm::defaultp>(x, y, x + y), glm::vec<3, T, glm::defaultp>(y, x, T(0.25)), 5u))
B2(l1Norm, glm::l1Norm(glm::vec<3, T, glm::defaultp>(x, y, x * y)))
B2(l2Norm, glm::l2Norm(glm::vec<3, T, glm::defaultp>(x, y, x - y), glm::vec<3, T, glm::defaultp>(y, x, T(1))))
B2(distance2, glm::distance2(glm::vec<2, T, glm::defaultp>(x, y), glm::vec<2, T, glm::defaultp>(y, T(2))))
U1(pow3, glm::pow3(x))
U1(pow4, glm::pow4(x))
B2(logbase, glm::log(glm::abs(x) + T(1.5), glm::abs(y) + T(2)))
#undef U1
#undef B2

// domain codes: 0 any value (NaN, inf included), 1 finite, 2 positive finite, 3 (-1, 1), 4 >= 1, 5 moderate finite (|x| in [2^-20, 2^20] or 0), 6 moderate, y != 0
#define E(NAME, DOM) {#NAME, &f_##NAME<T>, DOM}
#define EV(NAME, SHOWN, DOM) {SHOWN, &f_##NAME<T>, DOM}
template <class T> struct Table {
	static const Fn<T>* get(int* n) {
		static const Fn<T> t[] = {
			E(round, 1), E(roundEven, 1), E(trunc, 1), E(floor, 1), E(ceil, 1), E(fract, 5), E(sign, 1), E(abs, 0), E(exp2, 5), E(log2, 2), E(sqrt, 2), E(inversesqrt, 2),
			E(asinh, 5), E(acosh, 4), E(atanh, 3), E(isnan, 0), E(isinf, 0), E(isdenormal, 0), E(nextFloat, 1), E(prevFloat, 1), E(next_float, 1), E(prev_float, 1),
			EV(vec_round, "round.vec4", 5), EV(vec_roundEven, "roundEven.vec3", 5), EV(vec_trunc, "trunc.vec2", 1), E(min, 1), E(max, 1), E(fmin, 0), E(fmax, 0), E(fclamp, 1), E(mod, 6), E(mix, 5), E(fma, 5), E(step, 1),
			E(smoothstep, 5), E(pow, 5), EV(vec_fmin, "fmin.vec3", 0), EV(vec_min, "min.vec4", 1), E(epsilonEqual, 5), E(ldexp_frexp, 5), E(lxNorm3, 5), E(lxNorm5, 5), E(l1Norm, 5), E(l2Norm, 5), E(distance2, 5), E(pow3, 5), E(pow4, 5), E(logbase, 5),
		};
		*n = (int)(sizeof(t) / sizeof(t[0]));
		return t;
	}
};
#undef E
#undef EV
LP_EXPORT int lp_count() { int n; Table<float>::get(&n); return n; }
LP_EXPORT const char* lp_name(int i) { int n; return Table<float>::get(&n)[i].name; }
LP_EXPORT int lp_domain(int i) { int n; return Table<float>::get(&n)[i].domain; }
LP_EXPORT float lp_eval_f(int i, float x, float y) { int n; return Table<float>::get(&n)[i].fn(x, y); }
LP_EXPORT double lp_eval_d(int i, double x, double y) { int n; return Table<double>::get(&n)[i].fn(x, y); }
LP_EXPORT long lp_cplusplus() { return (long)__cplusplus; }
LP_EXPORT int lp_glm_lang() { return (int)GLM_LANG; }
LP_EXPORT int lp_has_cxx11_stl() { return (int)GLM_HAS_CXX11_STL; }
