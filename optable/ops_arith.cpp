// ops_arith.cpp — operators, relational functions, conversions, constructors.
#include "opdef.hpp"

template <class T, glm::qualifier Q, int L> static void reg_arith_float() {
	typedef glm::vec<L, T, Q> V; typedef VL<L, T, Q> LV; const char tl = (char)SA<T>::L;
	const char* a2 = spec("@G# @G#", tl, L); const char* a1s = spec("@G# @G1", tl, L); const char* a1 = spec("@G#", tl, L); const char* o = spec("@#", tl, L);
	add_op(nmv<T, Q, L>("add"), a2, o, 'V', 'V', 0, FN { ST(out, LV::ld(in) + LV::ld(in + L)); });
	add_op(nmv<T, Q, L>("sub"), a2, o, 'V', 'V', 0, FN { ST(out, LV::ld(in) - LV::ld(in + L)); });
	add_op(nmv<T, Q, L>("mul"), a2, o, 'V', 'V', 0, FN { ST(out, LV::ld(in) * LV::ld(in + L)); });
	add_op(nmv<T, Q, L>("div"), a2, o, 'V', 'R', 0, FN { ST(out, LV::ld(in) / LV::ld(in + L)); });
	add_op(nmv<T, Q, L>("add_s"), a1s, o, 'V', 'V', 0, FN { ST(out, LV::ld(in) + SA<T>::get(in[L])); });
	add_op(nmv<T, Q, L>("sub_s"), a1s, o, 'V', 'V', 0, FN { ST(out, LV::ld(in) - SA<T>::get(in[L])); });
	add_op(nmv<T, Q, L>("mul_s"), a1s, o, 'V', 'V', 0, FN { ST(out, LV::ld(in) * SA<T>::get(in[L])); });
	add_op(nmv<T, Q, L>("div_s"), a1s, o, 'V', 'R', 0, FN { ST(out, LV::ld(in) / SA<T>::get(in[L])); });
	add_op(nmv<T, Q, L>("s_add"), a1s, o, 'V', 'V', 0, FN { ST(out, SA<T>::get(in[L]) + LV::ld(in)); });
	add_op(nmv<T, Q, L>("s_sub"), a1s, o, 'V', 'V', 0, FN { ST(out, SA<T>::get(in[L]) - LV::ld(in)); });
	add_op(nmv<T, Q, L>("s_mul"), a1s, o, 'V', 'V', 0, FN { ST(out, SA<T>::get(in[L]) * LV::ld(in)); });
	add_op(nmv<T, Q, L>("s_div"), a1s, o, 'V', 'R', 0, FN { ST(out, SA<T>::get(in[L]) / LV::ld(in)); });
	add_op(nmv<T, Q, L>("add_assign"), a2, o, 'V', 'V', 0, FN { V a = LV::ld(in); a += LV::ld(in + L); ST(out, a); });
	add_op(nmv<T, Q, L>("sub_assign"), a2, o, 'V', 'V', 0, FN { V a = LV::ld(in); a -= LV::ld(in + L); ST(out, a); });
	add_op(nmv<T, Q, L>("mul_assign"), a2, o, 'V', 'V', 0, FN { V a = LV::ld(in); a *= LV::ld(in + L); ST(out, a); });
	add_op(nmv<T, Q, L>("div_assign"), a2, o, 'V', 'R', 0, FN { V a = LV::ld(in); a /= LV::ld(in + L); ST(out, a); });
	add_op(nmv<T, Q, L>("mul_assign_s"), a1s, o, 'V', 'V', 0, FN { V a = LV::ld(in); a *= SA<T>::get(in[L]); ST(out, a); });
	add_op(nmv<T, Q, L>("div_assign_s"), a1s, o, 'V', 'R', 0, FN { V a = LV::ld(in); a /= SA<T>::get(in[L]); ST(out, a); });
	add_op(nmv<T, Q, L>("neg"), a1, o, 'B', 'B', 0, FN { ST(out, -LV::ld(in)); });
	add_op(nmv<T, Q, L>("inc"), a1, o, 'V', 'V', 0, FN { V a = LV::ld(in); ++a; ST(out, a); });
	add_op(nmv<T, Q, L>("dec"), a1, o, 'V', 'V', 0, FN { V a = LV::ld(in); a--; ST(out, a); });
	const char* aeq = spec("@E# @E#", tl, L);
	add_op(nmv<T, Q, L>("op_eq"), aeq, "b1", 'B', 'B', 0, FN { ST1(out, LV::ld(in) == LV::ld(in + L)); });
	add_op(nmv<T, Q, L>("op_ne"), aeq, "b1", 'B', 'B', 0, FN { ST1(out, LV::ld(in) != LV::ld(in + L)); });
	const char* ob = spec("b#", tl, L);
	add_op(nmv<T, Q, L>("lessThan"), aeq, ob, 'B', 'B', 0, FN { ST(out, glm::lessThan(LV::ld(in), LV::ld(in + L))); });
	add_op(nmv<T, Q, L>("lessThanEqual"), aeq, ob, 'B', 'B', 0, FN { ST(out, glm::lessThanEqual(LV::ld(in), LV::ld(in + L))); });
	add_op(nmv<T, Q, L>("greaterThan"), aeq, ob, 'B', 'B', 0, FN { ST(out, glm::greaterThan(LV::ld(in), LV::ld(in + L))); });
	add_op(nmv<T, Q, L>("greaterThanEqual"), aeq, ob, 'B', 'B', 0, FN { ST(out, glm::greaterThanEqual(LV::ld(in), LV::ld(in + L))); });
	add_op(nmv<T, Q, L>("equal"), aeq, ob, 'B', 'B', 0, FN { ST(out, glm::equal(LV::ld(in), LV::ld(in + L))); });
	add_op(nmv<T, Q, L>("notEqual"), aeq, ob, 'B', 'B', 0, FN { ST(out, glm::notEqual(LV::ld(in), LV::ld(in + L))); });
	// conversions: float -> int only for values representable in the target (domain C = |x| < 2^31, finite)
	add_op(nmv<T, Q, L>("to_int"), spec("@C#", tl, L), spec("i#", tl, L), 'B', 'B', 0, FN { ST(out, glm::vec<L, int, Q>(LV::ld(in))); });
	add_op(nmv<T, Q, L>("to_uint"), spec("@Z#", tl, L), spec("u#", tl, L), 'B', 'B', 0, FN { ST(out, glm::vec<L, unsigned, Q>(LV::ld(in) * T(4096))); });
	add_op(nmv<T, Q, L>("from_int"), spec("iI#", tl, L), o, 'B', 'B', 0, FN { ST(out, V(VL<L, int, Q>::ld(in))); });
	add_op(nmv<T, Q, L>("from_uint"), spec("uI#", tl, L), o, 'B', 'B', 0, FN { ST(out, V(VL<L, unsigned, Q>::ld(in))); });
	add_op(nmv<T, Q, L>("splat"), spec("@G1", tl, L), o, 'B', 'B', 0, FN { ST(out, V(SA<T>::get(in[0]))); });
	add_op(nmv<T, Q, L>("to_float"), a1, spec("f#", tl, L), 'B', 'B', 0, FN { ST(out, glm::vec<L, float, Q>(LV::ld(in))); });
	add_op(nmv<T, Q, L>("to_double"), a1, spec("d#", tl, L), 'B', 'B', 0, FN { ST(out, glm::vec<L, double, Q>(LV::ld(in))); });
}

template <class T, glm::qualifier Q, int L> static void reg_arith_int() {
	typedef glm::vec<L, T, Q> V; typedef VL<L, T, Q> LV; const char tl = (char)SA<T>::L;
	const bool sgn = std::numeric_limits<T>::is_signed;
	// signed arithmetic is kept overflow-free (domain M), unsigned wraps and takes anything (domain I)
	const char* a2 = spec(sgn ? "@M# @M#" : "@I# @I#", tl, L); const char* a1s = spec(sgn ? "@M# @M1" : "@I# @I1", tl, L);
	const char* a1 = spec(sgn ? "@M#" : "@I#", tl, L); const char* o = spec("@#", tl, L); const char* any2 = spec("@I# @I#", tl, L); const char* any1 = spec("@I#", tl, L);
	add_op(nmv<T, Q, L>("add"), a2, o, 'B', 'B', 0, FN { ST(out, LV::ld(in) + LV::ld(in + L)); });
	add_op(nmv<T, Q, L>("sub"), a2, o, 'B', 'B', 0, FN { ST(out, LV::ld(in) - LV::ld(in + L)); });
	add_op(nmv<T, Q, L>("mul"), a2, o, 'B', 'B', 0, FN { ST(out, LV::ld(in) * LV::ld(in + L)); });
	add_op(nmv<T, Q, L>("div"), spec(sgn ? "@M# @D#" : "@I# @D#", tl, L), o, 'B', 'B', 0, FN { ST(out, LV::ld(in) / LV::ld(in + L)); });
	add_op(nmv<T, Q, L>("mod"), spec(sgn ? "@M# @D#" : "@I# @D#", tl, L), o, 'B', 'B', 0, FN { ST(out, LV::ld(in) % LV::ld(in + L)); });
	add_op(nmv<T, Q, L>("add_s"), a1s, o, 'B', 'B', 0, FN { ST(out, LV::ld(in) + SA<T>::get(in[L])); });
	add_op(nmv<T, Q, L>("sub_s"), a1s, o, 'B', 'B', 0, FN { ST(out, LV::ld(in) - SA<T>::get(in[L])); });
	add_op(nmv<T, Q, L>("mul_s"), a1s, o, 'B', 'B', 0, FN { ST(out, LV::ld(in) * SA<T>::get(in[L])); });
	add_op(nmv<T, Q, L>("s_sub"), a1s, o, 'B', 'B', 0, FN { ST(out, SA<T>::get(in[L]) - LV::ld(in)); });
	add_op(nmv<T, Q, L>("div_s"), spec(sgn ? "@M# @D1" : "@I# @D1", tl, L), o, 'B', 'B', 0, FN { ST(out, LV::ld(in) / SA<T>::get(in[L])); });
	add_op(nmv<T, Q, L>("mod_s"), spec(sgn ? "@M# @D1" : "@I# @D1", tl, L), o, 'B', 'B', 0, FN { ST(out, LV::ld(in) % SA<T>::get(in[L])); });
	add_op(nmv<T, Q, L>("add_assign"), a2, o, 'B', 'B', 0, FN { V a = LV::ld(in); a += LV::ld(in + L); ST(out, a); });
	add_op(nmv<T, Q, L>("sub_assign"), a2, o, 'B', 'B', 0, FN { V a = LV::ld(in); a -= LV::ld(in + L); ST(out, a); });
	add_op(nmv<T, Q, L>("mul_assign"), a2, o, 'B', 'B', 0, FN { V a = LV::ld(in); a *= LV::ld(in + L); ST(out, a); });
	add_op(nmv<T, Q, L>("neg"), a1, o, 'B', 'B', 0, FN { ST(out, -LV::ld(in)); });
	add_op(nmv<T, Q, L>("inc"), a1, o, 'B', 'B', 0, FN { V a = LV::ld(in); ++a; ST(out, a); });
	add_op(nmv<T, Q, L>("dec"), a1, o, 'B', 'B', 0, FN { V a = LV::ld(in); --a; ST(out, a); });
	add_op(nmv<T, Q, L>("and"), any2, o, 'B', 'B', 0, FN { ST(out, LV::ld(in) & LV::ld(in + L)); });
	add_op(nmv<T, Q, L>("or"), any2, o, 'B', 'B', 0, FN { ST(out, LV::ld(in) | LV::ld(in + L)); });
	add_op(nmv<T, Q, L>("xor"), any2, o, 'B', 'B', 0, FN { ST(out, LV::ld(in) ^ LV::ld(in + L)); });
	add_op(nmv<T, Q, L>("not"), any1, o, 'B', 'B', 0, FN { ST(out, ~LV::ld(in)); });
	add_op(nmv<T, Q, L>("and_s"), spec("@I# @I1", tl, L), o, 'B', 'B', 0, FN { ST(out, LV::ld(in) & SA<T>::get(in[L])); });
	add_op(nmv<T, Q, L>("or_s"), spec("@I# @I1", tl, L), o, 'B', 'B', 0, FN { ST(out, LV::ld(in) | SA<T>::get(in[L])); });
	add_op(nmv<T, Q, L>("xor_s"), spec("@I# @I1", tl, L), o, 'B', 'B', 0, FN { ST(out, LV::ld(in) ^ SA<T>::get(in[L])); });
	// shifts: counts in [0,width); left shift of signed values kept non-negative and small (no overflow)
	add_op(nmv<T, Q, L>("shl"), spec(sgn ? "@H# @W#" : "@I# @S#", tl, L), o, 'B', 'B', 0, FN { ST(out, LV::ld(in) << LV::ld(in + L)); });
	add_op(nmv<T, Q, L>("shr"), spec("@I# @S#", tl, L), o, 'B', 'B', 0, FN { ST(out, LV::ld(in) >> LV::ld(in + L)); });
	add_op(nmv<T, Q, L>("shl_s"), spec(sgn ? "@H# @W1" : "@I# @S1", tl, L), o, 'B', 'B', 0, FN { ST(out, LV::ld(in) << SA<T>::get(in[L])); });
	add_op(nmv<T, Q, L>("shr_s"), spec("@I# @S1", tl, L), o, 'B', 'B', 0, FN { ST(out, LV::ld(in) >> SA<T>::get(in[L])); });
	add_op(nmv<T, Q, L>("op_eq"), spec("@E# @E#", tl, L), "b1", 'B', 'B', 0, FN { ST1(out, LV::ld(in) == LV::ld(in + L)); });
	add_op(nmv<T, Q, L>("op_ne"), spec("@E# @E#", tl, L), "b1", 'B', 'B', 0, FN { ST1(out, LV::ld(in) != LV::ld(in + L)); });
	const char* ob = spec("b#", tl, L); const char* aeq = spec("@E# @E#", tl, L);
	add_op(nmv<T, Q, L>("lessThan"), aeq, ob, 'B', 'B', 0, FN { ST(out, glm::lessThan(LV::ld(in), LV::ld(in + L))); });
	add_op(nmv<T, Q, L>("greaterThanEqual"), aeq, ob, 'B', 'B', 0, FN { ST(out, glm::greaterThanEqual(LV::ld(in), LV::ld(in + L))); });
	add_op(nmv<T, Q, L>("equal"), aeq, ob, 'B', 'B', 0, FN { ST(out, glm::equal(LV::ld(in), LV::ld(in + L))); });
	add_op(nmv<T, Q, L>("notEqual"), aeq, ob, 'B', 'B', 0, FN { ST(out, glm::notEqual(LV::ld(in), LV::ld(in + L))); });
	add_op(nmv<T, Q, L>("splat"), spec("@I1", tl, L), o, 'B', 'B', 0, FN { ST(out, V(SA<T>::get(in[0]))); });
	add_op(nmv<T, Q, L>("abs"), a1, o, 'B', 'B', 0, FN { ST(out, glm::abs(LV::ld(in))); });
	add_op(nmv<T, Q, L>("min"), any2, o, 'B', 'B', 0, FN { ST(out, glm::min(LV::ld(in), LV::ld(in + L))); });
	add_op(nmv<T, Q, L>("max"), any2, o, 'B', 'B', 0, FN { ST(out, glm::max(LV::ld(in), LV::ld(in + L))); });
	add_op(nmv<T, Q, L>("min_s"), spec("@I# @I1", tl, L), o, 'B', 'B', 0, FN { ST(out, glm::min(LV::ld(in), SA<T>::get(in[L]))); });
	add_op(nmv<T, Q, L>("max_s"), spec("@I# @I1", tl, L), o, 'B', 'B', 0, FN { ST(out, glm::max(LV::ld(in), SA<T>::get(in[L]))); });
	add_op(nmv<T, Q, L>("clamp"), spec("@I# @O#", tl, L), o, 'B', 'B', 0, FN { ST(out, glm::clamp(LV::ld(in), LV::ld(in + L), LV::ld(in + 2 * L))); });
	add_op(nmv<T, Q, L>("clamp_s"), spec("@I# @O1", tl, L), o, 'B', 'B', 0, FN { ST(out, glm::clamp(LV::ld(in), SA<T>::get(in[L]), SA<T>::get(in[L + 1]))); });
	add_op(nmv<T, Q, L>("bitCount"), any1, spec("i#", tl, L), 'B', 'B', 0, FN { ST(out, glm::bitCount(LV::ld(in))); });
	add_op(nmv<T, Q, L>("bitfieldReverse"), any1, o, 'B', 'B', 0, FN { ST(out, glm::bitfieldReverse(LV::ld(in))); });
	add_op(nmv<T, Q, L>("findLSB"), any1, spec("i#", tl, L), 'B', 'B', 0, FN { ST(out, glm::findLSB(LV::ld(in))); });
	add_op(nmv<T, Q, L>("findMSB"), any1, spec("i#", tl, L), 'B', 'B', 0, FN { ST(out, glm::findMSB(LV::ld(in))); });
}
// a packed vector placed sizeof(T) bytes after a 64-byte boundary, followed by a guard element (a store wider than the object changes it)
template <int L, class T> struct alignas(64) OffBuf { T pad; glm::vec<L, T, glm::packed_highp> p; T guard; OffBuf() : pad(T(0)), p(T(0)), guard((T)77) {} };
static inline void launder_ptr(void* q) { __asm__ volatile("" : : "r"(q) : "memory"); }
// constructors from mixed shapes (the aligned float/int/uint vec3/vec4 constructors are SIMD specialisations) and truncating conversions
template <class T, glm::qualifier Q> static void reg_ctors() {
	const char tl = (char)SA<T>::L; const char dom = (tl == 'f' || tl == 'd') ? 'G' : 'I';
	auto sp = [&](const char* s) { std::string o; for (; *s; ++s) o += (*s == '@') ? tl : (*s == '$') ? dom : *s; return strdup(o.c_str()); };
	typedef glm::vec<2, T, Q> V2; typedef glm::vec<3, T, Q> V3; typedef glm::vec<4, T, Q> V4;
	add_op(nm<T, Q>("ctor_v3_s", "vec4"), sp("@$3 @$1"), sp("@4"), 'B', 'B', 0, FN { ST(out, V4(VL<3, T, Q>::ld(in), SA<T>::get(in[3]))); });
	add_op(nm<T, Q>("ctor_s_v3", "vec4"), sp("@$1 @$3"), sp("@4"), 'B', 'B', 0, FN { ST(out, V4(SA<T>::get(in[0]), VL<3, T, Q>::ld(in + 1))); });
	add_op(nm<T, Q>("ctor_v2_v2", "vec4"), sp("@$2 @$2"), sp("@4"), 'B', 'B', 0, FN { ST(out, V4(VL<2, T, Q>::ld(in), VL<2, T, Q>::ld(in + 2))); });
	add_op(nm<T, Q>("ctor_v2_s_s", "vec4"), sp("@$2 @$1 @$1"), sp("@4"), 'B', 'B', 0, FN { ST(out, V4(VL<2, T, Q>::ld(in), SA<T>::get(in[2]), SA<T>::get(in[3]))); });
	add_op(nm<T, Q>("ctor_s_v2_s", "vec4"), sp("@$1 @$2 @$1"), sp("@4"), 'B', 'B', 0, FN { ST(out, V4(SA<T>::get(in[0]), VL<2, T, Q>::ld(in + 1), SA<T>::get(in[3]))); });
	add_op(nm<T, Q>("ctor_s_s_v2", "vec4"), sp("@$1 @$1 @$2"), sp("@4"), 'B', 'B', 0, FN { ST(out, V4(SA<T>::get(in[0]), SA<T>::get(in[1]), VL<2, T, Q>::ld(in + 2))); });
	add_op(nm<T, Q>("ctor_v2_s", "vec3"), sp("@$2 @$1"), sp("@3"), 'B', 'B', 0, FN { ST(out, V3(VL<2, T, Q>::ld(in), SA<T>::get(in[2]))); });
	add_op(nm<T, Q>("ctor_s_v2", "vec3"), sp("@$1 @$2"), sp("@3"), 'B', 'B', 0, FN { ST(out, V3(SA<T>::get(in[0]), VL<2, T, Q>::ld(in + 1))); });
	add_op(nm<T, Q>("trunc_v4", "vec3"), sp("@$4"), sp("@3"), 'B', 'B', 0, FN { ST(out, V3(VL<4, T, Q>::ld(in))); });
	add_op(nm<T, Q>("trunc_v4", "vec2"), sp("@$4"), sp("@2"), 'B', 'B', 0, FN { ST(out, V2(VL<4, T, Q>::ld(in))); });
	add_op(nm<T, Q>("trunc_v3", "vec2"), sp("@$3"), sp("@2"), 'B', 'B', 0, FN { ST(out, V2(VL<3, T, Q>::ld(in))); });
	// cross-qualifier conversions: in SIMD builds these are the packed <-> aligned loads and stores (a packed vec3 is 12 bytes: a 16-byte
	// load from it reads out of bounds, which the AddressSanitizer builds of C20 see on these stack objects)
	add_op(nm<T, Q>("from_packed_highp", "vec3"), sp("@$3"), sp("@3"), 'B', 'B', 0, FN { glm::vec<3, T, glm::packed_highp> p(SA<T>::get(in[0]), SA<T>::get(in[1]), SA<T>::get(in[2])); V3 a(p); ST(out, a); });
	add_op(nm<T, Q>("from_packed_mediump", "vec4"), sp("@$4"), sp("@4"), 'B', 'B', 0, FN { glm::vec<4, T, glm::packed_mediump> p(SA<T>::get(in[0]), SA<T>::get(in[1]), SA<T>::get(in[2]), SA<T>::get(in[3])); V4 a(p); ST(out, a); });
	add_op(nm<T, Q>("from_packed_lowp", "vec2"), sp("@$2"), sp("@2"), 'B', 'B', 0, FN { glm::vec<2, T, glm::packed_lowp> p(SA<T>::get(in[0]), SA<T>::get(in[1])); V2 a(p); ST(out, a); });
	add_op(nm<T, Q>("to_packed_highp", "vec3"), sp("@$3"), sp("@3"), 'B', 'B', 0, FN { V3 a = VL<3, T, Q>::ld(in); glm::vec<3, T, glm::packed_highp> p(a); for (int i = 0; i < 3; ++i) SA<T>::put(out[i], p[i]); });
	add_op(nm<T, Q>("to_packed_highp", "vec4"), sp("@$4"), sp("@4"), 'B', 'B', 0, FN { V4 a = VL<4, T, Q>::ld(in); glm::vec<4, T, glm::packed_highp> p(a); for (int i = 0; i < 4; ++i) SA<T>::put(out[i], p[i]); });
	// the same conversions with the packed object at an address that is only aligned for T (alignof(vec<L, T, packed_*>) == alignof(T)):
	// an aligned SIMD load or store on it is a misaligned access (UBSan alignment check, SIGSEGV on movdqa/movaps at -O0)
	add_op(nm<T, Q>("from_packed_highp_unaligned", "vec4"), sp("@$4"), sp("@4"), 'B', 'B', 0, FN { OffBuf<4, T> b; for (int i = 0; i < 4; ++i) b.p[i] = SA<T>::get(in[i]); launder_ptr(&b); V4 a(b.p); ST(out, a); });
	add_op(nm<T, Q>("from_packed_highp_unaligned", "vec3"), sp("@$3"), sp("@3"), 'B', 'B', 0, FN { OffBuf<3, T> b; for (int i = 0; i < 3; ++i) b.p[i] = SA<T>::get(in[i]); launder_ptr(&b); V3 a(b.p); ST(out, a); });
	add_op(nm<T, Q>("from_packed_highp_unaligned", "vec2"), sp("@$2"), sp("@2"), 'B', 'B', 0, FN { OffBuf<2, T> b; for (int i = 0; i < 2; ++i) b.p[i] = SA<T>::get(in[i]); launder_ptr(&b); V2 a(b.p); ST(out, a); });
	add_op(nm<T, Q>("to_packed_highp_unaligned", "vec4"), sp("@$4"), sp("@4"), 'B', 'B', 0, FN { V4 a = VL<4, T, Q>::ld(in); OffBuf<4, T> b; launder_ptr(&b); new (&b.p) glm::vec<4, T, glm::packed_highp>(a); launder_ptr(&b); for (int i = 0; i < 4; ++i) SA<T>::put(out[i], b.p[i]); });
	add_op(nm<T, Q>("to_packed_highp_unaligned", "vec3"), sp("@$3"), sp("@3"), 'B', 'B', 0, FN { V3 a = VL<3, T, Q>::ld(in); OffBuf<3, T> b; launder_ptr(&b); new (&b.p) glm::vec<3, T, glm::packed_highp>(a); launder_ptr(&b); for (int i = 0; i < 3; ++i) SA<T>::put(out[i], b.p[i]); if (b.guard != (T)77) SA<T>::put(out[0], (T)0 - SA<T>::get(out[0]) + (T)13); });
	add_op(nm<T, Q>("copy_assign_index", "vec4"), sp("@$4"), sp("@4"), 'B', 'B', 0, FN { V4 a = VL<4, T, Q>::ld(in); V4 b; b = a; V4 c2; for (int i = 0; i < 4; ++i) c2[i] = b[3 - i]; ST(out, c2); });
	add_op(nm<T, Q>("copy_assign_index", "vec3"), sp("@$3"), sp("@3"), 'B', 'B', 0, FN { V3 a = VL<3, T, Q>::ld(in); V3 b; b = a; V3 c2; for (int i = 0; i < 3; ++i) c2[i] = b[2 - i]; ST(out, c2); });
}
// component selection: with GLM_FORCE_SWIZZLE in operator form (needs the MS-extension flag, i.e. a SIMD build) these are the
// swizzle proxies, whose float/int/uint aligned versions are SIMD shuffles of the *source* storage; everywhere else the same
// selection is written with constructors, so the operation exists in every library and must agree bit for bit
#if GLM_CONFIG_SWIZZLE == GLM_SWIZZLE_OPERATOR
#define SWZ(v, pat, ...) (v.pat)
#else
#define SWZ(v, pat, ...) (__VA_ARGS__)
#endif
template <class T, glm::qualifier Q> static void reg_swz() {
	const char tl = (char)SA<T>::L; const char dom = (tl == 'f' || tl == 'd') ? 'G' : 'I';
	auto sp = [&](const char* s) { std::string o; for (; *s; ++s) o += (*s == '@') ? tl : (*s == '$') ? dom : *s; return strdup(o.c_str()); };
	typedef glm::vec<2, T, Q> V2; typedef glm::vec<3, T, Q> V3; typedef glm::vec<4, T, Q> V4;
	add_op(nm<T, Q>("swz_v2_yx", "vec2"), sp("@$2"), sp("@2"), 'B', 'B', 0, FN { V2 v = VL<2, T, Q>::ld(in); launder_ptr(&v); V2 r = SWZ(v, yx, V2(v.y, v.x)); ST(out, r); });
	// (a three-letter operator swizzle of a vec2 does not compile at all: known finding of C17)
	add_op(nm<T, Q>("swz_v2_xyxy", "vec4"), sp("@$2"), sp("@4"), 'B', 'B', 0, FN { V2 v = VL<2, T, Q>::ld(in); launder_ptr(&v); V4 r = SWZ(v, xyxy, V4(v.x, v.y, v.x, v.y)); ST(out, r); });
	add_op(nm<T, Q>("swz_v3_zy", "vec2"), sp("@$3"), sp("@2"), 'B', 'B', 0, FN { V3 v = VL<3, T, Q>::ld(in); launder_ptr(&v); V2 r = SWZ(v, zy, V2(v.z, v.y)); ST(out, r); });
	add_op(nm<T, Q>("swz_v3_zyx", "vec3"), sp("@$3"), sp("@3"), 'B', 'B', 0, FN { V3 v = VL<3, T, Q>::ld(in); launder_ptr(&v); V3 r = SWZ(v, zyx, V3(v.z, v.y, v.x)); ST(out, r); });
	add_op(nm<T, Q>("swz_v3_xxzz", "vec4"), sp("@$3"), sp("@4"), 'B', 'B', 0, FN { V3 v = VL<3, T, Q>::ld(in); launder_ptr(&v); V4 r = SWZ(v, xxzz, V4(v.x, v.x, v.z, v.z)); ST(out, r); });
	add_op(nm<T, Q>("swz_v4_wx", "vec2"), sp("@$4"), sp("@2"), 'B', 'B', 0, FN { V4 v = VL<4, T, Q>::ld(in); launder_ptr(&v); V2 r = SWZ(v, wx, V2(v.w, v.x)); ST(out, r); });
	add_op(nm<T, Q>("swz_v4_xzy", "vec3"), sp("@$4"), sp("@3"), 'B', 'B', 0, FN { V4 v = VL<4, T, Q>::ld(in); launder_ptr(&v); V3 r = SWZ(v, xzy, V3(v.x, v.z, v.y)); ST(out, r); });
	add_op(nm<T, Q>("swz_v4_wzyx", "vec4"), sp("@$4"), sp("@4"), 'B', 'B', 0, FN { V4 v = VL<4, T, Q>::ld(in); launder_ptr(&v); V4 r = SWZ(v, wzyx, V4(v.w, v.z, v.y, v.x)); ST(out, r); });
	// stores through a swizzle, and arithmetic on a swizzle
	add_op(nm<T, Q>("swz_store_v3_zyx", "vec3"), sp("@$3 @$3"), sp("@3"), 'B', 'B', 0, FN { V3 v = VL<3, T, Q>::ld(in), w = VL<3, T, Q>::ld(in + 3); launder_ptr(&v);
#if GLM_CONFIG_SWIZZLE == GLM_SWIZZLE_OPERATOR
		v.zyx = w;
#else
		v = V3(w.z, w.y, w.x);
#endif
		ST(out, v); });
	add_op(nm<T, Q>("swz_store_v4_yx", "vec4"), sp("@$4 @$2"), sp("@4"), 'B', 'B', 0, FN { V4 v = VL<4, T, Q>::ld(in); V2 w = VL<2, T, Q>::ld(in + 4); launder_ptr(&v);
#if GLM_CONFIG_SWIZZLE == GLM_SWIZZLE_OPERATOR
		v.yx = w;
#else
		v = V4(w.y, w.x, v.z, v.w);
#endif
		ST(out, v); });
}
// integer functions on the *builtin* integer types of every width (signed char ... unsigned long long): GLM's own sized typedefs never
// name `long` (pre-C++11 int64 is long long), so the bundled make_unsigned table and the per-width specialisations are only reached
// this way. A value is composed from two 32-bit slots and narrowed to T; results go back as two 32-bit slots.
template <class T> static inline T ldw(const Slot* s) { return (T)(typename std::make_unsigned<T>::type)((uint64_t)s[0].u | ((uint64_t)s[1].u << 32)); }
template <class T> static inline void stw(Slot* o, T v) { uint64_t w = (uint64_t)(int64_t)v; if (!std::is_signed<T>::value) w = (uint64_t)(typename std::make_unsigned<T>::type)v; o[0].ul = 0; o[1].ul = 0; o[0].u = (uint32_t)w; o[1].u = (uint32_t)(w >> 32); }
template <class T, glm::qualifier Q> static void reg_wide(const char* tn) {
	const int W = (int)sizeof(T) * 8; (void)W;
	auto name = [&](const char* b, const char* shape) { return std::string(b) + "." + shape + "." + tn + "." + QN<Q>::name(); };
	typedef glm::vec<2, T, Q> V2;
	add_op(name("bitCount", "scalar"), "uI2", "i1", 'B', 'B', 0, FN { ST1(out, (int)glm::bitCount(ldw<T>(in))); });
	add_op(name("findLSB", "scalar"), "uI2", "i1", 'B', 'B', 0, FN { ST1(out, (int)glm::findLSB(ldw<T>(in))); });
	add_op(name("findMSB", "scalar"), "uI2", "i1", 'B', 'B', 0, FN { ST1(out, (int)glm::findMSB(ldw<T>(in))); });
	add_op(name("bitCount", "vec2"), "uI2 uI2", "i2", 'B', 'B', 0, FN { ST(out, glm::vec<2, int, Q>(glm::bitCount(V2(ldw<T>(in), ldw<T>(in + 2))))); });
	add_op(name("findLSB", "vec2"), "uI2 uI2", "i2", 'B', 'B', 0, FN { ST(out, glm::vec<2, int, Q>(glm::findLSB(V2(ldw<T>(in), ldw<T>(in + 2))))); });
	add_op(name("findMSB", "vec2"), "uI2 uI2", "i2", 'B', 'B', 0, FN { ST(out, glm::vec<2, int, Q>(glm::findMSB(V2(ldw<T>(in), ldw<T>(in + 2))))); });
	add_op(name("bitfieldReverse", "scalar"), "uI2", "u2", 'B', 'B', 0, FN { stw<T>(out, glm::bitfieldReverse(ldw<T>(in))); });
	add_op(name("bitfieldExtract", "scalar"), "uI2 uI1 uI1", "u2", 'B', 'B', 0, FN { const int w = (int)sizeof(T) * 8; int off = (int)(in[2].u % (unsigned)(w + 1)); int bits = (int)(in[3].u % (unsigned)(w - off + 1)); stw<T>(out, glm::bitfieldExtract(ldw<T>(in), off, bits)); });
	add_op(name("bitfieldInsert", "scalar"), "uI2 uI2 uI1 uI1", "u2", 'B', 'B', 0, FN { const int w = (int)sizeof(T) * 8; int off = (int)(in[4].u % (unsigned)(w + 1)); int bits = (int)(in[5].u % (unsigned)(w - off + 1)); stw<T>(out, glm::bitfieldInsert(ldw<T>(in), ldw<T>(in + 2), off, bits)); });
	add_op(name("mask", "scalar"), "uI1", "u2", 'B', 'B', 0, FN { const int w = (int)sizeof(T) * 8; stw<T>(out, glm::mask((T)(in[0].u % (unsigned)(w + 1)))); });
	add_op(name("bitfieldFillOne", "scalar"), "uI2 uI1 uI1", "u2", 'B', 'B', 0, FN { const int w = (int)sizeof(T) * 8; int off = (int)(in[2].u % (unsigned)(w + 1)); int bits = (int)(in[3].u % (unsigned)(w - off + 1)); stw<T>(out, glm::bitfieldFillOne(ldw<T>(in), off, bits)); });
	add_op(name("bitfieldFillZero", "scalar"), "uI2 uI1 uI1", "u2", 'B', 'B', 0, FN { const int w = (int)sizeof(T) * 8; int off = (int)(in[2].u % (unsigned)(w + 1)); int bits = (int)(in[3].u % (unsigned)(w - off + 1)); stw<T>(out, glm::bitfieldFillZero(ldw<T>(in), off, bits)); });
	add_op(name("bitfieldRotateLeft", "scalar"), "uI2 uI1", "u2", 'B', 'B', 0, FN { const int w = (int)sizeof(T) * 8; stw<T>(out, glm::bitfieldRotateLeft(ldw<T>(in), (int)(in[2].u % (unsigned)w))); });
	add_op(name("bitfieldRotateRight", "scalar"), "uI2 uI1", "u2", 'B', 'B', 0, FN { const int w = (int)sizeof(T) * 8; stw<T>(out, glm::bitfieldRotateRight(ldw<T>(in), (int)(in[2].u % (unsigned)w))); });
	if constexpr (std::is_signed<T>::value) {
		add_op(name("sign", "scalar"), "uI2", "u2", 'B', 'B', 0, FN { stw<T>(out, glm::sign(ldw<T>(in))); });
		add_op(name("sign", "vec2"), "uI2 uI2", "u2 u2", 'B', 'B', 0, FN { V2 r = glm::sign(V2(ldw<T>(in), ldw<T>(in + 2))); stw<T>(out, r.x); stw<T>(out + 2, r.y); });
	}
}
template <class T> struct sign_ok { static const bool v = std::numeric_limits<T>::is_signed; };
template <class T, glm::qualifier Q, int L> static void reg_sign_int() {
	typedef VL<L, T, Q> LV; const char tl = (char)SA<T>::L;
	add_op(nmv<T, Q, L>("sign"), spec("@I#", tl, L), spec("@#", tl, L), 'B', 'B', 0, FN { ST(out, glm::sign(LV::ld(in))); });
}

template <glm::qualifier Q> static void reg_q() {
#if OPS_PART == 0
	reg_arith_float<float, Q, 1>(); reg_arith_float<float, Q, 2>(); reg_arith_float<float, Q, 3>(); reg_arith_float<float, Q, 4>();
	reg_arith_int<int, Q, 1>(); reg_arith_int<int, Q, 2>(); reg_arith_int<int, Q, 3>(); reg_arith_int<int, Q, 4>();
	reg_sign_int<int, Q, 2>(); reg_sign_int<int, Q, 3>(); reg_sign_int<int, Q, 4>();
	reg_ctors<float, Q>(); reg_ctors<int, Q>();
	reg_swz<float, Q>(); reg_swz<int, Q>();
#else
	reg_ctors<double, Q>(); reg_ctors<unsigned, Q>();
	reg_wide<signed char, Q>("schar"); reg_wide<unsigned char, Q>("uchar"); reg_wide<short, Q>("short"); reg_wide<unsigned short, Q>("ushort");
	reg_wide<long, Q>("long"); reg_wide<unsigned long, Q>("ulong"); reg_wide<long long, Q>("llong"); reg_wide<unsigned long long, Q>("ullong");
	reg_swz<unsigned, Q>();  // operator swizzles of aligned double vectors do not compile (uninstantiable group recorded by C17)
	reg_arith_float<double, Q, 1>(); reg_arith_float<double, Q, 2>(); reg_arith_float<double, Q, 3>(); reg_arith_float<double, Q, 4>();
	reg_arith_int<unsigned, Q, 1>(); reg_arith_int<unsigned, Q, 2>(); reg_arith_int<unsigned, Q, 3>(); reg_arith_int<unsigned, Q, 4>();
#endif
}
static void reg_all() { reg_q<QH>(); OPS_MEDIUMP(reg_q<QM>();) reg_q<QL>(); }
static Registrar r_arith(reg_all);
