// fuzz_main.cpp — libFuzzer driver for any harness of this framework.
// The harness is compiled with -Dmain=pbt_harness_main; LLVMFuzzerInitialize runs it in "register only" mode (targets are
// registered, dynamic libraries loaded, nothing executed). Each fuzz input is decoded structurally: 2 bytes select the target,
// every following 8 bytes are one forced choice of the choice sequence (draws beyond the input are 0), so coverage guidance
// explores the *generators'* decision space instead of raw argument bytes. The oracle is the property itself: a failure whose
// key is not listed as known (PBT_KNOWN_KEYS: one fnmatch pattern per line, "<target>:<key>") writes a replay JSON into
// PBT_FUZZ_OUT and traps, so the libFuzzer artifact and the replay file describe the same case.
#include "pbt.hpp"
#include <fnmatch.h>

extern int pbt_harness_main(int argc, char** argv);
static std::vector<std::string> g_known;
static std::string g_out;
static int g_tier = 0;
static std::atomic<uint64_t> g_execs(0), g_nontrivial(0), g_known_hits(0);

extern "C" int LLVMFuzzerInitialize(int* argc, char*** argv) {
	setenv("PBT_REGISTER_ONLY", "1", 1);
	pbt_harness_main(*argc > 0 ? 1 : 0, *argv);
	if (const char* k = getenv("PBT_KNOWN_KEYS")) {
		FILE* f = fopen(k, "r");
		if (f) { char line[1024]; while (fgets(line, sizeof line, f)) { size_t n = strlen(line); while (n && (line[n - 1] == '\n' || line[n - 1] == '\r')) line[--n] = 0; if (n) g_known.push_back(line); } fclose(f); }
	}
	if (const char* o = getenv("PBT_FUZZ_OUT")) g_out = o;
	if (const char* t = getenv("VERIF_TIER")) g_tier = !strcmp(t, "thorough");
	fprintf(stderr, "[fuzz] %zu targets, %zu known-finding patterns\n", pbt::targets().size(), g_known.size());
	atexit([] { fprintf(stderr, "[fuzz-stats] execs=%llu nontrivial=%llu known=%llu\n", (unsigned long long)g_execs.load(), (unsigned long long)g_nontrivial.load(), (unsigned long long)g_known_hits.load()); });
	return 0;
}

extern "C" int LLVMFuzzerTestOneInput(const uint8_t* data, size_t size) {
	auto& T = pbt::targets();
	if (T.empty() || size < 2) return 0;
	size_t ti = ((size_t)data[0] | ((size_t)data[1] << 8)) % T.size();
	const pbt::Target& t = T[ti];
	uint64_t ch[pbt::MAXC];
	int n = 0;
	for (size_t p = 2; p + 8 <= size && n < pbt::MAXC; p += 8) { uint64_t v; memcpy(&v, data + p, 8); ch[n++] = v; }
	static thread_local pbt::Stats st;
	pbt::Ctx c; c.st = &st; c.tier = g_tier;
	c.reset(ch, n, true, 0);
	pbt::invoke(t, c);
	g_execs++;
	if (c.nontriv) g_nontrivial++;
	if (!c.failed) return 0;
	for (auto& f : c.fails) {
		std::string full = t.name + ":" + f.first;
		bool known = false;
		for (auto& k : g_known) if (fnmatch(k.c_str(), full.c_str(), 0) == 0) { known = true; break; }
		if (known) { g_known_hits++; continue; }
		// describe the case and store the replay before trapping (a trap skips atexit handlers)
		pbt::Ctx d; pbt::Stats st2; d.st = &st2; d.tier = g_tier; d.verbose = true; d.reset(ch, n, true, 0); pbt::invoke(t, d);
		if (!g_out.empty()) {
			char path[1024]; snprintf(path, sizeof path, "%s/fuzz-%zu-%016llx.json", g_out.c_str(), ti, (unsigned long long)pbt::mix64(pbt::hash_str(f.first.c_str()) ^ ti));
			FILE* o = fopen(path, "w");
			if (o) {
				fprintf(o, "{\"target\": \"%s\", \"key\": \"%s\", \"choices\": [", pbt::jesc(t.name).c_str(), pbt::jesc(f.first).c_str());
				for (int i = 0; i < c.n; ++i) fprintf(o, "%s%llu", i ? "," : "", (unsigned long long)c.choices[i]);
				fprintf(o, "], \"case\": \"%s\", \"detail\": \"%s\"}\n", pbt::jesc(d.desc).c_str(), pbt::jesc(f.second).c_str());
				fclose(o);
			}
		}
		fprintf(stderr, "[fuzz] FAILURE target=%s key=%s\n  case: %s\n  detail: %s\n", t.name.c_str(), f.first.c_str(), d.desc.c_str(), f.second.c_str());
		__builtin_trap();
	}
	return 0;
}
