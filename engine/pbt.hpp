// pbt.hpp — choice-sequence property-based testing core (no dependency on GLM).
//
// A property is `void prop(pbt::Ctx&)`.  All randomness comes from Ctx::draw(bound): the list of
// draws *is* the case.  Three drivers feed the same property function:
//   random      : draws come from a counter-based generator keyed by (VERIF_SEED, target, index)
//   sweep       : draw #0 is forced to the enumeration index (complete or strided enumeration)
//   replay/fuzz : draws are forced from a stored list / from fuzzer bytes
// A failing case is reported with a *class key* (narrow description of what failed); keys are what
// known_findings.json lists.  One minimal example per key is shrunk and written as a replay file.
#pragma once
#include <atomic>
#include <chrono>
#include <cinttypes>
#include <cmath>
#include <cstdarg>
#include <cstdint>
#include <cstdio>
#include <cstdlib>
#include <cstring>
#include <functional>
#include <map>
#include <mutex>
#include <set>
#include <string>
#include <thread>
#include <vector>
#include <fcntl.h>
#include <sys/mman.h>
#include <unistd.h>

namespace pbt {

static inline uint64_t mix64(uint64_t z) {
	z += 0x9e3779b97f4a7c15ULL;
	z = (z ^ (z >> 30)) * 0xbf58476d1ce4e5b9ULL;
	z = (z ^ (z >> 27)) * 0x94d049bb133111ebULL;
	return z ^ (z >> 31);
}
static inline uint64_t hash_str(const char* s) {
	uint64_t h = 1469598103934665603ULL;
	for (; *s; ++s) h = (h ^ (unsigned char)*s) * 1099511628211ULL;
	return h;
}

enum { MAXC = 512, MAXCLS = 96, MAXMET = 32 };

#ifdef PBT_UBSAN_HOOK
// clang's UBSan runtime calls this weak hook for every report (recover mode); the report is turned into a
// failure of the case that was running on this thread. Reports are de-duplicated per source location by the
// runtime, so only the first case reaching a site is recorded — one per root cause.
struct UbsanHit { bool hit = false; char key[256]; char msg[512]; };
inline thread_local UbsanHit tl_ubsan;  // filled by the strong __ubsan_on_report in engine/ubsan_hook.cpp (linked into every sanitizer stage)
#endif

struct Failure {
	std::string key, detail;
};

struct Stats {
	uint64_t evals = 0, nontrivial = 0, discarded = 0;
	const char* cls_name[MAXCLS];
	uint64_t cls_cnt[MAXCLS];
	int ncls = 0;
	const char* met_name[MAXMET];
	double met_max[MAXMET];
	int nmet = 0;
	void cls(const char* n, uint64_t k = 1) {
		for (int i = 0; i < ncls; ++i)
			if (cls_name[i] == n) { cls_cnt[i] += k; return; }
		for (int i = 0; i < ncls; ++i)
			if (!strcmp(cls_name[i], n)) { cls_cnt[i] += k; return; }
		if (ncls < MAXCLS) { cls_name[ncls] = n; cls_cnt[ncls++] = k; }
	}
	void metric(const char* n, double v) {
		if (!(v == v)) return;
		for (int i = 0; i < nmet; ++i)
			if (met_name[i] == n || !strcmp(met_name[i], n)) { if (v > met_max[i]) met_max[i] = v; return; }
		if (nmet < MAXMET) { met_name[nmet] = n; met_max[nmet++] = v; }
	}
};

struct Ctx {
	// ---- choice sequence
	uint64_t store[MAXC + 2];
	uint64_t* base = store;      // base[0] = n, base[1] = target index, base+2 = choices (may live in the mmap'd trace file)
	uint64_t* choices = store + 2;
	int n = 0;
	const uint64_t* forced = nullptr;
	int nforced = 0;
	bool forced_only = false;  // replay / shrink / fuzz: draws beyond the forced prefix are 0
	uint64_t rs = 0;           // generator state for unforced draws
	bool overrun = false;
	// ---- per-case outcome
	bool failed = false, nontriv = false, discard = false;
	std::vector<std::pair<std::string, std::string>> fails;  // (key, detail): several independent failures per case are allowed
	// ---- bookkeeping
	Stats* st = nullptr;
	bool verbose = false;  // collect a decoded description (samples, replays)
	std::string desc;
	int tier = 0;  // 0 quick, 1 thorough
	void* user = nullptr;

	void reset(const uint64_t* f, int nf, bool fonly, uint64_t seed) {
		n = 0; base[0] = 0; forced = f; nforced = nf; forced_only = fonly; rs = seed; overrun = false;
		failed = nontriv = discard = false;
		if (!fails.empty()) fails.clear();
		if (!desc.empty()) desc.clear();
	}
	// value in [0,bound); bound == 0 means a full 64-bit draw. Smaller value == simpler.
	uint64_t draw(uint64_t bound = 0) {
		uint64_t v;
		if (n < nforced) v = forced[n];
		else if (forced_only) v = 0;
		else { rs += 0x9e3779b97f4a7c15ULL; v = mix64(rs); }
		if (bound) v = (v < bound) ? v : v % bound;
		if (n < MAXC) { choices[n++] = v; base[0] = (uint64_t)n; } else overrun = true;
		return v;
	}
	bool coin() { return draw(2) != 0; }
	// integer in [lo,hi], shrinks towards lo
	int64_t range(int64_t lo, int64_t hi) { return lo + (int64_t)draw((uint64_t)(hi - lo) + 1); }
	// real in [0,1) with 53 random bits
	double unit() { return (double)(draw(1ULL << 53)) * (1.0 / 9007199254740992.0); }
	double uniform(double lo, double hi) { return lo + (hi - lo) * unit(); }
	// log-uniform magnitude in [lo,hi], lo>0
	double loguniform(double lo, double hi) { return std::exp(std::log(lo) + (std::log(hi) - std::log(lo)) * unit()); }

	void cls(const char* name) { st->cls(name); }
	void metric(const char* name, double v) { st->metric(name, v); }
	void nontrivial() { nontriv = true; }
	void skip() { discard = true; }
	void add_fail(const std::string& key, const char* detail) {
		failed = true;
		for (auto& f : fails) if (f.first == key) return;
		if (fails.size() < 16) fails.emplace_back(key, detail);
	}
	void fail(const char* key, const char* fmt, ...) __attribute__((format(printf, 3, 4))) {
		char buf[1024];
		va_list ap; va_start(ap, fmt); vsnprintf(buf, sizeof buf, fmt, ap); va_end(ap);
		add_fail(key, buf);
	}
	void failk(const std::string& key, const char* fmt, ...) __attribute__((format(printf, 3, 4))) {
		char buf[1024];
		va_list ap; va_start(ap, fmt); vsnprintf(buf, sizeof buf, fmt, ap); va_end(ap);
		add_fail(key, buf);
	}
	void logf(const char* fmt, ...) __attribute__((format(printf, 2, 3))) {
		if (!verbose) return;
		char buf[1024];
		va_list ap; va_start(ap, fmt); vsnprintf(buf, sizeof buf, fmt, ap); va_end(ap);
		if (!desc.empty()) desc += "; ";
		desc += buf;
	}
};

typedef void (*PropFn)(Ctx&);

struct Target {
	std::string name;
	PropFn fn = nullptr;
	// random targets
	uint64_t quick_cases = 0, thorough_cases = 0;
	// sweep targets: domain > 0; quick tier visits ~domain/quick_stride indices (one per stride block,
	// position inside the block chosen by the seed) — thorough visits all (stride thorough_stride).
	uint64_t domain = 0, quick_stride = 1, thorough_stride = 1;
	std::string rule;  // what is generated, what counts as non-trivial
};

inline std::vector<Target>& targets() { static std::vector<Target> t; return t; }
struct Reg {
	Reg(const char* name, PropFn fn, uint64_t q, uint64_t t, const char* rule) {
		Target x; x.name = name; x.fn = fn; x.quick_cases = q; x.thorough_cases = t; x.rule = rule; targets().push_back(x);
	}
	Reg(const char* name, PropFn fn, uint64_t domain, uint64_t qstride, uint64_t tstride, const char* rule) {
		Target x; x.name = name; x.fn = fn; x.domain = domain; x.quick_stride = qstride; x.thorough_stride = tstride; x.rule = rule; targets().push_back(x);
	}
};
#define PBT_RANDOM(name, fn, quick, thorough, rule) static pbt::Reg reg_##fn(name, fn, (uint64_t)(quick), (uint64_t)(thorough), rule)
#define PBT_SWEEP(name, fn, domain, qstride, tstride, rule) static pbt::Reg reg_##fn(name, fn, (uint64_t)(domain), (uint64_t)(qstride), (uint64_t)(tstride), rule)

// ------------------------------------------------------------------------------------------------
struct FailRec {
	uint64_t count = 0;
	uint64_t index = ~0ULL;  // smallest failing case index
	std::vector<uint64_t> choices;
	std::string detail, desc;
};

struct TargetResult {
	Stats st;
	uint64_t distinct = 0;
	bool exhaustive = false;
	std::map<std::string, FailRec> fails;
	std::vector<std::string> samples;
	double wall = 0;
};

static inline std::string jesc(const std::string& s) {
	std::string o;
	for (unsigned char ch : s) {
		if (ch == '"' || ch == '\\') { o += '\\'; o += (char)ch; }
		else if (ch == '\n') o += "\\n";
		else if (ch < 0x20) { char b[8]; snprintf(b, sizeof b, "\\u%04x", ch); o += b; }
		else o += (char)ch;
	}
	return o;
}

static inline void merge_stats(Stats& a, const Stats& b) {
	a.evals += b.evals; a.nontrivial += b.nontrivial; a.discarded += b.discarded;
	for (int i = 0; i < b.ncls; ++i) a.cls(b.cls_name[i], b.cls_cnt[i]);
	for (int i = 0; i < b.nmet; ++i) a.metric(b.met_name[i], b.met_max[i]);
}

static inline uint64_t hash_choices(const Ctx& c, uint64_t salt) {
	uint64_t h = salt;
	for (int i = 0; i < c.n; ++i) h = mix64(h ^ c.choices[i]);
	return h;
}

static inline void invoke(const Target& t, Ctx& c) {
#ifdef PBT_UBSAN_HOOK
	tl_ubsan.hit = false;
#endif
	t.fn(c);
#ifdef PBT_UBSAN_HOOK
	if (tl_ubsan.hit) c.add_fail(tl_ubsan.key, tl_ubsan.msg);
#endif
}

struct Runner {
	uint64_t* trace = nullptr;  // mmap'd trace file: one slot of MAXC+2 words per worker
	int trace_slots = 0;
	int cur_target = 0;
	int tier = 0;
	uint64_t seed = 1;
	double scale = 1.0;
	int nthreads = 16;
	std::string only;  // optional target name filter (substring)
	void* user = nullptr;

	// Run one stored case; returns true if it fails. key/detail/desc filled.
	// Run one stored case; returns true if it fails with `want` among its failure keys (any failure when want is empty).
	static bool run_case(const Target& t, const std::vector<uint64_t>& ch, int tier, const std::string& want, std::string* keys, std::string* detail, std::string* desc, void* user = nullptr) {
		Stats st; Ctx c; c.st = &st; c.tier = tier; c.verbose = (desc != nullptr); c.user = user;
		c.reset(ch.data(), (int)ch.size(), true, 0);
		invoke(t, c);
		bool hit = false;
		if (keys) keys->clear();
		for (auto& f : c.fails) {
			if (keys) { if (!keys->empty()) *keys += " "; *keys += f.first; }
			if (want.empty() ? !hit : f.first == want) { hit = true; if (detail) *detail = f.second; }
		}
		if (desc) *desc = c.desc;
		return hit;
	}

	// Shrink a failing choice list while the failure key stays the same.
	std::vector<uint64_t> shrink(const Target& t, std::vector<uint64_t> ch, const std::string& key) {
		int budget = 4000;
		auto still = [&](const std::vector<uint64_t>& cand) {
			if (budget-- <= 0) return false;
			return run_case(t, cand, tier, key, nullptr, nullptr, nullptr, user);
		};
		if (t.domain) return ch;                      // sweep: the index is the case
		bool progress = true;
		while (progress && budget > 0) {
			progress = false;
			// drop the tail
			while (!ch.empty() && ch.back() == 0) ch.pop_back();
			for (size_t cut = ch.size() / 2; cut >= 1 && budget > 0; cut /= 2) {
				while (ch.size() > cut) {
					std::vector<uint64_t> cand(ch.begin(), ch.end() - cut);
					if (still(cand)) { ch = cand; progress = true; } else break;
				}
			}
			// zero blocks / single entries
			for (size_t i = 0; i < ch.size() && budget > 0; ++i) {
				if (ch[i] == 0) continue;
				std::vector<uint64_t> cand = ch; cand[i] = 0;
				if (still(cand)) { ch = cand; progress = true; continue; }
				// binary search towards 0
				uint64_t lo = 0, hi = ch[i];
				while (lo + 1 < hi && budget > 0) {
					uint64_t mid = lo + (hi - lo) / 2;
					cand = ch; cand[i] = mid;
					if (still(cand)) { hi = mid; } else lo = mid;
				}
				if (hi != ch[i]) { ch[i] = hi; progress = true; }
			}
			// delete single entries
			for (size_t i = 0; i < ch.size() && budget > 0; ++i) {
				std::vector<uint64_t> cand = ch; cand.erase(cand.begin() + i);
				if (still(cand)) { ch = cand; progress = true; --i; }
			}
		}
		return ch;
	}

	TargetResult run_target(const Target& t) {
		auto t0 = std::chrono::steady_clock::now();
		TargetResult R;
		uint64_t ncases, stride = 1;
		if (t.domain) {
			stride = tier ? t.thorough_stride : t.quick_stride;
			if (stride < 1) stride = 1;
			if (scale < 1.0) { uint64_t s2 = (uint64_t)((double)stride / scale); if (s2 > stride) stride = s2; }  // scaled-down runs (sanitizer builds) subsample sweeps
			ncases = (t.domain + stride - 1) / stride;
			R.exhaustive = (stride == 1);
		} else {
			ncases = (uint64_t)((double)(tier ? t.thorough_cases : t.quick_cases) * scale);
			if (ncases < 1) ncases = 1;
		}
		const uint64_t salt = mix64(hash_str(t.name.c_str()) ^ mix64(seed));
		int BM_BITS = 16;  // distinctness bitmap sized to the run: >= 16 x cases, at most 2^28 bits
		while (BM_BITS < 28 && (1ULL << BM_BITS) < ncases * 16) ++BM_BITS;
		std::vector<std::atomic<uint64_t>>* bitmap = nullptr;
		if (!t.domain) bitmap = new std::vector<std::atomic<uint64_t>>((1ULL << BM_BITS) / 64);
		std::atomic<uint64_t> next(0);
		const uint64_t BLOCK = t.domain ? 65536 : 256;
		std::mutex mu;
		std::atomic<int> slot_no(0);
		auto worker = [&]() {
			Stats st; Ctx c; c.st = &st; c.tier = tier; c.user = user;
			int slot = slot_no.fetch_add(1);
			if (trace && slot < trace_slots) { c.base = trace + (size_t)slot * (MAXC + 2); c.choices = c.base + 2; c.base[0] = 0; c.base[1] = (uint64_t)cur_target; }
			std::map<std::string, FailRec> fails;
			for (;;) {
				uint64_t b = next.fetch_add(BLOCK);
				if (b >= ncases) break;
				uint64_t e = b + BLOCK < ncases ? b + BLOCK : ncases;
				for (uint64_t i = b; i < e; ++i) {
					uint64_t f0;
					if (t.domain) {
						f0 = i * stride + (stride > 1 ? mix64(salt ^ i) % stride : 0);
						if (f0 >= t.domain) f0 = t.domain - 1;
						c.reset(&f0, 1, false, mix64(salt ^ (i * 0x9e3779b97f4a7c15ULL)));
					} else {
						c.reset(nullptr, 0, false, mix64(salt ^ (i * 0x9e3779b97f4a7c15ULL)));
					}
					invoke(t, c);
					if (c.discard) { st.discarded++; continue; }
					st.evals++;
					if (c.nontriv) {
						st.nontrivial++;
						if (bitmap) {
							uint64_t h = hash_choices(c, 0x1234567) & ((1ULL << BM_BITS) - 1);
							(*bitmap)[h >> 6].fetch_or(1ULL << (h & 63), std::memory_order_relaxed);
						}
					}
					if (c.failed) for (auto& f : c.fails) {
						FailRec& fr = fails[f.first];
						fr.count++;
						if (i < fr.index) { fr.index = i; fr.choices.assign(c.choices, c.choices + c.n); fr.detail = f.second; }
					}
				}
			}
			if (c.base != c.store) { c.base[0] = 0; c.base[1] = ~0ULL; }
			std::lock_guard<std::mutex> g(mu);
			merge_stats(R.st, st);
			for (auto& kv : fails) {
				FailRec& d = R.fails[kv.first];
				d.count += kv.second.count;
				if (kv.second.index < d.index) { d.index = kv.second.index; d.choices = kv.second.choices; d.detail = kv.second.detail; }
			}
		};
		std::vector<std::thread> th;
		int nt = nthreads; if ((uint64_t)nt * BLOCK > ncases) nt = (int)((ncases + BLOCK - 1) / BLOCK);
		if (nt < 1) nt = 1;
		for (int i = 0; i < nt; ++i) th.emplace_back(worker);
		for (auto& x : th) x.join();
		if (bitmap) {
			uint64_t pc = 0;
			for (auto& w : *bitmap) pc += __builtin_popcountll(w.load());
			R.distinct = pc;
			delete bitmap;
		} else R.distinct = R.st.nontrivial;  // sweep indices are distinct by construction
		// shrink + describe failures
		for (auto& kv : R.fails) {
			kv.second.choices = shrink(t, kv.second.choices, kv.first);
			std::string d, desc;
			if (run_case(t, kv.second.choices, tier, kv.first, nullptr, &d, &desc, user)) kv.second.detail = d;
			kv.second.desc = desc;
		}
		// samples: first few non-trivial cases in index order, described
		{
			Stats st; Ctx c; c.st = &st; c.tier = tier; c.verbose = true; c.user = user;
			int got = 0;
			for (uint64_t k = 0; k < ncases && k < 4000 && got < 4; ++k) {
				uint64_t i = t.domain ? (mix64(salt ^ (k + 77)) % ncases) : k;
				uint64_t f0;
				if (t.domain) {
					f0 = i * stride + (stride > 1 ? mix64(salt ^ i) % stride : 0);
					if (f0 >= t.domain) f0 = t.domain - 1;
					c.reset(&f0, 1, false, mix64(salt ^ (i * 0x9e3779b97f4a7c15ULL)));
				} else c.reset(nullptr, 0, false, mix64(salt ^ (i * 0x9e3779b97f4a7c15ULL)));
				invoke(t, c);
				if (c.discard || !c.nontriv) continue;
				R.samples.push_back(c.desc.empty() ? std::string("(case ") + std::to_string(i) + ")" : c.desc);
				++got;
			}
		}
		R.wall = std::chrono::duration<double>(std::chrono::steady_clock::now() - t0).count();
		return R;
	}
};

// ------------------------------------------------------------------------------------------------
// main(): `harness --out result.json [--replay file] [--tier quick|thorough] [--only substr]`
// result.json is consumed by bin/check, which decides known-finding vs violation.
static inline bool read_replay(const char* path, std::string* target, std::vector<uint64_t>* ch) {
	FILE* f = fopen(path, "rb");
	if (!f) return false;
	std::string s; char buf[4096]; size_t k;
	while ((k = fread(buf, 1, sizeof buf, f)) > 0) s.append(buf, k);
	fclose(f);
	size_t p = s.find("\"target\"");
	if (p == std::string::npos) return false;
	p = s.find('"', s.find(':', p)); size_t q = s.find('"', p + 1);
	*target = s.substr(p + 1, q - p - 1);
	p = s.find("\"choices\"");
	if (p == std::string::npos) return false;
	p = s.find('[', p); q = s.find(']', p);
	const char* cp = s.c_str() + p + 1; const char* end = s.c_str() + q;
	while (cp < end) {
		while (cp < end && (*cp < '0' || *cp > '9')) ++cp;
		if (cp >= end) break;
		char* e; uint64_t v = strtoull(cp, &e, 10); ch->push_back(v); cp = e;
	}
	return true;
}

static inline int pbt_main(int argc, char** argv, const char* property_id, void* user = nullptr) {
	Runner R; R.user = user;
	const char* out = nullptr; const char* replay = nullptr;
	if (const char* s = getenv("VERIF_SEED")) R.seed = strtoull(s, nullptr, 10);
	if (const char* s = getenv("VERIF_TIER")) R.tier = !strcmp(s, "thorough");
	if (const char* s = getenv("VERIF_SCALE")) R.scale = atof(s);
	if (const char* s = getenv("VERIF_THREADS")) R.nthreads = atoi(s);
	for (int i = 1; i < argc; ++i) {
		if (!strcmp(argv[i], "--out") && i + 1 < argc) out = argv[++i];
		else if (!strcmp(argv[i], "--replay") && i + 1 < argc) replay = argv[++i];
		else if (!strcmp(argv[i], "--tier") && i + 1 < argc) R.tier = !strcmp(argv[++i], "thorough");
		else if (!strcmp(argv[i], "--only") && i + 1 < argc) R.only = argv[++i];
		else if (!strcmp(argv[i], "--list")) { for (auto& t : targets()) printf("%s\n", t.name.c_str()); return 0; }
	}
	if (getenv("PBT_REGISTER_ONLY")) return 0;  // libFuzzer driver: targets are registered, nothing is run
	if (replay) {
		std::string tn; std::vector<uint64_t> ch;
		if (!read_replay(replay, &tn, &ch)) { fprintf(stderr, "cannot read replay %s\n", replay); return 2; }
		for (auto& t : targets()) if (t.name == tn) {
			std::string k, d, desc;
			bool f = Runner::run_case(t, ch, R.tier, "", &k, &d, &desc, user);
			printf("REPLAY target=%s result=%s keys=%s\n  case: %s\n  detail: %s\n", tn.c_str(), f ? "FAIL" : "pass", k.c_str(), desc.c_str(), d.c_str());
			return f ? 1 : 0;
		}
		fprintf(stderr, "replay target %s not in this harness\n", tn.c_str());
		return 2;
	}
	if (const char* tp = getenv("PBT_TRACE")) {
		int fd = open(tp, O_RDWR | O_CREAT | O_TRUNC, 0644);
		size_t sz = (size_t)R.nthreads * (MAXC + 2) * 8;
		if (fd >= 0 && ftruncate(fd, (off_t)sz) == 0) {
			void* m = mmap(nullptr, sz, PROT_READ | PROT_WRITE, MAP_SHARED, fd, 0);
			if (m != MAP_FAILED) { R.trace = (uint64_t*)m; R.trace_slots = R.nthreads; for (int i = 0; i < R.nthreads; ++i) R.trace[(size_t)i * (MAXC + 2) + 1] = ~0ULL; }
		}
		if (fd >= 0) close(fd);
	}
	auto t0 = std::chrono::steady_clock::now();
	std::string js = "{\n \"property_id\": \"" + std::string(property_id) + "\",\n \"tier\": \"" + (R.tier ? "thorough" : "quick") + "\",\n \"seed\": " + std::to_string(R.seed) + ",\n \"targets\": [\n";
	bool first = true; int nfailkeys = 0;
	int tindex = -1;
	for (auto& t : targets()) {
		++tindex;
		if (!R.only.empty()) {  // --only a|b|c : keep targets whose name contains one of the alternatives
			bool keep = false; size_t p0 = 0;
			while (p0 <= R.only.size()) { size_t e = R.only.find('|', p0); if (e == std::string::npos) e = R.only.size(); if (e > p0 && t.name.find(R.only.substr(p0, e - p0)) != std::string::npos) keep = true; p0 = e + 1; }
			if (!keep) continue;
		}
		R.cur_target = tindex;
		TargetResult r = R.run_target(t);
		if (!first) js += ",\n";
		first = false;
		char b[256];
		js += "  {\"name\": \"" + jesc(t.name) + "\", \"rule\": \"" + jesc(t.rule) + "\", ";
		snprintf(b, sizeof b, "\"evaluations\": %" PRIu64 ", \"nontrivial\": %" PRIu64 ", \"distinct_nontrivial\": %" PRIu64 ", \"discarded\": %" PRIu64 ", \"exhaustive\": %s, \"wall_s\": %.3f, ",
		         r.st.evals, r.st.nontrivial, r.distinct, r.st.discarded, r.exhaustive ? "true" : "false", r.wall);
		js += b;
		js += "\"classes\": {";
		for (int i = 0; i < r.st.ncls; ++i) { snprintf(b, sizeof b, "%s\"%s\": %" PRIu64, i ? ", " : "", jesc(r.st.cls_name[i]).c_str(), r.st.cls_cnt[i]); js += b; }
		js += "}, \"metrics\": {";
		for (int i = 0; i < r.st.nmet; ++i) { double mv = r.st.met_max[i]; if (!(mv == mv)) mv = 0; if (mv > 1e300) mv = 1e300; if (mv < -1e300) mv = -1e300;  // JSON has no inf/nan
			snprintf(b, sizeof b, "%s\"%s\": %.6g", i ? ", " : "", jesc(r.st.met_name[i]).c_str(), mv); js += b; }
		js += "}, \"samples\": [";
		for (size_t i = 0; i < r.samples.size(); ++i) js += std::string(i ? ", " : "") + "\"" + jesc(r.samples[i]) + "\"";
		js += "], \"failures\": [";
		bool ff = true;
		for (auto& kv : r.fails) {
			if (!ff) js += ", ";
			ff = false; ++nfailkeys;
			js += "{\"key\": \"" + jesc(kv.first) + "\", \"count\": " + std::to_string(kv.second.count) + ", \"choices\": [";
			for (size_t i = 0; i < kv.second.choices.size(); ++i) js += (i ? "," : "") + std::to_string(kv.second.choices[i]);
			js += "], \"case\": \"" + jesc(kv.second.desc) + "\", \"detail\": \"" + jesc(kv.second.detail) + "\"}";
		}
		js += "]}";
		if (!getenv("PBT_QUIET") || !r.fails.empty()) fprintf(stderr, "[%s] %-44s evals=%-12" PRIu64 " nontrivial=%-12" PRIu64 " failkeys=%zu  %.1fs\n", property_id, t.name.c_str(), r.st.evals, r.st.nontrivial, r.fails.size(), r.wall);
	}
	double wall = std::chrono::duration<double>(std::chrono::steady_clock::now() - t0).count();
	char b[64]; snprintf(b, sizeof b, "%.3f", wall);
	js += "\n ],\n \"wall_s\": " + std::string(b) + "\n}\n";
	if (out) { FILE* f = fopen(out, "wb"); if (!f) { perror(out); return 2; } fwrite(js.data(), 1, js.size(), f); fclose(f); }
	else fputs(js.c_str(), stdout);
	return 0;
}

}  // namespace pbt
