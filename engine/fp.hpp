// fp.hpp — IEEE-754 helpers and value generators over pbt::Ctx (no dependency on GLM, no libm in the
// bit-level references).
#pragma once
#include "pbt.hpp"
#include <limits>
#include <type_traits>

namespace fp {

static inline uint32_t f2u(float f) { uint32_t u; memcpy(&u, &f, 4); return u; }
static inline float u2f(uint32_t u) { float f; memcpy(&f, &u, 4); return f; }
static inline uint64_t d2u(double f) { uint64_t u; memcpy(&u, &f, 8); return u; }
static inline double u2d(uint64_t u) { double f; memcpy(&f, &u, 8); return f; }

template <class T> struct bits_of;
template <> struct bits_of<float> { typedef uint32_t U; typedef int32_t S; enum { MANT = 23, EXPBITS = 8, BIAS = 127 }; };
template <> struct bits_of<double> { typedef uint64_t U; typedef int64_t S; enum { MANT = 52, EXPBITS = 11, BIAS = 1023 }; };

template <class T> static inline typename bits_of<T>::U tobits(T f) { typename bits_of<T>::U u; memcpy(&u, &f, sizeof f); return u; }
template <class T> static inline T frombits(typename bits_of<T>::U u) { T f; memcpy(&f, &u, sizeof f); return f; }

template <class T> static inline bool is_nan(T x) { typedef typename bits_of<T>::U U; U u = tobits(x); U e = (u >> bits_of<T>::MANT) & ((U(1) << bits_of<T>::EXPBITS) - 1); return e == ((U(1) << bits_of<T>::EXPBITS) - 1) && (u & ((U(1) << bits_of<T>::MANT) - 1)) != 0; }
template <class T> static inline bool is_inf(T x) { typedef typename bits_of<T>::U U; U u = tobits(x); return (u << 1) == (((U(1) << bits_of<T>::EXPBITS) - 1) << (bits_of<T>::MANT + 1)); }
template <class T> static inline bool is_finite(T x) { return !is_nan(x) && !is_inf(x); }
template <class T> static inline bool sign_bit(T x) { typedef typename bits_of<T>::U U; return (tobits(x) >> (sizeof(U) * 8 - 1)) != 0; }

// ordered integer: monotone map of non-NaN floats to signed integers, +0 and -0 both map to 0.
template <class T> static inline typename bits_of<T>::S ordered(T x) {
	typedef typename bits_of<T>::U U; typedef typename bits_of<T>::S S;
	U u = tobits(x); U mag = u & ~(U(1) << (sizeof(U) * 8 - 1));
	return (u >> (sizeof(U) * 8 - 1)) ? -(S)mag : (S)mag;
}
template <class T> static inline T from_ordered(typename bits_of<T>::S o) {
	typedef typename bits_of<T>::U U;
	if (o < 0) return frombits<T>(U(-o) | (U(1) << (sizeof(U) * 8 - 1)));
	return frombits<T>(U(o));
}
// ulp distance as non-negative double (exact for float, saturating semantics irrelevant for double use)
template <class T> static inline double ulp_dist(T a, T b) {
	if (is_nan(a) || is_nan(b)) return (is_nan(a) && is_nan(b)) ? 0.0 : INFINITY;
	long double d = (long double)ordered(a) - (long double)ordered(b);
	return (double)(d < 0 ? -d : d);
}
// ulp of T at magnitude m (the spacing of T values in m's binade; min subnormal spacing at 0)
template <class T> static inline long double ulp_at(long double m) {
	if (m < 0) m = -m;
	if (!(m == m) || m > (long double)std::numeric_limits<T>::max()) return INFINITY;
	if (m < (long double)std::numeric_limits<T>::min()) return (long double)std::numeric_limits<T>::denorm_min();
	int e; frexpl(m, &e);  // m = f * 2^e, f in [0.5,1)
	return ldexpl(1.0L, e - 1 - bits_of<T>::MANT);
}
template <class T> static inline long double eps() { return (long double)std::numeric_limits<T>::epsilon(); }

// VALUE equality: equal as reals, or both NaN. (+0 == -0)
template <class T> static inline bool same_value(T a, T b) { return (a == b) || (is_nan(a) && is_nan(b)); }
template <class T> static inline bool same_bits(T a, T b) { return memcmp(&a, &b, sizeof a) == 0; }

// ---------------------------------------------------------------------------------------------
// special value tables
static const float F_SPECIALS[] = {
	0.0f, 1.0f, -1.0f, -0.0f, 0.5f, -0.5f, 2.0f, -2.0f, 1.5f, -1.5f, 2.5f, -2.5f, 3.5f, -3.5f, 0.25f, 3.0f, -3.0f,
	1.4012984643e-45f, -1.4012984643e-45f, 1.17549435e-38f, -1.17549435e-38f, 1.17549421e-38f /*max subnormal*/, -1.17549421e-38f,
	0.49999997f, -0.49999997f, 0.50000006f, -0.50000006f, 0.99999994f, 1.00000012f, -0.99999994f,
	8388608.0f, -8388608.0f, 8388607.5f, -8388607.5f, 8388609.0f, 4194304.5f, -4194304.5f, 16777216.0f, -16777216.0f, 16777218.0f,
	2147483648.0f, -2147483648.0f, 2147483520.0f, -2147483904.0f, 4294967296.0f, 4294967040.0f, 9223372036854775808.0f,
	3.40282347e+38f, -3.40282347e+38f, 65504.0f, 65520.0f, 6.10351562e-05f, 5.96046448e-08f, 1e-6f, 1e6f, 255.0f, 256.0f, 127.0f, 128.0f, 0.1f, 0.7f, 3.14159274f,
	INFINITY, -INFINITY};
static const int N_F_SPECIALS = sizeof(F_SPECIALS) / sizeof(F_SPECIALS[0]);

template <class T> static inline T special(int i);
template <> inline float special<float>(int i) { return F_SPECIALS[i % N_F_SPECIALS]; }
template <> inline double special<double>(int i) {
	static const double D[] = {
		0.0, 1.0, -1.0, -0.0, 0.5, -0.5, 2.0, -2.0, 1.5, -1.5, 2.5, -2.5, 3.5, -3.5, 0.25, 3.0, -3.0,
		4.9406564584124654e-324, -4.9406564584124654e-324, 2.2250738585072014e-308, -2.2250738585072014e-308, 2.2250738585072009e-308, -2.2250738585072009e-308,
		0.49999999999999994, -0.49999999999999994, 0.50000000000000011, 0.99999999999999989, 1.0000000000000002,
		4503599627370496.0, -4503599627370496.0, 4503599627370495.5, -4503599627370495.5, 4503599627370497.0, 2251799813685248.5, 9007199254740992.0, -9007199254740992.0,
		8388608.0, 8388607.5, 16777216.0, 2147483648.0, -2147483648.0, 2147483647.5, -2147483648.5, 4294967296.0, 4294967295.5, 9223372036854775808.0, -9223372036854775808.0,
		1.7976931348623157e+308, -1.7976931348623157e+308, 3.4028234663852886e+38, 65504.0, 1e-6, 1e6, 0.1, 0.7, 3.141592653589793,
		(double)INFINITY, -(double)INFINITY};
	return D[i % (int)(sizeof(D) / sizeof(D[0]))];
}
template <class T> static inline int n_specials();
template <> inline int n_specials<float>() { return N_F_SPECIALS; }
template <> inline int n_specials<double>() { return 58; }

enum FloatDomain {
	FD_ANY = 0,     // every bit pattern incl. NaN
	FD_NONNAN = 1,  // everything but NaN (inf allowed)
	FD_FINITE = 2,  // finite only
};

// Float generator: class choice first (smaller == simpler), then the value.
template <class T> static inline T gen_float(pbt::Ctx& c, FloatDomain dom = FD_NONNAN) {
	typedef typename bits_of<T>::U U;
	for (int guard = 0; guard < 8; ++guard) {
		uint64_t k = c.draw(8);
		T v;
		switch (k) {
		case 0: case 1: v = special<T>((int)c.draw(n_specials<T>())); break;
		case 2: v = (T)(int64_t)c.range(-16, 16); break;                                          // small integers
		case 3: v = (T)((double)c.range(-64, 64) * 0.5); break;                                   // halves / ties
		case 4: { int e = (int)c.range(-30, 30); v = (T)std::ldexp(1.0, e); if (c.coin()) v = -v; break; }  // powers of two
		case 5: v = (T)c.uniform(-10.0, 10.0); break;                                             // generic moderate
		case 6: { double m = c.loguniform(1e-6, 1e9); v = (T)(c.coin() ? -m : m); break; }
		default: { U u = (U)c.draw(0); v = frombits<T>(u); if (dom == FD_ANY && c.draw(64) == 0) v = std::numeric_limits<T>::quiet_NaN(); break; }  // raw bits
		}
		if (dom != FD_ANY && is_nan(v)) continue;
		if (dom == FD_FINITE && is_inf(v)) continue;
		return v;
	}
	return T(1);
}
// moderate finite value with magnitude log-uniform in [2^-lo,2^hi] (or small integer), never 0 unless allow0
template <class T> static inline T gen_moderate(pbt::Ctx& c, int lo = 10, int hi = 10) {
	uint64_t k = c.draw(4);
	if (k == 0) return (T)(int64_t)c.range(-8, 8);
	if (k == 1) return (T)c.uniform(-2.0, 2.0);
	double m = std::ldexp(1.0 + c.unit(), (int)c.range(-lo, hi - 1));
	return (T)(c.coin() ? -m : m);
}

// Integer generator over the full range of T with special patterns first.
template <class T> static inline T gen_int(pbt::Ctx& c) {
	typedef typename std::make_unsigned<T>::type U;
	const int W = sizeof(T) * 8;
	uint64_t k = c.draw(8);
	U v;
	switch (k) {
	case 0: { static const int64_t S[] = {0, 1, -1, 2, -2, 3, 7, 8, 15, 16, 17, 127, 128, 255, 256}; v = (U)S[c.draw(15)]; break; }
	case 1: { uint64_t j = c.draw(6); U mx = (U)(~U(0)); U smax = (U)(mx >> 1); U t[] = {mx, smax, (U)(smax + 1), (U)(smax - 1), (U)(smax + 2), (U)(mx - 1)}; v = t[j]; break; }
	case 2: v = (U)(U(1) << c.draw(W)); break;                                           // single bit
	case 3: { int lo = (int)c.draw(W); int hi = lo + (int)c.draw(W - lo); U m = (hi - lo + 1 >= W) ? (U)~U(0) : (U)(((U(1) << (hi - lo + 1)) - 1) << lo); v = m; if (c.coin()) v = (U)~v; break; }  // run of ones / complement
	case 4: { U p = (U)(U(1) << c.draw(W)); v = (U)(p + (U)c.range(-2, 2)); break; }      // power of two +- small
	case 5: v = (U)c.range(-100, 100); break;
	default: v = (U)c.draw(0); break;
	}
	return (T)v;
}

}  // namespace fp
