// ubsan_hook.cpp — linked into every sanitizer-stage harness. clang's UBSan runtime calls __ubsan_on_report for every report
// (recover mode); the runtime's own weak default would win over a weak definition in a header, so this one is strong and lives
// in its own translation unit. The report is turned into a failure of the case running on this thread (pbt::invoke reads it).
#define PBT_UBSAN_HOOK 1
#include "pbt.hpp"
extern "C" void __ubsan_get_current_report_data(const char** kind, const char** msg, const char** file, unsigned* line, unsigned* col, char** addr);
extern "C" void __sanitizer_set_report_fd(void* fd);
// Search runs keep the runtime's de-duplication off (UBSAN_OPTIONS=suppress_equal_pcs=0, so that every target that reaches a UB site
// records it - keys are then independent of target order) and send the runtime's own text to /dev/null; replays keep it visible.
__attribute__((constructor)) static void pbt_quiet_sanitizer_output() {
	if (getenv("PBT_UBSAN_VERBOSE")) return;
	int fd = open("/dev/null", O_WRONLY);
	if (fd >= 0) __sanitizer_set_report_fd((void*)(long)fd);
}
extern "C" void __ubsan_on_report(void) {
	using pbt::tl_ubsan;
	const char *kind = "", *msg = "", *file = ""; unsigned line = 0, col = 0; char* addr = nullptr;
	__ubsan_get_current_report_data(&kind, &msg, &file, &line, &col, &addr);
	if (tl_ubsan.hit) return;
	const char* f = file ? strstr(file, "glm/") : nullptr;
	const char* g = f; while (g && strstr(g + 1, "glm/")) g = strstr(g + 1, "glm/");
	// reports inside the compiler's intrinsic headers (xmmintrin.h ...) come from GLM's SIMD code: the harnesses use no intrinsics of
	// their own on generated data, so they are attributed to GLM under the header's name
	if (!g && file && (strstr(file, "/lib/clang/") || strstr(file, "/lib/gcc/")) && strstr(file, "intrin.h")) { g = strrchr(file, '/'); g = g ? g + 1 : file; }
	if (!g) { static std::atomic<int> shown(0); if (shown.fetch_add(1) < 20) fprintf(stderr, "note: UBSan report outside GLM (harness code): %s at %s:%u\n", msg ? msg : "", file ? file : "?", line); return; }
	tl_ubsan.hit = true;
	snprintf(tl_ubsan.key, sizeof tl_ubsan.key, "ubsan/%s/%s", kind ? kind : "?", g);
	snprintf(tl_ubsan.msg, sizeof tl_ubsan.msg, "%s at %s:%u:%u", msg ? msg : "", file ? file : "?", line, col);
}
