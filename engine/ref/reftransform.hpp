// reftransform.hpp — long-double reference models of the elementary transforms for C09 (no GLM code, no GLM includes).
// Matrices are column-major like GLM's: M4::m[column][row]; the elementary matrices are written from their textbook
// definitions on column vectors (p' = M p), rotations from Rodrigues' *vector* formula applied to the basis vectors, so
// that no entry table is shared with glm/ext/matrix_transform.inl.
// long double (64-bit significand) is >= 2^10 times finer than the unit roundoff of the types under test: its own
// rounding is ignored in the bounds.
#pragma once
#include "fp.hpp"
#include "ref/refgeom.hpp"

namespace reftr {

using refgeom::R;
using refgeom::rabs;
using refgeom::rmax;

static const R PI_R = 3.14159265358979323846264338327950288L;

struct M4 { R m[4][4]; };  // m[col][row]

static inline M4 zero4() { M4 a; for (int c = 0; c < 4; ++c) for (int r = 0; r < 4; ++r) a.m[c][r] = 0; return a; }
static inline M4 ident4() { M4 a = zero4(); for (int i = 0; i < 4; ++i) a.m[i][i] = 1; return a; }
static inline M4 mul(const M4& a, const M4& b) {  // (a b)(r,c) = sum_k a(r,k) b(k,c)
	M4 o;
	for (int c = 0; c < 4; ++c) for (int r = 0; r < 4; ++r) { R s = 0; for (int k = 0; k < 4; ++k) s += a.m[k][r] * b.m[c][k]; o.m[c][r] = s; }
	return o;
}
static inline M4 absm(const M4& a) { M4 o; for (int c = 0; c < 4; ++c) for (int r = 0; r < 4; ++r) o.m[c][r] = rabs(a.m[c][r]); return o; }
static inline M4 transpose(const M4& a) { M4 o; for (int c = 0; c < 4; ++c) for (int r = 0; r < 4; ++r) o.m[c][r] = a.m[r][c]; return o; }
static inline M4 scaled(const M4& a, R s) { M4 o; for (int c = 0; c < 4; ++c) for (int r = 0; r < 4; ++r) o.m[c][r] = a.m[c][r] * s; return o; }
static inline R maxabs(const M4& a, int n = 4) { R s = 0; for (int c = 0; c < n; ++c) for (int r = 0; r < n; ++r) s = rmax(s, rabs(a.m[c][r])); return s; }
static inline R frob(const M4& a, int n = 4) { R s = 0; for (int c = 0; c < n; ++c) for (int r = 0; r < n; ++r) s += a.m[c][r] * a.m[c][r]; return sqrtl(s); }
static inline void apply(const M4& a, const R* v, R* o) { for (int r = 0; r < 4; ++r) { R s = 0; for (int k = 0; k < 4; ++k) s += a.m[k][r] * v[k]; o[r] = s; } }
static inline void absapply(const M4& a, const R* v, R* o) { for (int r = 0; r < 4; ++r) { R s = 0; for (int k = 0; k < 4; ++k) s += rabs(a.m[k][r] * v[k]); o[r] = s; } }
static inline R det3(const M4& a) {
	return a.m[0][0] * (a.m[1][1] * a.m[2][2] - a.m[2][1] * a.m[1][2]) - a.m[1][0] * (a.m[0][1] * a.m[2][2] - a.m[2][1] * a.m[0][2]) + a.m[2][0] * (a.m[0][1] * a.m[1][2] - a.m[1][1] * a.m[0][2]);
}
// n x n inverse by Gauss-Jordan with partial pivoting (n = 3 or 4, upper-left block); false when a pivot vanishes
static inline bool inverse(const M4& a, M4* out, int n = 4) {
	R w[4][8];
	for (int r = 0; r < n; ++r) for (int c = 0; c < n; ++c) { w[r][c] = a.m[c][r]; w[r][n + c] = r == c ? 1 : 0; }
	for (int k = 0; k < n; ++k) {
		int p = k;
		for (int r = k + 1; r < n; ++r) if (rabs(w[r][k]) > rabs(w[p][k])) p = r;
		if (w[p][k] == 0) return false;
		if (p != k) for (int c = 0; c < 2 * n; ++c) { R t = w[p][c]; w[p][c] = w[k][c]; w[k][c] = t; }
		R d = w[k][k];
		for (int c = 0; c < 2 * n; ++c) w[k][c] /= d;
		for (int r = 0; r < n; ++r) if (r != k) { R f = w[r][k]; if (f != 0) for (int c = 0; c < 2 * n; ++c) w[r][c] -= f * w[k][c]; }
	}
	*out = ident4();
	for (int r = 0; r < n; ++r) for (int c = 0; c < n; ++c) out->m[c][r] = w[r][n + c];
	return true;
}
// Frobenius condition number of the upper-left n x n block (infinity when singular)
static inline R cond(const M4& a, int n = 4) { M4 i; if (!inverse(a, &i, n)) return INFINITY; return frob(a, n) * frob(i, n); }

// ---- elementary matrices (column-vector convention: p' = E p)
static inline M4 translation(const R* v) { M4 e = ident4(); for (int i = 0; i < 3; ++i) e.m[3][i] = v[i]; return e; }  // p' = p + v
static inline M4 scaling(const R* s) { M4 e = ident4(); for (int i = 0; i < 3; ++i) e.m[i][i] = s[i]; return e; }      // p'_i = s_i p_i
// Rodrigues: v' = v cos(a) + (n x v) sin(a) + n (n.v)(1 - cos(a)) for a unit axis n; column j is the image of e_j
static inline void rotate_vec(R angle, const R* n, const R* v, R* o) {
	R c = cosl(angle), s = sinl(angle), x[4];
	refgeom::cross3(n, v, x);
	R d = refgeom::dot(n, v, 3);
	for (int i = 0; i < 3; ++i) o[i] = v[i] * c + x[i] * s + n[i] * d * (1 - c);
}
static inline bool unit3(const R* v, R* n) { R l = refgeom::norm(v, 3); if (!(l > 0)) return false; for (int i = 0; i < 3; ++i) n[i] = v[i] / l; n[3] = 0; return true; }
static inline M4 rotation(R angle, const R* unit_axis) {
	M4 e = ident4();
	for (int j = 0; j < 3; ++j) { R b[4] = {0, 0, 0, 0}, o[4]; b[j] = 1; rotate_vec(angle, unit_axis, b, o); for (int i = 0; i < 3; ++i) e.m[j][i] = o[i]; }
	return e;
}
// entrywise bound of the documented axis-angle matrix computed in a type with unit roundoff u (c = cos a, s = sin a, n = normalize(axis),
// t = (1-c) n; R_ij = c d_ij + t_i n_j +- s n_k): cos/sin <= 1 ulp (2u), 1-c: 2u|c| + u|1-c|, n_i: 4.5u (dot, sqrt, divide, multiply), hence
//   dR_ij = u [ 2|c| d_ij + |n_i n_j| (2|c| + 12|1-c|) + 7.5 |s n_k| (i != j) + |R_ij| ]
static inline M4 rotation_bound(R angle, const R* n, const M4& E, R u) {
	R c = rabs(cosl(angle)), s = rabs(sinl(angle)), omc = rabs(1 - cosl(angle));
	M4 d = zero4();
	for (int j = 0; j < 3; ++j) for (int i = 0; i < 3; ++i) {
		R b = rabs(n[i] * n[j]) * (2 * c + 12 * omc) + rabs(E.m[j][i]);
		if (i == j) b += 2 * c; else b += 7.5L * s * rabs(n[3 - i - j]);
		d.m[j][i] = u * b;
	}
	return d;
}
// the matrix printed in the doc comment of glm::shear (ext/matrix_transform.hpp), rows as printed:
//   [1    l_xy l_xz -(l_xy+l_xz) p_x]   with l_x = (l_xy, l_xz), l_y = (l_yx, l_yz), l_z = (l_zx, l_zy)
//   [l_yx 1    l_yz -(l_yx+l_yz) p_y]
//   [l_zx l_zy 1    -(l_zx+l_zy) p_z]
//   [0    0    0    1               ]
static inline M4 shear_doc(const R* p, const R* lx, const R* ly, const R* lz) {
	M4 e = ident4();
	e.m[1][0] = lx[0]; e.m[2][0] = lx[1]; e.m[3][0] = -(lx[0] + lx[1]) * p[0];
	e.m[0][1] = ly[0]; e.m[2][1] = ly[1]; e.m[3][1] = -(ly[0] + ly[1]) * p[1];
	e.m[0][2] = lz[0]; e.m[1][2] = lz[1]; e.m[3][2] = -(lz[0] + lz[1]) * p[2];
	return e;
}
// rotation matrix of a (not necessarily unit) quaternion w + xi + yj + zk: v' = q v q^-1, written as
// v' = v + 2 w (u x v)/N + 2 u x (u x v)/N with u = (x,y,z), N = |q|^2; column j = image of e_j
static inline M4 quat_rotation(R w, R x, R y, R z) {
	M4 e = ident4();
	R u[4] = {x, y, z, 0}, N = w * w + x * x + y * y + z * z;
	for (int j = 0; j < 3; ++j) {
		R b[4] = {0, 0, 0, 0}, t[4], t2[4]; b[j] = 1;
		refgeom::cross3(u, b, t); refgeom::cross3(u, t, t2);
		for (int i = 0; i < 3; ++i) e.m[j][i] = b[i] + (2 * w * t[i] + 2 * t2[i]) / N;
	}
	return e;
}
// Hamilton product (w,x,y,z order)
static inline void quat_mul(const R* a, const R* b, R* o) {
	o[0] = a[0] * b[0] - a[1] * b[1] - a[2] * b[2] - a[3] * b[3];
	o[1] = a[0] * b[1] + a[1] * b[0] + a[2] * b[3] - a[3] * b[2];
	o[2] = a[0] * b[2] - a[1] * b[3] + a[2] * b[0] + a[3] * b[1];
	o[3] = a[0] * b[3] + a[1] * b[2] - a[2] * b[1] + a[3] * b[0];
}
// axis (unit) and angle in [0,pi] of a rotation matrix (upper-left 3x3, orthonormal up to rounding), robust for every angle:
// angle = atan2(|antisymmetric part|, trace - 1); axis from the antisymmetric part, or from the symmetric part next to pi.
static inline void axis_angle(const M4& a, R* n, R* angle) {
	R v[4] = {a.m[1][2] - a.m[2][1], a.m[2][0] - a.m[0][2], a.m[0][1] - a.m[1][0], 0};
	R s2 = refgeom::norm(v, 3), c2 = a.m[0][0] + a.m[1][1] + a.m[2][2] - 1;
	*angle = atan2l(s2, c2);
	if (s2 > 1e-3L * rabs(c2) || c2 > 0) {
		if (s2 > 0) { for (int i = 0; i < 3; ++i) n[i] = v[i] / s2; } else { n[0] = 1; n[1] = n[2] = 0; }
	} else {  // next to pi: symmetric part S = cos I + (1 - cos) n n^T, so column k of S - cos I is (1 - cos) n_k n; take the largest
		int k = 0; for (int i = 1; i < 3; ++i) if (a.m[i][i] > a.m[k][k]) k = i;
		R col[4] = {(a.m[k][0] + a.m[0][k]) / 2, (a.m[k][1] + a.m[1][k]) / 2, (a.m[k][2] + a.m[2][k]) / 2, 0};
		col[k] -= c2 / 2;
		unit3(col, n);
		if (refgeom::dot(n, v, 3) < 0) for (int i = 0; i < 3; ++i) n[i] = -n[i];
	}
	n[3] = 0;
}

// ---- lifting / description
template <class T> static inline M4 lift16(const T* a) { M4 o; for (int c = 0; c < 4; ++c) for (int r = 0; r < 4; ++r) o.m[c][r] = (R)a[4 * c + r]; return o; }
template <class T> static inline std::string mstr(const T* a, int n = 4) {  // n x n block of a 4x4 array, column by column
	std::string s = "[";
	for (int c = 0; c < n; ++c) { T col[4]; for (int r = 0; r < n; ++r) col[r] = a[4 * c + r]; s += (c ? " " : "") + refgeom::vstr(col, n); }
	return s + "]";
}

// ---- generators
enum MatClass { MC_IDENTITY, MC_ZERO, MC_DIAG, MC_SMALLINT, MC_AFFINE, MC_RIGID, MC_GENERAL, MC_MIXED, MC_N };
static const char* const MC_NAME[] = {"M:identity", "M:zero", "M:diagonal", "M:small-int", "M:affine", "M:rigid", "M:general(non-affine)", "M:mixed-magnitude"};
// base matrix as a flat column-major array a[4*c+r]; n = 3 or 4 (for n = 3 the 4th row/column is identity)
template <class T> static inline int gen_mat(pbt::Ctx& c, T* a, int n = 4) {
	for (int i = 0; i < 16; ++i) a[i] = (i % 5 == 0) ? T(1) : T(0);
	int k = (int)c.draw(12), cls;
	if (k == 0) cls = MC_IDENTITY;
	else if (k == 1) { cls = MC_ZERO; for (int i = 0; i < n; ++i) a[5 * i] = 0; }
	else if (k == 2) { cls = MC_DIAG; for (int i = 0; i < n; ++i) a[5 * i] = fp::gen_moderate<T>(c, 6, 6); }
	else if (k == 3) { cls = MC_SMALLINT; for (int cc = 0; cc < n; ++cc) for (int r = 0; r < n; ++r) a[4 * cc + r] = (T)c.range(-8, 8); }
	else if (k <= 5) { cls = MC_AFFINE; for (int cc = 0; cc < n; ++cc) for (int r = 0; r < n - 1; ++r) a[4 * cc + r] = (T)c.uniform(-4.0, 4.0); }
	else if (k == 6) {  // rotation (random axis/angle) + translation, rounded to T
		cls = MC_RIGID;
		R ax[4] = {(R)c.uniform(-1, 1), (R)c.uniform(-1, 1), (R)c.uniform(-1, 1), 0}, nn[4];
		if (!unit3(ax, nn)) { nn[0] = 1; nn[1] = nn[2] = nn[3] = 0; }
		if (n == 3) { nn[0] = nn[1] = 0; nn[2] = 1; }
		M4 r = rotation((R)c.uniform(-PI_R, PI_R), nn);
		for (int cc = 0; cc < n - 1; ++cc) for (int rr = 0; rr < n - 1; ++rr) a[4 * cc + rr] = (T)r.m[cc][rr];
		for (int rr = 0; rr < n - 1; ++rr) a[4 * (n - 1) + rr] = (T)c.uniform(-8.0, 8.0);
	}
	else if (k <= 9) { cls = MC_GENERAL; for (int cc = 0; cc < n; ++cc) for (int r = 0; r < n; ++r) a[4 * cc + r] = (T)c.uniform(-4.0, 4.0); }
	else { cls = MC_MIXED; for (int cc = 0; cc < n; ++cc) for (int r = 0; r < n; ++r) a[4 * cc + r] = fp::gen_moderate<T>(c, 10, 10); }
	return cls;
}
// every entry of the n x n block non-zero and the entries of every row pairwise distinct in magnitude: a wrong column index is visible
template <class T> static inline bool rich(const T* a, int n = 4) {
	for (int r = 0; r < n; ++r) for (int c = 0; c < n; ++c) {
		if (a[4 * c + r] == 0) return false;
		for (int d = 0; d < c; ++d) if (std::fabs(a[4 * c + r]) == std::fabs(a[4 * d + r])) return false;
	}
	return true;
}
// angle over +-4 turns: special multiples of pi/2, pi/3, pi/4; small angles; uniform
enum AngClass { AC_ZERO, AC_QUARTER_MULT, AC_RATIONAL, AC_SMALL, AC_UNIFORM_TURN, AC_UNIFORM_4TURNS, AC_N };
static const char* const AC_NAME[] = {"angle:0", "angle:multiple-of-pi/2", "angle:k*pi/12", "angle:small", "angle:within-one-turn", "angle:up-to-4-turns"};
template <class T> static inline int gen_angle(pbt::Ctx& c, T* a) {
	int k = (int)c.draw(10);
	if (k == 0) { *a = c.coin() ? T(0) : -T(0); return AC_ZERO; }
	if (k == 1) { *a = (T)((R)c.range(-16, 16) * PI_R / 2); return *a == 0 ? AC_ZERO : AC_QUARTER_MULT; }
	if (k == 2) { *a = (T)((R)c.range(-96, 96) * PI_R / 12); return *a == 0 ? AC_ZERO : AC_RATIONAL; }
	if (k == 3) { *a = (T)c.loguniform(1e-9, 1e-2); if (c.coin()) *a = -*a; return AC_SMALL; }
	if (k <= 6) { *a = (T)c.uniform(-3.14159265358979, 3.14159265358979); return AC_UNIFORM_TURN; }
	*a = (T)c.uniform(-25.1327412287183, 25.1327412287183);
	return AC_UNIFORM_4TURNS;
}

}  // namespace reftr
