// c11_support.hpp — input classes, the special-value lattice of property C11 and the structured value generator
// shared by the C11 harness files. Depends on the engine only (no GLM).
#pragma once
#include "../fp.hpp"
#include "refcommon.hpp"
#include <string>
#include <vector>

using refc::FB;

template <class T> struct TN { static const char* n() { return FB<T>::name(); } };

// failure key = <function>/<type>/<input class>
#define FAILK(c, fn, T, cls, ...) (c).failk(std::string(fn) + "/" + FB<T>::name() + "/" + (cls), __VA_ARGS__)

template <class T> static inline T pred_half() { return refc::frombits<T>(refc::bits(T(0.5)) - 1); }
template <class T> static inline T succ_half() { return refc::frombits<T>(refc::bits(T(0.5)) + 1); }
template <class T> static inline T two31() { return T(2147483648.0); }
template <class T> static inline T two_mant() { return refc::pow2<T>(FB<T>::MANT); }

// Input class of one argument, computed from the argument alone. "2^mant" is 2^23 (float) / 2^52 (double): from
// there on every value is an integer.
template <class T> static inline const char* xclass(T x) {
	typedef typename FB<T>::U U;
	const int MANT = FB<T>::MANT;
	const U am = refc::bits(x) & ~refc::signmask<T>();
	const U INF = (U)refc::expmax<T>() << MANT, HALF = (U)(FB<T>::BIAS - 1) << MANT;
	if (am >= INF) return am == INF ? "inf" : "nan";
	const int be = (int)(am >> MANT);
	if (be == 0) return am == 0 ? "zero" : "subnormal";
	const int e = be - FB<T>::BIAS;
	if (e < -1) return am == HALF - 1 ? "abs=0.5-ulp" : "abs<1";
	if (e == -1) return am == HALF ? "tie" : "abs<1";
	if (e >= MANT) return (MANT < 31 && e >= 31) ? "abs>=2^31" : "abs>=2^mant";
	const U f = am & (((U)1 << (MANT - e)) - 1);
	if (f == ((U)1 << (MANT - e - 1))) return e >= 31 ? "tie-abs>=2^31" : "tie";
	if (e >= 31) return "abs>=2^31";
	return f == 0 ? "integer" : "fraction";
}

// The lattice of the property statement: {+-0, +-min subnormal, +-min normal, +-(0.5-ulp), ties k+0.5, +-2^23,
// +-2^24, +-2^31, +-max, +-inf, NaN}, completed with the neighbours that make the boundaries observable.
template <class T> static inline std::vector<T> build_lattice(bool with_nan) {
	typedef std::numeric_limits<T> NL;
	std::vector<T> L;
	T tm = two_mant<T>();
	T mags[] = {T(0), NL::denorm_min(), refc::frombits<T>(refc::bits(NL::min()) - 1), NL::min(), pred_half<T>(), T(0.5), succ_half<T>(), T(1), T(1.5), T(2.5),
	            tm - T(0.5) /* largest tie */, tm - T(1) /* odd */, tm, tm + T(1), tm * 2, tm * 2 + T(2), T(8388608.0), T(16777216.0), two31<T>(), T(2147483648.0 * 2), NL::max(), NL::infinity()};
	for (T m : mags) {
		bool dup = false;
		for (T q : L) if (refc::bits(q) == refc::bits(m)) dup = true;
		if (dup) continue;
		L.push_back(m); L.push_back(-m);
	}
	if (with_nan) L.push_back(NL::quiet_NaN());
	return L;
}
template <class T> static inline const std::vector<T>& lattice(bool with_nan) {
	static const std::vector<T> L0 = build_lattice<T>(false), L1 = build_lattice<T>(true);
	return with_nan ? L1 : L0;
}

// Structured generator: lattice, binade edges, ties, integer-range boundaries, engine generator, raw bits.
template <class T> static inline T gen_struct(pbt::Ctx& c, bool allow_nan) {
	typedef typename FB<T>::U U;
	typedef typename fp::bits_of<T>::S S;
	const int MANT = FB<T>::MANT;
	for (int guard = 0; guard < 8; ++guard) {
		T v;
		switch (c.draw(8)) {
		case 0: { const std::vector<T>& L = lattice<T>(allow_nan); v = L[c.draw(L.size())]; break; }
		case 1: {  // binade edge +-1 ulp (subnormal binades included)
			int e = (int)c.range(0, (1 << FB<T>::EXPB) - 2 + MANT - 1);  // index of the power of two from denorm_min upwards
			U u = e < MANT ? ((U)1 << e) : ((U)(e - MANT + 1) << MANT);
			S o = (S)u + (S)c.range(0, 2) - 1;
			if (o < 0) o = 0;
			v = fp::from_ordered<T>(o);
			if (c.coin()) v = -v;
			break;
		}
		case 2: {  // tie k + 0.5 with k of every bit length below 2^mant, sometimes nudged by one ulp
			int b = (int)c.draw(MANT + 1);
			uint64_t k = b ? ((1ULL << (b - 1)) + c.draw(1ULL << (b - 1))) : 0;
			v = (T)((long double)k + 0.5L);
			if (c.draw(4) == 0) v = fp::from_ordered<T>(fp::ordered(v) + (c.coin() ? 1 : -1));
			if (c.coin()) v = -v;
			break;
		}
		case 3: {  // around the integer-range and precision boundaries
			static const double B[] = {0.5, 1.0, 2.0, 8388608.0, 16777216.0, 2147483648.0, 4294967296.0, 4503599627370496.0, 9007199254740992.0, 9223372036854775808.0, 4194304.0, 2251799813685248.0};
			T base = (T)B[c.draw(sizeof(B) / sizeof(B[0]))];
			if (c.coin()) v = fp::from_ordered<T>(fp::ordered(base) + (S)c.range(0, 8) - 4);
			else v = (T)((long double)base + (long double)((int)c.range(0, 16) - 8) * 0.5L);
			if (c.coin()) v = -v;
			break;
		}
		case 4: v = fp::gen_float<T>(c, allow_nan ? fp::FD_ANY : fp::FD_NONNAN); break;
		case 5: v = (T)c.uniform(-4.0, 4.0); break;
		case 6: { long double q = (long double)c.range(-(1 << 22), 1 << 22) / (long double)(1 << c.draw(8)); v = (T)q; break; }
		default: v = fp::frombits<T>((U)c.draw(0)); break;
		}
		if (!allow_nan && refc::is_nan(v)) continue;
		return v;
	}
	return T(1.5);
}
