// refrot.hpp — long-double rotation algebra (Hamilton quaternions, 3x3 matrices, coordinate-axis rotations, Rodrigues) and
// the generators of C04 (no GLM code, no GLM includes; GLM objects are only read through duck-typed templates).
// Conventions: quaternion Qn = (w,x,y,z), q = w + xi + yj + zk, rotates v as q v q^-1; M3.m[row][col] acts on column vectors;
// Rx/Ry/Rz are the right-handed rotations about the coordinate axes. long double (64-bit significand) is >= 2^11 times finer
// than double and 2^40 times finer than float: its own rounding is ignored in the bounds.
#pragma once
#include "fp.hpp"
#include <string>

namespace refrot {

typedef long double R;
static const R PI = 3.141592653589793238462643383279502884L;

template <class T> static inline R U() { return (R)std::numeric_limits<T>::epsilon() / 2; }         // unit roundoff
template <class T> static inline R EPS() { return (R)std::numeric_limits<T>::epsilon(); }
template <class T> static inline R TINY() { return 8 * (R)std::numeric_limits<T>::denorm_min(); }  // floor of every tolerance
static inline R rabs(R x) { return x < 0 ? -x : x; }
static inline R rmax(R a, R b) { return a > b ? a : b; }
static inline R rmin(R a, R b) { return a < b ? a : b; }
static inline R clampr(R x, R lo, R hi) { return x < lo ? lo : (x > hi ? hi : x); }

struct V3 { R x, y, z; };
struct Qn { R w, x, y, z; };
struct M3 { R m[3][3]; };  // m[row][col]

// ---- vectors
static inline V3 vadd(V3 a, V3 b) { return V3{a.x + b.x, a.y + b.y, a.z + b.z}; }
static inline V3 vsub(V3 a, V3 b) { return V3{a.x - b.x, a.y - b.y, a.z - b.z}; }
static inline V3 vscale(V3 a, R s) { return V3{a.x * s, a.y * s, a.z * s}; }
static inline R vdot(V3 a, V3 b) { return a.x * b.x + a.y * b.y + a.z * b.z; }
static inline V3 vcross(V3 a, V3 b) { return V3{a.y * b.z - a.z * b.y, a.z * b.x - a.x * b.z, a.x * b.y - a.y * b.x}; }
static inline R vnorm(V3 a) { return sqrtl(vdot(a, a)); }
static inline V3 vunit(V3 a) { R n = vnorm(a); return n > 0 ? vscale(a, 1 / n) : a; }
static inline R vmaxabs(V3 a) { return rmax(rabs(a.x), rmax(rabs(a.y), rabs(a.z))); }
static inline R vget(V3 a, int i) { return i == 0 ? a.x : (i == 1 ? a.y : a.z); }

// ---- quaternions
static inline Qn qmul(Qn a, Qn b) {
	return Qn{a.w * b.w - a.x * b.x - a.y * b.y - a.z * b.z,
	          a.w * b.x + a.x * b.w + a.y * b.z - a.z * b.y,
	          a.w * b.y + a.y * b.w + a.z * b.x - a.x * b.z,
	          a.w * b.z + a.z * b.w + a.x * b.y - a.y * b.x};
}
// sum of the absolute values of the four products of each component of a*b: what the rounding error of a product is relative to
static inline Qn qmul_scale(Qn a, Qn b) {
	return Qn{rabs(a.w * b.w) + rabs(a.x * b.x) + rabs(a.y * b.y) + rabs(a.z * b.z),
	          rabs(a.w * b.x) + rabs(a.x * b.w) + rabs(a.y * b.z) + rabs(a.z * b.y),
	          rabs(a.w * b.y) + rabs(a.y * b.w) + rabs(a.z * b.x) + rabs(a.x * b.z),
	          rabs(a.w * b.z) + rabs(a.z * b.w) + rabs(a.x * b.y) + rabs(a.y * b.x)};
}
static inline Qn qconj(Qn a) { return Qn{a.w, -a.x, -a.y, -a.z}; }
static inline Qn qneg(Qn a) { return Qn{-a.w, -a.x, -a.y, -a.z}; }
static inline Qn qscale(Qn a, R s) { return Qn{a.w * s, a.x * s, a.y * s, a.z * s}; }
static inline Qn qadd(Qn a, Qn b) { return Qn{a.w + b.w, a.x + b.x, a.y + b.y, a.z + b.z}; }
static inline R qdot(Qn a, Qn b) { return a.w * b.w + a.x * b.x + a.y * b.y + a.z * b.z; }
static inline R qnorm2(Qn a) { return qdot(a, a); }
static inline R qnorm(Qn a) { return sqrtl(qnorm2(a)); }
static inline Qn qunit(Qn a) { R n = qnorm(a); return n > 0 ? qscale(a, 1 / n) : a; }
static inline Qn qinv(Qn a) { return qscale(qconj(a), 1 / qnorm2(a)); }
static inline V3 qvec(Qn a) { return V3{a.x, a.y, a.z}; }
static inline R qget(Qn a, int i) { return i == 0 ? a.w : (i == 1 ? a.x : (i == 2 ? a.y : a.z)); }
static inline R qmaxdiff(Qn a, Qn b) { return rmax(rmax(rabs(a.w - b.w), rabs(a.x - b.x)), rmax(rabs(a.y - b.y), rabs(a.z - b.z))); }
// distance of a and b as representatives of a rotation (q and -q are the same rotation): largest component difference to the nearer of +-b
static inline R qmaxdiff_pm(Qn a, Qn b) { return rmin(qmaxdiff(a, b), qmaxdiff(a, qneg(b))); }
// the same after scaling both to unit length (compares the rotations of two nearly-unit quaternions); ~ half the angle between the rotations
static inline R qrotdist(Qn a, Qn b) { return qmaxdiff_pm(qunit(a), qunit(b)); }
static inline Qn q_axis_angle(V3 n, R a) { R s = sinl(a / 2); return Qn{cosl(a / 2), n.x * s, n.y * s, n.z * s}; }
static inline Qn q_coord(int axis, R a) { return q_axis_angle(V3{axis == 0 ? 1.0L : 0.0L, axis == 1 ? 1.0L : 0.0L, axis == 2 ? 1.0L : 0.0L}, a); }

// ---- matrices
static inline M3 midentity() { M3 r; for (int i = 0; i < 3; ++i) for (int j = 0; j < 3; ++j) r.m[i][j] = i == j; return r; }
static inline M3 mmul(const M3& a, const M3& b) {
	M3 r;
	for (int i = 0; i < 3; ++i) for (int j = 0; j < 3; ++j) { R s = 0; for (int k = 0; k < 3; ++k) s += a.m[i][k] * b.m[k][j]; r.m[i][j] = s; }
	return r;
}
static inline V3 mvec(const M3& a, V3 v) {
	return V3{a.m[0][0] * v.x + a.m[0][1] * v.y + a.m[0][2] * v.z, a.m[1][0] * v.x + a.m[1][1] * v.y + a.m[1][2] * v.z, a.m[2][0] * v.x + a.m[2][1] * v.y + a.m[2][2] * v.z};
}
static inline M3 mtranspose(const M3& a) { M3 r; for (int i = 0; i < 3; ++i) for (int j = 0; j < 3; ++j) r.m[i][j] = a.m[j][i]; return r; }
static inline R mmaxdiff(const M3& a, const M3& b) { R d = 0; for (int i = 0; i < 3; ++i) for (int j = 0; j < 3; ++j) d = rmax(d, rabs(a.m[i][j] - b.m[i][j])); return d; }
// largest deviation of a^T a from the identity (how far a is from orthogonal)
static inline R mortho_defect(const M3& a) { return mmaxdiff(mmul(mtranspose(a), a), midentity()); }
// The polynomial every quaternion->matrix conversion evaluates: P(q) = I + 2w[u]x + 2(u u^T - |u|^2 I), u = (x,y,z).
// For a unit q it is the rotation matrix; for |q|^2 = 1 + d it is |q|^2 Rot(q) - d I.
static inline M3 qpoly(Qn q) {
	M3 r;
	r.m[0][0] = 1 - 2 * (q.y * q.y + q.z * q.z); r.m[0][1] = 2 * (q.x * q.y - q.w * q.z); r.m[0][2] = 2 * (q.x * q.z + q.w * q.y);
	r.m[1][0] = 2 * (q.x * q.y + q.w * q.z); r.m[1][1] = 1 - 2 * (q.x * q.x + q.z * q.z); r.m[1][2] = 2 * (q.y * q.z - q.w * q.x);
	r.m[2][0] = 2 * (q.x * q.z - q.w * q.y); r.m[2][1] = 2 * (q.y * q.z + q.w * q.x); r.m[2][2] = 1 - 2 * (q.x * q.x + q.y * q.y);
	return r;
}
// exact rotation matrix of the rotation v -> q v q^-1 (any non-zero q)
static inline M3 qrot(Qn q) { return qpoly(qunit(q)); }
// rotation about coordinate axis k (0 = X, 1 = Y, 2 = Z) by angle a, right-handed
static inline M3 mcoord(int k, R a) {
	R c = cosl(a), s = sinl(a);
	M3 r = midentity();
	int i = (k + 1) % 3, j = (k + 2) % 3;
	r.m[i][i] = c; r.m[i][j] = -s; r.m[j][i] = s; r.m[j][j] = c;
	return r;
}
// derivative of mcoord(k, a) with respect to a
static inline M3 mcoord_deriv(int k, R a) {
	R c = cosl(a), s = sinl(a);
	M3 r; for (int i = 0; i < 3; ++i) for (int j = 0; j < 3; ++j) r.m[i][j] = 0;
	int i = (k + 1) % 3, j = (k + 2) % 3;
	r.m[i][i] = -s; r.m[i][j] = -c; r.m[j][i] = c; r.m[j][j] = -s;
	return r;
}
// Rodrigues: rotation by a about the unit axis n
static inline M3 mrodrigues(V3 n, R a) {
	R c = cosl(a), s = sinl(a), t = 1 - c;
	M3 r;
	r.m[0][0] = c + t * n.x * n.x; r.m[0][1] = t * n.x * n.y - s * n.z; r.m[0][2] = t * n.x * n.z + s * n.y;
	r.m[1][0] = t * n.x * n.y + s * n.z; r.m[1][1] = c + t * n.y * n.y; r.m[1][2] = t * n.y * n.z - s * n.x;
	r.m[2][0] = t * n.x * n.z - s * n.y; r.m[2][1] = t * n.y * n.z + s * n.x; r.m[2][2] = c + t * n.z * n.z;
	return r;
}

// ---- reading GLM-like objects without including GLM (named members / column-major operator[])
template <class GQ> static inline Qn qn_of(const GQ& q) { return Qn{(R)q.w, (R)q.x, (R)q.y, (R)q.z}; }
template <class GV> static inline V3 v3_of(const GV& v) { return V3{(R)v.x, (R)v.y, (R)v.z}; }
template <class GM> static inline M3 m3_of(const GM& g) { M3 r; for (int i = 0; i < 3; ++i) for (int j = 0; j < 3; ++j) r.m[i][j] = (R)g[j][i]; return r; }
template <class T> static inline Qn qn_of_arr(const T* q) { return Qn{(R)q[0], (R)q[1], (R)q[2], (R)q[3]}; }
template <class T> static inline V3 v3_of_arr(const T* v) { return V3{(R)v[0], (R)v[1], (R)v[2]}; }

// ---- descriptions
template <class T> static inline std::string fstr(T x) { char b[48]; snprintf(b, sizeof b, sizeof(T) == 4 ? "%.9g" : "%.17g", (double)x); return b; }
template <class T> static inline std::string astr(const T* v, int n) { std::string s = "("; for (int i = 0; i < n; ++i) { if (i) s += ","; s += fstr(v[i]); } return s + ")"; }
static inline std::string qstr(Qn q) { char b[160]; snprintf(b, sizeof b, "(w=%.12Lg,x=%.12Lg,y=%.12Lg,z=%.12Lg)", q.w, q.x, q.y, q.z); return b; }
static inline std::string vstr(V3 v) { char b[128]; snprintf(b, sizeof b, "(%.12Lg,%.12Lg,%.12Lg)", v.x, v.y, v.z); return b; }
static inline std::string mstr(const M3& a) { char b[400]; snprintf(b, sizeof b, "rows[(%.9Lg,%.9Lg,%.9Lg),(%.9Lg,%.9Lg,%.9Lg),(%.9Lg,%.9Lg,%.9Lg)]", a.m[0][0], a.m[0][1], a.m[0][2], a.m[1][0], a.m[1][1], a.m[1][2], a.m[2][0], a.m[2][1], a.m[2][2]); return b; }

// records err/tol as a metric; NaN/inf error fails with a finite metric
static inline bool within(pbt::Ctx& c, const char* metric, R err, R tol) {
	R r = err == 0 ? 0 : err / tol;
	c.metric(metric, (r == r && r < 1e30L) ? (double)r : 1e30);
	return err <= tol;
}

// ---------------------------------------------------------------------------------------------------------------------
// generators (all randomness from pbt::Ctx; smaller draws = simpler cases)
static inline V3 gen_dir(pbt::Ctx& c) {  // unit direction, uniform in the cube then normalised (never degenerate)
	V3 v{c.uniform(-1.0, 1.0), c.uniform(-1.0, 1.0), c.uniform(-1.0, 1.0)};
	if (vnorm(v) < 1e-3L) v = V3{0, 0, 1};
	return vunit(v);
}
static inline V3 coord_axis(int k, bool neg) { R s = neg ? -1 : 1; return V3{k == 0 ? s : 0, k == 1 ? s : 0, k == 2 ? s : 0}; }

enum QClass { QC_TABLE, QC_RANDOM, QC_AXISANGLE, QC_WNEAR0, QC_WNEAR1, QC_TIE, QC_GIMBAL, QC_PRODUCT, QC_N };
static const char* const QC_NAME[] = {"q:exact table (identity, +-i/j/k, (+-1/2)^4, two/three equal components)", "q:random", "q:axis-angle, angle near 0/pi/2pi/1/2pi-1 and axis near a coordinate axis",
                                      "q:w near 0", "q:w near +-1", "q:largest-component tie (to the last bits)", "q:gimbal-lock neighbourhood", "q:product of two"};
static const char* const QC_KEY[] = {"table", "random", "axis-angle", "w~0", "w~1", "tie", "gimbal", "product"};

struct QGen { Qn q; int cls; int tie_idx; int tie_ulps; };

static inline void gen_unit_quat_R(pbt::Ctx& c, QGen& g, int depth = 0) {
	g.tie_idx = -1; g.tie_ulps = 0;
	int k = (int)c.draw(depth ? 7 : 8);
	const R h = sqrtl(0.5L);
	switch (k) {
	case 0: {
		g.cls = QC_TABLE;
		R v[4] = {0, 0, 0, 0};
		int t = (int)c.draw(4);
		if (t == 0) { v[c.draw(4)] = c.coin() ? -1 : 1; }
		else if (t == 1) { for (int i = 0; i < 4; ++i) v[i] = c.coin() ? -0.5L : 0.5L; }
		else if (t == 2) { int i = (int)c.draw(4), j = (i + 1 + (int)c.draw(3)) % 4; v[i] = c.coin() ? -h : h; v[j] = c.coin() ? -h : h; }
		else { int z = (int)c.draw(4); R s = 1 / sqrtl(3.0L); for (int i = 0; i < 4; ++i) v[i] = i == z ? 0 : (c.coin() ? -s : s); }
		g.q = Qn{v[0], v[1], v[2], v[3]};
		break;
	}
	case 1: case 2: {
		g.cls = QC_RANDOM;
		Qn q{c.uniform(-1.0, 1.0), c.uniform(-1.0, 1.0), c.uniform(-1.0, 1.0), c.uniform(-1.0, 1.0)};
		if (qnorm(q) < 1e-3L) q = Qn{1, 0, 0, 0};
		g.q = qunit(q);
		break;
	}
	case 3: {
		g.cls = QC_AXISANGLE;
		R a;
		switch (c.draw(7)) {
		case 0: a = c.loguniform(1e-9, 1e-1); break;
		case 1: a = PI - c.loguniform(1e-9, 1e-1); break;
		case 2: a = PI; break;
		case 3: a = 2 * PI - c.loguniform(1e-9, 1e-1); break;
		case 4: a = PI + c.loguniform(1e-9, 1e-1); break;
		case 5: a = (c.coin() ? 1.0L : 2 * PI - 1.0L) + (c.draw(4) == 0 ? 0.0L : (c.coin() ? -1 : 1) * (R)c.loguniform(1e-9, 1e-3)); break;  // |w| = cos(1/2): branch point of angle() and pow()
		default: a = c.uniform(0.0, 6.283185307179586); break;
		}
		V3 n;
		int ak = (int)c.draw(3);
		if (ak == 0) n = coord_axis((int)c.draw(3), c.coin());
		else if (ak == 1) { n = coord_axis((int)c.draw(3), c.coin()); R p = c.loguniform(1e-9, 1e-3); V3 d = gen_dir(c); n = vunit(vadd(n, vscale(d, p))); }
		else n = gen_dir(c);
		g.q = q_axis_angle(n, a);
		break;
	}
	case 4: {
		g.cls = QC_WNEAR0;
		R w = c.draw(4) == 0 ? 0 : c.loguniform(1e-12, 1e-2);
		if (c.coin()) w = -w;
		V3 n = c.draw(3) == 0 ? coord_axis((int)c.draw(3), c.coin()) : gen_dir(c);
		R s = sqrtl(1 - w * w);
		g.q = Qn{w, n.x * s, n.y * s, n.z * s};
		break;
	}
	case 5: {
		g.cls = QC_WNEAR1;
		R s = c.draw(8) == 0 ? 0 : c.loguniform(1e-12, 1e-2);
		V3 n = c.draw(3) == 0 ? coord_axis((int)c.draw(3), c.coin()) : gen_dir(c);
		R w = sqrtl(1 - s * s);
		if (c.coin()) w = -w;
		g.q = Qn{w, n.x * s, n.y * s, n.z * s};
		break;
	}
	case 6: {
		g.cls = QC_TIE;
		int m = 2 + (int)c.draw(3);  // number of tied components
		int first = (int)c.draw(4);
		R v[4];
		for (int i = 0; i < 4; ++i) {
			bool tied = ((i - first + 4) % 4) < m;
			R mag = tied ? 1.0L : (R)c.uniform(0.0, 0.95);
			v[i] = c.coin() ? -mag : mag;
		}
		g.q = qunit(Qn{v[0], v[1], v[2], v[3]});
		g.tie_idx = first; g.tie_ulps = (int)c.range(0, 4) - 2;
		break;
	}
	case 7: {
		g.cls = QC_PRODUCT;
		QGen a, b; gen_unit_quat_R(c, a, 1); gen_unit_quat_R(c, b, 1);
		g.q = qunit(qmul(a.q, b.q));
		break;
	}
	}
	if (depth) return;
	// the gimbal class replaces one third of the random draws (1/12 of all cases)
	if (g.cls == QC_RANDOM && c.draw(3) == 0) {
		g.cls = QC_GIMBAL;
		R d = c.draw(4) == 0 ? 0 : c.loguniform(1e-9, 1e-2);
		if (c.coin()) d = -d;
		R yaw = (c.coin() ? -1 : 1) * (PI / 2 - d);
		R pitch = c.uniform(-3.14159, 3.14159), roll = c.uniform(-3.14159, 3.14159);
		g.q = qmul(qmul(q_coord(2, roll), q_coord(1, yaw)), q_coord(0, pitch));
	}
}

// unit quaternion rounded to T component by component (|q|^2 = 1 +- a few u); q[] = (w,x,y,z). Returns the class.
template <class T> static inline int gen_unit_quat(pbt::Ctx& c, T* q) {
	QGen g; gen_unit_quat_R(c, g);
	q[0] = (T)g.q.w; q[1] = (T)g.q.x; q[2] = (T)g.q.y; q[3] = (T)g.q.z;
	if (g.tie_idx >= 0 && g.tie_ulps) {
		T& x = q[g.tie_idx];
		x = fp::from_ordered<T>(fp::ordered(x) + g.tie_ulps);
	}
	return g.cls;
}

enum VClass { VC_MIXED, VC_SAMESCALE, VC_SMALLINT, VC_AXIS, VC_UNIT, VC_PARALLEL, VC_N };
static const char* const VC_NAME[] = {"v:mixed magnitude", "v:same scale", "v:small integers", "v:axis-aligned", "v:unit", "v:parallel to the rotation axis"};
// non-zero vec3; `axis` (may be null) is the rotation axis of the quaternion in the case
template <class T> static inline int gen_vec3(pbt::Ctx& c, T* v, const V3* axis, int span = 10) {
	int k = (int)c.draw(axis ? 6 : 5), cls;
	v[0] = v[1] = v[2] = 0;
	switch (k) {
	case 0: cls = VC_MIXED; for (int i = 0; i < 3; ++i) v[i] = fp::gen_moderate<T>(c, span, span); break;
	case 1: cls = VC_SAMESCALE; for (int i = 0; i < 3; ++i) v[i] = (T)c.uniform(-2.0, 2.0); break;
	case 2: cls = VC_SMALLINT; for (int i = 0; i < 3; ++i) v[i] = (T)c.range(-8, 8); break;
	case 3: cls = VC_AXIS; v[c.draw(3)] = c.coin() ? (T)(c.coin() ? -1 : 1) : fp::gen_moderate<T>(c, span, span); break;
	case 4: { cls = VC_UNIT; V3 d = gen_dir(c); v[0] = (T)d.x; v[1] = (T)d.y; v[2] = (T)d.z; break; }
	default: { cls = VC_PARALLEL; R s = c.loguniform(0.01, 100.0); if (c.coin()) s = -s; v[0] = (T)(axis->x * s); v[1] = (T)(axis->y * s); v[2] = (T)(axis->z * s); break; }
	}
	if (v[0] == 0 && v[1] == 0 && v[2] == 0) v[0] = 1;
	return cls;
}
// unit vec3 rounded to T
template <class T> static inline void gen_unit_vec3(pbt::Ctx& c, T* v) {
	V3 d;
	int k = (int)c.draw(4);
	if (k == 0) d = coord_axis((int)c.draw(3), c.coin());
	else if (k == 1) { d = coord_axis((int)c.draw(3), c.coin()); d = vunit(vadd(d, vscale(gen_dir(c), c.loguniform(1e-9, 1e-2)))); }
	else d = gen_dir(c);
	v[0] = (T)d.x; v[1] = (T)d.y; v[2] = (T)d.z;
}

enum AClass { AC_ZERO, AC_QUARTER, AC_NEARQUARTER, AC_SMALL, AC_UNIFORM2PI, AC_NICE, AC_BIG, AC_N };
static const char* const AC_NAME[] = {"angle:0", "angle:k*pi/2 rounded (+- 2 ulps)", "angle:k*pi/2 +- 1e-9..1e-3", "angle:+-1e-9..1e-1", "angle:uniform [-2pi,2pi]", "angle:table (0.5, 1, pi/3 ...)", "angle:uniform [-1000,1000]"};
template <class T> static inline T gen_angle(pbt::Ctx& c, int* cls = nullptr) {
	int k = (int)c.draw(12), cl;
	R a;
	if (k == 0) { cl = AC_ZERO; a = c.coin() ? 0.0L : -0.0L; }
	else if (k == 1) { cl = AC_QUARTER; T t = (T)((R)c.range(-4, 4) * PI / 2); int d = (int)c.range(0, 4) - 2; if (t != 0) t = fp::from_ordered<T>(fp::ordered(t) + d); if (cls) *cls = cl; return t; }
	else if (k <= 3) { cl = AC_NEARQUARTER; a = (R)c.range(-4, 4) * PI / 2 + (c.coin() ? -1 : 1) * (R)c.loguniform(1e-9, 1e-3); }
	else if (k == 4) { cl = AC_SMALL; a = (c.coin() ? -1 : 1) * (R)c.loguniform(1e-9, 1e-1); }
	else if (k <= 9) { cl = AC_UNIFORM2PI; a = c.uniform(-6.283185307179586, 6.283185307179586); }
	else if (k == 10) { cl = AC_NICE; static const double N[] = {0.5, 1.0, -1.0, 2.0, 3.0, 0.25, 1.0471975511965976, 0.7853981633974483, 0.5235987755982988, -0.7853981633974483, 1.5, -2.5}; a = N[c.draw(12)]; }
	else { cl = AC_BIG; a = c.uniform(-1000.0, 1000.0); }
	if (cls) *cls = cl;
	return (T)a;
}

// ---------------------------------------------------------------------------------------------------------------------
// Case alignment across build configurations. pbt keys the random stream of a target by (seed, target name, case index) and the
// target names of C04 carry the configuration ("...[xyzw]" / "...[wxyz]"), so the two builds would see different cases. The
// generator state of a fresh case is mix64(salt(name) ^ index*K); re-keying it with the salt of the configuration-free base name
// makes both builds draw the identical case from the same seed and index. Replays / shrinking / fuzzing use forced choice lists
// and are left alone. The step verifies itself: if the recovered index is not a small integer (engine keying changed) the
// stream is left untouched and a class counter says so.
static inline uint64_t inv64(uint64_t a) { uint64_t x = a; for (int i = 0; i < 6; ++i) x *= 2 - a * x; return x; }
static inline uint64_t unmix64(uint64_t z) {
	z ^= (z >> 31) ^ (z >> 62);
	z *= inv64(0x94d049bb133111ebULL);
	z ^= (z >> 27) ^ (z >> 54);
	z *= inv64(0xbf58476d1ce4e5b9ULL);
	z ^= (z >> 30) ^ (z >> 60);
	return z - 0x9e3779b97f4a7c15ULL;
}
struct CaseAlign {
	uint64_t salt_full, salt_base, kinv;
	CaseAlign(const char* base, const char* full) {
		uint64_t seed = 1;
		if (const char* s = getenv("VERIF_SEED")) seed = strtoull(s, nullptr, 10);
		salt_full = pbt::mix64(pbt::hash_str(full) ^ pbt::mix64(seed));
		salt_base = pbt::mix64(pbt::hash_str(base) ^ pbt::mix64(seed));
		kinv = inv64(0x9e3779b97f4a7c15ULL);
	}
	void apply(pbt::Ctx& c) const {
		if (c.n != 0 || c.nforced != 0 || c.forced_only) return;
		uint64_t x = unmix64(c.rs) ^ salt_full;
		if ((x * kinv) >> 40) { c.cls("case stream NOT aligned with the other configuration (engine keying changed)"); return; }
		c.rs = pbt::mix64(salt_base ^ x);
	}
};

}  // namespace refrot
