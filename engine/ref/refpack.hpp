// refpack.hpp — reference models of the packed formats of glm/packing.hpp and glm/gtc/packing.hpp (C06), written from
// the conversion equations quoted in GLM's doc comments (GLSL 4.20 section 8.4: round(clamp(c,0,1)*M), f/M,
// clamp(f/M,-1,1)) and from the OpenGL definitions of the unsigned 11/10-bit floats (GL 4.x section 2.3.4.3/4) and of
// RGB9_E5 (EXT_texture_shared_exponent). No GLM code, no GLM include.
//
// Second half (namespace packcheck): format-driven property bodies, parameterised by an *adapter* type that the harness
// defines (the adapter is the only place where GLM is called).
#pragma once
#include "../fp.hpp"
#include <string>

namespace refpack {

enum Kind { UNORM, SNORM, UINT, SINT };
struct Field { int bits; Kind kind; };

template <class T> struct Wide;
template <> struct Wide<float> { typedef double type; };
template <> struct Wide<double> { typedef long double type; };

static inline uint64_t mask(int bits) { return bits >= 64 ? ~0ULL : ((1ULL << bits) - 1); }
static inline int64_t sext(uint64_t code, int bits) {
	code &= mask(bits);
	if (bits < 64 && (code >> (bits - 1))) return (int64_t)code - (int64_t)(1ULL << bits);
	return (int64_t)code;
}
static inline bool is_signed(Kind k) { return k == SNORM || k == SINT; }
// integer value of a field code
static inline int64_t code_value(Field f, uint64_t code) { return is_signed(f.kind) ? sext(code, f.bits) : (int64_t)(code & mask(f.bits)); }
// scale factor M of a normalised field: 2^b-1 (unorm), 2^(b-1)-1 (snorm)
static inline int64_t norm_max(Field f) { return f.kind == UNORM ? (int64_t)mask(f.bits) : (int64_t)mask(f.bits - 1); }
static inline bool most_negative(Field f, uint64_t code) { return f.kind == SNORM && code_value(f, code) < -norm_max(f); }

// exact real value of a normalised code: k/M, snorm clamped to [-1,1]   (W = wide float type)
template <class W> static inline W norm_decode(Field f, uint64_t code) {
	int64_t k = code_value(f, code), M = norm_max(f);
	if (k < -M) k = -M;
	return (W)k / (W)M;
}

// Encoding of real x: code = round(clamp(x, lo, 1) * M). `nearest` is the exact nearest integer of q = clamp(x)*M (ties:
// the one away from zero, either is accepted); [lo,hi] is the set of codes a floating-point evaluation of the documented
// formula in T may return: both neighbours when q is within `slack` (4 ulp_T(q): 8x the rounding error of the single
// product) of a midpoint.
// ulp of T at magnitude m, computed in the wide type (float: from the exponent bits of the double, no libm)
template <class T> struct UlpOf;
template <> struct UlpOf<float> {
	static inline double at(double m) {
		if (m < 0) m = -m;
		if (m < 1.17549435e-38) return 1.4012984643e-45;
		uint64_t e = (fp::d2u(m) >> 52) & 0x7ff;
		return fp::u2d((e - 23) << 52);
	}
};
template <> struct UlpOf<double> {
	static inline long double at(long double m) { return fp::ulp_at<double>(m); }
};
template <class T> struct Enc {
	typedef typename Wide<T>::type W;
	int64_t lo, hi, nearest;
	W q, slack;
	int xclass;  // 0 in range, 1 above the range, 2 below the range
	bool near_tie;
};
static const char* const XCLASS[] = {"in-range", "above-range", "below-range"};
template <class T> static inline Enc<T> norm_encode(Field f, T x) {
	typedef typename Wide<T>::type W;
	Enc<T> e;
	const int64_t M = norm_max(f);
	const W lo = f.kind == UNORM ? (W)0 : (W)-1;
	W xc = (W)x;
	e.xclass = 0;
	if (xc > (W)1) { xc = (W)1; e.xclass = 1; }
	if (xc < lo) { xc = lo; e.xclass = 2; }
	e.q = xc * (W)M;  // float: exact in double (24 + <=16 bits; 32-bit fields only occur with T = double, W = long double)
	W fl = std::floor(e.q), fr = e.q - fl;
	e.slack = (W)4 * UlpOf<T>::at(e.q);
	e.near_tie = false;
	const W h = (W)0.5;
	if (fr < h - e.slack) e.lo = e.hi = (int64_t)fl;
	else if (fr > h + e.slack) e.lo = e.hi = (int64_t)fl + 1;
	else { e.lo = (int64_t)fl; e.hi = (int64_t)fl + 1; e.near_tie = true; }
	e.nearest = (fr < h) ? (int64_t)fl : (fr > h) ? (int64_t)fl + 1 : (e.q < 0 ? (int64_t)fl : (int64_t)fl + 1);
	return e;
}

// ---- IEEE binary16 (layout checks of the half packers; the conversions themselves belong to C07)
static inline double half_value(uint16_t h) {  // finite codes
	int s = h >> 15, e = (h >> 10) & 31, m = h & 1023;
	double v = (e == 0) ? std::ldexp((double)m, -24) : std::ldexp((double)(1024 + m), e - 25);
	return s ? -v : v;
}
static inline bool half_is_nan(uint16_t h) { return ((h >> 10) & 31) == 31 && (h & 1023) != 0; }
static inline bool half_is_inf(uint16_t h) { return (h & 0x7fff) == 0x7c00; }

// ---- unsigned small floats: 5 exponent bits (bias 15), mbits mantissa bits (6 for the 11-bit, 5 for the 10-bit format)
enum UfClass { UF_ZERO, UF_SUBNORMAL, UF_NORMAL, UF_INF, UF_NAN };
static const char* const UFCLASS[] = {"zero-code", "subnormal-code", "normal-code", "inf-code", "nan-code"};
static inline UfClass uf_class(uint32_t code, int mbits) {
	uint32_t E = (code >> mbits) & 31, M = code & ((1u << mbits) - 1);
	if (E == 0) return M ? UF_SUBNORMAL : UF_ZERO;
	if (E == 31) return M ? UF_NAN : UF_INF;
	return UF_NORMAL;
}
static inline double uf_value(uint32_t code, int mbits) {  // value of a code (inf / nan for the special codes)
	uint32_t E = (code >> mbits) & 31, M = code & ((1u << mbits) - 1);
	if (E == 0) return std::ldexp((double)M, -14 - mbits);
	if (E == 31) return M ? (double)NAN : (double)INFINITY;
	return std::ldexp((double)((1u << mbits) + M), (int)E - 15 - mbits);
}
static inline double uf_max(int mbits) { return std::ldexp((double)((2u << mbits) - 1), 15 - mbits); }  // 65024 / 64512
static inline double uf_min_sub(int mbits) { return std::ldexp(1.0, -14 - mbits); }                      // 2^-20 / 2^-19
static inline uint32_t uf_max_code(int mbits) { return (30u << mbits) | ((1u << mbits) - 1); }

// ---- RGB9_E5 (EXT_texture_shared_exponent): N = 9 mantissa bits, B = 15, Emax = 31
static const double RGB9E5_MAX = 65408.0;  // (2^9-1)/2^9 * 2^(31-15)
static inline double rgb9e5_value(uint32_t mant, uint32_t exp) { return std::ldexp((double)mant, (int)exp - 24); }
static inline double rgb9e5_clamp(double x) { return x > 0 ? (x < RGB9E5_MAX ? x : RGB9E5_MAX) : 0.0; }
// the specification's encoder, in exact arithmetic (x are floats: every quotient below is exact in double)
static inline uint32_t rgb9e5_encode(const double x[3], int* exp_shared) {
	double c[3] = {rgb9e5_clamp(x[0]), rgb9e5_clamp(x[1]), rgb9e5_clamp(x[2])};
	double mx = c[0] > c[1] ? c[0] : c[1]; if (c[2] > mx) mx = c[2];
	int fl = -16;
	if (mx > 0) { int e; std::frexp(mx, &e); fl = e - 1; if (fl < -16) fl = -16; }  // floor(log2(mx)), exact
	int ep = fl + 1 + 15;
	double ms = std::floor(std::ldexp(mx, -(ep - 24)) + 0.5);
	int es = (ms == 512.0) ? ep + 1 : ep;
	uint32_t w = (uint32_t)es << 27;
	for (int i = 0; i < 3; ++i) w |= (uint32_t)std::floor(std::ldexp(c[i], -(es - 24)) + 0.5) << (9 * i);
	if (exp_shared) *exp_shared = es;
	return w;
}

}  // namespace refpack

// ================================================================================================================
// Format-driven property bodies. An adapter F supplies
//   typedef T (float|double: component type); NF; fields[NF] (least-significant field first); name();
//   uint64_t pack(const T* v);  void unpack(uint64_t word, T* out);                 (normalised formats)
//   uint64_t pack(const int64_t* v);  void unpack(uint64_t word, int64_t* out);     (integer formats)
// ================================================================================================================
namespace packcheck {
using namespace refpack;

template <class F> static inline int pos_of(int i) { int p = 0; for (int j = 0; j < i; ++j) p += F::fields[j].bits; return p; }
template <class F> static inline int total_bits() { return pos_of<F>(F::NF); }
template <class F> static inline uint64_t field_of(uint64_t w, int i) { return (w >> pos_of<F>(i)) & mask(F::fields[i].bits); }

static inline std::string fkey(const char* a, int field, const char* b = nullptr) {
	std::string k = a; k += "/field"; k += (char)('0' + field);
	if (b) { k += '/'; k += b; }
	return k;
}
template <class W> static inline W absw(W v) { return v < 0 ? -v : v; }

// --- unpack direction: one packed word. decode against k/M, canonical codes re-pack to themselves, unpack∘pack∘unpack = unpack
template <class F> static void check_norm_word(pbt::Ctx& c, uint64_t p) {
	typedef typename F::T T; typedef typename Wide<T>::type W;
	const int tb = total_bits<F>();
	T dec[4], dec2[4];
	F::unpack(p, dec);
	bool interesting = false;
	for (int i = 0; i < F::NF; ++i) {
		const Field f = F::fields[i];
		uint64_t code = field_of<F>(p, i);
		if (code != 0 && code != (f.kind == UNORM ? mask(f.bits) : mask(f.bits - 1))) interesting = true;
		W want = norm_decode<W>(f, code);
		W err = absw<W>((W)dec[i] - want);
		// f/M evaluated in T: conversion of f, the rounded constant 1/M, one product: 3 roundings of eps/2 each, x8 margin
		W tol = (W)12 * (W)std::numeric_limits<T>::epsilon() * absw<W>(want) + (W)std::numeric_limits<T>::denorm_min();
		c.metric("decode err/tol", (double)(err / tol));
		bool mn = most_negative(f, code);
		if (mn) c.cls("most-negative-snorm-code");
		if (!(err <= tol)) c.failk(fkey("unpack", i, mn ? "most-negative" : "value"), "%s word 0x%llx field %d code 0x%llx decodes to %.17g, expected %.17Lg", F::name(), (unsigned long long)p, i, (unsigned long long)code, (double)dec[i], (long double)want);
		if (f.kind == SNORM && !(dec[i] >= (T)-1 && dec[i] <= (T)1)) c.failk(fkey("unpack", i, "outside[-1,1]"), "%s word 0x%llx field %d decodes to %.17g outside the documented clamp", F::name(), (unsigned long long)p, i, (double)dec[i]);
	}
	uint64_t rp = F::pack(dec);
	F::unpack(rp, dec2);
	if (tb < 64 && (rp >> tb)) c.fail("repack/stray-bits", "%s re-pack of word 0x%llx sets bits above the format: 0x%llx", F::name(), (unsigned long long)p, (unsigned long long)rp);
	for (int i = 0; i < F::NF; ++i) {
		const Field f = F::fields[i];
		uint64_t code = field_of<F>(p, i);
		bool mn = most_negative(f, code);
		if (!mn && field_of<F>(rp, i) != code) c.failk(fkey("repack", i), "%s word 0x%llx: field %d code 0x%llx -> %.17g -> re-packed code 0x%llx", F::name(), (unsigned long long)p, i, (unsigned long long)code, (double)dec[i], (unsigned long long)field_of<F>(rp, i));
		if (!fp::same_bits(dec[i], dec2[i])) c.failk(fkey("idempotent", i, mn ? "most-negative" : "canonical"), "%s word 0x%llx field %d: unpack=%.17g but unpack(pack(unpack))=%.17g (re-packed word 0x%llx)", F::name(), (unsigned long long)p, i, (double)dec[i], (double)dec2[i], (unsigned long long)rp);
	}
	c.logf("%s word 0x%llx -> (%.9g, %.9g, %.9g, %.9g)[%d] -> 0x%llx", F::name(), (unsigned long long)p, (double)dec[0], F::NF > 1 ? (double)dec[1] : 0.0, F::NF > 2 ? (double)dec[2] : 0.0, F::NF > 3 ? (double)dec[3] : 0.0, F::NF, (unsigned long long)rp);
	if (interesting) c.nontrivial();
}

static inline uint64_t gen_code(pbt::Ctx& c, Field f) {
	const uint64_t m = mask(f.bits);
	switch (c.draw(4)) {
	case 0: { uint64_t t[] = {0, m, 1, m - 1, (m >> 1), (m >> 1) + 1, (m >> 1) + 2, (m >> 1) - 1}; return t[c.draw(8)] & m; }
	default: return c.draw(0) & m;
	}
}
// whole word: the sweep index when the word has <= 32 bits (the first draw is the enumeration index), otherwise every field
// drawn from {0, max, most negative and neighbours, random}
template <class F> static void prop_norm_words(pbt::Ctx& c) {
	const int tb = total_bits<F>();
	uint64_t p = 0;
	if (tb <= 32) p = c.draw(1ULL << tb);
	else for (int i = 0; i < F::NF; ++i) p |= gen_code(c, F::fields[i]) << pos_of<F>(i);
	check_norm_word<F>(c, p);
}
// every code of every field, the other fields all-zero / all-one / random
template <class F> static uint64_t fields_domain() { uint64_t n = 0; for (int i = 0; i < F::NF; ++i) n += 1ULL << F::fields[i].bits; return 3 * n; }
template <class F> static uint64_t field_sweep_word(pbt::Ctx& c) {
	uint64_t idx = c.draw(fields_domain<F>());
	int fill = (int)(idx % 3); idx /= 3;
	int fi = 0;
	while (idx >= (1ULL << F::fields[fi].bits)) { idx -= 1ULL << F::fields[fi].bits; ++fi; }
	const int tb = total_bits<F>();
	uint64_t others = fill == 0 ? 0 : fill == 1 ? ~0ULL : c.draw(0);
	uint64_t fm = mask(F::fields[fi].bits) << pos_of<F>(fi);
	uint64_t p = ((others & ~fm) | (idx << pos_of<F>(fi))) & mask(tb);
	c.cls(fill == 0 ? "others-zero" : fill == 1 ? "others-ones" : "others-random");
	return p;
}
template <class F> static void prop_norm_fields(pbt::Ctx& c) { check_norm_word<F>(c, field_sweep_word<F>(c)); }

// --- pack direction
template <class T> static inline T nudge(T x, int64_t k) {  // k steps along the ordered floats (not across NaN)
	if (!fp::is_finite(x)) return x;
	T r = fp::from_ordered<T>(fp::ordered(x) + (typename fp::bits_of<T>::S)k);
	return fp::is_nan(r) ? x : r;
}
template <class T> static T gen_norm_input(pbt::Ctx& c, Field f) {
	typedef typename Wide<T>::type W;
	const int64_t M = norm_max(f);
	const T lo = f.kind == UNORM ? (T)0 : (T)-1;
	auto code = [&]() -> int64_t {
		int64_t k;
		switch (c.draw(3)) {
		case 0: { int64_t t[] = {0, 1, M / 2, M / 2 + 1, M - 1, M}; k = t[c.draw(6)]; break; }
		default: k = (int64_t)c.draw((uint64_t)M + 1); break;
		}
		if (f.kind == SNORM && c.coin()) k = -k;
		return k;
	};
	switch (c.draw(8)) {
	case 0: c.cls("gen:code-preimage"); return (T)((W)code() / (W)M);
	case 1: c.cls("gen:code-preimage+-ulps"); return nudge((T)((W)code() / (W)M), c.range(-3, 3));
	case 2: case 3: { c.cls("gen:midpoint+-ulps"); int64_t k = code(); W h = (W)0.5; return nudge((T)(((W)k + (k < 0 || (k == 0 && f.kind == SNORM && c.coin()) ? -h : h)) / (W)M), c.range(-3, 3)); }
	case 4: {
		c.cls("gen:ends-and-beyond");
		const T inf = std::numeric_limits<T>::infinity(), mx = std::numeric_limits<T>::max(), dn = std::numeric_limits<T>::denorm_min();
		T t[] = {lo, (T)1, (T)0, (T)-0.0, nudge((T)1, 1), nudge((T)1, -1), nudge(lo, f.kind == UNORM ? 1 : -1), nudge((T)-1, 1), (T)1.5, (T)-1.5, (T)2, (T)-2, (T)1e30, (T)-1e30, mx, (T)-mx, inf, (T)-inf, dn, (T)-dn, (T)1e-30, (T)-1e-30, (T)0.5, (T)-0.5};
		return t[c.draw(sizeof t / sizeof t[0])];
	}
	default: c.cls("gen:uniform"); return (T)c.uniform((double)lo - 0.25, 1.25);
	}
}
// checks of one packed word against the inputs x[]; returns the signed field values in g[]
template <class F> static void check_norm_pack(pbt::Ctx& c, const typename F::T* x, uint64_t w, int64_t* g, const char* prefix) {
	typedef typename F::T T; typedef typename Wide<T>::type W;
	const int tb = total_bits<F>();
	if (tb < 64 && (w >> tb)) c.failk(std::string(prefix) + "/stray-bits", "%s packs to 0x%llx: bits above the format's %d bits are set", F::name(), (unsigned long long)w, tb);
	T dec[4];
	F::unpack(w, dec);
	for (int i = 0; i < F::NF; ++i) {
		const Field f = F::fields[i];
		Enc<T> e = norm_encode<T>(f, x[i]);
		g[i] = code_value(f, field_of<F>(w, i));
		c.cls(XCLASS[e.xclass]);
		if (e.near_tie) c.cls("near-midpoint");
		if (g[i] < e.lo || g[i] > e.hi) c.failk(fkey(prefix, i, XCLASS[e.xclass]), "%s component %d = %.17g (x*M = %.12Lg): field value %lld, expected %lld (word 0x%llx)", F::name(), i, (double)x[i], (long double)e.q, (long long)g[i], (long long)e.nearest, (unsigned long long)w);
		else if (g[i] != e.nearest) {
			c.cls("other-neighbour-at-midpoint");
			W ex = absw<W>((W)g[i] - e.q) - (W)0.5;
			c.metric("encode excess/tol", (double)(ex / e.slack));
		}
		// end to end: unpack(pack(x)) within half a step of clamp(x)
		const W M = (W)norm_max(f), lo = f.kind == UNORM ? (W)0 : (W)-1;
		W xc = (W)x[i]; if (xc > (W)1) xc = (W)1; if (xc < lo) xc = lo;
		W err = absw<W>((W)dec[i] - xc), bound = (W)0.5 / M;
		W slack = e.slack / M + (W)12 * (W)std::numeric_limits<T>::epsilon() * absw<W>((W)dec[i]) + (W)std::numeric_limits<T>::denorm_min();
		if (err > bound) c.metric("quantise excess/tol", (double)((err - bound) / slack));
		if (!(err <= bound + slack)) c.failk(fkey("quantise", i, XCLASS[e.xclass]), "%s component %d = %.17g packs to field value %lld which unpacks to %.17g: error %.6Lg exceeds half a step %.6Lg", F::name(), i, (double)x[i], (long long)g[i], (double)dec[i], (long double)err, (long double)bound);
	}
}
template <class F> static void prop_norm_pack(pbt::Ctx& c) {
	typedef typename F::T T;
	T x[4] = {0, 0, 0, 0}, x2[4];
	for (int i = 0; i < F::NF; ++i) x[i] = gen_norm_input<T>(c, F::fields[i]);
	uint64_t w = F::pack(x);
	int64_t g[4] = {0, 0, 0, 0}, g2[4];
	check_norm_pack<F>(c, x, w, g, "pack");
	// monotone in one component, the other fields untouched
	int j = (int)c.draw(F::NF);
	for (int i = 0; i < F::NF; ++i) x2[i] = x[i];
	if (fp::is_finite(x[j])) {
		if (c.coin()) x2[j] = nudge(x[j], (int64_t)c.range(1, 4));
		else x2[j] = (T)((long double)x[j] + (long double)c.uniform(0.0, 3.0) / (long double)norm_max(F::fields[j]));
		if (!(x2[j] >= x[j])) x2[j] = x[j];
	}
	uint64_t w2 = F::pack(x2);
	for (int i = 0; i < F::NF; ++i) {
		g2[i] = code_value(F::fields[i], field_of<F>(w2, i));
		if (i != j && g2[i] != g[i]) c.failk(fkey("independence", i), "%s: changing component %d from %.17g to %.17g changed field %d from %lld to %lld", F::name(), j, (double)x[j], (double)x2[j], i, (long long)g[i], (long long)g2[i]);
	}
	if (g2[j] < g[j]) c.failk(fkey("monotone", j), "%s: component %d %.17g -> field %lld but larger %.17g -> field %lld", F::name(), j, (double)x[j], (long long)g[j], (double)x2[j], (long long)g2[j]);
	if (g2[j] > g[j]) c.cls("monotone-step-crossed");
	c.logf("%s(%.9g, %.9g, %.9g, %.9g)[%d] = 0x%llx fields (%lld,%lld,%lld,%lld); component %d raised to %.9g -> 0x%llx", F::name(), (double)x[0], (double)x[1], (double)x[2], (double)x[3], F::NF, (unsigned long long)w, (long long)g[0], (long long)g[1], (long long)g[2], (long long)g[3], j, (double)x2[j], (unsigned long long)w2);
	// non-trivial: a swapped / duplicated / shifted field would be visible
	bool distinct = true, inner = false;
	for (int i = 0; i < F::NF; ++i) {
		for (int k = i + 1; k < F::NF; ++k) if (g[i] == g[k]) distinct = false;
		if (g[i] != 0 && g[i] != norm_max(F::fields[i]) && g[i] != -norm_max(F::fields[i])) inner = true;
	}
	if (distinct && inner) c.nontrivial();
}
// scalar packers: every float bit pattern (NaN skipped: "any real x")
template <class F> static void prop_norm_scalar_sweep(pbt::Ctx& c) {
	uint32_t u = (uint32_t)c.draw(1ULL << 32);
	float x = fp::u2f(u);
	if (fp::is_nan(x)) { c.skip(); return; }
	float xs[4] = {x, 0, 0, 0};
	uint64_t w = F::pack(xs);
	int64_t g[4];
	check_norm_pack<F>(c, xs, w, g, "pack");
	if (fp::is_inf(x)) c.cls("infinite-input");
	// monotone along the ordered sweep: the next float up never packs to a smaller value
	if (u != 0x7f800000u) {
		float nx = fp::from_ordered<float>(fp::ordered(x) + 1);
		float ns[4] = {nx, 0, 0, 0};
		int64_t gn = code_value(F::fields[0], F::pack(ns));
		if (gn < g[0]) c.fail("monotone", "%s(%a) = %lld but %s(%a) = %lld", F::name(), (double)x, (long long)g[0], F::name(), (double)nx, (long long)gn);
		if (gn != g[0]) c.cls("step-boundary");
	}
	c.logf("%s(%a = %.9g) = %lld", F::name(), (double)x, (double)x, (long long)g[0]);
	const float lo = F::fields[0].kind == UNORM ? 0.0f : -1.0f;
	if (x > lo && x < 1.0f && x != 0.0f) c.nontrivial();
}

// --- integer formats: every word <-> the vector of its fields (sign-extended for signed fields), bit-exact both ways
template <class F> static void check_int_word(pbt::Ctx& c, uint64_t p) {
	const int tb = total_bits<F>();
	int64_t want[4] = {0, 0, 0, 0}, got[4] = {0, 0, 0, 0};
	bool distinct = true, inner = false;
	for (int i = 0; i < F::NF; ++i) {
		want[i] = code_value(F::fields[i], field_of<F>(p, i));
		uint64_t code = field_of<F>(p, i);
		if (code != 0 && code != mask(F::fields[i].bits)) inner = true;
		if (is_signed(F::fields[i].kind) && want[i] < 0) c.cls("negative-field");
		for (int k = 0; k < i; ++k) if (field_of<F>(p, k) == code) distinct = false;
	}
	F::unpack(p, got);
	for (int i = 0; i < F::NF; ++i)
		if (got[i] != want[i]) c.failk(fkey("unpack", i, is_signed(F::fields[i].kind) && want[i] < 0 ? "negative" : "nonnegative"), "%s word 0x%llx: component %d = %lld, expected bits [%d,%d) = %lld", F::name(), (unsigned long long)p, i, (long long)got[i], pos_of<F>(i), pos_of<F>(i) + F::fields[i].bits, (long long)want[i]);
	uint64_t w = F::pack(want);
	if (tb < 64) {
		if (w >> tb) c.fail("pack/stray-bits", "%s packs to 0x%llx: bits above the format are set", F::name(), (unsigned long long)w);
		w &= mask(tb);
	}
	for (int i = 0; i < F::NF; ++i)
		if (field_of<F>(w, i) != field_of<F>(p, i)) c.failk(fkey("pack", i, is_signed(F::fields[i].kind) && want[i] < 0 ? "negative" : "nonnegative"), "%s(%lld,%lld,%lld,%lld) = 0x%llx: field %d is 0x%llx, expected 0x%llx", F::name(), (long long)want[0], (long long)want[1], (long long)want[2], (long long)want[3], (unsigned long long)w, i, (unsigned long long)field_of<F>(w, i), (unsigned long long)field_of<F>(p, i));
	c.logf("%s word 0x%llx <-> (%lld,%lld,%lld,%lld)[%d]", F::name(), (unsigned long long)p, (long long)want[0], (long long)want[1], (long long)want[2], (long long)want[3], F::NF);
	if (inner && (distinct || F::NF == 1)) c.nontrivial();
}
template <class F> static void prop_int_words(pbt::Ctx& c) {
	const int tb = total_bits<F>();
	uint64_t p = 0;
	if (tb <= 32) p = c.draw(1ULL << tb);
	else for (int i = 0; i < F::NF; ++i) {
		uint64_t v = F::fields[i].bits > 16 ? (uint64_t)(c.coin() ? fp::gen_int<int32_t>(c) : (int32_t)c.draw(1ULL << 32)) : gen_code(c, F::fields[i]);
		p |= (v & mask(F::fields[i].bits)) << pos_of<F>(i);
	}
	check_int_word<F>(c, p);
}
template <class F> static void prop_int_fields(pbt::Ctx& c) { check_int_word<F>(c, field_sweep_word<F>(c)); }

}  // namespace packcheck
