// refmat.hpp — reference linear algebra for C10 (no GLM code, no GLM includes).
// Matrices are plain arrays `X m[4][4]` indexed [column][row] (the same convention as glm::mat: m[c][r]), size n = 2..4.
// The reference works in __float128 (113-bit significand): determinant by the Leibniz expansion over all n! permutations,
// inverse by cofactors (each an (n-1)! Leibniz expansion) divided by the determinant. Alongside every expansion the sum of
// the absolute values of its terms is kept (S_det, S_cof): these are the scales to which the rounding error of ANY evaluation
// order of the same expansion in T is relative, so the tolerances follow from GLM's documented formula (cof/det), not its code.
// __float128 error: <= n! 2^-112 S — at kappa <= 1e8 that is > 2^50 times below the double tolerances; it is ignored.
// (float matrices use long double: n! 2^-63 S against tolerances >= 2^-24 S.)
#pragma once
#include "fp.hpp"
#include <algorithm>
#include <string>

namespace refmat {

typedef long double R;
// reference scalar: __float128 for double; long double (64-bit significand, 2^40 u_float) is enough for float and ~10x faster
template <class T> struct QSel { typedef __float128 type; };
template <> struct QSel<float> { typedef long double type; };

template <class Q> static inline Q qabs(Q x) { return x < 0 ? -x : x; }
static inline R rabs(R x) { return x < 0 ? -x : x; }
template <class T> static inline R U() { return (R)std::numeric_limits<T>::epsilon() / 2; }   // unit roundoff u
template <class T> static inline R EPS() { return (R)std::numeric_limits<T>::epsilon(); }
template <class T> static inline R DENORM() { return (R)std::numeric_limits<T>::denorm_min(); }
template <class T> static inline R CAP() { return sizeof(T) == 4 ? 1e4L : 1e8L; }           // the quantifier's condition-number cap

// ---------------------------------------------------------------------------------------------
// permutation tables (sign, images) for n = 1..4
struct Perms {
	int cnt[5]; int p[5][24][4]; int sg[5][24];
	Perms() {
		for (int n = 1; n <= 4; ++n) {
			int a[4] = {0, 1, 2, 3}; int k = 0;
			do {
				int inv = 0; for (int i = 0; i < n; ++i) for (int j = i + 1; j < n; ++j) inv += a[i] > a[j];
				for (int i = 0; i < n; ++i) p[n][k][i] = a[i];
				sg[n][k] = (inv & 1) ? -1 : 1; ++k;
			} while (std::next_permutation(a, a + n));
			cnt[n] = k;
		}
	}
};
static inline const Perms& perms() { static const Perms P; return P; }

// Leibniz expansion of the k x k sub-matrix of m with the given rows and columns (element (row i, col j) = m[j][i]);
// S receives the sum of |terms|.
template <class Q> static inline Q leibniz(const Q m[4][4], int k, const int* rows, const int* cols, Q* S) {
	const Perms& P = perms();
	Q d = 0, s = 0;
	for (int t = 0; t < P.cnt[k]; ++t) {
		Q pr = 1;
		for (int i = 0; i < k; ++i) pr *= m[cols[P.p[k][t][i]]][rows[i]];
		if (P.sg[k][t] > 0) d += pr; else d -= pr;
		s += qabs(pr);
	}
	*S = s;
	return d;
}

// largest eigenvalue of the symmetric positive semi-definite n x n matrix a (cyclic Jacobi, long double)
static inline R lam_max_sym(R a[4][4], int n) {
	for (int sweep = 0; sweep < 12; ++sweep) {
		R off = 0;
		for (int p = 0; p < n; ++p) for (int q = p + 1; q < n; ++q) off += a[p][q] * a[p][q];
		R dg = 0; for (int p = 0; p < n; ++p) dg += a[p][p] * a[p][p];
		if (off <= 1e-36L * dg) break;
		for (int p = 0; p < n; ++p) for (int q = p + 1; q < n; ++q) {
			if (a[p][q] == 0) continue;
			R th = (a[q][q] - a[p][p]) / (2 * a[p][q]);
			R t = (th >= 0 ? 1 : -1) / (rabs(th) + sqrtl(th * th + 1));
			R cs = 1 / sqrtl(t * t + 1), sn = t * cs;
			for (int k = 0; k < n; ++k) { R x = a[k][p], y = a[k][q]; a[k][p] = cs * x - sn * y; a[k][q] = sn * x + cs * y; }
			for (int k = 0; k < n; ++k) { R x = a[p][k], y = a[q][k]; a[p][k] = cs * x - sn * y; a[q][k] = sn * x + cs * y; }
		}
	}
	R mx = 0; for (int p = 0; p < n; ++p) if (a[p][p] > mx) mx = a[p][p];
	return mx;
}
// spectral norm of the n x n matrix m ([c][r])
static inline R norm2(const R m[4][4], int n) {
	R g[4][4];
	for (int i = 0; i < n; ++i) for (int j = 0; j < n; ++j) { R s = 0; for (int k = 0; k < n; ++k) s += m[i][k] * m[j][k]; g[i][j] = s; }  // Gram matrix of the columns
	return sqrtl(lam_max_sym(g, n));
}

template <class T> struct Ref {
	typedef typename QSel<T>::type Q;
	int n = 0;
	Q m[4][4];
	Q det = 0, Sdet = 0;          // Leibniz determinant and the sum of |terms|
	Q adj[4][4], Sadj[4][4];      // adj[c][r]: entry (row r, col c) of the adjugate = cofactor of (row c, col r); inverse = adj/det
	Q inv[4][4];
	bool singular = true;
	R kappa = INFINITY;           // spectral condition number ||M||_2 ||M^-1||_2
	R nrm = 0, invnrm = 0;        // ||M||_2, ||M^-1||_2
	R maxabs = 0, invmax = 0;     // max |entry| of M and of the inverse
};

template <class T> static inline void reference(const T a[4][4], int n, Ref<T>& r) {
	typedef typename QSel<T>::type Q;
	r.n = n; r.maxabs = 0;
	for (int c = 0; c < 4; ++c) for (int k = 0; k < 4; ++k) { r.m[c][k] = (c < n && k < n) ? (Q)a[c][k] : (Q)0; if (c < n && k < n && rabs((R)a[c][k]) > r.maxabs) r.maxabs = rabs((R)a[c][k]); }
	static const int ID[4] = {0, 1, 2, 3};
	r.det = leibniz(r.m, n, ID, ID, &r.Sdet);
	for (int c = 0; c < n; ++c) for (int k = 0; k < n; ++k) {
		// inverse entry (row k, col c) = (-1)^(k+c) * minor(M without row c and column k) / det
		int rows[4], cols[4], a1 = 0, b1 = 0;
		for (int i = 0; i < n; ++i) { if (i != c) rows[a1++] = i; if (i != k) cols[b1++] = i; }
		Q S = 0, d;
		if (n == 1) { d = 1; S = 1; } else d = leibniz(r.m, n - 1, rows, cols, &S);
		r.adj[c][k] = ((k + c) & 1) ? -d : d; r.Sadj[c][k] = S;
	}
	// an exactly singular matrix (repeated columns, ...) leaves rounding noise of the reference arithmetic in the Leibniz sum
	// (|error| <= n! eps_Q S_det): a determinant inside that noise is singular to reference precision, not "kappa = noise"
	{
		const R epsQ = sizeof(T) == 4 ? 1.0842021724855044e-19L /* 2^-63 */ : 1.925929944387236e-34L /* 2^-112 */;
		r.singular = (r.det == 0) || rabs((R)r.det) <= 1024 * epsQ * (R)r.Sdet;
	}
	r.kappa = INFINITY; r.invmax = 0;
	if (r.singular) return;
	R mm[4][4], im[4][4];
	for (int c = 0; c < n; ++c) for (int k = 0; k < n; ++k) {
		r.inv[c][k] = r.adj[c][k] / r.det;
		mm[c][k] = (R)r.m[c][k]; im[c][k] = (R)r.inv[c][k];
		if (rabs(im[c][k]) > r.invmax) r.invmax = rabs(im[c][k]);
	}
	r.nrm = norm2(mm, n); r.invnrm = norm2(im, n);
	r.kappa = r.nrm * r.invnrm;
}

// rounding counts of the documented cofactor formulas (number of rounded operations on the path of one Leibniz term):
//   K_COF[n]: a cofactor of an n x n matrix ((n-1) x (n-1) minor): 0, 2 (product, difference), 5 (product, difference, product, two sums)
//   K_DET[n]: an n x n determinant: 2, 5, 9 (the 4x4 inverse needs 8)
static const int K_COF[5] = {0, 0, 0, 2, 5};
static const int K_DET[5] = {0, 0, 2, 5, 9};

// underflow floor of a cofactor / determinant evaluated in T (a product that underflows loses at most denorm_min/2, then is multiplied by entries)
template <class T> static inline R uf_floor(const Ref<T>& r, int factors) {
	R f = 64 * DENORM<T>(), b = r.maxabs > 1 ? r.maxabs : 1;
	for (int i = 0; i < factors; ++i) f *= b;
	return f;
}
template <class T> static inline R det_tol(const Ref<T>& r) { return 8 * K_DET[r.n] * U<T>() * (R)r.Sdet + uf_floor<T>(r, r.n - 1); }
template <class T> static inline R adj_tol(const Ref<T>& r, int c, int k) { return 8 * K_COF[r.n] * U<T>() * (R)r.Sadj[c][k] + (r.n > 2 ? uf_floor<T>(r, r.n - 2) : 0); }
// relative perturbation of the determinant evaluated in T (without margin)
template <class T> static inline R det_eta(const Ref<T>& r) { return (K_DET[r.n] * U<T>() * (R)r.Sdet + uf_floor<T>(r, r.n - 1) / 8) / (R)qabs(r.det); }
// entry (c,k) of the inverse computed as fl(cof) * fl(1/fl(det)) (or fl(cof)/fl(det)):
//   |err| <= [ K_COF u S_cof + |cof| (K_DET u S_det/|det| + 2u) ] / |det| / (1 - eta); valid (and used) only when eta <= 1/16; x8 margin
template <class T> static inline R inv_tol(const Ref<T>& r, int c, int k) {
	R a = (R)qabs(r.det);
	return (adj_tol<T>(r, c, k) + 8 * (R)qabs(r.adj[c][k]) * (det_eta<T>(r) + 2 * U<T>())) / a + 8 * DENORM<T>();
}

// ---------------------------------------------------------------------------------------------
// structure predicates on T matrices
template <class T> static inline bool is_diagonal(const T m[4][4], int n) { for (int c = 0; c < n; ++c) for (int k = 0; k < n; ++k) if (c != k && m[c][k] != 0) return false; return true; }
template <class T> static inline bool is_symmetric(const T m[4][4], int n) { for (int c = 0; c < n; ++c) for (int k = 0; k < c; ++k) if (m[c][k] != m[k][c]) return false; return true; }
template <class T> static inline bool all_integer(const T m[4][4], int n, R* B) {
	R b = 0;
	for (int c = 0; c < n; ++c) for (int k = 0; k < n; ++k) { R x = (R)m[c][k]; if (x != floorl(x) || rabs(x) > 1e9L) return false; if (rabs(x) > b) b = rabs(x); }
	*B = b; return true;
}
// every intermediate of any cofactor/Leibniz evaluation of an integer matrix with |entries| <= B is an integer of magnitude
// <= n! B^n: if that fits the significand of T every operation is exact.
template <class T> static inline bool exact_ok(int n, R B) {
	R v = 1; for (int i = 2; i <= n; ++i) v *= i;
	for (int i = 0; i < n; ++i) v *= (B > 1 ? B : 1);
	return v <= ldexpl(1.0L, std::numeric_limits<T>::digits);
}
template <class T> static inline R max_exact_B(int n) { R b = 1; while (exact_ok<T>(n, b + 1) && b < 1024) b += 1; return b; }

template <class T> static inline std::string mstr(const T m[4][4], int n) {
	std::string s = "[";
	char b[64];
	for (int c = 0; c < n; ++c) {
		s += c ? ",(" : "(";
		for (int k = 0; k < n; ++k) { snprintf(b, sizeof b, sizeof(T) == 4 ? "%s%.9g" : "%s%.17g", k ? "," : "", (double)m[c][k]); s += b; }
		s += ")";
	}
	return s + "] (columns)";
}
template <class T> static inline std::string vstr(const T* v, int n) {
	std::string s = "("; char b[64];
	for (int k = 0; k < n; ++k) { snprintf(b, sizeof b, sizeof(T) == 4 ? "%s%.9g" : "%s%.17g", k ? "," : "", (double)v[k]); s += b; }
	return s + ")";
}

// ---------------------------------------------------------------------------------------------
// generators. All randomness from pbt::Ctx, a zero draw gives the simplest member of a class.
enum MatClass { MC_INT, MC_UNIMOD, MC_PERM, MC_TRI, MC_SVD, MC_NEARSING, MC_RANDOM, MC_SYMDIAG, MC_N };
static const char* const MC_NAME[] = {"gen:small-integer", "gen:integer-unimodular", "gen:permutation-like", "gen:triangular", "gen:G1*D*G2 (kappa log-uniform)",
                                      "gen:near-singular in range (kappa at the cap)", "gen:random entries", "gen:symmetric-or-diagonal (trivial)"};
static const char* const MC_KEY[] = {"small-integer", "unimodular", "permutation-like", "triangular", "G1*D*G2", "near-singular", "random", "symmetric/diagonal"};

static inline void ident(R m[4][4]) { for (int c = 0; c < 4; ++c) for (int k = 0; k < 4; ++k) m[c][k] = c == k; }
static inline void mul(const R a[4][4], const R b[4][4], R o[4][4], int n) {  // o = a*b, [c][r]
	R t[4][4];
	for (int c = 0; c < 4; ++c) for (int k = 0; k < 4; ++k) { R s = 0; if (c < n && k < n) for (int j = 0; j < n; ++j) s += a[j][k] * b[c][j]; t[c][k] = s; }
	for (int c = 0; c < 4; ++c) for (int k = 0; k < 4; ++k) o[c][k] = t[c][k];
}
// random orthogonal matrix: product of Givens rotations in every coordinate plane, optionally a signed permutation (angle draw 0 = identity)
static inline void gen_orth(pbt::Ctx& c, int n, R g[4][4]) {
	ident(g);
	for (int p = 0; p < n; ++p) for (int q = p + 1; q < n; ++q) {
		double th = c.unit() * 6.283185307179586;
		R cs = cosl((R)th), sn = sinl((R)th);
		for (int k = 0; k < n; ++k) { R x = g[p][k], y = g[q][k]; g[p][k] = cs * x - sn * y; g[q][k] = sn * x + cs * y; }
	}
	if (c.coin()) {  // signed permutation of the columns
		int pm[4] = {0, 1, 2, 3};
		for (int i = n - 1; i > 0; --i) { int j = (int)c.draw(i + 1); std::swap(pm[i], pm[j]); }
		R t[4][4];
		for (int k = 0; k < n; ++k) { R s = c.coin() ? -1 : 1; for (int j = 0; j < n; ++j) t[k][j] = s * g[pm[k]][j]; }
		for (int k = 0; k < n; ++k) for (int j = 0; j < n; ++j) g[k][j] = t[k][j];
	}
}
static inline void gen_sperm(pbt::Ctx& c, int n, R g[4][4]) {  // signed permutation matrix
	int pm[4] = {0, 1, 2, 3};
	for (int i = n - 1; i > 0; --i) { int j = (int)c.draw(i + 1); std::swap(pm[i], pm[j]); }
	for (int a = 0; a < 4; ++a) for (int b = 0; b < 4; ++b) g[a][b] = 0;
	for (int k = 0; k < n; ++k) g[k][pm[k]] = c.coin() ? -1 : 1;
	for (int k = n; k < 4; ++k) g[k][k] = 1;
}
// integer unimodular matrix (det = +-1): signed permutation followed by elementary integer row/column shears, entries kept <= B
static inline void gen_unimod(pbt::Ctx& c, int n, R B, R m[4][4]) {
	if (c.coin()) gen_sperm(c, n, m); else ident(m);
	int ops = (int)c.range(0, 14);
	for (int o = 0; o < ops; ++o) {
		int i = (int)c.draw(n), j = (i + 1 + (int)c.draw(n - 1)) % n;
		int f = (int)c.range(1, 3); if (c.coin()) f = -f;
		bool col = c.coin();
		R t[4]; bool ok = true;
		for (int k = 0; k < n; ++k) { t[k] = col ? m[j][k] + f * m[i][k] : m[k][j] + f * m[k][i]; if (rabs(t[k]) > B) ok = false; }
		if (!ok) continue;  // the shear would leave the exactness range: drop this step, not the case
		for (int k = 0; k < n; ++k) { if (col) m[j][k] = t[k]; else m[k][j] = t[k]; }
	}
}

struct GenOpt {
	int force = -1;     // force a class
	R intB = 0;         // cap for integer classes (0: class default)
	int scale_span = -1; // overall scale 2^-span..2^span (-1: 8 for float, 30 for double)
	R capf = 1;          // G1*D*G2 classes draw kappa up to capf * cap (affine matrices: the translation column adds to kappa)
};

// n x n matrix of the drawn class; returns the class. The caller checks kappa (reference) against the cap for the classes that do not
// bound it by construction (integer, triangular, random, permutation-like with perturbation).
template <class T> static inline int gen_matrix(pbt::Ctx& c, int n, T out[4][4], const GenOpt& go = GenOpt()) {
	static const int PICK[16] = {MC_INT, MC_UNIMOD, MC_PERM, MC_TRI, MC_SVD, MC_SVD, MC_SVD, MC_NEARSING, MC_NEARSING, MC_RANDOM, MC_RANDOM, MC_TRI, MC_UNIMOD, MC_PERM, MC_SVD, MC_SYMDIAG};
	int cls = go.force >= 0 ? go.force : PICK[c.draw(16)];
	R m[4][4]; ident(m);
	const int span = go.scale_span >= 0 ? go.scale_span : (sizeof(T) == 4 ? 8 : 30);
	switch (cls) {
	case MC_INT: {
		static const int BT[] = {2, 4, 8, 28, 100, 1024};
		R B = BT[c.draw(6)]; if (go.intB > 0 && B > go.intB) B = go.intB;
		for (int a = 0; a < n; ++a) for (int b = 0; b < n; ++b) m[a][b] = (R)c.range(-(int64_t)B, (int64_t)B);
		break;
	}
	case MC_UNIMOD: {
		static const int BT[] = {3, 8, 28, 140, 1024};
		R B = BT[c.draw(5)]; if (go.intB > 0 && B > go.intB) B = go.intB;
		gen_unimod(c, n, B, m);
		break;
	}
	case MC_PERM: {
		gen_sperm(c, n, m);
		if (c.coin()) for (int k = 0; k < n; ++k) { R d = (R)c.loguniform(1.0 / 16, 16.0); for (int j = 0; j < n; ++j) m[k][j] *= d; }  // column scales
		if (c.coin()) { R pert = ldexpl(1.0L, -(int)c.range(2, sizeof(T) == 4 ? 20 : 48)); for (int a = 0; a < n; ++a) for (int b = 0; b < n; ++b) m[a][b] += pert * (R)c.uniform(-1.0, 1.0); }
		R s = ldexpl(1.0L, (int)c.range(0, 2 * span) - span);
		for (int a = 0; a < n; ++a) for (int b = 0; b < n; ++b) m[a][b] *= s;
		break;
	}
	case MC_TRI: {
		bool upper = c.coin(), ints = c.draw(4) == 0;
		for (int a = 0; a < n; ++a) for (int b = 0; b < n; ++b) {
			if (a == b) { R d = ints ? (R)c.range(1, 4) : (R)c.loguniform(0.125, 8.0); m[a][b] = c.coin() ? -d : d; }
			else if ((a > b) == upper) m[a][b] = ints ? (R)c.range(-4, 4) : (R)c.uniform(-1.5, 1.5);  // a>b: column index above row index = upper triangle
			else m[a][b] = 0;
		}
		R s = ldexpl(1.0L, (int)c.range(0, 2 * span) - span);
		if (!ints) for (int a = 0; a < n; ++a) for (int b = 0; b < n; ++b) m[a][b] *= s;
		break;
	}
	case MC_SVD: case MC_NEARSING: case MC_SYMDIAG: {
		R cap = CAP<T>() * go.capf;
		R kap = cls == MC_NEARSING ? cap * (R)c.uniform(0.5, 0.97) : (R)c.loguniform(1.0, (double)(cls == MC_SYMDIAG ? 100.0L : cap * 0.97L));
		R d[4]; d[0] = 1; d[n - 1] = 1 / kap;
		for (int k = 1; k + 1 < n; ++k) {
			switch (c.draw(4)) { case 0: d[k] = 1; break; case 1: d[k] = 1 / kap; break; default: d[k] = 1 / (R)c.loguniform(1.0, (double)kap); break; }
		}
		R g1[4][4], g2[4][4], dm[4][4];
		ident(dm); for (int k = 0; k < n; ++k) dm[k][k] = c.coin() ? -d[k] : d[k];
		if (cls == MC_SYMDIAG && c.coin()) { for (int a = 0; a < 4; ++a) for (int b = 0; b < 4; ++b) m[a][b] = dm[a][b]; }  // diagonal
		else {
			gen_orth(c, n, g1);
			if (cls == MC_SYMDIAG) { for (int a = 0; a < 4; ++a) for (int b = 0; b < 4; ++b) g2[a][b] = g1[b][a]; }  // G D G^T: symmetric
			else { R t[4][4]; gen_orth(c, n, t); for (int a = 0; a < 4; ++a) for (int b = 0; b < 4; ++b) g2[a][b] = t[b][a]; }
			mul(g1, dm, m, n); mul(m, g2, m, n);
		}
		R s = ldexpl(1.0L, (int)c.range(0, 2 * span) - span);
		for (int a = 0; a < n; ++a) for (int b = 0; b < n; ++b) m[a][b] *= s;
		break;
	}
	default: {  // MC_RANDOM
		bool mixed = c.draw(4) == 0;
		for (int a = 0; a < n; ++a) for (int b = 0; b < n; ++b) m[a][b] = mixed ? (R)fp::gen_moderate<T>(c, 4, 4) : (R)c.uniform(-1.0, 1.0);
		R s = ldexpl(1.0L, (int)c.range(0, 2 * span) - span);
		for (int a = 0; a < n; ++a) for (int b = 0; b < n; ++b) m[a][b] *= s;
		break;
	}
	}
	for (int a = 0; a < 4; ++a) for (int b = 0; b < 4; ++b) out[a][b] = (a < n && b < n) ? (T)m[a][b] : T(0);
	if (cls == MC_SYMDIAG) for (int a = 0; a < n; ++a) for (int b = 0; b < a; ++b) out[a][b] = out[b][a];  // symmetric after rounding, too
	return cls;
}

// affine n x n matrix (n = 3, 4): linear part of a drawn class, translation column, last row (0,..,0,1)
template <class T> static inline int gen_affine(pbt::Ctx& c, int n, T out[4][4], const GenOpt& go = GenOpt()) {
	T lin[4][4];
	int cls = gen_matrix<T>(c, n - 1, lin, go);
	R B; bool ints = all_integer(lin, n - 1, &B);
	for (int a = 0; a < 4; ++a) for (int b = 0; b < 4; ++b) out[a][b] = 0;
	for (int a = 0; a < n - 1; ++a) for (int b = 0; b < n - 1; ++b) out[a][b] = lin[a][b];
	R sc = 0; for (int a = 0; a < n - 1; ++a) for (int b = 0; b < n - 1; ++b) if (rabs((R)lin[a][b]) > sc) sc = rabs((R)lin[a][b]);
	for (int b = 0; b < n - 1; ++b) {
		if (ints) { int64_t tb = go.intB > 0 ? (int64_t)go.intB : 16; out[n - 1][b] = (T)c.range(-tb, tb); }
		else out[n - 1][b] = (T)((R)c.uniform(-2.0, 2.0) * sc);
	}
	out[n - 1][n - 1] = 1;
	return cls;
}

}  // namespace refmat
