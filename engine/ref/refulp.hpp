// refulp.hpp — reference model for ULP stepping / ULP distance / epsilon comparison (C14). No GLM code, no libm.
// Everything is integer arithmetic on the IEEE-754 order: fp::ordered() maps a non-NaN value to a signed integer
// (sign-magnitude pattern -> two's complement, +0 and -0 both -> 0) that is strictly monotone in the real value, so
//   "smallest representable value greater than x"  == order + 1
//   "x and y are k representable values apart"     == |order(x) - order(y)| == k
// The integers are widened (int64 for float, __int128 for double) so that sums/differences never overflow.
#pragma once
#include "fp.hpp"
#include <string>
#include <unordered_map>

namespace refulp {

template <class T> struct wide;
template <> struct wide<float> { typedef int64_t type; };
template <> struct wide<double> { typedef __int128 type; };

template <class T> static inline typename wide<T>::type ord(T x) { return (typename wide<T>::type)fp::ordered<T>(x); }
template <class T> static inline typename wide<T>::type ord_max() { return ord<T>(std::numeric_limits<T>::max()); }
template <class T> static inline typename wide<T>::type ord_min_normal() { return ord<T>(std::numeric_limits<T>::min()); }

// the value k representable steps above (k<0: below) x; false when that leaves [-max, +max]
template <class T> static inline bool step(T x, long long k, T* out) {
	typename wide<T>::type o = ord<T>(x) + (typename wide<T>::type)k;
	if (o > ord_max<T>() || o < -ord_max<T>()) return false;
	*out = fp::from_ordered<T>((typename fp::bits_of<T>::S)o);
	return true;
}
// number of representable steps between x and y (finite), as a non-negative wide integer
template <class T> static inline typename wide<T>::type dist(T x, T y) {
	typename wide<T>::type d = ord<T>(x) - ord<T>(y);
	return d < 0 ? -d : d;
}
// same real value (+0 == -0), decided on the integer images (no floating-point comparison involved)
template <class T> static inline bool same_real(T x, T y) { return ord<T>(x) == ord<T>(y); }

// ---- epsilon comparison: position of |x - y| relative to eps
// fl(x - y) is correctly rounded and rounding is monotone, so for a representable eps
//   |fl(x-y)| < eps  =>  |x-y| < eps      and      |fl(x-y)| > eps  =>  |x-y| > eps      (both readings agree)
// Only |fl(x-y)| == eps needs the exact difference: the rounding error of the subtraction is recovered with the
// Knuth TwoSum sequence (exact when no overflow occurs), giving  exact |x-y| <, ==, > eps.
enum EpsPos {
	EP_BELOW = 0,        // |x-y| < eps in exact and in rounded arithmetic
	EP_ABOVE = 1,        // |x-y| > eps in exact and in rounded arithmetic
	EP_AT_EXACT = 2,     // |x-y| == eps exactly (this is where "<" and "<=" differ)
	EP_AT_ROUNDED_LO = 3,// rounded difference == eps, exact difference slightly smaller
	EP_AT_ROUNDED_HI = 4,// rounded difference == eps, exact difference slightly larger
};
template <class T> static inline EpsPos eps_position(T x, T y, T eps) {
	volatile T s = x - y;  // volatile: keep every step in T, no reassociation
	T a = s < 0 ? -s : s;
	if (fp::is_inf(a)) return EP_ABOVE;  // overflow: |x-y| > max >= eps
	if (a < eps) return EP_BELOW;
	if (a > eps) return EP_ABOVE;
	volatile T bv = s - x;      // TwoSum(x, -y): s + err == x - y exactly
	volatile T av = s - bv;
	volatile T e1 = x - av, e2 = (-y) - bv;
	T err = e1 + e2;
	if (err == 0) return EP_AT_EXACT;
	bool grows = (err > 0) == (s > 0);  // error has the sign of the difference: exact magnitude is larger
	return grows ? EP_AT_ROUNDED_HI : EP_AT_ROUNDED_LO;
}

}  // namespace refulp

// ---- input generators shared by the C14 harnesses (finite values only; smaller draws == simpler values)
namespace refulp {

template <class T> static inline const char* tname();
template <> inline const char* tname<float>() { return "float"; }
template <> inline const char* tname<double>() { return "double"; }

// finite value biased to the places where the integer image of the order changes character:
// +-0, smallest/largest subnormals, binade boundaries +-3 steps, +-max, the 141 values straddling zero
template <class T> static inline T gen_base(pbt::Ctx& c) {
	typedef fp::bits_of<T> B; typedef typename B::U U; typedef typename B::S S;
	const U SIGN = U(1) << (sizeof(U) * 8 - 1);
	const U MAXMAG = fp::tobits<T>(std::numeric_limits<T>::max());
	const int EMAX = (1 << B::EXPBITS) - 2;
	U mag;
	switch (c.draw(8)) {
	case 0: return c.coin() ? fp::frombits<T>(SIGN) : T(0);
	case 1: {  // subnormals: near denorm_min, near the largest subnormal, anywhere
		uint64_t k = c.draw(3);
		if (k == 0) mag = (U)c.range(1, 70);
		else if (k == 1) mag = (U(1) << B::MANT) - 1 - (U)c.draw(70);
		else mag = (U)1 + (U)c.draw((uint64_t)((U(1) << B::MANT) - 1));
		break; }
	case 2: {  // binade boundary (2^k) and the 3 values on either side (e=1, negative offset: largest subnormals)
		int e;
		if (c.draw(4) == 0) { const int pick[4] = {1, 2, EMAX, B::BIAS}; e = pick[c.draw(4)]; }  // min normal (subnormal/normal seam), max binade, 1.0
		else e = (int)c.range(1, EMAX);
		int off = (int)c.range(-3, 3);
		mag = (U)((U(e) << B::MANT) + (U)(S)off);
		break; }
	case 3: mag = MAXMAG - (U)c.draw(70); break;
	case 4: return fp::from_ordered<T>((S)c.range(-70, 70));
	case 5: return fp::gen_moderate<T>(c);
	default: return fp::gen_float<T>(c, fp::FD_FINITE);
	}
	return fp::frombits<T>(c.coin() ? (mag | SIGN) : mag);
}

}  // namespace refulp

// ---- harness helper: a defect that fails on a large part of the domain (a stepping function that is wrong for half
// of all floats) would spend the whole budget formatting messages. Each worker records the first 64 failures of a key
// (the worker that owns the smallest failing index records it, indices are visited in increasing order) and only
// counts the rest. Never active in replay / shrink runs (forced_only), so a stored case always reports its failure.
namespace refulp {
static inline uint64_t key_hash(const void* a, const void* b, const void* c, const void* d, uint64_t e) {
	// the parts are addresses of string literals (or null): distinct odd multipliers keep the four positions apart, one mix at the end
	uint64_t h = (uint64_t)(uintptr_t)a * 0x9e3779b97f4a7c15ULL ^ (uint64_t)(uintptr_t)b * 0xbf58476d1ce4e5b9ULL ^ (uint64_t)(uintptr_t)c * 0x94d049bb133111ebULL ^
	             (uint64_t)(uintptr_t)d * 0xd6e8feb86659fd93ULL;
	return pbt::mix64(h + e * 0x2545f4914f6cdd1dULL);
}
// failure keys name the overload family only: "vec-int/", "vec-ivec/" -> "vec/" (the exact overload goes into the message)
static inline std::string key_form(const char* form) {
	std::string f(form);
	size_t d = f.find('-');
	return d == std::string::npos ? f : f.substr(0, d) + "/";
}
static inline bool repeat_failure(pbt::Ctx& c, uint64_t h) {
	if (c.forced_only) return false;
	thread_local uint64_t cache_h[16]; thread_local uint32_t* cache_n[16];  // direct-mapped front of the map
	thread_local std::unordered_map<uint64_t, uint32_t> seen;
	const unsigned slot = (unsigned)(h & 15);
	if (!(cache_n[slot] && cache_h[slot] == h)) { cache_n[slot] = &seen[h]; cache_h[slot] = h; }  // node addresses are stable across rehashing
	uint32_t& n = *cache_n[slot];
	if (n >= 64) {
		// counted in blocks of 1024 per worker (a counter update per failure would dominate a sweep in which half of the domain fails)
		thread_local uint32_t pending = 0;
		if (++pending == 1024) { c.st->cls("repeat failures of keys a worker had already recorded 64 times (not re-recorded; counted in blocks of 1024 per worker)", 1024); pending = 0; }
		return true;
	}
	++n;
	return false;
}
}  // namespace refulp
