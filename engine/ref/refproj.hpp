// refproj.hpp — long-double reference model for C08 (projection builders, project/unProject, pickMatrix) and the
// parameter generators of that check. No GLM code, no GLM includes.
//   * a 4x4 matrix is `Mat` with m[column][row] (the storage convention of the matrices under test, so lifting is a copy);
//   * view volumes are described by their documented parameters; their corners are computed here in long double;
//   * project/unProject references evaluate the gluProject / gluUnProject definitions (man pages cited by
//     glm/ext/matrix_projection.hpp) in long double, unProject by Gauss-Jordan elimination with partial pivoting in __float128
//     (GLM uses cofactors), and return a first-order forward error bound of the documented computation in T together
//     with the Jacobians needed to propagate one bound through the other (round trips).
// long double has a 64-bit significand: >= 2^11 times finer than double, its own rounding is ignored in the bounds.
#pragma once
#include "fp.hpp"
#include <string>

namespace refproj {

typedef long double R;
static const R PI = 3.14159265358979323846264338327950288L;

template <class T> static inline R U() { return (R)std::numeric_limits<T>::epsilon() / 2; }         // unit roundoff u
template <class T> static inline R TINY() { return 8 * (R)std::numeric_limits<T>::denorm_min(); }  // floor of every tolerance
static inline R rabs(R x) { return x < 0 ? -x : x; }
static inline R rmax(R a, R b) { return a > b ? a : b; }

struct Mat { R m[4][4]; };  // m[column][row]
static inline Mat ident() { Mat r; for (int c = 0; c < 4; ++c) for (int i = 0; i < 4; ++i) r.m[c][i] = c == i ? 1 : 0; return r; }
static inline Mat mul(const Mat& a, const Mat& b) {  // a*b
	Mat r;
	for (int c = 0; c < 4; ++c) for (int i = 0; i < 4; ++i) { R s = 0; for (int k = 0; k < 4; ++k) s += a.m[k][i] * b.m[c][k]; r.m[c][i] = s; }
	return r;
}
static inline Mat absm(const Mat& a) { Mat r; for (int c = 0; c < 4; ++c) for (int i = 0; i < 4; ++i) r.m[c][i] = rabs(a.m[c][i]); return r; }
// out = a*v, aout_i = sum_j |a_ij v_j| (the magnitude the rounding error of row i is relative to)
static inline void apply(const Mat& a, const R* v, R* out, R* aout = nullptr) {
	for (int i = 0; i < 4; ++i) {
		R s = 0, t = 0;
		for (int c = 0; c < 4; ++c) { R p = a.m[c][i] * v[c]; s += p; t += rabs(p); }
		out[i] = s; if (aout) aout[i] = t;
	}
}
// Gauss-Jordan with partial pivoting; false when singular to working precision
static inline bool inverse(const Mat& a, Mat& inv) {
	R w[4][8];  // rows
	for (int i = 0; i < 4; ++i) for (int c = 0; c < 4; ++c) { w[i][c] = a.m[c][i]; w[i][4 + c] = i == c ? 1 : 0; }
	for (int k = 0; k < 4; ++k) {
		int p = k; for (int i = k + 1; i < 4; ++i) if (rabs(w[i][k]) > rabs(w[p][k])) p = i;
		if (w[p][k] == 0) return false;
		if (p != k) for (int c = 0; c < 8; ++c) { R t = w[p][c]; w[p][c] = w[k][c]; w[k][c] = t; }
		R d = 1 / w[k][k];
		for (int c = 0; c < 8; ++c) w[k][c] *= d;
		for (int i = 0; i < 4; ++i) if (i != k && w[i][k] != 0) { R f = w[i][k]; for (int c = 0; c < 8; ++c) w[i][c] -= f * w[k][c]; }
	}
	for (int i = 0; i < 4; ++i) for (int c = 0; c < 4; ++c) { inv.m[c][i] = w[i][4 + c]; if (!(inv.m[c][i] == inv.m[c][i]) || rabs(inv.m[c][i]) > 1e4000L) return false; }
	return true;
}

// (proj*model)^-1 and x = (proj*model)^-1 b in __float128 (113-bit significand), rounded to long double at the end. Gauss-Jordan in long
// double loses kappa(A) 2^-64, and kappa of a strongly off-centre projection times a translation reaches 10^8: not enough below the
// double-precision bounds, which are componentwise and do not grow with kappa. In quad precision the reference error is < 10^-24.
typedef __float128 Q;
static inline bool solve_quad(const Mat& proj, const Mat& model, const R* b, Mat& A_out, Mat& Ai_out, R* x_out) {
	Q w[4][8];
	for (int i = 0; i < 4; ++i) for (int c = 0; c < 4; ++c) {
		Q s = 0; for (int k = 0; k < 4; ++k) s += (Q)proj.m[k][i] * (Q)model.m[c][k];
		w[i][c] = s; w[i][4 + c] = i == c ? 1 : 0; A_out.m[c][i] = (R)s;
	}
	for (int k = 0; k < 4; ++k) {
		int p = k; Q best = w[k][k] < 0 ? -w[k][k] : w[k][k];
		for (int i = k + 1; i < 4; ++i) { Q v = w[i][k] < 0 ? -w[i][k] : w[i][k]; if (v > best) { best = v; p = i; } }
		if (best == 0) return false;
		if (p != k) for (int c = 0; c < 8; ++c) { Q t = w[p][c]; w[p][c] = w[k][c]; w[k][c] = t; }
		Q d = 1 / w[k][k];
		for (int c = 0; c < 8; ++c) w[k][c] *= d;
		for (int i = 0; i < 4; ++i) if (i != k && w[i][k] != 0) { Q f = w[i][k]; for (int c = 0; c < 8; ++c) w[i][c] -= f * w[k][c]; }
	}
	for (int i = 0; i < 4; ++i) {
		Q s = 0;
		for (int c = 0; c < 4; ++c) { s += w[i][4 + c] * (Q)b[c]; Ai_out.m[c][i] = (R)w[i][4 + c]; if (!(Ai_out.m[c][i] == Ai_out.m[c][i]) || rabs(Ai_out.m[c][i]) > 1e4000L) return false; }
		x_out[i] = (R)s;
	}
	return true;
}

// ---------------------------------------------------------------------------------------------
// A view-volume corner through a matrix: clip = M p, ndc = clip.xyz / clip.w, and the bound of the error that k roundings per
// matrix element (|dM_ij| <= k u |M_ij|: every element of every builder is a quotient/product of at most k correctly rounded
// operations on exact inputs) can cause in ndc:  (k u S_i + |ndc_i| k u S_w) / |w|,  S_i = sum_j |M_ij p_j|.
// This is the "(|l|+|r|)/(r-l)"-type conditioning of DESIGN.md 5.2 computed from the data instead of per formula.
struct Corner { R clip[4], ndc[3], bound[3]; };
template <class T> static inline void through(const Mat& M, const R* p3, int k, Corner& o) {
	R p[4] = {p3[0], p3[1], p3[2], 1}, S[4];
	apply(M, p, o.clip, S);
	R w = o.clip[3], aw = rabs(w), ku = k * U<T>();
	for (int i = 0; i < 3; ++i) {
		o.ndc[i] = o.clip[i] / w;
		o.bound[i] = aw > 0 ? (ku * S[i] + rabs(o.ndc[i]) * ku * S[3]) / aw : (R)INFINITY;
	}
}

// ---------------------------------------------------------------------------------------------
// gluProject in long double + forward error bound of the documented computation in T (two matrix-vector products, the
// perspective divide, the affine maps to [0,1] and to the viewport) + Jacobian d win / d obj.
struct ProjRef { R win[3], err[3], clipw, J[3][3]; bool ok; };
template <class T> static inline void project_ref(const Mat& model, const Mat& proj, const R* obj, const R* vp, bool zo, ProjRef& o) {
	const R u = U<T>();
	R v0[4] = {obj[0], obj[1], obj[2], 1}, t1[4], a1[4], t2[4], a2[4], e1[4], e2[4];
	apply(model, v0, t1, a1);
	for (int i = 0; i < 4; ++i) e1[i] = 5 * u * a1[i];
	apply(proj, t1, t2, a2);
	Mat ap = absm(proj);
	R pe[4]; apply(ap, e1, pe);
	for (int i = 0; i < 4; ++i) e2[i] = pe[i] + 5 * u * a2[i];
	R w = t2[3], aw = rabs(w);
	o.clipw = w;
	o.ok = aw > 0 && e2[3] < aw / 16;
	if (!o.ok) return;
	R ndc[3], en[3];
	for (int i = 0; i < 3; ++i) { ndc[i] = t2[i] / w; en[i] = (e2[i] + rabs(ndc[i]) * e2[3]) / aw + u * rabs(ndc[i]); }
	R s[3], es[3];
	for (int i = 0; i < 3; ++i) {
		if (i == 2 && zo) { s[i] = ndc[i]; es[i] = en[i]; }
		else { s[i] = ndc[i] * 0.5L + 0.5L; es[i] = 0.5L * en[i] + u * rabs(s[i]); }
	}
	o.win[0] = s[0] * vp[2] + vp[0]; o.err[0] = es[0] * rabs(vp[2]) + u * rabs(s[0] * vp[2]) + u * rabs(o.win[0]);
	o.win[1] = s[1] * vp[3] + vp[1]; o.err[1] = es[1] * rabs(vp[3]) + u * rabs(s[1] * vp[3]) + u * rabs(o.win[1]);
	o.win[2] = s[2]; o.err[2] = es[2];
	Mat A = mul(proj, model);
	const R sc[3] = {0.5L * vp[2], 0.5L * vp[3], zo ? 1.0L : 0.5L};
	for (int i = 0; i < 3; ++i) for (int j = 0; j < 3; ++j) o.J[i][j] = sc[i] * (A.m[j][i] - ndc[i] * A.m[j][3]) / w;
}

// gluUnProject: exact solve of (proj*model) x = ndc4 (quad precision, solve_quad) + error bound + Jacobian d obj / d win.
// Bound = forward error of the documented computation "inverse(proj*model) * ndc, then divide" with the inverse formed by
// cofactors (Cramer's rule, what glm::inverse does and what its error behaves like, DESIGN.md finding #17):
//   * the product A = proj*model is rounded in T: |dA| <= 5u |proj||model|, which moves x by <= |A^-1| |dA| |x|;
//   * every cofactor is a signed sum of 6 triple products, the determinant a sum of 24 quadruple products; their rounding errors
//     are relative to the sums of the ABSOLUTE values of those products (the permanents of the |minors|), so
//     |dx_i| <= c u ( sum_j perm3(|minor_ji|) |b_j| + |x_i| perm4(|A|) ) / |det A|;
//   * the window -> ndc map adds eb.
// Cancellation inside the cofactors (badly scaled, strongly off-centre frusta) therefore widens the bound instead of raising alarms.
static inline void minor3(const Mat& a, int row, int col, R q[3][3]) {  // rows/cols of a without `row`, `col`; q[r][c], a.m[col][row]
	int rr = 0;
	for (int i = 0; i < 4; ++i) { if (i == row) continue; int cc = 0; for (int c = 0; c < 4; ++c) { if (c == col) continue; q[rr][cc++] = a.m[c][i]; } ++rr; }
}
static inline R det3q(const R q[3][3]) { return q[0][0] * (q[1][1] * q[2][2] - q[1][2] * q[2][1]) - q[0][1] * (q[1][0] * q[2][2] - q[1][2] * q[2][0]) + q[0][2] * (q[1][0] * q[2][1] - q[1][1] * q[2][0]); }
static inline R perm3q(const R q[3][3]) {
	R a[3][3]; for (int i = 0; i < 3; ++i) for (int j = 0; j < 3; ++j) a[i][j] = rabs(q[i][j]);
	return a[0][0] * (a[1][1] * a[2][2] + a[1][2] * a[2][1]) + a[0][1] * (a[1][0] * a[2][2] + a[1][2] * a[2][0]) + a[0][2] * (a[1][0] * a[2][1] + a[1][1] * a[2][0]);
}
struct UnprojRef { R obj[3], err[3], J[3][3]; bool ok; };
template <class T> static inline void unproject_ref(const Mat& model, const Mat& proj, const R* win, const R* vp, bool zo, UnprojRef& o, R cfac = 8) {
	const R u = U<T>();
	Mat PM = mul(absm(proj), absm(model));
	R b[4], eb[4], ab[4];
	R qx = (win[0] - vp[0]) / vp[2], qy = (win[1] - vp[1]) / vp[3];
	b[0] = 2 * qx - 1; eb[0] = u * (4 * rabs(qx) + rabs(b[0]));
	b[1] = 2 * qy - 1; eb[1] = u * (4 * rabs(qy) + rabs(b[1]));
	if (zo) { b[2] = win[2]; eb[2] = 0; } else { b[2] = 2 * win[2] - 1; eb[2] = u * rabs(b[2]); }
	b[3] = 1; eb[3] = 0;
	for (int i = 0; i < 4; ++i) ab[i] = rabs(b[i]);
	R x[4], ax[4], g[4], h[4], E[4];
	Mat A, Ai;
	o.ok = solve_quad(proj, model, b, A, Ai, x);
	if (!o.ok) return;
	Mat aAi = absm(Ai);
	for (int i = 0; i < 4; ++i) ax[i] = rabs(x[i]);
	apply(PM, ax, g);
	for (int i = 0; i < 4; ++i) h[i] = 5 * u * g[i] + eb[i];
	apply(aAi, h, E);
	// cofactor part
	R det = 0, perm4 = 0, PB[4] = {0, 0, 0, 0};
	for (int i = 0; i < 4; ++i) for (int j = 0; j < 4; ++j) {  // adj_ij = (-1)^(i+j) det(minor without row j, column i)
		R q[3][3]; minor3(A, j, i, q);
		R p3 = perm3q(q);
		PB[i] += p3 * ab[j];
		if (j == 0) { R d3 = det3q(q); det += A.m[i][0] * (((i + j) & 1) ? -d3 : d3); perm4 += rabs(A.m[i][0]) * p3; }  // expansion along row 0: a_0i * cof_0i, cof_0i = adj_i0
	}
	R adet = rabs(det);
	o.ok = adet > 0;
	if (!o.ok) return;
	for (int i = 0; i < 4; ++i) E[i] += cfac * u * (PB[i] + ax[i] * perm4) / adet;
	R w = x[3], aw = rabs(w);
	o.ok = aw > 0 && E[3] < aw / 16;
	if (!o.ok) return;
	for (int i = 0; i < 3; ++i) { o.obj[i] = x[i] / w; o.err[i] = (E[i] + rabs(o.obj[i]) * E[3]) / aw + u * rabs(o.obj[i]); }
	const R sc[3] = {2 / vp[2], 2 / vp[3], zo ? 1.0L : 2.0L};
	for (int i = 0; i < 3; ++i) for (int j = 0; j < 3; ++j) o.J[i][j] = sc[j] * (Ai.m[j][i] - o.obj[i] * Ai.m[j][3]) / w;
}

// ---------------------------------------------------------------------------------------------
// generators (all randomness from pbt::Ctx; smaller draws = simpler parameters)

// interval lo < hi (left/right, bottom/top)
enum { IV_SYM_INT, IV_INT, IV_SYM, IV_ZERO_SIDE, IV_SCREEN, IV_OFF, IV_FAR_OFF, IV_N };
static const char* const IVX_NAME[] = {"x:symmetric small-int", "x:small-int", "x:symmetric", "x:one side 0", "x:screen 0..N", "x:off-centre", "x:far off-centre (|c|>2w)"};
static const char* const IVY_NAME[] = {"y:symmetric small-int", "y:small-int", "y:symmetric", "y:one side 0", "y:screen 0..N", "y:off-centre", "y:far off-centre (|c|>2w)"};
template <class T> static inline int gen_interval(pbt::Ctx& c, T& lo, T& hi) {
	int k = (int)c.draw(9), cls;
	switch (k) {
	case 0: cls = IV_SYM_INT; hi = (T)c.range(1, 8); lo = -hi; break;
	case 1: cls = IV_INT; lo = (T)c.range(-8, 7); hi = lo + (T)c.range(1, 8); break;
	case 2: cls = IV_SYM; hi = (T)c.loguniform(1e-3, 1e4); lo = -hi; break;
	case 3: { cls = IV_ZERO_SIDE; T w = (T)c.loguniform(1e-3, 1e4); if (c.coin()) { lo = 0; hi = w; } else { lo = -w; hi = 0; } break; }
	case 4: cls = IV_SCREEN; lo = 0; hi = (T)c.range(1, 4096); if (c.draw(4) == 0) { lo = hi; hi = 0; lo = -lo; } break;
	case 8: { cls = IV_FAR_OFF; double w = c.loguniform(1e-3, 1e3), ce = c.loguniform(2.0, 100.0) * w; if (c.coin()) ce = -ce; lo = (T)(ce - 0.5 * w); hi = (T)(ce + 0.5 * w); break; }
	default: { cls = IV_OFF; double w = c.loguniform(1e-3, 1e4), ce = c.uniform(-2.0, 2.0) * w; lo = (T)(ce - 0.5 * w); hi = (T)(ce + 0.5 * w); break; }
	}
	if (!(lo < hi) || !fp::is_finite(lo) || !fp::is_finite(hi)) { lo = -1; hi = 1; cls = IV_SYM_INT; }
	return cls;
}

// 0 < near < far
enum { DP_N1_INT, DP_POW2, DP_TABLE, DP_LOG, DP_TIGHT, DP_N };
static const char* const DP_NAME[] = {"depth:n=1,f int", "depth:powers of two", "depth:table (0.1,100)...", "depth:log-uniform n, f/n in (1.001,1e6)", "depth:tight f/n in (1.001,2)"};
template <class T> static inline int gen_depth(pbt::Ctx& c, T& n, T& f) {
	int k = (int)c.draw(7), cls;
	switch (k) {
	case 0: cls = DP_N1_INT; n = 1; f = (T)c.range(2, 1000); break;
	case 1: cls = DP_POW2; { int e = (int)c.range(-10, 6); n = (T)std::ldexp(1.0, e); f = (T)std::ldexp(1.0, e + (int)c.range(1, 20)); } break;
	case 2: { cls = DP_TABLE; static const double TB[][2] = {{0.1, 100.0}, {0.01, 1000.0}, {1.0, 10.0}, {0.5, 50.0}, {0.1, 10.0}, {1.0, 1000.0}, {0.001, 100.0}, {5.0, 5000.0}}; int i = (int)c.draw(8); n = (T)TB[i][0]; f = (T)TB[i][1]; break; }
	case 3: { cls = DP_TIGHT; double nn = c.loguniform(1e-3, 1e4); n = (T)nn; f = (T)(nn * (1.0 + c.loguniform(1e-3, 1.0))); break; }
	default: { cls = DP_LOG; double nn = c.loguniform(1e-3, 1e4); n = (T)nn; f = (T)(nn * c.loguniform(1.001, 1e6)); break; }
	}
	if (!(n > 0) || !(n < f) || !fp::is_finite(f)) { n = 1; f = 2; cls = DP_N1_INT; }
	return cls;
}
template <class T> static inline T gen_near(pbt::Ctx& c) {
	switch (c.draw(4)) {
	case 0: return (T)1;
	case 1: return (T)std::ldexp(1.0, (int)c.range(-10, 6));
	case 2: { static const double TB[] = {0.1, 0.01, 0.5, 0.001, 5.0, 0.3}; return (T)TB[c.draw(6)]; }
	default: return (T)c.loguniform(1e-3, 1e4);
	}
}

// 0 < fov < pi
enum { FV_TABLE, FV_UNIFORM, FV_NEAR0, FV_NEARPI, FV_N };
static const char* const FV_NAME[] = {"fov:table (pi/4, pi/3, pi/2 ...)", "fov:uniform (0.05,3)", "fov:near 0 (1e-3..0.05)", "fov:near pi (pi-0.1..pi-1e-3)"};
template <class T> static inline int gen_fov(pbt::Ctx& c, T& fov) {
	int k = (int)c.draw(6), cls;
	switch (k) {
	case 0: { cls = FV_TABLE; static const double TB[] = {0.78539816339744830962, 1.04719755119659774615, 1.57079632679489661923, 0.52359877559829887308, 1.0, 2.0, 0.5, 1.2217304763960307, 2.0943951023931953}; fov = (T)TB[c.draw(9)]; break; }
	case 1: cls = FV_NEAR0; fov = (T)c.loguniform(1e-3, 0.05); break;
	case 2: cls = FV_NEARPI; fov = (T)(3.14159265358979323846 - c.loguniform(1e-3, 0.1)); break;
	default: cls = FV_UNIFORM; fov = (T)c.uniform(0.05, 3.0); break;
	}
	if (!(fov > 0) || !((R)fov < PI)) { fov = 1; cls = FV_TABLE; }
	return cls;
}

// aspect > 0 (and != epsilon<T>(), the asserted precondition of perspective*)
enum { AS_TABLE, AS_ONE, AS_LOG, AS_RATIO, AS_N };
static const char* const AS_NAME[] = {"aspect:table (4/3, 16/9 ...)", "aspect:1", "aspect:log-uniform (0.1,10)", "aspect:w/h of integers"};
template <class T> static inline int gen_aspect(pbt::Ctx& c, T& a) {
	int k = (int)c.draw(5), cls;
	switch (k) {
	case 0: { cls = AS_TABLE; static const double TB[] = {4.0 / 3.0, 16.0 / 9.0, 1.6, 0.5, 2.0, 9.0 / 16.0, 0.75, 1.25}; a = (T)TB[c.draw(8)]; break; }
	case 1: cls = AS_ONE; a = 1; break;
	case 2: cls = AS_RATIO; a = (T)((double)c.range(1, 4096) / (double)c.range(1, 4096)); break;
	default: cls = AS_LOG; a = (T)c.loguniform(0.1, 10.0); break;
	}
	if (!(a > 0) || !fp::is_finite(a)) { a = 1; cls = AS_ONE; }
	return cls;
}

// width, height > 0
enum { WH_TABLE, WH_INT, WH_LOG, WH_N };
static const char* const WH_NAME[] = {"size:table (640x480 ...)", "size:integers 1..4096", "size:log-uniform (0.5,5000)"};
template <class T> static inline int gen_size(pbt::Ctx& c, T& w, T& h) {
	int k = (int)c.draw(4), cls;
	switch (k) {
	case 0: { cls = WH_TABLE; static const int TB[][2] = {{640, 480}, {1920, 1080}, {1, 1}, {800, 600}, {1080, 1920}, {1280, 720}, {512, 512}, {3, 2}}; int i = (int)c.draw(8); w = (T)TB[i][0]; h = (T)TB[i][1]; break; }
	case 1: cls = WH_INT; w = (T)c.range(1, 4096); h = (T)c.range(1, 4096); break;
	default: cls = WH_LOG; w = (T)c.loguniform(0.5, 5000.0); h = (T)c.loguniform(0.5, 5000.0); break;
	}
	return cls;
}

// viewport (x, y, width, height), width/height > 0; integer-valued when `integral`
enum { VP_ORIGIN0, VP_OFFSET, VP_FRACTIONAL, VP_N };
static const char* const VP_NAME[] = {"viewport:origin (0,0)", "viewport:non-zero origin", "viewport:non-integer origin/size"};
static inline int gen_viewport(pbt::Ctx& c, bool integral, double* vp) {
	int k = (int)c.draw(integral ? 4 : 5), cls;
	if (k == 0) { cls = VP_ORIGIN0; vp[0] = vp[1] = 0; }
	else if (k <= 3) { cls = VP_OFFSET; vp[0] = (double)c.range(-100, 2000); vp[1] = (double)c.range(-100, 2000); if (vp[0] == 0 && vp[1] == 0) vp[0] = 7; }
	else { cls = VP_FRACTIONAL; vp[0] = c.uniform(-100.0, 2000.0); vp[1] = c.uniform(-100.0, 2000.0); }
	if (cls == VP_FRACTIONAL) { vp[2] = c.loguniform(1.0, 4096.0); vp[3] = c.loguniform(1.0, 4096.0); }
	else if (c.coin()) { static const int TB[][2] = {{640, 480}, {1920, 1080}, {1, 1}, {800, 600}, {256, 256}, {1280, 720}, {2, 3}, {4096, 2160}}; int i = (int)c.draw(8); vp[2] = TB[i][0]; vp[3] = TB[i][1]; }
	else { vp[2] = (double)c.range(1, 4096); vp[3] = (double)c.range(1, 4096); }
	return cls;
}

// model matrix: rigid transform (optionally with a uniform power-of-two scale), built in long double
enum { MD_IDENTITY, MD_TRANSLATE, MD_AXIS, MD_RIGID, MD_RIGID_SCALED, MD_N };
static const char* const MD_NAME[] = {"model:identity", "model:translation", "model:axis rotation+translation", "model:rigid (random rotation)", "model:rigid x uniform scale"};
static inline int gen_model(pbt::Ctx& c, Mat& M) {
	M = ident();
	int k = (int)c.draw(6), cls;
	if (k == 0) return MD_IDENTITY;
	R t[3];
	if (c.coin()) for (int i = 0; i < 3; ++i) t[i] = (R)c.range(-8, 8); else for (int i = 0; i < 3; ++i) t[i] = (R)c.uniform(-50.0, 50.0);
	if (k == 1) cls = MD_TRANSLATE;
	else {
		R q[4];
		if (k == 2) {
			cls = MD_AXIS;
			static const double AN[] = {1.57079632679489661923, 3.14159265358979323846, 0.78539816339744830962, 0.3, -1.0, 2.5};
			R a = (R)AN[c.draw(6)]; int ax = (int)c.draw(3);
			q[0] = cosl(a / 2); q[1] = q[2] = q[3] = 0; q[1 + ax] = sinl(a / 2);
		} else {
			cls = k == 5 ? MD_RIGID_SCALED : MD_RIGID;
			R n = 0;
			for (int i = 0; i < 4; ++i) { q[i] = (R)c.uniform(-1.0, 1.0); n += q[i] * q[i]; }
			if (n < 1e-6L) { q[0] = 1; q[1] = q[2] = q[3] = 0; n = 1; }
			n = sqrtl(n); for (int i = 0; i < 4; ++i) q[i] /= n;
		}
		R w = q[0], x = q[1], y = q[2], z = q[3];
		M.m[0][0] = 1 - 2 * (y * y + z * z); M.m[0][1] = 2 * (x * y + w * z); M.m[0][2] = 2 * (x * z - w * y);
		M.m[1][0] = 2 * (x * y - w * z); M.m[1][1] = 1 - 2 * (x * x + z * z); M.m[1][2] = 2 * (y * z + w * x);
		M.m[2][0] = 2 * (x * z + w * y); M.m[2][1] = 2 * (y * z - w * x); M.m[2][2] = 1 - 2 * (x * x + y * y);
		if (cls == MD_RIGID_SCALED) { R s = ldexpl(1.0L, (int)c.range(-3, 3)); if (s == 1) s = 3; for (int cc = 0; cc < 3; ++cc) for (int i = 0; i < 3; ++i) M.m[cc][i] *= s; }
	}
	for (int i = 0; i < 3; ++i) M.m[3][i] = t[i];
	return cls;
}
// round every element to T (the matrix handed to GLM and, lifted again, to the reference)
template <class T> static inline void round_to(Mat& M) { for (int c = 0; c < 4; ++c) for (int i = 0; i < 4; ++i) M.m[c][i] = (R)(T)M.m[c][i]; }

// fraction in [0,1]: the end points (volume faces/corners) with probability 1/2
static inline double gen_frac(pbt::Ctx& c, bool* extreme) {
	switch (c.draw(4)) {
	case 0: *extreme = true; return 0.0;
	case 1: *extreme = true; return 1.0;
	default: *extreme = false; return c.unit();
	}
}

}  // namespace refproj
