// refc17.hpp — C17 reference model (no GLM code): the registry of generated accessor / constructor entries, the tag
// fillings, the source-value generator for cross-type constructor arguments and the comparison helpers.
//
// The oracle of C17 is the *name* of the program under test: a swizzle pattern names source indices, a constructor
// signature names a left-to-right flattening of its arguments. Every check below works on raw element arrays
// (`const T*`), so it is independent of GLM's operator[], of its named members and of its constructors.
#pragma once
#include "pbt.hpp"
#include <cstring>
#include <limits>
#include <string>
#include <type_traits>
#include <vector>

namespace c17 {

// ---- registry -----------------------------------------------------------------------------------------------------
enum Kind { K_SWZ_FUNCTION = 0, K_SWZ_FREE, K_SWZ_OPERATOR, K_CTOR_VEC, K_CTOR_MAT, K_CTOR_QUA, K_COUNT };
static const char* const kind_name[K_COUNT] = {"swizzle/function", "swizzle/free", "swizzle/operator", "ctor/vec", "ctor/mat", "ctor/qua"};
enum { FILLINGS = 8 };

struct Entry;
typedef void (*RunFn)(pbt::Ctx&, const Entry&, unsigned fill);
struct Entry {
	int kind;
	const char* name;  // e.g. swizzle/function/float/vec4/wzyx, ctor/vec4<int>(vec2<float>,float,vec1<double>)
	RunFn run;
	const char* note;  // uninstantiable entries: the first compiler error of the syntax-only pre-pass
};
std::vector<Entry>& entries();  // defined once, in props/C17_main.cpp
struct Reg {
	Reg(int kind, const char* name, RunFn run, const char* note = nullptr) { Entry e = {kind, name, run, note}; entries().push_back(e); }
};

// a declared accessor / constructor whose body does not compile: found by the syntax-only pre-pass, kept as a failing entry
static inline void run_uninstantiable(pbt::Ctx& c, const Entry& e, unsigned) {
	c.nontrivial();
	c.cls("uninstantiable");
	c.logf("%s: declared but its body does not compile", e.name);
	c.failk(std::string("uninstantiable/") + e.name, "declared, selected by overload resolution, but does not instantiate: %s", e.note ? e.note : "?");
}
// an accessor / constructor that GLM does not offer (detection idiom / std::is_constructible says no): counted, not judged
static inline void absent(pbt::Ctx& c, const Entry& e) {
	c.cls("absent");
	c.logf("%s: not offered by this configuration", e.name);
}

// ---- bit-level helpers ----------------------------------------------------------------------------------------------
template <class T> static inline bool same(const T& a, const T& b) { return std::memcmp(&a, &b, sizeof(T)) == 0; }
template <> inline bool same<bool>(const bool& a, const bool& b) { return a == b; }  // any non-zero byte pattern is "true" only via 0/1 here

template <class T> static inline std::string show(const T& v) {
	char b[64];
	if (std::is_same<T, bool>::value) snprintf(b, sizeof b, "%s", (bool)v ? "true" : "false");
	else if (std::is_floating_point<T>::value) snprintf(b, sizeof b, "%.9g", (double)v);
	else if (std::is_signed<T>::value) snprintf(b, sizeof b, "%lld", (long long)v);
	else snprintf(b, sizeof b, "%llu", (unsigned long long)v);
	return b;
}
template <class T> static inline std::string show(const T* p, int n) {
	std::string s = "(";
	for (int i = 0; i < n; ++i) { if (i) s += ","; s += show(p[i]); }
	return s + ")";
}

template <class T> static inline bool pairwise_distinct(const T* p, int n) {
	for (int i = 0; i < n; ++i) for (int j = i + 1; j < n; ++j) if (same(p[i], p[j])) return false;
	return true;
}
template <class T> static inline bool all_equal(const T* p, int n) {
	for (int i = 1; i < n; ++i) if (!same(p[i], p[0])) return false;
	return true;
}
// bool vectors cannot carry pairwise distinct tags: one component differs from all others (one-hot or its complement),
// so over the fillings every index is singled out once as `true` and once as `false`.
static inline bool one_differs(const bool* p, int n) {
	int t = 0;
	for (int i = 0; i < n; ++i) t += p[i] ? 1 : 0;
	return n >= 2 && (t == 1 || t == n - 1);
}

// ---- tag fillings: Tag<T>::make(fill, k) is pairwise distinct in k = 0..15 for every fill (bool: one-hot patterns) ----
template <class T, class = void> struct Tag;
template <class T> struct Tag<T, typename std::enable_if<std::is_integral<T>::value && !std::is_same<T, bool>::value>::type> {
	static T make(unsigned f, int k) {
		typedef typename std::make_unsigned<T>::type U;
		const int w = sizeof(T) * 8;
		U v;
		switch (f & 7) {
		case 0: v = (U)(10 + k); break;
		case 1: v = (U)((U) ~(U)0 - (U)(3 * k)); break;                 // top of the unsigned range / small negatives
		case 2: v = (U)(1 + 3 * k); break;
		case 3: v = (U)(((U)1 << (w - 2)) + (U)(5 * k + 1)); break;    // large positive
		case 4: v = (U)(3 + 7 * k); break;
		case 5: v = (U)(100 - 6 * k); break;
		case 6: v = (U)(((U)1 << (w - 1)) + (U)k); break;              // most negative values / above the signed range
		default: v = (U)k; break;                                       // includes 0
		}
		return (T)v;
	}
	// small tags for arithmetic through a swizzle (no overflow in any element type): 2..24, operand 1..3
	static T small(unsigned f, int k) { return (T)(2 + k + (int)(f & 7)); }
	static T operand(unsigned f, int k) { return (T)(1 + ((k + (int)f) % 3)); }
};
template <class T> struct Tag<T, typename std::enable_if<std::is_floating_point<T>::value>::type> {
	static T make(unsigned f, int k) {
		typedef std::numeric_limits<T> L;
		switch (f & 7) {
		case 0: return (T)(10 + k) + (T)0.25;
		case 1: return -(T)(10 + k) - (T)0.5;
		case 2: return (T)(1 + 3 * k) * (T)0.125;
		case 3: {  // distinct bit patterns, including both zeros, infinities, the extremes and a subnormal
			const T tab[16] = {(T)0.0, -(T)0.0, L::infinity(), -L::infinity(), L::denorm_min(), L::max(), L::min(), -L::max(),
			                   (T)1, (T)-1, (T)2, (T)0.5, (T)1e10, (T)-1e-10, (T)3, (T)7};
			return tab[k & 15];
		}
		case 4: return (T)1e6 + (T)(13 * k);
		case 5: return (T)(k + 1) * (T)0.001;
		case 6: return -(T)(k + 1) * (T)1024;
		default: return (T)k;
		}
	}
	static T small(unsigned f, int k) { return (T)(2 + k + (int)(f & 7)) + (T)0.5; }
	static T operand(unsigned f, int k) { return (T)(1 + ((k + (int)f) % 3)); }
};
template <> struct Tag<bool, void> {
	static bool make(unsigned f, int k) { f &= 7; return f < 4 ? (k % 4 == (int)f) : (k % 4 != (int)f - 4); }
	static bool small(unsigned f, int k) { return make(f, k); }
	static bool operand(unsigned, int) { return true; }
};

// ---- constructor argument values -------------------------------------------------------------------------------------
// Scalar number j of the left-to-right flattening, of type U, destined for an element type of class `dc`.
// Values stay inside the range where static_cast<T>(U) is defined for every (U,T): magnitudes 1..83 (plus a fraction for
// floating sources, so that truncation towards zero is observable), negative only where the conversion is defined
// (never floating -> unsigned). bool destinations get zeros among the sources; bool sources follow a fixed bit pattern.
enum DestClass { DC_BOOL = 0, DC_UNSIGNED = 1, DC_SIGNED = 2, DC_FLOAT = 3 };
template <class T> struct dest_class {
	static const int value = std::is_same<T, bool>::value ? DC_BOOL : std::is_floating_point<T>::value ? DC_FLOAT : std::is_signed<T>::value ? DC_SIGNED : DC_UNSIGNED;
};
template <class U> static inline U src_value(unsigned f, int j, int dc) {
	f &= 7;
	if (std::is_same<U, bool>::value) return (U)((0xB4D2u >> ((j * 3 + (int)f * 5) % 16)) & 1u);
	int m = 1 + (int)f + j * (1 + 2 * ((int)f % 3));  // 1 .. 8+15*5 = 83, strictly increasing in j
	if (dc == DC_BOOL && (j + (int)f) % 3 == 0) m = 0;
	bool neg = (f & 1) && std::is_signed<U>::value && !(std::is_floating_point<U>::value && dc == DC_UNSIGNED);
	if (std::is_floating_point<U>::value) {
		double frac = (m == 0) ? 0.0 : (f == 6 ? 0.1 : (f & 2) ? 0.75 : 0.25);
		double v = (double)m + frac;
		return (U)(neg ? -v : v);
	}
	// filling 7, wide integer source, floating destination: values above 2^25 whose low bits do not survive the conversion to float
	// (2^25 + 3 + j (2^26 + 16): the dropped bits are 011 / 10011 ...), so that the *rounding* of an integer-to-float constructor is
	// exercised, not only the placement of its arguments; the oracle stays static_cast<T>(value)
	if (f == 7 && dc == DC_FLOAT && sizeof(U) >= 4 && !std::is_floating_point<U>::value) {
		long long w = (1LL << 25) + 3 + (long long)j * ((1LL << 26) + 16);
		if (!std::is_signed<U>::value && (j & 1)) w = 0x80000081LL + (long long)j * 0x01000400LL;  // unsigned sources: every other value has its top bit set (a signed conversion would go negative)
		return (U)(neg ? -w : w);
	}
	return (U)(neg ? -m : m);
}

// ---- reading a swizzle -------------------------------------------------------------------------------------------------
// src: L source components, got: N result components, idx: the pattern. Expected got[k] == src[idx[k]] bit for bit.
template <class T> static inline bool check_select(pbt::Ctx& c, const Entry& e, const char* sub, const T* src, int L, const T* got, int N, const int* idx) {
	bool ok = true;
	for (int k = 0; k < N; ++k) if (!same(got[k], src[idx[k]])) ok = false;
	if (!ok) {
		T exp[4];
		for (int k = 0; k < N; ++k) exp[k] = src[idx[k]];
		c.failk(std::string(e.name) + sub, "source %s: got %s, the pattern names %s", show(src, L).c_str(), show(got, N).c_str(), show(exp, N).c_str());
	}
	return ok;
}
// after a store through a swizzle: component idx[k] == val[k] for k < N, every other component unchanged
template <class T> static inline bool check_place(pbt::Ctx& c, const Entry& e, const char* sub, const T* before, const T* after, int L, const T* val, int N, const int* idx) {
	T exp[4];
	for (int i = 0; i < L; ++i) exp[i] = before[i];
	for (int k = 0; k < N; ++k) exp[idx[k]] = val[k];
	bool ok = true;
	for (int i = 0; i < L; ++i) if (!same(after[i], exp[i])) ok = false;
	if (!ok) c.failk(std::string(e.name) + sub, "vector %s, operand %s: afterwards %s, expected %s", show(before, L).c_str(), show(val, N).c_str(), show(after, L).c_str(), show(exp, L).c_str());
	return ok;
}

// ---- constructor expectation ---------------------------------------------------------------------------------------------
// flat[0..n): static_cast<T> images of the argument scalars in left-to-right order; placement rule -> expected components.
enum Mode {
	M_SEQ = 0,    // n == count: component k = flat[k]
	M_BROADCAST,  // n == 1: every component = flat[0]
	M_TRUNC,      // n > count: the first `count` scalars
	M_DIAG,       // matrix from one scalar: flat[0] on the diagonal, 0 elsewhere
	M_SHAPE,      // matrix from a matrix of another shape: overlapping block copied, the rest from the identity
	M_QUA_XYZW    // quaternion from four scalars declared (x, y, z, w) (GLM_FORCE_QUAT_DATA_XYZW): named components, flat = x,y,z,w
};
template <class T> struct Flat {
	T v[16];
	int n;
	unsigned fill;
	int j;  // running scalar index
	Flat(unsigned f) : n(0), fill(f), j(0) {}
};

// Expected destination components (vector: index order; matrix: column-major with R rows; quaternion: w,x,y,z) from the
// flattened argument scalars. Returns false when the number of scalars does not fit the mode (a generator bug, not GLM's).
template <class T> static inline bool expected_components(T* exp, int count, int R, int mode, int SC, int SR, const Flat<T>& fl) {
	switch (mode) {
	case M_SEQ:
		if (fl.n != count) return false;
		for (int k = 0; k < count; ++k) exp[k] = fl.v[k];
		return true;
	case M_BROADCAST:
		if (fl.n != 1) return false;
		for (int k = 0; k < count; ++k) exp[k] = fl.v[0];
		return true;
	case M_TRUNC:
		if (fl.n <= count) return false;
		for (int k = 0; k < count; ++k) exp[k] = fl.v[k];
		return true;
	case M_DIAG:
		if (fl.n != 1) return false;
		for (int k = 0; k < count; ++k) exp[k] = (k / R == k % R) ? fl.v[0] : T(0);
		return true;
	case M_SHAPE:
		if (fl.n != SC * SR) return false;
		for (int k = 0; k < count; ++k) {
			int col = k / R, row = k % R;
			exp[k] = (col < SC && row < SR) ? fl.v[col * SR + row] : (col == row ? T(1) : T(0));
		}
		return true;
	case M_QUA_XYZW:
		if (fl.n != 4 || count != 4) return false;
		exp[0] = fl.v[3]; exp[1] = fl.v[0]; exp[2] = fl.v[1]; exp[3] = fl.v[2];
		return true;
	}
	return false;
}

template <class T> static inline void classify_ctor(pbt::Ctx& c, const T* exp, int count, int mode, bool bool_involved) {
	if (mode == M_BROADCAST || mode == M_DIAG) {  // one scalar decides everything: observable when it is not zero
		if (!same(exp[0], T(0))) { c.nontrivial(); c.cls("single-scalar-nonzero"); } else c.cls("single-scalar-zero");
		return;
	}
	if (count == 1) { c.nontrivial(); c.cls("one-component"); return; }
	if (pairwise_distinct(exp, count)) { c.nontrivial(); c.cls("images-distinct"); }
	else if (bool_involved && !all_equal(exp, count)) { c.nontrivial(); c.cls("bool-mixed"); }
	else c.cls(bool_involved ? "bool-all-equal" : "images-collide");
}

}  // namespace c17
