// refcommon.hpp — reference models of the GLSL "common functions" (GLSL 4.20 section 8.3 as quoted in
// glm/common.hpp) written on the IEEE-754 encoding: integer arithmetic on sign / exponent / mantissa plus single
// correctly rounded IEEE operations (+ - * /). No GLM code, none of the libm rounding / decomposition functions
// (floor ceil trunc round rint modf frexp ldexp fmod fmin fmax) that GLM forwards to.
#pragma once
#include <cstdint>
#include <cstring>
#include <limits>

namespace refc {

template <class T> struct FB;
template <> struct FB<float> { typedef uint32_t U; typedef int32_t S; enum { MANT = 23, EXPB = 8, BIAS = 127 }; static const char* name() { return "float"; } };
template <> struct FB<double> { typedef uint64_t U; typedef int64_t S; enum { MANT = 52, EXPB = 11, BIAS = 1023 }; static const char* name() { return "double"; } };

template <class T> static inline typename FB<T>::U bits(T x) { typename FB<T>::U u; memcpy(&u, &x, sizeof x); return u; }
template <class T> static inline T frombits(typename FB<T>::U u) { T x; memcpy(&x, &u, sizeof x); return x; }
template <class T> static inline typename FB<T>::U signmask() { return (typename FB<T>::U)1 << (sizeof(T) * 8 - 1); }
template <class T> static inline int expfield(T x) { return (int)((bits(x) >> FB<T>::MANT) & (((typename FB<T>::U)1 << FB<T>::EXPB) - 1)); }
template <class T> static inline typename FB<T>::U mantfield(T x) { return bits(x) & (((typename FB<T>::U)1 << FB<T>::MANT) - 1); }
template <class T> static inline int expmax() { return (1 << FB<T>::EXPB) - 1; }
template <class T> static inline bool is_nan(T x) { return expfield(x) == expmax<T>() && mantfield(x) != 0; }
template <class T> static inline bool is_inf(T x) { return expfield(x) == expmax<T>() && mantfield(x) == 0; }
template <class T> static inline bool is_finite(T x) { return expfield(x) != expmax<T>(); }
template <class T> static inline bool is_zero(T x) { return (bits(x) & ~signmask<T>()) == 0; }
template <class T> static inline bool is_subnormal(T x) { return expfield(x) == 0 && mantfield(x) != 0; }
template <class T> static inline bool sign_bit(T x) { return (bits(x) & signmask<T>()) != 0; }
template <class T> static inline T fabs(T x) { return frombits<T>(bits(x) & ~signmask<T>()); }
template <class T> static inline T pow2(int e) { return frombits<T>((typename FB<T>::U)(e + FB<T>::BIAS) << FB<T>::MANT); }  // normal range only

// integer part, sign kept (-0.3 -> -0); inf and NaN are returned unchanged
template <class T> static inline T trunc(T x) {
	typedef typename FB<T>::U U;
	int be = expfield(x), e = be - FB<T>::BIAS;
	if (be == expmax<T>()) return x;
	if (e < 0) return frombits<T>(bits(x) & signmask<T>());
	if (e >= FB<T>::MANT) return x;
	U fracmask = ((U)1 << (FB<T>::MANT - e)) - 1;
	return frombits<T>(bits(x) & ~fracmask);
}
template <class T> static inline bool isinteger(T x) { return is_finite(x) && trunc(x) == x; }
// |t| < 2^MANT whenever t != x, so t +- 1 below is exact
template <class T> static inline T floor(T x) { T t = trunc(x); return (x < T(0) && t != x) ? t - T(1) : t; }
template <class T> static inline T ceil(T x) { T t = trunc(x); return (x > T(0) && t != x) ? t + T(1) : t; }
// fractional distance from the integer part, exact (|x - trunc(x)| < 1 and a multiple of ulp(x))
template <class T> static inline T fracdist(T x) { return is_finite(x) ? fabs(x - trunc(x)) : T(0); }
template <class T> static inline bool istie(T x) { return is_finite(x) && fracdist(x) == T(0.5); }
template <class T> static inline bool iseven(T t) { T h = t * T(0.5); return trunc(h) == h; }  // t an integer value
template <class T> static inline T round_away(T x) {
	T t = trunc(x);
	if (!is_finite(x)) return x;
	if (fracdist(x) >= T(0.5)) return sign_bit(x) ? t - T(1) : t + T(1);
	return t;
}
template <class T> static inline T round_even(T x) {
	T t = trunc(x);
	if (!is_finite(x)) return x;
	T d = fracdist(x);
	if (d > T(0.5) || (d == T(0.5) && !iseven(t))) return sign_bit(x) ? t - T(1) : t + T(1);
	return t;
}

// everything the rounding family needs, computed once
template <class T> struct Rounded { T t, fl, ce, away, even, d; bool fin, tie, integer; };
template <class T> static inline Rounded<T> rounded(T x) {
	Rounded<T> r;
	r.fin = is_finite(x); r.t = trunc(x);
	if (!r.fin) { r.fl = r.ce = r.away = r.even = x; r.d = T(0); r.tie = r.integer = false; return r; }
	r.d = fabs(x - r.t); r.integer = r.d == T(0); r.tie = r.d == T(0.5);
	const bool neg = sign_bit(x);
	const T out = neg ? r.t - T(1) : r.t + T(1);  // the integer neighbour away from zero
	r.fl = (neg && !r.integer) ? out : r.t;
	r.ce = (!neg && !r.integer) ? out : r.t;
	r.away = r.d >= T(0.5) ? out : r.t;
	r.even = (r.d > T(0.5) || (r.tie && !iseven(r.t))) ? out : r.t;
	return r;
}

// frexp: x = sig * 2^e with |sig| in [0.5,1); zero -> (zero, 0). x finite.
template <class T> static inline T frexp(T x, int* e) {
	typedef typename FB<T>::U U;
	if (is_zero(x) || !is_finite(x)) { *e = 0; return x; }
	U m = mantfield(x); int be = expfield(x);
	if (be == 0) {  // subnormal: normalise
		be = 1;
		while (!(m >> FB<T>::MANT)) { m <<= 1; --be; }
		m &= ((U)1 << FB<T>::MANT) - 1;
	}
	*e = be - (FB<T>::BIAS - 1);
	return frombits<T>((bits(x) & signmask<T>()) | ((U)(FB<T>::BIAS - 1) << FB<T>::MANT) | m);
}

// 2^e as an x87 extended value, e in [-16382, 16383] (built from the encoding, no libm)
static inline long double pow2l(int e) {
	long double v = 0;
	struct { uint64_t m; uint16_t se; } r = {0x8000000000000000ULL, (uint16_t)(e + 16383)};
	memcpy(&v, &r, 10);
	return v;
}
// exact value of x * 2^e as long double for finite x and |e| <= 3000 (24/53-bit significand, no rounding)
template <class T> static inline long double scale2(T x, int e) { return (long double)x * pow2l(e); }

// exact floating-point remainder with the sign of x: x - y*trunc(x/y) as a real number (always representable).
// x, y finite, y != 0. Long division on the integer significands.
template <class T> static inline T fmod_exact(T x, T y) {
	typedef typename FB<T>::U U;
	T ax = fabs(x), ay = fabs(y);
	if (ax < ay) return x;
	if (is_zero(x)) return x;
	// ax = mx * 2^ex, ay = my * 2^ey with integer mx,my
	auto split = [](T v, U* m, int* e) {
		int be = expfield(v); U mm = mantfield(v);
		if (be == 0) { *m = mm; *e = 1 - FB<T>::BIAS - FB<T>::MANT; } else { *m = mm | ((U)1 << FB<T>::MANT); *e = be - FB<T>::BIAS - FB<T>::MANT; }
	};
	U mx, my; int ex, ey;
	split(ax, &mx, &ex); split(ay, &my, &ey);
	// ax >= ay. Bring both to the common exponent min(ex,ey) without overflowing 128 bits: if ey > ex then
	// my*2^(ey-ex) <= mx < 2^(MANT+1), so the shift is small.
	unsigned __int128 r;
	int eres;
	if (ey >= ex) { unsigned __int128 Y = (unsigned __int128)my << (ey - ex); r = (unsigned __int128)mx % Y; eres = ex; }
	else {
		r = (unsigned __int128)mx % my;
		for (int i = 0; i < ex - ey; ++i) { r = (r << 1) % my; }
		eres = ey;
	}
	// r * 2^eres, r < 2^(MANT+1): exact in T (long double product of an integer and a power of two)
	long double v = (long double)(uint64_t)r * pow2l(eres);
	T res = (T)v;
	return sign_bit(x) ? -res : res;
}

// the value k such that min/max/clamp/step are defined as in the GLSL text
template <class T> static inline T min2(T x, T y) { return (y < x) ? y : x; }
template <class T> static inline T max2(T x, T y) { return (x < y) ? y : x; }

}  // namespace refc
