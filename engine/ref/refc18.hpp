// refc18.hpp — reference models and reporting helpers for C18 (power-of-two, multiple, bitfield utilities).
// No GLM code. Everything is a direct loop over the mathematical definition, evaluated in a type wide
// enough (int64 for <=32-bit element types, __int128 for 64-bit) that the mathematical value exists before
// representability in the element type is decided.
#pragma once
#include "pbt.hpp"
#include "refint.hpp"
#include <cstdint>
#include <cstdio>
#include <limits>
#include <string>
#include <type_traits>

namespace c18 {

typedef __int128 i128;
typedef unsigned __int128 u128;

template <class T> struct WideOf { typedef typename std::conditional<(sizeof(T) <= 4), int64_t, i128>::type type; };

template <class T> struct TN;
#define C18_TN(T, s) template <> struct TN<T> { static const char* name() { return s; } };
C18_TN(int8_t, "int8") C18_TN(uint8_t, "uint8") C18_TN(int16_t, "int16") C18_TN(uint16_t, "uint16")
C18_TN(int32_t, "int32") C18_TN(uint32_t, "uint32") C18_TN(int64_t, "int64") C18_TN(uint64_t, "uint64")
C18_TN(long long, "int64") C18_TN(unsigned long long, "uint64")
C18_TN(float, "float") C18_TN(double, "double")
#undef C18_TN

template <class T> static inline unsigned long long ull(T v) { return (unsigned long long)(typename std::make_unsigned<T>::type)v; }

// decimal rendering of any integer up to 128 bits (failure / log path only)
static inline const char* dec128(i128 v) {
	static thread_local char ring[16][48];
	static thread_local int at = 0;
	char* b = ring[at = (at + 1) & 15];
	char tmp[48]; int n = 0; bool neg = v < 0; u128 u = neg ? (u128)0 - (u128)v : (u128)v;
	do { tmp[n++] = (char)('0' + (int)(u % 10)); u /= 10; } while (u);
	int k = 0; if (neg) b[k++] = '-';
	while (n) b[k++] = tmp[--n];
	b[k] = 0;
	return b;
}
template <class T> static inline const char* D(T v) { return dec128((i128)v); }

// ---- power of two
template <class W> static inline bool isPow2(W x) { if (x <= 0) return false; while ((x & 1) == 0) x >>= 1; return x == 1; }
template <class W> static inline W ceilPow2(W x) { W p = 1; while (p < x) p <<= 1; return p; }        // x >= 1
template <class W> static inline W floorPow2(W x) { W p = 1; while (p * 2 <= x) p <<= 1; return p; }  // x >= 1
template <class W> static inline int floorLog2(W x) { int n = 0; while (x >= 2) { x >>= 1; ++n; } return n; }  // x >= 1
// lowest / highest set bit of the two's complement pattern, as a pattern (0 when none)
template <class T> static inline T lowestBit(T v) { typedef typename std::make_unsigned<T>::type U; for (int i = 0; i < (int)sizeof(T) * 8; ++i) if (refint::bit(v, i)) return (T)(U)((U)1 << i); return 0; }
template <class T> static inline T highestBit(T v) { typedef typename std::make_unsigned<T>::type U; for (int i = (int)sizeof(T) * 8 - 1; i >= 0; --i) if (refint::bit(v, i)) return (T)(U)((U)1 << i); return 0; }

// ---- multiples (m >= 1)
template <class W> static inline W floordiv(W a, W b) { W q = a / b; if ((a % b != 0) && ((a < 0) != (b < 0))) --q; return q; }
template <class W> static inline W floorMul(W x, W m) { return floordiv(x, m) * m; }
template <class W> static inline W ceilMul(W x, W m) { W f = floorMul(x, m); return f == x ? f : f + m; }

// ---- exact integer functions
// x^y if |x^y| <= lim, else sets *over (x^0 = 1 for every x, including 0 and negatives)
static inline int64_t ipow(int64_t x, uint64_t y, int64_t lim, bool* over) {
	*over = false;
	if (y == 0) return 1;
	if (x == 0 || x == 1) return x;
	if (x == -1) return (y & 1) ? -1 : 1;
	i128 r = 1;
	for (uint64_t i = 0; i < y; ++i) {
		r *= x;
		if (r > (i128)lim || r < -(i128)lim - 1) { *over = true; return 0; }
	}
	return (int64_t)r;
}
static inline bool isFloorSqrt(uint64_t x, uint64_t r) { u128 a = (u128)r * r, b = (u128)(r + 1) * (r + 1); return a <= x && x < b; }
static inline int64_t floorMod(int64_t x, int64_t y) { return x - y * floordiv<int64_t>(x, y); }  // y != 0
static inline u128 factorial(int n) { u128 r = 1; for (int i = 2; i <= n; ++i) r *= (u128)i; return r; }
static inline int nlz32(uint32_t x) { int n = 0; for (int i = 31; i >= 0 && !((x >> i) & 1); --i) ++n; return n; }

// ---- bit patterns
template <class T> static inline T maskOf(int n) { typedef typename std::make_unsigned<T>::type U; U r = 0; for (int i = 0; i < n && i < (int)sizeof(T) * 8; ++i) r |= (U)((U)1 << i); return (T)r; }
template <class T> static inline T fill(T v, int first, int count, bool one) {
	typedef typename std::make_unsigned<T>::type U; U r = (U)v;
	for (int i = first; i < first + count; ++i) { U m = (U)((U)1 << i); if (one) r |= m; else r &= (U)~m; }
	return (T)r;
}
// bit i of argument k (of n, each `bits` wide) goes to bit n*i + k; positions >= 64 do not exist in the result
static inline uint64_t interleave(const uint64_t* a, int n, int bits) {
	uint64_t r = 0;
	for (int k = 0; k < n; ++k) for (int i = 0; i < bits; ++i) { int p = n * i + k; if (p < 64 && ((a[k] >> i) & 1)) r |= (uint64_t)1 << p; }
	return r;
}
static inline uint64_t deinterleave2(uint64_t w, int k, int bits) { uint64_t r = 0; for (int i = 0; i < bits; ++i) if ((w >> (2 * i + k)) & 1) r |= (uint64_t)1 << i; return r; }

// ---- failure keys `function/type/input-class[/vec]` with a deterministic per-block cap.
// A defect that fails on a large fraction of an exhaustive 2^32 sweep would otherwise spend minutes formatting
// messages. Sweep indices arrive in increasing order inside one 65536-index block handled by one worker, so
// "record at most CAP failures per key per block" is independent of thread scheduling and never drops the first
// failure of a key (the smallest failing index is always recorded).
enum { CAP = 24, MAXKEYS = 512 };
struct Throttle {
	uint64_t block = ~0ULL; int used = 0;
	struct E { const char *f, *t, *k; int vec; uint32_t n; } e[MAXKEYS];
};
inline thread_local Throttle tl_throttle;
static inline void begin_sweep_case(uint64_t index) { uint64_t b = index >> 16; Throttle& t = tl_throttle; if (t.block != b) { t.block = b; t.used = 0; } }
static inline void begin_random_case() { tl_throttle.used = 0; tl_throttle.block = ~0ULL; }
static inline bool allow(const char* f, const char* ty, const char* k, int vec) {
	Throttle& t = tl_throttle;
	for (int i = 0; i < t.used; ++i) { Throttle::E& e = t.e[i]; if (e.f == f && e.t == ty && e.k == k && e.vec == vec) return e.n++ < CAP; }
	if (t.used < MAXKEYS) { Throttle::E& e = t.e[t.used++]; e.f = f; e.t = ty; e.k = k; e.vec = vec; e.n = 1; }
	return true;
}
static inline std::string key(const char* f, const char* ty, const char* k, int vec) {
	std::string s(f); s += '/'; s += ty; if (k && *k) { s += '/'; s += k; } if (vec) s += "/vec"; return s;
}
// f, ty, k must be string literals / static strings (compared by address)
#define C18_FAIL(c, f, ty, k, vec, ...) do { if (c18::allow(f, ty, k, vec)) (c).failk(c18::key(f, ty, k, vec), __VA_ARGS__); else (c).cls("repeat-failures-in-block-not-recorded"); } while (0)

}  // namespace c18
