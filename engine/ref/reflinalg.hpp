// reflinalg.hpp — textbook column-major linear algebra over plain arrays (reference model for C02).
// No GLM code. A matrix with C columns and R rows is e[c][r] (column c, row r), exactly the indexing the property
// statement uses: (A*B)[c][r] = sum_k A[k][r] * B[c][k].
//   integer element types : every sum/product is formed in unsigned __int128 (sign-extended operands, arithmetic
//                           modulo 2^128) and reduced modulo 2^width to the element type = the exact result whenever
//                           it is representable, the modular (wrap-around) result otherwise
//   float / double        : every sum/product is formed in long double (64-bit significand: exact for the small-integer
//                           and dyadic classes); `scale` returns sum |a_k b_k|, the quantity the rounding bound of a
//                           length-K inner product is proportional to (|err| <= K u scale, u = eps/2)
#pragma once
#include <cmath>
#include <cstdint>
#include <cstdio>
#include <cstring>
#include <limits>
#include <string>
#include <type_traits>

namespace reflinalg {

typedef long double R;

template <class T> struct Mx {
	int C, R;
	T e[4][4];
	Mx() : C(0), R(0) { memset(e, 0, sizeof e); }
	Mx(int c, int r) : C(c), R(r) { memset(e, 0, sizeof e); }
};
template <class T> struct Vx {
	int L;
	T e[4];
	Vx() : L(0) { memset(e, 0, sizeof e); }
	explicit Vx(int l) : L(l) { memset(e, 0, sizeof e); }
};

template <class T> struct is_flt { static const bool value = std::is_floating_point<T>::value; };

// ---- exact accumulator: unsigned __int128 modulo 2^128 for integers, long double for floating types
template <class T, bool F = is_flt<T>::value> struct Acc;
template <class T> struct Acc<T, false> {
	typedef unsigned __int128 W;
	static W lift(T v) { return std::is_signed<T>::value ? (W)(__int128)v : (W)v; }  // sign-extend
	static T reduce(W w) { return (T)(typename std::make_unsigned<T>::type)w; }       // modulo 2^width, two's complement
	static W zero() { return 0; }
	static W one() { return 1; }
	static R mag(W) { return 0; }
};
template <class T> struct Acc<T, true> {
	typedef long double W;
	static W lift(T v) { return (W)v; }
	static T reduce(W w) { return (T)w; }
	static W zero() { return 0; }
	static W one() { return 1; }
	static R mag(W w) { return w < 0 ? -w : w; }
};

// ---- one element-wise operation. Integers: exact in 128 bits, reduced modulo 2^width (division: truncating, operands
// sign-extended). Floating types: the single IEEE operation in T itself (correctly rounded; the harness is built with
// SSE arithmetic and -ffp-contract=off), which is what "differs only by the rounding of the individual products and sums" means
// for a result that is one product or one sum.
template <class T> static inline T add1(T a, T b) { if (is_flt<T>::value) return (T)(a + b); typedef Acc<T> A; return A::reduce(A::lift(a) + A::lift(b)); }
template <class T> static inline T sub1(T a, T b) { if (is_flt<T>::value) return (T)(a - b); typedef Acc<T> A; return A::reduce(A::lift(a) - A::lift(b)); }
template <class T> static inline T mul1(T a, T b) { if (is_flt<T>::value) return (T)(a * b); typedef Acc<T> A; return A::reduce(A::lift(a) * A::lift(b)); }
template <class T, bool F = is_flt<T>::value> struct Div1 { static T call(T a, T b) { return (T)(a / b); } };
template <class T> struct Div1<T, false> {
	static T call(T a, T b) {
		typedef Acc<T> A;
		if (std::is_signed<T>::value) return A::reduce((typename A::W)((__int128)a / (__int128)b));
		return A::reduce(A::lift(a) / A::lift(b));
	}
};
template <class T> static inline T div1(T a, T b) { return Div1<T>::call(a, b); }
template <class T> static inline T neg1(T a) { if (is_flt<T>::value) return (T)(-a); typedef Acc<T> A; return A::reduce(A::zero() - A::lift(a)); }

// sum_k a[k]*b[k]; *exact = unrounded value (floating types), *scale = sum |a[k] b[k]|
template <class T> static inline T inner(const T* a, const T* b, int K, R* exact = nullptr, R* scale = nullptr) {
	typedef Acc<T> A;
	typename A::W s = A::zero();
	R sc = 0;
	for (int k = 0; k < K; ++k) { typename A::W p = A::lift(a[k]) * A::lift(b[k]); s += p; sc += A::mag(p); }
	if (exact) *exact = is_flt<T>::value ? (R)s : 0;
	if (scale) *scale = sc;
	return A::reduce(s);
}

// (A*B)[c][r] = sum_k A[k][r] * B[c][k];  A: K columns x R rows, B: C columns x K rows -> C columns x R rows
template <class T> static inline Mx<T> mul(const Mx<T>& A, const Mx<T>& B, Mx<R>* exact = nullptr, Mx<R>* scale = nullptr) {
	Mx<T> P(B.C, A.R);
	const int K = A.C;  // == B.R
	for (int c = 0; c < P.C; ++c) for (int r = 0; r < P.R; ++r) {
		T a[4], b[4];
		for (int k = 0; k < K; ++k) { a[k] = A.e[k][r]; b[k] = B.e[c][k]; }
		R ex, sc;
		P.e[c][r] = inner(a, b, K, &ex, &sc);
		if (exact) exact->e[c][r] = ex;
		if (scale) scale->e[c][r] = sc;
	}
	return P;
}
// (A*v)[r] = sum_k A[k][r] * v[k]   (v is a column vector with A.C components)
template <class T> static inline Vx<T> mul_mv(const Mx<T>& A, const Vx<T>& v, R* exact = nullptr, R* scale = nullptr) {
	Vx<T> o(A.R);
	for (int r = 0; r < A.R; ++r) {
		T a[4];
		for (int k = 0; k < A.C; ++k) a[k] = A.e[k][r];
		R ex, sc;
		o.e[r] = inner(a, v.e, A.C, &ex, &sc);
		if (exact) exact[r] = ex;
		if (scale) scale[r] = sc;
	}
	return o;
}
// (v*A)[c] = sum_r v[r] * A[c][r]   (v is a row vector with A.R components)
template <class T> static inline Vx<T> mul_vm(const Vx<T>& v, const Mx<T>& A, R* exact = nullptr, R* scale = nullptr) {
	Vx<T> o(A.C);
	for (int c = 0; c < A.C; ++c) {
		R ex, sc;
		o.e[c] = inner(v.e, A.e[c], A.R, &ex, &sc);
		if (exact) exact[c] = ex;
		if (scale) scale[c] = sc;
	}
	return o;
}
template <class T> static inline Mx<T> transpose(const Mx<T>& A) {
	Mx<T> t(A.R, A.C);
	for (int c = 0; c < A.C; ++c) for (int r = 0; r < A.R; ++r) t.e[r][c] = A.e[c][r];
	return t;
}
// column vector c (R components) times row vector r (C components): C columns x R rows, M[j][i] = c[i] * r[j]
template <class T> static inline Mx<T> outer(const Vx<T>& col, const Vx<T>& row) {
	Mx<T> m(row.L, col.L);
	for (int j = 0; j < row.L; ++j) for (int i = 0; i < col.L; ++i) m.e[j][i] = mul1(col.e[i], row.e[j]);
	return m;
}
// conversion between shapes: the overlapping block is copied, the rest is the identity
template <class T> static inline Mx<T> convert(const Mx<T>& A, int C, int Rr) {
	Mx<T> m(C, Rr);
	for (int c = 0; c < C; ++c) for (int r = 0; r < Rr; ++r) m.e[c][r] = (c < A.C && r < A.R) ? A.e[c][r] : (c == r ? T(1) : T(0));
	return m;
}
// s on the main diagonal, 0 elsewhere
template <class T> static inline Mx<T> diagonal(int C, int Rr, const T* d) {
	Mx<T> m(C, Rr);
	for (int c = 0; c < C; ++c) for (int r = 0; r < Rr; ++r) m.e[c][r] = c == r ? d[c] : T(0);
	return m;
}

// ---- determinant by the Leibniz expansion over all permutations (N <= 4), exact accumulator
template <class T> static inline T determinant(const Mx<T>& A, R* exact = nullptr, R* scale = nullptr) {
	typedef Acc<T> Ac;
	const int N = A.C;
	int p[4] = {0, 1, 2, 3};
	typename Ac::W s = Ac::zero();
	R sc = 0;
	// enumerate permutations of {0..N-1} lexicographically; sign from the inversion count
	for (;;) {
		int inv = 0;
		for (int i = 0; i < N; ++i) for (int j = i + 1; j < N; ++j) inv += p[i] > p[j];
		typename Ac::W t = Ac::one();
		for (int i = 0; i < N; ++i) t *= Ac::lift(A.e[i][p[i]]);
		sc += Ac::mag(t);
		if (inv & 1) s -= t; else s += t;
		int i = N - 2;
		while (i >= 0 && p[i] > p[i + 1]) --i;
		if (i < 0) break;
		int j = N - 1;
		while (p[j] < p[i]) --j;
		int tmp = p[i]; p[i] = p[j]; p[j] = tmp;
		for (int a = i + 1, b = N - 1; a < b; ++a, --b) { tmp = p[a]; p[a] = p[b]; p[b] = tmp; }
	}
	if (exact) *exact = is_flt<T>::value ? (R)s : 0;
	if (scale) *scale = sc;
	return Ac::reduce(s);
}
// adjugate: adj(A)[c][r] = (-1)^(c+r) * det(A without column r and row c)   (so that A * adj(A) = det(A) * I)
template <class T> static inline Mx<T> adjugate(const Mx<T>& A) {
	const int N = A.C;
	Mx<T> m(N, N);
	for (int c = 0; c < N; ++c) for (int r = 0; r < N; ++r) {
		Mx<T> minor(N - 1, N - 1);
		int cc = 0;
		for (int j = 0; j < N; ++j) {
			if (j == r) continue;
			int rr = 0;
			for (int i = 0; i < N; ++i) { if (i == c) continue; minor.e[cc][rr++] = A.e[j][i]; }
			++cc;
		}
		T d = N == 2 ? minor.e[0][0] : determinant(minor);
		typedef Acc<T> Ac;
		m.e[c][r] = ((c + r) & 1) ? Ac::reduce(Ac::zero() - Ac::lift(d)) : d;
	}
	return m;
}
// textbook cross product of two 3-vectors
template <class T> static inline Vx<T> cross(const Vx<T>& a, const Vx<T>& b) {
	typedef Acc<T> Ac;
	Vx<T> o(3);
	for (int i = 0; i < 3; ++i) {
		int j = (i + 1) % 3, k = (i + 2) % 3;
		o.e[i] = Ac::reduce(Ac::lift(a.e[j]) * Ac::lift(b.e[k]) - Ac::lift(a.e[k]) * Ac::lift(b.e[j]));
	}
	return o;
}

// ---- printing
template <class T> static inline std::string num(T v) {
	char b[64];
	if (is_flt<T>::value) snprintf(b, sizeof b, "%.9g", (double)v);
	else if (std::is_signed<T>::value) snprintf(b, sizeof b, "%lld", (long long)v);
	else snprintf(b, sizeof b, "%llu", (unsigned long long)v);
	return b;
}
template <class T> static inline std::string str(const Mx<T>& m) {  // columns: [c0r0 c0r1 ..|c1r0 ..]
	std::string s = "[";
	for (int c = 0; c < m.C; ++c) { if (c) s += " | "; for (int r = 0; r < m.R; ++r) { if (r) s += " "; s += num(m.e[c][r]); } }
	return s + "]";
}
template <class T> static inline std::string str(const Vx<T>& v) {
	std::string s = "(";
	for (int i = 0; i < v.L; ++i) { if (i) s += " "; s += num(v.e[i]); }
	return s + ")";
}

}  // namespace reflinalg
