// c01_support.hpp — shared by the C01 harness files (props/C01_*.cpp): element-type names, value generators per
// element type and domain, comparison classes (BITS / VALUE / tolerance), the per-target instance registry and the
// failure-key / reporting helpers. Depends on the engine only (no GLM): everything that touches a GLM type is a
// template on that type and is instantiated by the harness files.
#pragma once
#include "../fp.hpp"
#include <cstdint>
#include <string>
#include <type_traits>
#include <vector>

namespace c01 {

// ---------------------------------------------------------------------------------------------------------
// element types
template <class T> struct TN;
#define C01_TN(T, N) template <> struct TN<T> { static const char* n() { return N; } };
C01_TN(bool, "bool") C01_TN(int8_t, "int8") C01_TN(uint8_t, "uint8") C01_TN(int16_t, "int16") C01_TN(uint16_t, "uint16") C01_TN(int32_t, "int32")
C01_TN(uint32_t, "uint32") C01_TN(int64_t, "int64") C01_TN(uint64_t, "uint64") C01_TN(float, "float") C01_TN(double, "double")
#undef C01_TN
static inline const char* qn(int q) { return q == 0 ? "highp" : q == 1 ? "mediump" : q == 2 ? "lowp" : "q?"; }

template <class T> struct is_fp { static const bool v = std::is_floating_point<T>::value; };
template <class T> struct is_int { static const bool v = std::is_integral<T>::value && !std::is_same<T, bool>::value; };

// printable form of a value (decoded inputs, got/expected)
template <class T> static inline std::string show(T v) {
	char b[64];
	if constexpr (std::is_same<T, bool>::value) snprintf(b, sizeof b, "%s", v ? "true" : "false");
	else if constexpr (is_fp<T>::v) snprintf(b, sizeof b, "%a", (double)v);
	else if constexpr (std::is_signed<T>::value) snprintf(b, sizeof b, "%lld", (long long)v);
	else snprintf(b, sizeof b, "%llu", (unsigned long long)v);
	return b;
}
template <class T> static inline std::string showv(const T* v, int n) {
	std::string s = "(";
	for (int i = 0; i < n; ++i) { if (i) s += ","; s += show(v[i]); }
	return s + ")";
}

// ---------------------------------------------------------------------------------------------------------
// comparison classes (DESIGN.md 5.1)
template <class T> static inline bool eq_bits(T a, T b) { return memcmp(&a, &b, sizeof a) == 0; }
template <> inline bool eq_bits<bool>(bool a, bool b) { return a == b; }
template <class T> static inline bool isnan_(T v) { if constexpr (is_fp<T>::v) return fp::is_nan(v); else { (void)v; return false; } }
// VALUE: equal as reals, or both NaN
template <class T> static inline bool eq_value(T a, T b) { if constexpr (is_fp<T>::v) return fp::same_value(a, b); else return a == b; }
template <class T> static inline bool zero_sign_differs(T a, T b) { if constexpr (is_fp<T>::v) return a == b && fp::sign_bit(a) != fp::sign_bit(b); else { (void)a; (void)b; return false; } }

enum Cmp { BITS, VALUE };
// returns true when got matches want in class `k`; a pure sign-of-zero difference under VALUE is counted
template <class T> static inline bool match(pbt::Ctx& c, Cmp k, T got, T want) {
	if (k == BITS) return eq_bits(got, want) || (isnan_(got) && isnan_(want));  // NaN payload/sign is never compared
	if (!eq_value(got, want)) return false;
	if (zero_sign_differs(got, want)) c.cls("zero-sign-diff (VALUE class, counted)");
	return true;
}

template <class T> static inline bool distinct(const T* v, int n) {
	for (int i = 0; i < n; ++i) for (int j = i + 1; j < n; ++j) if (eq_bits(v[i], v[j]) || (isnan_(v[i]) && isnan_(v[j]))) return false;
	return true;
}

// ---------------------------------------------------------------------------------------------------------
// failure keys:  <function-or-operator>/<overload shape>/vec<L><type>[/<input class>]   (qualifier goes into the detail text)
static inline std::string key(const char* fn, const char* shape, int L, const char* tn, const char* cls = nullptr) {
	std::string k = std::string(fn) + "/" + shape + "/vec" + std::to_string(L) + "<" + tn + ">";
	if (cls && *cls) { k += "/"; k += cls; }
	return k;
}

// ---------------------------------------------------------------------------------------------------------
// value generators
template <class T> static inline T gen_any(pbt::Ctx& c) {  // every value of the type (floats: every bit pattern incl. NaN)
	if constexpr (std::is_same<T, bool>::value) return c.coin();
	else if constexpr (is_fp<T>::v) return fp::gen_float<T>(c, fp::FD_ANY);
	else return fp::gen_int<T>(c);
}
template <class T> static inline T gen_nonnan(pbt::Ctx& c) {
	if constexpr (is_fp<T>::v) return fp::gen_float<T>(c, fp::FD_NONNAN); else return gen_any<T>(c);
}
template <class T> static inline T gen_finite(pbt::Ctx& c) {
	if constexpr (is_fp<T>::v) return fp::gen_float<T>(c, fp::FD_FINITE); else return gen_any<T>(c);
}
// well-scaled finite value, |x| in [2^-lo, 2^hi] or a small integer (floats); small/medium magnitudes (integers)
template <class T> static inline T gen_mod(pbt::Ctx& c, int lo = 10, int hi = 10) {
	if constexpr (is_fp<T>::v) return fp::gen_moderate<T>(c, lo, hi);
	else if constexpr (std::is_same<T, bool>::value) return c.coin();
	else {
		const int W = sizeof(T) * 8;
		int bits = (int)c.range(1, W / 2 - 1);
		uint64_t m = c.draw(1ULL << bits);
		if (std::is_signed<T>::value && c.coin()) return (T)(-(int64_t)m);
		return (T)m;
	}
}
// float in [lo,hi] with the end points, the middle and values next to the ends over-represented
template <class T> static inline T gen_in(pbt::Ctx& c, double lo, double hi) {
	switch (c.draw(8)) {
	case 0: return (T)lo;
	case 1: return (T)hi;
	case 2: return (T)(0.5 * (lo + hi));
	case 3: { T v = (T)lo; return std::nextafter(v, (T)hi); }
	case 4: { T v = (T)hi; return std::nextafter(v, (T)lo); }
	default: { T v = (T)c.uniform(lo, hi); if (v < (T)lo) v = (T)lo; if (v > (T)hi) v = (T)hi; return v; }
	}
}
// fills v[0..n) with `gen`, then (7 cases out of 8) repairs duplicates by re-drawing so that the lanes are pairwise distinct;
// in the remaining cases one lane is copied onto another one (ties between lanes stay in the mix)
template <class T, class G> static inline void fill(pbt::Ctx& c, T* v, int n, G gen) {
	for (int i = 0; i < n; ++i) v[i] = gen();
	if (n < 2) return;
	if (c.draw(8) == 7) { int i = (int)c.draw(n), j = (int)c.draw(n); v[i] = v[j]; return; }
	for (int i = 1; i < n; ++i)
		for (int tries = 0; tries < 6; ++tries) {
			bool dup = false;
			for (int j = 0; j < i; ++j) if (eq_bits(v[i], v[j])) dup = true;
			if (!dup) break;
			v[i] = gen();
		}
}

// ---------------------------------------------------------------------------------------------------------
// instance registry: one table per target, filled by template instantiation (instance = element type x L x qualifier)
struct Inst {
	std::string name;  // e.g. vec3<int8,lowp>
	void (*run)(pbt::Ctx&, const Inst&);
	int L, q;
	const char* tn;
};
typedef std::vector<Inst> Table;

// registers a random target whose first draw selects the instance; cases = per-instance budget x number of instances
static inline void add_target(const std::string& name, pbt::PropFn fn, size_t ninst, uint64_t quick_per_inst, uint64_t thorough_per_inst, const std::string& rule) {
	pbt::Target t;
	t.name = name; t.fn = fn; t.rule = rule;
	t.quick_cases = quick_per_inst * (ninst ? ninst : 1); t.thorough_cases = thorough_per_inst * (ninst ? ninst : 1);
	pbt::targets().push_back(t);
}
static inline void add_sweep(const std::string& name, pbt::PropFn fn, uint64_t domain, uint64_t qstride, uint64_t tstride, const std::string& rule) {
	pbt::Target t;
	t.name = name; t.fn = fn; t.rule = rule; t.domain = domain; t.quick_stride = qstride; t.thorough_stride = tstride;
	pbt::targets().push_back(t);
}

// tolerance helper: |got-want| <= tol, both finite; reports err/tol
template <class T> static inline bool within(pbt::Ctx& c, const char* metric, T got, T want, long double tol) {
	if (fp::is_nan(got) || fp::is_nan(want)) return fp::is_nan(got) && fp::is_nan(want);
	if (fp::is_inf(got) || fp::is_inf(want)) return got == want;
	long double err = fabsl((long double)got - (long double)want);
	if (tol > 0) c.metric(metric, (double)(err / tol));
	return err <= tol;
}

// ---------------------------------------------------------------------------------------------------------
// differential function checks, generic over the vector type V (glm::vec<L,T,Q>; only V::value_type, V::length(),
// operator[] and default construction are used, so no GLM header is needed here).
//   fnN<V, SHAPES>(fc, name, judge, operands..., f): f is a generic lambda forwarding to the overloaded GLM function; it is
//   called with vectors (the overload under test) and with the scalars of lane i (the scalar overload = the oracle).
template <class V> static inline V mkv(const typename V::value_type* p) { V v; for (int i = 0; i < (int)V::length(); ++i) v[i] = p[i]; return v; }

struct FnCtx {
	pbt::Ctx& c;
	const Inst& in;
	bool nontriv = false;
	FnCtx(pbt::Ctx& c_, const Inst& in_) : c(c_), in(in_) {}
};

// judges: (ctx, got, want, scalar operands of the lane, count)
struct JBits { template <class R, class T> bool operator()(pbt::Ctx& c, R g, R w, const T*, int) const { return match<R>(c, BITS, g, w); } const char* cls() const { return nullptr; } };
struct JValue { template <class R, class T> bool operator()(pbt::Ctx& c, R g, R w, const T*, int) const { return match<R>(c, VALUE, g, w); } const char* cls() const { return nullptr; } };
struct JExact { template <class R, class T> bool operator()(pbt::Ctx&, R g, R w, const T*, int) const { return eq_bits(g, w); } const char* cls() const { return nullptr; } };  // representation incl. NaN payload (bit casts)
// tolerance judge: tol(ops) = absolute bound of the documented formula on these operands (long double)
template <class TolF> struct JTol {
	TolF tol; const char* metric;
	template <class R, class T> bool operator()(pbt::Ctx& c, R g, R w, const T* ops, int) const {
		if (eq_bits(g, w)) { c.cls("tolerance-class: bit-identical"); c.metric(metric, 0.0); return true; }
		c.cls("tolerance-class: differs within bound");
		return within<R>(c, metric, g, w, tol(ops));
	}
	const char* cls() const { return nullptr; }
};
template <class TolF> static inline JTol<TolF> jtol(const char* metric, TolF f) { return JTol<TolF>{f, metric}; }

template <class V, class R, class RV, class J> static inline bool lanes_ok(FnCtx& fc, const char* name, const char* shape, J judge, const RV& got, const R* want, typename V::value_type (*ops)[4], int nops) {
	typedef typename V::value_type T;
	const int L = (int)V::length();
	for (int i = 0; i < L; ++i) {
		T lane[4];
		for (int k = 0; k < nops; ++k) lane[k] = ops[k][i];
		R g = got[i];
		if (judge(fc.c, g, want[i], lane, nops)) continue;
		std::string args;
		for (int k = 0; k < nops; ++k) { if (k) args += ", "; args += show(lane[k]); }
		fc.c.failk(key(name, shape, L, fc.in.tn), "%s: %s [%s] component %d = %s, the scalar overload %s(%s) = %s", fc.in.name.c_str(), name, shape, i, show<R>(g).c_str(), name, args.c_str(), show<R>(want[i]).c_str());
		return false;
	}
	return true;
}
template <class T, class R> static inline void note_nontrivial(FnCtx& fc, int L, const T* x, const R* want, const char* clsname, bool extra = true) {
	if (L >= 2 && extra && distinct(x, L) && distinct(want, L)) { fc.nontriv = true; if (clsname) fc.c.cls(clsname); }
}

template <class V, class J, class F> static inline void fn1(FnCtx& fc, const char* name, J judge, const typename V::value_type* x, F f, const char* clsname) {
	typedef typename V::value_type T;
	const int L = (int)V::length();
	typedef decltype(f(x[0])) R;
	R want[4]; T ops[1][4];
	for (int i = 0; i < L; ++i) { want[i] = f(x[i]); ops[0][i] = x[i]; }
	lanes_ok<V, R>(fc, name, "vec", judge, f(mkv<V>(x)), want, ops, 1);
	note_nontrivial(fc, L, x, want, clsname);
}
// shapes: 1 = f(vec,vec)  2 = f(vec,scalar)  4 = f(scalar,vec)
template <class V, int SH, class J, class F> static inline void fn2(FnCtx& fc, const char* name, J judge, const typename V::value_type* x, const typename V::value_type* y, typename V::value_type s, F f, const char* clsname) {
	typedef typename V::value_type T;
	const int L = (int)V::length();
	typedef decltype(f(x[0], y[0])) R;
	R want[4]; T ops[2][4];
	if constexpr ((SH & 1) != 0) {
		for (int i = 0; i < L; ++i) { want[i] = f(x[i], y[i]); ops[0][i] = x[i]; ops[1][i] = y[i]; }
		lanes_ok<V, R>(fc, name, "vec.vec", judge, f(mkv<V>(x), mkv<V>(y)), want, ops, 2);
		note_nontrivial(fc, L, x, want, clsname, distinct(y, L));
	}
	if constexpr ((SH & 2) != 0) {
		bool differs = false;
		for (int i = 0; i < L; ++i) { want[i] = f(x[i], s); ops[0][i] = x[i]; ops[1][i] = s; if (!eq_bits(x[i], s)) differs = true; }
		lanes_ok<V, R>(fc, name, "vec.scalar", judge, f(mkv<V>(x), s), want, ops, 2);
		note_nontrivial(fc, L, x, want, clsname, differs);
	}
	if constexpr ((SH & 4) != 0) {
		for (int i = 0; i < L; ++i) { want[i] = f(s, y[i]); ops[0][i] = s; ops[1][i] = y[i]; }
		lanes_ok<V, R>(fc, name, "scalar.vec", judge, f(s, mkv<V>(y)), want, ops, 2);
		note_nontrivial(fc, L, y, want, clsname);
	}
}
// shapes: 1 = f(vec,vec,vec)  2 = f(vec,scalar,scalar)  4 = f(vec,vec,scalar)  8 = f(scalar,scalar,vec)
template <class V, int SH, class J, class F> static inline void fn3(FnCtx& fc, const char* name, J judge, const typename V::value_type* x, const typename V::value_type* y, const typename V::value_type* z,
                                                                    typename V::value_type s, typename V::value_type t, F f, const char* clsname) {
	typedef typename V::value_type T;
	const int L = (int)V::length();
	typedef decltype(f(x[0], y[0], z[0])) R;
	R want[4]; T ops[3][4];
	if constexpr ((SH & 1) != 0) {
		for (int i = 0; i < L; ++i) { want[i] = f(x[i], y[i], z[i]); ops[0][i] = x[i]; ops[1][i] = y[i]; ops[2][i] = z[i]; }
		lanes_ok<V, R>(fc, name, "vec.vec.vec", judge, f(mkv<V>(x), mkv<V>(y), mkv<V>(z)), want, ops, 3);
		note_nontrivial(fc, L, x, want, clsname);
	}
	if constexpr ((SH & 2) != 0) {
		for (int i = 0; i < L; ++i) { want[i] = f(x[i], s, t); ops[0][i] = x[i]; ops[1][i] = s; ops[2][i] = t; }
		lanes_ok<V, R>(fc, name, "vec.scalar.scalar", judge, f(mkv<V>(x), s, t), want, ops, 3);
		note_nontrivial(fc, L, x, want, clsname);
	}
	if constexpr ((SH & 4) != 0) {
		for (int i = 0; i < L; ++i) { want[i] = f(x[i], y[i], s); ops[0][i] = x[i]; ops[1][i] = y[i]; ops[2][i] = s; }
		lanes_ok<V, R>(fc, name, "vec.vec.scalar", judge, f(mkv<V>(x), mkv<V>(y), s), want, ops, 3);
		note_nontrivial(fc, L, x, want, clsname);
	}
	if constexpr ((SH & 8) != 0) {
		for (int i = 0; i < L; ++i) { want[i] = f(s, t, z[i]); ops[0][i] = s; ops[1][i] = t; ops[2][i] = z[i]; }
		lanes_ok<V, R>(fc, name, "scalar.scalar.vec", judge, f(s, t, mkv<V>(z)), want, ops, 3);
		note_nontrivial(fc, L, z, want, clsname);
	}
}
template <class V, class J, class F> static inline void fn4(FnCtx& fc, const char* name, J judge, const typename V::value_type* x, const typename V::value_type* y, const typename V::value_type* z,
                                                            const typename V::value_type* w, F f, const char* clsname) {
	typedef typename V::value_type T;
	const int L = (int)V::length();
	typedef decltype(f(x[0], y[0], z[0], w[0])) R;
	R want[4]; T ops[4][4];
	for (int i = 0; i < L; ++i) { want[i] = f(x[i], y[i], z[i], w[i]); ops[0][i] = x[i]; ops[1][i] = y[i]; ops[2][i] = z[i]; ops[3][i] = w[i]; }
	lanes_ok<V, R>(fc, name, "vec.vec.vec.vec", judge, f(mkv<V>(x), mkv<V>(y), mkv<V>(z), mkv<V>(w)), want, ops, 4);
	note_nontrivial(fc, L, x, want, clsname);
}

#define C01_F1(fn) [](auto const& a_) { return glm::fn(a_); }
#define C01_F2(fn) [](auto const& a_, auto const& b_) { return glm::fn(a_, b_); }
#define C01_F3(fn) [](auto const& a_, auto const& b_, auto const& c_) { return glm::fn(a_, b_, c_); }
#define C01_F4(fn) [](auto const& a_, auto const& b_, auto const& c_, auto const& d_) { return glm::fn(a_, b_, c_, d_); }

// registration of the instances vec<L,T,Q> of one group: RUN is a template <class T, int L, glm::qualifier Q> function
#define C01_REG_L(TABLE, RUN, T, QUAL, QI) \
	TABLE.push_back({std::string("vec1<") + c01::TN<T>::n() + "," + c01::qn(QI) + ">", &RUN<T, 1, QUAL>, 1, QI, c01::TN<T>::n()}); \
	TABLE.push_back({std::string("vec2<") + c01::TN<T>::n() + "," + c01::qn(QI) + ">", &RUN<T, 2, QUAL>, 2, QI, c01::TN<T>::n()}); \
	TABLE.push_back({std::string("vec3<") + c01::TN<T>::n() + "," + c01::qn(QI) + ">", &RUN<T, 3, QUAL>, 3, QI, c01::TN<T>::n()}); \
	TABLE.push_back({std::string("vec4<") + c01::TN<T>::n() + "," + c01::qn(QI) + ">", &RUN<T, 4, QUAL>, 4, QI, c01::TN<T>::n()});
#if defined(C01_TIER) && C01_TIER
#define C01_REG(TABLE, RUN, T) C01_REG_L(TABLE, RUN, T, glm::highp, 0) C01_REG_L(TABLE, RUN, T, glm::mediump, 1) C01_REG_L(TABLE, RUN, T, glm::lowp, 2)
#else
#define C01_REG(TABLE, RUN, T) C01_REG_L(TABLE, RUN, T, glm::highp, 0) C01_REG_L(TABLE, RUN, T, glm::lowp, 2)
#endif

}  // namespace c01
