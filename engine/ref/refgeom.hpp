// refgeom.hpp — long-double reference geometry and vector generators for C12 (no GLM code, no GLM includes).
// Vectors are plain arrays `T v[4]` (unused lanes zero); the reference works on `long double` copies.
// long double (64-bit significand) holds every product of two floats exactly and products of doubles to 2^-64,
// i.e. >= 2^10 times finer than the unit roundoff of the type under test: its own error is ignored in the bounds.
#pragma once
#include "fp.hpp"
#include <string>

namespace refgeom {

typedef long double R;

template <class T> static inline R U() { return (R)std::numeric_limits<T>::epsilon() / 2; }         // unit roundoff u
template <class T> static inline R TINY() { return 8 * (R)std::numeric_limits<T>::denorm_min(); }  // floor for every tolerance (gradual underflow of a tiny term)

template <class T> static inline void lift(const T* v, R* r) { for (int i = 0; i < 4; ++i) r[i] = (R)v[i]; }
static inline R rabs(R x) { return x < 0 ? -x : x; }
static inline R rmax(R a, R b) { return a > b ? a : b; }
static inline R dot(const R* a, const R* b, int L) { R s = 0; for (int i = 0; i < L; ++i) s += a[i] * b[i]; return s; }
static inline R adot(const R* a, const R* b, int L) { R s = 0; for (int i = 0; i < L; ++i) s += rabs(a[i] * b[i]); return s; }  // sum |a_i b_i|: scale of a dot product
static inline R norm2(const R* a, int L) { return dot(a, a, L); }
static inline R norm(const R* a, int L) { return sqrtl(dot(a, a, L)); }
static inline void sub(const R* a, const R* b, R* o, int L) { for (int i = 0; i < 4; ++i) o[i] = i < L ? a[i] - b[i] : 0; }
static inline void axpy(R s, const R* x, const R* y, R* o, int L) { for (int i = 0; i < 4; ++i) o[i] = i < L ? s * x[i] + y[i] : 0; }  // o = s*x + y
static inline void cross3(const R* a, const R* b, R* o) {
	o[0] = a[1] * b[2] - a[2] * b[1];
	o[1] = a[2] * b[0] - a[0] * b[2];
	o[2] = a[0] * b[1] - a[1] * b[0];
	o[3] = 0;
}
// |a_y b_z| + |a_z b_y| etc.: the magnitude that the rounding error of a cross component is relative to
static inline void cross3_scale(const R* a, const R* b, R* s) {
	s[0] = rabs(a[1] * b[2]) + rabs(a[2] * b[1]);
	s[1] = rabs(a[2] * b[0]) + rabs(a[0] * b[2]);
	s[2] = rabs(a[0] * b[1]) + rabs(a[1] * b[0]);
	s[3] = 0;
}
static inline R det3(const R* a, const R* b, const R* c) {  // determinant of the matrix with columns a,b,c = (a x b).c
	return a[0] * (b[1] * c[2] - b[2] * c[1]) - a[1] * (b[0] * c[2] - b[2] * c[0]) + a[2] * (b[0] * c[1] - b[1] * c[0]);
}
static inline R clampr(R x, R lo, R hi) { return x < lo ? lo : (x > hi ? hi : x); }

// ---------------------------------------------------------------------------------------------
// description helpers (only used when the case is being described)
template <class T> static inline std::string vstr(const T* v, int L) {
	std::string s = "(";
	char b[64];
	for (int i = 0; i < L; ++i) { snprintf(b, sizeof b, sizeof(T) == 4 ? "%s%.9g" : "%s%.17g", i ? "," : "", (double)v[i]); s += b; }
	return s + ")";
}

// ---------------------------------------------------------------------------------------------
// generators (all randomness from pbt::Ctx; smaller draws = simpler vectors)
template <class T> static inline bool is_zero(const T* v, int L) { for (int i = 0; i < L; ++i) if (v[i] != 0) return false; return true; }
template <class T> static inline int nonzeros(const T* v, int L) { int n = 0; for (int i = 0; i < L; ++i) n += v[i] != 0; return n; }
// |components| pairwise distinct and non-zero: a swapped/duplicated index is visible
template <class T> static inline bool distinct_mags(const T* v, int L) {
	for (int i = 0; i < L; ++i) { if (v[i] == 0) return false; for (int j = 0; j < i; ++j) if (std::fabs(v[i]) == std::fabs(v[j])) return false; }
	return true;
}
template <class T> static inline bool all_small_int(const T* v, int L) { for (int i = 0; i < L; ++i) if (!(std::fabs(v[i]) <= 1024) || v[i] != (T)(long)v[i]) return false; return true; }

enum VecClass { VC_SMALLINT, VC_AXIS, VC_SAMESCALE, VC_MIXED };
static const char* const VC_NAME[] = {"vec:small-int", "vec:axis-aligned", "vec:same-scale", "vec:mixed-magnitude"};

// non-zero vector of length L, component magnitudes in [2^-span, 2^span] (or 0 / small integers)
template <class T> static inline int gen_vec(pbt::Ctx& c, int L, T* v, int span) {
	for (int i = 0; i < 4; ++i) v[i] = 0;
	int k = (int)c.draw(6), cls;
	if (k == 0) { cls = VC_SMALLINT; for (int i = 0; i < L; ++i) v[i] = (T)c.range(-8, 8); }
	else if (k == 1) { cls = VC_AXIS; int a = (int)c.draw(L); v[a] = c.coin() ? (T)(c.coin() ? -1 : 1) : fp::gen_moderate<T>(c, span, span); }
	else if (k == 2) { cls = VC_SAMESCALE; for (int i = 0; i < L; ++i) v[i] = (T)c.uniform(-2.0, 2.0); }
	else { cls = VC_MIXED; for (int i = 0; i < L; ++i) v[i] = fp::gen_moderate<T>(c, span, span); }
	if (is_zero(v, L)) v[0] = 1;
	return cls;
}

enum Rel { REL_INDEP, REL_ORTHO, REL_NEARORTHO, REL_PARALLEL, REL_ANTIPARALLEL, REL_NEARPARALLEL, REL_EQUAL, REL_N };
static const char* const REL_NAME[] = {"pair:independent", "pair:orthogonal-exact", "pair:nearly-orthogonal", "pair:parallel", "pair:antiparallel", "pair:nearly-parallel", "pair:equal"};
static const char* const REL_KEY[] = {"independent", "orthogonal", "nearly-orthogonal", "parallel", "antiparallel", "nearly-parallel", "equal"};

// two non-zero vectors in a chosen relation. "parallel" with a non-power-of-two factor is parallel up to the
// rounding of the products, "orthogonal-exact" is exactly orthogonal as real vectors (b = s*(-a_j e_i + a_i e_j)).
template <class T> static inline int gen_pair(pbt::Ctx& c, int L, T* a, T* b, int span) {
	gen_vec(c, L, a, span);
	int r = (int)c.draw(10);
	int rel = r < 4 ? REL_INDEP : r - 3;  // 4..9 -> 1..6
	if (L == 1 && (rel == REL_ORTHO || rel == REL_NEARORTHO || rel == REL_NEARPARALLEL)) rel = REL_INDEP;
	if (L != 3 && rel == REL_NEARORTHO) rel = REL_ORTHO;
	for (int i = 0; i < 4; ++i) b[i] = 0;
	switch (rel) {
	case REL_INDEP: gen_vec(c, L, b, span); break;
	case REL_ORTHO: {
		int i = (int)c.draw(L), j = (i + 1 + (int)c.draw(L - 1)) % L;
		T s = (T)std::ldexp(1.0, (int)c.range(-3, 3)); if (c.coin()) s = -s;
		b[i] = -a[j] * s; b[j] = a[i] * s;   // exact: power-of-two factor
		if (is_zero(b, L)) b[i] = 1;         // a_i = a_j = 0: e_i is orthogonal to a
		break;
	}
	case REL_NEARORTHO: {  // L == 3: rounded cross product with a random vector, orthogonal to a up to rounding, all components populated
		T w[4]; gen_vec(c, L, w, 3);
		b[0] = a[1] * w[2] - a[2] * w[1]; b[1] = a[2] * w[0] - a[0] * w[2]; b[2] = a[0] * w[1] - a[1] * w[0];
		if (is_zero(b, L)) { rel = REL_INDEP; gen_vec(c, L, b, span); }
		break;
	}
	case REL_PARALLEL: case REL_ANTIPARALLEL: {
		T s = c.coin() ? (T)std::ldexp(1.0, (int)c.range(-3, 3)) : (T)c.loguniform(0.25, 4.0);
		if (rel == REL_ANTIPARALLEL) s = -s;
		for (int i = 0; i < L; ++i) b[i] = a[i] * s;
		break;
	}
	case REL_NEARPARALLEL: {  // s*a plus a perturbation 2^-k below |a|
		T s = (T)c.loguniform(0.25, 4.0); if (c.coin()) s = -s;
		R ra[4]; lift(a, ra); R n = norm(ra, L);
		int k = (int)c.range(6, sizeof(T) == 4 ? 20 : 45);
		for (int i = 0; i < L; ++i) b[i] = a[i] * s + (T)((R)c.uniform(-1.0, 1.0) * ldexpl(n, -k));
		if (is_zero(b, L)) b[0] = 1;
		break;
	}
	default: for (int i = 0; i < L; ++i) b[i] = a[i]; break;
	}
	return rel;
}

// round v/|v| to T: unit up to one rounding per component (|v|^2 = 1 +- ~2u); axis vectors and (3,4)/5-like stay as exact as T allows
template <class T> static inline void make_unit(T* v, int L) {
	R r[4]; lift(v, r); R n = norm(r, L);
	for (int i = 0; i < L; ++i) v[i] = (T)(r[i] / n);
}
template <class T> static inline void gen_unit(pbt::Ctx& c, int L, T* v) { gen_vec(c, L, v, 4); make_unit(v, L); }
template <class T> static inline int gen_unit_pair(pbt::Ctx& c, int L, T* a, T* b) {
	int rel = gen_pair(c, L, a, b, 4);
	make_unit(a, L); make_unit(b, L);
	return rel;
}

}  // namespace refgeom
