// refcolor.hpp — reference models for the colour-space property (C19). No GLM code, long double arithmetic.
//   sRGB transfer curves     : IEC 61966-2-1:1999 (the specification GLM's doc comments cite), generalised to a custom
//                              exponent the way the doc comment of the Gamma overloads describes ("custom gamma correction")
//   HSV <-> RGB              : the textbook chroma / H' formulation (Smith 1978), hue in degrees
//   YCoCg, YCoCg-R           : Malvar & Sullivan, "YCoCg-R: A Color Space with RGB Reversibility and Low Dynamic Range"
//   saturation / luminosity  : out = s c + (1-s) L, L = dot(c, w); luminosity = dot(c, w)
#pragma once
#include <cmath>
#include <cstdint>

namespace refcolor {

typedef long double LD;

// ---- sRGB (IEC 61966-2-1) -------------------------------------------------------------------------------------
static const LD L_THR = 0.0031308L;  // linear-side threshold
static const LD S_THR = 0.04045L;    // sRGB-side threshold
static const LD SLOPE = 12.92L;
static const LD OFF = 0.055L;
// The IEC constants themselves do not join the two segments exactly: 1.055*L_THR^(1/2.4) - 0.055 - 12.92*L_THR = -2.8517e-8
// (sRGB units). Anything that follows the IEC text inherits a discontinuity of this size at the threshold.
static const LD IEC_JUMP = 2.86e-8L;

static inline LD l2s_lin(LD x) { return SLOPE * x; }
static inline LD l2s_cur(LD x, LD e) { return (1 + OFF) * (x > 0 ? powl(x, e) : 0.0L) - OFF; }
static inline LD s2l_lin(LD s) { return s / SLOPE; }
static inline LD s2l_cur(LD s, LD g) { return powl((s + OFF) / (1 + OFF), g); }
static inline LD l2s(LD x, LD e) { return x <= L_THR ? l2s_lin(x) : l2s_cur(x, e); }
static inline LD s2l(LD s, LD g) { return s <= S_THR ? s2l_lin(s) : s2l_cur(s, g); }

// ---- HSV ------------------------------------------------------------------------------------------------------
// h in degrees (any finite value >= 0), s and v in [0,1]
static inline void hsv2rgb(LD h, LD s, LD v, LD out[3]) {
	LD C = v * s, Hp = h / 60.0L, m = v - C;
	LD t = fmodl(Hp, 2.0L) - 1.0L;
	if (t < 0) t = -t;
	LD X = C * (1.0L - t);
	long k = (long)floorl(Hp) % 6;
	LD r = 0, g = 0, b = 0;
	switch (k) {
	case 0: r = C; g = X; break;
	case 1: r = X; g = C; break;
	case 2: g = C; b = X; break;
	case 3: g = X; b = C; break;
	case 4: r = X; b = C; break;
	default: r = C; b = X; break;
	}
	out[0] = r + m; out[1] = g + m; out[2] = b + m;
}
// returns false when the hue is undefined (grey); out = (h in [0,360), s, v)
static inline bool rgb2hsv(LD r, LD g, LD b, LD out[3]) {
	LD mx = r > g ? (r > b ? r : b) : (g > b ? g : b);
	LD mn = r < g ? (r < b ? r : b) : (g < b ? g : b);
	LD d = mx - mn;
	out[2] = mx;
	out[1] = mx > 0 ? d / mx : 0.0L;
	out[0] = 0;
	if (!(d > 0)) return false;
	LD h;
	if (mx == r) h = (g - b) / d;            // in [-1,1]
	else if (mx == g) h = 2.0L + (b - r) / d;  // in [1,3]
	else h = 4.0L + (r - g) / d;             // in [3,5]
	if (h < 0) h += 6.0L;
	h *= 60.0L;
	if (h >= 360.0L) h -= 360.0L;
	out[0] = h;
	return true;
}
static inline LD hue_dist(LD a, LD b) {
	LD d = fabsl(a - b);
	d = fmodl(d, 360.0L);
	return d > 180.0L ? 360.0L - d : d;
}

// ---- YCoCg (real) ---------------------------------------------------------------------------------------------
static inline void rgb2ycocg(const LD c[3], LD o[3]) {
	o[0] = (c[0] + 2 * c[1] + c[2]) / 4;
	o[1] = (c[0] - c[2]) / 2;
	o[2] = (2 * c[1] - c[0] - c[2]) / 4;
}
static inline void ycocg2rgb(const LD y[3], LD o[3]) {
	LD t = y[0] - y[2];
	o[0] = t + y[1]; o[1] = y[0] + y[2]; o[2] = t - y[1];
}
// YCoCg-R on reals (no flooring): Co = R-B, t = B + Co/2, Cg = G - t, Y = t + Cg/2
static inline void rgb2ycocgr_real(const LD c[3], LD o[3]) {
	LD co = c[0] - c[2], t = c[2] + co / 2, cg = c[1] - t;
	o[0] = t + cg / 2; o[1] = co; o[2] = cg;
}
static inline void ycocgr2rgb_real(const LD y[3], LD o[3]) {
	LD t = y[0] - y[2] / 2;
	o[1] = y[2] + t; o[2] = t - y[1] / 2; o[0] = o[2] + y[1];
}
// ---- YCoCg-R on integers (the paper's lifting steps; >> is an arithmetic shift = floor division by 2) ----------
static inline int64_t fdiv2(int64_t a) { return (a - (((a % 2) + 2) % 2)) / 2; }
static inline void rgb2ycocgr_int(const int64_t c[3], int64_t o[3]) {
	int64_t co = c[0] - c[2], t = c[2] + fdiv2(co), cg = c[1] - t;
	o[0] = t + fdiv2(cg); o[1] = co; o[2] = cg;
}
static inline void ycocgr2rgb_int(const int64_t y[3], int64_t o[3]) {
	int64_t t = y[0] - fdiv2(y[2]);
	o[1] = y[2] + t; o[2] = t - fdiv2(y[1]); o[0] = o[2] + y[1];
}

// ---- saturation / luminosity ------------------------------------------------------------------------------------
static const LD REC709[3] = {0.2126L, 0.7152L, 0.0722L};   // ITU-R BT.709 luma weights (sum exactly 1)
static const LD LUMI_W[3] = {0.33L, 0.59L, 0.11L};         // weights stated in luminosity()'s doc comment (sum 1.03)
static inline LD dot3(const LD a[3], const LD b[3]) { return a[0] * b[0] + a[1] * b[1] + a[2] * b[2]; }
static inline LD absdot3(const LD a[3], const LD b[3]) { return fabsl(a[0] * b[0]) + fabsl(a[1] * b[1]) + fabsl(a[2] * b[2]); }
static inline void saturate(LD s, const LD c[3], LD o[3]) {
	LD L = dot3(c, REC709);
	for (int i = 0; i < 3; ++i) o[i] = s * c[i] + (1 - s) * L;  // this form is exact for s == 1 and s == 0
}

}  // namespace refcolor
