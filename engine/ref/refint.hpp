// refint.hpp — loop-based reference definitions of the GLSL integer functions (GLSL 4.20 section 8.8,
// as quoted in glm/integer.hpp) and of the gtc/gtx integer utilities. No GLM code, no bit tricks.
#pragma once
#include <cstdint>
#include <limits>
#include <type_traits>

namespace refint {

template <class T> struct W { enum { bits = sizeof(T) * 8 }; typedef typename std::make_unsigned<T>::type U; };

template <class T> static inline bool bit(T v, int i) { typedef typename W<T>::U U; return ((U)v >> i) & 1; }

template <class T> static inline int bitCount(T v) { int n = 0; for (int i = 0; i < W<T>::bits; ++i) n += bit(v, i); return n; }
template <class T> static inline int findLSB(T v) { for (int i = 0; i < W<T>::bits; ++i) if (bit(v, i)) return i; return -1; }
// positive: position of the most significant 1; negative: of the most significant 0; 0 and -1: -1
template <class T> static inline int findMSB(T v) {
	bool neg = std::is_signed<T>::value && bit(v, W<T>::bits - 1);
	for (int i = W<T>::bits - 1; i >= 0; --i) if (bit(v, i) != neg) return i;
	return -1;
}
template <class T> static inline T bitfieldReverse(T v) {
	typedef typename W<T>::U U; U r = 0;
	for (int i = 0; i < W<T>::bits; ++i) if (bit(v, i)) r |= (U)((U)1 << (W<T>::bits - 1 - i));
	return (T)r;
}
// bits [offset, offset+bits-1] to the LSBs; unsigned: zero-filled, signed: sign-extended from the top bit of the field
template <class T> static inline T bitfieldExtract(T v, int offset, int nbits) {
	typedef typename W<T>::U U; U r = 0;
	if (nbits == 0) return 0;
	for (int i = 0; i < nbits; ++i) if (bit(v, offset + i)) r |= (U)((U)1 << i);
	if (std::is_signed<T>::value && bit(v, offset + nbits - 1)) for (int i = nbits; i < W<T>::bits; ++i) r |= (U)((U)1 << i);
	return (T)r;
}
template <class T> static inline T bitfieldInsert(T base, T ins, int offset, int nbits) {
	typedef typename W<T>::U U; U r = (U)base;
	for (int i = 0; i < nbits; ++i) { U m = (U)((U)1 << (offset + i)); if (bit(ins, i)) r |= m; else r &= (U)~m; }
	return (T)r;
}
static inline uint32_t uaddCarry(uint32_t x, uint32_t y, uint32_t* carry) {
	unsigned __int128 s = (unsigned __int128)x + y; *carry = s >= ((unsigned __int128)1 << 32) ? 1u : 0u; return (uint32_t)(s & 0xffffffffu);
}
static inline uint32_t usubBorrow(uint32_t x, uint32_t y, uint32_t* borrow) {
	__int128 d = (__int128)x - (__int128)y; if (d >= 0) { *borrow = 0; return (uint32_t)d; } *borrow = 1; return (uint32_t)(d + ((__int128)1 << 32));
}
static inline void umulExtended(uint32_t x, uint32_t y, uint32_t* msb, uint32_t* lsb) {
	unsigned __int128 p = (unsigned __int128)x * y; *lsb = (uint32_t)(p & 0xffffffffu); *msb = (uint32_t)((p >> 32) & 0xffffffffu);
}
static inline void imulExtended(int32_t x, int32_t y, int32_t* msb, int32_t* lsb) {
	__int128 p = (__int128)x * y; unsigned __int128 u = (unsigned __int128)p; *lsb = (int32_t)(uint32_t)(u & 0xffffffffu); *msb = (int32_t)(uint32_t)((u >> 32) & 0xffffffffu);
}

// ---- utilities of ext/scalar_integer, gtc/round, gtc/bitfield, gtc/integer, gtx/integer, gtx/bit (C18)
// all in wide arithmetic (__int128) so that the mathematical value is formed before deciding representability
typedef __int128 wide;
template <class T> static inline wide val(T x) { return (wide)x; }
static inline bool isPow2(wide x) { if (x <= 0) return false; while ((x & 1) == 0) x >>= 1; return x == 1; }
static inline wide ceilPow2(wide x) { wide p = 1; while (p < x) p <<= 1; return p; }   // x >= 1
static inline wide floorPow2(wide x) { wide p = 1; while (p * 2 <= x) p <<= 1; return p; }  // x >= 1
static inline wide floordiv(wide a, wide b) { wide q = a / b; if ((a % b != 0) && ((a < 0) != (b < 0))) --q; return q; }
static inline wide ceilMultiple(wide x, wide m) { return -floordiv(-x, m) * m; }
static inline wide floorMultiple(wide x, wide m) { return floordiv(x, m) * m; }
template <class T> static inline int findNSB(T x, int n) {  // position of the n-th (1-based... GLM: significantBitCount) set bit
	int seen = 0;
	for (int i = 0; i < W<T>::bits; ++i) if (bit(x, i)) { ++seen; if (seen == n) return i; }
	return -1;
}
template <class T> static inline T rotl(T v, int s) { typedef typename W<T>::U U; U r = 0; const int B = W<T>::bits; for (int i = 0; i < B; ++i) if (bit(v, i)) r |= (U)((U)1 << ((i + s) % B)); return (T)r; }
template <class T> static inline T rotr(T v, int s) { const int B = W<T>::bits; return rotl(v, (B - (s % B)) % B); }

}  // namespace refint
