// refslerp.hpp — long-double reference model of great-arc interpolation on the unit 3-sphere for C13, quaternion
// algebra (product, conjugate, log, exp) for squad/intermediate, and the unit-quaternion / pair generators.
// No GLM code, no GLM includes. Quaternions are plain arrays in the order (w, x, y, z).
//
// Model. For two non-zero quaternions x, z with unit directions e1 = x/|x| and zh = z/|z| at angle theta (0 < theta < pi)
// let e2 be the unit vector of span{x,z} orthogonal to e1 with zh = cos(theta) e1 + sin(theta) e2. The point of the
// great circle through x and z at angle psi from x is  P(psi) = cos(psi) e1 + sin(psi) e2.
//   slerp(x,y,a)   : z = +-y on the shorter arc,          psi = a theta
//   slerp(x,y,a,k) : z = +-y on the shorter arc,          psi = a (theta + k pi)
//   mix(x,y,a)     : z = y (oriented),                    psi = a theta
// e2 is obtained without cancellation from d = zh - e1 (theta <= pi/2) or d = zh + e1 (theta > pi/2): the component of d
// orthogonal to e1 has length sin(theta) and is computed from a small vector, so theta = atan2(|d_perp|, zh.e1) is
// accurate to ~2^-63/theta relative even at 1e-9 rad from parallel or antipodal — far below the tolerances of T.
#pragma once
#include "fp.hpp"
#include <string>

namespace refslerp {

typedef long double R;
static const R PI_L = 3.14159265358979323846264338327950288L;

template <class T> static inline R U() { return (R)std::numeric_limits<T>::epsilon() / 2; }  // unit roundoff u
template <class T> static inline R EPS() { return (R)std::numeric_limits<T>::epsilon(); }
static inline R rabs(R x) { return x < 0 ? -x : x; }
static inline R rmax(R a, R b) { return a > b ? a : b; }
static inline R rmin(R a, R b) { return a < b ? a : b; }

template <class T> static inline void lift(const T* v, R* r) { for (int i = 0; i < 4; ++i) r[i] = (R)v[i]; }
static inline R dot4(const R* a, const R* b) { return a[0] * b[0] + a[1] * b[1] + a[2] * b[2] + a[3] * b[3]; }
static inline R adot4(const R* a, const R* b) { return rabs(a[0] * b[0]) + rabs(a[1] * b[1]) + rabs(a[2] * b[2]) + rabs(a[3] * b[3]); }
static inline R norm4(const R* a) { return sqrtl(dot4(a, a)); }
static inline R dist4(const R* a, const R* b) { R s = 0; for (int i = 0; i < 4; ++i) s += (a[i] - b[i]) * (a[i] - b[i]); return sqrtl(s); }
static inline R dist4s(const R* a, const R* b, R sgn) { R s = 0; for (int i = 0; i < 4; ++i) s += (a[i] - sgn * b[i]) * (a[i] - sgn * b[i]); return sqrtl(s); }
template <class T> static inline bool finite4(const T* v) { for (int i = 0; i < 4; ++i) if (!fp::is_finite(v[i])) return false; return true; }

template <class T> static inline std::string qstr(const T* v) {
	char b[160];
	if (sizeof(T) == 4) snprintf(b, sizeof b, "(w=%.9g,x=%.9g,y=%.9g,z=%.9g)", (double)v[0], (double)v[1], (double)v[2], (double)v[3]);
	else snprintf(b, sizeof b, "(w=%.17g,x=%.17g,y=%.17g,z=%.17g)", (double)v[0], (double)v[1], (double)v[2], (double)v[3]);
	return b;
}

// ---------------------------------------------------------------------------------------------
// the arc from x towards z
struct Arc {
	R e1[4], e2[4];
	R theta;       // angle between x and z, [0, pi]
	R sn, cs;      // sin(theta), cos(theta)
	R nx, nz;      // |x|, |z|
	bool degenerate;  // theta is exactly 0 or pi: the great circle is not determined by the pair
};

static inline Arc make_arc(const R* x, const R* z) {
	Arc A;
	A.nx = norm4(x); A.nz = norm4(z);
	R zh[4];
	for (int i = 0; i < 4; ++i) { A.e1[i] = x[i] / A.nx; zh[i] = z[i] / A.nz; }
	R c = dot4(A.e1, zh);
	R d[4];
	if (c >= 0) for (int i = 0; i < 4; ++i) d[i] = zh[i] - A.e1[i];
	else for (int i = 0; i < 4; ++i) d[i] = zh[i] + A.e1[i];
	R p = dot4(d, A.e1);
	R n2 = 0;
	for (int i = 0; i < 4; ++i) { A.e2[i] = d[i] - p * A.e1[i]; n2 += A.e2[i] * A.e2[i]; }
	R n = sqrtl(n2);
	A.degenerate = !(n > 0);
	if (A.degenerate) { for (int i = 0; i < 4; ++i) A.e2[i] = 0; A.theta = c >= 0 ? 0 : PI_L; A.sn = 0; A.cs = c >= 0 ? 1 : -1; return A; }
	for (int i = 0; i < 4; ++i) A.e2[i] /= n;
	// re-orthogonalise once (e1 is unit only to 2^-64)
	R q = dot4(A.e2, A.e1);
	for (int i = 0; i < 4; ++i) A.e2[i] -= q * A.e1[i];
	R m = norm4(A.e2);
	for (int i = 0; i < 4; ++i) A.e2[i] /= m;
	A.sn = n; A.cs = c;
	A.theta = atan2l(n, c);
	A.sn = sinl(A.theta); A.cs = cosl(A.theta);
	return A;
}
static inline void arc_point(const Arc& A, R psi, R* out) {
	R cp = cosl(psi), sp = sinl(psi);
	for (int i = 0; i < 4; ++i) out[i] = cp * A.e1[i] + sp * A.e2[i];
}
// coordinates of g relative to the arc: in-plane polar angle, length, distance from the plane
struct Decomp { R g1, g2, perp, len, ang; };
static inline Decomp decompose(const Arc& A, const R* g) {
	Decomp D;
	D.g1 = dot4(g, A.e1); D.g2 = dot4(g, A.e2);
	R s = 0;
	for (int i = 0; i < 4; ++i) { R r = g[i] - D.g1 * A.e1[i] - D.g2 * A.e2[i]; s += r * r; }
	D.perp = sqrtl(s); D.len = norm4(g); D.ang = atan2l(D.g2, D.g1);
	return D;
}
static inline R wrap_pi(R a) { a = fmodl(a, 2 * PI_L); if (a > PI_L) a -= 2 * PI_L; if (a < -PI_L) a += 2 * PI_L; return a; }

// ---------------------------------------------------------------------------------------------
// Forward-error bound of the interpolation formula
//     R = (sin(theta' - a phi') x + sin(a phi') z) / sin(theta'),   theta' = acos(fl(dot(x,z))),  phi' = theta' + k pi
// evaluated in T with unit roundoff u, for inputs of length 1 +- 2u, as a distance on the sphere (K = 8 margin):
//   A  = coefficient scale: every product, the division, the input norms, libm's sin          -> 2 (|k0| + |k1|) + 1
//   B  = rounding of the sine arguments a*phi and theta - a*phi (absolute error u |arg| each,
//        amplified by 1/sin(theta)); for small arguments |sin| <= |arg| so this stays relative   -> 1.5 (|psi| + |theta - psi|) / sin(theta)
//   D  = the angle itself: fl(dot) is off by dc <= 4u, acos turns that into 1.5 dc / sin(theta) (+ 2u theta) as long as
//        sin^2(theta) >= 8 dc (linearisation good to 10%), and the result moves by
//        |dR/dtheta'| = |((1-a) sin psi, a cos psi - sin psi cot theta)| per unit of angle error.
// With k = 0 the D term is O(a^3 theta u) for small theta (the formula tends to the chord). With k != 0 it grows like
// u |sin psi| / sin^2(theta): the spin formula is conditioned by 1/sin^2.
// Where sin^2(theta) < 8 dc = 16 eps the computed cosine may be anything between 1 - 16 eps and 1 (resp. -1): nothing is decided
// (total = infinity) next to antipodal inputs and for k != 0; next to parallel inputs with k = 0 either branch of the implementation
// (documented linear fallback for cos > 1 - eps, or the formula with any theta'^2 <= theta^2 + 16u) stays within
//   chord(theta) = |a(1-a)| theta^2/2 + |a(a^2-1)| theta^3/6          (distance of the chord point (1-a)x + az from the arc point), x2
//   + |a(1-a)| (|1+a| + |2-a|) theta'^2 / 6                           (distance of the formula from the chord point), x2
// of the arc point, in addition to the A and B terms.
struct Tol { R total, k0, k1, sens; bool near_parallel; };
template <class T> static inline Tol arc_tol(const Arc& A, R a, int k) {
	const R u = U<T>(), th = A.theta, INF = 1e300L;
	const R phi = th + k * PI_L, psi = a * phi;
	Tol t;
	t.near_parallel = A.cs > 0 && th * th <= 16 * EPS<T>();
	if (A.degenerate || A.sn <= 0) { t.k0 = rabs(1 - a); t.k1 = rabs(a); t.sens = 0; t.total = (th == 0 && k == 0) ? 8 * u * (2 * (t.k0 + t.k1) + 1) : INF; return t; }
	t.k0 = sinl(th - psi) / A.sn; t.k1 = sinl(psi) / A.sn;
	R Aterm = 2 * (rabs(t.k0) + rabs(t.k1)) + 1;
	R Bterm = 1.5L * (rabs(psi) + rabs(th - psi)) / A.sn;
	R s1 = (1 - a) * sinl(psi), s2 = a * cosl(psi) - sinl(psi) * A.cs / A.sn;
	t.sens = sqrtl(s1 * s1 + s2 * s2);
	if (A.sn * A.sn <= 16 * EPS<T>()) {
		if (!t.near_parallel || k != 0) { t.total = INF; return t; }
		R chord = rabs(a * (1 - a)) * th * th / 2 + rabs(a * (a * a - 1)) * th * th * th / 6;
		R form = rabs(a * (1 - a)) * (rabs(1 + a) + rabs(2 - a)) * (th * th + 16 * u) / 6;
		t.total = 8 * u * (Aterm + Bterm) + 2 * chord + 2 * form;
		return t;
	}
	R dth = 1.5L * 4 * u / A.sn + 2 * u * th;
	t.total = 8 * (u * (Aterm + Bterm) + t.sens * dth);
	return t;
}

// ---------------------------------------------------------------------------------------------
// quaternion algebra (w,x,y,z), for squad / intermediate
static inline void qmul(const R* p, const R* q, R* o) {
	R w = p[0] * q[0] - p[1] * q[1] - p[2] * q[2] - p[3] * q[3];
	R x = p[0] * q[1] + p[1] * q[0] + p[2] * q[3] - p[3] * q[2];
	R y = p[0] * q[2] - p[1] * q[3] + p[2] * q[0] + p[3] * q[1];
	R z = p[0] * q[3] + p[1] * q[2] - p[2] * q[1] + p[3] * q[0];
	o[0] = w; o[1] = x; o[2] = y; o[3] = z;
}
static inline void qinv(const R* q, R* o) { R n2 = dot4(q, q); o[0] = q[0] / n2; o[1] = -q[1] / n2; o[2] = -q[2] / n2; o[3] = -q[3] / n2; }
// logarithm of a quaternion (principal value): (ln|q|, v/|v| * atan2(|v|, w))
static inline void qlog(const R* q, R* o) {
	R vl = sqrtl(q[1] * q[1] + q[2] * q[2] + q[3] * q[3]);
	o[0] = logl(norm4(q));
	if (!(vl > 0)) { o[1] = o[2] = o[3] = 0; return; }
	R t = atan2l(vl, q[0]) / vl;
	o[1] = t * q[1]; o[2] = t * q[2]; o[3] = t * q[3];
}
// exponential of a pure quaternion (w part ignored = exp of the vector part only)
static inline void qexp_pure(const R* q, R* o) {
	R a = sqrtl(q[1] * q[1] + q[2] * q[2] + q[3] * q[3]);
	if (!(a > 0)) { o[0] = 1; o[1] = o[2] = o[3] = 0; return; }
	R s = sinl(a) / a;
	o[0] = cosl(a); o[1] = s * q[1]; o[2] = s * q[2]; o[3] = s * q[3];
}

// ---------------------------------------------------------------------------------------------
// generators
enum UnitClass { UQ_IDENTITY, UQ_AXIS, UQ_COORD_ROT, UQ_RATIONAL, UQ_RANDOM, UQ_MIXED, UQ_N };
static const char* const UQ_NAME[] = {"x:identity", "x:axis", "x:rotation-about-coordinate-axis", "x:rational", "x:random", "x:mixed-magnitude"};

static inline void normalize_r(R* r) { R n = norm4(r); for (int i = 0; i < 4; ++i) r[i] /= n; }
template <class T> static inline void round4(const R* r, T* v) { for (int i = 0; i < 4; ++i) v[i] = (T)r[i]; }

// a unit quaternion in long double (rounded to T by the caller): |q| = 1 up to one rounding per component
static inline int gen_unit_r(pbt::Ctx& c, R* q) {
	int k = (int)c.draw(8);
	int cls;
	for (int i = 0; i < 4; ++i) q[i] = 0;
	if (k == 0) { cls = UQ_IDENTITY; q[0] = c.draw(4) == 3 ? -1 : 1; }
	else if (k == 1) { cls = UQ_AXIS; q[1 + c.draw(3)] = c.coin() ? -1 : 1; }
	else if (k == 2) {
		cls = UQ_COORD_ROT;
		static const double ANG[] = {0.5, 1.0, 0.25, 1.5, 2.0, 3.0, 0.1, 0.01};  // half-angles
		R h = c.coin() ? (R)ANG[c.draw(8)] : (R)c.uniform(-3.1, 3.1);
		q[0] = cosl(h); q[1 + c.draw(3)] = sinl(h);
	} else if (k == 3) {
		cls = UQ_RATIONAL;  // integer quadruples with integer norm: exact in T up to the division
		static const int Q[][5] = {{1, 1, 1, 1, 2}, {1, 2, 2, 4, 5}, {2, 4, 5, 6, 9}, {1, 2, 4, 10, 11}, {2, 3, 6, 0, 7}, {3, 4, 0, 0, 5}, {1, 4, 8, 0, 9}, {2, 6, 9, 0, 11}};
		int j = (int)c.draw(8), rot = (int)c.draw(4);
		for (int i = 0; i < 4; ++i) q[(i + rot) & 3] = (R)Q[j][i] / Q[j][4] * (c.coin() ? -1 : 1);
	} else if (k <= 5) {
		cls = UQ_RANDOM;
		for (int guard = 0; guard < 8; ++guard) { for (int i = 0; i < 4; ++i) q[i] = (R)c.uniform(-1.0, 1.0); if (dot4(q, q) >= 1e-3L) break; }
		if (dot4(q, q) < 1e-3L) q[0] = 1;
		normalize_r(q);
	} else {
		cls = UQ_MIXED;  // components of very different magnitude
		for (int i = 0; i < 4; ++i) q[i] = (R)(c.coin() ? -1.0 : 1.0) * ldexpl(1.0L + (R)c.unit(), -(int)c.range(0, 24));
		q[c.draw(4)] = c.coin() ? -1 : 1;
		normalize_r(q);
	}
	return cls;
}
// unit direction orthogonal to x (x unit): a coordinate axis where x has a zero component (keeps tiny separations exactly
// representable), otherwise Gram-Schmidt of a random vector
static inline void gen_orth_r(pbt::Ctx& c, const R* x, R* d) {
	if (c.draw(3) == 0) {
		int z[4], n = 0;
		for (int i = 0; i < 4; ++i) if (x[i] == 0) z[n++] = i;
		if (n) { for (int i = 0; i < 4; ++i) d[i] = 0; d[z[c.draw(n)]] = c.coin() ? -1 : 1; return; }
	}
	for (int guard = 0;; ++guard) {  // (a replayed/shrunk case draws zeros for ever: bounded retries, then a deterministic direction)
		if (guard < 8) for (int i = 0; i < 4; ++i) d[i] = (R)c.uniform(-1.0, 1.0);
		else { int m = 0; for (int i = 1; i < 4; ++i) if (rabs(x[i]) < rabs(x[m])) m = i; for (int i = 0; i < 4; ++i) d[i] = i == m ? 1 : 0; }
		R p = dot4(d, x);
		for (int i = 0; i < 4; ++i) d[i] -= p * x[i];
		if (dot4(d, d) > 1e-2L) break;
	}
	normalize_r(d);
	R p = dot4(d, x);
	for (int i = 0; i < 4; ++i) d[i] -= p * x[i];
	normalize_r(d);
}

// angular separation classes (4-D angle between x and y)
enum SepClass { SP_NEAR_PARALLEL, SP_NEAR_ANTIPODAL, SP_LINEAR_THRESHOLD, SP_ANTIPODAL_THRESHOLD, SP_NEAR_ORTHOGONAL, SP_UNIFORM, SP_INDEPENDENT, SP_EXACT, SP_N };
static const char* const SP_NAME[] = {"gen:theta log-uniform 1e-9..pi/2", "gen:pi-theta log-uniform 1e-9..pi/2", "gen:theta around the linear-fallback threshold", "gen:pi-theta around the threshold",
                                      "gen:theta around pi/2 (sign flip)", "gen:theta uniform (0,pi)", "gen:independent pair", "gen:exactly equal / antipodal / orthogonal"};

// pair of unit quaternions rounded to T at a generated separation; returns the separation class
template <class T> static inline int gen_pair(pbt::Ctx& c, T* x, T* y, int* xcls) {
	R rx[4], d[4], ry[4];
	*xcls = gen_unit_r(c, rx);
	int sc = (int)c.draw(SP_N);
	const R thr = sqrtl(2 * EPS<T>());  // cos(theta) = 1 - eps  <=>  theta ~ sqrt(2 eps)
	R th = 0;
	switch (sc) {
	case SP_NEAR_PARALLEL: th = (R)c.loguniform(1e-9, 1.5707963267948966); break;
	case SP_NEAR_ANTIPODAL: th = PI_L - (R)c.loguniform(1e-9, 1.5707963267948966); break;
	case SP_LINEAR_THRESHOLD: case SP_ANTIPODAL_THRESHOLD: {
		int m = (int)c.draw(4);
		R f = m == 0 ? (R)c.uniform(0.25, 4.0) : m == 1 ? (R)c.uniform(0.9, 1.1) : m == 2 ? 1 + (R)c.uniform(-1.0, 1.0) * ldexpl(1, -(int)c.range(4, 30)) : (R)c.loguniform(0.01, 100.0);
		th = thr * f;
		if (sc == SP_ANTIPODAL_THRESHOLD) th = PI_L - th;
		break;
	}
	case SP_NEAR_ORTHOGONAL: { R o = (R)c.loguniform(1e-9, 0.1); th = PI_L / 2 + (c.coin() ? o : -o); break; }
	case SP_UNIFORM: th = (R)c.uniform(0.0, 3.141592653589793); break;
	case SP_INDEPENDENT: gen_unit_r(c, ry); round4(rx, x); round4(ry, y); return sc;
	default: {
		round4(rx, x);
		int m = (int)c.draw(3);
		if (m == 0) for (int i = 0; i < 4; ++i) y[i] = x[i];
		else if (m == 1) for (int i = 0; i < 4; ++i) y[i] = -x[i];
		else { gen_orth_r(c, rx, d); round4(d, y); }   // orthogonal up to rounding; exactly orthogonal for axis-like x
		return sc;
	}
	}
	gen_orth_r(c, rx, d);
	R ct = cosl(th), st = sinl(th);
	for (int i = 0; i < 4; ++i) ry[i] = ct * rx[i] + st * d[i];
	round4(rx, x); round4(ry, y);
	return sc;
}

// interpolation factor in [-2,3] with the special values 0, 1, 1/2 and their neighbours
static const char* const TF_NAME[] = {"t:0", "t:1", "t:1/2", "t:within ulps of 0/1/half", "t:k/8", "t:uniform [0,1]", "t:uniform [-2,3]"};
template <class T> static inline T gen_factor(pbt::Ctx& c, int* cls, bool unit_interval_only = false) {
	int k = (int)c.draw(unit_interval_only ? 8 : 10);
	if (k == 0) { *cls = 0; return T(0); }
	if (k == 1) { *cls = 1; return T(1); }
	if (k == 2) { *cls = 2; return T(0.5); }
	if (k == 3) {
		*cls = 3;
		static const double B[] = {0.0, 1.0, 0.5};
		T b = (T)B[c.draw(3)];
		int n = (int)c.range(1, 4);
		T r = fp::from_ordered<T>(fp::ordered(b) + (c.coin() ? n : -n));
		if (unit_interval_only && (r < 0 || r > 1)) r = fp::from_ordered<T>(fp::ordered(b) + (r < 0 ? n : -n));
		return r;
	}
	if (k == 4) { *cls = 4; return (T)((double)c.range(unit_interval_only ? 0 : -16, unit_interval_only ? 8 : 24) / 8.0); }
	if (k <= 7) { *cls = 5; return (T)c.unit(); }
	*cls = 6; return (T)c.uniform(-2.0, 3.0);
}

}  // namespace refslerp
