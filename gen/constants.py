#!/usr/bin/env python3-vt
"""gen/constants.py — writes engine/ref/refconst.hpp: for every constant of glm/ext/scalar_constants.hpp and
glm/gtc/constants.hpp the quantity named by its doc comment, evaluated with mpmath at 120 and 200 digits and rounded
to binary32 / binary64 with exact rational arithmetic (round to nearest, ties to even).

Run with `python3-vt gen/constants.py` (mpmath lives in the tooling venv; plain python3 does not have it, which is
why the generated header is committed). `--check` regenerates in memory and compares with the committed header.
"""
import os, sys
from fractions import Fraction
import mpmath
from mpmath import mp

ROOT = os.path.normpath(os.path.join(os.path.dirname(os.path.abspath(__file__)), '..'))
OUT = os.path.join(ROOT, 'engine', 'ref', 'refconst.hpp')

# (name, header, doc sentence in GLM, quantity as a function of mpmath at the current precision)
CONSTS = [
    ('pi', 'ext/scalar_constants', 'Return the pi constant', lambda: mp.pi),
    ('cos_one_over_two', 'ext/scalar_constants', 'Return the value of cos(1 / 2)', lambda: mp.cos(mp.mpf(1) / 2)),
    ('zero', 'gtc/constants', 'Return 0', lambda: mp.mpf(0)),
    ('one', 'gtc/constants', 'Return 1', lambda: mp.mpf(1)),
    ('two_pi', 'gtc/constants', 'Return pi * 2', lambda: 2 * mp.pi),
    ('tau', 'gtc/constants', 'Return unit-circle circumference, or pi * 2', lambda: 2 * mp.pi),
    ('root_pi', 'gtc/constants', 'Return square root of pi', lambda: mp.sqrt(mp.pi)),
    ('half_pi', 'gtc/constants', 'Return pi / 2', lambda: mp.pi / 2),
    ('three_over_two_pi', 'gtc/constants', 'Return pi / 2 * 3', lambda: mp.pi / 2 * 3),
    ('quarter_pi', 'gtc/constants', 'Return pi / 4', lambda: mp.pi / 4),
    ('one_over_pi', 'gtc/constants', 'Return 1 / pi', lambda: 1 / mp.pi),
    ('one_over_two_pi', 'gtc/constants', 'Return 1 / (pi * 2)', lambda: 1 / (2 * mp.pi)),
    ('two_over_pi', 'gtc/constants', 'Return 2 / pi', lambda: 2 / mp.pi),
    ('four_over_pi', 'gtc/constants', 'Return 4 / pi', lambda: 4 / mp.pi),
    ('two_over_root_pi', 'gtc/constants', 'Return 2 / sqrt(pi)', lambda: 2 / mp.sqrt(mp.pi)),
    ('one_over_root_two', 'gtc/constants', 'Return 1 / sqrt(2)', lambda: 1 / mp.sqrt(2)),
    ('root_half_pi', 'gtc/constants', 'Return sqrt(pi / 2)', lambda: mp.sqrt(mp.pi / 2)),
    ('root_two_pi', 'gtc/constants', 'Return sqrt(2 * pi)', lambda: mp.sqrt(2 * mp.pi)),
    ('root_ln_four', 'gtc/constants', 'Return sqrt(ln(4))', lambda: mp.sqrt(mp.log(4))),
    ('e', 'gtc/constants', 'Return e constant', lambda: mp.e),
    ('euler', 'gtc/constants', "Return Euler's constant (Euler-Mascheroni gamma)", lambda: mp.euler),
    ('root_two', 'gtc/constants', 'Return sqrt(2)', lambda: mp.sqrt(2)),
    ('root_three', 'gtc/constants', 'Return sqrt(3)', lambda: mp.sqrt(3)),
    ('root_five', 'gtc/constants', 'Return sqrt(5)', lambda: mp.sqrt(5)),
    ('ln_two', 'gtc/constants', 'Return ln(2)', lambda: mp.log(2)),
    ('ln_ten', 'gtc/constants', 'Return ln(10)', lambda: mp.log(10)),
    ('ln_ln_two', 'gtc/constants', 'Return ln(ln(2))', lambda: mp.log(mp.log(2))),
    ('third', 'gtc/constants', 'Return 1 / 3', lambda: mp.mpf(1) / 3),
    ('two_thirds', 'gtc/constants', 'Return 2 / 3', lambda: mp.mpf(2) / 3),
    ('golden_ratio', 'gtc/constants', 'Return the golden ratio constant', lambda: (1 + mp.sqrt(5)) / 2),
]
FMT = {'f': (23, -126, 127, 8), 'd': (52, -1022, 1023, 11)}


def to_fraction(v):
    s, m, e, _ = v._mpf_
    f = Fraction(int(m)) * (Fraction(2) ** int(e))
    return -f if s else f


def round_bits(x, kind):
    """Correctly rounded (nearest, ties to even) encoding of the rational x; also returns the distance of x from the
    nearest rounding boundary in units of the result's ulp (to prove the evaluation precision was sufficient)."""
    mant, emin, emax, ebits = FMT[kind]
    sign = 1 if x < 0 else 0
    a = -x if x < 0 else x
    if a == 0:
        return sign << (mant + ebits), Fraction(1, 2)
    e = a.numerator.bit_length() - a.denominator.bit_length()
    if Fraction(2) ** e > a:
        e -= 1
    assert Fraction(2) ** e <= a < Fraction(2) ** (e + 1)
    q = Fraction(2) ** (max(e, emin) - mant)  # quantum
    n = a / q
    lo = n.numerator // n.denominator
    rem = n - lo
    margin = abs(rem - Fraction(1, 2))
    if rem > Fraction(1, 2) or (rem == Fraction(1, 2) and (lo & 1)):
        lo += 1
    if e < emin:
        bits = lo  # subnormal (or the smallest normal after rounding up)
    else:
        if lo == (1 << (mant + 1)):
            lo >>= 1
            e += 1
        assert e <= emax
        bits = ((e + (-emin) + 1) << mant) | (lo & ((1 << mant) - 1))
    return (sign << (mant + ebits)) | bits, margin


def evaluate():
    rows = []
    for name, where, doc, fn in CONSTS:
        res = []
        for dps in (120, 200):
            mp.dps = dps
            v = fn()
            x = to_fraction(mp.mpf(v))
            fb, fm = round_bits(x, 'f')
            db, dm = round_bits(x, 'd')
            res.append((fb, db, fm, dm, mpmath.nstr(v, 50, strip_zeros=False)))
        assert res[0][0] == res[1][0] and res[0][1] == res[1][1], name
        # the true value must be far from a rounding boundary compared with the evaluation error (1e-118 relative)
        exact = name in ('zero', 'one')
        assert exact or (res[1][2] > Fraction(1, 10 ** 30) and res[1][3] > Fraction(1, 10 ** 30)), (name, float(res[1][2]), float(res[1][3]))
        dec = res[1][4]
        rows.append((name, where, doc, res[1][0], res[1][1], dec, dec))
    # epsilon: machine epsilon of the type (std::numeric_limits<T>::epsilon): 2^-23 and 2^-52, exact
    fb, _ = round_bits(Fraction(1, 2 ** 23), 'f')
    db, _ = round_bits(Fraction(1, 2 ** 52), 'd')
    mp.dps = 60
    rows.insert(0, ('epsilon', 'ext/scalar_constants', 'Return the epsilon constant for floating point types (2^-23 / 2^-52)', fb, db,
                    mpmath.nstr(mp.mpf(2) ** -23, 50, strip_zeros=False), mpmath.nstr(mp.mpf(2) ** -52, 50, strip_zeros=False)))
    return rows


def render(rows):
    o = ['// refconst.hpp — GENERATED by gen/constants.py (python3-vt, mpmath %s); do not edit.' % mpmath.__version__,
         '// Correctly rounded binary32 / binary64 encodings of the quantities named by the doc comments of',
         '// glm/ext/scalar_constants.hpp and glm/gtc/constants.hpp (evaluated at 120 and 200 digits, rounded to nearest-even',
         '// with exact rational arithmetic). `f_lit` / `d_lit` are the same quantity as 50-digit decimal literals: the',
         "// compiler's own decimal->binary conversion is a second opinion on the rounding (checked by the harness).",
         '#pragma once', '#include <cstdint>', '', 'namespace refconst {', '',
         'struct Entry { const char* name; const char* where; const char* doc; uint32_t f_bits; uint64_t d_bits; float f_lit; double d_lit; const char* f_dec; const char* d_dec; };',
         '', 'static const Entry TABLE[] = {']
    for name, where, doc, fb, db, fdec, ddec in rows:
        o.append('\t{"%s", "%s", "%s", 0x%08xu, 0x%016xull, %s, %s, "%s", "%s"},' % (name, where, doc.replace('"', "'"), fb, db, fdec + 'f', ddec, fdec, ddec))
    o += ['};', 'static const int N = sizeof(TABLE) / sizeof(TABLE[0]);', '', '}  // namespace refconst', '']
    return '\n'.join(o)


if __name__ == '__main__':
    text = render(evaluate())
    if '--check' in sys.argv:
        with open(OUT) as f:
            same = f.read() == text
        print('refconst.hpp is %s' % ('up to date' if same else 'STALE'))
        sys.exit(0 if same else 1)
    with open(OUT, 'w') as f:
        f.write(text)
    print('wrote', OUT, '(%d constants)' % len(evaluate()))
