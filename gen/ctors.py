#!/usr/bin/env python3
"""gen/ctors.py — program generator for C17: enumerates constructor signatures of vec, mat and qua.

Vectors: every composition of argument shapes summing to L (parts of 1, 2 or 3 components; each 1-component part once
as a scalar and once as a vec1), the single-argument forms (scalar and vec1 broadcast, same-length conversion, longer
vector truncating), crossed with element-type assignments (all equal to the destination, plus one rotation of the type
list per type so every (position, type) pair occurs) and source qualifiers. Only shapes GLM declares are generated
(type_vec{1,2,3,4}.hpp): vec1 arguments of an all-scalar signature carry the destination's qualifier, all vector
arguments of a mixed signature share one source qualifier.
Matrices: one scalar (diagonal), C*R scalars, C columns (also mixed element types), element-type / qualifier conversion,
and the 9 x 9 shape conversions. Quaternions: four scalars, (scalar, vec3), wxyz(), conversions.
A row is `C17_CTOR(id, kind, name, mode, SC, SR, destination, arguments...)`; the mode is the placement rule of
engine/ref/refc17.hpp and the name is the signature, e.g. ctor/vec4<int>(vec2<float>,float,vec1<double>). Stdlib only.

    python3 gen/ctors.py default quick     # prints the rows
"""
import sys

CXX = {'bool': 'bool', 'int8': 'glm::int8', 'uint8': 'glm::uint8', 'int16': 'glm::int16', 'uint16': 'glm::uint16', 'int': 'int', 'uint': 'glm::uint',
       'int64': 'glm::int64', 'uint64': 'glm::uint64', 'float': 'float', 'double': 'double'}
ALL_TYPES = ['bool', 'int8', 'uint8', 'int16', 'uint16', 'int', 'uint', 'int64', 'uint64', 'float', 'double']
BASIC_TYPES = ['bool', 'int', 'uint', 'float', 'double']
SHAPES9 = [(c, r) for c in (2, 3, 4) for r in (2, 3, 4)]


def ql(t, q):
    return t if q == 'packed_highp' else '%s,%s' % (t, q)


class A:
    """One argument (or destination): kind 's' scalar, 'v' vector, 'm' matrix, 'q' quaternion."""

    def __init__(self, kind, t, q='packed_highp', n=1, r=0):
        self.kind, self.t, self.q, self.n, self.r = kind, t, q, n, r

    def cxx(self):
        if self.kind == 's':
            return CXX[self.t]
        if self.kind == 'v':
            return 'glm::vec<%d, %s, glm::%s>' % (self.n, CXX[self.t], self.q)
        if self.kind == 'm':
            return 'glm::mat<%d, %d, %s, glm::%s>' % (self.n, self.r, CXX[self.t], self.q)
        return 'glm::qua<%s, glm::%s>' % (CXX[self.t], self.q)

    def label(self):
        if self.kind == 's':
            return self.t
        if self.kind == 'v':
            return 'vec%d<%s>' % (self.n, ql(self.t, self.q))
        if self.kind == 'm':
            return 'mat%dx%d<%s>' % (self.n, self.r, ql(self.t, self.q))
        return 'qua<%s>' % ql(self.t, self.q)

    def aligned(self):
        return self.kind != 's' and self.q.startswith('aligned')


def ctor_row(kind, mode, dest, args, sc=0, sr=0, suffix=''):
    name = 'ctor/%s(%s)%s' % (dest.label(), ','.join(a.label() for a in args), suffix)
    code = 'C17_CTOR(@ID@, %s, "%s", c17::%s, %d, %d, %s)' % (kind, name, mode, sc, sr, ', '.join([dest.cxx()] + [a.cxx() for a in args]))
    return name, code


def compositions(n, parts=(1, 2, 3)):
    if n == 0:
        yield ()
        return
    for p in parts:
        if p <= n:
            for rest in compositions(n - p, parts):
                yield (p,) + rest


def vec_shapes(L):
    """-> list of (parts, mode); a part is 'S' (scalar) or an int M (vector of M components, 1 = vec1)."""
    out = []
    for comp in compositions(L):
        if len(comp) < 2:
            continue
        ones = [i for i, p in enumerate(comp) if p == 1]
        for mask in range(1 << len(ones)):
            parts = list(comp)
            for b, i in enumerate(ones):
                parts[i] = 1 if (mask >> b) & 1 else 'S'
            out.append((parts, 'M_SEQ'))
    out.append((['S'], 'M_BROADCAST' if L > 1 else 'M_SEQ'))
    out.append(([1], 'M_BROADCAST' if L > 1 else 'M_SEQ'))
    for M in (2, 3, 4):
        if M == L:
            out.append(([M], 'M_SEQ'))
        elif M > L:
            out.append(([M], 'M_TRUNC'))
    return out


def type_assignments(T, n, types):
    seen, out = set(), []
    for a in [tuple([T] * n)] + [tuple(types[(i + r) % len(types)] for i in range(n)) for r in range(len(types))]:
        if a not in seen:
            seen.add(a)
            out.append(a)
    return out


def vec_units(dests, types, src_quals, only_aligned=False):
    units = []
    for T, Q in dests:
        for L in (1, 2, 3, 4):
            rows = []
            dest = A('v', T, Q, L)
            for parts, mode in vec_shapes(L):
                all_single = len(parts) > 1 and all(p in ('S', 1) for p in parts)
                for ai, tys in enumerate(type_assignments(T, len(parts), types)):
                    quals = [Q] if all_single else [src_quals[ai % len(src_quals)]]
                    if not all_single and ai == 0:
                        quals = list(src_quals)  # the same-type signature with every source qualifier
                    for P in quals:
                        args = [A('s', t) if p == 'S' else A('v', t, P, p) for p, t in zip(parts, tys)]
                        if only_aligned and not (dest.aligned() or any(a.aligned() for a in args)):
                            continue
                        rows.append(ctor_row('c17::K_CTOR_VEC', mode, dest, args))
            rows = list(dict(rows).items())
            if rows:
                units.append({'key': 'ctor/vec%d<%s>' % (L, ql(T, Q)), 'group': 'ctor/vec%d<%s>/all-signatures' % (L, ql(T, Q)), 'kind': 'c17::K_CTOR_VEC', 'rows': rows})
    return units


def mat_units(dests, types, src_quals, shapes=SHAPES9):
    units = []
    for T, Q in dests:
        others = [t for t in types if t != T and t != 'bool']
        for C, R in shapes:
            rows = []
            dest = A('m', T, Q, C, R)
            k = 'c17::K_CTOR_MAT'
            # one scalar: diagonal
            rows.append(ctor_row(k, 'M_DIAG', dest, [A('s', T)]))
            rows.append(ctor_row(k, 'M_DIAG', dest, [A('s', others[(C + R) % len(others)])]))
            # C*R scalars, column-major
            rows.append(ctor_row(k, 'M_SEQ', dest, [A('s', T)] * (C * R)))
            for r in (1, 3):
                rows.append(ctor_row(k, 'M_SEQ', dest, [A('s', types[(i + r) % len(types)]) for i in range(C * R)]))
            rows.append(ctor_row(k, 'M_SEQ', dest, [A('s', others[(C * R) % len(others)])] * (C * R)))
            # C columns; mixed element types carry the destination's qualifier (as declared)
            rows.append(ctor_row(k, 'M_SEQ', dest, [A('v', T, Q, R)] * C))
            for r in (1, 2):
                rows.append(ctor_row(k, 'M_SEQ', dest, [A('v', types[(i + r) % len(types)], Q, R) for i in range(C)]))
            # same shape: element type and qualifier conversions
            for P in src_quals:
                if P != Q:
                    rows.append(ctor_row(k, 'M_SEQ', dest, [A('m', T, P, C, R)]))
            for i, U in enumerate(others[:3]):
                rows.append(ctor_row(k, 'M_SEQ', dest, [A('m', U, src_quals[i % len(src_quals)], C, R)]))
            # the 9 shape conversions (same T, Q): overlapping block copied, the rest from the identity
            for C2, R2 in SHAPES9:
                rows.append(ctor_row(k, 'M_SHAPE', dest, [A('m', T, Q, C2, R2)], C2, R2, suffix='/shape' if (C2, R2) == (C, R) else ''))
            rows = list(dict(rows).items())
            units.append({'key': 'ctor/mat%dx%d<%s>' % (C, R, ql(T, Q)), 'group': 'ctor/mat%dx%d<%s>/all-signatures' % (C, R, ql(T, Q)), 'kind': k, 'rows': rows})
    return units


def qua_units(dests, src_quals, order='wxyz'):
    units = []
    for T, Q in dests:
        k = 'c17::K_CTOR_QUA'
        dest = A('q', T, Q)
        rows = [ctor_row(k, 'M_SEQ' if order == 'wxyz' else 'M_QUA_XYZW', dest, [A('s', T)] * 4),
                ctor_row(k, 'M_SEQ', dest, [A('s', T), A('v', T, Q, 3)])]
        name = 'ctor/%s::wxyz(%s)' % (dest.label(), ','.join([T] * 4))
        rows.append((name, 'C17_WXYZ(@ID@, %s, "%s", %s)' % (k, name, dest.cxx())))
        for U in ('float', 'double'):
            for P in src_quals:
                if (U, P) != (T, Q):
                    rows.append(ctor_row(k, 'M_SEQ', dest, [A('q', U, P)]))
        rows.append(ctor_row(k, 'M_SEQ', dest, [A('q', T, Q)], suffix='/copy'))
        units.append({'key': 'ctor/qua<%s>' % ql(T, Q), 'group': 'ctor/qua<%s>/all-signatures' % ql(T, Q), 'kind': k, 'rows': rows})
    return units


def plan(stage, tier):
    th = tier == 'thorough'
    H, M, Lo = 'packed_highp', 'packed_mediump', 'packed_lowp'
    AH, AM, AL = 'aligned_highp', 'aligned_mediump', 'aligned_lowp'
    if stage == 'default':
        types = ALL_TYPES if th else BASIC_TYPES
        vd = [(t, H) for t in (ALL_TYPES if th else ['float', 'int', 'bool', 'uint', 'double'])] + ([('float', M), ('int', Lo)] if th else [])
        md = [(t, H) for t in (['float', 'double', 'int', 'uint', 'int16', 'uint64'] if th else ['float', 'int'])] + ([('float', Lo)] if th else [])
        quals = [H, M, Lo] if th else [H, M]
        return vec_units(vd, types, quals) + mat_units(md, types, quals) + qua_units([('float', H), ('double', H)] + ([('float', M)] if th else []), quals)
    if stage == 'wxyz':
        return qua_units([('float', H), ('double', H)], [H, M] + ([Lo] if th else []))
    if stage == 'xyzw':
        return qua_units([('float', H), ('double', H)], [H, M], order='xyzw')
    if stage == 'simd':
        ts = ['float', 'int', 'uint', 'double']  # the element types with hand-written SSE/AVX constructors and qualifier copies
        quals = [AH, H, M] + ([AM, AL, Lo] if th else [])  # mediump sources reach the generic CTOR_*_COPY3 macros
        vd = [(t, q) for t in ts for q in ([AH, H] + ([AL] if th else []))]
        md = [('float', AH)] + ([('double', AH), ('int', AH)] if th else [])
        return (vec_units(vd, BASIC_TYPES, quals, only_aligned=True) + mat_units(md, BASIC_TYPES, [AH, H], shapes=SHAPES9 if th else [(2, 2), (3, 3), (4, 4), (4, 3), (2, 4)])
                + qua_units([('float', AH)] + ([('double', AH)] if th else []), [AH, H]))
    raise ValueError(stage)


PRELUDE = {
    'default': '#include "props/C17_ctor_shard.cpp"\n',
    'wxyz': '#include "props/C17_ctor_shard.cpp"\n#ifndef GLM_FORCE_QUAT_DATA_WXYZ\n#error "stage wxyz must be built with -DGLM_FORCE_QUAT_DATA_WXYZ"\n#endif\n',
    'xyzw': '#include "props/C17_ctor_shard.cpp"\n#ifndef GLM_FORCE_QUAT_DATA_XYZW\n#error "stage xyzw must be built with -DGLM_FORCE_QUAT_DATA_XYZW"\n#endif\n',
    'simd': '#define C17_EXPECT_SIMD 1\n#include "props/C17_ctor_shard.cpp"\n',
}

if __name__ == '__main__':
    st = sys.argv[1] if len(sys.argv) > 1 else 'default'
    tr = sys.argv[2] if len(sys.argv) > 2 else 'quick'
    us = plan(st, tr)
    for u in us:
        for name, code in u['rows']:
            print(code)
    sys.stderr.write('%d units, %d rows\n' % (len(us), sum(len(u['rows']) for u in us)))
