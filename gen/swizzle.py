#!/usr/bin/env python3
"""gen/swizzle.py — program generator for C17: enumerates every swizzle accessor.

For a source vector of length L in 1..4 and a letter set (xyzw / rgba / stpq) every pattern of 1, 2, 3 and 4 letters
over the first L letters is one *row*: the accessor expression to compile plus the index tuple it names (the oracle).
Three implementations:
  function : member functions `v.wzyx()`            (-DGLM_FORCE_SWIZZLE, no language extensions)      kind swizzle/function
  free     : gtx/vec_swizzle.hpp `glm::wzyx(v)`     (xyzw letters only; built in the same stage)       kind swizzle/free
  operator : proxy members `v.wzyx`                 (-DGLM_FORCE_SWIZZLE -DGLM_FORCE_INTRINSICS -m..)  kind swizzle/operator
             on packed sources (generic _swizzle_base1<...,false>) and on aligned sources (the _mm_shuffle
             specialisations of type_vec_simd.inl for float/int/uint).
Rows are grouped in units (element type, qualifier, source length, letter set); lib/specs/C17.py packs units into
shard TUs, runs the syntax-only pre-pass and writes the shard files. Stdlib only.

    python3 gen/swizzle.py function quick      # prints the rows (name, macro call) for inspection
"""
import itertools
import sys

LETTERS = {'xyzw': 'xyzw', 'rgba': 'rgba', 'stpq': 'stpq'}
# element type name -> C++ spelling
CXX = {'bool': 'bool', 'int8': 'glm::int8', 'uint8': 'glm::uint8', 'int16': 'glm::int16', 'uint16': 'glm::uint16', 'int': 'int', 'uint': 'glm::uint',
       'int64': 'glm::int64', 'uint64': 'glm::uint64', 'float': 'float', 'double': 'double'}
ALL_TYPES = ['bool', 'int8', 'uint8', 'int16', 'uint16', 'int', 'uint', 'int64', 'uint64', 'float', 'double']
QUICK_TYPES = ['float', 'int']
SIMD_TYPES = ['float', 'int', 'uint']  # element types with an _mm_shuffle specialisation of _swizzle_base1<..., true>


def tq(t, q):
    return t if q == 'packed_highp' else '%s@%s' % (t, q)


def patterns(L, lengths=(1, 2, 3, 4)):
    """Every index tuple of the given lengths over 0..L-1, in lexicographic order."""
    for n in lengths:
        for p in itertools.product(range(L), repeat=n):
            yield p


def row(kind, impl, label, t, q, L, letters, p):
    pat = ''.join(letters[i] for i in p)
    n = len(p)
    idx = ','.join(str(i) for i in p) + ',0' * (4 - n)
    name = 'swizzle/%s/%s/vec%d/%s' % (label, tq(t, q), L, pat)
    vtype = '(glm::vec<%d, %s, glm::%s>)' % (L, CXX[t], q)
    if n == 1:
        acc, impl = 'v.%s' % pat, 'c17s::I_MEMBER'  # the named data member itself
    elif label == 'function':
        acc = 'v.%s()' % pat
    elif label == 'free':
        acc = 'glm::%s(v)' % pat
    else:
        acc = 'v.%s' % pat
    code = 'C17_SWZ(@ID@, %s, %s, "%s", %s, %d, %s, %s)' % (kind, impl, name, vtype, n, idx, acc)
    return name, code


def unit(kind, impl, label, t, q, L, setname, lengths=(1, 2, 3, 4)):
    rows = [row(kind, impl, label, t, q, L, LETTERS[setname], p) for p in patterns(L, lengths)]
    return {'key': '%s/%s/vec%d/%s' % (label, tq(t, q), L, setname), 'group': 'swizzle/%s/%s/vec%d/all-%s' % (label, tq(t, q), L, setname), 'kind': kind, 'rows': rows}


def plan(stage, tier):
    """-> list of units for the stage ('function' covers kinds function+free, 'operator' covers operator)."""
    thorough = tier == 'thorough'
    units = []
    if stage in ('function', 'function-basic'):  # -basic: float and int only, for the secondary configurations
        thorough = thorough and stage == 'function'
        tqs = [(t, 'packed_highp') for t in (ALL_TYPES if thorough else QUICK_TYPES)]
        if thorough:
            tqs += [('float', 'packed_mediump'), ('int', 'packed_lowp')]
        for t, q in tqs:
            for L in (1, 2, 3, 4):  # vec1 has no swizzle functions: the rows are generated and counted as absent
                for s in ('xyzw', 'rgba', 'stpq'):
                    units.append(unit('c17::K_SWZ_FUNCTION', 'c17s::I_FUNCTION', 'function', t, q, L, s))
                units.append(unit('c17::K_SWZ_FREE', 'c17s::I_FREE', 'free', t, q, L, 'xyzw', lengths=(2, 3, 4)))
    elif stage == 'operator':
        packed = [(t, 'packed_highp') for t in (ALL_TYPES if thorough else QUICK_TYPES)]
        aligned = [(t, 'aligned_highp') for t in SIMD_TYPES]
        if thorough:
            packed += [('float', 'packed_mediump')]
            aligned += [('float', 'aligned_mediump'), ('float', 'aligned_lowp'), ('double', 'aligned_highp'), ('int8', 'aligned_highp')]
        for t, q in packed:
            for L in (1, 2, 3, 4):
                for s in ('xyzw', 'rgba', 'stpq'):
                    units.append(unit('c17::K_SWZ_OPERATOR', 'c17s::I_OPERATOR', 'operator', t, q, L, s))
        for t, q in aligned:
            for s in ('xyzw', 'rgba', 'stpq'):
                # (aligned vec2 is 8 bytes: before the fix recorded under C20 its 4-letter swizzles went through the 16-byte SIMD
                # load of _swizzle_base1<L,float|int|uint,Q,...,true>)
                units.append(unit('c17::K_SWZ_OPERATOR', 'c17s::I_OPERATOR', 'operator', t, q, 2, s))
                units.append(unit('c17::K_SWZ_OPERATOR', 'c17s::I_OPERATOR', 'operator', t, q, 3, s))
                units.append(unit('c17::K_SWZ_OPERATOR', 'c17s::I_OPERATOR', 'operator', t, q, 4, s))
    else:
        raise ValueError(stage)
    return units


PRELUDE = {
    'function-basic': '#define C17_EXPECT_FUNCTION 1\n#define C17_WITH_FREE 1\n#include "props/C17_swizzle_shard.cpp"\n',
    'function': '#define C17_EXPECT_FUNCTION 1\n#define C17_WITH_FREE 1\n#include "props/C17_swizzle_shard.cpp"\n',
    'operator': '#define C17_EXPECT_OPERATOR 1\n#include "props/C17_swizzle_shard.cpp"\n',
}

if __name__ == '__main__':
    st = sys.argv[1] if len(sys.argv) > 1 else 'function'
    tr = sys.argv[2] if len(sys.argv) > 2 else 'quick'
    us = plan(st, tr)
    for u in us:
        for name, code in u['rows']:
            print(code)
    sys.stderr.write('%d units, %d rows\n' % (len(us), sum(len(u['rows']) for u in us)))
