"""C01 generator: the overload matrix as -fsyntax-only probes, bisected, and the header c01_have.hpp that the
harness files include (traits Have<Op,shape,L,T> / HaveFn<Fn,T> = false for instances whose body does not
compile, plus C01_INST_LIST for the `instantiation` target).

A *leaf* is one signature (operator x shape x L x element type, or function x element type) with every qualifier
of the tier inside; leaves are grouped in a tree (operator,L) -> shape -> type resp. function -> type. A node is
probed as one translation unit; only failing nodes are split further, so the unchanged tree costs ~60 compilations.
"""
import os
import vlib

QUICK_TYPES = ['float', 'double', 'int32', 'uint32', 'int8', 'uint64']
ALL_TYPES = ['float', 'double', 'int8', 'uint8', 'int16', 'uint16', 'int32', 'uint32', 'int64', 'uint64']
CPP = {'float': 'float', 'double': 'double', 'bool': 'bool', 'int8': 'glm::int8', 'uint8': 'glm::uint8', 'int16': 'glm::int16', 'uint16': 'glm::uint16',
       'int32': 'glm::int32', 'uint32': 'glm::uint32', 'int64': 'glm::int64', 'uint64': 'glm::uint64'}
STD = {t: (t if t in ('float', 'double', 'bool') else t + '_t') for t in CPP}  # same types, spelled without GLM (the header is also included by GLM-free files)
FLOATS = ['float', 'double']
OPS = [('add', '+', 0), ('sub', '-', 0), ('mul', '*', 0), ('div', '/', 0), ('mod', '%', 1), ('and', '&', 1), ('or', '|', 1), ('xor', '^', 1), ('shl', '<<', 1), ('shr', '>>', 1)]
SHAPES = ['vec.vec', 'vec.scalar', 'scalar.vec', 'vec.vec1', 'vec1.vec', 'assign.vec', 'assign.scalar', 'assign.vec1']
SHAPE_EXPR = ['a {op} b', 'a {op} s', 's {op} a', 'a {op} o', 'o {op} a', 'a {op}= b', 'a {op}= s', 'a {op}= o']

PRELUDE = '''#include <glm/glm.hpp>
#include <glm/ext/scalar_int_sized.hpp>
#include <glm/ext/scalar_uint_sized.hpp>
#include <glm/ext/scalar_common.hpp>
#include <glm/ext/vector_common.hpp>
#include <glm/ext/scalar_integer.hpp>
#include <glm/ext/vector_integer.hpp>
#include <glm/ext/scalar_relational.hpp>
#include <glm/ext/vector_relational.hpp>
#include <glm/ext/matrix_relational.hpp>
#include <glm/ext/matrix_common.hpp>
#include <glm/ext/scalar_reciprocal.hpp>
#include <glm/ext/vector_reciprocal.hpp>
#include <glm/gtx/component_wise.hpp>
'''
PRELUDE_OPS = '#include <glm/vec2.hpp>\n#include <glm/vec3.hpp>\n#include <glm/vec4.hpp>\n#include <glm/ext/vector_float1.hpp>\n#include <glm/ext/scalar_int_sized.hpp>\n#include <glm/ext/scalar_uint_sized.hpp>\n'
PRELUDE_EMM = '#include <glm/gtx/extended_min_max.hpp>\n#include <glm/ext/scalar_int_sized.hpp>\n#include <glm/ext/scalar_uint_sized.hpp>\n'

# function probes: name -> (type class, body using V a,b,d (vec<L,T,Q>), T s,t, vec<L,bool,Q> m, vec<L,int,Q> iv, int n)
# type classes: F floats, I integers, S signed integers + floats, N every numeric type
FNS = {
    'abs': ('S', 'glm::abs(a); glm::abs(s);'), 'sign': ('S', 'glm::sign(a); glm::sign(s);'),
    'min': ('N', 'glm::min(a,b); glm::min(a,s); glm::min(s,t);'), 'max': ('N', 'glm::max(a,b); glm::max(a,s); glm::max(s,t);'),
    'clamp': ('N', 'glm::clamp(a,b,d); glm::clamp(a,s,t); glm::clamp(s,t,s);'),
    'mix-bool': ('N', 'glm::mix(a,b,m); glm::mix(a,b,true); glm::mix(s,t,true);'),
    'min3': ('N', 'glm::min(a,b,d); glm::min(s,t,s); glm::min(a,b,d,a); glm::min(s,t,s,t);'), 'max3': ('N', 'glm::max(a,b,d); glm::max(s,t,s); glm::max(a,b,d,a); glm::max(s,t,s,t);'),
    'relational': ('N', 'glm::lessThan(a,b); glm::lessThanEqual(a,b); glm::greaterThan(a,b); glm::greaterThanEqual(a,b); glm::equal(a,b); glm::notEqual(a,b);'),
    'bitCount': ('I', 'glm::bitCount(a); glm::bitCount(s);'), 'findLSB': ('I', 'glm::findLSB(a); glm::findLSB(s);'), 'findMSB': ('I', 'glm::findMSB(a); glm::findMSB(s);'),
    'bitfieldReverse': ('I', 'glm::bitfieldReverse(a); glm::bitfieldReverse(s);'), 'bitfieldExtract': ('I', 'glm::bitfieldExtract(a,1,2); glm::bitfieldExtract(s,1,2);'),
    'bitfieldInsert': ('I', 'glm::bitfieldInsert(a,b,1,2); glm::bitfieldInsert(s,t,1,2);'),
    'isPowerOfTwo': ('I', 'glm::isPowerOfTwo(a); glm::isPowerOfTwo(s);'), 'nextPowerOfTwo': ('I', 'glm::nextPowerOfTwo(a); glm::nextPowerOfTwo(s);'),
    'prevPowerOfTwo': ('I', 'glm::prevPowerOfTwo(a); glm::prevPowerOfTwo(s);'), 'isMultiple': ('I', 'glm::isMultiple(a,b); glm::isMultiple(a,s); glm::isMultiple(s,t);'),
    'nextMultiple': ('I', 'glm::nextMultiple(a,b); glm::nextMultiple(a,s); glm::nextMultiple(s,t);'), 'prevMultiple': ('I', 'glm::prevMultiple(a,b); glm::prevMultiple(a,s); glm::prevMultiple(s,t);'),
    'findNSB': ('I', 'glm::findNSB(a,iv); glm::findNSB(s,n);'),
    'compAddMul': ('N', 'glm::compAdd(a); glm::compMul(a); glm::compMin(a); glm::compMax(a);'),
}


def type_ok(cls, t):
    if cls == 'F':
        return t in FLOATS
    if cls == 'I':
        return t not in FLOATS
    if cls == 'S':
        return t in FLOATS or not t.startswith('u')
    return True


def op_leaf_code(opname, tok, shape, L, t, quals):
    out = []
    for q in quals:
        out.append('void p_%s_%d_%d_%s_%s(glm::vec<%d,%s,glm::%s> a, glm::vec<%d,%s,glm::%s> b, %s s, glm::vec<1,%s,glm::%s> o) { (void)(%s); }' % (
            opname, shape, L, t, q, L, CPP[t], q, L, CPP[t], q, CPP[t], CPP[t], q, SHAPE_EXPR[shape].format(op=tok)))
    return '\n'.join(out)


def fn_leaf_code(fn, t, quals):
    body = FNS[fn][1]
    out = []
    for q in quals:
        for L in (1, 2, 3, 4):
            out.append('void p_%s_%s_%s_%d(glm::vec<%d,%s,glm::%s> a, glm::vec<%d,%s,glm::%s> b, glm::vec<%d,%s,glm::%s> d, %s s, %s t, glm::vec<%d,bool,glm::%s> m, glm::vec<%d,int,glm::%s> iv, int n) { %s }' % (
                fn.replace('-', '_'), t, q, L, L, CPP[t], q, L, CPP[t], q, L, CPP[t], q, CPP[t], CPP[t], L, q, L, q, body))
    return '\n'.join(out)


def leaves(types, quals):
    """-> list of dict(path=(..), sig=str, code=str, prelude=str, cpp=str (trait specialisation when the leaf fails))"""
    res = []
    for opname, tok, intonly in OPS:
        for L in (1, 2, 3, 4):
            for sh in range(8):
                if L == 1 and sh in (3, 4, 7):
                    continue
                for t in types:
                    if intonly and t in FLOATS:
                        continue
                    res.append(dict(path=('op-%s/L%d' % (opname, L), SHAPES[sh], t), sig='op-%s/%s/vec%d<%s>' % (opname, SHAPES[sh], L, t), prelude=PRELUDE_OPS,
                                    code=op_leaf_code(opname, tok, sh, L, t, quals),
                                    cpp='template <> struct Have<Op_%s, %d, %d, %s> { static const bool v = false; };' % (opname, sh, L, STD[t])))
    for fn in sorted(FNS):
        for t in types:
            if type_ok(FNS[fn][0], t):
                res.append(dict(path=('fn-' + fn, t), sig='%s/vec1-4<%s>' % (fn, t), prelude=PRELUDE, code=fn_leaf_code(fn, t, quals),
                                cpp='template <> struct HaveFn<Fn_%s, %s> { static const bool v = false; };' % (fn.replace('-', '_'), STD[t])))
    # gtx/extended_min_max: the documented scalar and vector/scalar overloads must be callable once the header is included
    for t in [x for x in types if x in ('float', 'int32')]:
        res.append(dict(path=('gtx-extended_min_max', 'scalar3', t), sig='gtx_extended_min_max/min(T,T,T)/%s' % t, prelude=PRELUDE_EMM,
                        code='%s f3(%s x, %s y, %s z) { return glm::min(x, y, z) + glm::max(x, y, z); }' % ((CPP[t],) * 4), macro='C01_HAVE_EMM_SCALAR3_%s' % t))
        res.append(dict(path=('gtx-extended_min_max', 'scalar4', t), sig='gtx_extended_min_max/min(T,T,T,T)/%s' % t, prelude=PRELUDE_EMM,
                        code='%s f4(%s x, %s y, %s z, %s w) { return glm::min(x, y, z, w) + glm::max(x, y, z, w); }' % ((CPP[t],) * 5), macro='C01_HAVE_EMM_SCALAR4_%s' % t))
        res.append(dict(path=('gtx-extended_min_max', 'vec.scalar.scalar', t), sig='gtx_extended_min_max/min(vec,T,T)/%s' % t, prelude=PRELUDE_EMM,
                        code='void fv(glm::vec<3,%s,glm::highp> x, %s y, %s z) { glm::min(x, y, z); glm::max(x, y, z); glm::min(x, y, z, y); glm::max(x, y, z, y); }' % ((CPP[t],) * 3),
                        macro='C01_HAVE_EMM_VSS_%s' % t))
        res.append(dict(path=('gtx-extended_min_max', 'vec.vec.vec', t), sig='gtx_extended_min_max/min(vec,vec,vec)/%s' % t, prelude=PRELUDE_EMM,
                        code='void fw(glm::vec<3,%s,glm::highp> x) { glm::min(x, x, x); glm::max(x, x, x); glm::min(x, x, x, x); glm::max(x, x, x, x); }' % CPP[t],
                        macro='C01_HAVE_EMM_VVV_%s' % t))
    # matrix versions (ext/matrix_common, ext/matrix_relational), one leaf per shape with float and double and every qualifier
    for C in (2, 3, 4):
        for R in (2, 3, 4):
            for fn, body in (('abs', 'glm::abs(x);'), ('mix-scalar', 'glm::mix(x, y, s);'), ('mix-mat', 'glm::mix(x, y, x);'),
                             ('equal', 'glm::equal(x, y); glm::notEqual(x, y); glm::equal(x, y, s); glm::notEqual(x, y, s); glm::equal(x, y, e); glm::notEqual(x, y, e); '
                                       'glm::equal(x, y, 1); glm::notEqual(x, y, 1); glm::equal(x, y, u); glm::notEqual(x, y, u);')):
                code = '\n'.join('void pm_%s_%d%d_%s_%s(glm::mat<%d,%d,%s,glm::%s> x, glm::mat<%d,%d,%s,glm::%s> y, %s s, glm::vec<%d,%s,glm::%s> e, glm::vec<%d,int,glm::%s> u) { %s }' % (
                    fn.replace('-', '_'), C, R, t, q, C, R, t, q, C, R, t, q, t, C, t, q, C, q, body) for t in ('float', 'double') for q in quals)
                res.append(dict(path=('mat-' + fn, '%dx%d' % (C, R)), sig='%s/mat%dx%d<float|double>' % (fn if fn != 'equal' else 'equal+notEqual', C, R), prelude=PRELUDE, code=code,
                                macro='C01_HAVE_MAT_%s_%d%d' % (fn.replace('-', '_').upper(), C, R)))
    return res


def bisect(pid, lv, flags=()):
    """Hierarchical probing. Returns {sig: (ok, err)}."""
    result = {}
    level = 1
    pending = {}
    for l in lv:
        pending.setdefault(l['path'][:1], []).append(l)
    nprobes = 0
    while pending:
        probes, pre = {}, {}
        for node, ls in pending.items():
            # leaves of a node share the prelude by construction of the tree roots
            probes['/'.join(node)] = ls[0]['prelude'] + '\n'.join(l['code'] for l in ls)
        nprobes += len(probes)
        res = vlib.syntax_probe(pid, probes, '', flags)
        nxt = {}
        for node, ls in pending.items():
            ok, err = res['/'.join(node)]
            if ok:
                for l in ls:
                    result[l['sig']] = (True, '')
            elif len(ls) == 1 and len(ls[0]['path']) <= len(node):
                result[ls[0]['sig']] = (False, err)
            else:
                for l in ls:
                    nxt.setdefault(l['path'][:len(node) + 1], []).append(l)
        pending = nxt
        level += 1
    return result, nprobes


def generate(pid, stage, tier):
    types = ALL_TYPES if tier == 'thorough' else QUICK_TYPES
    quals = ['highp', 'mediump', 'lowp'] if tier == 'thorough' else ['highp', 'lowp']
    lv = leaves(types, quals)
    res, nprobes = bisect(pid, lv)
    lines = ['// generated by gen/c01_gen.py (syntax-only pre-pass, %d leaves, %d probes); false = the declared overload does not compile' % (len(lv), nprobes),
             '#pragma once', '#include <cstdint>', 'namespace c01 {',
             'template <class Op, int Shape, int L, class T> struct Have { static const bool v = true; };',
             'template <class Fn, class T> struct HaveFn { static const bool v = true; };',
             ' '.join('struct Op_%s;' % o[0] for o in OPS), ' '.join('struct Fn_%s;' % f.replace('-', '_') for f in sorted(FNS))]
    macros = []
    for l in lv:
        ok, err = res[l['sig']]
        if 'macro' in l:
            macros.append('#define %s %d' % (l['macro'], 1 if ok else 0))
        elif not ok:
            lines.append(l['cpp'])
    lines.append('}')
    lines += macros
    lines.append('#define C01_INST_LIST(X) \\')
    for l in lv:
        ok, err = res[l['sig']]
        lines.append('  X("%s", %d, "%s") \\' % (l['sig'], 1 if ok else 0, err.replace('\\', '/').replace('"', "'").replace('\n', ' ')[:200]))
    lines.append('')
    d = os.path.join(vlib.BUILD, pid, 'gen-%s-%s' % (tier, vlib.repo_hash()))
    vlib.write_if_changed(os.path.join(d, 'c01_have.hpp'), '\n'.join(lines) + '\n')
    stage.flags += ['-I' + d]
    stage.deps.append(os.path.join(d, 'c01_have.hpp'))
    return res
