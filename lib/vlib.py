"""vlib — build / run / classify / evidence machinery shared by every check (stdlib only)."""
import concurrent.futures as cf
import fnmatch, glob, hashlib, json, os, shutil, struct, subprocess, sys, time

ROOT = os.path.normpath(os.path.join(os.path.dirname(os.path.abspath(__file__)), '..'))
REPO = os.environ.get('VERIF_REPO', '/repo')
BUILD = os.path.join(ROOT, 'build')
ALT = os.path.realpath(REPO) != '/repo' or bool(os.environ.get('VERIF_EVIDENCE_ALT'))  # runs against a deliberately modified tree never touch evidence/
EVID = os.path.join(BUILD, 'evidence-alt') if ALT else os.path.join(ROOT, 'evidence')
FOUND = os.path.join(BUILD, 'found-alt') if ALT else os.path.join(ROOT, 'replays', 'found')
KNOWN = os.path.join(ROOT, 'known_findings.json')
NCPU = os.cpu_count() or 16
MAXC = 512

COMMON = ['-std=c++17', '-I' + REPO, '-I' + os.path.join(ROOT, 'engine'), '-I' + ROOT, '-pthread',
          '-ffp-contract=off', '-fno-fast-math', '-Wno-deprecated-declarations', '-DGLM_ENABLE_EXPERIMENTAL']
OPT = ['g++', '-O2'] + COMMON
FUZZ = ['clang++', '-O1', '-g', '-fsanitize=fuzzer,address,undefined,float-cast-overflow', '-fno-sanitize=float-divide-by-zero',
        '-fsanitize-recover=undefined,float-cast-overflow', '-fno-omit-frame-pointer', '-DPBT_UBSAN_HOOK', '-Dmain=pbt_harness_main']
SAN = ['clang++', '-O1', '-g', '-fsanitize=address,undefined,float-cast-overflow', '-fno-sanitize=float-divide-by-zero',
       '-fsanitize-recover=undefined,float-cast-overflow', '-fno-omit-frame-pointer', '-DPBT_UBSAN_HOOK'] + COMMON


def log(*a):
    print(*a, file=sys.stderr, flush=True)


_repo_hash = None


def repo_hash():
    """Content hash of the GLM headers of the tree under test (working tree, not HEAD)."""
    global _repo_hash
    if _repo_hash is None:
        h = hashlib.sha256()
        base = os.path.join(REPO, 'glm')
        for d, dn, fn in sorted(os.walk(base)):
            dn.sort()
            for f in sorted(fn):
                p = os.path.join(d, f)
                h.update(os.path.relpath(p, base).encode())
                with open(p, 'rb') as fh:
                    h.update(fh.read())
        _repo_hash = h.hexdigest()[:16]
    return _repo_hash


def files_hash(paths, extra=''):
    h = hashlib.sha256(extra.encode())
    for p in paths:
        with open(p, 'rb') as fh:
            h.update(p.encode() + b'\0' + fh.read())
    return h.hexdigest()[:16]


def engine_files():
    return sorted(glob.glob(os.path.join(ROOT, 'engine', '*.hpp')) + glob.glob(os.path.join(ROOT, 'engine', '*.cpp')) + glob.glob(os.path.join(ROOT, 'engine', 'ref', '*.hpp')))


class Stage:
    """One compiled harness. `cmd` is the compiler command prefix, `sources` relative to ROOT."""

    def __init__(self, name, sources, cmd=None, flags=(), libs=(), scale=1.0, env=None, kind='opt', only=None, deps=()):
        self.name, self.sources, self.flags, self.libs = name, list(sources), list(flags), list(libs)
        self.cmd = list(cmd) if cmd else (list(SAN) if kind == 'san' else (FUZZ + COMMON) if kind == 'fuzz' else list(OPT))
        self.scale, self.env, self.kind, self.only = scale, dict(env or {}), kind, only
        self.deps = list(deps)  # extra files whose content participates in the cache key
        self.binary = None

    def key(self, pid):
        srcs = [os.path.join(ROOT, s) for s in self.sources] + [os.path.join(ROOT, d) for d in self.deps]
        return files_hash(srcs + engine_files(), ' '.join(self.cmd + self.flags + self.libs) + repo_hash())

    def build(self, pid):
        d = os.path.join(BUILD, pid, self.name + '-' + self.key(pid))
        self.dir = d
        self.binary = os.path.join(d, 'harness')
        if os.path.exists(self.binary):
            return True, ''
        os.makedirs(d, exist_ok=True)
        t0 = time.time()
        objs, procs = [], []
        for s in self.sources + (['engine/ubsan_hook.cpp'] if self.kind in ('san', 'fuzz') else []) + (['engine/fuzz_main.cpp'] if self.kind == 'fuzz' else []):
            o = os.path.join(d, os.path.basename(s) + '.o')
            objs.append(o)
            procs.append((s, subprocess.Popen(self.cmd + self.flags + ['-c', os.path.join(ROOT, s), '-o', o], stdout=subprocess.PIPE, stderr=subprocess.STDOUT, text=True)))
        out = ''
        ok = True
        for s, p in procs:
            o, _ = p.communicate()
            if p.returncode != 0:
                ok = False
                out += '--- %s\n%s' % (s, o[-6000:])
        if ok:
            tmp = self.binary + '.tmp'
            p = subprocess.run(self.cmd + self.flags + objs + ['-o', tmp] + self.libs + ['-ldl'], stdout=subprocess.PIPE, stderr=subprocess.STDOUT, text=True)
            if p.returncode != 0:
                ok = False
                out += p.stdout[-6000:]
            else:
                os.rename(tmp, self.binary)
        log('[build] %s/%s %s in %.1fs' % (pid, self.name, 'ok' if ok else 'FAILED', time.time() - t0))
        return ok, out


def syntax_probe(pid, probes, prelude, flags=(), cmd=None):
    """Compiles each snippet with -fsyntax-only (parallel, cached). Returns {name: (ok, first_error_line)}.
    Used to find declared templates whose bodies do not instantiate (a hard error SFINAE cannot see)."""
    cmd = list(cmd or OPT)
    d = os.path.join(BUILD, pid, 'probe')
    os.makedirs(d, exist_ok=True)
    res = {}

    def one(item):
        name, code = item
        src = prelude + '\n' + code + '\n'
        h = hashlib.sha256((src + ' '.join(cmd + list(flags)) + repo_hash()).encode()).hexdigest()[:20]
        marker = os.path.join(d, h)
        if os.path.exists(marker):
            with open(marker) as f:
                t = f.read()
            return name, (t.startswith('ok'), t[3:].strip())
        p = subprocess.run(cmd + list(flags) + ['-fsyntax-only', '-x', 'c++', '-'], input=src, stdout=subprocess.PIPE, stderr=subprocess.STDOUT, text=True)
        ok = p.returncode == 0
        err = ''
        if not ok:
            el = [l for l in p.stdout.splitlines() if 'error' in l]
            err = (el[0] if el else p.stdout[:200]).replace(REPO, '<repo>')[:300]
        with open(marker, 'w') as f:
            f.write(('ok \n' if ok else 'no ' + err + '\n'))
        return name, (ok, err)

    with cf.ThreadPoolExecutor(max_workers=NCPU) as ex:
        for name, r in ex.map(one, sorted(probes.items())):
            res[name] = r
    return res


def write_if_changed(path, text):
    os.makedirs(os.path.dirname(path), exist_ok=True)
    if os.path.exists(path):
        with open(path) as f:
            if f.read() == text:
                return
    with open(path, 'w') as f:
        f.write(text)


def prune_builds(pid, keep):
    """Bound disk use: keep only the directories used by this run (plus nothing else) per property."""
    d = os.path.join(BUILD, pid)
    if not os.path.isdir(d):
        return
    names = {os.path.basename(k).rsplit('-', 1)[0] for k in keep}
    now = time.time()
    for e in os.listdir(d):
        p = os.path.join(d, e)
        # other trees' builds of the same stage are dropped once they are stale (a concurrent run against another tree may be using them)
        if os.path.isdir(p) and p not in keep and e.rsplit('-', 1)[0] in names and now - os.path.getmtime(p) > 2 * 3600:
            shutil.rmtree(p, ignore_errors=True)


def load_known():
    if not os.path.exists(KNOWN):
        return {'findings': [], 'fixed': []}
    with open(KNOWN) as f:
        return json.load(f)


def run_stage(pid, st, tier, seed, extra_args=()):
    out = os.path.join(st.dir, 'result-%s-%d.json' % (tier, os.getpid()))
    trace = os.path.join(st.dir, 'trace-%d.bin' % os.getpid())
    env = dict(os.environ)
    env.update({'VERIF_SEED': str(seed), 'VERIF_TIER': tier, 'VERIF_SCALE': str(st.scale * float(os.environ.get('VERIF_SCALE', '1'))),
                'PBT_TRACE': trace, 'VERIF_REPO': REPO,
                'ASAN_OPTIONS': 'detect_leaks=0:abort_on_error=0:allocator_may_return_null=1', 'UBSAN_OPTIONS': 'print_stacktrace=0:suppress_equal_pcs=0'})
    env.update(st.env)
    args = [st.binary, '--out', out, '--tier', tier] + list(extra_args)
    if st.only:
        args += ['--only', st.only]
    t0 = time.time()
    # wall-clock guard against a hung harness (never a correctness signal: a stage that hits it yields "no verdict")
    limit = float(os.environ.get('VERIF_STAGE_TIMEOUT', '2400' if tier == 'quick' else '21600'))
    try:
        p = subprocess.run(args, env=env, stdout=subprocess.PIPE, stderr=subprocess.PIPE, text=True, errors='replace', timeout=limit)
    except subprocess.TimeoutExpired as e:
        log('[%s] stage %s exceeded the %.0f s wall-clock guard and was killed (inconclusive)' % (pid, st.name, limit))
        return None, {'returncode': -9, 'stderr_tail': 'stage killed after %.0f s (hung harness or overloaded machine)' % limit, 'trace': trace}, time.time() - t0
    wall = time.time() - t0
    sys.stderr.write(''.join(l + '\n' for l in p.stderr.splitlines() if l.startswith('[')))
    res = None
    if p.returncode == 0 and os.path.exists(out):
        with open(out) as f:
            res = json.load(f)
        os.unlink(out)
    crash = None
    if res is None:
        crash = {'returncode': p.returncode, 'stderr_tail': p.stderr[-3000:], 'trace': trace}
    elif os.path.exists(trace):
        os.unlink(trace)
    return res, crash, wall


def run_fuzz_stage(pid, st, tier, seed, known):
    """Coverage-guided campaign (libFuzzer, 16 jobs) over the harness's targets; returns a result dict shaped like a harness result."""
    import re, tempfile
    secs = int(getattr(st, 'fuzz_seconds', {}).get(tier, 30))
    work = os.path.join(st.dir, 'fuzz-%d' % os.getpid())
    corpus, out = os.path.join(work, 'corpus'), os.path.join(work, 'out')
    shutil.rmtree(work, ignore_errors=True)
    os.makedirs(corpus); os.makedirs(out)
    kk = os.path.join(work, 'known.txt')
    with open(kk, 'w') as f:
        for k in known.get('findings', []):
            if k['property'] == pid:
                f.write(k['key'] + '\n')
    env = dict(os.environ)
    env.update({'PBT_KNOWN_KEYS': kk, 'PBT_FUZZ_OUT': out, 'VERIF_TIER': tier, 'VERIF_REPO': REPO, 'PBT_QUIET': '1',
                'ASAN_OPTIONS': 'detect_leaks=0:allocator_may_return_null=1', 'UBSAN_OPTIONS': 'print_stacktrace=0:suppress_equal_pcs=0'})
    env.update(st.env)
    ntargets = len([l for l in subprocess.run([st.binary, '-runs=0'], env=env, stdout=subprocess.PIPE, stderr=subprocess.STDOUT, text=True, cwd=work).stdout.splitlines() if False]) or 0
    # structured seeds: one input per target index (all-zero choices = the simplest case of each generator)
    m = re.search(r'\[fuzz\] (\d+) targets', subprocess.run([st.binary, '-runs=0'], env=env, stdout=subprocess.PIPE, stderr=subprocess.STDOUT, text=True, cwd=work).stdout)
    ntargets = int(m.group(1)) if m else 1
    for i in range(min(ntargets, 65536)):
        with open(os.path.join(corpus, 'seed-%05d' % i), 'wb') as f:
            f.write(struct.pack('<H', i) + b'\0' * 64)
    t0 = time.time()
    p = subprocess.run([st.binary, corpus, '-max_total_time=%d' % secs, '-jobs=%d' % NCPU, '-workers=%d' % NCPU, '-seed=%d' % (seed or 1), '-max_len=2050', '-len_control=0',
                        '-print_final_stats=1', '-artifact_prefix=' + out + '/'], env=env, stdout=subprocess.PIPE, stderr=subprocess.STDOUT, text=True, cwd=work, errors='replace')
    wall = time.time() - t0
    execs, nontriv, cov, khits = 0, 0, 0, 0
    for lf in glob.glob(os.path.join(work, 'fuzz-*.log')):
        with open(lf, errors='replace') as f:
            txt = f.read()
        for mm in re.finditer(r'stat::number_of_executed_units:\s*(\d+)', txt):
            execs += int(mm.group(1))
        for mm in re.finditer(r'\[fuzz-stats\] execs=(\d+) nontrivial=(\d+) known=(\d+)', txt):
            nontriv += int(mm.group(2)); khits += int(mm.group(3))
        cs = [int(x) for x in re.findall(r'cov: (\d+)', txt)]
        if cs:
            cov = max(cov, max(cs))
    ncorp = len(os.listdir(corpus))
    fails = []
    for rp in sorted(glob.glob(os.path.join(out, 'fuzz-*.json'))):
        with open(rp) as f:
            r = json.load(f)
        fails.append({'key': r['key'], 'count': 1, 'choices': r['choices'], 'case': r.get('case', ''), 'detail': r.get('detail', ''), 'target': r['target']})
    res = {'property_id': pid, 'tier': tier, 'seed': seed, 'wall_s': round(wall, 2), 'fuzz': True, 'targets': []}
    by_t = {}
    for fl in fails:
        by_t.setdefault(fl['target'], []).append(fl)
    res['targets'].append({'name': 'libfuzzer-campaign', 'rule': 'coverage-guided byte inputs decoded as (target index, forced choice sequence); non-trivial by the rule of the decoded target; distinct = corpus units kept for new coverage',
                           'evaluations': execs, 'nontrivial': nontriv, 'distinct_nontrivial': min(ncorp, max(nontriv, 0)) if nontriv else 0, 'discarded': 0, 'exhaustive': False, 'wall_s': round(wall, 2),
                           'classes': {'corpus_units': ncorp, 'coverage_edges': cov, 'known_finding_hits': khits, 'seconds_x_jobs': secs * NCPU}, 'metrics': {}, 'samples': [], 'failures': []})
    for tname, fl in by_t.items():
        res['targets'].append({'name': tname, 'rule': 'failures found by the fuzz campaign', 'evaluations': 0, 'nontrivial': 0, 'distinct_nontrivial': 0, 'discarded': 0, 'exhaustive': False, 'wall_s': 0,
                               'classes': {}, 'metrics': {}, 'samples': [], 'failures': [{k: v for k, v in f.items() if k != 'target'} for f in fl]})
    shutil.rmtree(work, ignore_errors=True)
    log('[%s] fuzz stage %s: %d executions, %d corpus units, cov %d, %d failure file(s), %.0fs' % (pid, st.name, execs, ncorp, cov, len(fails), wall))
    return res


def read_trace(path):
    """Trace file: per worker slot [n, target_index, choices...] as u64; returns list of (target_index, choices)."""
    cases = []
    if not os.path.exists(path):
        return cases
    with open(path, 'rb') as f:
        data = f.read()
    slot = (MAXC + 2) * 8
    for i in range(0, len(data) - slot + 1, slot):
        n, ti = struct.unpack_from('<QQ', data, i)
        if n == 0 and ti == 0xffffffffffffffff:
            continue
        n = min(n, MAXC)
        ch = list(struct.unpack_from('<%dQ' % n, data, i + 16))
        if ti != 0xffffffffffffffff:
            cases.append((ti, ch))
    return cases


def write_replay(pid, stage, target, key, choices, case, detail, where=FOUND):
    os.makedirs(where, exist_ok=True)
    hid = hashlib.sha1((stage + target + key).encode()).hexdigest()[:10]
    path = os.path.join(where, '%s-%s-%s.json' % (pid, target.replace('/', '_').replace(' ', '_')[:40], hid))
    with open(path, 'w') as f:
        json.dump({'property': pid, 'stage': stage, 'target': target, 'key': key, 'choices': choices, 'case': case, 'detail': detail}, f, indent=1)
    return path


def replay_file(pid, spec, path, times=1, tier='quick'):
    """Replays a stored case in fresh processes. Returns (fails_every_time_with_its_key, keys, output)."""
    with open(path) as f:
        rp = json.load(f)
    st = next((s for s in spec['stages'] if s.name == rp.get('stage')), spec['stages'][0])
    if st.binary is None:
        pre = getattr(st, 'prebuild', None)
        if pre and not getattr(st, 'prebuilt', False):
            pre(st, pid, tier)
            st.prebuilt = True
        ok, out = st.build(pid)
        if not ok:
            return None, None, out
    allfail, key, outtxt = True, None, ''
    want = rp.get('key')
    env = dict(os.environ)
    env.update({'ASAN_OPTIONS': 'detect_leaks=0', 'UBSAN_OPTIONS': 'print_stacktrace=0:suppress_equal_pcs=0', 'PBT_UBSAN_VERBOSE': '1', 'VERIF_TIER': tier, 'VERIF_REPO': REPO})
    env.update(st.env)
    for _ in range(times):
        p = subprocess.run([st.binary, '--replay', path, '--tier', tier], env=env, stdout=subprocess.PIPE, stderr=subprocess.STDOUT, text=True, errors='replace')
        outtxt = p.stdout
        failed = p.returncode != 0 and p.returncode != 2
        if p.returncode == 1:
            keys = []
            for l in p.stdout.splitlines():
                if l.startswith('REPLAY ') and ' keys=' in l:
                    keys = l.split(' keys=', 1)[1].split()
            key = want if want in keys else (keys[0] if keys else None)
            if want and want not in ('crash', 'fixed') and want not in keys and not any(fnmatch.fnmatchcase(k2, want) for k2 in keys):
                failed = False
        elif failed:
            key = 'crash'
        allfail = allfail and failed
    return allfail, key, outtxt


def match_known(known, pid, fullkey):
    for k in known.get('findings', []):
        if k['property'] == pid and fnmatch.fnmatchcase(fullkey, k['key']):
            return k
    return None


def main(argv, props=None):
    import props as P
    PROPS = P.PROPS
    if not argv or argv[0] in ('-h', '--help'):
        print(__doc__)
        print('properties:', ' '.join(sorted(PROPS)))
        return 2
    pid = argv[0]
    tier = os.environ.get('VERIF_TIER', 'quick')
    replay = None
    only_stage = None
    build_only = False
    i = 1
    while i < len(argv):
        if argv[i] == '--tier':
            tier = argv[i + 1]; i += 2
        elif argv[i] == '--replay':
            replay = argv[i + 1]; i += 2
        elif argv[i] == '--stage':
            only_stage = argv[i + 1]; i += 2
        elif argv[i] == '--build-only':
            build_only = True; i += 1
        else:
            log('unknown argument', argv[i]); return 2
    if pid not in PROPS:
        log('unknown property', pid); return 2
    seed = int(os.environ.get('VERIF_SEED', '1') or '1')
    spec = PROPS[pid](tier) if callable(PROPS[pid]) else PROPS[pid]
    if replay:
        allfail, key, out = replay_file(pid, spec, replay, 1, tier)
        print(out)
        if allfail is None:
            return 2
        if allfail:
            print('VIOLATION property=%s replay=%s' % (pid, os.path.abspath(replay)))
            return 1
        return 0
    return run_check(pid, spec, tier, seed, only_stage, build_only)


def run_check(pid, spec, tier, seed, only_stage=None, build_only=False):
    t_start = time.time()
    known = load_known()
    stages = [s for s in spec['stages'] if (only_stage is None or s.name == only_stage) and (tier == 'thorough' or not getattr(s, 'thorough_only', False))]
    # pre-build hooks (program generators etc.)
    for s in stages:
        pre = getattr(s, 'prebuild', None)
        if pre and not getattr(s, 'prebuilt', False):
            pre(s, pid, tier)
            s.prebuilt = True
    with cf.ThreadPoolExecutor(max_workers=max(1, min(len(stages), 4))) as ex:
        built = list(ex.map(lambda s: s.build(pid), stages))
    for s, (ok, out) in zip(stages, built):
        if not ok:
            log('BUILD FAILURE in stage %s of %s against the current tree:\n%s' % (s.name, pid, out))
            if spec.get('build_failure_is_violation'):
                os.makedirs(FOUND, exist_ok=True)
                path = os.path.join(FOUND, '%s-build-%s.log' % (pid, s.name))
                with open(path, 'w') as f:
                    f.write(out)
                print('VIOLATION property=%s replay=%s' % (pid, path))
                return 1
            return 2
    prune_builds(pid, {s.dir for s in stages})
    if build_only:
        return 0

    violations, known_hits, unconfirmed, notes = [], {}, [], []
    # configurations (operation libraries) that do not compile against the current tree
    for s in stages:
        for cfgname, errs in sorted(getattr(s, 'lib_failures', {}).items()):
            fullkey = 'build:' + cfgname
            kf = match_known(known, pid, fullkey)
            if kf:
                known_hits.setdefault(kf['key'], {'count': 0, 'what': kf.get('what', ''), 'example': errs[0][:200]})['count'] += 1
                continue
            os.makedirs(FOUND, exist_ok=True)
            path = os.path.join(FOUND, '%s-build-%s.log' % (pid, cfgname))
            with open(path, 'w') as f:
                f.write('configuration %s does not compile:\n' % cfgname + '\n'.join(errs))
            violations.append({'stage': s.name, 'target': 'build', 'key': cfgname, 'replay': path, 'case': 'compile GLM operation table in configuration ' + cfgname, 'detail': errs[0][:600], 'count': 1})
    # 1. regression tier: stored cases of known findings and of fixed defects
    for k in known.get('findings', []):
        if k['property'] != pid or 'choices' not in k:
            continue
        if k.get('tier') == 'thorough' and tier != 'thorough':
            continue
        st = next((s for s in stages if s.name == k.get('stage')), None)
        if st is None:
            continue
        bare = k['key'].split(':', 1)[1] if ':' in k['key'] else k['key']
        if any(ch in bare for ch in '*?['):
            bare = ''
        path = write_replay(pid, st.name, k['target'], bare, k['choices'], k.get('what', ''), '', where=os.path.join(BUILD, pid, 'regress'))
        allfail, key, _ = replay_file(pid, spec, path, 1, tier)
        if allfail:
            known_hits.setdefault(k['key'], {'count': 0, 'what': k.get('what', ''), 'example': k.get('what', '')})
            known_hits[k['key']]['count'] += 1
        else:
            notes.append('known finding %s no longer reproduces from its stored case' % k['key'])
    for k in known.get('fixed', []):
        if k['property'] != pid or 'choices' not in k:
            continue
        st = next((s for s in stages if s.name == k.get('stage')), None)
        if st is None:
            continue
        path = write_replay(pid, st.name, k['target'], k.get('key', 'fixed'), k['choices'], k.get('line', ''), '', where=os.path.join(ROOT, 'replays', 'regress'))
        allfail, key, out = replay_file(pid, spec, path, 3, tier)
        if allfail:
            violations.append({'stage': st.name, 'target': k['target'], 'key': key or k.get('key', ''), 'replay': path, 'case': k.get('line', ''), 'detail': 'fixed defect returned', 'count': 1})

    # 2. search
    results = []
    for st in stages:
        if st.kind == 'fuzz':
            res, crash, wall = run_fuzz_stage(pid, st, tier, seed, known), None, 0
        else:
            res, crash, wall = run_stage(pid, st, tier, seed)
        if crash:
            log('[%s] stage %s crashed (rc=%s); stderr tail:\n%s' % (pid, st.name, crash['returncode'], crash['stderr_tail']))
            cands = read_trace(crash['trace'])
            lenv = dict(os.environ); lenv.update(st.env); lenv['PBT_QUIET'] = '1'
            names = [l for l in subprocess.run([st.binary, '--list'], stdout=subprocess.PIPE, stderr=subprocess.DEVNULL, text=True, env=lenv).stdout.split('\n')]
            confirmed = False
            for ti, ch in cands:
                if ti >= len(names):
                    continue
                path = write_replay(pid, st.name, names[ti], 'crash', ch, '', crash['stderr_tail'][-800:])
                allfail, key, out = replay_file(pid, spec, path, 3, tier)
                if allfail:
                    fullkey = names[ti] + ':crash'
                    kf = match_known(known, pid, fullkey)
                    if kf:
                        known_hits.setdefault(kf['key'], {'count': 0, 'what': kf.get('what', ''), 'example': ''})['count'] += 1
                    else:
                        violations.append({'stage': st.name, 'target': names[ti], 'key': 'crash', 'replay': path, 'case': '', 'detail': out[-1500:], 'count': 1})
                    confirmed = True
            if os.path.exists(crash['trace']):
                os.unlink(crash['trace'])
            if not confirmed:
                log('[%s] stage %s: crash could not be attributed to a stored case; no verdict' % (pid, st.name))
                if not violations:
                    return 2
                # (violations already established - e.g. configurations that no longer compile, which is also why a differential
                # stage may have nothing left to compare - are still reported)
                notes.append('stage %s ended without a verdict (rc %s)' % (st.name, crash['returncode']))
            continue
        res['stage'] = st.name
        res['kind'] = st.kind
        res['cmd'] = ' '.join(st.cmd[:3])
        results.append(res)
        for t in res['targets']:
            for fl in t['failures']:
                if spec.get('only_key_prefixes') and not any(fl['key'].startswith(pf) for pf in spec['only_key_prefixes']):
                    continue  # e.g. C20 replays other properties' harnesses under sanitizers: their semantic oracles are judged by their own checks
                fullkey = t['name'] + ':' + fl['key']
                kf = match_known(known, pid, fullkey)
                if kf:
                    h = known_hits.setdefault(kf['key'], {'count': 0, 'what': kf.get('what', ''), 'example': ''})
                    h['count'] += fl['count']
                    if not h['example']:
                        h['example'] = (fl['case'] + ' -> ' + fl['detail'])[:300]
                    continue
                path = write_replay(pid, getattr(st, 'replay_stage', st.name), t['name'], fl['key'], fl['choices'], fl['case'], fl['detail'])
                allfail, key, out = replay_file(pid, spec, path, 3, tier)
                rec = {'stage': st.name, 'target': t['name'], 'key': fl['key'], 'replay': path, 'case': fl['case'], 'detail': fl['detail'], 'count': fl['count']}
                if allfail and (key == fl['key'] or key == 'crash'):
                    violations.append(rec)
                else:
                    unconfirmed.append(rec)
                    log('[%s] failure %s did not reproduce 3x from its replay file (harness nondeterminism?) — not reported as violation' % (pid, fullkey))

    seen, uniq = set(), []
    for v in violations:
        kk = (v['stage'], v['target'], v['key'])
        if kk not in seen:
            seen.add(kk); uniq.append(v)
    violations = uniq
    # 3. evidence
    ev = make_evidence(pid, spec, tier, seed, results, violations, known_hits, unconfirmed, notes, time.time() - t_start)
    os.makedirs(EVID, exist_ok=True)
    tmp = os.path.join(EVID, pid + '.json.tmp')
    with open(tmp, 'w') as f:
        json.dump(ev, f, indent=1)
    os.replace(tmp, os.path.join(EVID, pid + '.json'))

    for key, h in sorted(known_hits.items()):
        print('KNOWN-FINDING: property=%s %s: %s [%d failing cases this run; e.g. %s]' % (pid, key, h['what'], h['count'], h['example'][:200]))
    for n in notes:
        log('[%s] note: %s' % (pid, n))
    for v in violations:
        print('  failing case (%s/%s, %d cases): %s\n  detail: %s' % (v['target'], v['key'], v['count'], v['case'], v['detail']))
        print('VIOLATION property=%s replay=%s' % (pid, v['replay']))
    tot = ev['coverage']
    log('[%s] %s tier, seed %d: %d evaluations, %d distinct non-trivial, %d violation(s), %d known-finding class(es), %.1fs' % (
        pid, tier, seed, tot['evaluations'], tot['distinct_nontrivial'], len(violations), len(known_hits), time.time() - t_start))
    return 1 if violations else 0


def make_evidence(pid, spec, tier, seed, results, violations, known_hits, unconfirmed, notes, wall):
    evals = sum(t['evaluations'] for r in results for t in r['targets'])
    distinct = sum(t['distinct_nontrivial'] for r in results for t in r['targets'])
    samples, per_target, rules = [], [], []
    exhaustive_all = bool(results)
    for r in results:
        for t in r['targets']:
            for s in t['samples'][:2]:
                samples.append({'stage': r['stage'], 'target': t['name'], 'case': s})
            per_target.append({'stage': r['stage'], 'target': t['name'], 'evaluations': t['evaluations'], 'nontrivial': t['nontrivial'],
                               'distinct_nontrivial': t['distinct_nontrivial'], 'discarded': t['discarded'], 'exhaustive': t['exhaustive'],
                               'classes': t['classes'], 'max_observed': t['metrics'], 'rule': t['rule'], 'wall_s': t['wall_s'],
                               'failure_keys': {f['key']: f['count'] for f in t['failures']}})
            exhaustive_all = exhaustive_all and t['exhaustive']
    if len(samples) > 60:
        step = len(samples) / 60.0
        samples = [samples[int(i * step)] for i in range(60)]
    cov = {
        'evaluations': evals,
        'distinct_nontrivial': distinct,
        'rule': spec.get('rule', ''),
        'samples': samples,
        'exhaustive': exhaustive_all,
        'targets': per_target,
        'stages': [{'stage': r['stage'], 'kind': r['kind'], 'compiler': r['cmd'], 'wall_s': r['wall_s']} for r in results],
        'known_finding_hits': {k: v['count'] for k, v in known_hits.items()},
        'unconfirmed_failures': [{'target': u['target'], 'key': u['key']} for u in unconfirmed],
        'violations': [{'target': v['target'], 'key': v['key'], 'replay': v['replay'], 'case': v['case'], 'detail': v['detail'][:400]} for v in violations],
        'repo_glm_hash': repo_hash(),
        'notes': notes,
    }
    cov.update(spec.get('coverage_extra', {}))
    return {'property_id': pid, 'tier': tier, 'seed': seed, 'level': 'exploration', 'coverage': cov,
            'assumptions': spec.get('assumptions', []), 'wall_s': round(wall, 2), 'violations': len(violations)}
