"""Builds one libops_<cfg>.so per GLM configuration and wires them into the differential driver stage."""
import concurrent.futures as cf
import hashlib, os, subprocess, time
import vlib
from vlib import Stage, ROOT, BUILD, REPO

OPS_SRC = ['optable/ops_arith.cpp', 'optable/ops_common.cpp', 'optable/ops_geom.cpp', 'optable/ops_quat.cpp']
OPS_HDR = ['optable/opdef.hpp', 'optable/optable.hpp']
LIBFLAGS = ['-std=c++17', '-fPIC', '-fvisibility=hidden', '-fvisibility-inlines-hidden', '-I' + REPO, '-I' + ROOT, '-ffp-contract=off', '-fno-fast-math',
            '-DGLM_ENABLE_EXPERIMENTAL', '-w']


class Cfg:
    def __init__(self, name, flags=(), compiler='g++', opt='-O2', aligned=False, std=None):
        self.name, self.flags, self.compiler, self.opt, self.aligned, self.std = name, list(flags), compiler, opt, aligned, std

    def cmd(self):
        fl = list(LIBFLAGS)
        if self.std:
            fl[0] = '-std=' + self.std
        return [self.compiler, self.opt] + fl + self.flags + ['-DOPS_ALIGNED=%d' % (1 if self.aligned else 0), '-DOPS_CFG_NAME="%s"' % self.name]


def simd_cfg(name, isa_flags, compiler='g++', opt='-O2', extra=()):
    return Cfg(name, ['-DGLM_FORCE_INTRINSICS'] + list(isa_flags) + list(extra), compiler, opt, aligned=True)


_THIS_RUN = set()


def build_libs(pid, cfgs):
    """Compiles every (configuration, translation unit) pair in parallel; returns {name: path} and a dict of failures."""
    srcs = [os.path.join(ROOT, s) for s in OPS_SRC]
    base_hash = vlib.files_hash(srcs + [os.path.join(ROOT, h) for h in OPS_HDR], vlib.repo_hash())
    jobs, libs, fails = [], {}, {}
    for c in cfgs:
        key = hashlib.sha256((base_hash + ' '.join(c.cmd())).encode()).hexdigest()[:16]
        d = os.path.join(BUILD, 'optable', c.name + '-' + key)
        so = os.path.join(d, 'libops.so')
        libs[c.name] = so
        c.dir = d
        if os.path.exists(so):
            continue
        os.makedirs(d, exist_ok=True)
        for s in srcs:
            for part in (0, 1):
                jobs.append((c, s, os.path.join(d, os.path.basename(s) + '.%d.o' % part), part))
    t0 = time.time()

    def compile_one(job):
        c, s, o, part = job
        p = subprocess.run(c.cmd() + ['-DOPS_PART=%d' % part, '-c', s, '-o', o], stdout=subprocess.PIPE, stderr=subprocess.STDOUT, text=True)
        return c, s, p.returncode, p.stdout
    with cf.ThreadPoolExecutor(max_workers=vlib.NCPU) as ex:
        for c, s, rc, out in ex.map(compile_one, jobs):
            if rc != 0:
                el = [l for l in out.splitlines() if 'error' in l]
                fails.setdefault(c.name, []).append('%s: %s' % (os.path.basename(s), '\n'.join(el[:6]) or out[-800:]))
    for c in cfgs:
        so = libs[c.name]
        if os.path.exists(so) or c.name in fails:
            continue
        objs = [os.path.join(c.dir, os.path.basename(s) + '.%d.o' % part) for s in srcs for part in (0, 1)]
        p = subprocess.run([c.compiler, '-shared', '-o', so + '.tmp'] + objs, stdout=subprocess.PIPE, stderr=subprocess.STDOUT, text=True)
        if p.returncode != 0:
            fails.setdefault(c.name, []).append('link: ' + p.stdout[-800:])
        else:
            os.rename(so + '.tmp', so)
    if jobs:
        vlib.log('[build] %s: %d op-library objects for %d configurations in %.1fs' % (pid, len(jobs), len({j[0].name for j in jobs}), time.time() - t0))
    # bound disk use: drop library directories of other trees / flags for the configurations we just built
    # (never a directory another stage of this same run has asked for: the driver and the fuzz stage of C03 build configurations of
    # the same name with different flags, and the second call used to delete the libraries of the first when they were older than 2 h)
    _THIS_RUN.update(os.path.dirname(p) for p in libs.values())
    keep = set(_THIS_RUN)
    od = os.path.join(BUILD, 'optable')
    names = {c.name for c in cfgs}
    for e in os.listdir(od):
        p = os.path.join(od, e)
        if p not in keep and e.rsplit('-', 1)[0] in names and time.time() - os.path.getmtime(p) > 2 * 3600:
            import shutil
            shutil.rmtree(p, ignore_errors=True)
    return libs, fails


def driver_stage(pid, cfgs, mode, quick_cases, thorough_cases, require_simd=False, name='driver'):
    st = Stage(name, ['optable/driver.cpp'], deps=OPS_SRC + OPS_HDR)
    st.cfgs = cfgs

    def prebuild(stage, pid_, tier):
        libs, fails = build_libs(pid_, cfgs)
        stage.lib_failures = fails
        order = [c.name for c in cfgs if c.name not in fails]
        stage.env.update({'OPS_LIBS': ';'.join('%s:%s' % (n, libs[n]) for n in order), 'OPS_MODE': mode, 'OPS_PROPERTY': pid_,
                          'OPS_CASES_QUICK': str(quick_cases), 'OPS_CASES_THOROUGH': str(thorough_cases), 'PBT_QUIET': '1',
                          'OPS_REQUIRE_SIMD': '1' if require_simd else '0'})
        # the library set is part of the driver's identity only through the environment; nothing to recompile
    st.prebuild = prebuild
    return st


LANG_LEVELS = [('cxx17-gcc', 'g++', 'c++17'), ('cxx98-gcc', 'g++', 'c++98'), ('cxx11-gcc', 'g++', 'c++11'), ('cxx14-gcc', 'g++', 'c++14'), ('cxx20-gcc', 'g++', 'c++20'),
               ('cxx98-clang', 'clang++', 'c++98'), ('cxx11-clang', 'clang++', 'c++11'), ('cxx14-clang', 'clang++', 'c++14'), ('cxx17-clang', 'clang++', 'c++17'), ('cxx20-clang', 'clang++', 'c++20')]


def lang_stage(pid, name='lang'):
    """props/C15_lang.cpp + one build of optable/langprobe.cpp per (compiler, -std=) pair, no GLM_FORCE_CXX* macro."""
    st = vlib.Stage(name, ['props/C15_lang.cpp'], libs=['-ldl'], deps=['optable/langprobe.cpp'])

    def prebuild(stage, pid_, tier):
        src = os.path.join(ROOT, 'optable/langprobe.cpp')
        base = vlib.files_hash([src], vlib.repo_hash())
        jobs, libs = [], []
        for n, cx, std in LANG_LEVELS:
            cmd = [cx, '-std=' + std, '-O2', '-ffp-contract=off', '-fno-fast-math', '-fPIC', '-shared', '-fvisibility=hidden', '-fvisibility-inlines-hidden', '-w', '-I' + vlib.REPO]
            key = hashlib.sha256((base + ' '.join(cmd)).encode()).hexdigest()[:16]
            d = os.path.join(BUILD, 'langprobe', n + '-' + key)
            so = os.path.join(d, 'liblang.so')
            libs.append((n, so))
            if not os.path.exists(so):
                os.makedirs(d, exist_ok=True)
                jobs.append((n, cmd + [src, '-o', so]))
        fails = {}

        def one(job):
            p = subprocess.run(job[1], stdout=subprocess.PIPE, stderr=subprocess.STDOUT, text=True)
            return job[0], p.returncode, p.stdout
        with cf.ThreadPoolExecutor(max_workers=vlib.NCPU) as ex:
            for n, rc, out in ex.map(one, jobs):
                if rc != 0:
                    fails[n] = 'langprobe.cpp: ' + '\n'.join([l for l in out.splitlines() if 'error' in l][:6])
        stage.lib_failures = fails
        stage.env.update({'LP_LIBS': ';'.join('%s:%s' % (n, so) for n, so in libs if n not in fails), 'PBT_QUIET': '1'})
    st.prebuild = prebuild
    return st
