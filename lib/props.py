"""Registry: property id -> build/run specification (stages) used by vlib.run_check."""
from vlib import Stage

COMMON_ASSUME = [
    'x86-64 Linux, g++ 12 / clang++ 14 of this image; other compilers, NEON, MSVC/CUDA branches are not reachable here',
    'harness compiled with -ffp-contract=off -fno-fast-math (compiler semantics switches are not GLM properties)',
    'search-based: absence of a counterexample among the generated cases, complete only where exhaustive=true',
]


def simple(src, rule, flags=(), san_scale=None, extra=None, libs=(), deps=()):
    stages = [Stage('opt', [src], flags=list(flags), libs=libs, deps=deps)]
    if san_scale is not None:
        stages.append(Stage('san', [src], flags=list(flags), kind='san', scale=san_scale, libs=libs, deps=deps))
    d = {'stages': stages, 'rule': rule, 'assumptions': list(COMMON_ASSUME)}
    if extra:
        d.update(extra)
    return d


PROPS = {
    'C07': lambda tier: simple('props/C07_half.cpp',
                               'exhaustive enumeration of all 2^16 half and all 2^32 float bit patterns through packHalf1x16/unpackHalf1x16 against a bit-level '
                               'IEEE binary16 reference and the F16C instructions, plus random lane-placement cases for the multi-component packers; '
                               'a case is non-trivial when rounding/overflow/underflow actually happens (float->half), the pattern is not +-0 (half->float), or four distinct lanes are packed',
                               san_scale=None),
}
