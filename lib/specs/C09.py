"""C09 — translate/rotate/scale/shear/lookAt/decompose build the transforms they name (ext/matrix_transform, gtx/transform, transform2,
rotate_vector, rotate_normalized_axis, matrix_transform_2d, matrix_decompose, matrix_interpolation).
Two builds of the same harness: default (right-handed) and GLM_FORCE_LEFT_HANDED; the configuration name is part of every target name."""
import props
from props import gen_have
from vlib import Stage

SRC_MAIN = 'props/C09_lookat_decompose.cpp'   # lookAt, decompose/recompose, instantiation, matrix_interpolation, main()
SRC_XFORM = 'props/C09_transform.cpp'         # translate/rotate/scale/shear and the gtx helpers

PRELUDE = '#define GLM_ENABLE_EXPERIMENTAL\n#include <glm/glm.hpp>\n#include <glm/gtc/quaternion.hpp>\n#include <glm/gtx/matrix_decompose.hpp>'


def c09_prebuild(stage, pid, tier):
    """Syntax-only pre-pass: decompose/recompose are templates on (T, Q) but parts of their bodies are written with float/defaultp types."""
    probes = {}
    for t in ('float', 'double'):
        for q in ('highp', 'mediump', 'lowp'):
            decl = 'glm::vec<3, {t}, glm::{q}> s, tr, k; glm::qua<{t}, glm::{q}> o; glm::vec<4, {t}, glm::{q}> p;'.format(t=t, q=q)
            probes['decompose_%s_%s' % (t, q)] = 'bool f(glm::mat<4, 4, %s, glm::%s> const& m) { %s return glm::decompose(m, s, o, tr, k, p); }' % (t, q, decl)
            probes['recompose_%s_%s' % (t, q)] = 'glm::mat<4, 4, %s, glm::%s> f() { %s s = tr = k = glm::vec<3, %s, glm::%s>(1); p = glm::vec<4, %s, glm::%s>(0, 0, 0, 1); o = glm::qua<%s, glm::%s>::wxyz(1, 0, 0, 0); return glm::recompose(s, o, tr, k, p); }' % (t, q, decl, t, q, t, q, t, q)
    # the handedness macro has no influence on instantiation: one probe set (cached) shared by both builds
    gen_have(pid, stage, probes, PRELUDE)


def SPEC(tier):
    # handedness must be read from the LH bit alone: the depth-range macro is combined with both handedness settings
    cfgs = [('RH', []), ('LH', ['-DGLM_FORCE_LEFT_HANDED', '-DC09_EXPECT_LH']),
            ('LH_ZO', ['-DGLM_FORCE_LEFT_HANDED=', '-DGLM_FORCE_DEPTH_ZERO_TO_ONE=', '-DC09_EXPECT_LH']), ('RH_ZO', ['-DGLM_FORCE_DEPTH_ZERO_TO_ONE']),
            ('RH_XYZW', ['-DGLM_FORCE_QUAT_DATA_XYZW']), ('RH_WXYZ', ['-DGLM_FORCE_QUAT_DATA_WXYZ'])]
    stages = []
    for name, flags in cfgs:
        full = name == 'RH' or tier == 'thorough'   # handedness only reaches lookAt: the quick LH build carries the lookAt/decompose file alone
        # thorough: the LH build repeats every target at 0.4 of the RH case counts (only lookAt can differ between the two builds)
        quat_order = 'XYZW' in name or 'WXYZ' in name   # the quaternion-order macros only reach the targets that build or return quaternions
        if quat_order:
            st = Stage(name, [SRC_MAIN, SRC_XFORM], flags=flags + ['-DC09_CFG="%s"' % name], only='rotateNormalizedAxis|decompose_recompose|axisAngle_interpolate', scale=0.4)
        else:
            st = Stage(name, [SRC_MAIN, SRC_XFORM] if full else [SRC_MAIN], flags=flags + ['-DC09_CFG="%s"' % name], only=None if full else 'lookAt',
                       scale=0.4 if (name != 'RH' and tier == 'thorough') else 1.0)
        st.prebuild = c09_prebuild
        stages.append(st)
    return {'stages': stages,
            'assumptions': props.COMMON_ASSUME + [
                'long double (x87, 64-bit significand) evaluation of the reference formulas is taken as exact relative to float/double rounding',
                'libm sin/cos/acos of the type under test are accurate to 1 ulp (glibc), as assumed in the entrywise bounds',
                'decompose normalises by M[3][3]: recompose(decompose(M)) is compared with M / M[3][3] (the same homogeneous transform)'],
            'rule': 'base matrices (identity, zero, diagonal, small-int, affine, rigid, general non-affine, mixed magnitude) x vectors / non-zero axes of any length x angles over +-4 turns (0, k pi/2, k pi/12, 1e-9..1e-2, uniform) '
                    'x shear factors; eye/center/up with sin(angle(view,up)) >= 1e-3 incl. nearly parallel and non-normalised up; TRS(+skew,+perspective) compositions with |scale| in [0.1,10] and mixed signs; rotations '
                    'at and next to 0 and pi for axisAngle/interpolate; float and double; right-handed (default) and GLM_FORCE_LEFT_HANDED builds. Every result against M*E with the elementary matrix E from its textbook '
                    'definition in long double under the forward-error bound of the documented computation (x8), exact (VALUE/BITS) where a single rounding or a copy is documented; a case is non-trivial when M has '
                    'all entries non-zero and distinct per row, the vector/axis has three distinct non-zero components and sin/cos of the angle are both away from 0 (per-target rules in the evidence)'}


META = dict(
    technique='structured + random generated-input search (choice-sequence PBT) against long-double reference models of the elementary transforms (translation, Rodrigues rotation, scale, documented shear matrix, gluLookAt geometry, '
              'P*T*R*K*S composition) with analytic, conditioning-aware forward-error bounds; VALUE/BITS comparison for single-rounding results and copied columns; syntax-only instantiation pre-pass for decompose/recompose; '
              'two builds (right-/left-handed) of the same harness',
    text='Search, not proof: 2-6x10^5 cases per target and type in the quick tier, 1-2x10^7 in the thorough tier. Each function of the eight anchor files has its own failure keys; the geometric clauses of the statement for lookAt '
         '(rigid, eye to origin, view direction to -z/+z, up in the +y half-plane, handedness macro) are separate comparisons evaluated in long double on GLM\'s matrix, and the round trip recompose(decompose(M)) is split into '
         'decompose-vs-reference-composition, recompose-vs-reference-composition and the chained call, so that a defect in one half is not masked by the other. Observed error / bound stays <= 0.25 on the unchanged tree.',
    note='Trusts engine/ref/reftransform.hpp (long double; rotations from Rodrigues\' vector formula, not from an entry table) and the error analysis written next to each bound. transform2 shear*2D/3D document no direction: either '
         'placement of the factor is accepted and counted; reflect2D/3D are not declared in the header and are not checked; vec3 slerp of rotate_vector belongs to C13\'s subject and is not checked here. '
         'interpolate is not compared when the relative rotation is within 1e-3 of pi (axis sign not determined). decompose/recompose<double> and non-default qualifiers are reported by the instantiation target when they do not compile.',
    design='6/C09')
