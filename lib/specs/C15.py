"""C15 — non-semantic configuration macros and build settings never change results (bit-exact differential)."""
import props
from optable import Cfg, driver_stage, lang_stage

SINGLE = [
    ('cxx98', ['-DGLM_FORCE_CXX98=']), ('cxx03', ['-DGLM_FORCE_CXX03=']), ('cxx11', ['-DGLM_FORCE_CXX11=']), ('cxx14', ['-DGLM_FORCE_CXX14=']),
    ('cxx17', ['-DGLM_FORCE_CXX17=']), ('cxx20', ['-DGLM_FORCE_CXX20=']),
    ('inline', ['-DGLM_FORCE_INLINE=']), ('explicit_ctor', ['-DGLM_FORCE_EXPLICIT_CTOR=']), ('ctor_init', ['-DGLM_FORCE_CTOR_INIT=']),
    ('size_t_length', ['-DGLM_FORCE_SIZE_T_LENGTH=']), ('xyzw_only', ['-DGLM_FORCE_XYZW_ONLY=']), ('swizzle', ['-DGLM_FORCE_SWIZZLE=']),
    ('unrestricted', ['-DGLM_FORCE_UNRESTRICTED_GENTYPE=']), ('wxyz', ['-DGLM_FORCE_QUAT_DATA_WXYZ=']),
    ('platform_unknown', ['-DGLM_FORCE_PLATFORM_UNKNOWN=']), ('compiler_unknown', ['-DGLM_FORCE_COMPILER_UNKNOWN=']), ('arch_unknown', ['-DGLM_FORCE_ARCH_UNKNOWN=']),
    ('cxxunknown', ['-DGLM_FORCE_CXX_UNKNOWN=']), ('pure', ['-DGLM_FORCE_PURE=']),
]
# the single-macro configurations define the macro empty (`#define GLM_FORCE_X`, the documented form); the combinations use -DX (value 1)
COMBOS = [
    ('cxx98+ctor_init+wxyz', ['-DGLM_FORCE_CXX98', '-DGLM_FORCE_CTOR_INIT', '-DGLM_FORCE_QUAT_DATA_WXYZ']),
    ('cxx11+inline+xyzw_only+size_t', ['-DGLM_FORCE_CXX11', '-DGLM_FORCE_INLINE', '-DGLM_FORCE_XYZW_ONLY', '-DGLM_FORCE_SIZE_T_LENGTH']),
    ('cxxunknown-all', ['-DGLM_FORCE_PLATFORM_UNKNOWN', '-DGLM_FORCE_COMPILER_UNKNOWN', '-DGLM_FORCE_ARCH_UNKNOWN', '-DGLM_FORCE_CXX_UNKNOWN']),
    ('swizzle+explicit+unrestricted', ['-DGLM_FORCE_SWIZZLE', '-DGLM_FORCE_EXPLICIT_CTOR', '-DGLM_FORCE_UNRESTRICTED_GENTYPE']),
]
QUICK = ['cxx98', 'cxx11', 'inline', 'ctor_init', 'xyzw_only', 'wxyz', 'compiler_unknown', 'cxx98+ctor_init+wxyz', 'size_t_length']


def SPEC(tier):
    cfgs = [Cfg('base')]
    d = dict(SINGLE)
    if tier == 'thorough':
        cfgs += [Cfg(n, f) for n, f in SINGLE] + [Cfg(n, f) for n, f in COMBOS]
        cfgs += [Cfg('O0', opt='-O0'), Cfg('O3', opt='-O3'), Cfg('clang-O2', compiler='clang++'), Cfg('clang-O0', compiler='clang++', opt='-O0'), Cfg('clang-O3', compiler='clang++', opt='-O3'),
                 Cfg('std11', ['-DGLM_FORCE_CXX11'], std='c++17'), Cfg('cxx98-O0', ['-DGLM_FORCE_CXX98'], opt='-O0'), Cfg('cxx98-clang', ['-DGLM_FORCE_CXX98'], compiler='clang++')]
        for c in cfgs:
            c.flags.append('-DOPS_WITH_MEDIUMP')
    else:
        d.update(dict(COMBOS))
        cfgs += [Cfg(n, d[n]) for n in QUICK] + [Cfg('O0', opt='-O0'), Cfg('clang-O2', compiler='clang++'), Cfg('cxx98-clang', ['-DGLM_FORCE_CXX98'], compiler='clang++')]
    st = driver_stage('C15', cfgs, 'bits', 2000, 50000)
    return {'stages': [st, lang_stage('C15')], 'assumptions': props.COMMON_ASSUME + ['"aligned types without intrinsics" cannot be built with gcc/clang on Linux (needs the MS language-extension flag, which only the SIMD arch bit provides); handedness, depth range, default precision and SIMD are semantic switches and deliberately absent'],
            'rule': 'one target per operation instance of the operation table, all on packed types; the same generated input slots go to a baseline library and to one library per configuration '
                    '(single macros, combinations, optimisation levels, both compilers); every output must be bit-identical (two NaNs count as equal); non-trivial = input slots not all equal'}


META = dict(
    technique='bit-exact differential testing between separately compiled GLM configurations (macro / language level / optimisation level / compiler) over a generated operation table, plus a C++98-compatible probe library built at -std=c++98/11/14/17/20 with g++ and clang++ (language level as detected, no macro)',
    text='The operation table (~4200 instances quick, ~6300 thorough; one case in eight is a two-call history f(x), f(other), f(x)) is compiled once per configuration into its own shared library; identical inputs are run through all of them in one process and every output is '
         'compared bit for bit against the baseline. Quick: 13 configurations; thorough: 35 (all single macros of the statement, 4 combinations, O0/O2/O3, g++ and clang++).',
    note='-ffp-contract=off -fno-fast-math are fixed across the matrix (compiler semantics, not GLM settings). Two NaN results are treated as equal whatever their payload.',
    design='6/C15')
