"""C02 — matrix operators/functions implement column-major linear algebra for all nine shapes.

The harness (props/C02_linalg.cpp, compiled as nine translation units selected by C02_PART) guards every GLM expression with
`if constexpr (c02_have(kind, s1, s2, type))`. The pre-pass below finds, with -fsyntax-only compilations of that very file
(C02_PROBE: the probe supplies its own c02_have predicate and explicitly instantiates the family dispatchers), the units whose
body does not instantiate for an element type, writes them to c02_have.hpp and the harness reports them under the target
`instantiation`. Structured bisection: family -> kind -> shape -> sub-operation -> element type; a cached seed (the units found
missing the last time, on any tree) makes the common case a single parallel batch: one probe per family with the seed excluded
(verifies everything else compiles) plus one probe per seed unit (verifies it still fails)."""
import glob, hashlib, json, os, shutil
import vlib
from props import simple
from vlib import Stage

KINDS = ['K_MUL', 'K_MULC', 'K_MV', 'K_VM', 'K_TRANSPOSE', 'K_OUTER', 'K_COMPMULT', 'K_ELEM', 'K_ACCESS', 'K_CONV', 'K_CTOR', 'K_SQUARE', 'K_CROSS', 'K_DIAG', 'K_DIV']
FAMS = ['F_MUL', 'F_MULVEC', 'F_FUNC', 'F_ELEM', 'F_ACCESS', 'F_CONVERT', 'F_GTX', 'F_DIV']
S9, N3, Z = list(range(9)), [2, 3, 4], [0]
# kind -> (family, s1 values, s2 values); must cover the ranges used by HAVE(...) in props/C02_linalg.cpp (a superset is harmless)
KIND = {0: (0, S9, N3), 1: (0, N3, Z), 2: (1, S9, Z), 3: (1, S9, Z), 4: (2, S9, Z), 5: (2, S9, Z), 6: (2, S9, Z), 7: (3, S9, list(range(30))), 8: (4, S9, Z),
        9: (5, S9, S9), 10: (5, S9, list(range(10))), 11: (6, N3, list(range(6))), 12: (6, [3, 4], Z), 13: (6, S9, Z), 14: (7, N3, list(range(4)))}
# (C++ type, qualifier, type id = base + 16*qualifier index, floating)
TYPES = [('float', 'highp', 0, 1), ('double', 'highp', 1, 1), ('glm::int8', 'highp', 2, 0), ('glm::uint8', 'highp', 3, 0), ('glm::int16', 'highp', 4, 0), ('glm::uint16', 'highp', 5, 0),
         ('glm::int32', 'highp', 6, 0), ('glm::uint32', 'highp', 7, 0), ('glm::int64', 'highp', 8, 0), ('glm::uint64', 'highp', 9, 0),
         ('float', 'mediump', 16, 1), ('double', 'lowp', 33, 1), ('glm::int32', 'lowp', 38, 0), ('glm::uint32', 'mediump', 23, 0)]
FIELDS = ['fam', 'kind', 's1', 's2', 'ty']


def units_total():
    n = 0
    for k, (f, a, b) in KIND.items():
        nt = sum(1 for t in TYPES if t[3]) if f == 7 else len(TYPES)
        n += len(a) * len(b) * nt - (9 * nt if k == 9 else 0)
    return n


def unit_pred(u):
    return '(kind==%d&&s1==%d&&s2==%d&&ty==%d)' % tuple(u)


_harness_hash = None


def harness_hash():
    """The probes compile the harness itself, so their cached verdicts must depend on its text (and on the engine headers it includes)."""
    global _harness_hash
    if _harness_hash is None:
        h = hashlib.sha256()
        for f in ['props/C02_linalg.cpp', 'engine/pbt.hpp', 'engine/fp.hpp', 'engine/ref/reflinalg.hpp']:
            with open(os.path.join(vlib.ROOT, f), 'rb') as fh:
                h.update(fh.read())
        _harness_hash = h.hexdigest()[:16]
    return _harness_hash


def node_source(node, excl):
    """Probe translation unit for a node (dict of fixed fields): c02_have is true exactly on the node's units minus `excl`."""
    conds = []
    if 'kind' in node:
        conds.append('kind==%d' % node['kind'])
    else:
        conds.append('(' + '||'.join('kind==%d' % k for k in KIND if KIND[k][0] == node['fam']) + ')')
    for f in ('s1', 's2', 'ty'):
        if f in node:
            conds.append('%s==%d' % (f, node[f]))
    for u in sorted(excl):
        if all(node.get(f, v) == v for f, v in zip(('kind', 's1', 's2', 'ty'), u)) and KIND[u[0]][0] == node['fam']:
            conds.append('!' + unit_pred(u))
    types = [t for t in TYPES if ('ty' not in node or t[2] == node['ty']) and (node['fam'] != 7 or t[3])]
    src = ['// harness ' + harness_hash(), '#define C02_PROBE 1', 'constexpr bool c02_have(int kind, int s1, int s2, int ty) { return %s; }' % '&&'.join(conds), '#include "props/C02_linalg.cpp"']
    src += ['template struct Fam<%s, %s, glm::%s>;' % (FAMS[node['fam']], t[0], t[1]) for t in types]
    return '\n'.join(src)


def children(node):
    if 'kind' not in node:
        return [dict(node, kind=k) for k in KIND if KIND[k][0] == node['fam']]
    f, a, b = KIND[node['kind']]
    if 's1' not in node:
        return [dict(node, s1=v) for v in a]
    if 's2' not in node:
        return [dict(node, s2=v) for v in b if not (node['kind'] == 9 and v == node['s1'])]
    if 'ty' not in node:
        return [dict(node, ty=t[2]) for t in TYPES if f != 7 or t[3]]
    return None


def node_name(node):
    return ','.join('%s=%d' % (f, node[f]) for f in FIELDS if f in node)


def find_missing(pid):
    seedfile = os.path.join(vlib.BUILD, pid, 'missing-seed.json')
    seed = set()
    if os.path.exists(seedfile):
        try:
            seed = set(tuple(u) for u in json.load(open(seedfile)))
        except Exception:
            seed = set()
    missing, errs = set(), {}
    excl = set(seed)
    # round 0: every family with the seed excluded + every seed unit on its own
    nodes = [dict(fam=f) for f in range(len(FAMS))]
    seednodes = [dict(fam=KIND[u[0]][0], kind=u[0], s1=u[1], s2=u[2], ty=u[3]) for u in sorted(seed)]
    rounds = 0
    while nodes or seednodes:
        probes = {}
        for n in nodes:
            probes[node_name(n)] = node_source(n, excl)
        for n in seednodes:
            probes[node_name(n)] = node_source(n, set())
        res = vlib.syntax_probe(pid, probes, '')
        rounds += 1
        nxt = []
        for n in seednodes:
            ok, err = res[node_name(n)]
            u = (n['kind'], n['s1'], n['s2'], n['ty'])
            if not ok:
                missing.add(u); errs[u] = err
            # a seed unit that compiles now is simply available again (it is no longer excluded from the build)
        for n in nodes:
            ok, err = res[node_name(n)]
            if ok:
                continue
            ch = children(n)
            if ch is None:
                u = (n['kind'], n['s1'], n['s2'], n['ty'])
                missing.add(u); errs[u] = err; excl.add(u)
                continue
            ch = [c for c in ch if not ('ty' in c and (c['kind'], c['s1'], c['s2'], c['ty']) in excl)]
            if not ch:
                vlib.log('[C02 pre-pass] %s fails although all of its units are excluded: %s' % (node_name(n), err))
            nxt += ch
        nodes, seednodes = nxt, []
    os.makedirs(os.path.dirname(seedfile), exist_ok=True)
    with open(seedfile, 'w') as f:
        json.dump(sorted(missing), f)
    vlib.log('[C02 pre-pass] %d of %d instantiation units do not compile (%d probe rounds)' % (len(missing), units_total(), rounds))
    return missing, errs


def c02_prebuild(stage, pid, tier):
    missing, errs = find_missing(pid)
    cstr = lambda s: '"' + s.replace('\\', '\\\\').replace('"', '\\"')[:200] + '"'
    lines = ['// generated by the syntax-only pre-pass of lib/specs/C02.py: units of props/C02_linalg.cpp whose GLM expression does not instantiate',
             'constexpr bool c02_have(int kind, int s1, int s2, int ty) { return !(%s); }' % ('||'.join(unit_pred(u) for u in sorted(missing)) or 'false'),
             '#define C02_MISSING(X) ' + ' '.join('X(%s, %d, %d, %d, %s)' % (KINDS[u[0]], u[1], u[2], u[3], cstr(errs.get(u, ''))) for u in sorted(missing)),
             '#define C02_UNITS_PROBED %d' % units_total()]
    d = os.path.join(vlib.BUILD, pid, 'gen-' + vlib.repo_hash())
    for old in glob.glob(os.path.join(vlib.BUILD, pid, 'gen-*')):  # generated headers of other trees (mutation runs) are not kept
        if old != d:
            shutil.rmtree(old, ignore_errors=True)
    vlib.write_if_changed(os.path.join(d, 'c02_have.hpp'), '\n'.join(lines) + '\n')
    stage.flags += ['-I' + d]
    stage.deps.append(os.path.join(d, 'c02_have.hpp'))


PARTS = ['props/C02_linalg.cpp'] + ['props/C02_part_%s.cpp' % n for n in ('double', 'int32', 'uint32', 'int8', 'int16', 'int64', 'fq', 'iq')]


def SPEC(tier):
    d = simple('props/C02_linalg.cpp',
               'every case draws an operation instance from the complete tables (27 mat*mat, 9 mat*vec, 9 vec*mat, 9 transpose / outerProduct / matrixCompMult, all element-wise operators per shape, '
               'operator[] / row / column access, 81 shape conversions + the other constructors, gtx major-storage / cross / diagonal / adjugate / determinant, square division) and an element type '
               '(float, double, int8-64, uint8-64, mediump/lowp variants), then a value class: pairwise distinct non-zero small integers (all arithmetic exact), dyadic k*2^e, large (no overflow), '
               'wrap-around (unsigned and 8/16-bit types, modular), general finite floats of mixed magnitude 2^-30..2^30, zeros/repeats; GLM result against triple loops over plain arrays '
               '(engine/ref/reflinalg.hpp): exact classes VALUE/BITS, general floats within 8 K u sum|a_k b_k|; a case is non-trivial when no entry is zero and all entries of all operands are pairwise distinct '
               '(conversions: additionally none equal to 1), so any transposed, repeated or dropped index changes the result; every (operation, shape, element type) unit is first compiled with -fsyntax-only')
    d['stages'] = [Stage('opt', PARTS)]
    d['stages'][0].prebuild = c02_prebuild
    d['assumptions'] = d['assumptions'] + [
        'signed 32/64-bit matrices are generated overflow-free (signed overflow is undefined behaviour); 8/16-bit operands are kept small enough that the promoted int arithmetic inside GLM cannot overflow, '
        'and their wrap-around results are judged modulo 2^width (the narrowing conversion is implementation-defined = modular on this compiler)',
        'division by zero, NaN and infinities are not generated (no matrix operator documents them)',
        'determinant / adjugate / operator/ are only exercised on inputs where every intermediate is exact (conditioning-aware bounds for them belong to C10)',
    ]
    return d


META = dict(
    technique='structured + random generated-input search (choice-sequence PBT) over the complete operation x shape x element-type tables against an independent triple-loop reference '
              '(128-bit modular integers, long double); exact comparison on constructed exact classes, analytic inner-product bound on general floats; syntax-only instantiation pre-pass with bisection',
    text='Search, not proof: every one of the 27+18 products, 27 matrix functions, ~30 element-wise operators x 9 shapes, 81 conversions and the constructors is executed for 14 element type / qualifier '
         'combinations, 10^5-10^6 cases per family and type group in the quick tier (100x in thorough). Operands with pairwise distinct non-zero entries make any single wrong, transposed or repeated index '
         'observable, and the exact classes leave no tolerance to hide in; general floats report err/tol (max ~0.1). Declared operators that do not compile for an element type are found by the pre-pass and reported per unit.',
    note='Trusts engine/ref/reflinalg.hpp and GLM operator[] as the read/write port (tied to the column-major byte image and to the constructors by the access/convert targets). '
         'Pure (non-SIMD) g++ -O2 build, packed qualifiers only; aligned/SIMD matrices are C03/C15 territory. matrixCross4[3][3] is undocumented and only counted.',
    design='6/C02')
