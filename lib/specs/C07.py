"""C07 — float <-> half conversion."""
from props import simple, CFG_AVX2, CFG_SSE2


def SPEC(tier):
    return simple('props/C07_half.cpp',
                  'exhaustive enumeration of all 2^16 half and all 2^32 float bit patterns through packHalf1x16/unpackHalf1x16 against a bit-level '
                  'IEEE binary16 reference and the F16C instructions, plus random lane-placement cases for the multi-component packers; '
                  'a case is non-trivial when rounding/overflow/underflow actually happens (float->half), the pattern is not +-0 (half->float), or four distinct lanes are packed; '
                  'the same harness is also built with GLM_FORCE_INTRINSICS at AVX2 and SSE2 level (every 4th float pattern there)',
                  configs=[CFG_AVX2, CFG_SSE2])


META = dict(
    technique='exhaustive enumeration (2^16 half, 2^32 float patterns) against a bit-level IEEE binary16 reference model + F16C hardware differential; random lane-placement cases',
    text='Complete enumeration of both input domains on every run (quick and thorough), so for packHalf1x16/unpackHalf1x16 on this compiler/CPU the property is decided, not sampled; the multi-component observers (packHalf2x16/4x16, packHalf<L>) are tied to the scalar pair by random lane-placement cases.',
    note='Trusts the reference written in props/C07_half.cpp (double arithmetic on exactly representable values) and, as a second opinion, the F16C instructions; g++ -O2 build only.',
    design='6/C07')
