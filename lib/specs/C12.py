"""C12 — geometric functions satisfy Euclidean identities on vec1..4 (core geometric.hpp + gtx norm/projection/perpendicular/
orthonormalize/vector_angle/closest_point/normal/exterior_product/mixed_product)."""
from props import simple
from vlib import Stage


def SPEC(tier):
    d = simple('props/C12_geometric.cpp',
               'float and double vectors of length 1-4 (and the scalar genType overloads) with component magnitudes 2^-20..2^20 mixed within one vector, small integers, axis-aligned and same-scale '
               'vectors; pairs in the relations independent / exactly orthogonal / nearly orthogonal / parallel / antiparallel / nearly parallel (cancellation) / equal; unit vectors rounded to T; '
               'eta log-uniform in (0.1,10), table values, and eta above / below / within ulps of the critical value, eta = 1 with exactly orthogonal integer vectors (k = 0 exactly); '
               'every function against the documented formula in long double with a conditioning-aware forward-error bound (x8 margin) and the Euclidean identities evaluated on GLM\'s own results; '
               'a case is non-trivial when the vectors are not axis-aligned and have pairwise distinct |components| (a wrong index or sign is visible), dot != 0, and every branch '
               '(TIR / transmitted, faceforward side, clamp region, orientation) is decided beyond its rounding bound; TIR, dot = 0 and near-threshold classes are counted separately')
    d['stages'] = [Stage('opt', ['props/C12_geometric.cpp', 'props/C12_gtx.cpp']),
                   # its own binary: <glm/geometric.hpp> is the only GLM header there (an inline function compiled against another include
                   # order in a second translation unit of the same program would be merged with this one)
                   Stage('standalone', ['props/C12_standalone.cpp']),
                   Stage('opt-allhdr', ['props/C12_geometric.cpp', 'props/C12_gtx.cpp'], flags=['-include', 'glm/ext.hpp'], scale=0.25)]
    return d


META = dict(
    technique='structured + random generated-input search (choice-sequence PBT) against long-double reference formulas with analytic forward-error bounds, plus relational (metamorphic) Euclidean identities',
    text='Search, not proof: 26 targets (13 relation groups x float/double), 3-6x10^5 cases each in the quick tier and 100x that in the thorough tier, over constructed orthogonal / parallel / antiparallel / '
         'nearly degenerate configurations, unit and non-unit normals, and all refract branches including k = 0 exactly and eta within ulps of the critical angle. Every comparison reports observed error / tolerance '
         '(max <= 0.2 on the unchanged tree), so the bounds are known to be neither vacuous nor flaky.',
    note='Trusts the long-double formulas in engine/ref/refgeom.hpp and the error analysis written next to each target; pure (non-SIMD) g++ -O2 build with -ffp-contract=off only, default (highp) qualifier; '
         'inputs whose squared norms over/underflow, zero-length vectors, NaN/Inf and lxNorm Depth 0 are outside the quantifier and not generated. The scalar refract overload returns NaN on total internal '
         'reflection (finding #9 of DESIGN.md section 4) under the narrow key refract/*:refract/scalar/tir.',
    design='6/C12')
