"""C18 — power-of-two, multiple and bitfield utilities return the documented integer."""
from props import simple
from vlib import Stage


def SPEC(tier):
    d = simple('props/C18_pow2_multiple.cpp',
               'every value of int8/uint8/int16/uint16 (exhaustive) crossed with every multiple m>=1, every bit rank, every shift and every (first,count), '
               'all 2^32 16-bit pairs / 2^24 byte triples / 2^32 byte quadruples of bitfieldInterleave (quick tier: 16-bit multiples one index per 64, 16x2 one per 4, 8x4 one per 32), '
               'structured + random 32/64-bit and floating operands, scalar and vector overloads, against loop/wide-integer reference definitions; '
               'non-trivial = the function actually rounds (x not a power of two / not a multiple), the rotation direction is observable, the filled range holds both bit values, '
               'the interleaved operands are pairwise different and neither 0 nor all-ones')
    d['stages'][0].sources = ['props/C18_pow2_multiple.cpp', 'props/C18_bitfield.cpp', 'props/C18_gtxint_fmult.cpp']
    # glm/simd/integer.h only exists when the SSE2 code path is enabled
    d['stages'].append(Stage('sse2', ['props/C18_simd.cpp'], flags=['-DGLM_FORCE_INTRINSICS', '-msse2']))
    d['stages'].append(Stage('opt-allhdr', list(d['stages'][0].sources), flags=list(d['stages'][0].flags) + ['-include', 'glm/ext.hpp'], scale=0.25))  # every GLM header seen first: overload selection must not change
    d['assumptions'] = d['assumptions'] + [
        'power-of-two family judged for x>=1 only: the value at 0 is a convention and negative arguments have no documented meaning (GLM works on |x| and restores the sign); both are counted, not judged',
        'results that are not representable in the element type (ceil above the top power of two, multiples beyond the range) are counted, not judged',
        'highestBitValue is not called on negative 32/64-bit values and lowestBitValue not on the minimum: `~x + 1` overflows there (undefined behaviour inside GLM, observed as a non-terminating loop with g++ -O2)',
        'floor_log2 (gtx/integer.hpp) is declared but has no definition and cannot be called',
    ]
    return d


META = dict(
    technique='exhaustive enumeration of the 8/16-bit domains (values x multiples / shifts / ranges / bit ranks, 2^32 interleave pairs) + structured/random 32/64-bit and floating generation, '
              'against loop-based and wide-integer (__int128 / __float128) reference definitions; BITS comparison, 8-ulp bound for inexact floating multiples',
    text='For the 8- and 16-bit element types every input of every listed function is enumerated in the thorough tier (quick tier strides the three largest products), so the property is decided there on this compiler; '
         '32/64-bit and floating overloads are searched with powers of two +-2, ties, q*m +- 1, range ends and random values. Scalar, vec1-4 and (vector, scalar) overloads are executed. '
         'Failures are keyed function/type/input-class so that the known defects (rotate direction, roundMultiple = floorMultiple, ceilMultiple(0), exact floating multiples, 64-bit fills, findNSB on negatives, ...) do not hide others.',
    note='Trusts the loops in engine/ref/refc18.hpp and refint.hpp. Conventions (x=0, negative x for the power-of-two family) and unrepresentable results are counted, never judged. '
         'glm/simd/integer.h is checked in a second stage built with -DGLM_FORCE_INTRINSICS -msse2.',
    design='6/C18')
