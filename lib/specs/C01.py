"""C01 — vector functions/operators equal the scalar overload applied per component."""
import os, sys
from props import COMMON_ASSUME
from vlib import Stage, ROOT

sys.path.insert(0, os.path.join(ROOT, 'gen'))

SOURCES = ['props/C01_main.cpp', 'props/C01_ops.cpp', 'props/C01_ops_b.cpp', 'props/C01_ops_c.cpp', 'props/C01_common.cpp', 'props/C01_common_b.cpp', 'props/C01_math.cpp', 'props/C01_integer.cpp', 'props/C01_ext.cpp', 'props/C01_ext_b.cpp', 'props/C01_matrix.cpp']

RULE = ('instance space = (operator or function) x element type x L in 1..4 x qualifier x overload shape (vec.vec, vec.scalar, scalar.vec, vec.vec1, vec1.vec, compound assignments), enumerated by template '
        'instantiation (quick: float double int32 uint32 int8 uint64 x highp lowp; thorough: all 10 numeric element types + bool where defined x highp mediump lowp); every instance is compiled first by a '
        '-fsyntax-only pre-pass (instances whose body does not compile are reported by the `instantiation` target and left out of the runnable code); per case one instance is drawn and every '
        'operator/function of its group runs on a special-value lattice mixed with random bit patterns mapped into the documented domain (shift counts in [0,width), divisors != 0, no INT_MIN/-1, '
        'signed arithmetic overflow-free, NaN only where the function is defined on it, edge0 < edge1, x >= 0 for iround ...); all int8 operand pairs and a stride of all float patterns are enumerated. '
        'Non-trivial: L >= 2, pairwise distinct components whose scalar results are pairwise distinct (a swapped index or a missed broadcast changes the answer); for broadcast shapes the scalar differs from some component')


def c01_prebuild(stage, pid, tier):
    import c01_gen
    c01_gen.generate(pid, stage, tier)


def SPEC(tier):
    flags = ['-DC01_TIER=%d' % (1 if tier == 'thorough' else 0)]
    st = Stage('opt', SOURCES, flags=flags, deps=['gen/c01_gen.py'])
    st.prebuild = c01_prebuild
    return {'stages': [st], 'rule': RULE, 'assumptions': list(COMMON_ASSUME) + [
        'the oracle is differential inside one build: component i of f(vec...) against the scalar overload f(x_i...) (operators: against the built-in C++ operator on the element type); '
        'what the scalar overload returns is the subject of C05/C11/C12/C14/C18, not of this check',
        'NaN operands only for operators, comparisons, isnan/isinf, abs, sign, bit casts, fmin/fmax/fclamp; signalling NaNs are not given to fmin/fmax',
        'lowp inversesqrt is judged on positive normal floats only (the bit trick has no meaning for 0, subnormals, inf); its tolerance 2^-8 is the one of the property statement, the observed maximum is 0.448 of it (inherent to the approximation, complete sweep)',
        'functions whose scalar overload itself forwards to the vec<1> overload (fract mod sign log2 bitCount findMSB bitfieldExtract/Insert/Reverse isMultiple nextPowerOfTwo) share all code with the vector overload: a defect in that shared code is invisible to this differential and is the business of C05/C11/C18',
        'GLM asserts are live (no NDEBUG): iround/uround see x >= 0 only, nextMultiple/prevMultiple see Multiple > 0',
    ]}


META = dict(
    technique='program generation by template enumeration of the overload matrix (syntax-only pre-pass + runnable instances) and generated-input differential search: '
              'vector overload per component against the scalar overload / built-in operator, exhaustive for int8 operand pairs and for a stride of all float bit patterns',
    text='Every (operator | function, element type, L, qualifier, overload shape) instance is instantiated and executed; absence of a counterexample among 10^6 (quick) to 10^8 (thorough) '
         'structured cases per group, complete for the 8-bit operand pairs of every operator. Identity (bits) is required for operators, selection, rounding, comparison, integer/bit and single-library-call '
         'functions; mix/smoothstep/mod/fma are judged against the rounding bound of the documented formula (err/tol reported), lowp inversesqrt against relative 2^-8.',
    note='Trusts the built-in C++ operators on the element types and GLM\'s own scalar overloads as reference (their values are checked by C05/C11/C14/C18). Instances that do not compile are findings '
         '(uninstantiable/<signature>), not harness errors. g++ -O2 default (pure, non-SIMD) configuration only; aligned/SIMD types are C03.',
    design='6/C01')
