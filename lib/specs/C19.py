"""C19 — colour-space conversions are mutually inverse and range-preserving."""
from props import simple


def SPEC(tier):
    d = simple('props/C19_srgb.cpp',
               'sRGB: every float of [0,1] by bit pattern (quick 1/128, thorough all) and a 2^28 double grid with adjacent values, plus structured cases '
               '(0, 1, both thresholds +-4 ulp, bands around them, k/255, denormals) with gamma from [1,3] and arbitrary alpha; HSV: six sector boundaries +-ulps, '
               'grey/black classes, channels ulps apart; YCoCg on the cube; integer YCoCg-R on all 2^24 8-bit triples and a 2^24-point 16-bit lattice for every element type; '
               'saturation/luminosity on cube colours with s in [-1,3]. Non-trivial = distinct channels/lanes strictly inside the domain and a well-conditioned relation '
               '(hue bound <= 3.6 deg); class counters show both curve segments, the thresholds, all six sectors and both parities of Co')
    d['stages'][0].sources.append('props/C19_hsv_ycocg.cpp')
    from vlib import Stage
    d['stages'].append(Stage('opt-allhdr', list(d['stages'][0].sources), flags=list(d['stages'][0].flags) + ['-include', 'glm/ext.hpp'], scale=0.25))  # every GLM header seen first
    return d


META = dict(
    technique='exhaustive enumeration (2^24 8-bit RGB triples per integer element type, 2^24-point 16-bit lattice, every float of [0,1] in the thorough tier) + structured/random '
              'generation against long-double reference models of IEC 61966-2-1, textbook HSV, Malvar-Sullivan YCoCg / YCoCg-R',
    text='The integer YCoCg-R pair is decided (exactly lossless both ways) for every 8-bit triple of u8/i8/i16/int element types on every run and compared with the paper\'s lifting steps where the type is wide enough; '
         'the sRGB curves are compared point-wise with the IEC definition, swept for monotonicity on adjacent floats/doubles, and the inverse/range/fix-point/alpha clauses are checked with conditioning-aware bounds; '
         'HSV, YCoCg, saturation and luminosity are searched with structured boundary classes. Float results are search evidence, not proof.',
    note='Trusts engine/ref/refcolor.hpp (long double, powl) and the tolerance analysis written next to each check; the default LinearToSRGB bound includes the documented-vs-coded exponent gap (1/2.4 vs 0.41666); '
         'monotonicity across the threshold allows the 2.86e-8 discontinuity of the IEC constants themselves; lowp is held only to the 0.1 of the pinned test. g++ -O2 build only.',
    design='6/C19')
