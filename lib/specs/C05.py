"""C05 — GLSL integer/bitfield functions."""
from props import simple, gen_have, INT_TYPES, CFG_AVX2, CFG_SSE2, CFG_ALLHDR


def c05_prebuild(stage, pid, tier):
    probes = {}
    for t in INT_TYPES:
        for fn, body in [('bitCount', 'glm::bitCount(v); glm::bitCount(w);'), ('findLSB', 'glm::findLSB(v); glm::findLSB(w);'), ('findMSB', 'glm::findMSB(v); glm::findMSB(w);'),
                         ('bitfieldReverse', 'glm::bitfieldReverse(v); glm::bitfieldReverse(w);'), ('bitfieldExtract', 'glm::bitfieldExtract(v,1,2); glm::bitfieldExtract(w,1,2);'),
                         ('bitfieldInsert', 'glm::bitfieldInsert(v,v,1,2); glm::bitfieldInsert(w,w,1,2);')]:
            probes['%s_%s' % (fn, t)] = 'void f(glm::%s v, glm::vec<3, glm::%s> w) { %s }' % (t, t, body)
    gen_have(pid, stage, probes, '#include <glm/glm.hpp>\n#include <glm/integer.hpp>\n#include <glm/ext/scalar_int_sized.hpp>\n#include <glm/ext/scalar_uint_sized.hpp>')


def SPEC(tier):
    d = simple('props/C05_integer.cpp',
               'every value of the 8/16-bit element types (exhaustive) and structured+random 32/64-bit values through the GLSL integer functions, scalar and vec1-4 overloads, '
               'against loop-based reference definitions of the GLSL 4.20 text; every (offset,bits) pair with offset+bits<=width; instantiation of every (function,type) checked by a syntax-only pre-pass; '
               'non-trivial = value not 0/all-ones, field neither empty nor full width; the harness is also built with GLM_FORCE_INTRINSICS (AVX2, SSE2), where the aligned vec2/3/4 overloads are added',
               configs=[CFG_AVX2, CFG_SSE2, CFG_ALLHDR])
    for st in d['stages']:
        st.prebuild = c05_prebuild
    return d


META = dict(
    technique='exhaustive enumeration of 8/16-bit domains + structured/random 32/64-bit generation against loop-based reference models of the GLSL 4.20 definitions; syntax-only instantiation pre-pass',
    text='Every value of int8/uint8/int16/uint16 crossed with every (offset,bits) pair is enumerated, so for those widths the property is decided on this compiler; 32/64-bit kernels are searched with single-bit, run-of-ones, boundary and random patterns (no SMT equivalence: another technique). Scalar and vec1-4 overloads are both executed.',
    note='Trusts the bit-by-bit loops in engine/ref/refint.hpp. usubBorrow result is a recorded known finding (pinned by the suite); its borrow flag and a weaker either-difference relation are still checked.',
    design='6/C05')
