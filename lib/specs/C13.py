"""C13 — slerp/mix/lerp interpolate rotations at constant speed along the right arc (ext/quaternion_common, gtx/quaternion
shortMix/fastMix/squad/intermediate, gtx/dual_quaternion lerp/normalize, gtx/compatibility lerp/isfinite)."""
from props import simple
from vlib import Stage


def SPEC(tier):
    d = simple('props/C13_slerp.cpp',
               'pairs of unit quaternions rounded to float/double (identity, axis, coordinate rotations, rational, random and mixed-magnitude x; y placed at a generated 4-D angle theta from x) with theta log-uniform '
               '1e-9..pi/2 from parallel and from antipodal, on both sides of the linear-fallback threshold sqrt(2 eps) and of the sign flip at pi/2, uniform, independent, exactly equal/antipodal/orthogonal; '
               'factor a in {0, 1, 1/2, neighbours within 4 ulps, k/8, uniform [0,1], uniform [-2,3]} ([0,1] only where GLM asserts it), spin counts -3..3; every result against the long-double great-arc model '
               '(unit length, in span{x,y}, polar angle a*(theta+k*pi) on the shorter/oriented arc, end points, finiteness, slerp(x,y,a)=+-slerp(y,x,1-a)) under the forward-error bound of the interpolation formula '
               '(conditioning 1/sin theta resp. 1/sin^2 theta, x8 margin), lerp overloads bit-for-bit against x*(1-a)+y*a in T; a case is non-trivial when theta is in (1e-6, pi-1e-6), a is not 0 or 1 and its bound is '
               'below 1e-2; zones (below / around / above the threshold, sign ambiguous, ill-conditioned) are counted separately')
    srcs = ['props/C13_slerp.cpp', 'props/C13_gtx.cpp']
    # the interpolation functions build their results through constructors whose argument / memory order depends on the two
    # quaternion-order macros: the same harness is also built under each of them
    d['stages'] = [Stage('opt', srcs), Stage('opt-wxyz', srcs, flags=['-DGLM_FORCE_QUAT_DATA_WXYZ='], scale=0.25), Stage('opt-xyzw', srcs, flags=['-DGLM_FORCE_QUAT_DATA_XYZW'], scale=0.25)]
    return d


META = dict(
    technique='structured + random generated-input search (choice-sequence PBT) against a long-double great-arc reference model with analytic, conditioning-aware forward-error bounds; metamorphic symmetry slerp(x,y,a)=+-slerp(y,x,1-a); '
              'VALUE comparison against x*(1-a)+y*a evaluated in T for the affine lerp overloads; Shoemake formula / composed arc model for intermediate / squad; float sweep (exhaustive in the thorough tier) for gtx isfinite',
    text='Search, not proof: 24 targets (12 groups x float/double), 0.5-2.5x10^6 cases each in the quick tier and 4-10x10^7 in the thorough tier, concentrated where the implementation changes behaviour (linear fallback at '
         'cos(theta) > 1-eps, sign flip at dot = 0, nearly parallel and nearly antipodal pairs down to 1e-9 rad, a outside [0,1], spin counts -3..3). Each geometric clause of the statement (unit length, in-plane, angle = a*theta, '
         'end points, no NaN, symmetry) is a separate comparison with its own failure key and its own observed-error/bound metric (max 0.24 over seeds 1-5 and the thorough tier on the unchanged tree), so the bounds are neither vacuous nor flaky. '
         '47 source mutations of the anchored functions (3 planned + 44 own) were all reported by the quick tier, except one mutant that is equivalent on the generated domain.',
    note='Trusts engine/ref/refslerp.hpp (long double arc model, quaternion log/exp) and the error analysis written next to arc_tol; pure (non-SIMD) g++ -O2 build with -ffp-contract=off, default qualifier only. '
         'Comparisons whose bound exceeds 0.05 rad decide nothing (counted as ill-conditioned): mix next to antipodal inputs (where it also returns NaN when the rounded dot is below -1; the statement asks finiteness of slerp only) and '
         'slerp-with-spins next to parallel inputs (bound ~ u/sin^2 theta; around the fallback threshold either branch is accepted). lerp is only called with a in [0,1] (assert). shortMix is held to its documented '
         'short-path / end-point / unit-length contract, not to constant speed. One failure class fires on the current tree: slerp(x,y,a,k) ignores k below the linear-fallback threshold (keys slerp-spin/*:slerp-spin/*/spins-lost/below-linear-threshold). '
         'A second one, intermediate() returning the zero quaternion when its exponential argument is below epsilon (glm::exp returned a value-initialised qua; keys intermediate/*:intermediate/*/exp-argument-below-epsilon), '
         'fired until /repo commit 5cccc32 corrected glm::exp and is kept as a regression check.',
    design='6/C13')
