"""C06 — pack/unpack functions of glm/packing.hpp and glm/gtc/packing.hpp."""
from props import COMMON_ASSUME
from vlib import Stage

SRCS = ['props/C06_packing.cpp', 'props/C06_packing_tmpl.cpp', 'props/C06_packing_float.cpp']

RULE = ('format table (least-significant field first) driving three generators per format: (1) packed words - every word of the <=16-bit formats, '
        'every word of the 32-bit formats in thorough (one word per block of 256 in quick; thorough keeps one per block of 4 for the four 32-bit packUnorm<>/packSnorm<> instances), structured random words for the 64-bit formats, and every '
        'code of every field with the other fields all-zero / all-one / random; (2) real inputs per component - code preimages and midpoints +-3 ulp, '
        'range ends, beyond-range, +-0, subnormals, +-inf, uniform, and for the small-float formats values of codes, denormal range, sub-minimum, '
        'above-maximum, negative, NaN; (3) every float bit pattern through packUnorm1x8/1x16 and packSnorm1x8/1x16 (thorough; one per block of 16 in quick). '
        'A word case is non-trivial when some field code is not 0/max (integer and half formats: fields pairwise distinct), a pack case when the '
        'resulting field values are pairwise distinct and not all at a range end (a swapped, shifted or duplicated field is visible), '
        'a float-sweep case when x lies strictly inside the range')


def SPEC(tier):
    # second build with GLM_FORCE_INTRINSICS: packing code has architecture-dependent branches even behind packed types
    # third build with the other ABI choices a port meets: plain char unsigned (ARM, PowerPC, RISC-V Linux) and the Microsoft bit-field
    # layout (MinGW, -mms-bitfields); the packed formats are defined by the specification, not by these choices
    return {'stages': [Stage('opt', SRCS), Stage('opt-avx2', SRCS, flags=['-DGLM_FORCE_INTRINSICS', '-mavx2'], scale=0.25),
                       Stage('opt-abi', SRCS, flags=['-funsigned-char', '-mms-bitfields'], scale=0.25)], 'rule': RULE,
            'assumptions': list(COMMON_ASSUME) + [
                'little-endian two\'s-complement target with the GCC/Clang bit-field layout (first member in the least-significant bits)',
                'NaN is not passed to the normalised packers ("any real x"); it is passed to packF2x11_1x10, which tests for it explicitly',
                'packI3x10_1x2/packU3x10_1x2 inputs stay inside the 10/2-bit field ranges; packUnorm<uint32>/packSnorm<int32> are exercised with double only '
                '(2^32-1 is not a float)']}


META = dict(
    technique='exhaustive enumeration of packed words / field codes (2^2..2^16 per field, 2^32 words for the 32-bit formats in thorough) and of all float bit patterns for the scalar packers, '
              'plus structured + random real inputs, against reference models written from the GLSL 4.20 conversion equations and the OpenGL small-float / RGB9_E5 definitions',
    text='Every pack/unpack pair of both headers is driven from a field table through the same three checks: unpack against k/M per field (layout, quantisation), '
         'canonical codes re-pack to themselves and unpack(pack(unpack(p))) = unpack(p), and pack(x) against round(clamp(x)*M) with both neighbours accepted only within '
         '4 ulp of a midpoint, half-step decode error, clamping, monotonicity and independence of the other fields. Word/field domains are enumerated completely '
         '(quick: 32-bit words strided 1/256, floats 1/16), so for the <=16-bit formats and all field codes the property is decided on this compiler; '
         'small floats, RGB9_E5 and RGBM have their own reference models.',
    note='Trusts engine/ref/refpack.hpp (double / long double arithmetic, exact on the values used). The half conversion is C07; here only lane placement. '
         'RGBM has no specification in GLM beyond the cited blog formula, which is what is checked. Known defects of the F2x11_1x10 and F3x9_E1x5 codecs are keyed by '
         'input class so the search continues past them.',
    design='6/C06')
