"""C14 — ULP stepping (nextFloat/prevFloat/floatDistance, ext + gtc) and ULP / epsilon comparisons (equal/notEqual/epsilonEqual/epsilonNotEqual)."""
from props import COMMON_ASSUME
from vlib import Stage

RULE = ('complete enumeration of all 2^32 float bit patterns through the four one-argument stepping functions; n-step overloads (n in {0,1,2,3,64,random<=200}), floatDistance and the vec1-4 overloads on every '
        'float within 70 steps of a binade boundary / zero / max plus one float out of every 2^12 (quick) or 2^6 (thorough), on every double binade boundary (both signs x 2047 exponent fields x 16 mantissas) and on random '
        'structured doubles; random pairs at 0..66 steps, mirrored, unrelated or up to 2^30 steps apart for the distance; comparisons: 16 pairs per case placed at maxULPs-3..maxULPs+3 steps '
        '(resp. |x-y| at epsilon-2ulp..epsilon+2ulp, 0, epsilon/2, 2 epsilon) around +-0, subnormals, binade boundaries, +-max and values straddling zero, through the scalar, vec1-4, 9 matrix-shape and '
        'quaternion overloads; oracle = integer arithmetic on the IEEE order (+0/-0 merged) resp. the exact position of |x-y| relative to epsilon (TwoSum); a stepping case is non-trivial when x is '
        'finite, a distance case when its four distances differ pairwise, a comparison case when some pair sits exactly on the decision boundary (distance maxULPs or maxULPs+1; |x-y| at or one step from '
        'epsilon) and both outcomes occur among its pairs')


def SPEC(tier):
    return {'stages': [Stage('opt', ['props/C14_ulp.cpp', 'props/C14_relational.cpp'])], 'rule': RULE, 'assumptions': list(COMMON_ASSUME) + [
        'stepping out of [-max,+max] (nextFloat(max), prevFloat(-max), n-step paths beyond) is not judged beyond "the result is not on the wrong side of x": GLM does not document whether +-inf counts as a representable value',
        'NaN and +-inf arguments are outside the statement ("every finite x") and are never generated',
        'epsilon comparisons exactly AT |x-y| == epsilon are not judged in absolute terms (doc comments say "<", the property statement and the ext code say "<="); only complement and cross-overload agreement are required there',
        'floatDistance is judged only when the true distance fits its return type (int / int64)',
    ]}


META = dict(
    technique='exhaustive enumeration of all 2^32 float patterns (one-argument stepping functions) + complete sweep of binade boundaries (float and double) + structured/random pairs, '
              'against an integer model of the IEEE order (no GLM code, no libm) and an exact (TwoSum) model of |x-y| versus epsilon; cross-overload differential (matrix vs vector, vector vs scalar)',
    text='nextFloat/prevFloat/next_float/prev_float are decided on every float of this platform (complete enumeration, both tiers); the n-step overloads, floatDistance, the vector overloads and all double '
         'variants are searched on every binade boundary, around zero and max, on a 2^-12 sample of the floats and on random structured values. equal/notEqual in ULPs are compared with the integer order '
         'distance on pairs placed exactly on and next to the decision boundary for every sign class; the epsilon forms are judged wherever "<" and "<=" agree and checked for complement and cross-overload '
         'consistency at the boundary itself. Search, not proof, outside the enumerated float domain.',
    note='Trusts engine/ref/refulp.hpp (sign-magnitude -> ordered integer map, widened to int64/__int128; TwoSum for the exact side of |x-y| vs epsilon) and fp::ordered/from_ordered. '
         'Failing keys on the unchanged tree are GLM defects recorded in DESIGN.md section 4 (#6 prevFloat towards min(), #7 floatDistance across zero, #8 sign handling of equal in ULPs). '
         'detail::nextafterf/nextafter (MSVC-only fallback) are not reachable in this configuration. g++ -O2 build only.',
    design='6/C14')
