"""C16 — storage layout contract: one harness build per configuration, every vec/mat/qua instantiation enumerated."""
import props
from vlib import Stage

ISA = [('sse2', '-msse2'), ('sse3', '-msse3'), ('ssse3', '-mssse3'), ('sse41', '-msse4.1'), ('sse42', '-msse4.2'), ('avx', '-mavx'), ('avx2', '-mavx2')]
CFGS = {
    'default': [],
    'swizzle': ['-DGLM_FORCE_SWIZZLE'],
    'xyzw_only': ['-DGLM_FORCE_XYZW_ONLY', '-DC16_XYZW_ONLY'],
    'wxyz': ['-DGLM_FORCE_QUAT_DATA_WXYZ=', '-DC16_EXPECT_WXYZ'],  # defined empty (documented form)
    'size_t_length': ['-DGLM_FORCE_SIZE_T_LENGTH=', '-DC16_EXPECT_SIZE_T_LENGTH'],
    'ctor_init': ['-DGLM_FORCE_CTOR_INIT'],
    'aligned_gentypes': ['-DGLM_FORCE_ALIGNED_GENTYPES', '-DGLM_FORCE_INTRINSICS', '-mavx2', '-DC16_EXPECT_ALIGNED'],
    'default_aligned': ['-DGLM_FORCE_DEFAULT_ALIGNED_GENTYPES', '-DGLM_FORCE_INTRINSICS', '-mavx2', '-DC16_EXPECT_ALIGNED', '-DC16_EXPECT_DEFAULT_ALIGNED'],
    'default_aligned+messages': ['-DGLM_FORCE_MESSAGES', '-DGLM_FORCE_DEFAULT_ALIGNED_GENTYPES', '-DGLM_FORCE_INTRINSICS', '-mavx2', '-DC16_EXPECT_ALIGNED', '-DC16_EXPECT_DEFAULT_ALIGNED'],
    'wxyz+avx2': ['-DGLM_FORCE_QUAT_DATA_WXYZ', '-DC16_EXPECT_WXYZ', '-DGLM_FORCE_INTRINSICS', '-mavx2', '-DC16_EXPECT_ALIGNED'],
    'cxx98+intrinsics-clang': ['-DGLM_FORCE_CXX98', '-DGLM_FORCE_INTRINSICS', '-mavx2', '-DC16_EXPECT_ALIGNED'],
    'swizzle+avx2': ['-DGLM_FORCE_SWIZZLE', '-DGLM_FORCE_INTRINSICS', '-mavx2', '-DC16_EXPECT_ALIGNED'],
}
for n, f in ISA:
    CFGS['intrinsics-' + n] = ['-DGLM_FORCE_INTRINSICS', f, '-DC16_EXPECT_ALIGNED']
QUICK = ['default', 'intrinsics-avx2', 'wxyz', 'xyzw_only', 'size_t_length', 'swizzle+avx2', 'default_aligned+messages', 'wxyz+avx2', 'cxx98+intrinsics-clang']


def c16_prebuild(stage, pid, tier):
    import sys, os
    sys.path.insert(0, os.path.join(props.vlib.ROOT, 'gen'))
    import c16_typedefs
    c16_typedefs.generate(pid, stage)


def SPEC(tier):
    names = sorted(CFGS) if tier == 'thorough' else QUICK
    stages = []
    for n in names:
        cmd = ['clang++' if (n.startswith('swizzle+') or n.endswith('-clang')) else 'g++', '-O1'] + props.vlib.COMMON
        st = Stage(n, ['props/C16_layout.cpp'], cmd=cmd, flags=CFGS[n] + ['-DC16_CFG="%s"' % n], deps=['gen/c16_typedefs.py'])
        st.prebuild = c16_prebuild
        stages.append(st)
    return {'stages': stages, 'build_failure_is_violation': True,
            'assumptions': props.COMMON_ASSUME + ['the contract model is the one of manual.md sections 2.9/2.10/2.18/2.21/4.18 and glm/detail/qualifier.hpp: packed = L contiguous T; aligned = size and alignment (L==3 ? 4 : L)*sizeof(T); matrix = C consecutive columns',
                                                   'aligned gentypes without intrinsics cannot be built with gcc/clang on Linux'],
            'rule': 'complete enumeration of vec<1..4,T,Q>, mat<2..4,2..4,T,Q>, qua<T,Q> over T in {bool, int8..int64, uint8..uint64, float, double} and every qualifier the configuration provides, '
                    'x 32 fillings with distinct component tags; static facts (sizeof, alignof, component addresses, length type) and round trips through value_ptr, operator[], named members, make_*; '
                    'non-trivial = more than one component'}


META = dict(
    technique='program generation by template enumeration: every vec/mat/qua instantiation and every named typedef compiled in each configuration and checked against an explicit layout contract model; tagged-value round trips',
    text='The instantiation space is finite and enumerated completely per configuration (about 650 instantiations packed-only, 1300 with aligned qualifiers), so within a configuration the static facts are decided, not sampled; '
         'quick covers 9 configurations, thorough 19 (every ISA level, SWIZZLE, XYZW_ONLY, SIZE_T_LENGTH, QUAT_DATA_WXYZ with and without intrinsics, CTOR_INIT, ALIGNED_GENTYPES, DEFAULT_ALIGNED_GENTYPES with and without MESSAGES, clang CXX98 + intrinsics). '
         'Per configuration two more targets: every named typedef of glm/fwd.hpp and gtc/type_aligned.hpp (about 1200) must denote the type its name spells, and the default gentypes must be the packed / (DEFAULT_ALIGNED) aligned ones with the sizes of manual 2.10.',
    note='A configuration that no longer compiles is reported as a violation with the compiler log as replay. The contract for aligned types is read from qualifier.hpp/manual.md, not from observed sizes.',
    design='6/C16')
