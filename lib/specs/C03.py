"""C03 — SIMD-intrinsic builds return what the pure path returns (differential over separately compiled GLM copies)."""
import props
from optable import Cfg, simd_cfg, driver_stage

ISA = [('sse2', ['-msse2']), ('sse3', ['-msse3']), ('ssse3', ['-mssse3']), ('sse41', ['-msse4.1']), ('sse42', ['-msse4.2']), ('avx', ['-mavx']), ('avx2', ['-mavx2']),
       ('avx2fma', ['-mavx2', '-mfma', '-DGLM_FORCE_FMA'])]


def SPEC(tier):
    cfgs = [Cfg('pure', ['-DGLM_FORCE_PURE'])]
    if tier == 'thorough':
        for n, f in ISA:
            cfgs.append(simd_cfg(n + '-gcc', f, 'g++'))
            cfgs.append(simd_cfg(n + '-clang', f, 'clang++'))
        cfgs.append(simd_cfg('avx2-wxyz-gcc', ['-mavx2', '-DGLM_FORCE_QUAT_DATA_WXYZ'], 'g++'))
        cfgs.append(Cfg('pure-wxyz', ['-DGLM_FORCE_PURE', '-DGLM_FORCE_QUAT_DATA_WXYZ']))
        for c in cfgs:
            c.flags.append('-DOPS_WITH_MEDIUMP')
    else:
        cfgs += [simd_cfg('sse2-gcc', ['-msse2'], 'g++'), simd_cfg('sse41-clang', ['-msse4.1'], 'clang++'), simd_cfg('avx-clang', ['-mavx'], 'clang++'), simd_cfg('avx2-gcc', ['-mavx2'], 'g++'),
                 simd_cfg('avx2fma-clang', ['-mavx2', '-mfma', '-DGLM_FORCE_FMA'], 'clang++'),
                 simd_cfg('avx2-wxyz-gcc', ['-mavx2', '-DGLM_FORCE_QUAT_DATA_WXYZ'], 'g++')]
    if tier != 'thorough':
        # the mediump qualifier has SIMD specialisations of its own (e.g. outerProduct<4,4,float,aligned_mediump>): the quick tier carries
        # it in the pure and the AVX2 library (operations are matched by name, so the other libraries simply lack those instances)
        for c in cfgs:
            if c.name in ('pure', 'avx2-gcc'):
                c.flags.append('-DOPS_WITH_MEDIUMP')
    st = driver_stage('C03', cfgs, 'class', 3000, 100000, require_simd=True)
    # coverage-guided campaign: pure vs AVX2 in one process, the fuzzer steers the generators' choices
    fz = driver_stage('C03', [cfgs[0], simd_cfg('avx2-gcc', ['-mavx2'] + (['-DOPS_WITH_MEDIUMP'] if tier == 'thorough' else []), 'g++')], 'class', 0, 0, require_simd=True, name='fuzz')
    fz.kind = 'fuzz'
    fz.cmd = list(props.vlib.FUZZ) + list(props.vlib.COMMON)
    fz.fuzz_seconds = {'quick': 15, 'thorough': 300}
    fz.replay_stage = 'driver'
    return {'stages': [st, fz], 'assumptions': props.COMMON_ASSUME + ['the pure library is built with -DGLM_FORCE_PURE on packed types, the SIMD libraries with -DGLM_FORCE_INTRINSICS -m<isa> on aligned types; NEON and MSVC paths are unreachable here'],
            'rule': 'one target per operation instance (function x shape x element type x qualifier); identical input slots to the pure library and to every SIMD library; '
                    'comparison class per operation (bits / value / k ulp of the largest intermediate term / 2^-11 relative on lowp); non-trivial = input slots not all equal; '
                    'cases whose inputs sit within 2^-10 (relative) of a branch threshold are counted but not compared'}


META = dict(
    technique='differential testing between separately compiled GLM configurations (pure vs SSE2..AVX2+FMA) loaded side by side with dlopen, over a generated operation table',
    text='About 4200 operation instances (operators, constructors and conversions, common/exponential/trigonometric/geometric/matrix/quaternion/packing/ULP/colour functions for vec1-4, mat2-4, quat; float, double, int, uint and the builtin integer widths; '
         'highp/mediump/lowp) are executed with the same generated inputs in a GLM_FORCE_PURE build and in GLM_FORCE_INTRINSICS builds (SSE2, SSE4.1, AVX, AVX2, AVX2+FMA, AVX2 with QUAT_DATA_WXYZ in quick; 8 levels x 2 compilers thorough). Branch agreement (refract, faceforward at +-0), invisible-lane, '
         'exponent-extreme and two-call-history operations are part of the table; the MXCSR control bits are compared around every call; a 15 s coverage-guided stage drives the same table. '
         'A sampling search: it shows absence of a counterexample among the generated cases only.',
    note='Trusts the comparison classes in optable/ops_*.cpp (k-ulp bounds of the largest intermediate term). The driver refuses to run if a "SIMD" library silently compiled without GLM_CONFIG_SIMD.',
    design='6/C03')
