"""C17 — swizzles and constructors select and place exactly the named components (program generation).

The quantifier ranges over *programs*: gen/swizzle.py enumerates every accessor (source length x letter set x pattern x
element type x implementation), gen/ctors.py every constructor signature. At prebuild time the rows are packed into shard
TUs under build/C17/gen-<repo-hash>/, a -fsyntax-only pre-pass finds rows whose body does not compile (they become
`uninstantiable/<signature>` entries instead of taking the TU down), and each stage links its shards with props/C17_main.cpp.
One stage per GLM configuration (the build of a configuration is part of what is enumerated)."""
import concurrent.futures as cf
import hashlib
import os
import re
import shutil
import subprocess
import sys

import props
import vlib
from vlib import Stage

sys.path.insert(0, os.path.join(vlib.ROOT, 'gen'))
import swizzle as gen_swizzle  # noqa: E402
import ctors as gen_ctors  # noqa: E402

PID = 'C17'
ROWS_PER_SHARD = {'function': 500, 'function-basic': 500, 'operator': 360, 'ctor': 260}
MAX_LEAVES = 48  # per unit: beyond this many individually failing rows the rest of the unit is reported as one group


def _gen_dir():
    return os.path.join(vlib.BUILD, PID, 'gen-' + vlib.repo_hash())


def _prune_scratch():
    """Bounds the generator's scratch space: old gen-<hash> directories (one per tree content) and old probe markers."""
    base = os.path.join(vlib.BUILD, PID)
    try:
        gens = sorted((os.path.join(base, e) for e in os.listdir(base) if e.startswith('gen-')), key=os.path.getmtime, reverse=True)
        for g in gens[6:]:
            if g != _gen_dir():
                shutil.rmtree(g, ignore_errors=True)
        pd = os.path.join(base, 'probe')
        marks = sorted((os.path.join(pd, e) for e in os.listdir(pd)), key=os.path.getmtime, reverse=True) if os.path.isdir(pd) else []
        for m in marks[3000:]:
            os.unlink(m)
    except OSError:
        pass


def _dep_stamp(files):
    h = hashlib.sha256()
    for f in files:
        with open(os.path.join(vlib.ROOT, f), 'rb') as fh:
            h.update(fh.read())
    return h.hexdigest()[:16]


def pack(units, nshards):
    """Longest-processing-time packing of units into shards (deterministic)."""
    shards = [[] for _ in range(nshards)]
    load = [0] * nshards
    for u in sorted(units, key=lambda u: (-len(u['rows']), u['key'])):
        i = min(range(nshards), key=lambda k: (load[k], k))
        shards[i].append(u)
        load[i] += len(u['rows'])
    return [s for s in shards if s]


def render(prelude, rows):
    """rows: list of macro calls with the @ID@ placeholder."""
    return prelude + '\n'.join(code.replace('@ID@', str(i)) for i, code in enumerate(rows)) + '\n'


def probe_full(text, flags, cmd):
    """-fsyntax-only with every diagnostic kept (cached by content like vlib.syntax_probe). -> (ok, compiler output)"""
    d = os.path.join(vlib.BUILD, PID, 'probe')
    os.makedirs(d, exist_ok=True)
    lim = ['-ferror-limit=0'] if 'clang' in cmd[0] else ['-fmax-errors=0']
    full = list(cmd) + list(flags) + lim + ['-fsyntax-only', '-x', 'c++', '-']
    marker = os.path.join(d, 'full-' + hashlib.sha256((text + ' '.join(full) + vlib.repo_hash()).encode()).hexdigest()[:20])
    if os.path.exists(marker):
        with open(marker) as f:
            t = f.read()
        return t.startswith('ok'), t[3:]
    p = subprocess.run(full, input=text, stdout=subprocess.PIPE, stderr=subprocess.STDOUT, text=True, errors='replace')
    ok = p.returncode == 0
    # keep what diagnose() reads: the error lines and every line that names a row of the probe text
    out = '' if ok else '\n'.join(l[:400] for l in p.stdout.replace(vlib.REPO, '<repo>').splitlines() if 'error' in l or '<stdin>:' in l)
    with open(marker, 'w') as f:
        f.write(('ok \n' if ok else 'no ' + out))
    return ok, out


def diagnose(prelude, rows, flags, cmd, rounds=10):
    """Finds the rows of a shard whose body does not compile from the compiler's own diagnostics: every row is one line of
    the probe text, and each error block names (in its instantiation notes) the row lines it came from. A template that failed
    once is not diagnosed again for a later row, so the offending rows are blanked and the probe repeated until it is clean.
    -> {row index: first error line} or None when the diagnostics cannot be attributed (caller falls back to splitting)."""
    base = prelude.count('\n')
    bad = {}
    for _ in range(rounds):
        text = prelude + '\n'.join(('//' if i in bad else c.replace('@ID@', str(i))) for i, (_, c) in enumerate(rows)) + '\n'
        ok, out = probe_full(text, flags, cmd)
        if ok:
            return bad
        found = 0
        err = None
        waiting = []  # g++ names the rows ("required from here") before the error line, clang after it
        clang = 'clang' in cmd[0]
        for line in out.splitlines():
            is_err = ' error: ' in line or ' error ' in line[:40]
            if is_err:
                err = line.strip()[:300]
                for i in waiting:
                    if i not in bad:
                        bad[i] = err
                        found += 1
                waiting = []
            for m in re.finditer(r'<stdin>:(\d+):', line):
                i = int(m.group(1)) - base - 1
                if not (0 <= i < len(rows)) or i in bad:
                    continue
                if clang or is_err:
                    if err is not None:
                        bad[i] = err
                        found += 1
                else:
                    waiting.append(i)
        if not found:
            return None
    return None


def find_uninstantiable(prelude, shards, failing, flags, cmd):
    """Syntax-only pre-pass over the failing shards: breadth-first, every level is one parallel batch of probes.
    shard -> its units -> quarters -> ... -> single rows. Returns ({row name: error}, {unit key: error}): rows that do not
    compile on their own, and units in which (almost) nothing compiles (decided from four single-row samples)."""
    bad_rows, bad_units, leaves = {}, {}, {}
    units = {}
    pending = []
    for si in failing:
        for ui, u in enumerate(shards[si]):
            units[(si, ui)] = u
            pending.append((si, ui, 0, len(u['rows'])))
    sampled = set()
    while pending:
        probes = {}
        for si, ui, lo, hi in pending:
            probes['g%d_%d_%d_%d' % (si, ui, lo, hi)] = render(prelude, [c for _, c in units[(si, ui)]['rows'][lo:hi]])
        res = vlib.syntax_probe(PID, probes, '', flags, cmd)
        nxt, samples = [], {}
        for si, ui, lo, hi in pending:
            ok, err = res['g%d_%d_%d_%d' % (si, ui, lo, hi)]
            u = units[(si, ui)]
            if ok or u['key'] in bad_units:
                continue
            n = hi - lo
            if n == 1:
                bad_rows[u['rows'][lo][0]] = err
                leaves[u['key']] = leaves.get(u['key'], 0) + 1
                continue
            if leaves.get(u['key'], 0) > MAX_LEAVES:
                for name, _ in u['rows'][lo:hi]:
                    bad_rows[name] = 'not probed individually: more than %d rows of %s fail' % (MAX_LEAVES, u['key'])
                continue
            if lo == 0 and hi == len(u['rows']) and n > 8 and (si, ui) not in sampled:
                # whole unit fails: look at four single rows first (a family like "aligned double" fails everywhere)
                sampled.add((si, ui))
                samples[(si, ui)] = sorted({n // 4, n // 2, (3 * n) // 4, n - 1})
            step = max(1, (n + 3) // 4)
            for a in range(lo, hi, step):
                nxt.append((si, ui, a, min(hi, a + step)))
        if samples:
            sp = {}
            for (si, ui), ks in samples.items():
                for k in ks:
                    sp['s%d_%d_%d' % (si, ui, k)] = render(prelude, [units[(si, ui)]['rows'][k][1]])
            sres = vlib.syntax_probe(PID, sp, '', flags, cmd)
            for (si, ui), ks in samples.items():
                if all(not sres['s%d_%d_%d' % (si, ui, k)][0] for k in ks):
                    bad_units[units[(si, ui)]['key']] = sres['s%d_%d_%d' % (si, ui, ks[0])][1]
            nxt = [g for g in nxt if units[(g[0], g[1])]['key'] not in bad_units]
        pending = nxt
    return bad_rows, bad_units


def cstr(s):
    return '"' + s.replace('\\', '\\\\').replace('"', '\\"').replace('\n', ' ')[:240] + '"'


def generate(stage, family, plan_name, tier, prelude, fixed_deps):
    """Writes the shard TUs of one stage; returns their paths. Called from the stage's prebuild hook."""
    mod = gen_swizzle if family == 'swizzle' else gen_ctors
    units = mod.plan(plan_name, tier)
    nrows = sum(len(u['rows']) for u in units)
    per = ROWS_PER_SHARD['ctor' if family == 'ctor' else plan_name]
    nshards = max(1, min(32, (nrows + per - 1) // per))  # all shards of a stage compile concurrently: bound the memory
    shards = pack(units, nshards)
    prelude = '// generated by gen/%s.py for stage %s (%s tier); fixed parts %s\n' % (mod.__name__.split('.')[-1], stage.name, tier, _dep_stamp(fixed_deps)) + prelude
    cmd, flags = stage.cmd, [f for f in stage.flags]
    # 1. syntax-only pre-pass: one probe per shard (all diagnostics kept); the rows named by the diagnostics are blanked and
    #    the shard re-probed until it is clean
    flat = [[(u, r) for u in sh for r in u['rows']] for sh in shards]
    with cf.ThreadPoolExecutor(max_workers=vlib.NCPU) as ex:
        diag = list(ex.map(lambda fl: diagnose(prelude, [r for _, r in fl], flags, cmd), flat))
    bad_rows, bad_units, group_fail, per_unit = {}, {}, {}, {}
    for si, dg in enumerate(diag):
        for i, err in (dg or {}).items():
            u, (name, _) = flat[si][i]
            bad_rows[name] = err
            per_unit.setdefault(u['key'], []).append(name)
    unresolved = [si for si, dg in enumerate(diag) if dg is None]
    if unresolved and vlib.syntax_probe(PID, {'base': prelude}, '', flags, cmd)['base'][0]:
        # diagnostics could not be attributed to rows: split the shard instead. (When the fixed part alone does not compile
        # the configuration itself is broken: the shards are written unchanged, the build fails and is reported.)
        br, bad_units = find_uninstantiable(prelude, shards, unresolved, flags, cmd)
        bad_rows.update(br)
    # a family that fails (almost) everywhere in a unit is reported once, as a group
    for key, names in per_unit.items():
        if len(names) > MAX_LEAVES:
            group_fail[key] = (len(names), bad_rows[names[0]])
    uninst = 0
    paths = []
    d = _gen_dir()
    for i, sh in enumerate(shards):
        rows = []
        for u in sh:
            if u['key'] in bad_units:
                rows.append('C17_UNINST(@ID@, %s, %s, %s)' % (u['kind'], cstr(u['group']), cstr('none of the sampled rows of this group of %d compiles: %s' % (len(u['rows']), bad_units[u['key']]))))
                uninst += 1
                continue
            if u['key'] in group_fail:
                n, err = group_fail[u['key']]
                rows.append('C17_UNINST(@ID@, %s, %s, %s)' % (u['kind'], cstr(u['group']), cstr('%d of the %d rows of this group do not compile, e.g. %s' % (n, len(u['rows']), err))))
                uninst += 1
            for name, code in u['rows']:
                if name in bad_rows:
                    if u['key'] not in group_fail:
                        rows.append('C17_UNINST(@ID@, %s, %s, %s)' % (u['kind'], cstr(name), cstr(bad_rows[name])))
                        uninst += 1
                else:
                    rows.append(code)
        p = os.path.join(d, '%s_%s_%02d.cpp' % (stage.name.replace('-', '_'), tier, i))
        vlib.write_if_changed(p, render(prelude, rows))
        paths.append(p)
    vlib.log('[gen] %s/%s: %d rows in %d shards, %d uninstantiable' % (PID, stage.name, nrows, len(paths), uninst))
    return paths


def make_stage(pool, name, family, plan_name, cmd, flags, prelude, thorough_only=False):
    fixed = ['props/C17_swizzle_shard.cpp' if family == 'swizzle' else 'props/C17_ctor_shard.cpp', 'engine/ref/refc17.hpp', 'gen/swizzle.py' if family == 'swizzle' else 'gen/ctors.py']
    st = Stage(name, ['props/C17_main.cpp'], cmd=cmd, flags=flags, deps=fixed)
    st.thorough_only = thorough_only
    st.c17_generate = lambda tier: generate(st, family, plan_name, tier, prelude, fixed)

    def prebuild(stage, pid, tier):
        # vlib runs the prebuild hooks one after the other; the first one starts the generators (and their syntax-only
        # pre-passes) of every stage of this run concurrently, each hook then only waits for its own shards
        if not pool['futures']:
            _prune_scratch()
            only = sys.argv[sys.argv.index('--stage') + 1] if '--stage' in sys.argv[:-1] else None
            todo = [s for s in pool['stages'] if (tier == 'thorough' or not s.thorough_only) and (only is None or s.name == only)]
            if '--replay' in sys.argv or stage not in todo:
                todo = [stage]
            ex = cf.ThreadPoolExecutor(max_workers=len(todo))
            pool['futures'] = {s.name: ex.submit(s.c17_generate, tier) for s in todo}
        fut = pool['futures'].get(stage.name)
        stage.sources = ['props/C17_main.cpp'] + (fut.result() if fut else stage.c17_generate(tier))

    st.prebuild = prebuild
    pool['stages'].append(st)
    return st


def SPEC(tier):
    gxx = ['g++', '-O1'] + vlib.COMMON
    clang = ['clang++', '-O1'] + vlib.COMMON
    simd = ['-DGLM_FORCE_INTRINSICS', '-mavx2']
    pool = {'stages': [], 'futures': None}
    stages = [
        make_stage(pool, 'swz-operator', 'swizzle', 'operator', clang, ['-DGLM_FORCE_SWIZZLE'] + simd, gen_swizzle.PRELUDE['operator']),
        make_stage(pool, 'swz-function', 'swizzle', 'function', gxx, ['-DGLM_FORCE_SWIZZLE'], gen_swizzle.PRELUDE['function']),
        make_stage(pool, 'ctor', 'ctor', 'default', gxx, [], gen_ctors.PRELUDE['default']),
        make_stage(pool, 'ctor-simd', 'ctor', 'simd', gxx, simd, gen_ctors.PRELUDE['simd']),
        make_stage(pool, 'ctor-wxyz', 'ctor', 'wxyz', gxx, ['-DGLM_FORCE_QUAT_DATA_WXYZ'], gen_ctors.PRELUDE['wxyz']),
        # pre-C++11 language level: GLM_CONFIG_DEFAULTED_FUNCTIONS is off, so every copy constructor is the hand-written one
        make_stage(pool, 'ctor-wxyz-cxx98', 'ctor', 'wxyz', gxx, ['-DGLM_FORCE_QUAT_DATA_WXYZ', '-DGLM_FORCE_CXX98'], gen_ctors.PRELUDE['wxyz']),
        make_stage(pool, 'ctor-cxx98', 'ctor', 'default', gxx, ['-DGLM_FORCE_CXX98'], gen_ctors.PRELUDE['default'], thorough_only=True),
        make_stage(pool, 'swz-function-xyzwonly', 'swizzle', 'function-basic', gxx, ['-DGLM_FORCE_SWIZZLE', '-DGLM_FORCE_XYZW_ONLY'], gen_swizzle.PRELUDE['function'], thorough_only=True),
        make_stage(pool, 'ctor-xyzw', 'ctor', 'xyzw', gxx, ['-DGLM_FORCE_QUAT_DATA_XYZW'], gen_ctors.PRELUDE['xyzw']),
        make_stage(pool, 'ctor-sse2', 'ctor', 'simd', gxx, ['-DGLM_FORCE_INTRINSICS', '-msse2'], gen_ctors.PRELUDE['simd'], thorough_only=True),
    ]
    return {'stages': stages, 'build_failure_is_violation': True,
            'assumptions': props.COMMON_ASSUME + [
                'operator swizzles need GLM_LANG_CXXMS_FLAG, which gcc/clang on Linux only get together with the SIMD arch bit: they are built with -DGLM_FORCE_INTRINSICS -mavx2 (clang++ -O1)',
                'static_cast<T>(U) of the compiler is the conversion oracle; argument values stay inside the range where that conversion is defined',
                'components are read and written through the raw element array (the layout contract checked by C16), not through GLM accessors'],
            'rule': 'complete enumeration of generated programs: every swizzle accessor (source length 1-4 x xyzw/rgba/stpq x every 1-4 letter pattern x element types; member functions, gtx/vec_swizzle free functions, '
                    'operator members on packed and aligned sources incl. stores and arithmetic through the proxy) and every constructor signature (argument-shape compositions, scalar/vec1 mixes, cross-type, '
                    'cross-qualifier, matrix scalars/columns/diagonal/81 shape conversions, quaternion forms under both storage orders) x 8 fillings; existence by detection idiom / is_constructible (absent = counted); '
                    'non-trivial = program exists and its tags are pairwise distinct (bool: one component differs; single scalar: non-zero)'}


META = dict(
    technique='program generation: every swizzle accessor and constructor signature is emitted as one table row by gen/swizzle.py / gen/ctors.py, compiled per GLM configuration (syntax-only pre-pass for bodies that do not '
              'instantiate) and swept exhaustively over (row x 8 tag fillings) against the index tuple / the static_cast flattening named by the row itself',
    text='The accessor and constructor spaces are finite and enumerated completely for the element types of the tier (quick: float and int, thorough: bool, 8-64 bit integers, float, double), so within a configuration '
         'the property is decided for the enumerated programs on this compiler; values only need to make the selection observable (pairwise distinct tags, several fillings).',
    note='Trusts the raw-array view of vec/mat (C16) and the compiler\'s static_cast. Existence of an overload is decided in C++ (absent rows are counted); a row whose body does not compile is a failure '
         '`uninstantiable/<signature>`. A configuration that stops building is a violation with the compiler log as replay.',
    design='6/C17')
