"""C20 — no undefined behaviour inside the documented domains: the generators of the other properties replayed through
sanitizer builds (ASan + UBSan incl. float-cast-overflow), and the operation table in sanitizer-built pure, AVX2 and SSE2 libraries."""
import props
from vlib import Stage, SAN
from optable import Cfg, driver_stage

SANLIB = ['-g', '-fsanitize=address,undefined,float-cast-overflow', '-fno-sanitize=float-divide-by-zero', '-fsanitize-recover=undefined,float-cast-overflow', '-fno-omit-frame-pointer']
QUICK = {'C05': 0.05, 'C18': 0.02, 'C11': 0.002, 'C14': 0.005, 'C06': 0.01, 'C07': 0.004}
THOROUGH = {'C01': 0.05, 'C02': 0.05, 'C04': 0.05, 'C05': 0.3, 'C06': 0.05, 'C07': 0.05, 'C08': 0.05, 'C09': 0.05, 'C10': 0.05, 'C11': 0.02, 'C12': 0.05, 'C13': 0.05, 'C14': 0.05, 'C18': 0.1, 'C19': 0.05}


def SPEC(tier):
    stages = []
    cfgs = [Cfg('san-pure', SANLIB + ['-DGLM_FORCE_PURE'], compiler='clang++', opt='-O1'),
            Cfg('san-avx2', SANLIB + ['-DGLM_FORCE_INTRINSICS', '-mavx2'], compiler='clang++', opt='-O1', aligned=True),
            Cfg('san-sse2', SANLIB + ['-DGLM_FORCE_INTRINSICS', '-msse2'], compiler='clang++', opt='-O1', aligned=True),
            # unoptimised: at -O1 a memcpy that over-reads a local is folded away before AddressSanitizer instruments it
            Cfg('san-avx2-defalign-O0', SANLIB + ['-DGLM_FORCE_INTRINSICS', '-mavx2', '-DGLM_FORCE_DEFAULT_ALIGNED_GENTYPES'], compiler='clang++', opt='-O0', aligned=True),
            Cfg('san-avx2-swizzle', SANLIB + ['-DGLM_FORCE_INTRINSICS', '-mavx2', '-DGLM_FORCE_SWIZZLE'], compiler='clang++', opt='-O1', aligned=True)]
    st = driver_stage('C20', cfgs, 'class', 1500, 30000, name='optable.san')
    st.cmd = list(SAN)
    st.kind = 'san'
    stages.append(st)
    # re-entrancy: ThreadSanitizer builds of the table, every operation evaluated by two threads at once
    TSANLIB = ['-g', '-fsanitize=thread', '-fno-omit-frame-pointer']
    tcfgs = [Cfg('tsan-pure', TSANLIB + ['-DGLM_FORCE_PURE'], compiler='clang++', opt='-O1'),
             Cfg('tsan-avx2', TSANLIB + ['-DGLM_FORCE_INTRINSICS', '-mavx2'], compiler='clang++', opt='-O1', aligned=True)]
    tt = driver_stage('C20', tcfgs, 'threads', 24, 600, name='optable.tsan')
    tt.cmd = ['clang++', '-O1', '-g', '-fsanitize=thread', '-fno-omit-frame-pointer'] + props.vlib.COMMON
    tt.env.update({'TSAN_OPTIONS': 'symbolize=0:exitcode=0:halt_on_error=0:suppress_equal_stacks=0:suppress_equal_addresses=0:report_signal_unsafe=0:log_path=/dev/null'})
    stages.append(tt)
    for pid, scale in sorted((THOROUGH if tier == 'thorough' else QUICK).items()):
        if pid not in props.PROPS:
            continue
        src = props.PROPS[pid](tier)['stages'][0]
        if not src.sources or src.sources[0].startswith('optable/'):
            continue
        s = Stage(pid + '.san', src.sources, flags=[f for f in src.flags if not f.startswith('-I' + props.vlib.BUILD)], libs=src.libs, kind='san', scale=scale, deps=[d for d in src.deps if not d.startswith('/')])
        pre = getattr(src, 'prebuild', None)
        if pre:
            s.prebuild = (lambda p, opid: (lambda stage, _pid, tier_: p(stage, opid, tier_)))(pre, pid)
        stages.append(s)
    return {'stages': stages, 'only_key_prefixes': ['ubsan/', 'crash', 'tsan/'],
            'assumptions': props.COMMON_ASSUME + ['only what clang 14 ASan/UBSan can observe: type punning through unions and strict-aliasing violations are invisible to it (they are covered only indirectly by the O0/O2 differential of C15)',
                                                   'UBSan reports inside harness code (outside glm/) are logged and ignored; the runtime reports each source location once per process, so one case is recorded per UB site'],
            'rule': 'the generators of the other properties (exhaustive small-integer domains, subsampled float sweeps, lattices, random cases) and the operation table are executed in ASan+UBSan builds (pure, AVX2, SSE2, AVX2 + default aligned gentypes at -O0, AVX2 + operator swizzles; packed objects also at the smallest address offset their type allows), and in ThreadSanitizer builds where two threads evaluate the same operation concurrently; '
                    'a failure is any sanitizer report attributed to a file under glm/, any ThreadSanitizer report, or a concurrent result that differs from the single-threaded one; non-trivial cases are those of the replayed property'}


META = dict(
    technique='sanitizer-instrumented (ASan, UBSan incl. float-cast-overflow) replay of all other properties\' generators and of the per-configuration operation table (pure, AVX2, SSE2, default-aligned -O0, operator-swizzle libraries); every UBSan report is turned into a keyed failure of the running case; ThreadSanitizer builds of the table with every operation evaluated by two unsynchronised threads (re-entrancy)',
    text='In-domain inputs only (the generators of the other checks honour the documented preconditions), so every report is a violation of this property; UBSan runs in recover mode with a report hook, so the search '
         'continues past known sites. Sampling: shows absence of observable UB on the generated cases, on this compiler.',
    note='Trusts clang 14 sanitizer runtimes; UB that sanitizers cannot see (union punning, aliasing) is out of reach. Known findings are keyed by (target, UBSan check kind, GLM file).',
    design='6/C20')
