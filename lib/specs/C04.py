"""C04 — quaternion, matrix, axis-angle and Euler forms of a rotation agree (detail/type_quat, gtc/quaternion, ext/quaternion_*,
gtx/quaternion, gtx/euler_angles, gtx/rotate_vector, gtx/dual_quaternion), in both quaternion storage orders."""
import props
from vlib import Stage

SRCS = ['props/C04_quat.cpp', 'props/C04_euler.cpp', 'props/C04_dualquat.cpp']
CFGS = [('xyzw', []), ('wxyz', ['-DGLM_FORCE_QUAT_DATA_WXYZ'])]


def SPEC(tier):
    stages = [Stage(n, SRCS, flags=f + ['-DC04_CFG="%s"' % n]) for n, f in CFGS]
    # GLM_FORCE_QUAT_DATA_XYZW changes the argument order of the 4-scalar constructor (a documented API switch), so the constructor
    # targets do not apply; every relation that is stated on named components / through wxyz() must still hold in that build
    stages.append(Stage('xyzw-ctor-order', SRCS, flags=['-DGLM_FORCE_QUAT_DATA_XYZW', '-DC04_CFG="xyzw-ctor-order"'], scale=0.3,
                        only='rotate-vector|quat-cast|product|angle-axis|euler-quat|two-vectors|gtx-rotate-vector|exp-log-pow|quat-look-at|dual-quaternion'))
    # both macros at once: memory order w,x,y,z and constructor order x,y,z,w are independent switches
    stages.append(Stage('wxyz+xyzw-ctor-order', SRCS, flags=['-DGLM_FORCE_QUAT_DATA_WXYZ', '-DGLM_FORCE_QUAT_DATA_XYZW', '-DC04_CFG="wxyz+xyzw-ctor-order"'], scale=0.3,
                        only='rotate-vector|quat-cast|product|angle-axis|euler-quat|two-vectors|gtx-rotate-vector|exp-log-pow|quat-look-at|dual-quaternion'))
    return {'stages': stages,
            'assumptions': props.COMMON_ASSUME + [
                'unit quaternions / unit vectors are unit after rounding each component to T; |q|^2 - 1 is measured in long double and enters every bound whose documented formula assumes |q| = 1',
                'reference = long double (64-bit significand) Hamilton / Rodrigues algebra in engine/ref/refrot.hpp with sinl/cosl/atan2l; its own rounding (2^-64) is ignored',
                'both storage orders are separate builds of the same three sources; the case stream is keyed by the configuration-free target name, so both builds judge the identical cases of a seed'],
            'rule': 'unit quaternions rounded to float/double from eight classes (exact table incl. (+-1/2)^4 and two/three equal components, random, axis-angle with the angle within 1e-9 of 0/pi/2pi and the axis within 1e-9 of a coordinate axis, '
                    'w~0, w~+-1, largest-component ties down to +-2 ulps, gimbal neighbourhoods qz qy(+-(pi/2 -+ 1e-9..1e-2)) qx, products), vectors (mixed magnitude, same scale, small ints, axis-aligned, unit, parallel to the rotation axis), '
                    'angles (0, k pi/2 +- 2 ulps, k pi/2 +- 1e-9..1e-3, +-1e-9..1e-1, uniform [-2pi,2pi], table, [-1000,1000]) and angle triples with the middle angle in both gimbal-lock neighbourhoods; every relation of the statement and every function of the '
                    'anchor files is compared with the long-double reference under a conditioning-aware forward-error bound of the documented formula (1/|xyz| for axis(), 1/cos(yaw) for eulerAngles(), 1/|u+v| resp. 1/(1+u.v) for the two-vector constructors, '
                    '1/sin for orientation/lookAt), observed error / bound reported per relation; a case is non-trivial when the rotation is not ~identity, its axis is not degenerate for the relation and the bound is below 1e-2; '
                    'branch counters cover the four quat_cast / dualquat_cast branches and their ties, both angle() branches and w<0, the degenerate axis() branch, the pitch/roll singularity rule, the half-turn and identity branches of qua(u,v)/rotation(u,v)'}


META = dict(
    technique='structured + random generated-input search (choice-sequence PBT) against a long-double rotation algebra (Hamilton product, conversion polynomial, coordinate rotations, Rodrigues) with analytic, conditioning-aware forward-error bounds; '
              'relational checks (round trips, homomorphism mat(q1 q2) = mat(q1) mat(q2), builder = product of single-axis factors) on GLM\'s own results; exact (VALUE/BITS) comparison for component-wise operators, storage order and constructor conventions; '
              'the same sources built with and without GLM_FORCE_QUAT_DATA_WXYZ on identical cases',
    text='Search, not proof: 28 targets (14 relation groups x float/double) per storage order, 1.5-4x10^5 cases each in the quick tier (1.7x10^7 evaluations over both builds) and 25x that in the thorough tier, concentrated where the implementations branch or lose accuracy '
         '(largest-component ties, w ~ 0 / +-1, angle() branch point, gimbal lock from 1e-9 to exact, antiparallel and parallel vector pairs, k pi/2 angles to the ulp). Each clause of the statement is a separate comparison with its own failure key and its own observed-error/bound metric '
         '(max <= 0.2 on the unchanged tree), so the bounds are neither vacuous nor flaky; both builds report identical metrics.',
    note='Trusts engine/ref/refrot.hpp and the error analysis written next to each target; pure (non-SIMD) g++ -O2 build with -ffp-contract=off, default qualifier only. Comparisons whose conditioning bound exceeds 0.5 decide nothing and are counted '
         '(eulerAngles within ~32 eps of gimbal lock, rotation(u,v)/orientation for vectors (anti)parallel to within rounding). slerp/mix/lerp, squad/intermediate, dual-quaternion lerp/normalize belong to C13. '
         'Findings on the unchanged tree keep narrow keys: pow/sqrt for w < -cos(1/2)|q|, exp for |xyz| < eps and for a non-zero real part, rotation(u,-u) for some unit u, orientation() NaN for nearly parallel unit vectors.',
    design='6/C04')
