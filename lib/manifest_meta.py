"""Words for MANIFEST.json live next to each spec (lib/specs/Cxx.py: META); this module only holds the defaults."""
NOT_BUILT = 'check not built yet at this commit (work in progress; the design in DESIGN.md section 6 applies)'
NA_REASONS = {}
