// C01 (exponential, trigonometric, reciprocal-trigonometric functions) — glm/exponential.hpp, glm/trigonometric.hpp,
// glm/ext/vector_reciprocal.hpp. Every vector overload forwards each component to one library call (or one IEEE operation
// around it), so component i must be bit-identical to the scalar overload on x_i. Exception (documented fast approximation):
// inversesqrt on vec<L,float,lowp> uses the 0x5f375a86 bit trick + one Newton step; it is judged against the scalar overload
// with relative error < 2^-8 on positive normal floats (sweep over all of them) and must stay exact for every other type.
#include "fp.hpp"
#include "ref/c01_support.hpp"
#include <glm/glm.hpp>
#include <glm/ext/scalar_reciprocal.hpp>
#include <glm/ext/vector_reciprocal.hpp>
#include "c01_have.hpp"

#ifndef C01_TIER
#define C01_TIER 0
#endif
using namespace c01;

template <class T> static T gen_angle(pbt::Ctx& c) {
	switch (c.draw(6)) {
	case 0: { static const double S[] = {0.0, 0.5235987755982988, 0.7853981633974483, 1.0471975511965976, 1.5707963267948966, 3.141592653589793, 6.283185307179586, -1.5707963267948966, -3.141592653589793, 1e-8, 100.0}; return (T)S[c.draw(11)]; }
	case 1: return (T)c.uniform(-700.0, 700.0);
	default: return (T)c.uniform(-7.0, 7.0);
	}
}
template <class T> static T gen_pos(pbt::Ctx& c) {  // > 0, finite
	switch (c.draw(6)) {
	case 0: { static const double S[] = {1.0, 2.0, 0.5, 4.0, 10.0, 2.718281828459045, 1e-30, 1e30, 0.25, 3.0, 1.0000001, 0.9999999}; return (T)S[c.draw(12)]; }
	case 1: return std::numeric_limits<T>::min() * (T)(1 + c.draw(8));
	default: return (T)c.loguniform(1e-6, 1e6);
	}
}

template <class T, int L, glm::qualifier Q> static void run_math(pbt::Ctx& c, const Inst& in) {
	typedef glm::vec<L, T, Q> V;
	FnCtx fc(c, in);
	T ang[4], ang2[4], pos[4], unit[4], ge1[4], md[4], nz[4], fin[4];
	fill(c, ang, L, [&] { return gen_angle<T>(c); });
	fill(c, ang2, L, [&] { return gen_angle<T>(c); });
	fill(c, pos, L, [&] { return gen_pos<T>(c); });
	fill(c, unit, L, [&] { return gen_in<T>(c, -1.0, 1.0); });
	fill(c, ge1, L, [&] { return (T)(1.0 + (c.draw(4) == 0 ? 0.0 : c.loguniform(1e-6, 1e4))); });
	fill(c, md, L, [&] { return gen_mod<T>(c, 6, 6); });
	fill(c, nz, L, [&] { T v = gen_mod<T>(c, 6, 6); return v == 0 ? T(0.75) : v; });
	fill(c, fin, L, [&] { return gen_finite<T>(c); });
	if (c.verbose) c.logf("%s angle=%s angle2=%s pos=%s unit=%s ge1=%s mod=%s nonzero=%s finite=%s", in.name.c_str(), showv(ang, L).c_str(), showv(ang2, L).c_str(), showv(pos, L).c_str(), showv(unit, L).c_str(),
	                      showv(ge1, L).c_str(), showv(md, L).c_str(), showv(nz, L).c_str(), showv(fin, L).c_str());
	// exponential
	fn2<V, 1>(fc, "pow", JBits(), pos, md, T(0), C01_F2(pow), "pow");
	fn1<V>(fc, "exp", JBits(), md, C01_F1(exp), "exp");
	fn1<V>(fc, "log", JBits(), pos, C01_F1(log), "log");
	fn1<V>(fc, "exp2", JBits(), md, C01_F1(exp2), "exp2");
	fn1<V>(fc, "log2", JBits(), pos, C01_F1(log2), "log2");
	fn1<V>(fc, "sqrt", JBits(), pos, C01_F1(sqrt), "sqrt");
	if constexpr (std::is_same<T, float>::value && Q == glm::lowp) {
		// deliberate approximation: relative error < 2^-8 against the exact scalar overload, positive normal x
		auto tol = [](const T* o) { return ldexpl(1.0L, -8) * (1.0L / sqrtl((long double)o[0])); };
		fn1<V>(fc, "inversesqrt", jtol("lowp inversesqrt relerr/2^-8", tol), pos, C01_F1(inversesqrt), "inversesqrt(lowp)");
	} else
		fn1<V>(fc, "inversesqrt", JBits(), pos, C01_F1(inversesqrt), "inversesqrt");
	// trigonometric
	fn1<V>(fc, "radians", JBits(), fin, C01_F1(radians), "radians");
	fn1<V>(fc, "degrees", JBits(), fin, C01_F1(degrees), "degrees");
	fn1<V>(fc, "sin", JBits(), ang, C01_F1(sin), "sin");
	fn1<V>(fc, "cos", JBits(), ang, C01_F1(cos), "cos");
	fn1<V>(fc, "tan", JBits(), ang, C01_F1(tan), "tan");
	fn1<V>(fc, "asin", JBits(), unit, C01_F1(asin), "asin");
	fn1<V>(fc, "acos", JBits(), unit, C01_F1(acos), "acos");
	fn1<V>(fc, "atan", JBits(), md, C01_F1(atan), "atan");
	fn2<V, 1>(fc, "atan2", JBits(), md, nz, T(0), C01_F2(atan), "atan(y,x)");
	fn1<V>(fc, "sinh", JBits(), ang, C01_F1(sinh), "sinh");
	fn1<V>(fc, "cosh", JBits(), ang, C01_F1(cosh), "cosh");
	fn1<V>(fc, "tanh", JBits(), ang, C01_F1(tanh), "tanh");
	fn1<V>(fc, "asinh", JBits(), md, C01_F1(asinh), "asinh");
	fn1<V>(fc, "acosh", JBits(), ge1, C01_F1(acosh), "acosh");
	{ T u[4]; for (int i = 0; i < L; ++i) u[i] = (std::fabs(unit[i]) == 1) ? unit[i] * T(0.5) : unit[i]; fn1<V>(fc, "atanh", JBits(), u, C01_F1(atanh), "atanh"); }
	// reciprocal family (ext/vector_reciprocal vs ext/scalar_reciprocal)
	fn1<V>(fc, "sec", JBits(), ang, C01_F1(sec), "sec");
	fn1<V>(fc, "csc", JBits(), ang2, C01_F1(csc), "csc");
	fn1<V>(fc, "cot", JBits(), ang2, C01_F1(cot), "cot");
	{ T r[4]; for (int i = 0; i < L; ++i) r[i] = (c.coin() ? T(1) : T(-1)) * ge1[i]; fn1<V>(fc, "asec", JBits(), r, C01_F1(asec), "asec"); fn1<V>(fc, "acsc", JBits(), r, C01_F1(acsc), "acsc");
	  T g[4]; for (int i = 0; i < L; ++i) g[i] = r[i] * T(1.0009765625) + (r[i] > 0 ? T(0.001) : T(-0.001)); fn1<V>(fc, "acoth", JBits(), g, C01_F1(acoth), "acoth"); }
	fn1<V>(fc, "acot", JBits(), md, C01_F1(acot), "acot");
	fn1<V>(fc, "sech", JBits(), ang, C01_F1(sech), "sech");
	fn1<V>(fc, "csch", JBits(), nz, C01_F1(csch), "csch");
	fn1<V>(fc, "coth", JBits(), nz, C01_F1(coth), "coth");
	{ T u[4]; for (int i = 0; i < L; ++i) { u[i] = std::fabs(unit[i]); if (u[i] == 0) u[i] = T(0.5); } fn1<V>(fc, "asech", JBits(), u, C01_F1(asech), "asech"); }
	fn1<V>(fc, "acsch", JBits(), nz, C01_F1(acsch), "acsch");
	// normalize is built on inversesqrt(dot(v,v)): relative 2^-8 on lowp float, a few ulps elsewhere (reference in long double)
	{
		long double n2 = 0;
		for (int i = 0; i < L; ++i) n2 += (long double)nz[i] * (long double)nz[i];
		const long double inv = 1.0L / sqrtl(n2);
		V r = glm::normalize(mkv<V>(nz));
		const bool approx = std::is_same<T, float>::value && Q == glm::lowp;
		const long double rel = approx ? ldexpl(1.0L, -8) : 16 * (long double)std::numeric_limits<T>::epsilon();
		for (int i = 0; i < L; ++i) {
			long double want = (long double)nz[i] * inv;
			if (!within<T>(c, approx ? "lowp normalize relerr/2^-8" : "normalize err/tol", r[i], (T)want, rel * fabsl(want) + (long double)std::numeric_limits<T>::denorm_min())) {
				c.failk(key("normalize", "vec", L, in.tn, approx ? "lowp-accuracy" : "accuracy"), "%s: normalize(%s) component %d = %s, v_i/|v| = %s", in.name.c_str(), showv(nz, L).c_str(), i, show<T>(r[i]).c_str(), show((T)want).c_str());
				break;
			}
		}
	}
	if (fc.nontriv) c.nontrivial();
}

// ---- lowp inversesqrt: every positive normal float ------------------------------------------------------------------
static void prop_isqrt(pbt::Ctx& c) {
	const uint64_t N = 0x7f800000ULL - 0x00800000ULL;  // positive normal patterns
	uint32_t u = (uint32_t)(0x00800000ULL + c.draw(N));
	float x[4] = {fp::u2f(u), fp::u2f(u ^ 0x00400000u), fp::u2f(u < 0x7f000000u ? u + 0x00800000u : u - 0x00800000u), fp::u2f(u ^ 0x003fffffu)};
	if (c.verbose) c.logf("x=%s (bits 0x%08x) through vec1..4<float,lowp>", showv(x, 4).c_str(), u);
	auto one = [&](auto vtag, const char* name) {
		typedef decltype(vtag) V;
		const int L = (int)V::length();
		V r = glm::inversesqrt(mkv<V>(x));
		for (int i = 0; i < L; ++i) {
			float want = glm::inversesqrt(x[i]);
			long double rel = fabsl(((long double)r[i] - (long double)want) / (long double)want);
			c.metric("lowp inversesqrt relerr/2^-8", (double)(rel * 256.0L));
			if (!(rel < 1.0L / 256.0L)) { c.failk(key("inversesqrt", "vec", L, "float", "lowp-accuracy"), "%s: inversesqrt(%s) component %d = %s, scalar 1/sqrt = %s, relative error %.3Lg >= 2^-8", name, showv(x, L).c_str(), i, show<float>(r[i]).c_str(), show(want).c_str(), rel); break; }
		}
	};
	one(glm::vec<1, float, glm::lowp>(), "vec1<float,lowp>"); one(glm::vec<2, float, glm::lowp>(), "vec2<float,lowp>"); one(glm::vec<3, float, glm::lowp>(), "vec3<float,lowp>"); one(glm::vec<4, float, glm::lowp>(), "vec4<float,lowp>");
	// the other qualifiers (and double lowp) are exact
	{
		typedef glm::vec<4, float, glm::mediump> V; V r = glm::inversesqrt(mkv<V>(x));
		for (int i = 0; i < 4; ++i) if (!eq_bits<float>(r[i], glm::inversesqrt(x[i]))) { c.failk(key("inversesqrt", "vec", 4, "float", "mediump-exact"), "vec4<float,mediump>: inversesqrt(%s) component %d = %s differs from the scalar overload", showv(x, 4).c_str(), i, show<float>(r[i]).c_str()); break; }
		double xd[4] = {x[0], x[1], x[2], x[3]};
		typedef glm::vec<4, double, glm::lowp> D; D rd = glm::inversesqrt(mkv<D>(xd));
		for (int i = 0; i < 4; ++i) if (!eq_bits<double>(rd[i], glm::inversesqrt(xd[i]))) { c.failk(key("inversesqrt", "vec", 4, "double", "lowp-exact"), "vec4<double,lowp>: inversesqrt(%s) component %d = %s differs from the scalar overload", showv(xd, 4).c_str(), i, show<double>(rd[i]).c_str()); break; }
	}
	c.nontrivial();
	c.cls((u >> 23) & 1 ? "odd exponent" : "even exponent");
}

static Table& tab() { static Table t; return t; }
static void prop_math(pbt::Ctx& c) { Table& t = tab(); const Inst& in = t[c.draw(t.size())]; in.run(c, in); }
static int reg_all() {
	C01_REG(tab(), run_math, float) C01_REG(tab(), run_math, double)
	add_target("exp-trig-reciprocal", prop_math, tab().size(), 15000, 400000,
	           "instance = vec<L,float|double,Q>; every case runs pow exp log exp2 log2 sqrt inversesqrt radians degrees sin cos tan asin acos atan atan(y,x) sinh cosh tanh asinh acosh atanh and "
	           "sec csc cot asec acsc acot sech csch coth asech acsch acoth on operands inside each function's documented domain (x > 0, |x| <= 1, x >= 1, x != 0, moderate angles); "
	           "bit identity required, except lowp float inversesqrt (relative 2^-8); non-trivial = L >= 2, pairwise distinct components with pairwise distinct scalar results (per-function class counters)");
	add_sweep("inversesqrt-lowp-sweep", prop_isqrt, 0x7f800000ULL - 0x00800000ULL, 32, 2,
	          "every positive normal float (quick: one per block of 32, thorough: one per block of 2) in lane 0 of vec1..4<float,lowp> (other lanes: mantissa bit flipped, next binade, mantissa complemented): relative error of the fast "
	          "inversesqrt against the exact scalar overload < 2^-8; mediump float and lowp double stay bit-exact; all cases non-trivial");
	return 0;
}
static const int reg_math = reg_all();
