// C17 — swizzles and constructors select and place exactly the named components.
//
// This file is the driver shared by every C17 stage: it owns the entry registry and turns each kind of entry
// (member-function swizzles, gtx/vec_swizzle free functions, operator swizzles, vector / matrix / quaternion
// constructors) into one complete sweep over (entry x filling). It contains no GLM code. The entries themselves are
// *generated programs*: gen/swizzle.py and gen/ctors.py write one table row per accessor / constructor signature
// into build/C17/gen-<repo-hash>/<stage>_<n>.cpp; those shard TUs include the fixed bodies props/C17_swizzle_shard.cpp
// or props/C17_ctor_shard.cpp (the checks) and are linked with this driver (see lib/specs/C17.py).
#include "ref/refc17.hpp"
#include <algorithm>

namespace c17 {
std::vector<Entry>& entries() { static std::vector<Entry> v; return v; }
}  // namespace c17

static std::vector<c17::Entry> g_table[c17::K_COUNT];

template <int K> static void prop_kind(pbt::Ctx& c) {
	const std::vector<c17::Entry>& t = g_table[K];
	uint64_t i = c.draw((uint64_t)t.size() * c17::FILLINGS);
	const c17::Entry& e = t[(size_t)(i / c17::FILLINGS)];
	e.run(c, e, (unsigned)(i % c17::FILLINGS));
}

static const char* const RULE[c17::K_COUNT] = {
	"every generated member-function swizzle (source length x letter set x pattern x element type) x 8 tag fillings; result component k must equal source[E_k] bit for bit; "
	"non-trivial = the accessor exists and the source components are pairwise distinct (bool: one component differs from all others)",
	"every gtx/vec_swizzle free function (source length 1-4 x pattern x element type) x 8 tag fillings; same oracle and non-trivial rule as the member functions",
	"every generated operator swizzle member (packed and aligned sources) x 8 tag fillings: implicit conversion, operator(), operator[], vec constructors taking swizzles, binary operators on swizzles, and for "
	"duplicate-free patterns = += -= *= /= through the swizzle (exactly the named components change); non-trivial = accessor exists and source components pairwise distinct (bool: one differs)",
	"every generated vector constructor signature (argument-shape composition x scalar/vec1 choice x element types x qualifiers) x 8 fillings; component k = static_cast<T>(k-th scalar of the left-to-right flattening), "
	"single scalar/vec1 broadcasts, longer vector truncates; non-trivial = constructor exists and the expected components are pairwise distinct (bool involved: not all equal; single scalar: non-zero)",
	"every generated matrix constructor signature (C*R scalars, C columns, single scalar = diagonal, element-type / qualifier conversion, the 81 shape conversions) x 8 fillings; column-major flattening, "
	"static_cast per scalar, identity outside the copied block; non-trivial as for vectors",
	"every generated quaternion constructor signature ((w,x,y,z) scalars, (scalar, vec3), wxyz(), element-type and qualifier conversions) x 8 fillings; components checked by name; non-trivial as for vectors"};

int main(int argc, char** argv) {
	std::vector<c17::Entry>& all = c17::entries();
	std::sort(all.begin(), all.end(), [](const c17::Entry& a, const c17::Entry& b) { int k = strcmp(a.name, b.name); return k ? k < 0 : a.kind < b.kind; });
	for (size_t i = 0; i + 1 < all.size(); ++i)
		if (all[i].kind == all[i + 1].kind && !strcmp(all[i].name, all[i + 1].name)) { fprintf(stderr, "C17: duplicate entry %s\n", all[i].name); return 2; }
	for (const c17::Entry& e : all) g_table[e.kind].push_back(e);
	static pbt::PropFn const fns[c17::K_COUNT] = {prop_kind<0>, prop_kind<1>, prop_kind<2>, prop_kind<3>, prop_kind<4>, prop_kind<5>};
	for (int k = 0; k < c17::K_COUNT; ++k) {
		if (g_table[k].empty()) continue;
		pbt::Target t;
		t.name = c17::kind_name[k]; t.fn = fns[k]; t.domain = (uint64_t)g_table[k].size() * c17::FILLINGS; t.quick_stride = 1; t.thorough_stride = 1;
		t.rule = RULE[k];
		pbt::targets().push_back(t);
	}
	if (pbt::targets().empty()) { fprintf(stderr, "C17: no generated entries were linked\n"); return 2; }
	for (int i = 1; i < argc; ++i) if (!strcmp(argv[i], "--entries")) { for (const c17::Entry& e : all) printf("%s\n", e.name); return 0; }
	return pbt::pbt_main(argc, argv, "C17");
}
