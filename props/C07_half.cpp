// C07 — float <-> half conversion. Exhaustive over all 2^16 half and all 2^32 float patterns.
// Oracles: (1) bit-level reference written here from IEEE-754 binary16 (no GLM code), nearest with either
// neighbour on exact ties; (2) the F16C hardware conversion when the CPU has it (RNE).
#include "fp.hpp"
#include <glm/glm.hpp>
#include <glm/gtc/packing.hpp>
#include <immintrin.h>
#include <cpuid.h>

using namespace fp;

// exact value of a half pattern as double (finite patterns only)
static double half_value(uint16_t h) {
	int s = h >> 15, e = (h >> 10) & 31, m = h & 1023;
	double v = (e == 0) ? std::ldexp((double)m, -24) : std::ldexp((double)(1024 + m), e - 25);
	return s ? -v : v;
}
static bool half_is_nan(uint16_t h) { return ((h >> 10) & 31) == 31 && (h & 1023) != 0; }
static bool half_is_inf(uint16_t h) { return (h & 0x7fff) == 0x7c00; }

// reference magnitude conversion: returns the code of the largest half <= a (a finite, >= 0) and whether
// the remainder is below / equal / above the midpoint to the next code. Codes are monotone in value and the
// successor of 0x7bff (65504) is 0x7c00 (treated as 65536 for rounding = infinity).
static void ref_split(double a, uint32_t* lo, int* cmp) {
	double q;
	uint32_t base;
	if (a < std::ldexp(1.0, -14)) { q = a * 16777216.0; base = 0; }  // subnormal halves: code = a * 2^24
	else {
		int e; std::frexp(a, &e); e -= 1;  // a = f * 2^e, f in [1,2)
		if (e > 15) { *lo = 0x7c00; *cmp = 0; return; }
		q = std::ldexp(a, 10 - e);  // in [1024, 2048)
		base = (uint32_t)(e + 15 - 1) << 10;  // q's 1024 supplies the last exponent step
	}
	double fl = std::floor(q);
	double fr = q - fl;
	*lo = base + (uint32_t)fl;
	*cmp = fr < 0.5 ? -1 : (fr == 0.5 ? 0 : 1);
}

__attribute__((target("f16c"))) static uint16_t hw_f2h(float x) { return (uint16_t)_cvtss_sh(x, _MM_FROUND_TO_NEAREST_INT); }
__attribute__((target("f16c"))) static float hw_h2f(uint16_t h) { return _cvtsh_ss(h); }
static bool cpu_has_f16c() { unsigned a, b, c, d; return __get_cpuid(1, &a, &b, &c, &d) && (c & (1u << 29)) && (c & (1u << 28)); }  // F16C and AVX
static const bool HAVE_F16C = cpu_has_f16c();

// ---------------------------------------------------------------------------------------------
static void prop_h2f(pbt::Ctx& c) {
	uint16_t h = (uint16_t)c.draw(65536);
	float f = glm::unpackHalf1x16(h);
	c.logf("half=0x%04x -> %a", h, (double)f);
	int e = (h >> 10) & 31, m = h & 1023;
	if (e != 0 && e != 31) c.cls("normal");
	if (e == 0 && m) c.cls("subnormal");
	if (half_is_nan(h)) {
		c.cls("nan");
		if (!is_nan(f)) return c.fail("h2f/nan", "half NaN 0x%04x decoded to non-NaN %a", h, (double)f);
		if (sign_bit(f) != (bool)(h >> 15)) return c.fail("h2f/nan-sign", "half NaN 0x%04x lost its sign", h);
	} else if (half_is_inf(h)) {
		c.cls("inf");
		if (!is_inf(f) || sign_bit(f) != (bool)(h >> 15)) return c.fail("h2f/inf", "half inf 0x%04x decoded to %a", h, (double)f);
	} else {
		double want = half_value(h);
		if ((double)f != want || sign_bit(f) != (bool)(h >> 15)) return c.fail("h2f/value", "half 0x%04x decoded to %a, exact value %a", h, (double)f, want);
	}
	if (HAVE_F16C && !half_is_nan(h)) {
		float hw = hw_h2f(h);
		if (f2u(hw) != f2u(f)) return c.fail("h2f/hw", "half 0x%04x: glm %a, F16C %a", h, (double)f, (double)hw);
	}
	uint16_t back = glm::packHalf1x16(f);
	if (back != h) return c.fail("h2f/roundtrip", "half 0x%04x -> %a -> 0x%04x", h, (double)f, back);
	// the other observers decode the same pattern identically
	glm::vec2 v2 = glm::unpackHalf2x16((glm::uint)h | ((glm::uint)(uint16_t)~h << 16));
	if (f2u(v2.x) != f2u(f)) return c.fail("h2f/unpackHalf2x16-lane0", "core unpackHalf2x16 lane 0 differs for 0x%04x", h);
	glm::vec4 v4 = glm::unpackHalf4x16((glm::uint64)h << 48);
	if (f2u(v4.w) != f2u(f)) return c.fail("h2f/unpackHalf4x16-lane3", "unpackHalf4x16 lane 3 differs for 0x%04x", h);
	if (h & 0x7fff) c.nontrivial();
}
PBT_SWEEP("half_to_float", prop_h2f, 65536, 1, 1, "every half bit pattern; non-trivial = not +-0");

static void prop_f2h(pbt::Ctx& c) {
	uint32_t u = (uint32_t)c.draw(1ULL << 32);
	float x = u2f(u);
	uint16_t h = glm::packHalf1x16(x);
	c.logf("float bits 0x%08x (%a) -> half 0x%04x", u, (double)x, h);
	bool neg = u >> 31;
	if (((h >> 15) != 0) != neg) return c.fail("f2h/sign", "float %a -> half 0x%04x: sign not kept", (double)x, h);
	// sign symmetry (all patterns, NaN included)
	uint16_t hneg = glm::packHalf1x16(u2f(u ^ 0x80000000u));
	if ((uint16_t)(hneg ^ 0x8000) != h) return c.fail("f2h/sign-symmetry", "f2h(%a)=0x%04x but f2h(-x)=0x%04x", (double)x, h, hneg);
	if (is_nan(x)) {
		c.cls("nan");
		if (!half_is_nan(h)) return c.fail("f2h/nan", "float NaN 0x%08x -> 0x%04x is not a half NaN", u, h);
		return;
	}
	if (is_inf(x)) {
		c.cls("inf");
		if (!half_is_inf(h)) return c.fail("f2h/inf", "float inf -> 0x%04x", h);
		return;
	}
	double a = std::fabs((double)x);
	uint16_t mag = h & 0x7fff;
	if (half_is_nan(h)) return c.fail("f2h/finite-to-nan", "finite %a -> half NaN 0x%04x", (double)x, h);
	if (a >= 65520.0) {
		c.cls("overflow");
		if (mag != 0x7c00) return c.fail("f2h/overflow", "|x|=%a >= 65520 must give infinity, got 0x%04x", a, h);
		c.nontrivial();
		return;
	}
	if (a < std::ldexp(1.0, -25)) {
		c.cls("underflow");
		if (mag != 0) return c.fail("f2h/underflow", "|x|=%a < 2^-25 must give zero, got 0x%04x", a, h);
		if (a != 0) c.nontrivial();
		return;
	}
	uint32_t lo; int cmp;
	ref_split(a, &lo, &cmp);
	bool exact = (cmp == -1) && (half_value((uint16_t)lo) == a);
	bool ok = (cmp < 0) ? (mag == lo) : (cmp > 0) ? (mag == lo + 1) : (mag == lo || mag == lo + 1);
	if (!ok) return c.fail("f2h/nearest", "|x|=%a: got code 0x%04x, floor code 0x%04x, remainder %s midpoint", a, mag, lo, cmp < 0 ? "below" : cmp > 0 ? "above" : "at");
	if (cmp == 0) c.cls("tie");
	if (a < std::ldexp(1.0, -14)) c.cls("subnormal-result");
	if (a > 65504.0) c.cls("overflow-edge");
	if (HAVE_F16C) {
		uint16_t hw = hw_f2h(x);
		if (hw != h) {
			if (cmp != 0) return c.fail("f2h/hw", "%a: glm 0x%04x, F16C 0x%04x, not a tie", (double)x, h, hw);
			c.cls("tie-differs-from-RNE");
		}
	}
	// monotone: the next float up (in value) must not convert to a smaller half
	float nx = from_ordered<float>(ordered(x) + 1);
	if (!is_inf(nx) && !(u == 0x80000000u)) {
		uint16_t hn = glm::packHalf1x16(nx);
		int32_t o1 = (h & 0x8000) ? -(int32_t)(h & 0x7fff) : (int32_t)(h & 0x7fff);
		int32_t o2 = (hn & 0x8000) ? -(int32_t)(hn & 0x7fff) : (int32_t)(hn & 0x7fff);
		if (o2 < o1) return c.fail("f2h/monotone", "f2h(%a)=0x%04x > f2h(next)=0x%04x", (double)x, h, hn);
	}
	if (!exact) c.nontrivial();
}
PBT_SWEEP("float_to_half", prop_f2h, 1ULL << 32, 1, 1, "every float bit pattern; non-trivial = finite input not exactly representable as a half (rounding, overflow or underflow happens)");

// lane placement of the multi-component packers: component i occupies bits [16i, 16i+16)
static void prop_lanes(pbt::Ctx& c) {
	float v[4]; uint16_t h[4];
	for (int i = 0; i < 4; ++i) {
		v[i] = c.draw(4) == 0 ? u2f((uint32_t)c.draw(1ULL << 32)) : glm::unpackHalf1x16((uint16_t)c.draw(65536));
		if (c.draw(3) == 0) v[i] = u2f(f2u(v[i]) + (uint32_t)c.draw(0x4000));  // off-grid: rounding happens in the lane
		h[i] = glm::packHalf1x16(v[i]);
	}
	c.logf("v=(%a,%a,%a,%a) halves=(%04x,%04x,%04x,%04x)", (double)v[0], (double)v[1], (double)v[2], (double)v[3], h[0], h[1], h[2], h[3]);
	glm::uint p2 = glm::packHalf2x16(glm::vec2(v[0], v[1]));
	if (p2 != ((glm::uint)h[0] | ((glm::uint)h[1] << 16))) return c.fail("lanes/packHalf2x16", "packHalf2x16 = 0x%08x, expected lanes %04x,%04x", p2, h[0], h[1]);
	glm::uint64 p4 = glm::packHalf4x16(glm::vec4(v[0], v[1], v[2], v[3]));
	glm::uint64 w4 = (glm::uint64)h[0] | ((glm::uint64)h[1] << 16) | ((glm::uint64)h[2] << 32) | ((glm::uint64)h[3] << 48);
	if (p4 != w4) return c.fail("lanes/packHalf4x16", "packHalf4x16 = 0x%016llx, expected 0x%016llx", (unsigned long long)p4, (unsigned long long)w4);
	glm::vec2 u2 = glm::unpackHalf2x16(p2);
	glm::vec4 u4 = glm::unpackHalf4x16(p4);
	for (int i = 0; i < 4; ++i) {
		float want = glm::unpackHalf1x16(h[i]);
		if (i < 2 && f2u(u2[i]) != f2u(want)) return c.fail("lanes/unpackHalf2x16", "lane %d: %a vs %a", i, (double)u2[i], (double)want);
		if (f2u(u4[i]) != f2u(want)) return c.fail("lanes/unpackHalf4x16", "lane %d: %a vs %a", i, (double)u4[i], (double)want);
	}
	{ glm::vec<1, glm::uint16> q = glm::packHalf(glm::vec<1, float>(v[0])); if (q.x != h[0]) return c.fail("lanes/packHalf<1>", "lane 0"); if (f2u(glm::unpackHalf(q).x) != f2u(glm::unpackHalf1x16(h[0]))) return c.fail("lanes/unpackHalf<1>", "lane 0"); }
	{ glm::vec<2, glm::uint16> q = glm::packHalf(glm::vec2(v[0], v[1])); glm::vec2 r = glm::unpackHalf(q); for (int i = 0; i < 2; ++i) { if (q[i] != h[i]) return c.fail("lanes/packHalf<2>", "lane %d: %04x vs %04x", i, q[i], h[i]); if (f2u(r[i]) != f2u(glm::unpackHalf1x16(h[i]))) return c.fail("lanes/unpackHalf<2>", "lane %d", i); } }
	{ glm::vec<3, glm::uint16> q = glm::packHalf(glm::vec3(v[0], v[1], v[2])); glm::vec3 r = glm::unpackHalf(q); for (int i = 0; i < 3; ++i) { if (q[i] != h[i]) return c.fail("lanes/packHalf<3>", "lane %d: %04x vs %04x", i, q[i], h[i]); if (f2u(r[i]) != f2u(glm::unpackHalf1x16(h[i]))) return c.fail("lanes/unpackHalf<3>", "lane %d", i); } }
	{ glm::vec<4, glm::uint16> q = glm::packHalf(glm::vec4(v[0], v[1], v[2], v[3])); glm::vec4 r = glm::unpackHalf(q); for (int i = 0; i < 4; ++i) { if (q[i] != h[i]) return c.fail("lanes/packHalf<4>", "lane %d: %04x vs %04x", i, q[i], h[i]); if (f2u(r[i]) != f2u(glm::unpackHalf1x16(h[i]))) return c.fail("lanes/unpackHalf<4>", "lane %d", i); } }
	if (h[0] != h[1] && h[1] != h[2] && h[2] != h[3] && h[0] != h[2] && h[0] != h[3] && h[1] != h[3]) c.nontrivial();
}
PBT_RANDOM("pack_lanes", prop_lanes, 400000, 20000000, "4 floats (random bits, half-representable, or off-grid) through packHalf2x16/4x16/packHalf<L> and their inverses; non-trivial = four pairwise distinct half codes (a swapped or duplicated lane is visible)");

// every pair / quadruple from a table of special floats (signed zeros, subnormal edges, ties, the overflow boundary, infinities, NaN)
// through the multi-component packers: a special case keyed on "all lanes zero" or on one particular lane is only visible here
static const uint32_t SPEC_BITS[] = {0x00000000u, 0x80000000u, 0x00000001u, 0x80000001u, 0x33000000u /*2^-25*/, 0xb3000000u, 0x33000001u, 0x33800000u /*2^-24*/, 0x387fc000u, 0x38800000u /*2^-14*/,
                                      0x3f800000u, 0xbf800000u, 0x3f801000u /*tie*/, 0x477fe000u /*65504*/, 0x477fefffu, 0x477ff000u /*65520*/, 0xc77ff000u, 0x7f800000u, 0xff800000u, 0x7fc00000u, 0xffc00001u, 0x7f7fffffu};
static const int NSPEC = sizeof(SPEC_BITS) / sizeof(SPEC_BITS[0]);
static void prop_lane_specials(pbt::Ctx& c) {
	uint64_t idx = c.draw((uint64_t)NSPEC * NSPEC * NSPEC * NSPEC);
	float v[4]; uint16_t h[4]; bool distinct = true;
	for (int i = 0; i < 4; ++i) { v[i] = u2f(SPEC_BITS[idx % NSPEC]); idx /= NSPEC; h[i] = glm::packHalf1x16(v[i]); }
	for (int i = 0; i < 4; ++i) for (int j = i + 1; j < 4; ++j) if (h[i] == h[j]) distinct = false;
	c.logf("v=(%a,%a,%a,%a) halves=(%04x,%04x,%04x,%04x)", (double)v[0], (double)v[1], (double)v[2], (double)v[3], h[0], h[1], h[2], h[3]);
	auto nanok = [](uint16_t got, uint16_t want) { return got == want || (half_is_nan(got) && half_is_nan(want) && (got & 0x8000) == (want & 0x8000)); };
	glm::uint p2 = glm::packHalf2x16(glm::vec2(v[0], v[1]));
	if (!nanok((uint16_t)(p2 & 0xffff), h[0]) || !nanok((uint16_t)(p2 >> 16), h[1])) c.fail("lanes/specials/packHalf2x16", "packHalf2x16(%a,%a) = 0x%08x, expected lanes %04x,%04x", (double)v[0], (double)v[1], p2, h[0], h[1]);
	glm::uint64 p4 = glm::packHalf4x16(glm::vec4(v[0], v[1], v[2], v[3]));
	glm::vec<4, glm::uint16> q4 = glm::packHalf(glm::vec4(v[0], v[1], v[2], v[3]));
	glm::vec<3, glm::uint16> q3 = glm::packHalf(glm::vec3(v[0], v[1], v[2]));
	glm::vec<2, glm::uint16> q2 = glm::packHalf(glm::vec2(v[0], v[1]));
	for (int i = 0; i < 4; ++i) {
		if (!nanok((uint16_t)((p4 >> (16 * i)) & 0xffff), h[i])) c.fail("lanes/specials/packHalf4x16", "lane %d of packHalf4x16 = %04x, expected %04x", i, (unsigned)((p4 >> (16 * i)) & 0xffff), h[i]);
		if (!nanok(q4[i], h[i])) c.fail("lanes/specials/packHalf<4>", "lane %d of packHalf(vec4) = %04x, expected %04x (x=%a)", i, q4[i], h[i], (double)v[i]);
		if (i < 3 && !nanok(q3[i], h[i])) c.fail("lanes/specials/packHalf<3>", "lane %d of packHalf(vec3) = %04x, expected %04x", i, q3[i], h[i]);
		if (i < 2 && !nanok(q2[i], h[i])) c.fail("lanes/specials/packHalf<2>", "lane %d of packHalf(vec2) = %04x, expected %04x", i, q2[i], h[i]);
	}
	if (distinct) c.nontrivial();
}
PBT_SWEEP("pack_lane_specials", prop_lane_specials, (uint64_t)NSPEC* NSPEC* NSPEC* NSPEC, 1, 1, "every quadruple from a table of 22 special floats (signed zeros, subnormal/underflow edges, a tie, 65504/65520, infinities, NaNs) through packHalf2x16/4x16/packHalf<2,3,4>, lane by lane against packHalf1x16; non-trivial = four distinct codes");

int main(int argc, char** argv) { return pbt::pbt_main(argc, argv, "C07"); }
