// C09 (part 1 of 2) — translate / rotate / scale / shear and the helpers that must agree with them:
//   glm/ext/matrix_transform (translate, rotate, rotate_slow, scale, scale_slow, shear, shear_slow), glm/gtx/transform (translate/rotate/scale(v)),
//   glm/gtx/matrix_transform_2d (3x3 translate, rotate, scale, shearX, shearY), glm/gtx/transform2 (shear*2D/3D, proj2D/3D, scaleBias),
//   glm/gtx/rotate_vector (rotate vec2/3/4, rotateX/Y/Z, orientation, vec3 slerp), glm/gtx/rotate_normalized_axis (matrix and quaternion).
// Oracle: M * E with the elementary matrix E written from its textbook definition in long double (engine/ref/reftransform.hpp:
// translation p+v, Rodrigues' vector formula applied to the basis vectors, diagonal scale, the shear matrix printed in GLM's doc comment),
// under the forward-error bound of the documented computation (entrywise bound dE of E, K-term dot products: 8 (|M| dE + K u |M||E|)).
// Single correctly rounded operations (scale, copied columns) are compared as VALUE / BITS. main() is in C09_lookat_decompose.cpp.
#include "fp.hpp"
#include "ref/reftransform.hpp"
#include <glm/glm.hpp>
#include <glm/ext/matrix_transform.hpp>
#include <glm/gtc/quaternion.hpp>
#include <glm/gtx/transform.hpp>
#include <glm/gtx/transform2.hpp>
#include <glm/gtx/matrix_transform_2d.hpp>
#include <glm/gtx/rotate_vector.hpp>
#include <glm/gtx/rotate_normalized_axis.hpp>

#ifndef C09_CFG
#define C09_CFG "RH"
#endif

using namespace refgeom;
using namespace reftr;

template <class T> static void to16(const glm::mat<4, 4, T>& m, T* a) { for (int c = 0; c < 4; ++c) for (int r = 0; r < 4; ++r) a[4 * c + r] = m[c][r]; }
template <class T> static void to16(const glm::mat<3, 3, T>& m, T* a) { for (int i = 0; i < 16; ++i) a[i] = (i % 5 == 0) ? T(1) : T(0); for (int c = 0; c < 3; ++c) for (int r = 0; r < 3; ++r) a[4 * c + r] = m[c][r]; }
template <class T> static glm::mat<4, 4, T> g4(const T* a) { glm::mat<4, 4, T> m(T(0)); for (int c = 0; c < 4; ++c) for (int r = 0; r < 4; ++r) m[c][r] = a[4 * c + r]; return m; }
template <class T> static glm::mat<3, 3, T> g3(const T* a) { glm::mat<3, 3, T> m(T(0)); for (int c = 0; c < 3; ++c) for (int r = 0; r < 3; ++r) m[c][r] = a[4 * c + r]; return m; }
template <class T, int L> static glm::vec<L, T> G(const T* v) { glm::vec<L, T> r(0); for (int i = 0; i < L; ++i) r[i] = v[i]; return r; }
template <class T, int L> static void X(const glm::vec<L, T>& g, T* v) { for (int i = 0; i < 4; ++i) v[i] = i < L ? g[i] : T(0); }
static inline bool within(pbt::Ctx& c, const char* metric, R err, R tol) { R r = err == 0 ? 0 : err / tol; c.metric(metric, r < 1e30L ? (double)r : 1e30); return err <= tol; }  // (NaN/inf error: finite metric, check fails)

#define REG2(fn, name, q, t, rule) \
	static void fn##_f(pbt::Ctx& c) { fn<float>(c); } PBT_RANDOM(C09_CFG "/" name "/float", fn##_f, q, t, rule); \
	static void fn##_d(pbt::Ctx& c) { fn<double>(c); } PBT_RANDOM(C09_CFG "/" name "/double", fn##_d, q, t, rule)

// want = M E and its entrywise bound: E known to dE, every entry of the product a K-term dot product in T
struct Prod { M4 want, tol; };
template <class T> static Prod product(const M4& M, const M4& E, const M4& dE, int K) {
	Prod p; p.want = mul(M, E);
	M4 aM = absm(M), t1 = mul(aM, dE), t2 = mul(aM, absm(E));
	for (int c = 0; c < 4; ++c) for (int r = 0; r < 4; ++r) p.tol.m[c][r] = 8 * (t1.m[c][r] + K * U<T>() * t2.m[c][r]) + TINY<T>();
	return p;
}
// compares the n x n block; one failure (first bad entry) under `key`
template <class T> static bool cmp(pbt::Ctx& c, const char* metric, const char* key, const T* got, const Prod& p, int n, const char* call) {
	bool ok = true;
	for (int cc = 0; cc < n; ++cc) for (int r = 0; r < n; ++r) {
		if (!within(c, metric, rabs((R)got[4 * cc + r] - p.want.m[cc][r]), p.tol.m[cc][r]) && ok) {
			ok = false;
			c.failk(key, "%s: result[%d][%d]=%.17g, expected %.17Lg (bound %.3Lg)", call, cc, r, (double)got[4 * cc + r], p.want.m[cc][r], p.tol.m[cc][r]);
		}
	}
	return ok;
}
// exact expectations: VALUE (differences in the sign of a zero are counted, not failed)
template <class T> static bool cmp_exact(pbt::Ctx& c, const char* key, const T* got, const T* want, int n, const char* call) {
	for (int cc = 0; cc < n; ++cc) for (int r = 0; r < n; ++r) {
		T g = got[4 * cc + r], w = want[4 * cc + r];
		if (!fp::same_value(g, w)) { c.failk(key, "%s: result[%d][%d]=%.17g, expected exactly %.17g", call, cc, r, (double)g, (double)w); return false; }
		if (!fp::same_bits(g, w)) c.cls("zero-sign-differs(counted)");
	}
	return true;
}
// worst err/tol over the n x n block (infinite for NaN); used where one of several readings may hold: the metric is recorded for the reading that fits best only
template <class T> static R worst_ratio(const T* g, const Prod& p, int n) {
	R w = 0;
	for (int cc = 0; cc < n; ++cc) for (int r = 0; r < n; ++r) { R e = rabs((R)g[4 * cc + r] - p.want.m[cc][r]); if (!(e == e)) return INFINITY; if (e != 0) w = rmax(w, e / p.tol.m[cc][r]); }
	return w;
}
template <class T> static bool matches(pbt::Ctx& c, const char* metric, const T* g, const Prod& p, int n) {
	R w = worst_ratio(g, p, n);
	if (w <= 1) c.metric(metric, (double)w);
	return w <= 1;
}
// two candidate readings: returns bit 0 / bit 1 for the readings that hold, metric from the better one
template <class T> static int matches2(pbt::Ctx& c, const char* metric, const T* g, const Prod& p1, const Prod& p2, int n) {
	R w1 = worst_ratio(g, p1, n), w2 = worst_ratio(g, p2, n), w = w1 < w2 ? w1 : w2;
	if (w <= 1) c.metric(metric, (double)w);
	return (w1 <= 1 ? 1 : 0) | (w2 <= 1 ? 2 : 0);
}
static M4 zeroM() { return zero4(); }

// =============================================================================================
// translate: Result[3] = m0 v0 + m1 v1 + m2 v2 + m3 (4-term), columns 0..2 copied
template <class T> static void translate_p(pbt::Ctx& c) {
	T a[16], v[4], g[16];
	int mc = gen_mat<T>(c, a), vc = gen_vec<T>(c, 3, v, 10);
	c.cls(MC_NAME[mc]); c.cls(VC_NAME[vc]);
	if (c.verbose) c.logf("M=%s v=%s", mstr(a).c_str(), vstr(v, 3).c_str());
	if (rich(a) && distinct_mags(v, 3)) c.nontrivial();
	R rv[4]; lift(v, rv);
	const M4 M = lift16(a), E = translation(rv);
	Prod p = product<T>(M, E, zeroM(), 4);
	to16(glm::translate(g4(a), G<T, 3>(v)), g);
	cmp(c, "translate err/tol", "translate/mat4/M*T(v)", g, p, 4, "translate(M,v)");
	for (int i = 0; i < 12; ++i) if (!fp::same_bits(g[i], a[i])) { c.failk("translate/mat4/columns0-2-copied", "translate(M,v)[%d][%d]=%.17g but M has %.17g there", i / 4, i % 4, (double)g[i], (double)a[i]); break; }
	// gtx/transform: translate(v) = identity with last column (v,1), exactly
	T e[16]; for (int i = 0; i < 16; ++i) e[i] = (i % 5 == 0) ? T(1) : T(0);
	for (int i = 0; i < 3; ++i) e[12 + i] = v[i];
	to16(glm::translate(G<T, 3>(v)), g);
	cmp_exact(c, "translate/gtx(v)/identity-with-v", g, e, 4, "translate(v)");
	// gtx/matrix_transform_2d: 3x3 base, vec2
	T a3[16]; for (int i = 0; i < 16; ++i) a3[i] = (i % 5 == 0) ? T(1) : T(0);
	for (int cc = 0; cc < 3; ++cc) for (int r = 0; r < 3; ++r) a3[4 * cc + r] = a[4 * cc + r];
	M4 E3 = ident4(); E3.m[2][0] = rv[0]; E3.m[2][1] = rv[1];
	Prod p3 = product<T>(lift16(a3), E3, zeroM(), 3);
	to16(glm::translate(g3(a3), G<T, 2>(v)), g);
	cmp(c, "translate2d err/tol", "translate/mat3/M*T(v)", g, p3, 3, "translate(mat3 M, vec2 v)");
	for (int cc = 0; cc < 2; ++cc) for (int r = 0; r < 3; ++r) if (!fp::same_bits(g[4 * cc + r], a3[4 * cc + r])) { c.failk("translate/mat3/columns0-1-copied", "translate(mat3,vec2)[%d][%d]=%.17g but M has %.17g", cc, r, (double)g[4 * cc + r], (double)a3[4 * cc + r]); cc = 2; break; }
}
REG2(translate_p, "translate", 400000, 20000000,
     "base matrix M (identity, zero, diagonal, small-int, affine, rigid, general non-affine, mixed magnitude 2^-10..2^10) x non-zero v (magnitudes 2^-10..2^10, small ints, axis-aligned); translate(M,v) against M*T(v) in long double "
     "(4-term bound), columns 0-2 bit-identical to M, gtx translate(v) exactly identity+(v,1), 3x3/vec2 overload against M3*T2(v); non-trivial = every entry of M non-zero with pairwise distinct magnitudes per row and v with pairwise distinct non-zero components");

// =============================================================================================
// rotate: entrywise bound of the documented computation: reftr::rotation_bound
template <class T> static void rotate_p(pbt::Ctx& c) {
	T a[16], ax[4], ang, g[16];
	int mc = gen_mat<T>(c, a), vc = gen_vec<T>(c, 3, ax, 10), ac = gen_angle<T>(c, &ang);
	c.cls(MC_NAME[mc]); c.cls(VC_NAME[vc]); c.cls(AC_NAME[ac]);
	if (c.verbose) c.logf("M=%s angle=%.17g axis=%s", mstr(a).c_str(), (double)ang, vstr(ax, 3).c_str());
	R rax[4], n[4]; lift(ax, rax); unit3(rax, n);
	const R ra = (R)ang;
	const M4 M = lift16(a), E = rotation(ra, n), dE = rotation_bound(ra, n, E, U<T>());
	bool oblique = nonzeros(ax, 3) == 3 && distinct_mags(ax, 3), generic_angle = rabs(sinl(ra)) > 1e-3L && rabs(cosl(ra)) > 1e-3L;
	if (oblique) c.cls("axis:all three components distinct non-zero");
	if (rich(a) && oblique && generic_angle) c.nontrivial();
	Prod p = product<T>(M, E, dE, 4);
	char call[160]; snprintf(call, sizeof call, "rotate(M,%.9g,%s)", (double)ang, vstr(ax, 3).c_str());
	to16(glm::rotate(g4(a), ang, G<T, 3>(ax)), g);
	cmp(c, "rotate err/tol", "rotate/mat4/M*R(angle,axis)", g, p, 4, call);
	for (int i = 12; i < 16; ++i) if (!fp::same_bits(g[i], a[i])) { c.failk("rotate/mat4/column3-copied", "%s[3][%d]=%.17g but M has %.17g there", call, i % 4, (double)g[i], (double)a[i]); break; }
	to16(glm::rotate_slow(g4(a), ang, G<T, 3>(ax)), g);
	cmp(c, "rotate_slow err/tol", "rotate_slow/mat4/M*R(angle,axis)", g, p, 4, "rotate_slow(M,angle,axis)");
	// gtx/transform rotate(angle, axis) = rotate(I, ...): the rotation matrix itself; affine part exact
	Prod pi = product<T>(ident4(), E, dE, 1);
	to16(glm::rotate(ang, G<T, 3>(ax)), g);
	cmp(c, "rotate(angle,axis) err/tol", "rotate/gtx(angle,axis)/R", g, pi, 4, "rotate(angle,axis)");
	for (int i = 0; i < 4; ++i) {
		T w = i == 3 ? T(1) : T(0);
		if (g[12 + i] != w || g[4 * i + 3] != w) { c.failk("rotate/gtx(angle,axis)/affine-part", "rotate(angle,axis): last row/column entry %d is %.17g / %.17g, expected %g", i, (double)g[4 * i + 3], (double)g[12 + i], (double)w); break; }
	}
	{  // orthonormal, det +1: the "rotation" it names, evaluated in long double on GLM's result
		M4 Rg = lift16(g), RtR = mul(transpose(Rg), Rg);
		R worst = 0, bound = 0;
		for (int j = 0; j < 3; ++j) for (int i = 0; i < 3; ++i) {
			worst = rmax(worst, rabs(RtR.m[j][i] - (i == j ? 1 : 0)));
			R b = 0; for (int k = 0; k < 3; ++k) b += pi.tol.m[i][k] * rabs(E.m[j][k]) + pi.tol.m[j][k] * rabs(E.m[i][k]);
			bound = rmax(bound, b);
		}
		if (!within(c, "rotate orthonormality err/tol", worst, bound)) c.failk("rotate/gtx(angle,axis)/orthonormal", "%s: |R^T R - I| = %.3Lg exceeds %.3Lg", call, worst, bound);
		if (!(det3(Rg) > 0)) c.failk("rotate/gtx(angle,axis)/det+1", "%s: determinant %.6Lg", call, det3(Rg));
	}
	// gtx/rotate_normalized_axis: axis normalised by the caller (rounded to T)
	T nt[4] = {(T)n[0], (T)n[1], (T)n[2], 0};
	to16(glm::rotateNormalizedAxis(g4(a), ang, G<T, 3>(nt)), g);
	cmp(c, "rotateNormalizedAxis err/tol", "rotateNormalizedAxis/mat4/M*R(angle,axis)", g, p, 4, "rotateNormalizedAxis(M,angle,unit axis)");
	for (int i = 12; i < 16; ++i) if (!fp::same_bits(g[i], a[i])) { c.failk("rotateNormalizedAxis/mat4/column3-copied", "rotateNormalizedAxis(M,angle,axis)[3][%d]=%.17g but M has %.17g there", i % 4, (double)g[i], (double)a[i]); break; }
	// gtx/rotate_vector: rotate(vec3/vec4, angle, normal) = R(angle, normal) v
	T v[4]; int vc2 = gen_vec<T>(c, 4, v, 6); (void)vc2;
	R rv[4], want[4], tol[4]; lift(v, rv);
	R rv3[4] = {rv[0], rv[1], rv[2], 0};
	apply(E, rv3, want);
	for (int i = 0; i < 3; ++i) { R t = 0; for (int j = 0; j < 3; ++j) t += dE.m[j][i] * rabs(rv[j]) + 3 * U<T>() * rabs(E.m[j][i] * rv[j]); tol[i] = 8 * t + TINY<T>(); }
	T r3[4], r4[4];
	X<T, 3>(glm::rotate(G<T, 3>(v), ang, G<T, 3>(ax)), r3);
	X<T, 4>(glm::rotate(G<T, 4>(v), ang, G<T, 3>(ax)), r4);
	if (c.verbose) c.logf("v=%s", vstr(v, 4).c_str());
	for (int i = 0; i < 3; ++i) {
		if (!within(c, "rotate(vec3) err/tol", rabs((R)r3[i] - want[i]), tol[i])) { c.failk("rotate/vec3(v,angle,normal)/R*v", "rotate(%s,%.9g,%s)[%d]=%.17g, expected %.17Lg", vstr(v, 3).c_str(), (double)ang, vstr(ax, 3).c_str(), i, (double)r3[i], want[i]); break; }
	}
	for (int i = 0; i < 3; ++i) {
		if (!within(c, "rotate(vec4) err/tol", rabs((R)r4[i] - want[i]), tol[i] + 8 * U<T>() * rabs(want[i]))) { c.failk("rotate/vec4(v,angle,normal)/R*v", "rotate(%s,%.9g,%s)[%d]=%.17g, expected %.17Lg", vstr(v, 4).c_str(), (double)ang, vstr(ax, 3).c_str(), i, (double)r4[i], want[i]); break; }
	}
	if (!fp::same_value(r4[3], v[3])) c.failk("rotate/vec4(v,angle,normal)/w-unchanged", "rotate(%s,...).w=%.17g", vstr(v, 4).c_str(), (double)r4[3]);
}
REG2(rotate_p, "rotate", 300000, 10000000,
     "base matrix M (8 classes) x angle (0, multiples of pi/2 and pi/12, 1e-9..1e-2, one turn, +-4 turns) x non-zero axis of any length (2^-10..2^10, small ints, axis-aligned); rotate, rotate_slow, gtx rotate(angle,axis), "
     "rotateNormalizedAxis (axis normalised in long double, rounded) against M*R with R from Rodrigues' vector formula in long double under the entrywise bound of the documented computation; column 3 bit-identical to M; "
     "R orthonormal with det>0; rotate(vec3/vec4,angle,normal) against R*v; non-trivial = M with all entries non-zero and distinct per row, axis with three distinct non-zero components, |sin|,|cos| > 1e-3 (all nine entries of R matter)");

// =============================================================================================
// scale: every entry is one correctly rounded product m[i][r] * v[i] (VALUE); scale_slow = M * diag(v,1): the other three terms are exact zeros
template <class T> static void scale_p(pbt::Ctx& c) {
	T a[16], v[4], g[16], e[16];
	int mc = gen_mat<T>(c, a), vc = gen_vec<T>(c, 3, v, 10);
	c.cls(MC_NAME[mc]); c.cls(VC_NAME[vc]);
	if (c.draw(8) == 0) { v[c.draw(3)] = 0; c.cls("scale with a zero component"); }
	if (c.verbose) c.logf("M=%s v=%s", mstr(a).c_str(), vstr(v, 3).c_str());
	if (rich(a) && distinct_mags(v, 3)) c.nontrivial();
	for (int cc = 0; cc < 4; ++cc) for (int r = 0; r < 4; ++r) e[4 * cc + r] = cc < 3 ? (T)(a[4 * cc + r] * v[cc]) : a[4 * cc + r];
	to16(glm::scale(g4(a), G<T, 3>(v)), g);
	cmp_exact(c, "scale/mat4/M*S(v)", g, e, 4, "scale(M,v)");
	to16(glm::scale_slow(g4(a), G<T, 3>(v)), g);
	cmp_exact(c, "scale_slow/mat4/M*S(v)", g, e, 4, "scale_slow(M,v)");
	T d[16]; for (int i = 0; i < 16; ++i) d[i] = 0;
	d[0] = v[0]; d[5] = v[1]; d[10] = v[2]; d[15] = 1;
	to16(glm::scale(G<T, 3>(v)), g);
	cmp_exact(c, "scale/gtx(v)/diag(v,1)", g, d, 4, "scale(v)");
	// 3x3 / vec2
	T a3[16], e3[16]; for (int i = 0; i < 16; ++i) a3[i] = (i % 5 == 0) ? T(1) : T(0);
	for (int cc = 0; cc < 3; ++cc) for (int r = 0; r < 3; ++r) a3[4 * cc + r] = a[4 * cc + r];
	for (int i = 0; i < 16; ++i) e3[i] = a3[i];
	for (int cc = 0; cc < 2; ++cc) for (int r = 0; r < 3; ++r) e3[4 * cc + r] = (T)(a3[4 * cc + r] * v[cc]);
	to16(glm::scale(g3(a3), G<T, 2>(v)), g);
	cmp_exact(c, "scale/mat3/M*S(v)", g, e3, 3, "scale(mat3 M, vec2 v)");
	// gtx/transform2 scaleBias(m, scale, bias) = M * [diag(s,s,s,1) with last column (b,b,b,1)]
	T s = v[0], b = v[1];
	M4 E = ident4(); for (int i = 0; i < 3; ++i) { E.m[i][i] = (R)s; E.m[3][i] = (R)b; }
	Prod p = product<T>(lift16(a), E, zeroM(), 4);
	to16(glm::scaleBias(g4(a), s, b), g);
	if (!matches(c, "scaleBias(M,s,b) err/tol", g, p, 4)) {
		if (!c.verbose) c.fail("scaleBias/mat4/M*SB(scale,bias)", "differs");
		else c.failk("scaleBias/mat4/M*SB(scale,bias)", "scaleBias(M,%.9g,%.9g)=%s is not M*[diag(s,s,s,1)|(b,b,b,1)] for M=%s", (double)s, (double)b, mstr(g).c_str(), mstr(a).c_str());
	}
	T sb[16]; for (int i = 0; i < 16; ++i) sb[i] = 0;
	sb[0] = sb[5] = sb[10] = s; sb[12] = sb[13] = sb[14] = b; sb[15] = 1;
	to16(glm::scaleBias<T, glm::defaultp>(s, b), g);
	for (int i = 0; i < 16; ++i) {
		bool named = i % 5 == 0 || i >= 12;  // the entries a scale-bias matrix names: diagonal and last column; everything else is 0
		if (named && !fp::same_value(g[i], sb[i])) { c.failk("scaleBias/(scale,bias)/scale-and-bias-entries", "scaleBias(%.9g,%.9g)[%d][%d]=%.17g, expected %.17g", (double)s, (double)b, i / 4, i % 4, (double)g[i], (double)sb[i]); break; }
	}
	for (int i = 0; i < 12; ++i) if (i % 5 != 0 && !(g[i] == 0)) { c.failk("scaleBias/(scale,bias)/other-entries-zero", "scaleBias(%.9g,%.9g)[%d][%d]=%.17g, expected 0 (the matrix is diag(s,s,s,1) with last column (b,b,b,1))", (double)s, (double)b, i / 4, i % 4, (double)g[i]); break; }
}
REG2(scale_p, "scale", 400000, 20000000,
     "base matrix M (8 classes) x scale vector (magnitudes 2^-10..2^10, small ints, axis-aligned, 1 in 8 with a zero component); scale and scale_slow entry by entry against the single rounded product m*v (VALUE), column 3 unchanged, "
     "gtx scale(v) exactly diag(v,1), 3x3/vec2 overload, scaleBias(M,s,b) against M*[diag(s,s,s,1)|(b,b,b,1)] and scaleBias(s,b) exactly; non-trivial = M rich (all entries non-zero, distinct per row), v with pairwise distinct non-zero components");

// =============================================================================================
// shear (ext/matrix_transform): the matrix of the doc comment; its last column -(a+b) p is known to 2u
template <class T> static void shear_p(pbt::Ctx& c) {
	T a[16], p[4], l[3][4], g[16];
	int mc = gen_mat<T>(c, a);
	c.cls(MC_NAME[mc]);
	int pk = (int)c.draw(4);
	if (pk == 0) { p[0] = p[1] = p[2] = p[3] = 0; c.cls("p:origin"); } else { gen_vec<T>(c, 3, p, 6); c.cls("p:general"); }
	int nz = 0;
	const bool sparse = c.draw(4) == 0;  // one case in four: some ratios zero (single-axis shears)
	for (int i = 0; i < 3; ++i) {
		l[i][2] = l[i][3] = 0;
		for (int j = 0; j < 2; ++j) { l[i][j] = (sparse && c.coin()) ? T(0) : (c.draw(4) == 0 ? (T)c.range(-4, 4) : (T)c.uniform(-3.0, 3.0)); nz += l[i][j] != 0; }
	}
	if (c.verbose) c.logf("M=%s p=%s l_x=%s l_y=%s l_z=%s", mstr(a).c_str(), vstr(p, 3).c_str(), vstr(l[0], 2).c_str(), vstr(l[1], 2).c_str(), vstr(l[2], 2).c_str());
	bool distinct6 = nz == 6;
	for (int i = 0; i < 6 && distinct6; ++i) for (int j = 0; j < i; ++j) if (l[i / 2][i % 2] == l[j / 2][j % 2]) distinct6 = false;
	if (distinct6) c.cls("six distinct non-zero shear factors");
	if (rich(a) && distinct6 && distinct_mags(p, 3)) c.nontrivial();
	R rp[4], rl[3][4]; lift(p, rp); for (int i = 0; i < 3; ++i) lift(l[i], rl[i]);
	M4 E = shear_doc(rp, rl[0], rl[1], rl[2]), dE = zero4();
	for (int i = 0; i < 3; ++i) dE.m[3][i] = 2 * U<T>() * rabs(E.m[3][i]);
	Prod pr = product<T>(lift16(a), E, dE, 4);
	to16(glm::shear(g4(a), G<T, 3>(p), G<T, 2>(l[0]), G<T, 2>(l[1]), G<T, 2>(l[2])), g);
	cmp(c, "shear err/tol", "shear/mat4/M*documented-matrix", g, pr, 4, "shear(M,p,l_x,l_y,l_z)");
	to16(glm::shear_slow(g4(a), G<T, 3>(p), G<T, 2>(l[0]), G<T, 2>(l[1]), G<T, 2>(l[2])), g);
	cmp(c, "shear_slow err/tol", "shear_slow/mat4/M*documented-matrix", g, pr, 4, "shear_slow(M,p,l_x,l_y,l_z)");
}
REG2(shear_p, "shear", 400000, 20000000,
     "base matrix M (8 classes) x reference point p (origin / general) x six shear ratios (0, small ints, uniform +-3); shear and shear_slow against M*S with S the matrix printed in the doc comment of glm::shear "
     "(rows [1 l_xy l_xz -(l_xy+l_xz)p_x] ...), last column known to 2u, 4-term products; non-trivial = M rich, six pairwise distinct non-zero ratios, p with distinct non-zero components");

// =============================================================================================
// gtx/transform2 and gtx/matrix_transform_2d shears, planar projections; 2D rotation
//   matrix_transform_2d documents the direction: shearX = "horizontal (parallel to the x axis) shear", i.e. x' = x + k y, shearY = "vertical (parallel to the y axis)", y' = y + k x
//   (column vectors, like translate/rotate/scale of the same header). transform2 only says "shearing on X axis": both readings
//   (factor in the row or in the column of that axis) are accepted there and counted.
template <class T> static void shear2_p(pbt::Ctx& c) {
	T a[16], a3[16], g[16];
	int mc = gen_mat<T>(c, a);
	c.cls(MC_NAME[mc]);
	for (int i = 0; i < 16; ++i) a3[i] = (i % 5 == 0) ? T(1) : T(0);
	for (int cc = 0; cc < 3; ++cc) for (int r = 0; r < 3; ++r) a3[4 * cc + r] = a[4 * cc + r];
	T s = c.coin() ? (T)c.range(-4, 4) : (T)c.uniform(-3.0, 3.0), t = c.coin() ? (T)c.range(-4, 4) : (T)c.uniform(-3.0, 3.0);
	if (c.verbose) c.logf("M=%s s=%.17g t=%.17g", mstr(a).c_str(), (double)s, (double)t);
	if (rich(a) && s != 0 && t != 0 && s != t) c.nontrivial();
	const M4 M = lift16(a), M3 = lift16(a3);
	// --- matrix_transform_2d (documented direction)
	for (int w = 0; w < 2; ++w) {
		M4 Ed = ident4(), Et = ident4();
		if (w == 0) { Ed.m[1][0] = (R)s; Et.m[0][1] = (R)s; } else { Ed.m[0][1] = (R)s; Et.m[1][0] = (R)s; }
		Prod pd = product<T>(M3, Ed, zeroM(), 3), pt = product<T>(M3, Et, zeroM(), 3);
		to16(w == 0 ? glm::shearX(g3(a3), s) : glm::shearY(g3(a3), s), g);
		const char* fn = w == 0 ? "shearX" : "shearY";
		int mm = matches2(c, "shearX/shearY(mat3) err/tol", g, pd, pt, 3);
		bool doc = mm & 1, tr = mm & 2;
		if (s != 0) {
			if (!doc && !tr) c.failk(std::string(fn) + "/mat3/not-an-elementary-shear", "%s(M,%.9g)=%s is neither M*[x'=x+k*y] nor M*[y'=y+k*x], M=%s", fn, (double)s, mstr(g, 3).c_str(), mstr(a3, 3).c_str());
			else if (!doc) {  // (the matrices are only printed when the case is being described: this key fires on most cases of the unchanged tree)
				static const char* const KD[] = {"shearX/mat3/documented-direction", "shearY/mat3/documented-direction"};
				if (!c.verbose) c.fail(KD[w], "transposed");
				else c.failk(KD[w], "%s(M,k=%.9g) with M=%s gives %s = M*[%s]: documented as a shear parallel to the %s axis, i.e. M*[%s]", fn, (double)s, mstr(a3, 3).c_str(), mstr(g, 3).c_str(),
				             w == 0 ? "y'=y+k*x" : "x'=x+k*y", w == 0 ? "x" : "y", w == 0 ? "x'=x+k*y" : "y'=y+k*x");
			}
		} else if (!doc) c.failk(std::string(fn) + "/mat3/zero-factor", "%s(M,0) != M", fn);
	}
	// --- transform2 2D
	for (int w = 0; w < 2; ++w) {
		M4 E1 = ident4(), E2 = ident4();
		if (w == 0) { E1.m[1][0] = (R)s; E2.m[0][1] = (R)s; } else { E1.m[0][1] = (R)s; E2.m[1][0] = (R)s; }
		Prod p1 = product<T>(M3, E1, zeroM(), 3), p2 = product<T>(M3, E2, zeroM(), 3);
		to16(w == 0 ? glm::shearX2D(g3(a3), s) : glm::shearY2D(g3(a3), s), g);
		int mm = matches2(c, "shear*2D err/tol", g, p1, p2, 3);
		bool r1 = mm & 1, r2 = mm & 2;
		if (!r1 && !r2) c.failk(w == 0 ? "shearX2D/mat3/not-an-elementary-shear" : "shearY2D/mat3/not-an-elementary-shear", "shear%c2D(M,%.9g)=%s is neither M*[x'=x+k*y] nor M*[y'=y+k*x], M=%s", w == 0 ? 'X' : 'Y', (double)s, mstr(g, 3).c_str(), mstr(a3, 3).c_str());
		else if (s != 0) c.cls(r1 ? "transform2 2D: named axis is displaced (x'=x+k*y for X)" : "transform2 2D: named axis drives (y'=y+k*x for X)");
	}
	// --- transform2 3D: axis A in {X,Y,Z}, the two other axes (i < j) carry s and t
	for (int A = 0; A < 3; ++A) {
		int i = (A + 1) % 3, j = (A + 2) % 3; if (i > j) { int k = i; i = j; j = k; }
		M4 E1 = ident4(), E2 = ident4();
		E1.m[A][i] = (R)s; E1.m[A][j] = (R)t;   // p'_i = p_i + s p_A, p'_j = p_j + t p_A  (axis A drives)
		E2.m[i][A] = (R)s; E2.m[j][A] = (R)t;   // p'_A = p_A + s p_i + t p_j              (axis A is displaced)
		Prod p1 = product<T>(M, E1, zeroM(), 4), p2 = product<T>(M, E2, zeroM(), 4);
		to16(A == 0 ? glm::shearX3D(g4(a), s, t) : A == 1 ? glm::shearY3D(g4(a), s, t) : glm::shearZ3D(g4(a), s, t), g);
		int mm = matches2(c, "shear*3D err/tol", g, p1, p2, 4);
		bool r1 = mm & 1, r2 = mm & 2;
		static const char* const K[] = {"shearX3D/mat4/not-an-elementary-shear", "shearY3D/mat4/not-an-elementary-shear", "shearZ3D/mat4/not-an-elementary-shear"};
		if (!r1 && !r2) c.failk(K[A], "shear%c3D(M,%.9g,%.9g)=%s is M times neither reading of the elementary shear, M=%s", "XYZ"[A], (double)s, (double)t, mstr(g).c_str(), mstr(a).c_str());
		else if (s != 0 || t != 0) c.cls(r1 ? "transform2 3D: named axis drives the other two" : "transform2 3D: named axis is displaced");
	}
	// --- 2D rotation (matrix_transform_2d): columns m0 c + m1 s, -m0 s + m1 c, m2
	T ang; int ac = gen_angle<T>(c, &ang); c.cls(AC_NAME[ac]);
	if (c.verbose) c.logf("angle=%.17g", (double)ang);
	{
		R cs = cosl((R)ang), sn = sinl((R)ang);
		M4 E = ident4(), dE = zero4();
		E.m[0][0] = cs; E.m[0][1] = sn; E.m[1][0] = -sn; E.m[1][1] = cs;
		for (int cc = 0; cc < 2; ++cc) for (int r = 0; r < 2; ++r) dE.m[cc][r] = 2 * U<T>() * rabs(E.m[cc][r]);
		Prod p = product<T>(M3, E, dE, 3);
		to16(glm::rotate(g3(a3), ang), g);
		cmp(c, "rotate(mat3) err/tol", "rotate/mat3/M*R(angle)", g, p, 3, "rotate(mat3 M, angle)");
		for (int r = 0; r < 3; ++r) if (!fp::same_bits(g[8 + r], a3[8 + r])) { c.failk("rotate/mat3/column2-copied", "rotate(mat3,angle)[2][%d]=%.17g but M has %.17g", r, (double)g[8 + r], (double)a3[8 + r]); break; }
		// rotate_vector: vec2 and the coordinate-axis rotations use the same 2x2 block
		T v[4]; gen_vec<T>(c, 4, v, 6);
		if (c.verbose) c.logf("v=%s", vstr(v, 4).c_str());
		R rv[4]; lift(v, rv);
		auto chk = [&](const char* key, const char* metric, T got, R want, R scale, const char* what) {
			if (!within(c, metric, rabs((R)got - want), 8 * 4 * U<T>() * scale + TINY<T>())) c.failk(key, "%s with v=%s angle=%.9g: got %.17g, expected %.17Lg", what, vstr(v, 4).c_str(), (double)ang, (double)got, want);
		};
		T r2[4]; X<T, 2>(glm::rotate(G<T, 2>(v), ang), r2);
		chk("rotate/vec2(v,angle)/x", "rotate(vec2) err/tol", r2[0], rv[0] * cs - rv[1] * sn, rabs(rv[0] * cs) + rabs(rv[1] * sn), "rotate(vec2,angle).x");
		chk("rotate/vec2(v,angle)/y", "rotate(vec2) err/tol", r2[1], rv[0] * sn + rv[1] * cs, rabs(rv[0] * sn) + rabs(rv[1] * cs), "rotate(vec2,angle).y");
		for (int A = 0; A < 3; ++A) {
			R n[4] = {0, 0, 0, 0}, want[4]; n[A] = 1;
			R rv3[4] = {rv[0], rv[1], rv[2], 0};
			rotate_vec((R)ang, n, rv3, want);
			int i = (A + 1) % 3, j = (A + 2) % 3;
			T o3[4], o4[4];
			if (A == 0) { X<T, 3>(glm::rotateX(G<T, 3>(v), ang), o3); X<T, 4>(glm::rotateX(G<T, 4>(v), ang), o4); }
			else if (A == 1) { X<T, 3>(glm::rotateY(G<T, 3>(v), ang), o3); X<T, 4>(glm::rotateY(G<T, 4>(v), ang), o4); }
			else { X<T, 3>(glm::rotateZ(G<T, 3>(v), ang), o3); X<T, 4>(glm::rotateZ(G<T, 4>(v), ang), o4); }
			static const char* const K3[] = {"rotateX/vec3/rotation-about-x", "rotateY/vec3/rotation-about-y", "rotateZ/vec3/rotation-about-z"};
			static const char* const K4[] = {"rotateX/vec4/rotation-about-x", "rotateY/vec4/rotation-about-y", "rotateZ/vec4/rotation-about-z"};
			R sc = rabs(rv[i]) + rabs(rv[j]);
			chk(K3[A], "rotateXYZ err/tol", o3[i], want[i], sc, "rotateX/Y/Z(vec3)"); chk(K3[A], "rotateXYZ err/tol", o3[j], want[j], sc, "rotateX/Y/Z(vec3)");
			chk(K4[A], "rotateXYZ err/tol", o4[i], want[i], sc, "rotateX/Y/Z(vec4)"); chk(K4[A], "rotateXYZ err/tol", o4[j], want[j], sc, "rotateX/Y/Z(vec4)");
			if (!fp::same_bits(o3[A], v[A]) || !fp::same_bits(o4[A], v[A]) || !fp::same_bits(o4[3], v[3])) c.failk(std::string(K4[A]) + "/fixed-components", "rotate%c: the axis component / w changed: v=%s -> %s / %s", "XYZ"[A], vstr(v, 4).c_str(), vstr(o3, 3).c_str(), vstr(o4, 4).c_str());
		}
	}
	// --- planar projection along a unit normal: E = I - n n^T (entries known to 2u)
	{
		T n[4]; gen_unit<T>(c, 3, n);
		R rn[4]; lift(n, rn);
		M4 E = ident4(), dE = zero4();
		for (int cc = 0; cc < 3; ++cc) for (int r = 0; r < 3; ++r) { E.m[cc][r] = (cc == r ? 1 : 0) - rn[cc] * rn[r]; dE.m[cc][r] = U<T>() * (rabs(rn[cc] * rn[r]) + rabs(E.m[cc][r])); }
		Prod p = product<T>(M, E, dE, 4);
		to16(glm::proj3D(g4(a), G<T, 3>(n)), g);
		if (c.verbose) c.logf("normal=%s", vstr(n, 3).c_str());
		cmp(c, "proj3D err/tol", "proj3D/mat4/M*(I-nn^T)", g, p, 4, "proj3D(M,normal)");
		T n2[4] = {n[0], n[1], 0, 0};
		if (is_zero(n2, 2)) n2[0] = 1;
		make_unit(n2, 2);
		R rn2[4]; lift(n2, rn2);
		M4 E2 = ident4(), dE2 = zero4();
		for (int cc = 0; cc < 2; ++cc) for (int r = 0; r < 2; ++r) { E2.m[cc][r] = (cc == r ? 1 : 0) - rn2[cc] * rn2[r]; dE2.m[cc][r] = U<T>() * (rabs(rn2[cc] * rn2[r]) + rabs(E2.m[cc][r])); }
		Prod q = product<T>(M3, E2, dE2, 3);
		to16(glm::proj2D(g3(a3), G<T, 3>(n2)), g);
		cmp(c, "proj2D err/tol", "proj2D/mat3/M*(I-nn^T)", g, q, 3, "proj2D(M,normal)");
	}
}
REG2(shear2_p, "shear2d_proj_rotate2d_rotateXYZ", 200000, 4000000,
     "base matrix M (8 classes; its upper-left 3x3 for the 2D functions) x factors s,t (small ints / uniform +-3) x angle (6 classes) x vector x unit normal: matrix_transform_2d shearX/shearY against the documented direction "
     "(parallel to the x / y axis, column vectors) and against either direction, transform2 shearX2D..shearZ3D against either reading of the elementary shear (counted), 3x3 rotate(M,angle) against M*R2(angle), rotate(vec2), "
     "rotateX/Y/Z(vec3/vec4) against Rodrigues about the coordinate axis, proj2D/proj3D against M*(I-nn^T); non-trivial = M rich, s and t non-zero and different");

// =============================================================================================
// rotateNormalizedAxis(quat, angle, unit axis) = q * (cos(a/2), n sin(a/2)); orientation(Normal, Up): the rotation taking Up to Normal
template <class T> static void quat_orient_p(pbt::Ctx& c) {
	const R u = U<T>();
	{
		T q[4], n[4], ang;
		bool unitq = c.coin();
		for (int i = 0; i < 4; ++i) q[i] = unitq ? (T)c.uniform(-1.0, 1.0) : fp::gen_moderate<T>(c, 4, 4);
		if (is_zero(q, 4)) q[0] = 1;
		if (unitq) make_unit(q, 4);
		gen_unit<T>(c, 3, n);
		int ac = gen_angle<T>(c, &ang); c.cls(AC_NAME[ac]);
		c.cls(unitq ? "q:unit" : "q:any");
		if (c.verbose) c.logf("q(wxyz)=%s angle=%.17g axis=%s", vstr(q, 4).c_str(), (double)ang, vstr(n, 3).c_str());
		if (distinct_mags(q, 4) && nonzeros(n, 3) >= 2 && ang != 0) c.nontrivial();
		R rq[4], rn[4], b[4], want[4]; lift(q, rq); lift(n, rn);
		R h = (R)ang / 2;
		b[0] = cosl(h); for (int i = 0; i < 3; ++i) b[1 + i] = rn[i] * sinl(h);
		quat_mul(rq, b, want);
		R scale = 0; for (int i = 0; i < 4; ++i) scale += rabs(rq[i]);  // every component of the product: sum of 4 terms |q_i b_j| <= |q_i|
		glm::qua<T> g = glm::rotateNormalizedAxis(glm::qua<T>::wxyz(q[0], q[1], q[2], q[3]), ang, G<T, 3>(n));
		T gv[4] = {g.w, g.x, g.y, g.z};
		for (int i = 0; i < 4; ++i)
			if (!within(c, "rotateNormalizedAxis(quat) err/tol", rabs((R)gv[i] - want[i]), 8 * 7 * u * scale + TINY<T>())) {
				c.failk("rotateNormalizedAxis/quat/q*axisangle", "rotateNormalizedAxis(q(wxyz)=%s,%.9g,%s) component %d (wxyz order) = %.17g, expected %.17Lg", vstr(q, 4).c_str(), (double)ang, vstr(n, 3).c_str(), i, (double)gv[i], want[i]);
				break;
			}
	}
	{
		T up[4], nm[4];
		int rel = gen_unit_pair<T>(c, 3, up, nm);
		c.cls(REL_NAME[rel]);
		R ru[4], rn[4], ax[4]; lift(up, ru); lift(nm, rn); cross3(ru, rn, ax);
		R sn = norm(ax, 3), cs = dot(ru, rn, 3);
		if (c.verbose) c.logf("orientation: Normal=%s Up=%s", vstr(nm, 3).c_str(), vstr(up, 3).c_str());
		if (cs < 0 && sn < 1e-3L) { c.cls("orientation: antiparallel (rotation not unique, not called)"); return; }
		T g[16]; to16(glm::orientation(G<T, 3>(nm), G<T, 3>(up)), g);
		M4 Rg = lift16(g);
		{ bool nan = false; for (int i = 0; i < 16; ++i) nan = nan || !fp::is_finite(g[i]);
		  if (nan) { c.failk(std::string("orientation/not-finite/") + (rel == REL_EQUAL ? "equal-vectors" : sn < 1e-3L ? "nearly-equal-unit-vectors" : "general"), "orientation(Normal=%s,Up=%s) has non-finite entries (first column %.9g,%.9g,%.9g); dot(Normal,Up)=%.17Lg, |Normal x Up|=%.3Lg", vstr(nm, 3).c_str(), vstr(up, 3).c_str(), (double)g[0], (double)g[1], (double)g[2], cs, sn); return; } }
		// conditioning: angle = acos(dot) has error <= min(4u/sin, sqrt(8u)); axis = normalize(cross) has relative error <= 4u/sin;
		// below the epsilon test (all components within eps) GLM returns the identity: error <= |Normal - Up| <= 2 sqrt(3) u * 2
		R se = rmax(sn, sqrtl(u));
		R bound = 8 * (16 * u + 4 * u / se + (sn < 8 * u ? 8 * u : 4 * u / se));
		if (bound > 1e-2L) { c.cls("orientation: ill-conditioned (bound > 1e-2)"); return; }
		R img[4], axi[4];
		apply(Rg, ru, img);
		R worst = 0; for (int i = 0; i < 3; ++i) worst = rmax(worst, rabs(img[i] - rn[i]));
		if (rel != REL_EQUAL && rel != REL_PARALLEL) c.nontrivial();
		if (!within(c, "orientation R*Up-Normal err/tol", worst, bound)) c.failk("orientation/R*Up=Normal", "orientation(Normal=%s,Up=%s)*Up=(%.9Lg,%.9Lg,%.9Lg), off by %.3Lg (bound %.3Lg)", vstr(nm, 3).c_str(), vstr(up, 3).c_str(), img[0], img[1], img[2], worst, bound);
		M4 RtR = mul(transpose(Rg), Rg);
		worst = 0; for (int j = 0; j < 4; ++j) for (int i = 0; i < 4; ++i) worst = rmax(worst, rabs(RtR.m[j][i] - (i == j ? 1 : 0)));
		if (!within(c, "orientation orthonormality err/tol", worst, 8 * 64 * u)) c.failk("orientation/orthonormal", "orientation(Normal=%s,Up=%s): |R^T R - I| = %.3Lg", vstr(nm, 3).c_str(), vstr(up, 3).c_str(), worst);
		if (!(det3(Rg) > 0)) c.failk("orientation/det+1", "orientation(Normal=%s,Up=%s): determinant %.6Lg", vstr(nm, 3).c_str(), vstr(up, 3).c_str(), det3(Rg));
		if (sn > 1e-3L) {  // the rotation axis Up x Normal is fixed
			apply(Rg, ax, axi);
			worst = 0; for (int i = 0; i < 3; ++i) worst = rmax(worst, rabs(axi[i] - ax[i]));
			if (!within(c, "orientation axis-fixed err/tol", worst, bound * sn)) c.failk("orientation/axis-fixed", "orientation(Normal=%s,Up=%s) moves Up x Normal by %.3Lg (bound %.3Lg)", vstr(nm, 3).c_str(), vstr(up, 3).c_str(), worst, bound * sn);
		}
	}
}
REG2(quat_orient_p, "rotateNormalizedAxis_quat_orientation", 300000, 10000000,
     "quaternion q (unit / any, 2^-4..2^4) x angle (6 classes) x unit axis: rotateNormalizedAxis(q,angle,axis) against the Hamilton product q*(cos a/2, n sin a/2) in long double; unit pairs (Normal,Up) in every pair relation "
     "except antiparallel: orientation(Normal,Up) maps Up to Normal, is orthonormal with det>0 and fixes Up x Normal (bound ~ u/sin of the angle between them); non-trivial = q with distinct non-zero components, "
     "axis with two non-zero components, angle != 0 / Normal not parallel to Up");
