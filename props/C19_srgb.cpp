// C19 (part 1, holds main) — gtc/color_space: convertLinearToSRGB / convertSRGBToLinear, default and custom gamma.
// Oracle: the IEC 61966-2-1 piecewise transfer functions (the specification the doc comments cite) in long double
// (engine/ref/refcolor.hpp, powl — not the float/double pow GLM forwards to). Clauses of the property checked per case:
//   value     |glm - IEC| <= rounding bound of the documented formula (+ the bound implied by GLM's exponent constant
//             0.41666 vs 1/2.4 for the default overload), x8 margin
//   fix       f(0) == 0 exactly, f(1) == 1 within the rounding bound
//   range     f([0,1]) inside [0, 1 + rounding]
//   monotone  x1 < x2  =>  f(x1) <= f(x2) (adjacent values and free pairs); pairs that straddle the segment threshold
//             are allowed the 2.86e-8 drop that the IEC constants themselves have (x8)
//   inverse   SRGBToLinear(LinearToSRGB(x)) ~ x and back, conditioning-aware; cases whose intermediate value lands on the
//             other side of the return threshold form their own class (segment-mismatch)
//   alpha     vec4 .w bit-identical; vec1/vec2/vec4 lanes bit-identical to the vec3 lanes
#include "fp.hpp"
#include "ref/refcolor.hpp"
#ifndef GLM_ENABLE_EXPERIMENTAL
#define GLM_ENABLE_EXPERIMENTAL
#endif
#include <glm/glm.hpp>
#include <glm/gtc/color_space.hpp>

using namespace fp;
typedef long double LD;
namespace rc = refcolor;

template <class T> struct TN;
template <> struct TN<float> { static const char* name() { return "float"; } };
template <> struct TN<double> { static const char* name() { return "double"; } };

template <class T> static T next_up(T x) { return from_ordered<T>(ordered(x) + 1); }
template <class T> static T next_dn(T x) { return from_ordered<T>(ordered(x) - 1); }
template <class T> static LD dmin() { return (LD)std::numeric_limits<T>::denorm_min(); }

// ---- generators -------------------------------------------------------------------------------------------------
template <class T> static T gen_unit(pbt::Ctx& c) {
	switch (c.draw(8)) {
	case 0: {
		static const double S[] = {0.0, 1.0, 0.5, 0.0031308, 0.04045, 0.25, 0.75, 0.2, 0.003, 0.0032, 0.04, 0.041, 1e-3, 1e-5};
		uint64_t k = c.draw(18);
		if (k < 14) return (T)S[k];
		if (k == 14) return std::numeric_limits<T>::denorm_min();
		if (k == 15) return std::numeric_limits<T>::min();
		if (k == 16) return next_dn<T>(T(1));
		return next_up<T>(T(0.5));
	}
	case 1: {  // within 4 ulp of either threshold
		T t = c.coin() ? (T)0.04045 : (T)0.0031308;
		return from_ordered<T>(ordered(t) + (typename bits_of<T>::S)c.range(-4, 4));
	}
	case 2: return (T)((double)c.draw(256) / 255.0);  // 8-bit colour grid
	case 3: return (T)c.loguniform(1e-9, 1.0);
	case 4: { double t = c.coin() ? 0.04045 : 0.0031308; double v = t * c.loguniform(0.5, 4.0); return (T)v; }  // band around a threshold
	default: return (T)c.unit();
	}
}
template <class T> static T gen_gamma(pbt::Ctx& c) {
	if (c.draw(3) == 0) { static const double G[] = {2.4, 1.0, 2.0, 2.2, 1.8, 2.6, 2.8, 3.0}; return (T)G[c.draw(8)]; }
	return (T)c.uniform(1.0, 3.0);
}

// ---- per-function reference with tolerance -------------------------------------------------------------------------
struct Mode {
	bool gamma;    // custom-gamma overloads
	LD e_fwd;      // exponent of the reference for Linear->sRGB
	LD de_fwd;     // |documented exponent - exponent GLM is known to use| (default overload only): widens the tolerance
	LD g_inv;      // exponent of the reference for sRGB->Linear
	const char* gcls;  // gamma class used in failure keys
};
template <class T> static Mode make_mode(bool useg, T g) {
	Mode m; m.gamma = useg;
	if (!useg) { m.e_fwd = 1.0L / 2.4L; m.de_fwd = 1.0L / 2.4L - 0.41666L; m.g_inv = 2.4L; m.gcls = "default"; }
	else { m.e_fwd = 1.0L / (LD)g; m.de_fwd = 0; m.g_inv = (LD)g; m.gcls = g < (T)2.4 ? "gamma<2.4" : (g == (T)2.4 ? "gamma=2.4" : "gamma>2.4"); }
	return m;
}
struct Ref { LD val, tol, deriv; int seg; bool amb; LD alt, alt_tol; };  // seg 0 linear, 1 curve; amb: x is the rounded threshold itself

template <class T> static Ref ref_l2s(T x, const Mode& m) {
	const LD e = eps<T>(), X = x;
	Ref r; r.amb = (x == (T)0.0031308); r.seg = (x < (T)0.0031308) ? 0 : 1;
	LD lin = rc::l2s_lin(X), tl = 8 * (e * lin + dmin<T>());
	if (r.seg == 0 && !r.amb) { r.val = lin; r.tol = tl; r.alt = lin; r.alt_tol = tl; r.deriv = rc::SLOPE; return r; }
	LD p = X > 0 ? powl(X, m.e_fwd) : 0, ln = X > 0 ? fabsl(logl(X)) : 0;
	LD cur = (1 + rc::OFF) * p - rc::OFF;
	// rounding of: exponent (rel e -> p*e_fwd*ln*e), pow (1 ulp), constants 1.055 / 0.055 (half ulp each), product, difference;
	// plus the distance between the documented exponent and the constant GLM uses (default overload only)
	LD tc = 8 * (e * (p * (m.e_fwd * ln + 2.5L) + 0.03L + 0.5L * fabsl(cur)) + (1 + rc::OFF) * p * ln * m.de_fwd);
	r.val = cur; r.tol = tc; r.alt = lin; r.alt_tol = tl; r.deriv = X > 0 ? (1 + rc::OFF) * m.e_fwd * p / X : 0;
	return r;
}
template <class T> static Ref ref_s2l(T s, const Mode& m) {
	const LD e = eps<T>(), S = s;
	Ref r; r.amb = (s == (T)0.04045); r.seg = (s <= (T)0.04045) ? 0 : 1;
	LD lin = rc::s2l_lin(S), tl = 8 * (e * lin + dmin<T>());
	if (r.seg == 0 && !r.amb) { r.val = lin; r.tol = tl; r.alt = lin; r.alt_tol = tl; r.deriv = 1 / rc::SLOPE; return r; }
	LD a = (S + rc::OFF) / (1 + rc::OFF), la = fabsl(logl(a)), cur = powl(a, m.g_inv);
	// a carries ~2 ulp (sum, two constants, product) -> 2 g e; exponent rounding g*|ln a|*e/2; pow 1 ulp
	LD tc = 8 * e * cur * (2 * m.g_inv + m.g_inv * la + 1);
	if (r.seg == 0) { r.val = lin; r.tol = tl; r.alt = cur; r.alt_tol = tc; r.deriv = 1 / rc::SLOPE; }
	else { r.val = cur; r.tol = tc; r.alt = lin; r.alt_tol = tl; r.deriv = m.g_inv * cur / a / (1 + rc::OFF); }
	return r;
}
static const char* segname(const Ref& r) { return r.amb ? "at-threshold" : (r.seg ? "curve" : "linear"); }

// value + range check of one lane; returns err/tol
template <class T> static void check_value(pbt::Ctx& c, const char* fn, const Mode& m, T x, T got, const Ref& r, const char* metric) {
	LD err = fabsl((LD)got - r.val), q = err / r.tol;
	if (r.amb) { LD q2 = fabsl((LD)got - r.alt) / r.alt_tol; if (q2 < q) q = q2; }
	if (!(q == q)) q = INFINITY;
	c.metric(metric, (double)q);
	std::string base = std::string(fn) + (m.gamma ? "(gamma)/" : "/") + TN<T>::name();
	if (q > 1) c.failk(base + "/value/" + segname(r) + "/" + m.gcls, "%s(%a) = %a, IEC value %La, err %Lg > tol %Lg", fn, (double)x, (double)got, r.val, err, r.tol);
	if (is_nan(got) || got < 0) c.failk(base + "/range/negative/" + (r.seg ? "curve" : "linear") + "/" + m.gcls, "%s(%.9g) = %.9g < 0 for an input inside [0,1]", fn, (double)x, (double)got);
	else if ((LD)got > 1 + 4 * eps<T>()) c.failk(base + "/range/above1/" + (r.seg ? "curve" : "linear") + "/" + m.gcls, "%s(%.9g) = %.17g > 1", fn, (double)x, (double)got);
}
// monotone: xa < xb must give ya <= yb (+ the IEC discontinuity when the pair straddles the threshold of a Linear->sRGB curve)
template <class T> static void check_mono(pbt::Ctx& c, const char* fn, const Mode& m, bool fwd, T xa, T ya, T xb, T yb) {
	if (!(xa < xb)) { if (xa == xb) return; std::swap(xa, xb); std::swap(ya, yb); }
	T thr = fwd ? (T)0.0031308 : (T)0.04045;
	// the rounded threshold itself may belong to either segment (x == T(thr) is within rounding of the real threshold)
	bool across = xa <= thr && xb >= thr;
	const char* cls = across ? "across-threshold" : (xb < thr ? "linear" : "curve");
	LD allow = 0;
	if (across) { allow = fwd ? 8 * rc::IEC_JUMP : 0; allow += 8 * eps<T>() * (LD)(ya < 0 ? -ya : ya); c.cls("mono-pair-across-threshold"); }
	if ((LD)yb < (LD)ya - allow || is_nan(ya) || is_nan(yb))
		c.failk(std::string(fn) + (m.gamma ? "(gamma)/" : "/") + TN<T>::name() + "/monotone/" + cls + "/" + m.gcls,
		        "%s is not monotone: f(%.9g) = %.9g > f(%.9g) = %.9g", fn, (double)xa, (double)ya, (double)xb, (double)yb);
}

template <class T, int L> static glm::vec<L, T> L2S(const glm::vec<L, T>& v, bool useg, T g) { return useg ? glm::convertLinearToSRGB(v, g) : glm::convertLinearToSRGB(v); }
template <class T, int L> static glm::vec<L, T> S2L(const glm::vec<L, T>& v, bool useg, T g) { return useg ? glm::convertSRGBToLinear(v, g) : glm::convertSRGBToLinear(v); }

// everything that is checked on a triple of inputs in [0,1]
template <class T> static void check_triple(pbt::Ctx& c, const T x[3], bool useg, T g, T alpha, bool overloads) {
	typedef glm::vec<3, T> V3;
	const Mode m = make_mode<T>(useg, g);
	const LD e = eps<T>();
	V3 in(x[0], x[1], x[2]);
	V3 y = L2S<T, 3>(in, useg, g), z = S2L<T, 3>(in, useg, g);
	V3 yz = S2L<T, 3>(y, useg, g), zy = L2S<T, 3>(z, useg, g);
	c.cls(m.gcls);
	bool inner = false;
	for (int i = 0; i < 3; ++i) {
		Ref rf = ref_l2s<T>(x[i], m), ri = ref_s2l<T>(x[i], m);
		if (x[i] > 0 && x[i] < 1) inner = true;
		if (x[i] == 0) c.cls("x==0"); else if (x[i] == 1) c.cls("x==1");
		if (rf.amb) c.cls("L2S-at-threshold"); else c.cls(rf.seg ? "L2S-curve" : "L2S-linear");
		if (ri.amb) c.cls("S2L-at-threshold"); else c.cls(ri.seg ? "S2L-curve" : "S2L-linear");
		check_value<T>(c, "LinearToSRGB", m, x[i], y[i], rf, useg ? "LinearToSRGB(gamma) value err/tol" : "LinearToSRGB value err/tol");
		check_value<T>(c, "SRGBToLinear", m, x[i], z[i], ri, useg ? "SRGBToLinear(gamma) value err/tol" : "SRGBToLinear value err/tol");
		// ---- inverse, linear -> sRGB -> linear
		{
			Ref rb = ref_s2l<T>(y[i], m);  // conditioning of the way back at the value GLM produced
			LD sref = rf.val;
			bool mism = (rf.seg == 1 && sref <= rc::S_THR + 2 * rf.tol) || (rf.seg == 0 && sref > rc::S_THR - 2 * rf.tol);
			LD dback = rb.deriv; if (mism) { LD d2 = ref_s2l<T>(next_up<T>((T)0.04045), m).deriv; if (d2 > dback) dback = d2; if (1 / rc::SLOPE > dback) dback = 1 / rc::SLOPE; }
			LD tol = dback * rf.tol + rb.tol + 8 * e * (LD)x[i];
			if (!useg && x[i] > 0) tol += 8 * (LD)x[i] * fabsl(logl((LD)x[i])) * (2.4L * m.de_fwd);  // x^(0.41666*2.4) vs x
			if (mism) { tol += 8 * rc::IEC_JUMP / rc::SLOPE; c.cls("LSL-segment-mismatch"); }
			LD err = fabsl((LD)yz[i] - (LD)x[i]), q = err / tol;
			if (!(q == q)) q = INFINITY;
			if (!mism || !useg) c.metric(useg ? "S2L(L2S(x)) (gamma) err/tol" : "S2L(L2S(x)) err/tol", (double)q);
			if (q > 1) c.failk(std::string("roundtrip_LSL") + (useg ? "(gamma)/" : "/") + TN<T>::name() + (mism ? "/segment-mismatch/" : (rf.seg ? "/curve/" : "/linear/")) + m.gcls,
			                   "x=%.17g -> sRGB %.17g -> linear %.17g, err %Lg > tol %Lg", (double)x[i], (double)y[i], (double)yz[i], err, tol);
		}
		// ---- inverse, sRGB -> linear -> sRGB
		{
			Ref rb = ref_l2s<T>(z[i], m);
			LD lref = ri.val;
			bool mism = (ri.seg == 1 && lref < rc::L_THR + 2 * ri.tol) || (ri.seg == 0 && lref >= rc::L_THR - 2 * ri.tol);
			LD dback = rb.deriv; if (mism && rc::SLOPE > dback) dback = rc::SLOPE;
			LD tol = dback * ri.tol + rb.tol + 8 * e * (LD)x[i];
			if (!useg && z[i] > 0 && (rb.seg == 1 || mism)) { LD l = (LD)z[i]; tol += 8 * (1 + rc::OFF) * powl(l, m.e_fwd) * fabsl(logl(l)) * m.de_fwd; }
			if (mism) { tol += 8 * rc::IEC_JUMP; c.cls("SLS-segment-mismatch"); }
			LD err = fabsl((LD)zy[i] - (LD)x[i]), q = err / tol;
			if (!(q == q)) q = INFINITY;
			if (!mism || !useg) c.metric(useg ? "L2S(S2L(s)) (gamma) err/tol" : "L2S(S2L(s)) err/tol", (double)q);
			if (q > 1) c.failk(std::string("roundtrip_SLS") + (useg ? "(gamma)/" : "/") + TN<T>::name() + (mism ? "/segment-mismatch/" : (ri.seg ? "/curve/" : "/linear/")) + m.gcls,
			                   "s=%.17g -> linear %.17g -> sRGB %.17g, err %Lg > tol %Lg", (double)x[i], (double)z[i], (double)zy[i], err, tol);
		}
	}
	for (int i = 0; i < 3; ++i) for (int j = i + 1; j < 3; ++j) {
		check_mono<T>(c, "LinearToSRGB", m, true, x[i], y[i], x[j], y[j]);
		check_mono<T>(c, "SRGBToLinear", m, false, x[i], z[i], x[j], z[j]);
	}
	// fixed points, evaluated with this case's gamma
	{
		glm::vec<2, T> ends(T(0), T(1));
		glm::vec<2, T> a = L2S<T, 2>(ends, useg, g), b = S2L<T, 2>(ends, useg, g);
		std::string base = std::string(useg ? "(gamma)/" : "/") + TN<T>::name();
		if (!(a.x == 0)) c.failk("LinearToSRGB" + base + "/fix0", "LinearToSRGB(0) = %a", (double)a.x);
		if (!(b.x == 0)) c.failk("SRGBToLinear" + base + "/fix0", "SRGBToLinear(0) = %a", (double)b.x);
		Ref r1 = ref_l2s<T>(T(1), m), r2 = ref_s2l<T>(T(1), m);
		LD q1 = fabsl((LD)a.y - 1) / r1.tol, q2 = fabsl((LD)b.y - 1) / r2.tol;
		c.metric("f(1)-1 err/tol", (double)(q1 > q2 ? q1 : q2));
		if (!(q1 <= 1)) c.failk("LinearToSRGB" + base + "/fix1", "LinearToSRGB(1) = %.17g (gamma %.9g)", (double)a.y, (double)g);
		if (!(q2 <= 1)) c.failk("SRGBToLinear" + base + "/fix1", "SRGBToLinear(1) = %.17g (gamma %.9g)", (double)b.y, (double)g);
	}
	if (overloads) {
		// vec4: rgb lanes identical to the vec3 result, alpha bit-identical; vec1 / vec2: lane-wise identical
		glm::vec<4, T> in4(x[0], x[1], x[2], alpha);
		glm::vec<4, T> y4 = L2S<T, 4>(in4, useg, g), z4 = S2L<T, 4>(in4, useg, g);
		std::string sfx = std::string(useg ? "(gamma)/" : "/") + TN<T>::name();
		if (!same_bits(y4.w, alpha)) c.failk("LinearToSRGB" + sfx + "/vec4/alpha", "alpha bits changed: %a -> %a", (double)alpha, (double)y4.w);
		if (!same_bits(z4.w, alpha)) c.failk("SRGBToLinear" + sfx + "/vec4/alpha", "alpha bits changed: %a -> %a", (double)alpha, (double)z4.w);
		for (int i = 0; i < 3; ++i) {
			if (!same_bits(y4[i], y[i])) c.failk("LinearToSRGB" + sfx + "/vec4/lane", "lane %d: vec4 %a, vec3 %a (x=%a)", i, (double)y4[i], (double)y[i], (double)x[i]);
			if (!same_bits(z4[i], z[i])) c.failk("SRGBToLinear" + sfx + "/vec4/lane", "lane %d: vec4 %a, vec3 %a (x=%a)", i, (double)z4[i], (double)z[i], (double)x[i]);
		}
		glm::vec<2, T> in2(x[2], x[0]);
		glm::vec<2, T> y2 = L2S<T, 2>(in2, useg, g), z2 = S2L<T, 2>(in2, useg, g);
		glm::vec<1, T> in1(x[1]);
		glm::vec<1, T> y1 = L2S<T, 1>(in1, useg, g), z1 = S2L<T, 1>(in1, useg, g);
		if (!same_bits(y2.x, y[2]) || !same_bits(y2.y, y[0])) c.failk("LinearToSRGB" + sfx + "/vec2/lane", "vec2(%a,%a) -> (%a,%a), vec3 lanes (%a,%a)", (double)x[2], (double)x[0], (double)y2.x, (double)y2.y, (double)y[2], (double)y[0]);
		if (!same_bits(z2.x, z[2]) || !same_bits(z2.y, z[0])) c.failk("SRGBToLinear" + sfx + "/vec2/lane", "vec2(%a,%a) -> (%a,%a), vec3 lanes (%a,%a)", (double)x[2], (double)x[0], (double)z2.x, (double)z2.y, (double)z[2], (double)z[0]);
		if (!same_bits(y1.x, y[1])) c.failk("LinearToSRGB" + sfx + "/vec1/lane", "vec1(%a) -> %a, vec3 lane %a", (double)x[1], (double)y1.x, (double)y[1]);
		if (!same_bits(z1.x, z[1])) c.failk("SRGBToLinear" + sfx + "/vec1/lane", "vec1(%a) -> %a, vec3 lane %a", (double)x[1], (double)z1.x, (double)z[1]);
	}
	if (inner && x[0] != x[1] && x[0] != x[2] && x[1] != x[2]) c.nontrivial();
}

// ---- random / structured target ---------------------------------------------------------------------------------
template <class T> static void prop_srgb(pbt::Ctx& c) {
	bool useg = c.draw(3) != 0;
	T g = useg ? gen_gamma<T>(c) : T(2.4);
	T x[3];
	x[0] = gen_unit<T>(c);
	x[1] = x[0] < T(1) ? next_up<T>(x[0]) : next_dn<T>(x[0]);  // adjacent value: monotonicity at the finest scale
	x[2] = gen_unit<T>(c);
	T alpha = gen_float<T>(c, FD_ANY);
	c.logf("%s %s gamma=%.17g rgb=(%.17g, %.17g, %.17g) alpha=%a", TN<T>::name(), useg ? "custom-gamma overloads" : "default overloads", (double)g, (double)x[0], (double)x[1], (double)x[2], (double)alpha);
	check_triple<T>(c, x, useg, g, alpha, true);
}
static void srgb_f(pbt::Ctx& c) { prop_srgb<float>(c); }
static void srgb_d(pbt::Ctx& c) { prop_srgb<double>(c); }
#define SRGB_RULE "x in [0,1]: 0, 1, both thresholds +-4 ulp, bands 0.5x..4x around the thresholds, k/255, log-uniform down to 1e-9, denormals, uniform; lanes (x, adjacent value, independent x); default overloads 1/3, gamma from {2.4,1,2,2.2,1.8,2.6,2.8,3} or uniform [1,3]; alpha any bit pattern; non-trivial = three pairwise distinct lanes with one strictly inside (0,1)"
PBT_RANDOM("srgb/float", srgb_f, 1500000, 30000000, SRGB_RULE);
PBT_RANDOM("srgb/double", srgb_d, 1000000, 20000000, SRGB_RULE);

// ---- dense sweeps of the default overloads ---------------------------------------------------------------------------
static void srgb_sweep_f(pbt::Ctx& c) {
	uint32_t u = (uint32_t)c.draw(0x3f800001ULL);
	float x[3];
	x[0] = u2f(u);
	x[1] = u < 0x3f800000u ? u2f(u + 1) : u2f(u - 1);
	x[2] = u2f((uint32_t)c.draw(0x3f800001ULL));
	c.logf("float bits 0x%08x: rgb=(%.9g, %.9g, %.9g), default overloads", u, (double)x[0], (double)x[1], (double)x[2]);
	check_triple<float>(c, x, false, 2.4f, 0.5f, false);
}
PBT_SWEEP("srgb_sweep/float", srgb_sweep_f, 0x3f800001ULL, 128, 1, "every float in [0,1] by bit pattern (quick: one per block of 128) with its successor and one random float of [0,1]; default overloads; non-trivial = distinct lanes inside (0,1)");
static void srgb_sweep_d(pbt::Ctx& c) {
	const uint64_t N = 1ULL << 28;
	uint64_t i = c.draw(N + 1);
	double x[3];
	x[0] = (double)i / (double)N;
	x[1] = x[0] < 1.0 ? next_up<double>(x[0]) : next_dn<double>(x[0]);
	x[2] = i < N ? ((double)i + c.unit()) / (double)N : 1.0;
	c.logf("double grid %llu/2^28: rgb=(%.17g, %.17g, %.17g), default overloads", (unsigned long long)i, x[0], x[1], x[2]);
	check_triple<double>(c, x, false, 2.4, 0.5, false);
}
PBT_SWEEP("srgb_sweep/double", srgb_sweep_d, (1ULL << 28) + 1, 128, 8, "grid i/2^28 of [0,1] (quick: one per block of 128, thorough: one per block of 8) with the adjacent double and a random point of the same cell; default overloads");

// ---- lowp vec3 specialisation (square-root polynomial approximation) ---------------------------------------------------
// The only stated accuracy for it is the pinned test's 0.1 (test/gtc/gtc_color_space.cpp compares lowp with highp to 0.1);
// rounding noise of the 4-term sum is allowed in the monotone clause (8 eps), so only real decreases count.
static void srgb_lowp(pbt::Ctx& c) {
	typedef glm::vec<3, float, glm::lowp> V;
	uint32_t u = (uint32_t)c.draw(0x3f800001ULL);
	float x0 = u2f(u);
	float x1 = (float)((double)x0 + (1.0 - (double)x0) * c.unit() * (c.coin() ? 1.0 : 1e-3));  // a larger value, sometimes close by
	float x2 = u2f((uint32_t)c.draw(0x3f800001ULL));
	c.logf("lowp vec3 rgb=(%.9g, %.9g, %.9g)", (double)x0, (double)x1, (double)x2);
	V y = glm::convertLinearToSRGB(V(x0, x1, x2));
	V ends = glm::convertLinearToSRGB(V(0.f, 1.f, 0.f));
	if (!(ends.x == 0)) c.fail("LinearToSRGB/lowp_vec3/fix0", "f(0) = %a", (double)ends.x);
	if (!(std::fabs((double)ends.y - 1.0) <= 8 * 1.1920929e-7)) c.fail("LinearToSRGB/lowp_vec3/fix1", "f(1) = %.9g", (double)ends.y);
	float xs[3] = {x0, x1, x2};
	for (int i = 0; i < 3; ++i) {
		bool lin = xs[i] < 0.0031308f;
		c.cls(lin ? "linear-segment" : "curve-segment");
		LD want = rc::l2s((LD)xs[i], 1.0L / 2.4L), err = fabsl((LD)y[i] - want);
		c.metric("lowp |f - IEC| / 0.1", (double)(err / 0.1L));
		if (!(err <= 0.1L)) c.failk(std::string("LinearToSRGB/lowp_vec3/value/") + (lin ? "linear" : "curve"), "f(%.9g) = %.9g, IEC %.9Lg: off by more than 0.1", (double)xs[i], (double)y[i], want);
		// above the toe the polynomial follows the curve to 9.7e-4 (measured over 10^6 points); 4e-3 is a calibrated regression bound, since
		// GLM states no accuracy for lowp beyond the 0.1 of its own test
		if (!lin) { c.metric("lowp curve |f - IEC| / 4e-3", (double)(err / 0.004L)); if (!(err <= 0.004L)) c.fail("LinearToSRGB/lowp_vec3/value/curve-accuracy", "f(%.9g) = %.9g, IEC %.9Lg: off by %.3Lg > 4e-3 on the curve segment", (double)xs[i], (double)y[i], want, err); }
		if (!(y[i] >= 0)) { c.cls("negative-result"); c.failk(std::string("LinearToSRGB/lowp_vec3/range/negative/") + (lin ? "linear" : "curve"), "f(%.9g) = %.9g < 0", (double)xs[i], (double)y[i]); }
		if (!(y[i] <= 1 + 8 * 1.1920929e-7f)) c.failk(std::string("LinearToSRGB/lowp_vec3/range/above1/") + (lin ? "linear" : "curve"), "f(%.9g) = %.9g > 1", (double)xs[i], (double)y[i]);
	}
	for (int i = 0; i < 3; ++i) for (int j = 0; j < 3; ++j) if (xs[i] < xs[j] && (double)y[j] < (double)y[i] - 8 * 1.1920929e-7) {
		const char* cl = xs[j] < 0.0031308f ? "linear" : (xs[i] >= 0.0031308f ? "curve" : "across-threshold");
		c.failk(std::string("LinearToSRGB/lowp_vec3/monotone/") + cl, "f(%.9g) = %.9g > f(%.9g) = %.9g", (double)xs[i], (double)y[i], (double)xs[j], (double)y[j]);
	}
	if (x0 > 0 && x0 < 1 && x0 != x1 && x0 != x2 && x1 != x2) c.nontrivial();
}
PBT_SWEEP("srgb_lowp/vec3", srgb_lowp, 0x3f800001ULL, 512, 32, "every float in [0,1] by bit pattern (quick 1/512, thorough 1/32) with a larger value and a random one through the lowp vec3 specialisation; non-trivial = distinct lanes inside (0,1)");

int main(int argc, char** argv) { return pbt::pbt_main(argc, argv, "C19"); }
