// C14 (part 1) — ULP stepping and ULP distance: nextFloat / prevFloat / floatDistance (ext, scalar and vec1-4)
// and next_float / prev_float / float_distance (gtc).
// Oracle: integer arithmetic on the IEEE order (engine/ref/refulp.hpp): neighbour = order +- 1, n steps = order +- n,
// distance = |order difference|; results compared as VALUES (+0 == -0, a -0 result is counted, not failed).
// Not judged: stepping out of [-max,+max] (whether +-inf is "the next representable value" is not documented) — there
// the result only has to stay on the correct side of x. NaN / inf inputs are outside the statement ("every finite x").
// Failure keys: <function>/<form>/<type>/<input class>/<symptom>; the input classes are cut at +min_normal
// (numeric_limits::min(), the usual confusion with lowest()), the symptom (wrong-direction / stuck / too-few-steps /
// too-many-steps / nan / infinite) separates defects of different nature in the same function and class. Forms: the
// one-argument scalar function (no form), "nstep" (scalar with a count), "vec" (every vector overload).
#include "fp.hpp"
#include "ref/refulp.hpp"
#include <glm/glm.hpp>
#include <glm/ext/scalar_ulp.hpp>
#include <glm/ext/vector_ulp.hpp>
#include <glm/gtc/ulp.hpp>
#include <string>

using namespace fp;
using refulp::tname;

template <class T> static unsigned long long ubits(T x) { return (unsigned long long)tobits<T>(x); }

// ---------------------------------------------------------------------------------------------------------------
// judging one stepping result: got = fn(x, n) with dir = +1 (next) / -1 (prev); n == 1 for the one-argument forms
template <class T>
static bool judge_step(pbt::Ctx& c, const char* fn, const char* form, T x, long long n, int dir, T got) {
	typedef typename refulp::wide<T>::type W;
	const W ox = refulp::ord<T>(x), omin = refulp::ord_min_normal<T>();
	T want = x;
	const bool have = refulp::step<T>(x, dir * n, &want);
	const char* ic;
	if (n == 0) ic = "n==0";
	else if (!have) ic = "leaves-finite-range";
	else if (ox > omin) ic = (dir < 0 && refulp::ord<T>(want) < omin) ? "path-reaches-min_normal" : "x>min_normal";
	else if (ox == omin) ic = "x==min_normal";
	else ic = "x<min_normal";
	// decide first, format only when the failure is going to be recorded
	const char* sy = nullptr;
	if (is_nan(got)) sy = "nan";
	else if (!have) {
		c.cls("edge: leaves [-max,max], only the side is judged");
		bool ok = is_inf(got) ? (sign_bit(got) == (dir < 0)) : (dir > 0 ? refulp::ord<T>(got) >= ox : refulp::ord<T>(got) <= ox);
		if (!ok) sy = "wrong-direction";
	} else if (is_inf(got)) sy = "infinite";
	else {
		W og = refulp::ord<T>(got);
		if (og == refulp::ord<T>(want)) { if (og == 0 && sign_bit(got)) c.cls("result is -0 (value-equal to the expected 0)"); }
		else if (og == ox) sy = "stuck";
		else if ((og > ox) != (dir > 0)) sy = "wrong-direction";
		else if ((og > ox ? og - ox : ox - og) < (W)n) sy = "too-few-steps";
		else sy = "too-many-steps";
	}
	if (!sy) return true;
	if (refulp::repeat_failure(c, refulp::key_hash(fn, form, ic, sy, sizeof(T)))) return false;
	std::string key = std::string(fn) + "/" + refulp::key_form(form) + tname<T>() + "/" + ic + "/" + sy;
	if (!have) c.failk(key, "[%s] %s(%a [0x%llx], n=%lld) = %a [0x%llx] lies on the wrong side of x (or is NaN)", form, fn, (double)x, ubits(x), n, (double)got, ubits(got));
	else c.failk(key, "[%s] %s(%a [0x%llx], n=%lld) = %a [0x%llx], expected %a [0x%llx] (%lld representable value(s) %s x)", form, fn, (double)x, ubits(x), n,
	             (double)got, ubits(got), (double)want, ubits(want), n, dir > 0 ? "above" : "below");
	return false;
}

template <class T> static const char* sign_pair_class(T x, T y) {
	if (sign_bit(x) == sign_bit(y)) return "same-signbit";
	if (refulp::ord<T>(x) == 0 && refulp::ord<T>(y) == 0) return "signed-zeros";
	return "different-signbit";
}
template <class T> struct DistInt;
template <> struct DistInt<float> { typedef int type; };
template <> struct DistInt<double> { typedef glm::int64 type; };

// got = fn(x, y); domain: the true distance must be representable in the return type
template <class T>
static bool judge_dist(pbt::Ctx& c, const char* fn, const char* form, T x, T y, typename DistInt<T>::type got) {
	typedef typename refulp::wide<T>::type W;
	W want = refulp::dist<T>(x, y);
	if (want > (W)std::numeric_limits<typename DistInt<T>::type>::max()) { c.cls("distance not representable in the return type (not judged)"); return true; }
	if ((W)got == want) return true;
	if (refulp::repeat_failure(c, refulp::key_hash(fn, form, sign_pair_class(x, y), nullptr, sizeof(T)))) return false;
	c.failk(std::string(fn) + "/" + form + tname<T>() + "/" + sign_pair_class(x, y), "%s(%a [0x%llx], %a [0x%llx]) = %lld, expected %lld", fn, (double)x, ubits(x), (double)y, ubits(y),
	        (long long)got, (long long)want);
	return false;
}

// ---------------------------------------------------------------------------------------------------------------
// T1: every float bit pattern through the four one-argument functions
static void prop_single32(pbt::Ctx& c) {
	uint32_t u = (uint32_t)c.draw(1ULL << 32);
	float x = u2f(u);
	uint32_t mag = u & 0x7fffffffu;
	if (mag >= 0x7f800000u) { c.cls("inf/NaN pattern (outside the domain, not evaluated)"); return; }
	float n1 = glm::nextFloat(x), p1 = glm::prevFloat(x), n2 = glm::next_float(x), p2 = glm::prev_float(x);
	c.logf("x=%a [0x%08x]: nextFloat=%a prevFloat=%a next_float=%a prev_float=%a", (double)x, u, (double)n1, (double)p1, (double)n2, (double)p2);
	uint32_t mant = mag & 0x7fffffu;
	if (mag <= 1) c.cls("neighbour-or-x-is-zero");
	else if (mag == 0x7f7fffffu) c.cls("x==+-max (one side unjudged)");
	else if (mant == 0 || mant == 0x7fffffu) c.cls("a-neighbour-is-in-another-binade");
	else c.cls("neighbours-inside-the-binade");
	if (mag < 0x00800000u && mag) c.cls("subnormal");
	if (u >> 31) c.cls("negative");
	// fast path: both neighbours exist and the results are the expected values; everything else goes through judge_step
	const int32_t o = ordered(x);
	const bool inner = mag != 0x7f7fffffu;
	if (!(inner && !is_nan(n1) && !is_inf(n1) && ordered(n1) == o + 1)) judge_step<float>(c, "nextFloat", "", x, 1, +1, n1);
	if (!(inner && !is_nan(p1) && !is_inf(p1) && ordered(p1) == o - 1)) judge_step<float>(c, "prevFloat", "", x, 1, -1, p1);
	if (!(inner && !is_nan(n2) && !is_inf(n2) && ordered(n2) == o + 1)) judge_step<float>(c, "next_float", "", x, 1, +1, n2);
	if (!(inner && !is_nan(p2) && !is_inf(p2) && ordered(p2) == o - 1)) judge_step<float>(c, "prev_float", "", x, 1, -1, p2);
	c.nontrivial();
}
PBT_SWEEP("single_step/float/all-patterns", prop_single32, 1ULL << 32, 1, 1,
          "every float bit pattern through nextFloat, prevFloat, next_float, prev_float; non-trivial = finite x (each has its own pair of neighbours); classes: neighbours inside the "
          "binade / in another binade / zero involved, subnormal, negative");

// ---------------------------------------------------------------------------------------------------------------
// n-step overloads, distance of the stepped value, vector overloads — for one start value x
template <class T, int L>
static void vec_steps(pbt::Ctx& c, const T* xs, const int* ns) {
	typedef glm::vec<L, T> V; typedef glm::vec<L, int> IV;
	V x(0); IV nv(0);
	for (int i = 0; i < L; ++i) { x[i] = xs[i]; nv[i] = ns[i]; }
	V a = glm::nextFloat(x), b = glm::prevFloat(x), a2 = glm::next_float(x), b2 = glm::prev_float(x);
	V an = glm::nextFloat(x, ns[0]), bn = glm::prevFloat(x, ns[0]), an2 = glm::next_float(x, ns[0]), bn2 = glm::prev_float(x, ns[0]);
	V av = glm::nextFloat(x, nv), bv = glm::prevFloat(x, nv), av2 = glm::next_float(x, nv), bv2 = glm::prev_float(x, nv);
	for (int i = 0; i < L; ++i) {
		judge_step<T>(c, "nextFloat", "vec/", x[i], 1, +1, a[i]); judge_step<T>(c, "prevFloat", "vec/", x[i], 1, -1, b[i]);
		judge_step<T>(c, "next_float", "vec/", x[i], 1, +1, a2[i]); judge_step<T>(c, "prev_float", "vec/", x[i], 1, -1, b2[i]);
		judge_step<T>(c, "nextFloat", "vec-int/", x[i], ns[0], +1, an[i]); judge_step<T>(c, "prevFloat", "vec-int/", x[i], ns[0], -1, bn[i]);
		judge_step<T>(c, "next_float", "vec-int/", x[i], ns[0], +1, an2[i]); judge_step<T>(c, "prev_float", "vec-int/", x[i], ns[0], -1, bn2[i]);
		judge_step<T>(c, "nextFloat", "vec-ivec/", x[i], ns[i], +1, av[i]); judge_step<T>(c, "prevFloat", "vec-ivec/", x[i], ns[i], -1, bv[i]);
		judge_step<T>(c, "next_float", "vec-ivec/", x[i], ns[i], +1, av2[i]); judge_step<T>(c, "prev_float", "vec-ivec/", x[i], ns[i], -1, bv2[i]);
	}
	// distances between x and reference neighbours (lane i: ns[i] steps, direction alternating)
	V y(0);
	for (int i = 0; i < L; ++i) { T t = x[i]; if (!refulp::step<T>(x[i], (i & 1) ? -ns[i] : ns[i], &t)) refulp::step<T>(x[i], (i & 1) ? ns[i] : -ns[i], &t); y[i] = t; }
	auto d = glm::floatDistance(x, y); auto d2 = glm::float_distance(x, y);
	for (int i = 0; i < L; ++i) { judge_dist<T>(c, "floatDistance", "vec/", x[i], y[i], d[i]); judge_dist<T>(c, "float_distance", "vec/", x[i], y[i], d2[i]); }
	// second round, opposite directions; a zero lane is paired with the zero of the other sign (so that the +0/-0 pair does not depend on the random counts)
	for (int i = 0; i < L; ++i) {
		T t = x[i];
		if (refulp::ord<T>(x[i]) == 0) t = frombits<T>(tobits<T>(x[i]) ^ (typename bits_of<T>::U(1) << (sizeof(T) * 8 - 1)));
		else if (!refulp::step<T>(x[i], (i & 1) ? ns[i] : -ns[i], &t)) refulp::step<T>(x[i], (i & 1) ? -ns[i] : ns[i], &t);
		y[i] = t;
	}
	d = glm::floatDistance(y, x); d2 = glm::float_distance(y, x);
	for (int i = 0; i < L; ++i) { judge_dist<T>(c, "floatDistance", "vec/", y[i], x[i], d[i]); judge_dist<T>(c, "float_distance", "vec/", y[i], x[i], d2[i]); }
}

template <class T>
static void check_steps(pbt::Ctx& c, T x) {
	typedef typename refulp::wide<T>::type W;
	const W ox = refulp::ord<T>(x), omin = refulp::ord_min_normal<T>();
	int nr = 4 + (int)c.draw(197);
	c.logf("%s x=%a [0x%llx], n in {0,1,2,3,64,%d}", tname<T>(), (double)x, ubits(x), nr);
	const int NS[6] = {0, 1, 2, 3, 64, nr};
	bool zero_crossed = false, binade_crossed = false;
	for (int k = 0; k < 6; ++k) {
		int n = NS[k];
		judge_step<T>(c, "nextFloat", "nstep/", x, n, +1, glm::nextFloat(x, n));
		judge_step<T>(c, "prevFloat", "nstep/", x, n, -1, glm::prevFloat(x, n));
		judge_step<T>(c, "next_float", "nstep/", x, n, +1, glm::next_float(x, n));
		judge_step<T>(c, "prev_float", "nstep/", x, n, -1, glm::prev_float(x, n));
		// floatDistance(x, nextFloat(x, n)) == n, evaluated on the reference neighbour so that a stepping defect cannot leak in
		for (int dir = -1; dir <= 1; dir += 2) {
			T y;
			if (!refulp::step<T>(x, dir * n, &y)) continue;
			judge_dist<T>(c, "floatDistance", "", x, y, glm::floatDistance(x, y));
			judge_dist<T>(c, "floatDistance", "", y, x, glm::floatDistance(y, x));
			judge_dist<T>(c, "float_distance", "", x, y, glm::float_distance(x, y));
			judge_dist<T>(c, "float_distance", "", y, x, glm::float_distance(y, x));
			if (n && sign_bit(x) != sign_bit(y)) zero_crossed = true;
			if (n && (tobits<T>(x) >> bits_of<T>::MANT) != (tobits<T>(y) >> bits_of<T>::MANT)) binade_crossed = true;
		}
	}
	if (zero_crossed) c.cls("a path crosses zero");
	if (binade_crossed) c.cls("a path crosses a binade boundary");
	if (!zero_crossed && !binade_crossed) c.cls("all paths inside one binade");
	if (ox < 0) c.cls("negative");
	if (ox != 0 && ox < omin && ox > -omin) c.cls("subnormal");
	if (ox > omin && ox - nr < omin) c.cls("prev path reaches min_normal from above");
	// vector overloads: 4 distinct start values, 4 distinct counts (lane order matters)
	T xs[4] = {x, x, x, x};
	xs[1] = frombits<T>(tobits<T>(x) ^ (typename bits_of<T>::U(1) << (sizeof(T) * 8 - 1)));
	if (!refulp::step<T>(x, 77, &xs[2])) refulp::step<T>(x, -77, &xs[2]);
	if (!refulp::step<T>(x, -1234, &xs[3])) refulp::step<T>(x, 1234, &xs[3]);
	int ns[4] = {1 + (int)c.draw(20), 0, 3, 2};
	if (c.coin()) { ns[1] = 1 + (int)c.draw(20); ns[3] = (int)c.draw(20); }
	vec_steps<T, 1>(c, xs, ns); vec_steps<T, 2>(c, xs, ns); vec_steps<T, 3>(c, xs, ns); vec_steps<T, 4>(c, xs, ns);
	c.nontrivial();
}

// T2a: every float within 70 steps of a binade boundary, of zero and of +-max (complete in both tiers)
static const uint64_t F32_EDGES = 256ULL * 2 * 141;
static void prop_steps32_edges(pbt::Ctx& c) {
	uint64_t j = c.draw(F32_EDGES);
	int off = (int)(j % 141) - 70; uint64_t be = j / 141; uint32_t s = (uint32_t)(be & 1), e = (uint32_t)(be >> 1);
	int64_t mag = e == 0 ? off + 70 : ((int64_t)e << 23) + off;
	if (mag > 0x7f7fffff) mag = 0x7f7fffff - (mag - 0x7f800000);
	float x = u2f((uint32_t)mag | (s << 31));
	if (e == 0) c.cls("0..140 steps from zero"); else if (e == 255) c.cls("0..70 steps below max"); else if (e == 1) c.cls("around min_normal"); else c.cls("around a binade boundary");
	check_steps<float>(c, x);
}
PBT_SWEEP("steps/float/binade-edges", prop_steps32_edges, F32_EDGES, 1, 1,
          "every float within 70 steps of a binade boundary (both signs x 254 boundaries), 0..140 steps from +-0 and 0..70 steps below +-max: n-step overloads with n in {0,1,2,3,64,random 4..200}, "
          "floatDistance to the n-th neighbour in both argument orders, vec1-4 overloads (int and ivec counts) on 4 distinct lanes; non-trivial = every case; classes: path inside a binade / across a "
          "binade / across zero, negative, subnormal");

// T2b: strided sample of all float patterns (one out of 2^12 quick, one out of 2^6 thorough; position inside the block chosen by the seed)
static void prop_steps32_strided(pbt::Ctx& c) {
	float x = u2f((uint32_t)c.draw(1ULL << 32));
	if (!is_finite(x)) { c.cls("inf/NaN pattern (outside the domain, not evaluated)"); return; }
	check_steps<float>(c, x);
}
PBT_SWEEP("steps/float/strided", prop_steps32_strided, 1ULL << 32, 4096, 64,
          "one float out of every 2^12 (quick) / 2^6 (thorough) consecutive bit patterns: same checks as steps/float/binade-edges; non-trivial = finite x");

// T3: doubles — every binade boundary: sign x exponent field x {mantissa 0,1,2,3, all-ones-{0,1,2}, 2^51, 8 random mantissas}
static const uint64_t F64_EDGES = 2ULL * 2047 * 16;
static void prop_steps64_edges(pbt::Ctx& c) {
	uint64_t i = c.draw(F64_EDGES);
	uint64_t s = i & 1, e = (i >> 1) % 2047, k = (i >> 1) / 2047;
	const uint64_t M = (1ULL << 52) - 1;
	static const uint64_t PAT[8] = {0, 1, 2, 3, M, M - 1, M - 2, 1ULL << 51};
	uint64_t m = k < 8 ? PAT[k] : c.draw(1ULL << 52);
	double x = u2d((s << 63) | (e << 52) | m);
	if (e == 0) c.cls(m ? "subnormal-binade" : "zero"); else if (e == 2046) c.cls("top-binade"); else c.cls("normal-binade");
	check_steps<double>(c, x);
}
PBT_SWEEP("steps/double/every-binade", prop_steps64_edges, F64_EDGES, 1, 1,
          "both signs x all 2047 finite exponent fields x mantissa in {0,1,2,3,2^52-1,2^52-2,2^52-3,2^51, 8 random}: +-0, smallest/largest subnormals, every binade boundary from both sides, +-max; "
          "same checks as the float target; non-trivial = every case");

template <class T> static void prop_steps_random(pbt::Ctx& c) { check_steps<T>(c, refulp::gen_base<T>(c)); }
static void prop_steps_random64(pbt::Ctx& c) { prop_steps_random<double>(c); }
PBT_RANDOM("steps/double/random", prop_steps_random64, 150000, 15000000,
           "double x from: +-0, subnormals, binade boundaries +-3, +-max-k, the 141 values straddling zero, moderate, raw finite bit patterns; same checks; non-trivial = every case");

// ---------------------------------------------------------------------------------------------------------------
// T4: distance of arbitrary pairs
template <class T>
static void prop_distance(pbt::Ctx& c) {
	T xs[4], ys[4];
	for (int i = 0; i < 4; ++i) {
		xs[i] = refulp::gen_base<T>(c);
		uint64_t mode = c.draw(8);
		if (mode < 5) { long long d = (long long)c.draw(67); if (c.coin()) d = -d; if (!refulp::step<T>(xs[i], d, &ys[i])) refulp::step<T>(xs[i], -d, &ys[i]); }
		else if (mode == 5) ys[i] = frombits<T>(tobits<T>(xs[i]) ^ (typename bits_of<T>::U(1) << (sizeof(T) * 8 - 1)));
		else if (mode == 6) ys[i] = refulp::gen_base<T>(c);
		else { long long d = (long long)c.draw(1ULL << 30); if (c.coin()) d = -d; if (!refulp::step<T>(xs[i], d, &ys[i])) refulp::step<T>(xs[i], -d, &ys[i]); }
		c.logf("%s pair %d: x=%a [0x%llx] y=%a [0x%llx]", tname<T>(), i, (double)xs[i], ubits(xs[i]), (double)ys[i], ubits(ys[i]));
	}
	bool distinct = true;
	for (int i = 0; i < 4; ++i) {
		const char* pc = sign_pair_class(xs[i], ys[i]);
		c.cls(pc == std::string("same-signbit") ? "pair: same sign bit" : pc == std::string("signed-zeros") ? "pair: +0 and -0" : "pair: different sign bits (straddles zero)");
		typename refulp::wide<T>::type d = refulp::dist<T>(xs[i], ys[i]);
		if (d == 0) c.cls("distance 0"); else if (d <= 64) c.cls("distance 1..64"); else c.cls("distance > 64");
		judge_dist<T>(c, "floatDistance", "", xs[i], ys[i], glm::floatDistance(xs[i], ys[i]));
		judge_dist<T>(c, "float_distance", "", xs[i], ys[i], glm::float_distance(xs[i], ys[i]));
		for (int j = 0; j < i; ++j) if (refulp::dist<T>(xs[i], ys[i]) == refulp::dist<T>(xs[j], ys[j])) distinct = false;
	}
	{ glm::vec<1, T> x(xs[0]), y(ys[0]); auto d = glm::floatDistance(x, y); auto e = glm::float_distance(x, y); judge_dist<T>(c, "floatDistance", "vec/", xs[0], ys[0], d[0]); judge_dist<T>(c, "float_distance", "vec/", xs[0], ys[0], e[0]); }
	{ glm::vec<2, T> x(xs[0], xs[1]), y(ys[0], ys[1]); auto d = glm::floatDistance(x, y); auto e = glm::float_distance(x, y); for (int i = 0; i < 2; ++i) { judge_dist<T>(c, "floatDistance", "vec/", xs[i], ys[i], d[i]); judge_dist<T>(c, "float_distance", "vec/", xs[i], ys[i], e[i]); } }
	{ glm::vec<3, T> x(xs[0], xs[1], xs[2]), y(ys[0], ys[1], ys[2]); auto d = glm::floatDistance(x, y); auto e = glm::float_distance(x, y); for (int i = 0; i < 3; ++i) { judge_dist<T>(c, "floatDistance", "vec/", xs[i], ys[i], d[i]); judge_dist<T>(c, "float_distance", "vec/", xs[i], ys[i], e[i]); } }
	{ glm::vec<4, T> x(xs[0], xs[1], xs[2], xs[3]), y(ys[0], ys[1], ys[2], ys[3]); auto d = glm::floatDistance(x, y); auto e = glm::float_distance(x, y); for (int i = 0; i < 4; ++i) { judge_dist<T>(c, "floatDistance", "vec/", xs[i], ys[i], d[i]); judge_dist<T>(c, "float_distance", "vec/", xs[i], ys[i], e[i]); } }
	if (distinct) c.nontrivial();
}
static void prop_distance32(pbt::Ctx& c) { prop_distance<float>(c); }
static void prop_distance64(pbt::Ctx& c) { prop_distance<double>(c); }
#define DIST_RULE "4 pairs (x from the structured generator; y at 0..66 steps either side, -x, an unrelated value, or up to 2^30 steps away) through floatDistance/float_distance, scalar and vec1-4; " \
	"pairs whose distance does not fit the return type are not judged; non-trivial = the four distances are pairwise different (a swapped lane is visible)"
PBT_RANDOM("distance/float/pairs", prop_distance32, 300000, 30000000, DIST_RULE);
PBT_RANDOM("distance/double/pairs", prop_distance64, 300000, 30000000, DIST_RULE);

int main(int argc, char** argv) { return pbt::pbt_main(argc, argv, "C14"); }
