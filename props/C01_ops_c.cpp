// C01 (operators), part 3 of 3 (thorough tier only): element types uint8, int16, uint16, int64, bool and the exhaustive uint8 sweep (see C01_ops.cpp).
#define C01_OPS_PART 3
#include "C01_ops.cpp"
