// C13 (part 2 of 2) — gtx interpolation helpers: dual-quaternion lerp / normalize (glm/gtx/dual_quaternion.hpp), squad / intermediate
// (glm/gtx/quaternion.hpp), the GLSL-compatibility lerp overloads and isfinite (glm/gtx/compatibility.hpp/.inl).
// Oracles: the documented blend x*(1-a)+y*a evaluated in T (VALUE), the long-double arc model of engine/ref/refslerp.hpp composed as
// the squad equation slerp(slerp(q1,q2,h), slerp(s1,s2,h), 2h(1-h)), Shoemake's intermediate control point
// q_i exp(-(log(q_i^-1 q_{i+1}) + log(q_i^-1 q_{i-1}))/4) in long double, and the IEEE exponent field for isfinite.
#include "fp.hpp"
#include "ref/refslerp.hpp"
#include <glm/glm.hpp>
#include <glm/gtc/quaternion.hpp>
#include <glm/gtx/quaternion.hpp>
#include <glm/gtx/dual_quaternion.hpp>
#include <glm/gtx/compatibility.hpp>
#include <glm/gtc/vec1.hpp>

using namespace refslerp;

static const R CAP = 0.05L;
static const R NONTRIV = 1e-2L;

template <class T> static glm::qua<T> GQ(const T* v) { return glm::qua<T>::wxyz(v[0], v[1], v[2], v[3]); }
template <class T> static void XQ(const glm::qua<T>& q, T* v) { v[0] = q.w; v[1] = q.x; v[2] = q.y; v[3] = q.z; }
template <class T> static const char* tname() { return sizeof(T) == 4 ? "float" : "double"; }
static inline bool within(pbt::Ctx& c, const char* metric, R err, R tol) { R r = err == 0 ? 0 : err / tol; c.metric(metric, (r == r && r < 1e30L) ? (double)r : 1e30); return err <= tol; }
template <class T> static R tiny() { return 8 * (R)std::numeric_limits<T>::denorm_min(); }
static std::string key(const char* fn, const char* ty, const char* what, const char* cls = nullptr) {
	std::string s = std::string(fn) + "/" + ty + "/" + what;
	if (cls) { s += "/"; s += cls; }
	return s;
}
#define REG2(fn, name, q, t, rule) \
	static void fn##_f(pbt::Ctx& c) { fn<float>(c); } PBT_RANDOM(name "/float", fn##_f, q, t, rule); \
	static void fn##_d(pbt::Ctx& c) { fn<double>(c); } PBT_RANDOM(name "/double", fn##_d, q, t, rule)

// =============================================================================================
// dual quaternions: lerp ("linear interpolation of two dual quaternion", a in [0,1] asserted) and normalize.
//   lerp: every one of the 8 components equals x*(1-a) + (+-y)*a evaluated in T; the sign is that of the shorter arc between the real
//   parts (dot(x.real,y.real) < 0: -y), either sign when the dot is within its rounding bound of 0; so lerp(x,y,0) = x, lerp(x,y,1) = +-y.
//   normalize: q / |q.real|: real part of unit length, all 8 components equal component/|real| to (4/2 + 2) u relative (x8).
template <class T> static void gen_dual(pbt::Ctx& c, const T* real, T* dual) {
	if (c.coin()) {  // rigid transform: dual = 1/2 (0,p) * real
		T p[3]; for (int i = 0; i < 3; ++i) p[i] = fp::gen_moderate<T>(c, 6, 6);
		const T* q = real;  // (w,x,y,z)
		dual[0] = T(-0.5) * (p[0] * q[1] + p[1] * q[2] + p[2] * q[3]);
		dual[1] = T(0.5) * (p[0] * q[0] + p[1] * q[3] - p[2] * q[2]);
		dual[2] = T(0.5) * (-p[0] * q[3] + p[1] * q[0] + p[2] * q[1]);
		dual[3] = T(0.5) * (p[0] * q[2] - p[1] * q[1] + p[2] * q[0]);
	} else for (int i = 0; i < 4; ++i) dual[i] = fp::gen_moderate<T>(c, 6, 6);
}
template <class T> static void dqlerp_p(pbt::Ctx& c) {
	T xr[4], yr[4], xd[4], yd[4];
	int xc, tc;
	int sc = gen_pair<T>(c, xr, yr, &xc);
	gen_dual(c, xr, xd); gen_dual(c, yr, yd);
	T a = gen_factor<T>(c, &tc, true);
	c.cls(SP_NAME[sc]); c.cls(TF_NAME[tc]);
	const char* ty = tname<T>();
	if (c.verbose) c.logf("dualquat lerp<%s> x=(%s,%s) y=(%s,%s) a=%.17g", ty, qstr(xr).c_str(), qstr(xd).c_str(), qstr(yr).c_str(), qstr(yd).c_str(), (double)a);
	R rx[4], ry[4]; lift(xr, rx); lift(yr, ry);
	R d = dot4(rx, ry);
	bool amb = rabs(d) <= 4 * U<T>() * adot4(rx, ry);
	c.cls(amb ? "sign: dot within rounding of 0 (either accepted)" : d < 0 ? "sign: dot<0 (y negated)" : "sign: dot>=0");
	glm::tdualquat<T> X(GQ(xr), GQ(xd)), Y(GQ(yr), GQ(yd));
	glm::tdualquat<T> G = glm::lerp(X, Y, a);
	T g[8]; XQ(G.real, g); XQ(G.dual, g + 4);
	T xs[8], ys[8];
	for (int i = 0; i < 4; ++i) { xs[i] = xr[i]; xs[4 + i] = xd[i]; ys[i] = yr[i]; ys[4 + i] = yd[i]; }
	if (a != 0 && a != 1) c.nontrivial();
	int okp = 0, okm = 0, bad = -1;
	for (int i = 0; i < 8; ++i) {
		T wp = xs[i] * (T(1) - a) + ys[i] * a, wm = xs[i] * (T(1) - a) + ys[i] * (-a);
		bool p = fp::same_value(g[i], wp), m = fp::same_value(g[i], wm);
		okp += p; okm += m;
		if (!p && !m && bad < 0) bad = i;
	}
	const char* scls = amb ? "dot~0" : d < 0 ? "dot<0" : "dot>0";
	if (okp != 8 && okm != 8)
		c.failk(key("dualquat-lerp", ty, "affine-blend", scls), "lerp(x=(%s,%s), y=(%s,%s), a=%.17g)=(%s,%s): component %d is neither x*(1-a)+y*a nor x*(1-a)-y*a, or the sign is not the same for all components",
		        qstr(xr).c_str(), qstr(xd).c_str(), qstr(yr).c_str(), qstr(yd).c_str(), (double)a, qstr(g).c_str(), qstr(g + 4).c_str(), bad);
	else if (!amb && a != 0 && (d < 0 ? okm != 8 : okp != 8))
		c.failk(key("dualquat-lerp", ty, "short-path-sign", scls), "lerp(x=(%s,..), y=(%s,..), a=%.17g)=(%s,..) blends towards %sy although dot(x.real,y.real)=%.6Lg", qstr(xr).c_str(), qstr(yr).c_str(), (double)a, qstr(g).c_str(), d < 0 ? "+" : "-", d);
}
REG2(dqlerp_p, "dualquat-lerp", 700000, 40000000,
     "dual quaternions with unit real parts in every pair relation of the slerp generator and dual parts from a translation (rigid transform) or arbitrary, a in [0,1] (asserted): all 8 components equal x*(1-a)+(+-y)*a in T with "
     "one common sign, the sign of the shorter arc between the real parts (either when dot is within rounding of 0); non-trivial = a not in {0,1}");

template <class T> static void dqnorm_p(pbt::Ctx& c) {
	R rq[4]; T r[4], dl[4];
	int xc = gen_unit_r(c, rq);
	R s = c.draw(4) == 0 ? 1 : (R)c.loguniform(1.0 / 64, 64.0);
	for (int i = 0; i < 4; ++i) r[i] = (T)(rq[i] * s);
	gen_dual(c, r, dl);
	c.cls(UQ_NAME[xc]); c.cls(s == 1 ? "real part already unit" : "real part scaled 1/64..64");
	const char* ty = tname<T>();
	if (c.verbose) c.logf("dualquat normalize<%s> q=(%s,%s)", ty, qstr(r).c_str(), qstr(dl).c_str());
	glm::tdualquat<T> G = glm::normalize(glm::tdualquat<T>(GQ(r), GQ(dl)));
	T g[8]; XQ(G.real, g); XQ(G.dual, g + 4);
	R rr[4], rd[4], rg[4]; lift(r, rr); lift(dl, rd); lift(g, rg);
	R n = norm4(rr);
	const R rel = 8 * 4 * U<T>();
	if (s != 1) c.nontrivial();
	for (int i = 0; i < 8; ++i) {
		R want = (i < 4 ? rr[i] : rd[i - 4]) / n;
		if (!within(c, "dualquat normalize component err/tol", rabs((R)g[i] - want), rel * rabs(want) + tiny<T>()))
			c.failk(key("dualquat-normalize", ty, i < 4 ? "real-over-length" : "dual-over-length"), "normalize(q=(%s,%s)) component %d = %.17g, q/|q.real| gives %.17Lg", qstr(r).c_str(), qstr(dl).c_str(), i, (double)g[i], want);
	}
	if (!within(c, "dualquat normalize |len-1| err/tol", rabs(norm4(rg) - 1), rel))
		c.failk(key("dualquat-normalize", ty, "unit-real-part"), "normalize(q=(%s,..)).real=%s has length %.17Lg", qstr(r).c_str(), qstr(g).c_str(), norm4(rg));
}
REG2(dqnorm_p, "dualquat-normalize", 500000, 40000000,
     "real part = unit quaternion times a factor log-uniform in 1/64..64 (one quarter unscaled), dual part from a translation or arbitrary (magnitudes 2^-6..2^6): every component equals component/|real| in long double to 32 u relative, "
     "the real part of the result has unit length; non-trivial = the real part was not already unit");

// =============================================================================================
// squad(q1,q2,s1,s2,h) = mix(mix(q1,q2,h), mix(s1,s2,h), 2h(1-h)) ("point on a path according squad equation; q1 and q2 are control
// points"): squad(..,0) = q1, squad(..,1) = q2 to a few ulps, and for h in (0,1) the composed arc model with the bounds propagated:
// an input perturbation delta of the outer arc moves its result by delta (|k0|+|k1|) + sens * 2 delta / sin(Theta).
template <class T> static void squad_p(pbt::Ctx& c) {
	T q1[4], q2[4], s1[4], s2[4];
	R r[4], d[4], o[4];
	int xc = gen_unit_r(c, r); round4(r, q1);
	// q2, s1, s2 at moderate separations from q1 (squad control points are neighbours on a path)
	T* dst[3] = {q2, s1, s2};
	for (int j = 0; j < 3; ++j) {
		R th = c.draw(4) == 0 ? (R)c.loguniform(1e-3, 0.1) : (R)c.uniform(0.05, 1.3);
		gen_orth_r(c, r, d);
		for (int i = 0; i < 4; ++i) o[i] = cosl(th) * r[i] + sinl(th) * d[i];
		round4(o, dst[j]);
	}
	int tc; T h = gen_factor<T>(c, &tc, true);
	c.cls(UQ_NAME[xc]); c.cls(TF_NAME[tc]);
	const char* ty = tname<T>();
	if (c.verbose) c.logf("squad<%s> q1=%s q2=%s s1=%s s2=%s h=%.17g", ty, qstr(q1).c_str(), qstr(q2).c_str(), qstr(s1).c_str(), qstr(s2).c_str(), (double)h);
	T g[4]; XQ(glm::squad(GQ(q1), GQ(q2), GQ(s1), GQ(s2), h), g);
	if (!finite4(g)) { c.failk(key("squad", ty, "non-finite"), "squad(q1=%s,q2=%s,s1=%s,s2=%s,h=%.17g)=%s", qstr(q1).c_str(), qstr(q2).c_str(), qstr(s1).c_str(), qstr(s2).c_str(), (double)h, qstr(g).c_str()); return; }
	R rg[4], r1[4], r2[4], t1[4], t2[4]; lift(g, rg); lift(q1, r1); lift(q2, r2); lift(s1, t1); lift(s2, t2);
	const R rh = (R)h, u = U<T>();
	if (h == 0 || h == 1) {
		const R* want = h == 0 ? r1 : r2;
		R w = 0;
		for (int i = 0; i < 4; ++i) w = rmax(w, rabs(rg[i] - want[i]) / (16 * u * rabs(want[i]) + tiny<T>()));
		c.metric("squad end point err/tol", (double)w);
		if (w > 1) c.failk(key("squad", ty, h == 0 ? "end-point-0" : "end-point-1"), "squad(q1=%s,q2=%s,s1=%s,s2=%s,h=%g)=%s is not %s to 16 u", qstr(q1).c_str(), qstr(q2).c_str(), qstr(s1).c_str(), qstr(s2).c_str(), (double)h, qstr(g).c_str(), h == 0 ? "q1" : "q2");
		return;
	}
	Arc A1 = make_arc(r1, r2), A2 = make_arc(t1, t2);
	if (A1.degenerate || A2.degenerate) { c.skip(); return; }
	Tol ta = arc_tol<T>(A1, rh, 0), tb = arc_tol<T>(A2, rh, 0);
	R P[4], S[4]; arc_point(A1, rh * A1.theta, P); arc_point(A2, rh * A2.theta, S);
	Arc A3 = make_arc(P, S);
	if (A3.degenerate) { c.skip(); return; }
	R a2 = 2 * (1 - rh) * rh;
	Tol tc3 = arc_tol<T>(A3, a2, 0);
	R delta = ta.total + tb.total;
	R tol = tc3.total + delta * (rabs(tc3.k0) + rabs(tc3.k1)) + tc3.sens * 2 * delta / A3.sn + 8 * 3 * u * a2 * A3.theta;
	if (!(tol < CAP)) { c.cls("bound above cap: ill-conditioned, finiteness only"); return; }
	R want[4]; arc_point(A3, a2 * A3.theta, want);
	if (tol < NONTRIV) c.nontrivial();
	if (!within(c, "squad value err/tol", dist4(rg, want), tol))
		c.failk(key("squad", ty, "squad-equation"), "squad(q1=%s,q2=%s,s1=%s,s2=%s,h=%.17g)=%s, slerp(slerp(q1,q2,h),slerp(s1,s2,h),2h(1-h))=(w=%.17Lg,x=%.17Lg,y=%.17Lg,z=%.17Lg) (distance %.3Lg, bound %.3Lg)",
		        qstr(q1).c_str(), qstr(q2).c_str(), qstr(s1).c_str(), qstr(s2).c_str(), (double)h, qstr(g).c_str(), want[0], want[1], want[2], want[3], dist4(rg, want), tol);
}
REG2(squad_p, "squad", 500000, 40000000,
     "unit q1 and three control points q2, s1, s2 at 1e-3..1.3 rad from it (neighbours on a path), h in [0,1] incl. 0, 1, 1/2 and neighbours: squad(..,0) = q1 and squad(..,1) = q2 to 16 u per component, "
     "interior points against the composed oriented-arc model with propagated bounds; non-trivial = h not in {0,1}, bound < 1e-2");

// intermediate(prev, curr, next) "Returns an intermediate control point for squad interpolation":
// curr * exp(-(log(curr^-1 next) + log(curr^-1 prev)) / 4) (Shoemake), which equals exp(-(log(next curr^-1) + log(prev curr^-1))/4) * curr.
// Unit length; equals curr when prev, curr, next are equally spaced on one geodesic (the two logarithms cancel).
template <class T> static void intermediate_p(pbt::Ctx& c) {
	T p[4], q[4], n[4];
	R r[4], d[4], o[4];
	int xc = gen_unit_r(c, r); round4(r, q);
	int mode = (int)c.draw(4);  // 0: equally spaced geodesic, else generic neighbours
	R th1 = (R)c.uniform(0.02, 1.2), th2 = (R)c.uniform(0.02, 1.2);
	gen_orth_r(c, r, d);
	for (int i = 0; i < 4; ++i) o[i] = cosl(th1) * r[i] + sinl(th1) * d[i];
	round4(o, n);
	if (mode == 0) { for (int i = 0; i < 4; ++i) o[i] = cosl(th1) * r[i] - sinl(th1) * d[i]; c.cls("prev, curr, next equally spaced on a geodesic (result = curr)"); }
	else { gen_orth_r(c, r, d); for (int i = 0; i < 4; ++i) o[i] = cosl(th2) * r[i] + sinl(th2) * d[i]; c.cls("generic neighbours"); }
	round4(o, p);
	c.cls(UQ_NAME[xc]);
	const char* ty = tname<T>();
	if (c.verbose) c.logf("intermediate<%s> prev=%s curr=%s next=%s", ty, qstr(p).c_str(), qstr(q).c_str(), qstr(n).c_str());
	T g[4]; XQ(glm::intermediate(GQ(p), GQ(q), GQ(n)), g);
	if (!finite4(g)) { c.failk(key("intermediate", ty, "non-finite"), "intermediate(prev=%s,curr=%s,next=%s)=%s", qstr(p).c_str(), qstr(q).c_str(), qstr(n).c_str(), qstr(g).c_str()); return; }
	R rp[4], rq[4], rn[4], rg[4]; lift(p, rp); lift(q, rq); lift(n, rn); lift(g, rg);
	R qi[4], a[4], b[4], la[4], lb[4], e[4], ex[4], want[4];
	qinv(rq, qi); qmul(qi, rn, a); qmul(qi, rp, b); qlog(a, la); qlog(b, lb);
	for (int i = 0; i < 4; ++i) e[i] = -(la[i] + lb[i]) / 4;
	qexp_pure(e, ex); qmul(rq, ex, want);
	R nw = norm4(want); for (int i = 0; i < 4; ++i) want[i] /= nw;
	c.nontrivial();
	// three quaternion products on unit factors (3 x ~1.5 u), two logs (atan, length, division: ~2 u of an angle <= 1.2, then /4), one exp (sin, cos, length: ~1 u): ~6 u; x8 margin
	const R tol = 8 * 6 * U<T>();
	R E = sqrtl(e[1] * e[1] + e[2] * e[2] + e[3] * e[3]);
	// input class of the key: the exponential's argument is (nearly) zero, i.e. the control point is curr itself
	bool tinyarg = E <= 2 * EPS<T>();
	if (tinyarg) c.cls("exp argument |v| <= 2 eps (control point = curr)");
	// (the tiny-argument class is a known-defect class on the pinned tree: compared without feeding the err/tol metrics)
	bool ok_len = tinyarg ? rabs(norm4(rg) - 1) <= tol : within(c, "intermediate |len-1| err/tol", rabs(norm4(rg) - 1), tol);
	bool ok_val = tinyarg ? dist4(rg, want) <= tol : within(c, "intermediate value err/tol", dist4(rg, want), tol);
	if (tinyarg) {
		if (!ok_len || !ok_val)
			c.failk(key("intermediate", ty, "exp-argument-below-epsilon"), "intermediate(prev=%s,curr=%s,next=%s)=%s: log(curr^-1 next)+log(curr^-1 prev) has length %.3Lg, so the control point is curr*exp(0)=curr=(w=%.17Lg,x=%.17Lg,y=%.17Lg,z=%.17Lg); result has length %.6Lg",
			        qstr(p).c_str(), qstr(q).c_str(), qstr(n).c_str(), qstr(g).c_str(), 4 * E, want[0], want[1], want[2], want[3], norm4(rg));
		return;
	}
	if (!ok_len)
		c.failk(key("intermediate", ty, "unit-length"), "intermediate(prev=%s,curr=%s,next=%s)=%s has length %.17Lg", qstr(p).c_str(), qstr(q).c_str(), qstr(n).c_str(), qstr(g).c_str(), norm4(rg));
	if (!ok_val)
		c.failk(key("intermediate", ty, "shoemake-formula"), "intermediate(prev=%s,curr=%s,next=%s)=%s, curr*exp(-(log(curr^-1 next)+log(curr^-1 prev))/4)=(w=%.17Lg,x=%.17Lg,y=%.17Lg,z=%.17Lg) (distance %.3Lg, bound %.3Lg)",
		        qstr(p).c_str(), qstr(q).c_str(), qstr(n).c_str(), qstr(g).c_str(), want[0], want[1], want[2], want[3], dist4(rg, want), tol);
}
REG2(intermediate_p, "intermediate", 500000, 40000000,
     "unit curr with prev and next at 0.02..1.2 rad from it, one quarter equally spaced on one geodesic (the control point is then curr itself): result against Shoemake's formula in long double, unit length; "
     "every case is non-trivial");

// =============================================================================================
// gtx/compatibility lerp: "Returns x * (1.0 - a) + y * a ... The value for a is not restricted to the range [0, 1]" — scalar, vec2..4 with a
// scalar factor, vec2..4 with a vector factor: VALUE against that expression in T.
template <class T> static T gen_lerp_operand(pbt::Ctx& c) { return c.draw(4) == 0 ? fp::gen_float<T>(c, fp::FD_FINITE) : fp::gen_moderate<T>(c, 20, 20); }
template <class T, int L> static void compat_L(pbt::Ctx& c) {
	T x[4], y[4], a[4];
	for (int i = 0; i < L; ++i) { x[i] = gen_lerp_operand<T>(c); y[i] = gen_lerp_operand<T>(c); }
	int tc;
	bool veca = L > 1 && c.coin();
	for (int i = 0; i < L; ++i) a[i] = (i == 0 || veca) ? (c.draw(4) == 0 ? fp::gen_moderate<T>(c, 10, 4) : gen_factor<T>(c, &tc)) : a[0];
	const char* ty = tname<T>();
	T g[4];
	glm::vec<L, T> X, Y, Av;
	for (int i = 0; i < L; ++i) { X[i] = x[i]; Y[i] = y[i]; Av[i] = a[i]; }
	std::string ov;
	if constexpr (L == 1) { g[0] = glm::lerp(x[0], y[0], a[0]); ov = "scalar"; }
	else {
		glm::vec<L, T> G = veca ? glm::lerp(X, Y, Av) : glm::lerp(X, Y, a[0]);
		for (int i = 0; i < L; ++i) g[i] = G[i];
		ov = "vec" + std::to_string(L) + (veca ? "-vec-a" : "-scalar-a");
	}
	c.cls(L == 1 ? "scalar" : veca ? "vector factor" : "scalar factor");
	bool nt = true;
	for (int i = 0; i < L; ++i) {
		nt = nt && x[i] != y[i] && a[i] != 0 && a[i] != 1;
		for (int j = 0; j < i; ++j) nt = nt && x[i] != x[j] && y[i] != y[j] && (!veca || a[i] != a[j]);
	}
	if (nt) c.nontrivial();
	if (c.verbose) { std::string s; char b[128]; for (int i = 0; i < L; ++i) { snprintf(b, sizeof b, "%s(%.17g,%.17g,%.17g)", i ? " " : "", (double)x[i], (double)y[i], (double)a[i]); s += b; } c.logf("compat lerp<%s> %s (x,y,a) per component: %s", ty, ov.c_str(), s.c_str()); }
	for (int i = 0; i < L; ++i) {
		T want = x[i] * (T(1) - a[i]) + y[i] * a[i];
		if (!fp::same_value(g[i], want))
			c.failk(key("compat-lerp", ty, ov.c_str()), "lerp(x=%.17g, y=%.17g, a=%.17g) [component %d of %s] = %.17g, x*(1-a)+y*a = %.17g", (double)x[i], (double)y[i], (double)a[i], i, ov.c_str(), (double)g[i], (double)want);
	}
}
template <class T> static void compat_p(pbt::Ctx& c) { switch (c.draw(4)) { case 0: compat_L<T, 3>(c); break; case 1: compat_L<T, 2>(c); break; case 2: compat_L<T, 4>(c); break; default: compat_L<T, 1>(c); break; } }
REG2(compat_p, "compat-lerp", 1000000, 60000000,
     "gtx/compatibility lerp, scalar and vec2..4 with scalar and with vector factor: operands finite (structured specials, magnitudes 2^-20..2^20), factor any finite moderate value incl. 0, 1, 1/2, [-2,3]: each component "
     "equals x*(1-a)+y*a evaluated in T (VALUE, NaN from inf-inf matches NaN); non-trivial = components pairwise distinct, x != y, a not in {0,1}");

// isfinite (compatibility.inl): true exactly when the exponent field is not all ones. Float: sweep of all 2^32 patterns (thorough exhaustive).
static void isfinite_f(pbt::Ctx& c) {
	uint32_t u = (uint32_t)c.draw(1ULL << 32);
	float f = fp::u2f(u);
	bool want = ((u >> 23) & 0xff) != 0xff;
	if (c.verbose) c.logf("isfinite(float 0x%08x = %a)", u, (double)f);
	c.cls(want ? "finite" : (u & 0x7fffff) ? "nan" : "inf");
	if (!want || ((u >> 23) & 0xff) == 0) c.nontrivial();
	if ((u >> 23 & 0xff) == 0xfe) c.nontrivial();
	bool g = glm::isfinite(f);
	if (g != want) c.failk(std::string("isfinite/float/") + (want ? "finite" : (u & 0x7fffff) ? "nan" : "inf"), "isfinite(0x%08x = %a) = %d", u, (double)f, (int)g);
	if ((u & 0xfff) == 0) {  // vector overloads on a slice of the sweep: lane i gets the pattern rotated by 8 i bits
		float v[4]; bool w[4];
		for (int i = 0; i < 4; ++i) { uint32_t ui = (u << (8 * i)) | (u >> ((32 - 8 * i) & 31)); if (i == 0) ui = u; v[i] = fp::u2f(ui); w[i] = ((ui >> 23) & 0xff) != 0xff; }
		glm::bvec4 b4 = glm::isfinite(glm::vec4(v[0], v[1], v[2], v[3]));
		glm::bvec3 b3 = glm::isfinite(glm::vec3(v[0], v[1], v[2]));
		glm::bvec2 b2 = glm::isfinite(glm::vec2(v[0], v[1]));
		glm::bvec1 b1 = glm::isfinite(glm::vec1(v[0]));
		for (int i = 0; i < 4; ++i) {
			if (b4[i] != w[i]) c.failk("isfinite/vec4/lane", "isfinite(vec4)[%d] = %d for %a", i, (int)b4[i], (double)v[i]);
			if (i < 3 && b3[i] != w[i]) c.failk("isfinite/vec3/lane", "isfinite(vec3)[%d] = %d for %a", i, (int)b3[i], (double)v[i]);
			if (i < 2 && b2[i] != w[i]) c.failk("isfinite/vec2/lane", "isfinite(vec2)[%d] = %d for %a", i, (int)b2[i], (double)v[i]);
			if (i < 1 && b1[i] != w[i]) c.failk("isfinite/vec1/lane", "isfinite(vec1)[%d] = %d for %a", i, (int)b1[i], (double)v[i]);
		}
	}
}
PBT_SWEEP("isfinite/float", isfinite_f, 1ULL << 32, 64, 1,
          "every float bit pattern (quick: one per block of 64, thorough: all 2^32) against the exponent field; vec1..4 overloads on every 4096th pattern with rotated lanes; non-trivial = inf, NaN, subnormal/zero or top finite binade");
static void isfinite_d(pbt::Ctx& c) {
	double v[4]; bool w[4];
	for (int i = 0; i < 4; ++i) { v[i] = fp::gen_float<double>(c, fp::FD_ANY); uint64_t u = fp::d2u(v[i]); w[i] = ((u >> 52) & 0x7ff) != 0x7ff; if (!w[i]) c.nontrivial(); c.cls(w[i] ? "finite" : (u << 12) ? "nan" : "inf"); }
	if (c.verbose) c.logf("isfinite(double) v=(%a,%a,%a,%a)", v[0], v[1], v[2], v[3]);
	glm::bvec4 b4 = glm::isfinite(glm::dvec4(v[0], v[1], v[2], v[3]));
	for (int i = 0; i < 4; ++i) {
		bool g = glm::isfinite(v[i]);
		if (g != w[i]) c.failk(std::string("isfinite/double/") + (w[i] ? "finite" : "non-finite"), "isfinite(%a) = %d", v[i], (int)g);
		if (b4[i] != w[i]) c.failk("isfinite/dvec4/lane", "isfinite(dvec4)[%d] = %d for %a", i, (int)b4[i], v[i]);
	}
}
PBT_RANDOM("isfinite/double", isfinite_d, 500000, 40000000, "four doubles from the structured generator (specials, raw bit patterns, NaN, inf) through the scalar and dvec4 overloads against the exponent field; non-trivial = at least one inf/NaN lane");
