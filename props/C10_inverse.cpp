// C10 (part 1 of 2) — determinant, inverse, inverseTranspose (gtc), adjugate (gtx) on 2x2, 3x3, 4x4 float and double matrices,
// det(AB) = det A det B, det(M^T) = det M, exactness on small-integer / unimodular matrices.
// Oracle: engine/ref/refmat.hpp — Leibniz determinant and cofactor inverse in __float128 with the sums of |terms| (S_det, S_cof)
// accumulated alongside. Two layers (DESIGN.md 6/C10):
//   (i)  entry-wise: |inv_glm[c][r] - cof/det| <= 8 u [K_cof S_cof + |cof| (K_det S_det/|det| + 2)] / |det|   (documented formula cof/det,
//        K = number of rounded operations on the path of one Leibniz term); determinant: 8 K_det u S_det; adjugate: 8 K_cof u S_cof.
//        A wrong sign or index moves an entry by ~2|cof|/|det|, orders of magnitude above the bound, and cancellation widens it automatically.
//   (ii) identity residual max|inverse(M)*M - I|, max|M*inverse(M) - I| (GLM's own operator*): violation above the forward bound that the entry
//        bounds of (i) imply for the rounded product. DESIGN.md planned 4 kappa^2 eps as the violation threshold; the search showed that the cofactor
//        scheme exceeds it for 4x4 (worst case ~ kappa^3 eps when sigma_2..sigma_4 << sigma_1), so both regimes are findings, not thresholds:
//        a residual above 64 kappa eps contradicts "proportional to the condition number" (DESIGN.md section 4, finding #17) and is reported under
//        the narrow keys inverse/residual-above-64-kappa-eps and inverse/residual-above-4-kappa2-eps (still inside the forward bound of cof/det).
//   inverseTranspose that equals inverse(M) entry for entry (no transposition) gets its own key, so that any other defect keeps the entry keys.
// Part 2 (C10_variants.cpp): affineInverse, operator/, qr/rq_decompose, matrix_query, diagonal*/flip*.
#include "fp.hpp"
#include "ref/refmat.hpp"
#include <glm/glm.hpp>
#include <glm/gtc/matrix_inverse.hpp>
#include <glm/gtx/matrix_operation.hpp>
#include <glm/gtx/matrix_query.hpp>

using namespace refmat;

static const char* const CK[] = {"small-integer", "unimodular", "permutation-like", "triangular", "svd", "near-singular", "random", "symmetric-diagonal"};

template <int N, class T> static glm::mat<N, N, T, glm::defaultp> G(const T m[4][4]) {
	glm::mat<N, N, T, glm::defaultp> r(T(0));
	for (int c = 0; c < N; ++c) for (int k = 0; k < N; ++k) r[c][k] = m[c][k];
	return r;
}
template <int N, class T> static void X(const glm::mat<N, N, T, glm::defaultp>& g, T m[4][4]) {
	for (int c = 0; c < 4; ++c) for (int k = 0; k < 4; ++k) m[c][k] = (c < N && k < N) ? g[c][k] : T(0);
}
static inline bool within(pbt::Ctx& c, const char* metric, R err, R tol) {
	R r = err == 0 ? 0 : err / tol;
	if (!(r == r)) r = 1e30L;
	c.metric(metric, r < 1e30L ? (double)r : 1e30);
	return err <= tol;
}
static void kappa_bin(pbt::Ctx& c, R k) {
	if (k <= 10) c.cls("kappa<=10"); else if (k <= 1e2L) c.cls("10<kappa<=1e2"); else if (k <= 1e3L) c.cls("1e2<kappa<=1e3"); else if (k <= 1e4L) c.cls("1e3<kappa<=1e4");
	else if (k <= 1e6L) c.cls("1e4<kappa<=1e6"); else c.cls("1e6<kappa<=1e8");
}
template <class T> static bool zero_sign_differs(T a, R want) { return a == 0 && want == 0 && fp::sign_bit(a); }

// =============================================================================================
template <int N, class T> static void core(pbt::Ctx& c, bool exact_only) {
	T m[4][4];
	GenOpt go;
	bool affine = false;
	int gc;
	if (exact_only) {
		static const int F[] = {MC_UNIMOD, MC_INT, MC_UNIMOD, MC_TRI};
		int k = (int)c.draw(4);
		go.force = F[k]; go.intB = max_exact_B<T>(N);
		if (N >= 3 && c.draw(4) == 0 && k != 3) { affine = true; gc = gen_affine<T>(c, N, m, go); }
		else gc = gen_matrix<T>(c, N, m, go);
	} else if (N >= 3 && c.draw(8) == 0) { affine = true; go.scale_span = 2; go.capf = 0.125L; gc = gen_affine<T>(c, N, m, go); }
	else gc = gen_matrix<T>(c, N, m);
	Ref<T> r; reference(m, N, r);
	R B = 0; const bool ints = all_integer(m, N, &B), exact = ints && exact_ok<T>(N, B);
	if (exact_only && !exact) { c.cls("not an exactness case (non-integer triangular)"); c.skip(); return; }
	if (c.verbose) c.logf("M=%s class=%s%s det=%.9Lg kappa=%.4Lg", mstr(m, N).c_str(), affine ? "affine-" : "", CK[gc], (R)r.det, r.kappa);
	const R eps = EPS<T>();
	auto M = G<N, T>(m);
	const std::string ck = std::string(affine ? "affine-" : "") + CK[gc];
	const bool structured = !is_diagonal(m, N) && !is_symmetric(m, N);

	// ---- determinant = Leibniz expansion; unchanged by transpose
	{
		T g = glm::determinant(M), gt = glm::determinant(glm::transpose(M));
		R tol = det_tol<T>(r);
		if (exact) {
			if (!((R)g == (R)r.det)) c.failk("determinant/integer-exact/" + ck, "determinant(%s)=%.17g, exact integer value %.17Lg (all intermediates < 2^%d)", mstr(m, N).c_str(), (double)g, (R)r.det, std::numeric_limits<T>::digits);
			if (!((R)gt == (R)r.det)) c.failk("determinant/transpose-integer-exact/" + ck, "determinant(transpose(%s))=%.17g, exact integer value %.17Lg", mstr(m, N).c_str(), (double)gt, (R)r.det);
			c.cls("determinant exact-integer case");
		} else {
			if (!within(c, "determinant err/tol", rabs((R)g - (R)r.det), tol))
				c.failk("determinant/leibniz/" + ck, "determinant(%s)=%.17g, Leibniz expansion %.17Lg (sum|terms| %.6Lg, bound %.3Lg)", mstr(m, N).c_str(), (double)g, (R)r.det, (R)r.Sdet, tol);
			if (!within(c, "determinant(transpose) err/tol", rabs((R)gt - (R)r.det), tol))
				c.failk("determinant/transpose/" + ck, "determinant(transpose(%s))=%.17g, determinant of M is %.17Lg (bound %.3Lg)", mstr(m, N).c_str(), (double)gt, (R)r.det, tol);
		}
		if (!r.singular && tol > 1e-2L * (R)qabs(r.det)) c.cls("determinant bound vacuous (>1e-2|det|)");
	}
	// ---- adjugate (gtx/matrix_operation): transposed cofactor matrix = det * inverse; defined for singular matrices, too
	{
		T a[4][4]; X<N, T>(glm::adjugate(M), a);
		for (int cc = 0; cc < N; ++cc) for (int k = 0; k < N; ++k) {
			R want = (R)r.adj[cc][k];
			if (exact) { if (!((R)a[cc][k] == want)) c.failk("adjugate/integer-exact/" + ck, "adjugate(%s)[%d][%d]=%.17g, exact cofactor %.17Lg", mstr(m, N).c_str(), cc, k, (double)a[cc][k], want); else if (zero_sign_differs(a[cc][k], want)) c.cls("zero-sign-differs(counted)"); }
			else if (!within(c, "adjugate entry err/tol", rabs((R)a[cc][k] - want), adj_tol<T>(r, cc, k) + 8 * DENORM<T>()))
				c.failk("adjugate/entry/" + ck, "adjugate(%s)[%d][%d]=%.17g, cofactor %.17Lg (sum|terms| %.6Lg)", mstr(m, N).c_str(), cc, k, (double)a[cc][k], want, (R)r.Sadj[cc][k]);
		}
	}
	if (r.singular) { c.cls("singular integer matrix (determinant/adjugate only)"); if (exact && structured) c.nontrivial(); return; }
	if (r.kappa > CAP<T>()) { c.cls("kappa above the cap (inverse not checked)"); if (!exact) { c.skip(); return; } if (structured) c.nontrivial(); return; }
	c.cls(affine ? "gen:affine (last row 0..0 1)" : MC_NAME[gc]);
	kappa_bin(c, r.kappa);

	// ---- inverse, entry-wise
	const R eta = det_eta<T>(r);
	const bool entry_ok = 8 * eta <= 0.5L;
	const bool unimod = exact && (R)qabs(r.det) == 1;
	T inv[4][4]; auto I = glm::inverse(M); X<N, T>(I, inv);
	T ivt[4][4]; X<N, T>(glm::inverseTranspose(M), ivt);
	R worst_rel = 0;
	// inverseTranspose returning inverse(M) itself (not transposed) is classified separately: a different defect keeps the entry keys
	// (a nearly symmetric M, where both readings are within the bound, cannot tell them apart: counted, left out of the err/tol metric)
	bool it_untransposed = false, it_ambiguous = false;
	if ((unimod || entry_ok) && !is_symmetric(m, N)) {
		bool eq_inv = true, eq_want = true;
		for (int cc = 0; cc < N; ++cc) for (int k = 0; k < N; ++k) {
			R tol = unimod ? 0 : inv_tol<T>(r, cc, k);
			if (!(rabs((R)ivt[cc][k] - (R)r.inv[cc][k]) <= tol)) eq_inv = false;
			if (!(rabs((R)ivt[k][cc] - (R)r.inv[cc][k]) <= tol)) eq_want = false;
		}
		if (eq_inv && eq_want) { it_ambiguous = true; c.cls("inverseTranspose: M symmetric within the bound (transposition not observable)"); }
		if (eq_inv && !eq_want) {
			it_untransposed = true;
			c.failk("inverseTranspose/equals-inverse-not-transposed", "inverseTranspose(M)=%s equals inverse(M) entry for entry; transpose(inverse(M)) is documented; M=%s", mstr(ivt, N).c_str(), mstr(m, N).c_str());
		}
	}
	if (unimod) {
		c.cls("inverse exact (unimodular) case");
		for (int cc = 0; cc < N; ++cc) for (int k = 0; k < N; ++k) {
			R want = (R)r.inv[cc][k];
			if (!((R)inv[cc][k] == want)) c.failk("inverse/unimodular-exact/" + ck, "inverse(%s)[%d][%d]=%.17g, exact %.17Lg", mstr(m, N).c_str(), cc, k, (double)inv[cc][k], want);
			else if (zero_sign_differs(inv[cc][k], want)) c.cls("zero-sign-differs(counted)");
			if (!it_untransposed && !((R)ivt[k][cc] == want)) c.failk("inverseTranspose/unimodular-exact/" + ck, "inverseTranspose(%s)[%d][%d]=%.17g, exact transpose(inverse) entry %.17Lg", mstr(m, N).c_str(), k, cc, (double)ivt[k][cc], want);
		}
	} else if (entry_ok) {
		for (int cc = 0; cc < N; ++cc) for (int k = 0; k < N; ++k) {
			R want = (R)r.inv[cc][k], tol = inv_tol<T>(r, cc, k);
			if (tol / r.invmax > worst_rel) worst_rel = tol / r.invmax;
			if (!within(c, "inverse entry err/tol", rabs((R)inv[cc][k] - want), tol))
				c.failk("inverse/entry/" + ck, "inverse(%s)[%d][%d]=%.17g, cofactor/determinant = %.17Lg (bound %.3Lg, kappa %.3Lg)", mstr(m, N).c_str(), cc, k, (double)inv[cc][k], want, tol, r.kappa);
			if (it_untransposed || it_ambiguous) continue;
			if (!within(c, "inverseTranspose entry err/tol", rabs((R)ivt[k][cc] - want), tol))
				c.failk("inverseTranspose/entry/" + ck, "inverseTranspose(%s)[%d][%d]=%.17g, transpose(inverse(M)) entry = %.17Lg (bound %.3Lg)", mstr(m, N).c_str(), k, cc, (double)ivt[k][cc], want, tol);
		}
	} else c.cls("entry bound vacuous (determinant cancellation, 8 eta > 1/2)");

	// ---- identity residuals with GLM's own product
	T lp[4][4], rp[4][4]; auto LP = I * M; X<N, T>(LP, lp); X<N, T>(M * I, rp);
	R el = 0, er = 0;
	for (int cc = 0; cc < N; ++cc) for (int k = 0; k < N; ++k) {
		R dl = rabs((R)lp[cc][k] - (cc == k)), dr = rabs((R)rp[cc][k] - (cc == k));
		if (!(dl == dl)) dl = INFINITY;
		if (!(dr == dr)) dr = INFINITY;
		if (dl > el) el = dl;
		if (dr > er) er = dr;
	}
	// forward bound of the residual implied by the entry bounds of the documented formula and the rounded product (x8 margin inside tol):
	//   |inverse(M)*M - I|[c][k] <= sum_j (tol[j][k] + 8 N u (|inv[j][k]| + tol[j][k])) |M[c][j]|, mirrored for M*inverse(M)
	const R k1 = r.kappa * eps, k2 = r.kappa * r.kappa * eps;
	if (unimod) {
		if (el != 0) c.failk("inverse/left-identity-unimodular-exact/" + ck, "inverse(M)*M differs from I by %.6Lg for unimodular M=%s", el, mstr(m, N).c_str());
		if (er != 0) c.failk("inverse/right-identity-unimodular-exact/" + ck, "M*inverse(M) differs from I by %.6Lg for unimodular M=%s", er, mstr(m, N).c_str());
	} else if (entry_ok) {
		R bl = 0, br = 0;
		for (int cc = 0; cc < N; ++cc) for (int k = 0; k < N; ++k) {
			R sl = 0, sr = 0;
			for (int j = 0; j < N; ++j) {
				R tl = inv_tol<T>(r, j, k), tr = inv_tol<T>(r, cc, j);
				sl += (tl + 8 * N * U<T>() * ((R)qabs(r.inv[j][k]) + tl)) * rabs((R)m[cc][j]);
				sr += (tr + 8 * N * U<T>() * ((R)qabs(r.inv[cc][j]) + tr)) * rabs((R)m[j][k]);
			}
			if (sl > bl) bl = sl;
			if (sr > br) br = sr;
		}
		for (int side = 0; side < 2; ++side) {
			R e = side ? er : el, bnd = (side ? br : bl) + 8 * DENORM<T>();
			if (bnd > 1e-2L) c.cls("residual bound vacuous (> 1e-2)");
			if (!within(c, side ? "M*inverse(M)-I err/bound" : "inverse(M)*M-I err/bound", e, bnd))
				c.failk(std::string(side ? "inverse/right-residual/" : "inverse/left-residual/") + ck, "max|%s - I| = %.6Lg exceeds the forward bound %.6Lg of cofactor/determinant (kappa %.4Lg) for M=%s", side ? "M*inverse(M)" : "inverse(M)*M", e, bnd, r.kappa, mstr(m, N).c_str());
			else if (e > 4 * k2) {
				c.cls("residual above 4 kappa^2 eps (finding #17, cubic regime)");
				c.failk("inverse/residual-above-4-kappa2-eps", "max|%s - I| = %.6Lg = %.4Lg kappa eps = %.4Lg kappa^2 eps (kappa %.4Lg; forward bound of the cofactor formula %.4Lg) for M=%s", side ? "M*inverse(M)" : "inverse(M)*M", e, e / k1, e / k2, r.kappa, bnd, mstr(m, N).c_str());
			} else if (e > 64 * k1) {
				c.cls("residual above 64 kappa eps (finding #17)");
				c.failk("inverse/residual-above-64-kappa-eps", "max|%s - I| = %.6Lg = %.4Lg kappa eps = %.4Lg kappa^2 eps (kappa %.4Lg; forward bound of the cofactor formula %.4Lg) for M=%s", side ? "M*inverse(M)" : "inverse(M)*M", e, e / k1, e / k2, r.kappa, bnd, mstr(m, N).c_str());
			}
			else if (e <= k1) c.cls("residual <= kappa eps"); else c.cls("kappa eps < residual <= 64 kappa eps");
			c.metric("finding17: residual / (64 kappa eps)", (double)(e / (64 * k1)));
			c.metric("finding17: residual / (4 kappa^2 eps)", (double)(e / (4 * k2)));
		}
	}
	// ---- gtx/matrix_query on the residual: isIdentity(inverse(M)*M, e') is decided by the measured deviation el
	if (el > 0 && el < 0.25L) {
		T hi = (T)(el * 1.5L), lo = (T)(el * 0.5L);
		if (!glm::isIdentity(LP, hi)) c.failk("isIdentity/above-deviation", "isIdentity(inverse(M)*M, %.9g) is false although every entry is within %.9Lg of the identity, M=%s", (double)hi, el, mstr(m, N).c_str());
		if (glm::isIdentity(LP, lo)) c.failk("isIdentity/below-deviation", "isIdentity(inverse(M)*M, %.9g) is true although an entry is %.9Lg away from the identity, M=%s", (double)lo, el, mstr(m, N).c_str());
	}
	if (structured && (unimod || (entry_ok && worst_rel <= 1e-2L))) c.nontrivial();
}

#define REG_CORE(N, TY, tname, q, t) \
	static void core_##N##_##tname(pbt::Ctx& c) { core<N, TY>(c, false); } \
	PBT_RANDOM("inverse_det/mat" #N "/" #tname, core_##N##_##tname, q, t, \
	           "M of size " #N " from the classes small-integer / integer-unimodular / permutation-like (+perturbation) / triangular / G1*D*G2 with kappa log-uniform in [1,cap] / kappa in [cap/2,cap] / random entries / affine / " \
	           "symmetric-or-diagonal, overall scale 2^-8..2^8 (float) 2^-30..2^30 (double), kappa_2 computed from the __float128 reference and required <= 1e4 (float) 1e8 (double); determinant, determinant(transpose), adjugate, " \
	           "inverse and inverseTranspose entry-wise against cofactor/Leibniz with the running bound of that formula, identity residuals of both sides, isIdentity on the residual; " \
	           "non-trivial = M neither diagonal nor symmetric and every entry bound <= 1e-2 max|inverse| (determinant cancellation 8 eta <= 1/2), or exact unimodular"); \
	static void exact_##N##_##tname(pbt::Ctx& c) { core<N, TY>(c, true); } \
	PBT_RANDOM("integer_exact/mat" #N "/" #tname, exact_##N##_##tname, (q) / 2, (t) / 2, \
	           "integer matrices with |entries| <= B, n! B^n <= 2^p (every intermediate of a cofactor expansion is an exactly representable integer): unimodular products of signed permutations and integer shears, " \
	           "general small-integer matrices (singular ones included for determinant/adjugate), integer triangular, affine integer; determinant, adjugate exact for all, inverse, inverseTranspose and both " \
	           "identity products exact for det = +-1; non-trivial = neither diagonal nor symmetric")
REG_CORE(2, float, float, 300000, 5000000);
REG_CORE(3, float, float, 300000, 5000000);
REG_CORE(4, float, float, 300000, 5000000);
REG_CORE(2, double, double, 300000, 5000000);
REG_CORE(3, double, double, 300000, 5000000);
REG_CORE(4, double, double, 300000, 5000000);

// =============================================================================================
// det(A*B) = det(A) det(B), evaluated on GLM's results: P = fl(A*B) (GLM operator*), |E| = |P - AB| <= n u |A||B| entry-wise, so
//   |det(P) - det A det B| <= sum |cof(P)_ij| |E_ij| (first order; the case is vacuous when this is not << |det|),
//   |glm det(P) - det(P)| <= K u S_det(P), |fl(dA*dB) - det A det B| <= K u (S_A |det B| + |det A| S_B) + u |det A det B|.   x8 margin.
template <int N, class T> static void detprod(pbt::Ctx& c) {
	T a[4][4], b[4][4];
	GenOpt go; if (c.draw(4) == 0) { go.force = c.coin() ? MC_UNIMOD : MC_INT; go.intB = c.coin() ? 3 : 8; }
	int ca = gen_matrix<T>(c, N, a, go), cb = gen_matrix<T>(c, N, b, go);
	Ref<T> ra, rb; reference(a, N, ra); reference(b, N, rb);
	if (c.verbose) c.logf("A=%s (%s) B=%s (%s)", mstr(a, N).c_str(), CK[ca], mstr(b, N).c_str(), CK[cb]);
	R Ba = 0, Bb = 0, Bp = 0;
	bool ints = all_integer(a, N, &Ba) && all_integer(b, N, &Bb);
	if (!ints && (ra.singular || rb.singular || ra.kappa > CAP<T>() || rb.kappa > CAP<T>())) { c.cls("out of range (discarded)"); c.skip(); return; }
	c.cls(MC_NAME[ca]);
	auto A = G<N, T>(a), Bm = G<N, T>(b);
	auto P = A * Bm;
	T p[4][4]; X<N, T>(P, p);
	Ref<T> rp; reference(p, N, rp);
	T dA = glm::determinant(A), dB = glm::determinant(Bm), dP = glm::determinant(P);
	T prod = dA * dB;
	const R u = U<T>();
	const R want = (R)(ra.det * rb.det);
	if (ints && all_integer(p, N, &Bp) && exact_ok<T>(N, Ba) && exact_ok<T>(N, Bb) && exact_ok<T>(N, Bp) && N * Ba * Bb <= ldexpl(1.0L, std::numeric_limits<T>::digits)) {
		c.cls("exact-integer case");
		if (!((R)dP == want) || !((R)prod == want)) c.failk("det-product/integer-exact", "determinant(A*B)=%.17g, determinant(A)*determinant(B)=%.17g, exact %.17Lg; A=%s B=%s", (double)dP, (double)prod, want, mstr(a, N).c_str(), mstr(b, N).c_str());
		if (!is_diagonal(a, N) && !is_diagonal(b, N) && want != 0) c.nontrivial();
		return;
	}
	R pert = 0;
	for (int cc = 0; cc < N; ++cc) for (int k = 0; k < N; ++k) {
		R ab = 0; for (int j = 0; j < N; ++j) ab += rabs((R)a[j][k] * (R)b[cc][j]);
		pert += (R)qabs(rp.adj[k][cc]) * N * u * ab;
	}
	R tol = 8 * (pert + K_DET[N] * u * ((R)rp.Sdet + (R)ra.Sdet * (R)qabs(rb.det) + (R)qabs(ra.det) * (R)rb.Sdet) + u * rabs(want)) + uf_floor<T>(rp, N - 1) + 8 * DENORM<T>();
	if (!(tol <= 0.1L * rabs(want))) { c.cls("bound vacuous (> 0.1 |det A det B|): product too ill-conditioned"); return; }
	if (tol <= 1e-2L * rabs(want) && !is_diagonal(a, N) && !is_diagonal(b, N)) c.nontrivial();
	if (!within(c, "det(AB) - det A det B err/tol", rabs((R)dP - (R)prod), tol))
		c.failk(std::string("det-product/multiplicative/") + CK[ca], "determinant(A*B)=%.17g but determinant(A)*determinant(B)=%.17g (exact %.17Lg, bound %.3Lg); A=%s B=%s", (double)dP, (double)prod, want, tol, mstr(a, N).c_str(), mstr(b, N).c_str());
}
#define REG_DP(N, TY, tname, q, t) \
	static void detprod_##N##_##tname(pbt::Ctx& c) { detprod<N, TY>(c); } \
	PBT_RANDOM("det_product/mat" #N "/" #tname, detprod_##N##_##tname, q, t, \
	           "pairs A,B of in-range matrices of every generator class (one quarter small-integer/unimodular pairs where everything is exact); determinant(A*B) against determinant(A)*determinant(B) within the " \
	           "first-order perturbation bound of the rounded product plus the Leibniz bounds of the three determinants; non-trivial = neither factor diagonal and the bound <= 1e-2 |det A det B|")
REG_DP(2, float, float, 150000, 2000000);
REG_DP(3, float, float, 150000, 2000000);
REG_DP(4, float, float, 150000, 2000000);
REG_DP(2, double, double, 150000, 2000000);
REG_DP(3, double, double, 150000, 2000000);
REG_DP(4, double, double, 150000, 2000000);

int main(int argc, char** argv) { return pbt::pbt_main(argc, argv, "C10"); }
