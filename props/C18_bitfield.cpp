// C18 (part 2 of 3) — gtc/bitfield: mask, bitfieldRotateRight/Left, bitfieldFillOne/Zero, bitfieldInterleave (every overload),
// bitfieldDeinterleave. Exhaustive over 8/16-bit values x every shift / every (first,count); all 2^32 16-bit pairs, all 2^24
// 8-bit triples and all 2^32 8-bit quadruples of bitfieldInterleave; structured + random elsewhere. BITS comparison.
//
// Domain decisions: mask(Bits) 0 <= Bits <= width; rotate Shift in [0,width); fill FirstBit in [0,width), BitCount >= 0,
// FirstBit+BitCount <= width. The three-operand 32-bit interleave cannot hold 96 bits in its 64-bit result: judged only when
// every placed bit (3*i+k < 64) exists, i.e. x < 2^22, y,z < 2^21; larger operands are counted, not judged.
#include "fp.hpp"
#include "ref/refc18.hpp"
#include <glm/glm.hpp>
#include <glm/ext/scalar_int_sized.hpp>
#include <glm/ext/scalar_uint_sized.hpp>
#include <glm/gtc/bitfield.hpp>

using c18::ull;

template <class T> struct Dom { static const bool small = sizeof(T) <= 2; static const uint64_t size = small ? (1ULL << (sizeof(T) * 8)) : 0; };
template <class T> static const char* tn() { return c18::TN<T>::name(); }

// =====================================================================================================
// mask
// =====================================================================================================
template <class T> static void mask_one(pbt::Ctx& c, int bits) {
	const int W = sizeof(T) * 8;
	if (c.verbose) c.logf("%s mask(%d)", tn<T>(), bits);
	if (bits > 0 && bits < W) c.nontrivial();
	if (bits == 0) c.cls("empty"); else if (bits == W) c.cls("full-width"); else if (bits == W - 1) c.cls("width-1"); else c.cls("inner");
	T want = c18::maskOf<T>(bits), got = glm::mask((T)bits);
	const char* k = bits == 0 ? "bits=0" : bits == W ? "bits=width" : "0<bits<width";
	if (got != want) C18_FAIL(c, "mask", tn<T>(), k, 0, "mask(%d)=0x%llx, expected 0x%llx", bits, ull(got), ull(want));
	int bl[4] = {bits, W - bits, (bits + 1) % (W + 1), (bits * 3 + 1) % (W + 1)};
	glm::vec<4, T> v((T)bl[0], (T)bl[1], (T)bl[2], (T)bl[3]);
	glm::vec<4, T> r = glm::mask(v);
	for (int i = 0; i < 4; ++i) {
		T w2 = c18::maskOf<T>(bl[i]);
		if (r[i] != w2) C18_FAIL(c, "mask", tn<T>(), bl[i] == 0 ? "bits=0" : bl[i] == W ? "bits=width" : "0<bits<width", 1, "vec4 lane %d: mask(%d)=0x%llx, expected 0x%llx", i, bl[i], ull(r[i]), ull(w2));
	}
	glm::vec<2, T> v2((T)bl[1], (T)bl[0]);
	glm::vec<2, T> r2 = glm::mask(v2);
	if (r2[0] != c18::maskOf<T>(bl[1]) || r2[1] != want) C18_FAIL(c, "mask", tn<T>(), k, 1, "vec2 mask(%d,%d)=(0x%llx,0x%llx)", bl[1], bl[0], ull(r2[0]), ull(r2[1]));
}
static void prop_mask(pbt::Ctx& c) {
	uint64_t i = c.draw(9 + 9 + 17 + 17 + 33 + 33 + 65 + 65);
	c18::begin_sweep_case(i);
	if (i < 9) return mask_one<glm::int8>(c, (int)i); i -= 9;
	if (i < 9) return mask_one<glm::uint8>(c, (int)i); i -= 9;
	if (i < 17) return mask_one<glm::int16>(c, (int)i); i -= 17;
	if (i < 17) return mask_one<glm::uint16>(c, (int)i); i -= 17;
	if (i < 33) return mask_one<glm::int32>(c, (int)i); i -= 33;
	if (i < 33) return mask_one<glm::uint32>(c, (int)i); i -= 33;
	if (i < 65) return mask_one<glm::int64>(c, (int)i); i -= 65;
	return mask_one<glm::uint64>(c, (int)i);
}
PBT_SWEEP("mask", prop_mask, 9 + 9 + 17 + 17 + 33 + 33 + 65 + 65, 1, 1, "every element type x every Bits in [0,width], scalar, vec2 and vec4 lanes with different counts; non-trivial = 0<Bits<width");

// =====================================================================================================
// rotate
// =====================================================================================================
template <class T> static void judge_rot(pbt::Ctx& c, bool right, T x, int s, T got, int vec) {
	const char* fn = right ? "bitfieldRotateRight" : "bitfieldRotateLeft";
	T want = right ? refint::rotr(x, s) : refint::rotl(x, s);
	if (got == want) return;
	T other = right ? refint::rotl(x, s) : refint::rotr(x, s);
	const bool neg = std::is_signed<T>::value && x < 0;
	const char* k;
	if (got == other) k = "direction-swapped";
	else k = neg ? (s == 0 ? "not-a-rotation/negative/shift=0" : "not-a-rotation/negative") : (s == 0 ? "not-a-rotation/nonnegative/shift=0" : "not-a-rotation/nonnegative");
	C18_FAIL(c, fn, tn<T>(), k, vec, "%s(0x%llx, %d)=0x%llx, expected 0x%llx (the opposite rotation is 0x%llx)", fn, ull(x), s, ull(got), ull(want), ull(other));
}
template <class T, int L> static void rot_vec(pbt::Ctx& c, T x, int s) {
	T xl[4] = {x, (T)~x, (T)(x + 1), (T)(x ^ (T)0x5a)};
	glm::vec<L, T> v;
	const int rot = (int)(ull(x) % L);
	for (int i = 0; i < L; ++i) v[i] = xl[(i + rot) % 4];
	glm::vec<L, T> rr = glm::bitfieldRotateRight(v, s), rl = glm::bitfieldRotateLeft(v, s);
	for (int i = 0; i < L; ++i) { judge_rot(c, true, v[i], s, rr[i], 1); judge_rot(c, false, v[i], s, rl[i], 1); }
}
template <class T> static void prop_rot(pbt::Ctx& c) {
	const int W = sizeof(T) * 8;
	T x; int s;
	if (Dom<T>::small) { uint64_t i = c.draw(Dom<T>::size * W); c18::begin_sweep_case(i); x = (T)(typename std::make_unsigned<T>::type)(i % Dom<T>::size); s = (int)(i / Dom<T>::size); }
	else { c18::begin_random_case(); x = fp::gen_int<T>(c); s = (int)c.draw(W); }
	if (c.verbose) c.logf("%s rotate(0x%llx, %d)", tn<T>(), ull(x), s);
	const bool observable = refint::rotl(x, s) != refint::rotr(x, s);
	if (s != 0 && observable) c.nontrivial();
	if (s == 0) c.cls("shift=0"); else if (!observable) c.cls("direction-not-observable"); else c.cls("direction-observable");
	if (std::is_signed<T>::value && x < 0) c.cls("negative");
	judge_rot(c, true, x, s, glm::bitfieldRotateRight(x, s), 0);
	judge_rot(c, false, x, s, glm::bitfieldRotateLeft(x, s), 0);
	rot_vec<T, 1>(c, x, s); rot_vec<T, 2>(c, x, s); rot_vec<T, 3>(c, x, s); rot_vec<T, 4>(c, x, s);
}

// =====================================================================================================
// fill
// =====================================================================================================
// pairs (first,count) with 0 <= first < width, 0 <= count <= width-first
static void decode_fc(uint64_t idx, int width, int* first, int* count) {
	int o = 0;
	for (;;) { uint64_t n = (uint64_t)(width - o + 1); if (idx < n) { *first = o; *count = (int)idx; return; } idx -= n; ++o; }
}
template <class T> static uint64_t nfc() { int w = sizeof(T) * 8; return (uint64_t)(w + 1) * (w + 2) / 2 - 1; }
static const char* fc_class(int first, int count) {
	if (count == 0) return "count=0";
	if (count >= 32) return "count>=32";
	if (first + count <= 31) return "end<=31";
	if (first + count == 32) return "end=32";
	if (first >= 32) return "first>=32";
	return "end>32";
}
template <class T> static void judge_fill(pbt::Ctx& c, T x, int first, int count, T one, T zero, int vec) {
	T w1 = c18::fill(x, first, count, true), w0 = c18::fill(x, first, count, false);
	const char* k = fc_class(first, count);
	if (one != w1) C18_FAIL(c, "bitfieldFillOne", tn<T>(), k, vec, "bitfieldFillOne(0x%llx, first=%d, count=%d)=0x%llx, expected 0x%llx", ull(x), first, count, ull(one), ull(w1));
	if (zero != w0) C18_FAIL(c, "bitfieldFillZero", tn<T>(), k, vec, "bitfieldFillZero(0x%llx, first=%d, count=%d)=0x%llx, expected 0x%llx", ull(x), first, count, ull(zero), ull(w0));
}
template <class T, int L> static void fill_vec(pbt::Ctx& c, T x, int first, int count) {
	T xl[4] = {x, (T)~x, (T)(x + 1), (T)(x ^ (T)0x5a)};
	glm::vec<L, T> v;
	const int rot = (int)(ull(x) % L);
	for (int i = 0; i < L; ++i) v[i] = xl[(i + rot) % 4];
	glm::vec<L, T> r1 = glm::bitfieldFillOne(v, first, count), r0 = glm::bitfieldFillZero(v, first, count);
	for (int i = 0; i < L; ++i) judge_fill(c, v[i], first, count, r1[i], r0[i], 1);
}
template <class T> static void prop_fill(pbt::Ctx& c) {
	const int W = sizeof(T) * 8;
	T x; int first, count;
	if (Dom<T>::small) { uint64_t i = c.draw(Dom<T>::size * nfc<T>()); c18::begin_sweep_case(i); x = (T)(typename std::make_unsigned<T>::type)(i % Dom<T>::size); decode_fc(i / Dom<T>::size, W, &first, &count); }
	else { c18::begin_random_case(); x = fp::gen_int<T>(c); decode_fc(c.draw(nfc<T>()), W, &first, &count); }
	if (c.verbose) c.logf("%s fill(0x%llx, first=%d, count=%d)", tn<T>(), ull(x), first, count);
	// the range must contain both a 0 and a 1 of x, so that FillOne and FillZero both change something
	if (count > 0) {
		typedef typename std::make_unsigned<T>::type U;
		U full = (U)((U)c18::maskOf<T>(count) << first), field = (U)((U)x & full);
		if (field != 0 && field != full && count < W) c.nontrivial();
	}
	c.cls(fc_class(first, count));
	judge_fill(c, x, first, count, glm::bitfieldFillOne(x, first, count), glm::bitfieldFillZero(x, first, count), 0);
	fill_vec<T, 1>(c, x, first, count); fill_vec<T, 2>(c, x, first, count); fill_vec<T, 3>(c, x, first, count); fill_vec<T, 4>(c, x, first, count);
}

#define RULE_ROT "bitfieldRotateRight/Left(x,Shift), Shift in [0,width), scalar and vec1-4; a wrong result is keyed direction-swapped when it equals the opposite rotation, else not-a-rotation; non-trivial = Shift != 0 and the two directions differ on x"
#define RULE_FILL "bitfieldFillOne/Zero(x,FirstBit,BitCount), FirstBit in [0,width), FirstBit+BitCount<=width, scalar and vec1-4; non-trivial = 0<count<width and the range of x holds both a 0 and a 1"
#define SMALL(T, N) \
	static void rot_##N(pbt::Ctx& c) { prop_rot<T>(c); } \
	PBT_SWEEP("rotate/" #N, rot_##N, Dom<T>::size * sizeof(T) * 8, 1, 1, "every value x every shift: " RULE_ROT); \
	static void fill_##N(pbt::Ctx& c) { prop_fill<T>(c); } \
	PBT_SWEEP("fill/" #N, fill_##N, Dom<T>::size* nfc<T>(), 1, 1, "every value x every (first,count): " RULE_FILL);
#define LARGE(T, N) \
	static void rot_##N(pbt::Ctx& c) { prop_rot<T>(c); } \
	PBT_RANDOM("rotate/" #N, rot_##N, 200000, 5000000, "structured/random value x uniform shift: " RULE_ROT); \
	static void fill_##N(pbt::Ctx& c) { prop_fill<T>(c); } \
	PBT_RANDOM("fill/" #N, fill_##N, 500000, 20000000, "structured/random value x uniform valid (first,count): " RULE_FILL);
SMALL(glm::int8, int8)
SMALL(glm::uint8, uint8)
SMALL(glm::int16, int16)
SMALL(glm::uint16, uint16)
LARGE(glm::int32, int32)
LARGE(glm::uint32, uint32)
LARGE(glm::int64, int64)
LARGE(glm::uint64, uint64)

// =====================================================================================================
// interleave / deinterleave
// =====================================================================================================
// table oracle for the 2^24 / 2^32 sweeps: SPn[b] puts bit i of the byte b at bit n*i. Built by a loop; the sweeps
// cross-check it against the plain double loop c18::interleave on every 4099th case.
struct Spread {
	uint16_t s2[256]; uint32_t s3[256], s4[256];
	Spread() { for (int b = 0; b < 256; ++b) { uint16_t a = 0; uint32_t t = 0, q = 0; for (int i = 0; i < 8; ++i) if ((b >> i) & 1) { a |= (uint16_t)(1u << (2 * i)); t |= 1u << (3 * i); q |= 1u << (4 * i); } s2[b] = a; s3[b] = t; s4[b] = q; } }
};
static const Spread SP;
static inline uint32_t spread16(uint16_t v) { return (uint32_t)SP.s2[v & 255] | ((uint32_t)SP.s2[v >> 8] << 16); }

template <class A, class B> static bool distinct_nontrivial(const A* a, int n, B allones) {
	for (int i = 0; i < n; ++i) { if (a[i] == 0 || a[i] == (A)allones) return false; for (int j = 0; j < i; ++j) if (a[i] == a[j]) return false; }
	return true;
}

static void prop_il_8x2(pbt::Ctx& c) {
	uint64_t i = c.draw(1ULL << 16); c18::begin_sweep_case(i);
	glm::uint8 x = (glm::uint8)(i & 255), y = (glm::uint8)(i >> 8);
	if (c.verbose) c.logf("bitfieldInterleave(uint8 0x%02x, 0x%02x); bitfieldDeinterleave(uint16 0x%04x)", (unsigned)x, (unsigned)y, (unsigned)i);
	uint64_t a[2] = {x, y};
	if (distinct_nontrivial(a, 2, 0xffu)) c.nontrivial(); else c.cls(x == y ? "operands-equal" : "operand-0-or-all-ones");
	uint16_t want = (uint16_t)c18::interleave(a, 2, 8);
	glm::uint16 g = glm::bitfieldInterleave(x, y);
	if (g != want) C18_FAIL(c, "bitfieldInterleave", "uint8x2", "", 0, "bitfieldInterleave(0x%02x,0x%02x)=0x%04x, expected 0x%04x", (unsigned)x, (unsigned)y, (unsigned)g, (unsigned)want);
	glm::int16 gs = glm::bitfieldInterleave((glm::int8)x, (glm::int8)y);
	if ((uint16_t)gs != want) C18_FAIL(c, "bitfieldInterleave", "int8x2", "", 0, "bitfieldInterleave(int8 0x%02x,0x%02x)=0x%04x, expected 0x%04x", (unsigned)x, (unsigned)y, (unsigned)(uint16_t)gs, (unsigned)want);
	glm::uint16 gv = glm::bitfieldInterleave(glm::u8vec2(x, y));
	if (gv != want) C18_FAIL(c, "bitfieldInterleave", "u8vec2", "", 0, "bitfieldInterleave(u8vec2(0x%02x,0x%02x))=0x%04x, expected 0x%04x", (unsigned)x, (unsigned)y, (unsigned)gv, (unsigned)want);
	// deinterleave of the word `i` itself (every 16-bit word), and of the reference interleaving (inverse law)
	glm::u8vec2 d = glm::bitfieldDeinterleave((glm::uint16)i);
	unsigned dx = (unsigned)c18::deinterleave2(i, 0, 8), dy = (unsigned)c18::deinterleave2(i, 1, 8);
	if (d.x != dx || d.y != dy) C18_FAIL(c, "bitfieldDeinterleave", "uint16", "", 0, "bitfieldDeinterleave(0x%04x)=(0x%02x,0x%02x), expected (0x%02x,0x%02x)", (unsigned)i, (unsigned)d.x, (unsigned)d.y, dx, dy);
	glm::u8vec2 inv = glm::bitfieldDeinterleave(g);
	if (g == want && (inv.x != x || inv.y != y)) C18_FAIL(c, "bitfieldDeinterleave", "uint16", "inverse", 0, "bitfieldDeinterleave(bitfieldInterleave(0x%02x,0x%02x))=(0x%02x,0x%02x)", (unsigned)x, (unsigned)y, (unsigned)inv.x, (unsigned)inv.y);
}
PBT_SWEEP("interleave/8x2", prop_il_8x2, 1ULL << 16, 1, 1, "every pair of bytes through bitfieldInterleave(uint8,uint8), (int8,int8), (u8vec2) and every 16-bit word through bitfieldDeinterleave; bit i of argument k at bit 2i+k; non-trivial = arguments different, neither 0 nor all-ones");

static void prop_il_16x2(pbt::Ctx& c) {
	uint64_t i = c.draw(1ULL << 32); c18::begin_sweep_case(i);
	glm::uint16 x = (glm::uint16)(i & 0xffff), y = (glm::uint16)(i >> 16);
	if (c.verbose) c.logf("bitfieldInterleave(uint16 0x%04x, 0x%04x)", (unsigned)x, (unsigned)y);
	if (x != y && x != 0 && y != 0 && x != 0xffff && y != 0xffff) c.nontrivial(); else c.cls(x == y ? "operands-equal" : "operand-0-or-all-ones");
	uint32_t want = spread16(x) | (spread16(y) << 1);
	if (i % 4099 == 0) { uint64_t a[2] = {x, y}; if ((uint32_t)c18::interleave(a, 2, 16) != want) c.fail("oracle-self-check/16x2", "table oracle disagrees with the loop oracle at (0x%04x,0x%04x)", (unsigned)x, (unsigned)y); c.cls("table-oracle-cross-checked"); }
	glm::uint32 g = glm::bitfieldInterleave(x, y);
	if (g != want) C18_FAIL(c, "bitfieldInterleave", "uint16x2", "", 0, "bitfieldInterleave(0x%04x,0x%04x)=0x%08x, expected 0x%08x", (unsigned)x, (unsigned)y, g, want);
	glm::int32 gs = glm::bitfieldInterleave((glm::int16)x, (glm::int16)y);
	if ((uint32_t)gs != want) C18_FAIL(c, "bitfieldInterleave", "int16x2", "", 0, "bitfieldInterleave(int16 0x%04x,0x%04x)=0x%08x, expected 0x%08x", (unsigned)x, (unsigned)y, (uint32_t)gs, want);
	glm::uint32 gv = glm::bitfieldInterleave(glm::u16vec2(x, y));
	if (gv != want) C18_FAIL(c, "bitfieldInterleave", "u16vec2", "", 0, "bitfieldInterleave(u16vec2(0x%04x,0x%04x))=0x%08x, expected 0x%08x", (unsigned)x, (unsigned)y, gv, want);
	// `want` runs over every 32-bit word exactly once (interleaving is a bijection), so this is bitfieldDeinterleave on all 2^32 words
	glm::u16vec2 d = glm::bitfieldDeinterleave((glm::uint32)want);
	if (d.x != x || d.y != y) C18_FAIL(c, "bitfieldDeinterleave", "uint32", "", 0, "bitfieldDeinterleave(0x%08x)=(0x%04x,0x%04x), expected (0x%04x,0x%04x)", want, (unsigned)d.x, (unsigned)d.y, (unsigned)x, (unsigned)y);
}
PBT_SWEEP("interleave/16x2", prop_il_16x2, 1ULL << 32, 4, 1, "every pair of 16-bit values (quick: one per 4) through bitfieldInterleave(uint16,uint16), (int16,int16), (u16vec2), and bitfieldDeinterleave on the reference interleaving (= every 32-bit word once); non-trivial = arguments different, neither 0 nor all-ones");

static void prop_il_8x3(pbt::Ctx& c) {
	uint64_t i = c.draw(1ULL << 24); c18::begin_sweep_case(i);
	glm::uint8 x = (glm::uint8)(i & 255), y = (glm::uint8)((i >> 8) & 255), z = (glm::uint8)(i >> 16);
	if (c.verbose) c.logf("bitfieldInterleave(uint8 0x%02x, 0x%02x, 0x%02x)", (unsigned)x, (unsigned)y, (unsigned)z);
	uint64_t a[3] = {x, y, z};
	if (distinct_nontrivial(a, 3, 0xffu)) c.nontrivial(); else c.cls("operands-not-distinct-or-0/all-ones");
	uint32_t want = SP.s3[x] | (SP.s3[y] << 1) | (SP.s3[z] << 2);
	if (i % 4099 == 0) { if ((uint32_t)c18::interleave(a, 3, 8) != want) c.fail("oracle-self-check/8x3", "table oracle disagrees with the loop oracle at index %llu", (unsigned long long)i); c.cls("table-oracle-cross-checked"); }
	glm::uint32 g = glm::bitfieldInterleave(x, y, z);
	if (g != want) C18_FAIL(c, "bitfieldInterleave", "uint8x3", "", 0, "bitfieldInterleave(0x%02x,0x%02x,0x%02x)=0x%08x, expected 0x%08x", (unsigned)x, (unsigned)y, (unsigned)z, g, want);
	glm::int32 gs = glm::bitfieldInterleave((glm::int8)x, (glm::int8)y, (glm::int8)z);
	if ((uint32_t)gs != want) C18_FAIL(c, "bitfieldInterleave", "int8x3", "", 0, "bitfieldInterleave(int8 0x%02x,0x%02x,0x%02x)=0x%08x, expected 0x%08x", (unsigned)x, (unsigned)y, (unsigned)z, (uint32_t)gs, want);
	glm::uint32 gv = glm::bitfieldInterleave(glm::u8vec3(x, y, z));
	if (gv != want) C18_FAIL(c, "bitfieldInterleave", "u8vec3", "", 0, "bitfieldInterleave(u8vec3(0x%02x,0x%02x,0x%02x))=0x%08x, expected 0x%08x", (unsigned)x, (unsigned)y, (unsigned)z, gv, want);
}
PBT_SWEEP("interleave/8x3", prop_il_8x3, 1ULL << 24, 1, 1, "every triple of bytes through bitfieldInterleave(uint8 x3), (int8 x3), (u8vec3); bit i of argument k at bit 3i+k; non-trivial = arguments pairwise different, none 0 or all-ones");

static void prop_il_8x4(pbt::Ctx& c) {
	uint64_t i = c.draw(1ULL << 32); c18::begin_sweep_case(i);
	glm::uint8 x = (glm::uint8)(i & 255), y = (glm::uint8)((i >> 8) & 255), z = (glm::uint8)((i >> 16) & 255), w = (glm::uint8)(i >> 24);
	if (c.verbose) c.logf("bitfieldInterleave(uint8 0x%02x, 0x%02x, 0x%02x, 0x%02x)", (unsigned)x, (unsigned)y, (unsigned)z, (unsigned)w);
	uint64_t a[4] = {x, y, z, w};
	if (distinct_nontrivial(a, 4, 0xffu)) c.nontrivial(); else c.cls("operands-not-distinct-or-0/all-ones");
	uint32_t want = SP.s4[x] | (SP.s4[y] << 1) | (SP.s4[z] << 2) | (SP.s4[w] << 3);
	if (i % 4099 == 0) { if ((uint32_t)c18::interleave(a, 4, 8) != want) c.fail("oracle-self-check/8x4", "table oracle disagrees with the loop oracle at index %llu", (unsigned long long)i); c.cls("table-oracle-cross-checked"); }
	glm::uint32 g = glm::bitfieldInterleave(x, y, z, w);
	if (g != want) C18_FAIL(c, "bitfieldInterleave", "uint8x4", "", 0, "bitfieldInterleave(0x%02x,0x%02x,0x%02x,0x%02x)=0x%08x, expected 0x%08x", (unsigned)x, (unsigned)y, (unsigned)z, (unsigned)w, g, want);
	glm::int32 gs = glm::bitfieldInterleave((glm::int8)x, (glm::int8)y, (glm::int8)z, (glm::int8)w);
	if ((uint32_t)gs != want) C18_FAIL(c, "bitfieldInterleave", "int8x4", "", 0, "bitfieldInterleave(int8 0x%02x,0x%02x,0x%02x,0x%02x)=0x%08x, expected 0x%08x", (unsigned)x, (unsigned)y, (unsigned)z, (unsigned)w, (uint32_t)gs, want);
	glm::uint32 gv = glm::bitfieldInterleave(glm::u8vec4(x, y, z, w));
	if (gv != want) C18_FAIL(c, "bitfieldInterleave", "u8vec4", "", 0, "bitfieldInterleave(u8vec4(0x%02x,0x%02x,0x%02x,0x%02x))=0x%08x, expected 0x%08x", (unsigned)x, (unsigned)y, (unsigned)z, (unsigned)w, gv, want);
}
PBT_SWEEP("interleave/8x4", prop_il_8x4, 1ULL << 32, 32, 1, "every quadruple of bytes (quick: one per 32) through bitfieldInterleave(uint8 x4), (int8 x4), (u8vec4); bit i of argument k at bit 4i+k; non-trivial = arguments pairwise different, none 0 or all-ones");

// wide forms: structured + random operands
template <class U> static U gen_arg(pbt::Ctx& c) {
	switch (c.draw(4)) {
	case 0: return (U)((U)1 << c.draw(sizeof(U) * 8));
	case 1: return (U)~(U)((U)1 << c.draw(sizeof(U) * 8));
	case 2: return fp::gen_int<U>(c);
	default: return (U)c.draw(0);
	}
}
static void prop_il_wide(pbt::Ctx& c) {
	c18::begin_random_case();
	// 32x2 (+ deinterleave of a 64-bit word)
	{
		glm::uint32 x = gen_arg<glm::uint32>(c), y = gen_arg<glm::uint32>(c);
		if (c.verbose) c.logf("32x2 (0x%08x,0x%08x)", x, y);
		uint64_t a[2] = {x, y};
		if (distinct_nontrivial(a, 2, 0xffffffffu)) c.nontrivial();
		uint64_t want = c18::interleave(a, 2, 32);
		glm::uint64 g = glm::bitfieldInterleave(x, y);
		if (g != want) C18_FAIL(c, "bitfieldInterleave", "uint32x2", "", 0, "bitfieldInterleave(0x%08x,0x%08x)=0x%016llx, expected 0x%016llx", x, y, (unsigned long long)g, (unsigned long long)want);
		glm::int64 gs = glm::bitfieldInterleave((glm::int32)x, (glm::int32)y);
		if ((uint64_t)gs != want) C18_FAIL(c, "bitfieldInterleave", "int32x2", "", 0, "bitfieldInterleave(int32 0x%08x,0x%08x)=0x%016llx, expected 0x%016llx", x, y, (unsigned long long)gs, (unsigned long long)want);
		glm::uint64 gv = glm::bitfieldInterleave(glm::u32vec2(x, y));
		if (gv != want) C18_FAIL(c, "bitfieldInterleave", "u32vec2", "", 0, "bitfieldInterleave(u32vec2(0x%08x,0x%08x))=0x%016llx, expected 0x%016llx", x, y, (unsigned long long)gv, (unsigned long long)want);
		glm::u32vec2 d = glm::bitfieldDeinterleave((glm::uint64)want);
		if (d.x != x || d.y != y) C18_FAIL(c, "bitfieldDeinterleave", "uint64", "", 0, "bitfieldDeinterleave(0x%016llx)=(0x%08x,0x%08x), expected (0x%08x,0x%08x)", (unsigned long long)want, d.x, d.y, x, y);
	}
	// 16x3, 16x4
	{
		glm::uint16 x = gen_arg<glm::uint16>(c), y = gen_arg<glm::uint16>(c), z = gen_arg<glm::uint16>(c), w = gen_arg<glm::uint16>(c);
		if (c.verbose) c.logf("16x3/16x4 (0x%04x,0x%04x,0x%04x,0x%04x)", (unsigned)x, (unsigned)y, (unsigned)z, (unsigned)w);
		uint64_t a[4] = {x, y, z, w};
		if (distinct_nontrivial(a, 4, 0xffffu)) c.cls("16-bit operands pairwise different");
		uint64_t w3 = c18::interleave(a, 3, 16), w4 = c18::interleave(a, 4, 16);
		glm::uint64 g3 = glm::bitfieldInterleave(x, y, z);
		if (g3 != w3) C18_FAIL(c, "bitfieldInterleave", "uint16x3", "", 0, "bitfieldInterleave(0x%04x,0x%04x,0x%04x)=0x%016llx, expected 0x%016llx", (unsigned)x, (unsigned)y, (unsigned)z, (unsigned long long)g3, (unsigned long long)w3);
		glm::int64 s3 = glm::bitfieldInterleave((glm::int16)x, (glm::int16)y, (glm::int16)z);
		if ((uint64_t)s3 != w3) C18_FAIL(c, "bitfieldInterleave", "int16x3", "", 0, "bitfieldInterleave(int16 0x%04x,0x%04x,0x%04x)=0x%016llx, expected 0x%016llx", (unsigned)x, (unsigned)y, (unsigned)z, (unsigned long long)s3, (unsigned long long)w3);
		glm::uint64 v3 = glm::bitfieldInterleave(glm::u16vec3(x, y, z));
		if (v3 != w3) C18_FAIL(c, "bitfieldInterleave", "u16vec3", "", 0, "bitfieldInterleave(u16vec3(0x%04x,0x%04x,0x%04x))=0x%016llx, expected 0x%016llx", (unsigned)x, (unsigned)y, (unsigned)z, (unsigned long long)v3, (unsigned long long)w3);
		glm::uint64 g4 = glm::bitfieldInterleave(x, y, z, w);
		if (g4 != w4) C18_FAIL(c, "bitfieldInterleave", "uint16x4", "", 0, "bitfieldInterleave(0x%04x,0x%04x,0x%04x,0x%04x)=0x%016llx, expected 0x%016llx", (unsigned)x, (unsigned)y, (unsigned)z, (unsigned)w, (unsigned long long)g4, (unsigned long long)w4);
		glm::int64 s4 = glm::bitfieldInterleave((glm::int16)x, (glm::int16)y, (glm::int16)z, (glm::int16)w);
		if ((uint64_t)s4 != w4) C18_FAIL(c, "bitfieldInterleave", "int16x4", "", 0, "bitfieldInterleave(int16 0x%04x,0x%04x,0x%04x,0x%04x)=0x%016llx, expected 0x%016llx", (unsigned)x, (unsigned)y, (unsigned)z, (unsigned)w, (unsigned long long)s4, (unsigned long long)w4);
		glm::uint64 v4 = glm::bitfieldInterleave(glm::u16vec4(x, y, z, w));
		if (v4 != w4) C18_FAIL(c, "bitfieldInterleave", "u16vec4", "", 0, "bitfieldInterleave(u16vec4(0x%04x,0x%04x,0x%04x,0x%04x))=0x%016llx, expected 0x%016llx", (unsigned)x, (unsigned)y, (unsigned)z, (unsigned)w, (unsigned long long)v4, (unsigned long long)w4);
	}
	// 32x3: 96 bits do not fit; judged when every bit has a place (x < 2^22, y,z < 2^21)
	{
		glm::uint32 x = gen_arg<glm::uint32>(c), y = gen_arg<glm::uint32>(c), z = gen_arg<glm::uint32>(c);
		if (c.draw(4) != 0) { x &= 0x3fffffu; y &= 0x1fffffu; z &= 0x1fffffu; }
		const bool fits = x < (1u << 22) && y < (1u << 21) && z < (1u << 21);
		if (c.verbose) c.logf("32x3 (0x%08x,0x%08x,0x%08x)%s", x, y, z, fits ? "" : " [bits beyond 64 - not judged]");
		uint64_t a[3] = {x, y, z};
		uint64_t want = c18::interleave(a, 3, 32);
		glm::uint64 g = glm::bitfieldInterleave(x, y, z);
		glm::int64 gs = glm::bitfieldInterleave((glm::int32)x, (glm::int32)y, (glm::int32)z);
		glm::uint64 gv = glm::bitfieldInterleave(glm::u32vec3(x, y, z));
		if (fits) {
			c.cls("32x3 fits in 64 bits (judged)");
			if (g != want) C18_FAIL(c, "bitfieldInterleave", "uint32x3", "fits", 0, "bitfieldInterleave(0x%08x,0x%08x,0x%08x)=0x%016llx, expected 0x%016llx", x, y, z, (unsigned long long)g, (unsigned long long)want);
			if ((uint64_t)gs != want) C18_FAIL(c, "bitfieldInterleave", "int32x3", "fits", 0, "bitfieldInterleave(int32 0x%08x,0x%08x,0x%08x)=0x%016llx, expected 0x%016llx", x, y, z, (unsigned long long)gs, (unsigned long long)want);
			if (gv != want) C18_FAIL(c, "bitfieldInterleave", "u32vec3", "fits", 0, "bitfieldInterleave(u32vec3(0x%08x,0x%08x,0x%08x))=0x%016llx, expected 0x%016llx", x, y, z, (unsigned long long)gv, (unsigned long long)want);
		} else {
			c.cls(g == want ? "32x3 does not fit: result = placed bits below 64 (not judged)" : "32x3 does not fit: other result (not judged)");
			if ((uint64_t)gs != g || gv != g) C18_FAIL(c, "bitfieldInterleave", "uint32x3", "overloads-disagree", 0, "uint32/int32/u32vec3 overloads disagree on (0x%08x,0x%08x,0x%08x): 0x%016llx 0x%016llx 0x%016llx", x, y, z, (unsigned long long)g, (unsigned long long)gs, (unsigned long long)gv);
		}
	}
	// deinterleave of an arbitrary 64-bit word
	{
		uint64_t wd = c.coin() ? fp::gen_int<uint64_t>(c) : c.draw(0);
		glm::u32vec2 d = glm::bitfieldDeinterleave((glm::uint64)wd);
		uint32_t dx = (uint32_t)c18::deinterleave2(wd, 0, 32), dy = (uint32_t)c18::deinterleave2(wd, 1, 32);
		if (d.x != dx || d.y != dy) C18_FAIL(c, "bitfieldDeinterleave", "uint64", "word", 0, "bitfieldDeinterleave(0x%016llx)=(0x%08x,0x%08x), expected (0x%08x,0x%08x)", (unsigned long long)wd, d.x, d.y, dx, dy);
	}
}
PBT_RANDOM("interleave/wide", prop_il_wide, 1000000, 80000000, "single bits, single zeros, structured and random operands through the 32x2, 16x3, 16x4, 32x3 forms (unsigned, signed, vector) and bitfieldDeinterleave(uint64); 32x3 judged when all placed bits exist (x<2^22, y,z<2^21); non-trivial = the 32x2 operands differ and are neither 0 nor all-ones");
