// C01 (relational functions, ext twins, matrix versions, gtx/component_wise)
//  * glm/vector_relational.hpp: lessThan lessThanEqual greaterThan greaterThanEqual equal notEqual (every element type) against the
//    built-in comparison per component; any / all / not_ against the fold of the components.
//  * glm/ext/vector_common.hpp vs glm/ext/scalar_common.hpp: 3/4-argument min max fmin fmax, fmin/fmax(vec,scalar), fclamp, the wrap
//    modes clamp repeat mirrorClamp mirrorRepeat, iround uround.
//  * glm/ext/vector_relational.hpp vs glm/ext/scalar_relational.hpp: equal / notEqual with epsilon (scalar and vector epsilon) and with
//    ULPs (int and ivec).
//  (the matrix versions are in C01_matrix.cpp)
//  * glm/gtx/component_wise.hpp: compAdd compMul compMin compMax fcompMin fcompMax (fold of the scalar operation), compNormalize /
//    compScale (vec<L> component i against the vec<1> instance on x_i).
#include "fp.hpp"
#include "ref/c01_support.hpp"
#include <glm/glm.hpp>
#include <glm/ext/scalar_int_sized.hpp>
#include <glm/ext/scalar_uint_sized.hpp>
#include <glm/ext/scalar_common.hpp>
#include <glm/ext/vector_common.hpp>
#include <glm/ext/scalar_relational.hpp>
#include <glm/ext/vector_relational.hpp>
#include <glm/gtx/component_wise.hpp>
#include "c01_have.hpp"

#ifndef C01_TIER
#define C01_TIER 0
#endif
#ifndef C01_EXT_PART
#define C01_EXT_PART 1  // 1: relational + min/max + component_wise folds on every element type (this file), 2: floating-point ext twins (C01_ext_b.cpp)
#endif
using namespace c01;
namespace c01 { struct Fn_relational {}; struct Fn_min3 {}; struct Fn_max3 {}; struct Fn_compAddMul {}; }

template <class T> static long double ld(T v) { return (long double)v; }
template <class T> static long double eps_() { return (long double)std::numeric_limits<T>::epsilon(); }

#if C01_EXT_PART == 1
// ---- relational functions + 3/4-argument min/max + component_wise folds, every element type ------------------------
template <class T, int L, glm::qualifier Q> static void run_rel(pbt::Ctx& c, const Inst& in) {
	typedef glm::vec<L, T, Q> V;
	typedef glm::vec<L, bool, Q> B;
	FnCtx fc(c, in);
	T x[4], y[4], z[4], w[4];
	fill(c, x, L, [&] { return gen_any<T>(c); });
	fill(c, y, L, [&] { return gen_any<T>(c); });
	fill(c, z, L, [&] { return gen_nonnan<T>(c); });
	fill(c, w, L, [&] { return gen_nonnan<T>(c); });
	for (int i = 0; i < L; ++i) if (c.draw(3) == 0) y[i] = x[i];  // equal lanes
	if (c.verbose) c.logf("%s x=%s y=%s z=%s w=%s", in.name.c_str(), showv(x, L).c_str(), showv(y, L).c_str(), showv(z, L).c_str(), showv(w, L).c_str());
	if constexpr (HaveFn<Fn_relational, T>::v) {
		struct R { const char* name; B got; bool want[4]; };
		V vx = mkv<V>(x), vy = mkv<V>(y);
		R rs[6] = {{"lessThan", glm::lessThan(vx, vy), {}}, {"lessThanEqual", glm::lessThanEqual(vx, vy), {}}, {"greaterThan", glm::greaterThan(vx, vy), {}},
		           {"greaterThanEqual", glm::greaterThanEqual(vx, vy), {}}, {"equal", glm::equal(vx, vy), {}}, {"notEqual", glm::notEqual(vx, vy), {}}};
		int nlt = 0, neq = 0;
		for (int i = 0; i < L; ++i) {
			rs[0].want[i] = x[i] < y[i]; rs[1].want[i] = x[i] <= y[i]; rs[2].want[i] = x[i] > y[i]; rs[3].want[i] = x[i] >= y[i]; rs[4].want[i] = x[i] == y[i]; rs[5].want[i] = x[i] != y[i];
			nlt += x[i] < y[i]; neq += x[i] == y[i];
		}
		for (auto& r : rs) for (int i = 0; i < L; ++i) if (r.got[i] != r.want[i]) {
			c.failk(key(r.name, "vec.vec", L, in.tn), "%s: %s(%s, %s) component %d = %d, the built-in comparison of component %d gives %d", in.name.c_str(), r.name, showv(x, L).c_str(), showv(y, L).c_str(), i, (int)r.got[i], i, (int)r.want[i]);
			break;
		}
		if (L >= 2 && ((nlt > 0 && nlt < L) || (neq > 0 && neq < L))) { fc.nontriv = true; c.cls("relational: outcomes differ between lanes"); }
	}
	if constexpr (!std::is_same<T, bool>::value) {
		// 3 / 4 argument min, max (ext/vector_common vs ext/scalar_common), non-NaN operands
		T a[4]; for (int i = 0; i < L; ++i) a[i] = isnan_(x[i]) ? z[i] : x[i];
		T b[4]; for (int i = 0; i < L; ++i) b[i] = isnan_(y[i]) ? w[i] : y[i];
		if constexpr (HaveFn<Fn_min3, T>::v) { fn3<V, 1>(fc, "min3", JValue(), a, b, z, T(0), T(0), C01_F3(min), "min3"); fn4<V>(fc, "min4", JValue(), a, b, z, w, C01_F4(min), "min4"); }
		if constexpr (HaveFn<Fn_max3, T>::v) { fn3<V, 1>(fc, "max3", JValue(), a, b, z, T(0), T(0), C01_F3(max), "max3"); fn4<V>(fc, "max4", JValue(), a, b, z, w, C01_F4(max), "max4"); }
		// gtx/component_wise folds (overflow-free / moderate operands)
		if constexpr (HaveFn<Fn_compAddMul, T>::v) {
			T m[4];
			if constexpr (is_int<T>::v) {  // |m| < 2^((W-2)/4): the product of four components cannot overflow
				const int64_t hi = (int64_t(1) << ((sizeof(T) * 8 - 2) / 4)) - 1 + (sizeof(T) == 1 ? 1 : 0);
				for (int i = 0; i < L; ++i) m[i] = (T)c.range(std::is_signed<T>::value ? -hi : 0, hi);
			} else
				for (int i = 0; i < L; ++i) m[i] = gen_mod<T>(c, 6, 6);
			T sum = m[0], prod = m[0], mn = a[0], mx = a[0];
			long double asum = fabsl(ld(m[0]));
			for (int i = 1; i < L; ++i) { sum = (T)(sum + m[i]); prod = (T)(prod * m[i]); asum += fabsl(ld(m[i])); mn = glm::min(mn, a[i]); mx = glm::max(mx, a[i]); }
			T gs = glm::compAdd(mkv<V>(m)), gp = glm::compMul(mkv<V>(m)), gmn = glm::compMin(mkv<V>(a)), gmx = glm::compMax(mkv<V>(a));
			if constexpr (is_fp<T>::v) {
				if (!within<T>(c, "compAdd err/tol", gs, sum, 8 * eps_<T>() * asum)) c.failk(key("compAdd", "vec", L, in.tn), "%s: compAdd(%s) = %s, sum of the components = %s", in.name.c_str(), showv(m, L).c_str(), show(gs).c_str(), show(sum).c_str());
				if (!within<T>(c, "compMul err/tol", gp, prod, 8 * eps_<T>() * fabsl(ld(prod)) + 4 * (long double)std::numeric_limits<T>::denorm_min())) c.failk(key("compMul", "vec", L, in.tn), "%s: compMul(%s) = %s, product of the components = %s", in.name.c_str(), showv(m, L).c_str(), show(gp).c_str(), show(prod).c_str());
			} else {
				if (gs != sum) c.failk(key("compAdd", "vec", L, in.tn), "%s: compAdd(%s) = %s, sum of the components = %s", in.name.c_str(), showv(m, L).c_str(), show(gs).c_str(), show(sum).c_str());
				if (gp != prod) c.failk(key("compMul", "vec", L, in.tn), "%s: compMul(%s) = %s, product of the components = %s", in.name.c_str(), showv(m, L).c_str(), show(gp).c_str(), show(prod).c_str());
			}
			static const char* AT[4] = {"extreme-at-0", "extreme-at-1", "extreme-at-2", "extreme-at-3"};
			int imn = 0, imx = 0; for (int i = 1; i < L; ++i) { if (a[i] < a[imn]) imn = i; if (a[i] > a[imx]) imx = i; }
			if (!match<T>(c, VALUE, gmn, mn)) c.failk(key("compMin", "vec", L, in.tn, AT[imn]), "%s: compMin(%s) = %s, smallest component = %s", in.name.c_str(), showv(a, L).c_str(), show(gmn).c_str(), show(mn).c_str());
			if (!match<T>(c, VALUE, gmx, mx)) c.failk(key("compMax", "vec", L, in.tn, AT[imx]), "%s: compMax(%s) = %s, largest component = %s", in.name.c_str(), showv(a, L).c_str(), show(gmx).c_str(), show(mx).c_str());
			if (L >= 2 && distinct(a, L)) { fc.nontriv = true; c.cls(AT[imn]); c.cls("component_wise folds"); }
		}
	} else {
		// bvec: any, all, not_
		bool any = false, all = true;
		for (int i = 0; i < L; ++i) { any = any || x[i]; all = all && x[i]; }
		B vx = mkv<B>(x), nt = glm::not_(vx);
		if (glm::any(vx) != any) c.failk(key("any", "bvec", L, in.tn), "%s: any(%s) = %d", in.name.c_str(), showv(x, L).c_str(), (int)glm::any(vx));
		if (glm::all(vx) != all) c.failk(key("all", "bvec", L, in.tn), "%s: all(%s) = %d", in.name.c_str(), showv(x, L).c_str(), (int)glm::all(vx));
		for (int i = 0; i < L; ++i) if (nt[i] != !x[i]) { c.failk(key("not_", "bvec", L, in.tn), "%s: not_(%s) component %d = %d", in.name.c_str(), showv(x, L).c_str(), i, (int)nt[i]); break; }
		if (L >= 2 && any && !all) { fc.nontriv = true; c.cls("bvec: mixed lanes"); }
	}
	if (fc.nontriv) c.nontrivial();
}

#else
// ---- ext twins on floating-point types --------------------------------------------------------------------------------
template <class T> static T gen_qnan_or(pbt::Ctx& c, T v) { return c.draw(5) == 0 ? std::numeric_limits<T>::quiet_NaN() : v; }

template <class T, int L, glm::qualifier Q> static void run_extfp(pbt::Ctx& c, const Inst& in) {
	typedef glm::vec<L, T, Q> V;
	typedef glm::vec<L, bool, Q> B;
	typedef glm::vec<L, int, Q> I;
	FnCtx fc(c, in);
	T a[4], b[4], d[4], e[4], md[4], nneg[4];
	// quiet NaNs only (C11 F.2.1 leaves fmin/fmax on signalling NaNs unspecified)
	fill(c, a, L, [&] { return gen_qnan_or<T>(c, gen_nonnan<T>(c)); });
	fill(c, b, L, [&] { return gen_qnan_or<T>(c, gen_nonnan<T>(c)); });
	fill(c, d, L, [&] { return gen_qnan_or<T>(c, gen_nonnan<T>(c)); });
	fill(c, e, L, [&] { return gen_qnan_or<T>(c, gen_nonnan<T>(c)); });
	fill(c, md, L, [&] { return gen_mod<T>(c, 8, 8); });
	fill(c, nneg, L, [&] {
		T v;
		switch (c.draw(6)) {
		case 0: v = std::nextafter(T(0.5), T(0)) + (T)c.range(0, 3); break;                                  // the largest value below a tie
		case 1: { const int mant = std::numeric_limits<T>::digits; double lo = std::ldexp(1.0, mant - 1); v = (T)(lo + 1.0 + 2.0 * (double)c.draw(1000)); break; }  // odd integers in [2^(p-1), 2^p): x + 0.5 is a tie there
		case 2: v = (T)((double)c.range(0, 200) * 0.5); break;
		default: v = std::fabs(gen_mod<T>(c, 8, 20)); break;
		}
		return v < T(2147483000.0) ? v : T(1.5); });
	T s = gen_nonnan<T>(c), t = gen_nonnan<T>(c);
	if (c.verbose) c.logf("%s a=%s b=%s c=%s d=%s m=%s nonneg=%s s=%s t=%s", in.name.c_str(), showv(a, L).c_str(), showv(b, L).c_str(), showv(d, L).c_str(), showv(e, L).c_str(), showv(md, L).c_str(), showv(nneg, L).c_str(), show(s).c_str(), show(t).c_str());
	{ int nn = 0; for (int i = 0; i < L; ++i) nn += fp::is_nan(a[i]) || fp::is_nan(b[i]); if (nn > 0 && nn < L) c.cls("fmin/fmax: NaN in some lanes only"); }
	fn2<V, 3>(fc, "fmin", JValue(), a, b, s, C01_F2(fmin), "fmin");
	fn2<V, 3>(fc, "fmax", JValue(), a, b, s, C01_F2(fmax), "fmax");
	fn3<V, 1>(fc, "fmin3", JValue(), a, b, d, T(0), T(0), C01_F3(fmin), "fmin3");
	fn3<V, 1>(fc, "fmax3", JValue(), a, b, d, T(0), T(0), C01_F3(fmax), "fmax3");
	fn4<V>(fc, "fmin4", JValue(), a, b, d, e, C01_F4(fmin), "fmin4");
	fn4<V>(fc, "fmax4", JValue(), a, b, d, e, C01_F4(fmax), "fmax4");
	{
		T lo[4], hi[4], slo = s, shi = t;
		for (int i = 0; i < L; ++i) { lo[i] = fp::is_nan(b[i]) ? T(-1) : b[i]; hi[i] = fp::is_nan(d[i]) ? T(1) : d[i]; if (hi[i] < lo[i]) std::swap(lo[i], hi[i]); }
		if (shi < slo) std::swap(slo, shi);
		fn3<V, 3>(fc, "fclamp", JValue(), a, lo, hi, slo, shi, C01_F3(fclamp), "fclamp");
	}
	// wrap modes (finite texture coordinates)
	fn1<V>(fc, "clamp01", JBits(), md, C01_F1(clamp), "clamp(texcoord)");
	fn1<V>(fc, "repeat", JBits(), md, C01_F1(repeat), "repeat");
	fn1<V>(fc, "mirrorClamp", JBits(), md, C01_F1(mirrorClamp), "mirrorClamp");
	fn1<V>(fc, "mirrorRepeat", JBits(), md, C01_F1(mirrorRepeat), "mirrorRepeat");
	// iround / uround: documented for x >= 0 (assert), x + 0.5 inside the integer range
	fn1<V>(fc, "iround", JBits(), nneg, C01_F1(iround), "iround");
	fn1<V>(fc, "uround", JBits(), nneg, C01_F1(uround), "uround");

	// equal / notEqual with epsilon: pairs at distance ~epsilon
	{
		T x[4], y[4], ep[4], sep = (T)std::ldexp(1.0, -(int)c.range(0, 20));
		for (int i = 0; i < L; ++i) {
			x[i] = md[i]; ep[i] = (T)std::ldexp(1.0, -(int)c.range(0, 20));
			switch (c.draw(5)) { case 0: y[i] = x[i]; break; case 1: y[i] = x[i] + ep[i]; break; case 2: y[i] = x[i] - sep; break; case 3: y[i] = x[i] + ep[i] * T(1.5); break; default: y[i] = x[i] + sep * T(0.5); }
		}
		B e1 = glm::equal(mkv<V>(x), mkv<V>(y), sep), n1 = glm::notEqual(mkv<V>(x), mkv<V>(y), sep), e2 = glm::equal(mkv<V>(x), mkv<V>(y), mkv<V>(ep)), n2 = glm::notEqual(mkv<V>(x), mkv<V>(y), mkv<V>(ep));
		int ne = 0;
		for (int i = 0; i < L; ++i) {
			bool w1 = glm::equal(x[i], y[i], sep), w2 = glm::equal(x[i], y[i], ep[i]), v1 = glm::notEqual(x[i], y[i], sep), v2 = glm::notEqual(x[i], y[i], ep[i]);
			ne += w2;
			if (e1[i] != w1 || n1[i] != v1) { c.failk(key("equal-epsilon", "vec.vec.scalar", L, in.tn), "%s: equal/notEqual(%s, %s, eps=%s) component %d = %d/%d, scalar overload gives %d/%d", in.name.c_str(), showv(x, L).c_str(), showv(y, L).c_str(), show(sep).c_str(), i, (int)e1[i], (int)n1[i], (int)w1, (int)v1); break; }
			if (e2[i] != w2 || n2[i] != v2) { c.failk(key("equal-epsilon", "vec.vec.vec", L, in.tn), "%s: equal/notEqual(%s, %s, eps=%s) component %d = %d/%d, scalar overload gives %d/%d", in.name.c_str(), showv(x, L).c_str(), showv(y, L).c_str(), showv(ep, L).c_str(), i, (int)e2[i], (int)n2[i], (int)w2, (int)v2); break; }
		}
		if (L >= 2 && ne > 0 && ne < L) { fc.nontriv = true; c.cls("equal-epsilon: outcomes differ between lanes"); }
	}
	// equal / notEqual in ULPs: pairs a few representable steps apart, same sign and across zero
	{
		typedef typename fp::bits_of<T>::S SI;
		T x[4], y[4]; int ul[4], su = (int)c.draw(6);
		for (int i = 0; i < L; ++i) {
			x[i] = (c.draw(4) == 0) ? (T)(0.0 * (c.coin() ? 1 : -1)) : (fp::is_finite(md[i]) ? md[i] : T(1));
			ul[i] = (int)c.draw(6);
			SI o = fp::ordered<T>(x[i]) + (SI)c.range(-8, 8);
			y[i] = fp::from_ordered<T>(o);
			if (c.draw(8) == 0) y[i] = -x[i];
		}
		I vu; for (int i = 0; i < L; ++i) vu[i] = ul[i];
		B e1 = glm::equal(mkv<V>(x), mkv<V>(y), su), n1 = glm::notEqual(mkv<V>(x), mkv<V>(y), su), e2 = glm::equal(mkv<V>(x), mkv<V>(y), vu), n2 = glm::notEqual(mkv<V>(x), mkv<V>(y), vu);
		int ne = 0;
		for (int i = 0; i < L; ++i) {
			bool w1 = glm::equal(x[i], y[i], su), w2 = glm::equal(x[i], y[i], ul[i]), v1 = glm::notEqual(x[i], y[i], su), v2 = glm::notEqual(x[i], y[i], ul[i]);
			ne += w2;
			const bool opp = fp::sign_bit(x[i]) != fp::sign_bit(y[i]);
			const char* cls = !opp ? "same-sign" : ((x[i] == 0 && y[i] == 0) ? "signed-zeros" : (x[i] == -y[i] ? "opposite-sign-equal-magnitude" : "opposite-signs"));
			if (e1[i] != w1 || n1[i] != v1) c.failk(std::string("equal-ulps/vec.vec.int/") + in.tn + "/" + cls, "%s: equal/notEqual(%s, %s, %d ULPs) component %d = %d/%d, scalar overload equal(%s, %s, %d) gives %d/%d", in.name.c_str(), showv(x, L).c_str(), showv(y, L).c_str(), su, i, (int)e1[i], (int)n1[i], show(x[i]).c_str(), show(y[i]).c_str(), su, (int)w1, (int)v1);
			if (e2[i] != w2 || n2[i] != v2) c.failk(std::string("equal-ulps/vec.vec.ivec/") + in.tn + "/" + cls, "%s: equal/notEqual(%s, %s, %s ULPs) component %d = %d/%d, scalar overload equal(%s, %s, %d) gives %d/%d", in.name.c_str(), showv(x, L).c_str(), showv(y, L).c_str(), showv(ul, L).c_str(), i, (int)e2[i], (int)n2[i], show(x[i]).c_str(), show(y[i]).c_str(), ul[i], (int)w2, (int)v2);
			c.cls(opp ? "equal-ulps: opposite-sign lane" : "equal-ulps: same-sign lane");
		}
		if (L >= 2 && ne > 0 && ne < L) { fc.nontriv = true; c.cls("equal-ulps: outcomes differ between lanes"); }
	}
	// gtx/component_wise: fcompMin / fcompMax skip NaNs (fold of fmin / fmax)
	{
		T mn = a[0], mx = a[0];
		for (int i = 1; i < L; ++i) { mn = glm::fmin(mn, a[i]); mx = glm::fmax(mx, a[i]); }
		T gmn = glm::fcompMin(mkv<V>(a)), gmx = glm::fcompMax(mkv<V>(a));
		if (!match<T>(c, VALUE, gmn, mn)) c.failk(key("fcompMin", "vec", L, in.tn), "%s: fcompMin(%s) = %s, fold of fmin = %s", in.name.c_str(), showv(a, L).c_str(), show(gmn).c_str(), show(mn).c_str());
		if (!match<T>(c, VALUE, gmx, mx)) c.failk(key("fcompMax", "vec", L, in.tn), "%s: fcompMax(%s) = %s, fold of fmax = %s", in.name.c_str(), showv(a, L).c_str(), show(gmx).c_str(), show(mx).c_str());
	}
	// compNormalize / compScale: no scalar overload; component i against the vec<1> instance
	if constexpr (std::is_same<T, float>::value) {
		typedef glm::vec<L, glm::uint8, Q> U8; typedef glm::vec<L, glm::int16, Q> I16; typedef glm::vec<1, glm::uint8, Q> U81; typedef glm::vec<1, glm::int16, Q> I161; typedef glm::vec<1, float, Q> F1;
		glm::uint8 u8[4]; glm::int16 i16[4]; float un[4];
		for (int i = 0; i < L; ++i) { u8[i] = (glm::uint8)c.draw(256); i16[i] = (glm::int16)(uint16_t)c.draw(65536); un[i] = (float)c.unit(); }
		V n8 = glm::compNormalize<float>(mkv<U8>(u8)), n16 = glm::compNormalize<float>(mkv<I16>(i16));
		U8 s8 = glm::compScale<glm::uint8>(mkv<V>(un)); I16 s16 = glm::compScale<glm::int16>(mkv<V>(un));
		for (int i = 0; i < L; ++i) {
			float w8 = glm::compNormalize<float>(U81(u8[i])).x, w16 = glm::compNormalize<float>(I161(i16[i])).x;
			if (!eq_bits(n8[i], w8) || !eq_bits(n16[i], w16)) { c.failk(key("compNormalize", "vec", L, in.tn), "%s: compNormalize component %d differs from the vec1 instance (u8 %u -> %a vs %a, i16 %d -> %a vs %a)", in.name.c_str(), i, (unsigned)u8[i], n8[i], w8, (int)i16[i], n16[i], w16); break; }
			glm::uint8 v8 = glm::compScale<glm::uint8>(F1(un[i])).x; glm::int16 v16 = glm::compScale<glm::int16>(F1(un[i])).x;
			if (s8[i] != v8 || s16[i] != v16) { c.failk(key("compScale", "vec", L, in.tn), "%s: compScale(%s) component %d differs from the vec1 instance (u8 %u vs %u, i16 %d vs %d)", in.name.c_str(), showv(un, L).c_str(), i, (unsigned)s8[i], (unsigned)v8, (int)s16[i], (int)v16); break; }
		}
		if (L >= 2 && distinct(u8, L)) c.cls("compNormalize/compScale");
	}
	if (fc.nontriv) c.nontrivial();
}

#endif
// ---- registration ---------------------------------------------------------------------------------------------------------------
#if C01_EXT_PART == 1
static Table& tab_rel() { static Table t; return t; }
static void prop_rel(pbt::Ctx& c) { Table& t = tab_rel(); const Inst& in = t[c.draw(t.size())]; in.run(c, in); }
static int reg_all() {
	C01_REG(tab_rel(), run_rel, float) C01_REG(tab_rel(), run_rel, double) C01_REG(tab_rel(), run_rel, glm::int32) C01_REG(tab_rel(), run_rel, glm::uint32) C01_REG(tab_rel(), run_rel, glm::int8) C01_REG(tab_rel(), run_rel, glm::uint64)
#if C01_TIER
	C01_REG(tab_rel(), run_rel, glm::uint8) C01_REG(tab_rel(), run_rel, glm::int16) C01_REG(tab_rel(), run_rel, glm::uint16) C01_REG(tab_rel(), run_rel, glm::int64) C01_REG(tab_rel(), run_rel, bool)
#endif
	add_target("relational-minmax-componentwise", prop_rel, tab_rel().size(), 30000, 800000,
	           "instance = vec<L,T,Q> for every element type (bool in the thorough tier); lessThan lessThanEqual greaterThan greaterThanEqual equal notEqual against the built-in comparison (NaN, +-0, equal lanes planted), "
	           "any all not_ on bvec, 3/4-argument min max (non-NaN), gtx compAdd compMul (overflow-free) compMin compMax; non-trivial = L >= 2 and the comparison outcomes differ between lanes / pairwise distinct components");
	return 0;
}
static const int reg_ext = reg_all();
#else
static Table& tab_ext() { static Table t; return t; }
static void prop_ext(pbt::Ctx& c) { Table& t = tab_ext(); const Inst& in = t[c.draw(t.size())]; in.run(c, in); }
static int reg_all() {
	C01_REG(tab_ext(), run_extfp, float) C01_REG(tab_ext(), run_extfp, double)
	add_target("ext-common-relational", prop_ext, tab_ext().size(), 30000, 800000,
	           "instance = vec<L,float|double,Q>; fmin fmax (vec.vec, vec.scalar, 3 and 4 arguments, quiet NaN in about 1 lane of 5) fclamp, clamp/repeat/mirrorClamp/mirrorRepeat on finite coordinates, iround uround (x >= 0), "
	           "equal/notEqual with scalar and vector epsilon on pairs at distance ~epsilon, equal/notEqual in ULPs (int and ivec) on pairs 0..8 steps apart incl. across zero, fcompMin fcompMax, compNormalize compScale; "
	           "non-trivial = L >= 2, pairwise distinct components with pairwise distinct scalar results / outcomes differ between lanes");
	return 0;
}
static const int reg_ext_b = reg_all();
#endif
