// C02 — matrix operators and functions implement textbook column-major linear algebra for all nine shapes.
//
// This file is the whole harness; it is compiled several times (C02_PART selects the element types of one translation
// unit, see the part files C02_part_*.cpp which only define C02_PART and include this file; part 0 owns main()).
//
// Families (one target per family and element-type group; every case first draws the concrete instance):
//   mul      27 products mat<C,R> * mat<C2,C>  (+ the square compound  m *= m)
//   mulvec   9 mat<C,R> * vec<C>  and  9 vec<R> * mat<C,R>
//   func     transpose, outerProduct, matrixCompMult for the 9 shapes (integer types through ext/matrix_integer.hpp)
//   elem     m+s m-s m*s s*m m/s s/m m+m m-m -m +m (square: s+m s-m), compound += -= *= /= with scalar and matrix (same and
//            other scalar type U), ++ -- prefix/postfix, == !=, operator=(mat<U>)
//   access   operator[] (const and not) against the column-major byte image, gtc row()/column() get and set, length()
//   convert  81 shape conversions (same-shape slot: scalar / element-list / column / mixed-type / cross-type / cross-qualifier constructors)
//   gtx      rowMajorN / colMajorN (vectors and matrix), matrixCross3/4, diagonalCxR, adjugate, determinant (exact classes)
//   div      square m/m, m/=m, m/v, v/m with exactly invertible divisors (signed permutations scaled by powers of two)
// Oracle: engine/ref/reflinalg.hpp (triple loops over plain arrays, integers in 128-bit modular arithmetic, floating types in
// long double). Value classes: small-int (pairwise distinct non-zero small integers: every product and sum is exact in every element
// type), dyadic (k*2^e, exact), large (signed 32/64-bit, no overflow), wrap (unsigned and 8/16-bit types: the modular result),
// general (finite floats of mixed magnitude 2^-30..2^30: |err| <= 8 K u sum|a_k b_k| for a length-K inner product, single
// operations must be the correctly rounded IEEE result), zeros (0, -0, +-1, 2 with repeats).
#ifndef C02_PART
#define C02_PART 0
#endif
#include "fp.hpp"
#include "ref/reflinalg.hpp"
#include <glm/glm.hpp>
#include <glm/ext/matrix_integer.hpp>
#include <glm/ext/scalar_int_sized.hpp>
#include <glm/ext/scalar_uint_sized.hpp>
#include <glm/gtc/matrix_access.hpp>
#include <glm/gtx/matrix_operation.hpp>
#include <glm/gtx/matrix_major_storage.hpp>
#include <glm/gtx/matrix_cross_product.hpp>
#include <utility>

#define NOINLINE __attribute__((noinline))
namespace rl = reflinalg;
using rl::Mx;
using rl::Vx;
typedef long double LD;

// =============================================================================================
// element types, names, value classes
template <class T> struct TN;
#define TNAME(T_, N_) template <> struct TN<T_> { static const char* name() { return N_; } };
TNAME(float, "float") TNAME(double, "double") TNAME(glm::int8, "int8") TNAME(glm::uint8, "uint8") TNAME(glm::int16, "int16") TNAME(glm::uint16, "uint16")
TNAME(glm::int32, "int32") TNAME(glm::uint32, "uint32") TNAME(glm::int64, "int64") TNAME(glm::uint64, "uint64")
template <class T, glm::qualifier Q> static const std::string& tqn() {
	static const std::string s = std::string(TN<T>::name()) + (Q == glm::highp ? "" : Q == glm::mediump ? ".mediump" : ".lowp");
	return s;
}
static std::string shp(int C, int Rw) { char b[24]; snprintf(b, sizeof b, "mat%dx%d", C, Rw); return b; }

// ---- instantiation units. Every GLM expression of this harness sits in `if constexpr (HAVE(kind, s1, s2))`; the generated header
// c02_have.hpp (syntax-only pre-pass of lib/specs/C02.py, which compiles this very file with C02_PROBE and its own c02_have) lists the
// units whose body does not instantiate for an element type; they are skipped here and reported by the `instantiation` target.
enum { K_MUL, K_MULC, K_MV, K_VM, K_TRANSPOSE, K_OUTER, K_COMPMULT, K_ELEM, K_ACCESS, K_CONV, K_CTOR, K_SQUARE, K_CROSS, K_DIAG, K_DIV, K_COUNT };
#ifndef C02_PROBE
#include "c02_have.hpp"  // constexpr bool c02_have(int kind, int s1, int s2, int ty); C02_MISSING(X); C02_UNITS_PROBED
#endif
template <class T> struct TBase;
#define TBASE(T_, I_) template <> struct TBase<T_> { static const int id = I_; };
TBASE(float, 0) TBASE(double, 1) TBASE(glm::int8, 2) TBASE(glm::uint8, 3) TBASE(glm::int16, 4) TBASE(glm::uint16, 5) TBASE(glm::int32, 6) TBASE(glm::uint32, 7) TBASE(glm::int64, 8) TBASE(glm::uint64, 9)
template <class T, glm::qualifier Q> constexpr int tyid() { return TBase<T>::id + 16 * (Q == glm::highp ? 0 : Q == glm::mediump ? 1 : 2); }
constexpr int shx(int C, int Rw) { return (C - 2) * 3 + (Rw - 2); }
#define HAVE(kind, s1, s2) c02_have(kind, s1, s2, tyid<T, Q>())

enum { VC_SMALL = 0, VC_ALT = 1, VC_GENERAL = 2, VC_ZEROS = 3 };
enum { ALT_DYADIC, ALT_LARGE, ALT_WRAP };
template <class T> struct VT {
	static const bool flt = std::is_floating_point<T>::value;
	static const bool sgn = std::is_signed<T>::value;
	static const int bits = sizeof(T) * 8;
	static const int alt = flt ? ALT_DYADIC : ((sgn && bits >= 32) ? ALT_LARGE : ALT_WRAP);
	// largest |v| of the small-int class: K<=4 products and their sums stay exactly representable (8-bit signed: 4*5*5 <= 127)
	static int small_max() { return flt ? 128 : bits == 8 ? (sgn ? 5 : 127) : bits == 16 ? (sgn ? 64 : 128) : 128; }
};
template <class T> static const char* vcname(int cls) {
	switch (cls) {
	case VC_SMALL: return "small-int";
	case VC_ALT: return VT<T>::alt == ALT_DYADIC ? "dyadic" : VT<T>::alt == ALT_LARGE ? "large" : "wrap";
	case VC_GENERAL: return "general";
	default: return "zeros";
	}
}
template <class T> static int pick(pbt::Ctx& c) {
	uint64_t k = c.draw(8);
	if (VT<T>::flt) return k < 3 ? VC_SMALL : k == 3 ? VC_ALT : k < 7 ? VC_GENERAL : VC_ZEROS;
	return k < 4 ? VC_SMALL : k < 7 ? VC_ALT : VC_ZEROS;
}

// value source of one case: values of the small-int / dyadic / 8-bit wrap classes are drawn without replacement, so all entries of
// all operands are pairwise distinct as long as the pool lasts (`need` values); when the pool is too small for that (8-bit signed:
// ten values) matrices are filled with a Latin pattern whose rows and columns are duplicate-free and which is not symmetric.
template <class T> struct Src {
	pbt::Ctx& c;
	int cls, maxabs, wrap16;
	bool latin;
	int pool[256], np;
	Src(pbt::Ctx& c_, int cls_, int need, int cap = 0, int wrap16_ = 14) : c(c_), cls(cls_), wrap16(wrap16_), np(0) {
		maxabs = (cls == VC_ALT && VT<T>::alt == ALT_DYADIC) ? 32 : VT<T>::small_max();
		if (cap && maxabs > cap) maxabs = cap;
		latin = cls == VC_SMALL && 2 * maxabs < need && 2 * maxabs >= 10;
		refill();
	}
	void refill() {
		np = 0;
		if (cls == VC_ALT && VT<T>::alt == ALT_WRAP && VT<T>::bits == 8) { for (int v = 1; v < 256; ++v) pool[np++] = v; return; }
		if (VT<T>::sgn) { for (int v = -maxabs; v <= maxabs; ++v) if (v) pool[np++] = v; }
		else for (int v = 1; v <= 2 * maxabs; ++v) pool[np++] = v;
	}
	int take() {
		if (!np) refill();
		int j = (int)c.draw((uint64_t)np), v = pool[j];
		pool[j] = pool[--np];
		return v;
	}
	T next() {
		switch (cls) {
		case VC_SMALL: return (T)take();
		case VC_ALT:
			if (VT<T>::alt == ALT_DYADIC) { int k = take(), e = (int)c.range(-2, 2); return (T)std::ldexp((double)k, e); }
			if (VT<T>::alt == ALT_LARGE) { int64_t v = 1 + (int64_t)c.draw((1ULL << (VT<T>::bits == 32 ? 14 : 30)) - 1); return (T)(c.coin() ? -v : v); }
			if (VT<T>::bits == 8) return (T)(uint8_t)take();
			if (VT<T>::bits == 16) { int64_t v = 1 + (int64_t)c.draw((1ULL << wrap16) - 1); return (T)((VT<T>::sgn && c.coin()) ? -v : v); }  // int arithmetic on promoted operands must not overflow
			{ T v = (T)c.draw(0); return v ? v : (T)1; }
		case VC_GENERAL:
			if constexpr (VT<T>::flt) return fp::gen_moderate<T>(c, 30, 30);
			return (T)1;
		default: {
			if constexpr (VT<T>::flt) { static const T Z[8] = {T(0), T(1), -T(0), T(-1), T(2), T(0), T(1), T(0)}; return Z[c.draw(8)]; }
			else if constexpr (VT<T>::sgn) { static const T Z[8] = {0, 1, -1, 2, 0, 0, 1, -2}; return Z[c.draw(8)]; }
			else { static const T Z[8] = {0, 1, 2, 3, 0, 0, 1, 0}; return Z[c.draw(8)]; }
		}
		}
	}
};
template <class T> static void fill(Src<T>& s, Mx<T>& m) {
	if (s.latin) {
		int vals[10];
		s.refill();
		for (int i = 0; i < 10; ++i) vals[i] = s.take();
		int sh = (int)s.c.draw(10);
		for (int c = 0; c < m.C; ++c) for (int r = 0; r < m.R; ++r) m.e[c][r] = (T)vals[(c + 3 * r + sh) % 10];
		s.refill();
		return;
	}
	for (int c = 0; c < m.C; ++c) for (int r = 0; r < m.R; ++r) m.e[c][r] = s.next();
}
template <class T> static void fill(Src<T>& s, Vx<T>& v) { for (int i = 0; i < v.L; ++i) v.e[i] = s.next(); }
template <class T> static T nz(T v) { return v == T(0) ? T(3) : v; }  // divisors
template <class T> static void make_nz(Mx<T>& m) { for (int c = 0; c < m.C; ++c) for (int r = 0; r < m.R; ++r) m.e[c][r] = nz(m.e[c][r]); }

// non-trivial rule: no zero entry and all entries of all operands pairwise distinct (Latin class: within every row, column, vector)
template <class T> struct Distinct {
	bool latin, ok;
	T v[72];
	int n;
	explicit Distinct(bool l) : latin(l), ok(true), n(0) {}
	static bool pairwise(const T* p, int k) {
		for (int i = 0; i < k; ++i) { if (p[i] == T(0)) return false; for (int j = 0; j < i; ++j) if (p[i] == p[j]) return false; }
		return true;
	}
	void add(T x) { if (n < 72) v[n++] = x; }
	void add(const Vx<T>& x) { if (latin) ok = ok && pairwise(x.e, x.L); else for (int i = 0; i < x.L; ++i) add(x.e[i]); }
	void add(const Mx<T>& m) {
		if (!latin) { for (int c = 0; c < m.C; ++c) for (int r = 0; r < m.R; ++r) add(m.e[c][r]); return; }
		for (int c = 0; c < m.C; ++c) ok = ok && pairwise(m.e[c], m.R);
		for (int r = 0; r < m.R; ++r) { T row[4]; for (int c = 0; c < m.C; ++c) row[c] = m.e[c][r]; ok = ok && pairwise(row, m.C); }
	}
	bool good() const { return ok && (latin || pairwise(v, n)); }
};

// =============================================================================================
// GLM <-> plain arrays (only operator[] of mat and vec is used here; `access` ties operator[] to the byte image and to the constructors)
template <int C, int Rw, class T, glm::qualifier Q> static inline glm::mat<C, Rw, T, Q> toG(const Mx<T>& a) {
	glm::mat<C, Rw, T, Q> m(T(0));
	for (int c = 0; c < C; ++c) for (int r = 0; r < Rw; ++r) m[c][r] = a.e[c][r];
	return m;
}
template <int C, int Rw, class T, glm::qualifier Q> static inline Mx<T> fromG(const glm::mat<C, Rw, T, Q>& m) {
	Mx<T> a(C, Rw);
	for (int c = 0; c < C; ++c) for (int r = 0; r < Rw; ++r) a.e[c][r] = m[c][r];
	return a;
}
template <int L, class T, glm::qualifier Q> static inline glm::vec<L, T, Q> toGv(const Vx<T>& a) {
	glm::vec<L, T, Q> v(T(0));
	for (int i = 0; i < L; ++i) v[i] = a.e[i];
	return v;
}
template <int L, class T, glm::qualifier Q> static inline Vx<T> fromGv(const glm::vec<L, T, Q>& v) {
	Vx<T> a(L);
	for (int i = 0; i < L; ++i) a.e[i] = v[i];
	return a;
}
template <class T> static inline Mx<T> asM(const Vx<T>& v) { Mx<T> m(1, v.L); for (int i = 0; i < v.L; ++i) m.e[0][i] = v.e[i]; return m; }
static inline Mx<LD> asM(const LD* v, int L) { Mx<LD> m(1, L); for (int i = 0; i < L; ++i) m.e[0][i] = v[i]; return m; }

// =============================================================================================
// comparison. Keys and input descriptions are produced lazily (only when a failure is reported) through type-erased thunks, so the
// checking code is instantiated once per element type, not once per shape or call site.
struct In {
	std::string (*fn)(const void*);
	const void* ctx;
	std::string operator()() const { return fn(ctx); }
};
template <class L> static inline In mk(const L& l) { return In{[](const void* p) { return (*static_cast<const L*>(p))(); }, &l}; }

template <class T> static inline bool eqv(T a, T b) { if constexpr (std::is_floating_point<T>::value) return fp::same_value(a, b); else return a == b; }
template <class T> static inline bool eqb(T a, T b) { return memcmp(&a, &b, sizeof(T)) == 0; }
enum { CMP_VALUE = 0, CMP_BITS = 1 };
// index c*4+r of the first mismatch, -1 if none
template <class T> NOINLINE static int mdiff(pbt::Ctx& c, const Mx<T>& g, const Mx<T>& w, int mode) {
	for (int i = 0; i < w.C; ++i) for (int r = 0; r < w.R; ++r) {
		if (mode == CMP_BITS ? !eqb(g.e[i][r], w.e[i][r]) : !eqv(g.e[i][r], w.e[i][r])) return i * 4 + r;
		if (mode == CMP_VALUE && !eqb(g.e[i][r], w.e[i][r])) c.cls("zero-sign-differs(counted)");
	}
	return -1;
}
template <class T> NOINLINE static void mfail(pbt::Ctx& c, const std::string& key, int idx, const Mx<T>& g, const Mx<T>& w, const std::string& inputs) {
	c.failk(key, "result[%d][%d] = %s, expected %s; %s; got %s, expected %s", idx / 4, idx % 4, rl::num(g.e[idx / 4][idx % 4]).c_str(), rl::num(w.e[idx / 4][idx % 4]).c_str(),
	        inputs.c_str(), rl::str(g).c_str(), rl::str(w).c_str());
}
// exact classes: VALUE/BITS against `want`; general floats with an inner product of length K: |got - exact| <= 8 K u scale
template <class T> NOINLINE static void judge(pbt::Ctx& c, int cls, In opkey, const Mx<T>& got, const Mx<T>& want, const Mx<LD>* ex, const Mx<LD>* sc, int K, int mode, const char* metric, In inputs) {
	if (cls != VC_GENERAL || !ex) {
		int i = mdiff(c, got, want, mode);
		// copies (bit comparison) do not depend on the value class: keyed by operation and element type only
		if (i >= 0) mfail(c, mode == CMP_BITS ? opkey() : opkey() + "/" + vcname<T>(cls), i, got, want, inputs());
		return;
	}
	if constexpr (VT<T>::flt) {
		const LD u = fp::eps<T>() / 2;
		for (int i = 0; i < want.C; ++i) for (int r = 0; r < want.R; ++r) {
			LD tol = 8 * K * u * sc->e[i][r] + (LD)std::numeric_limits<T>::denorm_min();
			LD err = (LD)got.e[i][r] - ex->e[i][r];
			if (err < 0) err = -err;
			bool bad = !(err <= tol);  // NaN/inf in the result fails
			c.metric(metric, bad && !(err == err) ? 1e30 : (double)(err / tol));
			if (bad) {
				c.failk(opkey() + "/general", "result[%d][%d] = %.17g, sum of products %.21Lg, |error| %.3Lg exceeds 8*K*u*sum|a_k b_k| = %.3Lg (K=%d); %s", i, r, (double)got.e[i][r], ex->e[i][r], err, tol, K,
				        inputs().c_str());
				return;
			}
		}
	}
}
static void skipped(pbt::Ctx& c) { c.cls("uninstantiable unit skipped (see target instantiation)"); }

// =============================================================================================
// mul: mat<C,Rw> * mat<C2,C> -> mat<C2,Rw>   (shape-independent prepare / finish, shape-specific GLM call)
template <class T> struct MulCase { int cls; Mx<T> a, b, want; Mx<LD> ex, sc; };
template <class T> NOINLINE static void mul_prepare(pbt::Ctx& c, const std::string& tq, int C, int Rw, int C2, MulCase<T>& k) {
	k.cls = pick<T>(c);
	Src<T> s(c, k.cls, C * Rw + C2 * C);
	k.a = Mx<T>(C, Rw); k.b = Mx<T>(C2, C);
	fill(s, k.a); fill(s, k.b);
	c.cls(vcname<T>(k.cls));
	Distinct<T> d(s.latin); d.add(k.a); d.add(k.b);
	if (d.good()) c.nontrivial();
	k.ex = Mx<LD>(C2, Rw); k.sc = Mx<LD>(C2, Rw);
	k.want = rl::mul(k.a, k.b, &k.ex, &k.sc);
	if (c.verbose) c.logf("%s*%s %s (%s) A=%s B=%s", shp(C, Rw).c_str(), shp(C2, C).c_str(), tq.c_str(), vcname<T>(k.cls), rl::str(k.a).c_str(), rl::str(k.b).c_str());
}
template <class T> NOINLINE static void mul_finish(pbt::Ctx& c, const std::string& tq, const MulCase<T>& k, const Mx<T>& got, bool compound, bool self_ok) {
	auto key = [&] { return shp(k.a.C, k.a.R) + (compound ? "*=" : "*") + shp(k.b.C, k.b.R) + "/" + tq; };
	auto in = [&] { return "A=" + rl::str(k.a) + " B=" + rl::str(k.b); };
	judge(c, k.cls, mk(key), got, k.want, &k.ex, &k.sc, k.a.C, CMP_VALUE, compound ? "mat*=mat err/tol" : "mat*mat err/tol", mk(in));
	if (!self_ok) c.failk(key() + "/returns-self", "m *= m2 does not return a reference to m");
}
template <int C, int Rw, int C2, class T, glm::qualifier Q> static void t_mul(pbt::Ctx& c) {
	MulCase<T> k;
	mul_prepare<T>(c, tqn<T, Q>(), C, Rw, C2, k);
	if constexpr (HAVE(K_MUL, shx(C, Rw), C2)) {
		glm::mat<C2, Rw, T, Q> P = toG<C, Rw, T, Q>(k.a) * toG<C2, C, T, Q>(k.b);
		mul_finish(c, tqn<T, Q>(), k, fromG(P), false, true);
	} else skipped(c);
	if constexpr (C == Rw && C2 == C) {
		if constexpr (HAVE(K_MULC, C, 0)) {
			glm::mat<C, Rw, T, Q> X = toG<C, Rw, T, Q>(k.a);
			glm::mat<C, Rw, T, Q>* p = &(X *= toG<C2, C, T, Q>(k.b));
			mul_finish(c, tqn<T, Q>(), k, fromG(X), true, p == &X);
			// squaring in place: the right operand is the object itself, m *= m must equal m * m (an implementation that updates
			// *this while still reading the operand would not)
			glm::mat<C, Rw, T, Q> S1 = toG<C, Rw, T, Q>(k.a), S2 = S1 * S1;
			S1 *= S1;
			Mx<T> g1 = fromG(S1), g2 = fromG(S2);
			for (int i = 0; i < C; ++i) for (int r = 0; r < Rw; ++r) if (!eqb(g1.e[i][r], g2.e[i][r])) {
				c.failk("mat*=mat/aliased-operand/" + shp(C, Rw) + "/" + tqn<T, Q>(), "m *= m differs from m * m at [%d][%d]: %s vs %s; m=%s", i, r, rl::num(g1.e[i][r]).c_str(), rl::num(g2.e[i][r]).c_str(), rl::str(k.a).c_str());
				i = C; break;
			}
		} else skipped(c);
	}
}

// mulvec: mat<C,Rw> * vec<C> -> vec<Rw>;  vec<Rw> * mat<C,Rw> -> vec<C>
template <class T> struct MvCase { int cls; Mx<T> a; Vx<T> v, w, want1, want2; Mx<LD> ex1, sc1, ex2, sc2; };
template <class T> NOINLINE static void mv_prepare(pbt::Ctx& c, const std::string& tq, int C, int Rw, MvCase<T>& k) {
	k.cls = pick<T>(c);
	Src<T> s(c, k.cls, C * Rw + C + Rw);
	k.a = Mx<T>(C, Rw); k.v = Vx<T>(C); k.w = Vx<T>(Rw);
	fill(s, k.a); fill(s, k.v); fill(s, k.w);
	c.cls(vcname<T>(k.cls));
	Distinct<T> d(s.latin); d.add(k.a); d.add(k.v); d.add(k.w);
	if (d.good()) c.nontrivial();
	LD ex[4], sc[4];
	k.want1 = rl::mul_mv(k.a, k.v, ex, sc); k.ex1 = asM(ex, Rw); k.sc1 = asM(sc, Rw);
	k.want2 = rl::mul_vm(k.w, k.a, ex, sc); k.ex2 = asM(ex, C); k.sc2 = asM(sc, C);
	if (c.verbose) c.logf("%s*vec%d, vec%d*%s %s (%s) M=%s v=%s w=%s", shp(C, Rw).c_str(), C, Rw, shp(C, Rw).c_str(), tq.c_str(), vcname<T>(k.cls), rl::str(k.a).c_str(), rl::str(k.v).c_str(), rl::str(k.w).c_str());
}
template <class T> NOINLINE static void mv_finish(pbt::Ctx& c, const std::string& tq, const MvCase<T>& k, const Vx<T>& got, bool vm) {
	auto key = [&] { return vm ? "vec" + std::to_string(k.a.R) + "*" + shp(k.a.C, k.a.R) + "/" + tq : shp(k.a.C, k.a.R) + "*vec" + std::to_string(k.a.C) + "/" + tq; };
	auto in = [&] { return vm ? "v=" + rl::str(k.w) + " M=" + rl::str(k.a) : "M=" + rl::str(k.a) + " v=" + rl::str(k.v); };
	if (vm) judge(c, k.cls, mk(key), asM(got), asM(k.want2), &k.ex2, &k.sc2, k.a.R, CMP_VALUE, "vec*mat err/tol", mk(in));
	else judge(c, k.cls, mk(key), asM(got), asM(k.want1), &k.ex1, &k.sc1, k.a.C, CMP_VALUE, "mat*vec err/tol", mk(in));
}
template <int C, int Rw, class T, glm::qualifier Q> static void t_mulvec(pbt::Ctx& c) {
	MvCase<T> k;
	mv_prepare<T>(c, tqn<T, Q>(), C, Rw, k);
	glm::mat<C, Rw, T, Q> A = toG<C, Rw, T, Q>(k.a);
	if constexpr (HAVE(K_MV, shx(C, Rw), 0)) { glm::vec<Rw, T, Q> g = A * toGv<C, T, Q>(k.v); mv_finish(c, tqn<T, Q>(), k, fromGv(g), false); } else skipped(c);
	if constexpr (HAVE(K_VM, shx(C, Rw), 0)) { glm::vec<C, T, Q> g = toGv<Rw, T, Q>(k.w) * A; mv_finish(c, tqn<T, Q>(), k, fromGv(g), true); } else skipped(c);
}

// func: transpose, outerProduct, matrixCompMult
template <class T, class F> static Mx<T> map2(const Mx<T>& x, const Mx<T>& y, F f) {
	Mx<T> o(x.C, x.R);
	for (int c = 0; c < x.C; ++c) for (int r = 0; r < x.R; ++r) o.e[c][r] = f(x.e[c][r], y.e[c][r]);
	return o;
}
template <class T, class F> static Mx<T> map1(const Mx<T>& x, F f) {
	Mx<T> o(x.C, x.R);
	for (int c = 0; c < x.C; ++c) for (int r = 0; r < x.R; ++r) o.e[c][r] = f(x.e[c][r]);
	return o;
}
template <class T> struct FuncCase { int cls; Mx<T> a, b; Vx<T> col, row; };
template <class T> NOINLINE static void func_prepare(pbt::Ctx& c, const std::string& tq, int C, int Rw, FuncCase<T>& k) {
	k.cls = pick<T>(c);
	Src<T> s(c, k.cls, 2 * C * Rw + C + Rw);
	k.a = Mx<T>(C, Rw); k.b = Mx<T>(C, Rw); k.col = Vx<T>(Rw); k.row = Vx<T>(C);
	fill(s, k.a); fill(s, k.b); fill(s, k.col); fill(s, k.row);
	c.cls(vcname<T>(k.cls));
	Distinct<T> d(s.latin); d.add(k.a); d.add(k.b); d.add(k.col); d.add(k.row);
	if (d.good()) c.nontrivial();
	if (c.verbose) c.logf("transpose/outerProduct/matrixCompMult %s %s (%s) A=%s B=%s c=%s r=%s", shp(C, Rw).c_str(), tq.c_str(), vcname<T>(k.cls), rl::str(k.a).c_str(), rl::str(k.b).c_str(), rl::str(k.col).c_str(), rl::str(k.row).c_str());
}
template <class T> NOINLINE static void func_finish(pbt::Ctx& c, const std::string& tq, const FuncCase<T>& k, const Mx<T>& got, int which) {
	auto key = [&] { return (which == 0 ? "transpose/" + shp(k.a.C, k.a.R) : which == 1 ? "outerProduct/vec" + std::to_string(k.a.R) + ",vec" + std::to_string(k.a.C) : "matrixCompMult/" + shp(k.a.C, k.a.R)) + "/" + tq; };
	auto in = [&] { return which == 0 ? "A=" + rl::str(k.a) : which == 1 ? "c=" + rl::str(k.col) + " r=" + rl::str(k.row) : "A=" + rl::str(k.a) + " B=" + rl::str(k.b); };
	if (which == 0) judge(c, k.cls, mk(key), got, rl::transpose(k.a), nullptr, nullptr, 1, CMP_BITS, "", mk(in));
	else if (which == 1) judge(c, k.cls, mk(key), got, rl::outer(k.col, k.row), nullptr, nullptr, 1, CMP_VALUE, "", mk(in));
	else judge(c, k.cls, mk(key), got, map2(k.a, k.b, [](T x, T y) { return rl::mul1(x, y); }), nullptr, nullptr, 1, CMP_VALUE, "", mk(in));
}
template <int C, int Rw, class T, glm::qualifier Q> static void t_func(pbt::Ctx& c) {
	FuncCase<T> k;
	func_prepare<T>(c, tqn<T, Q>(), C, Rw, k);
	static_assert(std::is_same<typename glm::mat<C, Rw, T, Q>::transpose_type, glm::mat<Rw, C, T, Q>>::value, "transpose_type");
	static_assert(std::is_same<typename glm::mat<C, Rw, T, Q>::col_type, glm::vec<Rw, T, Q>>::value && std::is_same<typename glm::mat<C, Rw, T, Q>::row_type, glm::vec<C, T, Q>>::value, "col_type/row_type");
	glm::mat<C, Rw, T, Q> A = toG<C, Rw, T, Q>(k.a), B = toG<C, Rw, T, Q>(k.b);
	if constexpr (HAVE(K_TRANSPOSE, shx(C, Rw), 0)) { glm::mat<Rw, C, T, Q> t = glm::transpose(A); func_finish(c, tqn<T, Q>(), k, fromG(t), 0); } else skipped(c);
	if constexpr (HAVE(K_OUTER, shx(C, Rw), 0)) {
		auto o = glm::outerProduct(toGv<Rw, T, Q>(k.col), toGv<C, T, Q>(k.row));
		static_assert(std::is_same<decltype(o), glm::mat<C, Rw, T, Q>>::value, "outerProduct(vec<R>, vec<C>) must be mat<C,R>");
		func_finish(c, tqn<T, Q>(), k, fromG(o), 1);
	} else skipped(c);
	if constexpr (HAVE(K_COMPMULT, shx(C, Rw), 0)) { glm::mat<C, Rw, T, Q> m = glm::matrixCompMult(A, B); func_finish(c, tqn<T, Q>(), k, fromG(m), 2); } else skipped(c);
}

// =============================================================================================
// elem: element-wise operators. One table of operations; the reference results of all of them are formed shape-independently.
enum { E_ADD_S, E_SUB_S, E_MUL_S, E_S_MUL, E_DIV_S, E_S_DIV, E_ADD_M, E_SUB_M, E_NEG, E_POS, E_S_ADD, E_S_SUB,
       E_CADD_S, E_CSUB_S, E_CMUL_S, E_CDIV_S, E_CADD_M, E_CSUB_M, E_PREINC, E_PREDEC, E_POSTINC, E_POSTDEC,
       E_UADD_S, E_USUB_S, E_UMUL_S, E_UDIV_S, E_UADD_M, E_USUB_M, E_UASSIGN, E_EQ, E_NOPS };
static const char* const ELEM_NAME[E_NOPS] = {"m+s", "m-s", "m*s", "s*m", "m/s", "s/m", "m+m", "m-m", "-m", "+m", "s+m", "s-m",
	"m+=s", "m-=s", "m*=s", "m/=s", "m+=m", "m-=m", "++m", "--m", "m++", "m--",
	"m+=U(s)", "m-=U(s)", "m*=U(s)", "m/=U(s)", "m+=mat<U>", "m-=mat<U>", "m=mat<U>", "==,!="};
template <class T> struct OtherU { typedef int type; };               // scalar type U != T for the templated compound operators
template <> struct OtherU<int> { typedef short type; };
template <> struct OtherU<double> { typedef float type; };
template <class T> struct ElemCase {
	int cls; bool ucls;          // ucls: values exactly representable in U as well (small-int / zeros classes)
	Mx<T> a, b, an; T k, kd;     // an: a with zero entries replaced (divisor), kd likewise
	int ec, er; T nv;            // ==/!=: element changed in the unequal copy
	Mx<T> want[E_NOPS];          // E_POSTINC/E_POSTDEC: the modified operand (the returned value must be `a`)
};
template <class T> struct ElemGot {
	Mx<T> got[E_NOPS], ret[2];   // ret: values returned by m++ / m--
	uint32_t done = 0, selfbad = 0, missing = 0;
	bool eq_same = true, ne_same = false, eq_diff = false, ne_diff = true;
};
template <class T> NOINLINE static void elem_prepare(pbt::Ctx& c, const std::string& tq, int C, int Rw, ElemCase<T>& k) {
	k.cls = pick<T>(c);
	k.ucls = k.cls == VC_SMALL || k.cls == VC_ZEROS;
	Src<T> s(c, k.cls, 2 * C * Rw + 1);
	k.a = Mx<T>(C, Rw); k.b = Mx<T>(C, Rw);
	fill(s, k.a); fill(s, k.b);
	k.k = s.next();
	c.cls(vcname<T>(k.cls));
	Distinct<T> dd(s.latin); dd.add(k.a); dd.add(k.b); dd.add(k.k);
	if (dd.good()) c.nontrivial();
	k.an = k.a; make_nz(k.an);
	k.kd = nz(k.k);
	k.ec = (int)c.draw(C); k.er = (int)c.draw(Rw);
	k.nv = s.next();
	if (eqv(k.nv, k.a.e[k.ec][k.er])) k.nv = eqv(k.a.e[k.ec][k.er], T(1)) ? T(2) : T(1);
	const T sk = k.k, skd = k.kd;
	const Mx<T>& a = k.a; const Mx<T>& b = k.b;
	Mx<T>* w = k.want;
	w[E_ADD_S] = w[E_S_ADD] = w[E_CADD_S] = w[E_UADD_S] = map1(a, [&](T x) { return rl::add1(x, sk); });
	w[E_SUB_S] = w[E_CSUB_S] = w[E_USUB_S] = map1(a, [&](T x) { return rl::sub1(x, sk); });
	w[E_MUL_S] = w[E_S_MUL] = w[E_CMUL_S] = w[E_UMUL_S] = map1(a, [&](T x) { return rl::mul1(x, sk); });
	w[E_DIV_S] = w[E_CDIV_S] = w[E_UDIV_S] = map1(a, [&](T x) { return rl::div1(x, skd); });
	w[E_S_DIV] = map1(k.an, [&](T x) { return rl::div1(sk, x); });
	w[E_S_SUB] = map1(a, [&](T x) { return rl::sub1(sk, x); });
	w[E_ADD_M] = w[E_CADD_M] = w[E_UADD_M] = map2(a, b, [](T x, T y) { return rl::add1(x, y); });
	w[E_SUB_M] = w[E_CSUB_M] = w[E_USUB_M] = map2(a, b, [](T x, T y) { return rl::sub1(x, y); });
	w[E_NEG] = map1(a, [](T x) { return rl::neg1(x); });
	w[E_POS] = a;
	w[E_PREINC] = w[E_POSTINC] = map1(a, [](T x) { return rl::add1(x, T(1)); });
	w[E_PREDEC] = w[E_POSTDEC] = map1(a, [](T x) { return rl::sub1(x, T(1)); });
	w[E_UASSIGN] = b;
	if (c.verbose) c.logf("element-wise operators %s %s (%s) A=%s B=%s s=%s", shp(C, Rw).c_str(), tq.c_str(), vcname<T>(k.cls), rl::str(a).c_str(), rl::str(b).c_str(), rl::num(sk).c_str());
}
template <class T> NOINLINE static void elem_finish(pbt::Ctx& c, const std::string& tq, const ElemCase<T>& k, const ElemGot<T>& g) {
	const std::string suffix = std::string();
	auto in = [&] { return "A=" + rl::str(k.a) + " B=" + rl::str(k.b) + " s=" + rl::num(k.k) + " (divisors: zero entries replaced by 3)"; };
	if (g.missing) skipped(c);
	for (int op = 0; op < E_EQ; ++op) {
		if (!(g.done >> op & 1)) continue;
		auto key = [&] { return std::string(ELEM_NAME[op]) + "/" + shp(k.a.C, k.a.R) + "/" + tq; };
		// -m and +m are sign manipulations, not arithmetic: the sign of a zero entry is part of the definition (-(+0) = -0)
		judge(c, k.cls, mk(key), g.got[op], k.want[op], nullptr, nullptr, 1, (op == E_NEG || op == E_POS) ? CMP_BITS : CMP_VALUE, "", mk(in));
		if (op == E_POSTINC || op == E_POSTDEC) {
			auto keyr = [&] { return std::string(ELEM_NAME[op]) + "/returned-value/" + shp(k.a.C, k.a.R) + "/" + tq; };
			judge(c, k.cls, mk(keyr), g.ret[op - E_POSTINC], k.a, nullptr, nullptr, 1, CMP_VALUE, "", mk(in));
		}
		if (g.selfbad >> op & 1) c.failk(key() + "/returns-self", "%s does not return a reference to its left operand", ELEM_NAME[op]);
	}
	if (g.done >> E_EQ & 1) {
		if (!g.eq_same || g.ne_same) c.failk("==,!=/equal/" + shp(k.a.C, k.a.R) + "/" + tq, "A == copy(A) is %d, A != copy(A) is %d; A=%s", (int)g.eq_same, (int)g.ne_same, rl::str(k.a).c_str());
		if (g.eq_diff || !g.ne_diff)
			c.failk("==,!=/one-element-differs/" + shp(k.a.C, k.a.R) + "/" + tq, "A == B is %d, A != B is %d where B differs from A only in [%d][%d] (%s instead of %s); A=%s", (int)g.eq_diff, (int)g.ne_diff, k.ec, k.er,
			        rl::num(k.nv).c_str(), rl::num(k.a.e[k.ec][k.er]).c_str(), rl::str(k.a).c_str());
	}
}
template <int C, int Rw, class T, glm::qualifier Q> static void t_elem(pbt::Ctx& c) {
	typedef glm::mat<C, Rw, T, Q> M;
	typedef typename OtherU<T>::type U;
	ElemCase<T> k;
	elem_prepare<T>(c, tqn<T, Q>(), C, Rw, k);
	ElemGot<T> g;
	const M A = toG<C, Rw, T, Q>(k.a), B = toG<C, Rw, T, Q>(k.b), AN = toG<C, Rw, T, Q>(k.an);
	const T s = k.k, sd = k.kd;
	constexpr int SI = shx(C, Rw);
#define OP(I, EXPR) if constexpr (HAVE(K_ELEM, SI, I)) { g.got[I] = fromG(EXPR); g.done |= 1u << I; } else g.missing |= 1u << I;
#define COP(I, STMT) if constexpr (HAVE(K_ELEM, SI, I)) { M x = A; M* p = &(STMT); g.got[I] = fromG(x); g.done |= 1u << I; if (p != &x) g.selfbad |= 1u << I; } else g.missing |= 1u << I;
	OP(E_ADD_S, A + s) OP(E_SUB_S, A - s) OP(E_MUL_S, A * s) OP(E_S_MUL, s * A) OP(E_DIV_S, A / sd) OP(E_S_DIV, s / AN)
	OP(E_ADD_M, A + B) OP(E_SUB_M, A - B) OP(E_NEG, -A) OP(E_POS, +A)
	if constexpr (C == Rw) { OP(E_S_ADD, s + A) OP(E_S_SUB, s - A) }
	COP(E_CADD_S, x += s) COP(E_CSUB_S, x -= s) COP(E_CMUL_S, x *= s) COP(E_CDIV_S, x /= sd) COP(E_CADD_M, x += B) COP(E_CSUB_M, x -= B)
	COP(E_PREINC, ++x) COP(E_PREDEC, --x)
	if constexpr (HAVE(K_ELEM, SI, E_POSTINC)) { M x = A; M old = x++; g.got[E_POSTINC] = fromG(x); g.ret[0] = fromG(old); g.done |= 1u << E_POSTINC; } else g.missing |= 1u << E_POSTINC;
	if constexpr (HAVE(K_ELEM, SI, E_POSTDEC)) { M x = A; M old = x--; g.got[E_POSTDEC] = fromG(x); g.ret[1] = fromG(old); g.done |= 1u << E_POSTDEC; } else g.missing |= 1u << E_POSTDEC;
	if (k.ucls) {  // compound operators and assignment with another scalar type U (values exactly representable in both types)
		const U su = (U)s, sdu = (U)sd;
		glm::mat<C, Rw, U, Q> BU(U(0));
		for (int i = 0; i < C; ++i) for (int r = 0; r < Rw; ++r) BU[i][r] = (U)k.b.e[i][r];
		COP(E_UADD_S, x += su) COP(E_USUB_S, x -= su) COP(E_UMUL_S, x *= su) COP(E_UDIV_S, x /= sdu) COP(E_UADD_M, x += BU) COP(E_USUB_M, x -= BU) COP(E_UASSIGN, x = BU)
	}
	// the same compound operators with an *unsigned* other type (m -= 3u, m -= umat): the operand must be converted to T before anything
	// is done to it (negating it first wraps). Only when the scalar and every entry of B are non-negative (exact in unsigned).
	if constexpr (HAVE(K_ELEM, SI, E_USUB_S) && HAVE(K_ELEM, SI, E_USUB_M) && HAVE(K_ELEM, SI, E_UADD_S) && !std::is_same<T, bool>::value && sizeof(T) >= 4) {
		bool nonneg = k.ucls && !(s < T(0));
		for (int i = 0; i < C && nonneg; ++i) for (int r = 0; r < Rw; ++r) if (k.b.e[i][r] < T(0)) nonneg = false;
		if (nonneg) {
			const unsigned su2 = (unsigned)s;
			glm::mat<C, Rw, unsigned, Q> BU2(0u);
			for (int i = 0; i < C; ++i) for (int r = 0; r < Rw; ++r) BU2[i][r] = (unsigned)k.b.e[i][r];
			auto chk = [&](const M& got, const Mx<T>& want, const char* opn) {
				Mx<T> gm = fromG(got);
				for (int i = 0; i < C; ++i) for (int r = 0; r < Rw; ++r) if (!eqv(gm.e[i][r], want.e[i][r])) {
					c.failk(std::string(opn) + "(unsigned)/" + shp(C, Rw) + "/" + tqn<T, Q>(), "%s with an unsigned operand: element [%d][%d] = %s, expected %s; A=%s s=%u", opn, i, r, rl::num(gm.e[i][r]).c_str(), rl::num(want.e[i][r]).c_str(), rl::str(k.a).c_str(), su2);
					return;
				}
			};
			{ M x = A; x -= su2; chk(x, k.want[E_USUB_S], "m-=s"); }
			{ M x = A; x += su2; chk(x, k.want[E_UADD_S], "m+=s"); }
			{ M x = A; x -= BU2; chk(x, k.want[E_USUB_M], "m-=m"); }
			{ M x = A; x += BU2; chk(x, k.want[E_UADD_M], "m+=m"); }
			c.cls("compound operators with an unsigned operand");
		}
	}
	if constexpr (HAVE(K_ELEM, SI, E_EQ)) {
		M E = toG<C, Rw, T, Q>(k.a), F = E;
		F[k.ec][k.er] = k.nv;
		g.eq_same = A == E; g.ne_same = A != E; g.eq_diff = A == F; g.ne_diff = A != F;
		g.done |= 1u << E_EQ;
	} else g.missing |= 1u << E_EQ;
#undef OP
#undef COP
	// the scalar of a compound operator may be an element of the matrix itself (m += m[0][0]): the result must be the one obtained with
	// an independent copy of that scalar (taking the operand by reference and updating columns in place would change it mid-way)
	if constexpr (HAVE(K_ELEM, SI, E_CADD_S) && HAVE(K_ELEM, SI, E_CMUL_S)) {
		const int ec = (int)(k.ec % C), er = (int)(k.er % Rw);
		auto same = [&](const M& x, const M& e) { for (int i = 0; i < C; ++i) for (int r = 0; r < Rw; ++r) if (memcmp(&x[i][r], &e[i][r], sizeof(T)) != 0) return false; return true; };
		{ M x = A, e = A; T s0 = A[ec][er]; e += s0; x += x[ec][er]; if (!same(x, e)) c.failk(std::string("m+=s/aliased-scalar/") + tqn<T, Q>() + "/mat" + std::to_string(C) + "x" + std::to_string(Rw), "m += m[%d][%d] differs from m += copy", ec, er); }
		{ M x = A, e = A; T s0 = A[ec][er]; e -= s0; x -= x[ec][er]; if (!same(x, e)) c.failk(std::string("m-=s/aliased-scalar/") + tqn<T, Q>() + "/mat" + std::to_string(C) + "x" + std::to_string(Rw), "m -= m[%d][%d] differs from m -= copy", ec, er); }
		{ M x = A, e = A; T s0 = A[ec][er]; e *= s0; x *= x[ec][er]; if (!same(x, e)) c.failk(std::string("m*=s/aliased-scalar/") + tqn<T, Q>() + "/mat" + std::to_string(C) + "x" + std::to_string(Rw), "m *= m[%d][%d] differs from m *= copy", ec, er); }
		if constexpr (std::is_floating_point<T>::value) { M x = AN, e = AN; T s0 = AN[ec][er]; if (s0 != T(0)) { e /= s0; x /= x[ec][er]; if (!same(x, e)) c.failk(std::string("m/=s/aliased-scalar/") + tqn<T, Q>() + "/mat" + std::to_string(C) + "x" + std::to_string(Rw), "m /= m[%d][%d] differs from m /= copy", ec, er); } }
	}
	elem_finish(c, tqn<T, Q>(), k, g);
}

// =============================================================================================
// access: operator[] against the column-major byte image, gtc row()/column()
enum { A_READ, A_CREAD, A_WRITE, A_ASSIGNCOL, A_ROWGET, A_COLGET, A_ROWSET, A_ROWSET_ARG, A_COLSET, A_NOPS };
static const char* const ACCESS_NAME[A_NOPS] = {"operator[]/read-byte-image", "operator[]const/read-byte-image", "operator[]/write-byte-image", "operator[]/assign-column", "row/get", "column/get", "row/set", "row/set-leaves-argument", "column/set"};
template <class T> struct AccCase { int cls, ri, ci; Mx<T> a; Vx<T> nr, nc; Mx<T> want[A_NOPS]; };
template <class T> NOINLINE static void access_prepare(pbt::Ctx& c, const std::string& tq, int C, int Rw, AccCase<T>& k) {
	k.cls = pick<T>(c);
	Src<T> s(c, k.cls, C * Rw + C + Rw);
	k.a = Mx<T>(C, Rw); k.nr = Vx<T>(C); k.nc = Vx<T>(Rw);
	fill(s, k.a); fill(s, k.nr); fill(s, k.nc);
	k.ri = (int)c.draw(Rw); k.ci = (int)c.draw(C);
	c.cls(vcname<T>(k.cls));
	Distinct<T> d(s.latin); d.add(k.a); d.add(k.nr); d.add(k.nc);
	if (d.good()) c.nontrivial();
	k.want[A_READ] = k.want[A_CREAD] = k.want[A_WRITE] = k.want[A_ROWSET_ARG] = k.a;
	Mx<T> wc = k.a; for (int r = 0; r < Rw; ++r) wc.e[k.ci][r] = k.nc.e[r];
	k.want[A_ASSIGNCOL] = k.want[A_COLSET] = wc;
	Mx<T> wr = k.a; for (int i = 0; i < C; ++i) wr.e[i][k.ri] = k.nr.e[i];
	k.want[A_ROWSET] = wr;
	Vx<T> rg(C), cg(Rw);
	for (int i = 0; i < C; ++i) rg.e[i] = k.a.e[i][k.ri];
	for (int r = 0; r < Rw; ++r) cg.e[r] = k.a.e[k.ci][r];
	k.want[A_ROWGET] = asM(rg); k.want[A_COLGET] = asM(cg);
	if (c.verbose) c.logf("access %s %s (%s) A=%s row %d <- %s, column %d <- %s", shp(C, Rw).c_str(), tq.c_str(), vcname<T>(k.cls), rl::str(k.a).c_str(), k.ri, rl::str(k.nr).c_str(), k.ci, rl::str(k.nc).c_str());
}
template <class T> NOINLINE static void access_finish(pbt::Ctx& c, const std::string& tq, const AccCase<T>& k, const Mx<T>* got, uint32_t done, int lenC, int lenR) {
	auto in = [&] { return "A=" + rl::str(k.a) + " row index " + std::to_string(k.ri) + " column index " + std::to_string(k.ci) + " new row " + rl::str(k.nr) + " new column " + rl::str(k.nc); };
	for (int op = 0; op < A_NOPS; ++op) {
		if (!(done >> op & 1)) continue;
		auto key = [&] { return std::string(ACCESS_NAME[op]) + "/" + shp(k.a.C, k.a.R) + "/" + tq; };
		judge(c, k.cls, mk(key), got[op], k.want[op], nullptr, nullptr, 1, CMP_BITS, "", mk(in));
	}
	if (lenC != k.a.C || lenR != k.a.R) c.failk("length/" + shp(k.a.C, k.a.R) + "/" + tq, "length()=%d, column length()=%d", lenC, lenR);
}
template <int C, int Rw, class T, glm::qualifier Q> static void t_access(pbt::Ctx& c) {
	typedef glm::mat<C, Rw, T, Q> M;
	AccCase<T> k;
	access_prepare<T>(c, tqn<T, Q>(), C, Rw, k);
	Mx<T> got[A_NOPS];
	uint32_t done = 0;
	if constexpr (HAVE(K_ACCESS, shx(C, Rw), 0)) {
		// the matrix is built from its column-major byte image (manual: "Matrix types store their values in column-major order"), then read with operator[]
		M A(T(0));
		if constexpr (sizeof(M) == sizeof(T) * C * Rw) {
			T raw[16];
			for (int i = 0; i < C; ++i) for (int r = 0; r < Rw; ++r) raw[i * Rw + r] = k.a.e[i][r];
			memcpy(static_cast<void*>(&A), raw, sizeof(T) * C * Rw);
			got[A_READ] = fromG(A);
			const M& CA = A;
			got[A_CREAD] = Mx<T>(C, Rw);
			for (int i = 0; i < C; ++i) for (int r = 0; r < Rw; ++r) got[A_CREAD].e[i][r] = CA[i][r];
			M W = toG<C, Rw, T, Q>(k.a);
			T back[16];
			memcpy(back, static_cast<const void*>(&W), sizeof(T) * C * Rw);
			got[A_WRITE] = Mx<T>(C, Rw);
			for (int i = 0; i < C; ++i) for (int r = 0; r < Rw; ++r) got[A_WRITE].e[i][r] = back[i * Rw + r];
			done |= 1u << A_READ | 1u << A_CREAD | 1u << A_WRITE;
		} else A = toG<C, Rw, T, Q>(k.a);
		{ M X = A; X[k.ci] = toGv<Rw, T, Q>(k.nc); got[A_ASSIGNCOL] = fromG(X); }
		{ glm::vec<C, T, Q> g = glm::row(A, k.ri); got[A_ROWGET] = asM(fromGv(g)); }
		{ glm::vec<Rw, T, Q> g = glm::column(A, k.ci); got[A_COLGET] = asM(fromGv(g)); }
		{ M g = glm::row(A, k.ri, toGv<C, T, Q>(k.nr)); got[A_ROWSET] = fromG(g); got[A_ROWSET_ARG] = fromG(A); }
		{ M g = glm::column(A, k.ci, toGv<Rw, T, Q>(k.nc)); got[A_COLSET] = fromG(g); }
		done |= 1u << A_ASSIGNCOL | 1u << A_ROWGET | 1u << A_COLGET | 1u << A_ROWSET | 1u << A_ROWSET_ARG | 1u << A_COLSET;
		access_finish(c, tqn<T, Q>(), k, got, done, (int)A.length() == (int)M::length() ? (int)A.length() : -1, (int)A[0].length());
	} else skipped(c);
}

// =============================================================================================
// convert: mat<C,Rw>(mat<C2,R2>) — overlapping block copied, rest identity. Same shape: the other constructors.
template <class T> struct OtherT { typedef int type; };  // source element type of the cross-type conversion (values are small integers exact in both)
template <> struct OtherT<float> { typedef double type; };
template <> struct OtherT<int> { typedef float type; };
template <> struct OtherT<unsigned int> { typedef short type; };
template <glm::qualifier Q> struct OtherQ { static const glm::qualifier value = glm::highp; };
template <> struct OtherQ<glm::highp> { static const glm::qualifier value = glm::lowp; };
template <size_t I> struct ArgT { typedef typename std::conditional<I % 3 == 0, int, typename std::conditional<I % 3 == 1, float, double>::type>::type type; };
template <size_t I> struct ColT { typedef typename std::conditional<I % 2 == 0, double, int>::type type; };
template <class M, class T, size_t... I> static M make_list(const T* p, std::index_sequence<I...>) { return M(p[I]...); }
template <class M, class T, size_t... I> static M make_mixed(const T* p, std::index_sequence<I...>) { return M(static_cast<typename ArgT<I>::type>(p[I])...); }
template <class T> static Vx<T> colv(const Mx<T>& a, int i) { Vx<T> v(a.R); for (int r = 0; r < a.R; ++r) v.e[r] = a.e[i][r]; return v; }
template <class M, int Rw, class T, glm::qualifier Q, size_t... I> static M make_columns(const Mx<T>& a, std::index_sequence<I...>) { return M(toGv<Rw, T, Q>(colv(a, (int)I))...); }
template <int Rw, class V, class T, glm::qualifier Q> static glm::vec<Rw, V, Q> colas(const Mx<T>& a, int i) { glm::vec<Rw, V, Q> v(V(0)); for (int r = 0; r < Rw; ++r) v[r] = (V)a.e[i][r]; return v; }
template <class M, int Rw, class T, glm::qualifier Q, size_t... I> static M make_mixed_columns(const Mx<T>& a, std::index_sequence<I...>) { return M(colas<Rw, typename ColT<I>::type, T, Q>(a, (int)I)...); }

enum { CT_SCALAR, CT_LIST, CT_COLUMNS, CT_COPY, CT_ASSIGN, CT_OTHERQ, CT_OTHERT, CT_OTHERTQ, CT_MIXEDLIST, CT_MIXEDCOLS, CT_NOPS };
static const char* const CTOR_NAME[CT_NOPS] = {"scalar", "element-list", "columns", "copy", "assign", "other-qualifier", "other-type", "other-type,other-qualifier", "mixed-type-element-list", "mixed-type-columns"};
template <class T> struct ConvCase { int cls; bool ucls; Mx<T> a; };
template <class T> NOINLINE static void conv_prepare(pbt::Ctx& c, const std::string& tq, int C, int Rw, int C2, int R2, ConvCase<T>& k) {
	k.cls = pick<T>(c);
	k.ucls = k.cls == VC_SMALL || k.cls == VC_ZEROS;
	Src<T> s(c, k.cls, C2 * R2 + 1);
	k.a = Mx<T>(C2, R2);
	fill(s, k.a);
	c.cls(vcname<T>(k.cls));
	Distinct<T> d(s.latin); d.add(k.a);
	bool nt = d.good();
	// a wrong block would copy a source entry where 0/1 belongs (or the reverse): source entries must differ from the padding values
	for (int i = 0; i < C2; ++i) for (int r = 0; r < R2; ++r) if (k.a.e[i][r] == T(1)) nt = false;
	if (nt) c.nontrivial();
	if (c.verbose) {
		if (C != C2 || Rw != R2) c.logf("%s(%s) %s (%s) source=%s", shp(C, Rw).c_str(), shp(C2, R2).c_str(), tq.c_str(), vcname<T>(k.cls), rl::str(k.a).c_str());
		else c.logf("constructors of %s %s (%s) values=%s", shp(C, Rw).c_str(), tq.c_str(), vcname<T>(k.cls), rl::str(k.a).c_str());
	}
}
template <class T> NOINLINE static void conv_finish(pbt::Ctx& c, const std::string& tq, const ConvCase<T>& k, int C, int Rw, const Mx<T>& got) {
	// keyed by what is wrong: an element of the overlapping block (must be the source element, bit for bit) or of the padding (identity)
	const Mx<T> want = rl::convert(k.a, C, Rw);
	bool badblock = false, badpad = false;
	for (int i = 0; i < C; ++i) for (int r = 0; r < Rw; ++r) {
		if (eqb(got.e[i][r], want.e[i][r])) continue;
		bool inblock = i < k.a.C && r < k.a.R;
		if (inblock ? badblock : badpad) continue;
		(inblock ? badblock : badpad) = true;
		c.failk(shp(C, Rw) + "(" + shp(k.a.C, k.a.R) + ")/" + tq + (inblock ? "/overlapping-block" : "/identity-padding"), "result[%d][%d] = %s, expected %s (%s); source=%s; got %s, expected %s", i, r, rl::num(got.e[i][r]).c_str(),
		        rl::num(want.e[i][r]).c_str(), inblock ? "the source element" : "identity padding", rl::str(k.a).c_str(), rl::str(got).c_str(), rl::str(want).c_str());
	}
}
template <class T> NOINLINE static void ctor_finish(pbt::Ctx& c, const std::string& tq, const ConvCase<T>& k, const Mx<T>* got, uint32_t done, bool missing) {
	typedef typename OtherT<T>::type U;
	const Mx<T>& a = k.a;
	const int C = a.C, Rw = a.R;
	if (missing) skipped(c);
	Mx<T> want[CT_NOPS];
	T dg[4] = {a.e[0][0], a.e[0][0], a.e[0][0], a.e[0][0]};
	want[CT_SCALAR] = rl::diagonal(C, Rw, dg);
	want[CT_LIST] = want[CT_COLUMNS] = want[CT_COPY] = want[CT_ASSIGN] = want[CT_OTHERQ] = a;
	want[CT_OTHERT] = want[CT_OTHERTQ] = map1(a, [](T x) { return (T)(U)x; });
	want[CT_MIXEDLIST] = Mx<T>(C, Rw); want[CT_MIXEDCOLS] = Mx<T>(C, Rw);
	for (int i = 0; i < C; ++i) for (int r = 0; r < Rw; ++r) {
		int n = i * Rw + r; T x = a.e[i][r];
		want[CT_MIXEDLIST].e[i][r] = n % 3 == 0 ? (T)(int)x : n % 3 == 1 ? (T)(float)x : (T)(double)x;
		want[CT_MIXEDCOLS].e[i][r] = i % 2 == 0 ? (T)(double)x : (T)(int)x;
	}
	auto in = [&] { return "values=" + rl::str(a); };
	for (int op = 0; op < CT_NOPS; ++op) {
		if (!(done >> op & 1)) continue;
		auto key = [&] { return shp(C, Rw) + "(" + CTOR_NAME[op] + ")/" + tq; };
		judge(c, k.cls, mk(key), got[op], want[op], nullptr, nullptr, 1, CMP_BITS, "", mk(in));
	}
}
template <int C, int Rw, int C2, int R2, class T, glm::qualifier Q> static void t_conv(pbt::Ctx& c) {
	typedef glm::mat<C, Rw, T, Q> M;
	ConvCase<T> k;
	conv_prepare<T>(c, tqn<T, Q>(), C, Rw, C2, R2, k);
	if constexpr (C != C2 || Rw != R2) {
		if constexpr (HAVE(K_CONV, shx(C, Rw), shx(C2, R2))) { M g(toG<C2, R2, T, Q>(k.a)); conv_finish(c, tqn<T, Q>(), k, C, Rw, fromG(g)); } else skipped(c);
	} else {
		typedef typename OtherT<T>::type U;
		constexpr glm::qualifier P = OtherQ<Q>::value;
		constexpr int SI = shx(C, Rw);
		const Mx<T>& a = k.a;
		Mx<T> got[CT_NOPS];
		uint32_t done = 0; bool missing = false;
		T raw[16];
		for (int i = 0; i < C; ++i) for (int r = 0; r < Rw; ++r) raw[i * Rw + r] = a.e[i][r];
#define CT(I, EXPR) if constexpr (HAVE(K_CTOR, SI, I)) { got[I] = fromG(EXPR); done |= 1u << I; } else missing = true;
		CT(CT_SCALAR, M(a.e[0][0]))
		CT(CT_LIST, (make_list<M>(raw, std::make_index_sequence<C * Rw>())))
		CT(CT_COLUMNS, (make_columns<M, Rw, T, Q>(a, std::make_index_sequence<C>())))
		if constexpr (HAVE(K_CTOR, SI, CT_COPY)) { M src = toG<C, Rw, T, Q>(a); M cp(src); got[CT_COPY] = fromG(cp); done |= 1u << CT_COPY; } else missing = true;
		if constexpr (HAVE(K_CTOR, SI, CT_ASSIGN)) { M src = toG<C, Rw, T, Q>(a); M as(T(0)); as = src; got[CT_ASSIGN] = fromG(as); done |= 1u << CT_ASSIGN; } else missing = true;
		if constexpr (HAVE(K_CTOR, SI, CT_OTHERQ)) { glm::mat<C, Rw, T, P> src = toG<C, Rw, T, P>(a); M g(src); got[CT_OTHERQ] = fromG(g); done |= 1u << CT_OTHERQ; } else missing = true;
		if (k.ucls) {  // static_cast semantics on values that are exact in every type involved
			glm::mat<C, Rw, U, Q> su(U(0));
			glm::mat<C, Rw, U, P> suq(U(0));
			for (int i = 0; i < C; ++i) for (int r = 0; r < Rw; ++r) { su[i][r] = (U)a.e[i][r]; suq[i][r] = (U)a.e[i][r]; }
			CT(CT_OTHERT, M(su))
			CT(CT_OTHERTQ, M(suq))
			CT(CT_MIXEDLIST, (make_mixed<M>(raw, std::make_index_sequence<C * Rw>())))
			CT(CT_MIXEDCOLS, (make_mixed_columns<M, Rw, T, Q>(a, std::make_index_sequence<C>())))
		}
#undef CT
		ctor_finish(c, tqn<T, Q>(), k, got, done, missing);
	}
}

// =============================================================================================
// gtx: major storage, determinant, adjugate (square N), cross product matrix, diagonal
template <int N> struct Major;
#define MAJOR(N, ...) \
	template <> struct Major<N> { \
		template <class T, glm::qualifier Q> static glm::mat<N, N, T, Q> rowv(const glm::vec<N, T, Q>* v) { return glm::rowMajor##N(__VA_ARGS__); } \
		template <class T, glm::qualifier Q> static glm::mat<N, N, T, Q> colv(const glm::vec<N, T, Q>* v) { return glm::colMajor##N(__VA_ARGS__); } \
		template <class T, glm::qualifier Q> static glm::mat<N, N, T, Q> rowm(const glm::mat<N, N, T, Q>& m) { return glm::rowMajor##N(m); } \
		template <class T, glm::qualifier Q> static glm::mat<N, N, T, Q> colm(const glm::mat<N, N, T, Q>& m) { return glm::colMajor##N(m); } \
	};
MAJOR(2, v[0], v[1])
MAJOR(3, v[0], v[1], v[2])
MAJOR(4, v[0], v[1], v[2], v[3])
template <int C, int Rw> struct Diag;
#define DIAG(C, Rw) template <> struct Diag<C, Rw> { template <class T, glm::qualifier Q> static glm::mat<C, Rw, T, Q> call(const glm::vec<(C < Rw ? C : Rw), T, Q>& v) { return glm::diagonal##C##x##Rw(v); } };
DIAG(2, 2) DIAG(2, 3) DIAG(2, 4) DIAG(3, 2) DIAG(3, 3) DIAG(3, 4) DIAG(4, 2) DIAG(4, 3) DIAG(4, 4)

enum { SQ_ROWV, SQ_ROWM, SQ_COLV, SQ_COLM, SQ_DET, SQ_ADJ, SQ_NOPS };
static const char* const SQ_NAME[SQ_NOPS] = {"rowMajor(vectors)", "rowMajor(matrix)", "colMajor(vectors)", "colMajor(matrix)", "determinant", "adjugate"};
template <class T> struct SqCase { int cls, sub; Mx<T> a; };
template <class T> NOINLINE static void square_prepare(pbt::Ctx& c, const std::string& tq, int N, SqCase<T>& k) {
	k.cls = pick<T>(c);
	k.sub = (int)c.draw(SQ_NOPS);
	// determinant / adjugate: products of up to N entries; only exact classes, entries small enough that nothing overflows or rounds
	const bool prod = k.sub >= SQ_DET;
	if (prod && (k.cls == VC_GENERAL || (k.cls == VC_ALT && VT<T>::alt != ALT_WRAP))) k.cls = VC_SMALL;
	Src<T> s(c, k.cls, N * N, prod ? 16 : 0, prod ? 6 : 14);  // 16-bit wrap class: |v| < 2^6 so that the 24 four-factor products of a 4x4 determinant stay inside int (promoted arithmetic must not overflow)
	k.a = Mx<T>(N, N);
	fill(s, k.a);
	c.cls(vcname<T>(k.cls)); c.cls(SQ_NAME[k.sub]);
	Distinct<T> d(s.latin); d.add(k.a);
	if (d.good()) c.nontrivial();
	if (c.verbose) c.logf("%s N=%d %s (%s) A=%s", SQ_NAME[k.sub], N, tq.c_str(), vcname<T>(k.cls), rl::str(k.a).c_str());
}
template <class T> NOINLINE static void square_finish(pbt::Ctx& c, const std::string& tq, const SqCase<T>& k, const Mx<T>& got) {
	const int N = k.a.C;
	auto key = [&] {
		std::string n = std::to_string(N);
		switch (k.sub) {
		case SQ_ROWV: return "rowMajor" + n + "(vectors)/" + tq;
		case SQ_ROWM: return "rowMajor" + n + "(matrix)/" + tq;
		case SQ_COLV: return "colMajor" + n + "(vectors)/" + tq;
		case SQ_COLM: return "colMajor" + n + "(matrix)/" + tq;
		case SQ_DET: return "determinant/" + shp(N, N) + "/" + tq;
		default: return "adjugate/" + shp(N, N) + "/" + tq;
		}
	};
	auto in = [&] { return "A=" + rl::str(k.a); };
	Mx<T> want;
	switch (k.sub) {
	case SQ_ROWV: case SQ_ROWM: want = rl::transpose(k.a); break;  // the vectors passed are the columns of A and become the rows of the result
	case SQ_COLV: case SQ_COLM: want = k.a; break;
	case SQ_DET: want = Mx<T>(1, 1); want.e[0][0] = rl::determinant(k.a); break;
	default: want = rl::adjugate(k.a); break;
	}
	judge(c, k.cls, mk(key), got, want, nullptr, nullptr, 1, k.sub < SQ_DET ? CMP_BITS : CMP_VALUE, "", mk(in));
}
template <int N, class T, glm::qualifier Q> static void t_square(pbt::Ctx& c) {
	SqCase<T> k;
	square_prepare<T>(c, tqn<T, Q>(), N, k);
	glm::mat<N, N, T, Q> A = toG<N, N, T, Q>(k.a);
	glm::vec<N, T, Q> v[4];
	for (int i = 0; i < N; ++i) v[i] = toGv<N, T, Q>(colv(k.a, i));
	Mx<T> got;
	bool have = true;
	switch (k.sub) {
	case SQ_ROWV: if constexpr (HAVE(K_SQUARE, N, SQ_ROWV)) got = fromG(Major<N>::template rowv<T, Q>(v)); else have = false; break;
	case SQ_ROWM: if constexpr (HAVE(K_SQUARE, N, SQ_ROWM)) got = fromG(Major<N>::template rowm<T, Q>(A)); else have = false; break;
	case SQ_COLV: if constexpr (HAVE(K_SQUARE, N, SQ_COLV)) got = fromG(Major<N>::template colv<T, Q>(v)); else have = false; break;
	case SQ_COLM: if constexpr (HAVE(K_SQUARE, N, SQ_COLM)) got = fromG(Major<N>::template colm<T, Q>(A)); else have = false; break;
	case SQ_DET: if constexpr (HAVE(K_SQUARE, N, SQ_DET)) { got = Mx<T>(1, 1); got.e[0][0] = glm::determinant(A); } else have = false; break;
	default: if constexpr (HAVE(K_SQUARE, N, SQ_ADJ)) got = fromG(glm::adjugate(A)); else have = false; break;
	}
	if (have) square_finish(c, tqn<T, Q>(), k, got); else skipped(c);
}
template <class T> NOINLINE static int diag_prepare(pbt::Ctx& c, const std::string& tq, int C, int Rw, Vx<T>& v) {
	const int L = C < Rw ? C : Rw;
	int cls = pick<T>(c);
	Src<T> s(c, cls, L);
	v = Vx<T>(L);
	fill(s, v);
	c.cls(vcname<T>(cls)); c.cls("diagonal");
	Distinct<T> d(false); d.add(v);
	if (d.good()) c.nontrivial();
	if (c.verbose) c.logf("diagonal%dx%d %s (%s) v=%s", C, Rw, tq.c_str(), vcname<T>(cls), rl::str(v).c_str());
	return cls;
}
template <class T> NOINLINE static void diag_finish(pbt::Ctx& c, const std::string& tq, int cls, int C, int Rw, const Vx<T>& v, const Mx<T>& got) {
	auto key = [&] { return "diagonal" + std::to_string(C) + "x" + std::to_string(Rw) + "/" + tq; };
	auto in = [&] { return "v=" + rl::str(v); };
	judge(c, cls, mk(key), got, rl::diagonal(C, Rw, v.e), nullptr, nullptr, 1, CMP_BITS, "", mk(in));
}
template <int C, int Rw, class T, glm::qualifier Q> static void t_diag(pbt::Ctx& c) {
	Vx<T> v;
	int cls = diag_prepare<T>(c, tqn<T, Q>(), C, Rw, v);
	if constexpr (HAVE(K_DIAG, shx(C, Rw), 0)) diag_finish(c, tqn<T, Q>(), cls, C, Rw, v, fromG(Diag<C, Rw>::template call<T, Q>(toGv<(C < Rw ? C : Rw), T, Q>(v))));
	else skipped(c);
}
template <class T> NOINLINE static int cross_prepare(pbt::Ctx& c, const std::string& tq, Vx<T>& x) {
	int cls = pick<T>(c);
	if (cls == VC_GENERAL) cls = VC_SMALL;  // entries are copied or negated, never rounded
	Src<T> s(c, cls, 3);
	x = Vx<T>(3);
	fill(s, x);
	c.cls(vcname<T>(cls)); c.cls("matrixCross");
	Distinct<T> d(false); d.add(x);
	if (d.good()) c.nontrivial();
	if (c.verbose) c.logf("matrixCross3/4 %s (%s) x=%s", tq.c_str(), vcname<T>(cls), rl::str(x).c_str());
	return cls;
}
template <class T> NOINLINE static void cross_finish(pbt::Ctx& c, const std::string& tq, int cls, const Vx<T>& x, const Mx<T>& got, int N) {
	// column k of the cross-product matrix of x is cross(x, e_k), so that M * v = cross(x, v)
	Mx<T> want(N, N);
	for (int k = 0; k < 3; ++k) {
		Vx<T> e(3); e.e[k] = T(1);
		Vx<T> col = rl::cross(x, e);
		for (int r = 0; r < 3; ++r) want.e[k][r] = col.e[r];
	}
	if (N == 4) {  // the element [3][3] of the 4x4 form is not documented (0 in this implementation): counted, not judged
		if (got.e[3][3] == T(0)) c.cls("matrixCross4[3][3]=0"); else if (got.e[3][3] == T(1)) c.cls("matrixCross4[3][3]=1"); else c.cls("matrixCross4[3][3]=other");
		want.e[3][3] = got.e[3][3];
	}
	auto key = [&] { return "matrixCross" + std::to_string(N) + "/" + tq; };
	auto in = [&] { return "x=" + rl::str(x); };
	judge(c, cls, mk(key), got, want, nullptr, nullptr, 1, CMP_VALUE, "", mk(in));
}
template <class T, glm::qualifier Q> static void t_cross(pbt::Ctx& c) {
	Vx<T> x;
	int cls = cross_prepare<T>(c, tqn<T, Q>(), x);
	if constexpr (HAVE(K_CROSS, 3, 0)) cross_finish(c, tqn<T, Q>(), cls, x, fromG(glm::matrixCross3(toGv<3, T, Q>(x))), 3); else skipped(c);
	if constexpr (HAVE(K_CROSS, 4, 0)) cross_finish(c, tqn<T, Q>(), cls, x, fromG(glm::matrixCross4(toGv<3, T, Q>(x))), 4); else skipped(c);
}

// =============================================================================================
// div: square matrices divided by an exactly invertible matrix (signed permutation scaled by powers of two): every step of the
// cofactor inverse and of the following product is exact, so m1/m2 must equal m1 * inverse(m2) exactly.
enum { D_MM, D_CMM, D_MV, D_VM, D_NOPS };
template <class T> struct DivCase { int cls; Mx<T> a, b, binv; Vx<T> v, w; };
template <class T> NOINLINE static void div_prepare(pbt::Ctx& c, const std::string& tq, int N, DivCase<T>& k) {
	k.cls = c.draw(4) == 0 ? VC_ALT : VC_SMALL;
	Src<T> s(c, k.cls, N * N + 2 * N);
	k.a = Mx<T>(N, N); k.v = Vx<T>(N); k.w = Vx<T>(N);
	fill(s, k.a); fill(s, k.v); fill(s, k.w);
	int perm[4] = {0, 1, 2, 3};
	for (int i = N - 1; i > 0; --i) { int j = (int)c.draw((uint64_t)i + 1), t = perm[i]; perm[i] = perm[j]; perm[j] = t; }
	k.b = Mx<T>(N, N); k.binv = Mx<T>(N, N);
	bool ident = true;
	for (int col = 0; col < N; ++col) {
		int e = (int)c.range(-3, 3);
		T val = (T)std::ldexp(c.coin() ? -1.0 : 1.0, e);
		k.b.e[col][perm[col]] = val;            // B e_col = val e_perm[col]
		k.binv.e[perm[col]][col] = T(1) / val;  // B^-1 e_perm[col] = e_col / val
		if (perm[col] != col) ident = false;
	}
	c.cls(vcname<T>(k.cls));
	c.cls(ident ? "divisor diagonal" : "divisor permutes");
	Distinct<T> d(false); d.add(k.a); d.add(k.v); d.add(k.w);
	if (d.good() && !ident) c.nontrivial();
	if (c.verbose) c.logf("division %s %s (%s) A=%s B=%s v=%s w=%s", shp(N, N).c_str(), tq.c_str(), vcname<T>(k.cls), rl::str(k.a).c_str(), rl::str(k.b).c_str(), rl::str(k.v).c_str(), rl::str(k.w).c_str());
}
template <class T> NOINLINE static void div_finish(pbt::Ctx& c, const std::string& tq, const DivCase<T>& k, int op, const Mx<T>& got, bool self_ok) {
	const std::string sh = shp(k.a.C, k.a.C);
	auto key = [&] { return (op == D_MM ? sh + "/" + sh : op == D_CMM ? sh + "/=" + sh : op == D_MV ? sh + "/vec" : "vec/" + sh) + "/" + tq; };
	auto in = [&] { return "A=" + rl::str(k.a) + " B=" + rl::str(k.b) + " (B^-1=" + rl::str(k.binv) + ") v=" + rl::str(k.v) + " w=" + rl::str(k.w); };
	Mx<T> want = op <= D_CMM ? rl::mul(k.a, k.binv) : op == D_MV ? asM(rl::mul_mv(k.binv, k.v)) : asM(rl::mul_vm(k.w, k.binv));
	judge(c, k.cls, mk(key), got, want, nullptr, nullptr, 1, CMP_VALUE, "", mk(in));
	if (!self_ok) c.failk(key() + "/returns-self", "m /= m2 does not return a reference to m");
}
template <int N, class T, glm::qualifier Q> static void t_div(pbt::Ctx& c) {
	DivCase<T> k;
	div_prepare<T>(c, tqn<T, Q>(), N, k);
	glm::mat<N, N, T, Q> A = toG<N, N, T, Q>(k.a), B = toG<N, N, T, Q>(k.b);
	if constexpr (HAVE(K_DIV, N, D_MM)) div_finish(c, tqn<T, Q>(), k, D_MM, fromG(A / B), true); else skipped(c);
	if constexpr (HAVE(K_DIV, N, D_CMM)) { glm::mat<N, N, T, Q> X = A; glm::mat<N, N, T, Q>* p = &(X /= B); div_finish(c, tqn<T, Q>(), k, D_CMM, fromG(X), p == &X); } else skipped(c);
	if constexpr (HAVE(K_DIV, N, D_MV)) div_finish(c, tqn<T, Q>(), k, D_MV, asM(fromGv(B / toGv<N, T, Q>(k.v))), true); else skipped(c);   // inverse(B) * v
	if constexpr (HAVE(K_DIV, N, D_VM)) div_finish(c, tqn<T, Q>(), k, D_VM, asM(fromGv(toGv<N, T, Q>(k.w) / B)), true); else skipped(c);   // w * inverse(B)
}

// =============================================================================================
// instance dispatch per family
#define SHAPES(X) X(0, 2, 2) X(1, 2, 3) X(2, 2, 4) X(3, 3, 2) X(4, 3, 3) X(5, 3, 4) X(6, 4, 2) X(7, 4, 3) X(8, 4, 4)
#define SHAPES2(X) X(0, 2, 2) X(1, 2, 3) X(2, 2, 4) X(3, 3, 2) X(4, 3, 3) X(5, 3, 4) X(6, 4, 2) X(7, 4, 3) X(8, 4, 4)
enum { F_MUL, F_MULVEC, F_FUNC, F_ELEM, F_ACCESS, F_CONVERT, F_GTX, F_DIV };
template <int FAM, class T, glm::qualifier Q> struct Fam;
template <class T, glm::qualifier Q> struct Fam<F_MUL, T, Q> {
	static void run(pbt::Ctx& c) {
		switch (c.draw(27)) {
#define X(I, C, R) case I * 3: t_mul<C, R, 2, T, Q>(c); break; case I * 3 + 1: t_mul<C, R, 3, T, Q>(c); break; case I * 3 + 2: t_mul<C, R, 4, T, Q>(c); break;
			SHAPES(X)
#undef X
		}
	}
};
#define FAM9(F, FN) \
	template <class T, glm::qualifier Q> struct Fam<F, T, Q> { static void run(pbt::Ctx& c) { switch (c.draw(9)) { SHAPES(FN) } } };
#define X_MULVEC(I, C, R) case I: t_mulvec<C, R, T, Q>(c); break;
#define X_FUNC(I, C, R) case I: t_func<C, R, T, Q>(c); break;
#define X_ELEM(I, C, R) case I: t_elem<C, R, T, Q>(c); break;
#define X_ACCESS(I, C, R) case I: t_access<C, R, T, Q>(c); break;
FAM9(F_MULVEC, X_MULVEC)
FAM9(F_FUNC, X_FUNC)
FAM9(F_ELEM, X_ELEM)
FAM9(F_ACCESS, X_ACCESS)
template <int C2, int R2, class T, glm::qualifier Q> static void conv_from(pbt::Ctx& c, int dst) {
	switch (dst) {
#define X(I, C, R) case I: t_conv<C, R, C2, R2, T, Q>(c); break;
		SHAPES(X)
#undef X
	}
}
template <class T, glm::qualifier Q> struct Fam<F_CONVERT, T, Q> {
	static void run(pbt::Ctx& c) {
		int k = (int)c.draw(81);
		switch (k / 9) {
#define X(I, C, R) case I: conv_from<C, R, T, Q>(c, k % 9); break;
			SHAPES2(X)
#undef X
		}
	}
};
template <class T, glm::qualifier Q> struct Fam<F_GTX, T, Q> {
	static void run(pbt::Ctx& c) {
		switch (c.draw(24)) {
		case 0: case 1: case 2: case 3: t_square<2, T, Q>(c); break;
		case 4: case 5: case 6: case 7: t_square<3, T, Q>(c); break;
		case 8: case 9: case 10: case 11: t_square<4, T, Q>(c); break;
		case 12: case 13: case 14: t_cross<T, Q>(c); break;
#define X(I, C, R) case 15 + I: t_diag<C, R, T, Q>(c); break;
			SHAPES(X)
#undef X
		}
	}
};
template <class T, glm::qualifier Q> struct Fam<F_DIV, T, Q> {
	static void run(pbt::Ctx& c) { switch (c.draw(3)) { case 0: t_div<2, T, Q>(c); break; case 1: t_div<3, T, Q>(c); break; default: t_div<4, T, Q>(c); break; } }
};

template <class T_, glm::qualifier Q_> struct TQ { typedef T_ T; static const glm::qualifier Q = Q_; };
template <class... E> struct Group {};
template <int FAM, class G> struct Prop;
template <int FAM, class... E> struct Prop<FAM, Group<E...>> {
	static void run(pbt::Ctx& c) {
		const int n = (int)sizeof...(E);
		int i = n > 1 ? (int)c.draw(n) : 0, k = 0;
		(void)std::initializer_list<int>{(k++ == i ? (Fam<FAM, typename E::T, E::Q>::run(c), 0) : 0)...};
	}
};

#ifndef C02_PROBE
// =============================================================================================
// registration
#define RULE_DISTINCT "non-trivial = no zero entry and all entries of all operands pairwise distinct (8-bit signed small-int class: within every row, column and vector), so any transposed or repeated index changes the result"
#define REG(FAM, G, GN, NAME, Q_, T_, RULE) static pbt::Reg reg_##FAM##_##GN(NAME "/" GS_##GN, &Prop<FAM, G>::run, (uint64_t)(Q_), (uint64_t)(T_), RULE)
// C02_FAMS: bit mask of the families registered by this translation unit (compile-time split of one element-type group)
#ifndef C02_FAMS
#define C02_FAMS 0xff
#endif
#if C02_FAMS & 1
#define REG_MUL(G, GN, SC, TC) REG(F_MUL, G, GN, "mat*mat", 1000000 * SC, 100000000ULL * TC, "one of the 27 products mat<C,R>*mat<C2,C> (square: also m*=m) per case against (A*B)[c][r]=sum_k A[k][r]*B[c][k]; value classes small-int/dyadic/large/wrap (exact), general floats (8 K u sum|a_k b_k|), zeros; " RULE_DISTINCT);
#else
#define REG_MUL(G, GN, SC, TC)
#endif
#if C02_FAMS & 2
#define REG_MULVEC(G, GN, SC, TC) REG(F_MULVEC, G, GN, "mat*vec,vec*mat", 500000 * SC, 50000000ULL * TC, "one of the 9 shapes per case: (M*v)[r]=sum_k M[k][r] v[k] and (v*M)[c]=sum_r v[r] M[c][r]; same value classes; " RULE_DISTINCT);
#else
#define REG_MULVEC(G, GN, SC, TC)
#endif
#if C02_FAMS & 4
#define REG_FUNC(G, GN, SC, TC) REG(F_FUNC, G, GN, "transpose,outerProduct,matrixCompMult", 500000 * SC, 50000000ULL * TC, "one of the 9 shapes per case: transpose (bit copy), outerProduct(c,r)[j][i]=c[i]*r[j], matrixCompMult[c][r]=x[c][r]*y[c][r] (one correctly rounded product); " RULE_DISTINCT);
#else
#define REG_FUNC(G, GN, SC, TC)
#endif
#if C02_FAMS & 8
#define REG_ELEM(G, GN, SC, TC) REG(F_ELEM, G, GN, "elementwise", 300000 * SC, 30000000ULL * TC, "one of the 9 shapes per case, every element-wise operator (binary with scalar/matrix, unary, compound incl. other scalar type, ++/--, ==/!=, operator=) against the single IEEE / modular operation per element; divisors non-zero; " RULE_DISTINCT);
#else
#define REG_ELEM(G, GN, SC, TC)
#endif
#if C02_FAMS & 16
#define REG_ACCESS(G, GN, SC, TC) REG(F_ACCESS, G, GN, "access", 300000 * SC, 30000000ULL * TC, "one of the 9 shapes per case: operator[] against the column-major byte image (read, const read, write), column assignment, gtc row()/column() get and set at a random index; bit comparison; " RULE_DISTINCT);
#else
#define REG_ACCESS(G, GN, SC, TC)
#endif
#if C02_FAMS & 32
#define REG_CONVERT(G, GN, SC, TC) REG(F_CONVERT, G, GN, "convert", 1000000 * SC, 100000000ULL * TC, "one of the 81 (destination, source) shape pairs per case: overlapping block copied, rest identity (bit comparison); same-shape pairs run the scalar / element-list / column / copy / other-qualifier / other-type / mixed-type constructors; non-trivial = source entries pairwise distinct, none 0 or 1 (distinguishable from the padding)");
#else
#define REG_CONVERT(G, GN, SC, TC)
#endif
#if C02_FAMS & 64
#define REG_GTX(G, GN, SC, TC) REG(F_GTX, G, GN, "gtx", 300000 * SC, 30000000ULL * TC, "rowMajorN/colMajorN from vectors and from a matrix, determinant and adjugate (N=2,3,4; exact classes with |entries|<=16), matrixCross3/4 (column k = cross(x,e_k)), diagonalCxR for the 9 shapes; " RULE_DISTINCT);
#else
#define REG_GTX(G, GN, SC, TC)
#endif
#if C02_FAMS & 128
#define REG_DIV(G, GN, SC, TC) REG(F_DIV, G, GN, "division", 300000 * SC, 30000000ULL * TC, "square N=2,3,4: A/B, A/=B, B/v (=inverse(B)*v), w/B (=w*inverse(B)) with B a signed permutation matrix scaled by powers of two (its cofactor inverse is exact) and A, v, w distinct small integers or dyadics; exact comparison; non-trivial = B is not diagonal and all entries of A, v, w distinct non-zero");
#else
#define REG_DIV(G, GN, SC, TC)
#endif
#define REG_GROUP(G, GN, SC, TC) REG_MUL(G, GN, SC, TC) REG_MULVEC(G, GN, SC, TC) REG_FUNC(G, GN, SC, TC) REG_ELEM(G, GN, SC, TC) REG_ACCESS(G, GN, SC, TC) REG_CONVERT(G, GN, SC, TC) REG_GTX(G, GN, SC, TC)

#if C02_PART == 0
typedef Group<TQ<float, glm::highp>> G_float;
#define GS_float "float"
REG_GROUP(G_float, float, 1, 1)
REG_DIV(G_float, float, 1, 1)

// ---- instantiation: units whose GLM expression is declared for the element type but does not compile (found by the pre-pass)
struct Missing { int kind, s1, s2, ty; const char* err; };
static const Missing MISSING[] = {
#define X(K, S1, S2, TY, ERR) {K, S1, S2, TY, ERR},
	C02_MISSING(X)
#undef X
	{-1, 0, 0, 0, ""}};
static std::string type_name(int ty) {
	static const char* const B[10] = {"float", "double", "int8", "uint8", "int16", "uint16", "int32", "uint32", "int64", "uint64"};
	return std::string(B[ty & 15]) + (ty >> 4 == 0 ? "" : ty >> 4 == 1 ? ".mediump" : ".lowp");
}
static std::string shape_name(int s) { return shp(2 + s / 3, 2 + s % 3); }
static std::string unit_name(const Missing& m) {
	const std::string t = "/" + type_name(m.ty), s = m.kind == K_MULC || m.kind == K_SQUARE || m.kind == K_DIV ? shp(m.s1, m.s1) : m.kind == K_CROSS ? "" : shape_name(m.s1);
	const int C = 2 + m.s1 / 3, Rw = 2 + m.s1 % 3;
	switch (m.kind) {
	case K_MUL: return s + "*" + shp(m.s2, C) + t;
	case K_MULC: return s + "*=" + s + t;
	case K_MV: return s + "*vec" + std::to_string(C) + t;
	case K_VM: return "vec" + std::to_string(Rw) + "*" + s + t;
	case K_TRANSPOSE: return "transpose/" + s + t;
	case K_OUTER: return "outerProduct/vec" + std::to_string(Rw) + ",vec" + std::to_string(C) + t;
	case K_COMPMULT: return "matrixCompMult/" + s + t;
	case K_ELEM: return std::string(m.s2 >= 0 && m.s2 < E_NOPS ? ELEM_NAME[m.s2] : "?") + "/" + s + t;
	case K_ACCESS: return "access/" + s + t;
	case K_CONV: return s + "(" + shape_name(m.s2) + ")" + t;
	case K_CTOR: return s + "(" + (m.s2 >= 0 && m.s2 < CT_NOPS ? CTOR_NAME[m.s2] : "?") + ")" + t;
	case K_SQUARE: return std::string(m.s2 >= 0 && m.s2 < SQ_NOPS ? SQ_NAME[m.s2] : "?") + "/" + s + t;
	case K_CROSS: return "matrixCross" + std::to_string(m.s1) + t;
	case K_DIAG: return "diagonal" + std::to_string(C) + "x" + std::to_string(Rw) + t;
	case K_DIV: return std::string(m.s2 == D_MM ? "m/m" : m.s2 == D_CMM ? "m/=m" : m.s2 == D_MV ? "m/v" : "v/m") + "/" + s + t;
	}
	return "?";
}
static void prop_inst(pbt::Ctx& c) {
	const int N = (int)(sizeof(MISSING) / sizeof(MISSING[0])) - 1;
	int i = (int)c.draw((uint64_t)(N > 0 ? N : 1));
	c.metric("instantiation units probed (every guarded GLM expression x shape x element type)", (double)C02_UNITS_PROBED);
	if (N == 0) { c.logf("all %d units instantiate", (int)C02_UNITS_PROBED); return; }
	std::string n = unit_name(MISSING[i]);
	c.logf("%s: declared for this element type, body does not compile", n.c_str());
	c.nontrivial();
	c.cls("uninstantiable");
	c.failk("uninstantiable/" + n, "%s is declared for this element type but its body does not compile (first error: %s)", n.c_str(), MISSING[i].err);
}
PBT_SWEEP("instantiation", prop_inst, (sizeof(MISSING) / sizeof(MISSING[0])) > 1 ? (sizeof(MISSING) / sizeof(MISSING[0])) - 1 : 1, 1, 1,
          "every guarded GLM expression (operation x shape x element type x qualifier) compiled with -fsyntax-only by the pre-pass (structured bisection); the units that do not instantiate are enumerated here; all are non-trivial");
int main(int argc, char** argv) { return pbt::pbt_main(argc, argv, "C02"); }
#elif C02_PART == 1
typedef Group<TQ<double, glm::highp>> G_double;
#define GS_double "double"
REG_GROUP(G_double, double, 1, 1)
REG_DIV(G_double, double, 1, 1)
#elif C02_PART == 2
typedef Group<TQ<glm::int32, glm::highp>> G_int32;
#define GS_int32 "int32"
REG_GROUP(G_int32, int32, 1, 1)
#elif C02_PART == 3
typedef Group<TQ<glm::uint32, glm::highp>> G_uint32;
#define GS_uint32 "uint32"
REG_GROUP(G_uint32, uint32, 1, 1)
#elif C02_PART == 4
typedef Group<TQ<glm::int8, glm::highp>, TQ<glm::uint8, glm::highp>> G_int8;
#define GS_i8 "int8,uint8"
REG_GROUP(G_int8, i8, 0.5, 1)
#elif C02_PART == 5
typedef Group<TQ<glm::int16, glm::highp>, TQ<glm::uint16, glm::highp>> G_int16;
#define GS_i16 "int16,uint16"
REG_GROUP(G_int16, i16, 0.5, 1)
#elif C02_PART == 6
typedef Group<TQ<glm::int64, glm::highp>, TQ<glm::uint64, glm::highp>> G_int64;
#define GS_i64 "int64,uint64"
REG_GROUP(G_int64, i64, 0.5, 1)
#elif C02_PART == 7
typedef Group<TQ<float, glm::mediump>, TQ<double, glm::lowp>> G_fq;
#define GS_fq "float.mediump,double.lowp"
REG_GROUP(G_fq, fq, 0.5, 1)
REG_DIV(G_fq, fq, 0.5, 1)
#elif C02_PART == 8
typedef Group<TQ<glm::int32, glm::lowp>, TQ<glm::uint32, glm::mediump>> G_iq;
#define GS_iq "int32.lowp,uint32.mediump"
REG_GROUP(G_iq, iq, 0.5, 1)
#endif
#endif  // !C02_PROBE
