// C02 — matrix operators and functions implement textbook column-major linear algebra for all nine shapes.
//
// This file is the whole harness; it is compiled several times (C02_PART selects the element types of one translation
// unit, see the part files C02_part_*.cpp which only define C02_PART and include this file; part 0 owns main()).
//
// Families (one target per family and element-type group; every case first draws the concrete instance):
//   mul      27 products mat<C,R> * mat<C2,C>  (+ the square compound  m *= m)
//   mulvec   9 mat<C,R> * vec<C>  and  9 vec<R> * mat<C,R>
//   func     transpose, outerProduct, matrixCompMult for the 9 shapes (integer types through ext/matrix_integer.hpp)
//   elem     m+s m-s m*s s*m m/s s/m m+m m-m -m +m (square: s+m s-m), compound += -= *= /= with scalar and matrix (same and
//            other scalar type U), ++ -- prefix/postfix, == !=, operator=(mat<U>)
//   access   operator[] (const and not) against the column-major byte image, gtc row()/column() get and set, length()
//   convert  81 shape conversions (same-shape slot: scalar / element-list / column / mixed-type / cross-type / cross-qualifier constructors)
//   gtx      rowMajorN / colMajorN (vectors and matrix), matrixCross3/4, diagonalCxR, adjugate, determinant (exact classes)
//   div      square m/m, m/=m, m/v, v/m with exactly invertible divisors (signed permutations scaled by powers of two)
// Oracle: engine/ref/reflinalg.hpp (triple loops over plain arrays, integers in 128-bit modular arithmetic, floating types in
// long double). Value classes: small-int (pairwise distinct non-zero small integers: every product and sum is exact in every element
// type), dyadic (k*2^e, exact), large (signed 32/64-bit, no overflow), wrap (unsigned and 8/16-bit types: the modular result),
// general (finite floats of mixed magnitude 2^-30..2^30: |err| <= 8 K u sum|a_k b_k| for a length-K inner product, single
// operations must be the correctly rounded IEEE result), zeros (0, -0, +-1, 2 with repeats).
#ifndef C02_PART
#define C02_PART 0
#endif
#include "fp.hpp"
#include "ref/reflinalg.hpp"
#include <glm/glm.hpp>
#include <glm/ext/matrix_integer.hpp>
#include <glm/ext/scalar_int_sized.hpp>
#include <glm/ext/scalar_uint_sized.hpp>
#include <glm/gtc/matrix_access.hpp>
#include <glm/gtx/matrix_operation.hpp>
#include <glm/gtx/matrix_major_storage.hpp>
#include <glm/gtx/matrix_cross_product.hpp>
#include <utility>

namespace rl = reflinalg;
using rl::Mx;
using rl::Vx;
typedef long double LD;

// =============================================================================================
// element types, names, value classes
template <class T> struct TN;
#define TNAME(T_, N_) template <> struct TN<T_> { static const char* name() { return N_; } };
TNAME(float, "float") TNAME(double, "double") TNAME(glm::int8, "int8") TNAME(glm::uint8, "uint8") TNAME(glm::int16, "int16") TNAME(glm::uint16, "uint16")
TNAME(glm::int32, "int32") TNAME(glm::uint32, "uint32") TNAME(glm::int64, "int64") TNAME(glm::uint64, "uint64")
template <class T, glm::qualifier Q> static const std::string& tqn() {
	static const std::string s = std::string(TN<T>::name()) + (Q == glm::highp ? "" : Q == glm::mediump ? ".mediump" : ".lowp");
	return s;
}
static std::string shp(int C, int Rw) { char b[24]; snprintf(b, sizeof b, "mat%dx%d", C, Rw); return b; }

enum { VC_SMALL = 0, VC_ALT = 1, VC_GENERAL = 2, VC_ZEROS = 3 };
enum { ALT_DYADIC, ALT_LARGE, ALT_WRAP };
template <class T> struct VT {
	static const bool flt = std::is_floating_point<T>::value;
	static const bool sgn = std::is_signed<T>::value;
	static const int bits = sizeof(T) * 8;
	static const int alt = flt ? ALT_DYADIC : ((sgn && bits >= 32) ? ALT_LARGE : ALT_WRAP);
	// largest |v| of the small-int class: K<=4 products and their sums stay exactly representable (8-bit signed: 4*5*5 <= 127)
	static int small_max() { return flt ? 128 : bits == 8 ? (sgn ? 5 : 127) : bits == 16 ? (sgn ? 64 : 128) : 128; }
};
template <class T> static const char* vcname(int cls) {
	switch (cls) {
	case VC_SMALL: return "small-int";
	case VC_ALT: return VT<T>::alt == ALT_DYADIC ? "dyadic" : VT<T>::alt == ALT_LARGE ? "large" : "wrap";
	case VC_GENERAL: return "general";
	default: return "zeros";
	}
}
template <class T> static int pick(pbt::Ctx& c) {
	uint64_t k = c.draw(8);
	if (VT<T>::flt) return k < 3 ? VC_SMALL : k == 3 ? VC_ALT : k < 7 ? VC_GENERAL : VC_ZEROS;
	return k < 4 ? VC_SMALL : k < 7 ? VC_ALT : VC_ZEROS;
}

// value source of one case: values of the small-int / dyadic / 8-bit wrap classes are drawn without replacement, so all entries of
// all operands are pairwise distinct as long as the pool lasts (`need` values); when the pool is too small for that (8-bit signed:
// ten values) matrices are filled with a Latin pattern whose rows and columns are duplicate-free and which is not symmetric.
template <class T> struct Src {
	pbt::Ctx& c;
	int cls, maxabs, wrap16;
	bool latin;
	int pool[256], np;
	Src(pbt::Ctx& c_, int cls_, int need, int cap = 0, int wrap16_ = 14) : c(c_), cls(cls_), wrap16(wrap16_), np(0) {
		maxabs = (cls == VC_ALT && VT<T>::alt == ALT_DYADIC) ? 32 : VT<T>::small_max();
		if (cap && maxabs > cap) maxabs = cap;
		latin = cls == VC_SMALL && 2 * maxabs < need && 2 * maxabs >= 10;
		refill();
	}
	void refill() {
		np = 0;
		if (cls == VC_ALT && VT<T>::alt == ALT_WRAP && VT<T>::bits == 8) { for (int v = 1; v < 256; ++v) pool[np++] = v; return; }
		if (VT<T>::sgn) { for (int v = -maxabs; v <= maxabs; ++v) if (v) pool[np++] = v; }
		else for (int v = 1; v <= 2 * maxabs; ++v) pool[np++] = v;
	}
	int take() {
		if (!np) refill();
		int j = (int)c.draw((uint64_t)np), v = pool[j];
		pool[j] = pool[--np];
		return v;
	}
	T next() {
		switch (cls) {
		case VC_SMALL: return (T)take();
		case VC_ALT:
			if (VT<T>::alt == ALT_DYADIC) { int k = take(), e = (int)c.range(-2, 2); return (T)std::ldexp((double)k, e); }
			if (VT<T>::alt == ALT_LARGE) { int64_t v = 1 + (int64_t)c.draw((1ULL << (VT<T>::bits == 32 ? 14 : 30)) - 1); return (T)(c.coin() ? -v : v); }
			if (VT<T>::bits == 8) return (T)(uint8_t)take();
			if (VT<T>::bits == 16) { int64_t v = 1 + (int64_t)c.draw((1ULL << wrap16) - 1); return (T)((VT<T>::sgn && c.coin()) ? -v : v); }  // int arithmetic on promoted operands must not overflow
			{ T v = (T)c.draw(0); return v ? v : (T)1; }
		case VC_GENERAL:
			if constexpr (VT<T>::flt) return fp::gen_moderate<T>(c, 30, 30);
			return (T)1;
		default: {
			if constexpr (VT<T>::flt) { static const T Z[8] = {T(0), T(1), -T(0), T(-1), T(2), T(0), T(1), T(0)}; return Z[c.draw(8)]; }
			else if constexpr (VT<T>::sgn) { static const T Z[8] = {0, 1, -1, 2, 0, 0, 1, -2}; return Z[c.draw(8)]; }
			else { static const T Z[8] = {0, 1, 2, 3, 0, 0, 1, 0}; return Z[c.draw(8)]; }
		}
		}
	}
};
template <class T> static void fill(Src<T>& s, Mx<T>& m) {
	if (s.latin) {
		int vals[10];
		s.refill();
		for (int i = 0; i < 10; ++i) vals[i] = s.take();
		int sh = (int)s.c.draw(10);
		for (int c = 0; c < m.C; ++c) for (int r = 0; r < m.R; ++r) m.e[c][r] = (T)vals[(c + 3 * r + sh) % 10];
		s.refill();
		return;
	}
	for (int c = 0; c < m.C; ++c) for (int r = 0; r < m.R; ++r) m.e[c][r] = s.next();
}
template <class T> static void fill(Src<T>& s, Vx<T>& v) { for (int i = 0; i < v.L; ++i) v.e[i] = s.next(); }
template <class T> static T nz(T v) { return v == T(0) ? T(3) : v; }  // divisors
template <class T> static void make_nz(Mx<T>& m) { for (int c = 0; c < m.C; ++c) for (int r = 0; r < m.R; ++r) m.e[c][r] = nz(m.e[c][r]); }

// non-trivial rule: no zero entry and all entries of all operands pairwise distinct (Latin class: within every row, column, vector)
template <class T> struct Distinct {
	bool latin, ok;
	T v[72];
	int n;
	explicit Distinct(bool l) : latin(l), ok(true), n(0) {}
	static bool pairwise(const T* p, int k) {
		for (int i = 0; i < k; ++i) { if (p[i] == T(0)) return false; for (int j = 0; j < i; ++j) if (p[i] == p[j]) return false; }
		return true;
	}
	void add(T x) { if (n < 72) v[n++] = x; }
	void add(const Vx<T>& x) { if (latin) ok = ok && pairwise(x.e, x.L); else for (int i = 0; i < x.L; ++i) add(x.e[i]); }
	void add(const Mx<T>& m) {
		if (!latin) { for (int c = 0; c < m.C; ++c) for (int r = 0; r < m.R; ++r) add(m.e[c][r]); return; }
		for (int c = 0; c < m.C; ++c) ok = ok && pairwise(m.e[c], m.R);
		for (int r = 0; r < m.R; ++r) { T row[4]; for (int c = 0; c < m.C; ++c) row[c] = m.e[c][r]; ok = ok && pairwise(row, m.C); }
	}
	bool good() const { return ok && (latin || pairwise(v, n)); }
};

// =============================================================================================
// GLM <-> plain arrays (only operator[] of mat and vec is used here; `access` ties operator[] to the byte image and to the constructors)
template <int C, int Rw, class T, glm::qualifier Q> static inline glm::mat<C, Rw, T, Q> toG(const Mx<T>& a) {
	glm::mat<C, Rw, T, Q> m(T(0));
	for (int c = 0; c < C; ++c) for (int r = 0; r < Rw; ++r) m[c][r] = a.e[c][r];
	return m;
}
template <int C, int Rw, class T, glm::qualifier Q> static inline Mx<T> fromG(const glm::mat<C, Rw, T, Q>& m) {
	Mx<T> a(C, Rw);
	for (int c = 0; c < C; ++c) for (int r = 0; r < Rw; ++r) a.e[c][r] = m[c][r];
	return a;
}
template <int L, class T, glm::qualifier Q> static inline glm::vec<L, T, Q> toGv(const Vx<T>& a) {
	glm::vec<L, T, Q> v(T(0));
	for (int i = 0; i < L; ++i) v[i] = a.e[i];
	return v;
}
template <int L, class T, glm::qualifier Q> static inline Vx<T> fromGv(const glm::vec<L, T, Q>& v) {
	Vx<T> a(L);
	for (int i = 0; i < L; ++i) a.e[i] = v[i];
	return a;
}
template <class T> static inline Mx<T> asM(const Vx<T>& v) { Mx<T> m(1, v.L); for (int i = 0; i < v.L; ++i) m.e[0][i] = v.e[i]; return m; }
static inline Mx<LD> asM(const LD* v, int L) { Mx<LD> m(1, L); for (int i = 0; i < L; ++i) m.e[0][i] = v[i]; return m; }

// =============================================================================================
// comparison
template <class T> static inline bool eqv(T a, T b) { if constexpr (std::is_floating_point<T>::value) return fp::same_value(a, b); else return a == b; }
template <class T> static inline bool eqb(T a, T b) { return memcmp(&a, &b, sizeof(T)) == 0; }
enum { CMP_VALUE = 0, CMP_BITS = 1 };
// index c*4+r of the first mismatch, -1 if none
template <class T> __attribute__((noinline)) static int mdiff(pbt::Ctx& c, const Mx<T>& g, const Mx<T>& w, int mode) {
	for (int i = 0; i < w.C; ++i) for (int r = 0; r < w.R; ++r) {
		if (mode == CMP_BITS ? !eqb(g.e[i][r], w.e[i][r]) : !eqv(g.e[i][r], w.e[i][r])) return i * 4 + r;
		if (mode == CMP_VALUE && !eqb(g.e[i][r], w.e[i][r])) c.cls("zero-sign-differs(counted)");
	}
	return -1;
}
// inputs are described lazily (only when a failure is reported) through a type-erased thunk, so the checking code is
// instantiated once per element type and not once per call site
struct In {
	std::string (*fn)(const void*);
	const void* ctx;
	std::string operator()() const { return fn(ctx); }
};
template <class L> static inline In mk(const L& l) { return In{[](const void* p) { return (*static_cast<const L*>(p))(); }, &l}; }
template <class T> __attribute__((noinline)) static void mfail(pbt::Ctx& c, const std::string& key, int idx, const Mx<T>& g, const Mx<T>& w, const std::string& inputs) {
	c.failk(key, "result[%d][%d] = %s, expected %s; %s; got %s, expected %s", idx / 4, idx % 4, rl::num(g.e[idx / 4][idx % 4]).c_str(), rl::num(w.e[idx / 4][idx % 4]).c_str(),
	        inputs.c_str(), rl::str(g).c_str(), rl::str(w).c_str());
}
// exact classes: VALUE/BITS against `want`; general floats with an inner product of length K: |got - exact| <= 8 K u scale
template <class T> __attribute__((noinline)) static void judge(pbt::Ctx& c, int cls, const std::string& opkey, const Mx<T>& got, const Mx<T>& want, const Mx<LD>* ex, const Mx<LD>* sc, int K, int mode, const char* metric, In inputs) {
	if (cls != VC_GENERAL || !ex) {
		int i = mdiff(c, got, want, mode);
		if (i >= 0) mfail(c, opkey + "/" + vcname<T>(cls), i, got, want, inputs());
		return;
	}
	if constexpr (VT<T>::flt) {
		const LD u = fp::eps<T>() / 2;
		for (int i = 0; i < want.C; ++i) for (int r = 0; r < want.R; ++r) {
			LD tol = 8 * K * u * sc->e[i][r] + (LD)std::numeric_limits<T>::denorm_min();
			LD err = (LD)got.e[i][r] - ex->e[i][r];
			if (err < 0) err = -err;
			bool bad = !(err <= tol);  // NaN/inf in the result fails
			c.metric(metric, bad && !(err == err) ? 1e30 : (double)(err / tol));
			if (bad) {
				c.failk(opkey + "/general", "result[%d][%d] = %.17g, sum of products %.21Lg, |error| %.3Lg exceeds 8*K*u*sum|a_k b_k| = %.3Lg (K=%d); %s", i, r, (double)got.e[i][r], ex->e[i][r], err, tol, K,
				        inputs().c_str());
				return;
			}
		}
	}
}

// =============================================================================================
// mul: mat<C,Rw> * mat<C2,C> -> mat<C2,Rw>
template <int C, int Rw, int C2, class T, glm::qualifier Q> static void t_mul(pbt::Ctx& c) {
	static const std::string op = shp(C, Rw) + "*" + shp(C2, C) + "/" + tqn<T, Q>(), opc = shp(C, Rw) + "*=" + shp(C2, C) + "/" + tqn<T, Q>();
	const int cls = pick<T>(c);
	Src<T> s(c, cls, C * Rw + C2 * C);
	Mx<T> a(C, Rw), b(C2, C);
	fill(s, a); fill(s, b);
	c.cls(vcname<T>(cls));
	Distinct<T> d(s.latin); d.add(a); d.add(b);
	if (d.good()) c.nontrivial();
	if (c.verbose) c.logf("%s (%s) A=%s B=%s", op.c_str(), vcname<T>(cls), rl::str(a).c_str(), rl::str(b).c_str());
	Mx<LD> ex(C2, Rw), sc(C2, Rw);
	Mx<T> want = rl::mul(a, b, &ex, &sc);
	auto in = [&] { return "A=" + rl::str(a) + " B=" + rl::str(b); };
	glm::mat<C, Rw, T, Q> A = toG<C, Rw, T, Q>(a);
	glm::mat<C2, C, T, Q> B = toG<C2, C, T, Q>(b);
	glm::mat<C2, Rw, T, Q> P = A * B;
	judge(c, cls, op, fromG(P), want, &ex, &sc, C, CMP_VALUE, "mat*mat err/tol", mk(in));
	if constexpr (C == Rw && C2 == C) {
		glm::mat<C, Rw, T, Q> X = A;
		glm::mat<C, Rw, T, Q>* p = &(X *= B);
		judge(c, cls, opc, fromG(X), want, &ex, &sc, C, CMP_VALUE, "mat*=mat err/tol", mk(in));
		if (p != &X) c.failk(opc + "/returns-self", "m *= m2 does not return a reference to m");
	}
}

// mulvec: mat<C,Rw> * vec<C> -> vec<Rw>;  vec<Rw> * mat<C,Rw> -> vec<C>
template <int C, int Rw, class T, glm::qualifier Q> static void t_mulvec(pbt::Ctx& c) {
	static const std::string op1 = shp(C, Rw) + "*vec" + std::to_string(C) + "/" + tqn<T, Q>(), op2 = "vec" + std::to_string(Rw) + "*" + shp(C, Rw) + "/" + tqn<T, Q>();
	const int cls = pick<T>(c);
	Src<T> s(c, cls, C * Rw + C + Rw);
	Mx<T> a(C, Rw);
	Vx<T> v(C), w(Rw);
	fill(s, a); fill(s, v); fill(s, w);
	c.cls(vcname<T>(cls));
	Distinct<T> d(s.latin); d.add(a); d.add(v); d.add(w);
	if (d.good()) c.nontrivial();
	if (c.verbose) c.logf("%s, %s (%s) M=%s v=%s w=%s", op1.c_str(), op2.c_str(), vcname<T>(cls), rl::str(a).c_str(), rl::str(v).c_str(), rl::str(w).c_str());
	glm::mat<C, Rw, T, Q> A = toG<C, Rw, T, Q>(a);
	{
		LD ex[4], sc[4];
		Vx<T> want = rl::mul_mv(a, v, ex, sc);
		glm::vec<Rw, T, Q> g = A * toGv<C, T, Q>(v);
		Mx<LD> mex = asM(ex, Rw), msc = asM(sc, Rw);
		judge(c, cls, op1, asM(fromGv(g)), asM(want), &mex, &msc, C, CMP_VALUE, "mat*vec err/tol", mk([&] { return "M=" + rl::str(a) + " v=" + rl::str(v); }));
	}
	{
		LD ex[4], sc[4];
		Vx<T> want = rl::mul_vm(w, a, ex, sc);
		glm::vec<C, T, Q> g = toGv<Rw, T, Q>(w) * A;
		Mx<LD> mex = asM(ex, C), msc = asM(sc, C);
		judge(c, cls, op2, asM(fromGv(g)), asM(want), &mex, &msc, Rw, CMP_VALUE, "vec*mat err/tol", mk([&] { return "v=" + rl::str(w) + " M=" + rl::str(a); }));
	}
}

// func: transpose, outerProduct, matrixCompMult
template <class T, class F> static Mx<T> map2(const Mx<T>& x, const Mx<T>& y, F f) {
	Mx<T> o(x.C, x.R);
	for (int c = 0; c < x.C; ++c) for (int r = 0; r < x.R; ++r) o.e[c][r] = f(x.e[c][r], y.e[c][r]);
	return o;
}
template <class T, class F> static Mx<T> map1(const Mx<T>& x, F f) {
	Mx<T> o(x.C, x.R);
	for (int c = 0; c < x.C; ++c) for (int r = 0; r < x.R; ++r) o.e[c][r] = f(x.e[c][r]);
	return o;
}
template <int C, int Rw, class T, glm::qualifier Q> static void t_func(pbt::Ctx& c) {
	static const std::string tq = "/" + tqn<T, Q>(), opt = "transpose/" + shp(C, Rw) + tq, opo = "outerProduct/vec" + std::to_string(Rw) + ",vec" + std::to_string(C) + tq, opm = "matrixCompMult/" + shp(C, Rw) + tq;
	const int cls = pick<T>(c);
	Src<T> s(c, cls, 2 * C * Rw + C + Rw);
	Mx<T> a(C, Rw), b(C, Rw);
	Vx<T> col(Rw), row(C);
	fill(s, a); fill(s, b); fill(s, col); fill(s, row);
	c.cls(vcname<T>(cls));
	Distinct<T> d(s.latin); d.add(a); d.add(b); d.add(col); d.add(row);
	if (d.good()) c.nontrivial();
	if (c.verbose) c.logf("transpose/outerProduct/matrixCompMult %s %s (%s) A=%s B=%s c=%s r=%s", shp(C, Rw).c_str(), tqn<T, Q>().c_str(), vcname<T>(cls), rl::str(a).c_str(), rl::str(b).c_str(), rl::str(col).c_str(), rl::str(row).c_str());
	glm::mat<C, Rw, T, Q> A = toG<C, Rw, T, Q>(a), B = toG<C, Rw, T, Q>(b);
	{
		glm::mat<Rw, C, T, Q> t = glm::transpose(A);
		static_assert(std::is_same<typename glm::mat<C, Rw, T, Q>::transpose_type, glm::mat<Rw, C, T, Q>>::value, "transpose_type");
		judge(c, cls, opt, fromG(t), rl::transpose(a), nullptr, nullptr, 1, CMP_BITS, "", mk([&] { return "A=" + rl::str(a); }));
		static_assert(std::is_same<typename glm::mat<C, Rw, T, Q>::col_type, glm::vec<Rw, T, Q>>::value && std::is_same<typename glm::mat<C, Rw, T, Q>::row_type, glm::vec<C, T, Q>>::value, "col_type/row_type");
	}
	{
		auto o = glm::outerProduct(toGv<Rw, T, Q>(col), toGv<C, T, Q>(row));
		static_assert(std::is_same<decltype(o), glm::mat<C, Rw, T, Q>>::value, "outerProduct(vec<R>, vec<C>) must be mat<C,R>");
		judge(c, cls, opo, fromG(o), rl::outer(col, row), nullptr, nullptr, 1, CMP_VALUE, "", mk([&] { return "c=" + rl::str(col) + " r=" + rl::str(row); }));
	}
	{
		glm::mat<C, Rw, T, Q> m = glm::matrixCompMult(A, B);
		judge(c, cls, opm, fromG(m), map2(a, b, [](T x, T y) { return rl::mul1(x, y); }), nullptr, nullptr, 1, CMP_VALUE, "", mk([&] { return "A=" + rl::str(a) + " B=" + rl::str(b); }));
	}
}

// elem: element-wise operators
template <class T> struct OtherU { typedef int type; };               // scalar type U != T for the templated compound operators
template <> struct OtherU<int> { typedef short type; };
template <> struct OtherU<double> { typedef float type; };
template <int C, int Rw, class T, glm::qualifier Q> static void t_elem(pbt::Ctx& c) {
	typedef glm::mat<C, Rw, T, Q> M;
	typedef typename OtherU<T>::type U;
	static const std::string suffix = "/" + shp(C, Rw) + "/" + tqn<T, Q>();
	const int cls = pick<T>(c);
	Src<T> s(c, cls, 2 * C * Rw + 1);
	Mx<T> a(C, Rw), b(C, Rw);
	fill(s, a); fill(s, b);
	T k = s.next();
	c.cls(vcname<T>(cls));
	Distinct<T> dd(s.latin); dd.add(a); dd.add(b); dd.add(k);
	if (dd.good()) c.nontrivial();
	Mx<T> d = b; make_nz(d);          // non-zero divisors
	Mx<T> an = a; make_nz(an);
	const T kd = nz(k);
	if (c.verbose) c.logf("element-wise operators %s %s (%s) A=%s B=%s s=%s", shp(C, Rw).c_str(), tqn<T, Q>().c_str(), vcname<T>(cls), rl::str(a).c_str(), rl::str(b).c_str(), rl::num(k).c_str());
	const M A = toG<C, Rw, T, Q>(a), B = toG<C, Rw, T, Q>(b), D = toG<C, Rw, T, Q>(d), AN = toG<C, Rw, T, Q>(an);
	auto in = [&] { return "A=" + rl::str(a) + " B=" + rl::str(b) + " s=" + rl::num(k) + " (divisors: zero entries replaced by 3)"; };
	auto chk = [&](const char* op, const M& g, const Mx<T>& want) {
		Mx<T> got = fromG(g);
		int i = mdiff(c, got, want, CMP_VALUE);
		if (i >= 0) mfail(c, op + suffix + "/" + vcname<T>(cls), i, got, want, in());
	};
	auto self = [&](const char* op, const M* p, const M* x) { if (p != x) c.failk(op + suffix + "/returns-self", "%s does not return a reference to its left operand", op); };
	const Mx<T> w_as = map1(a, [&](T x) { return rl::add1(x, k); }), w_ss = map1(a, [&](T x) { return rl::sub1(x, k); }), w_ms = map1(a, [&](T x) { return rl::mul1(x, k); }),
	            w_ds = map1(a, [&](T x) { return rl::div1(x, kd); }), w_am = map2(a, b, [](T x, T y) { return rl::add1(x, y); }), w_sm = map2(a, b, [](T x, T y) { return rl::sub1(x, y); }),
	            w_inc = map1(a, [](T x) { return rl::add1(x, T(1)); }), w_dec = map1(a, [](T x) { return rl::sub1(x, T(1)); });
	chk("m+s", A + k, w_as);
	chk("m-s", A - k, w_ss);
	chk("m*s", A * k, w_ms);
	chk("s*m", k * A, w_ms);
	chk("m/s", A / kd, w_ds);
	chk("s/m", k / AN, map1(an, [&](T x) { return rl::div1(k, x); }));
	chk("m+m", A + B, w_am);
	chk("m-m", A - B, w_sm);
	chk("-m", -A, map1(a, [](T x) { return rl::neg1(x); }));
	chk("+m", +A, a);
	if constexpr (C == Rw) {
		chk("s+m", k + A, w_as);
		chk("s-m", k - A, map1(a, [&](T x) { return rl::sub1(k, x); }));
	}
	{ M x = A; M* p = &(x += k); chk("m+=s", x, w_as); self("m+=s", p, &x); }
	{ M x = A; M* p = &(x -= k); chk("m-=s", x, w_ss); self("m-=s", p, &x); }
	{ M x = A; M* p = &(x *= k); chk("m*=s", x, w_ms); self("m*=s", p, &x); }
	{ M x = A; M* p = &(x /= kd); chk("m/=s", x, w_ds); self("m/=s", p, &x); }
	{ M x = A; M* p = &(x += B); chk("m+=m", x, w_am); self("m+=m", p, &x); }
	{ M x = A; M* p = &(x -= B); chk("m-=m", x, w_sm); self("m-=m", p, &x); }
	{ M x = A; M* p = &(++x); chk("++m", x, w_inc); self("++m", p, &x); }
	{ M x = A; M* p = &(--x); chk("--m", x, w_dec); self("--m", p, &x); }
	{ M x = A; M old = x++; chk("m++/returned", old, a); chk("m++/operand", x, w_inc); }
	{ M x = A; M old = x--; chk("m--/returned", old, a); chk("m--/operand", x, w_dec); }
	// == and !=: a copy, and a copy with exactly one element changed
	{
		M E = toG<C, Rw, T, Q>(a);
		int ec = (int)c.draw(C), er = (int)c.draw(Rw);
		T nv = s.next();
		if (eqv(nv, a.e[ec][er])) nv = eqv(a.e[ec][er], T(1)) ? T(2) : T(1);
		M F = E; F[ec][er] = nv;
		if (!(A == E) || (A != E)) c.failk("==,!=/equal" + suffix, "A == copy(A) is %d, A != copy(A) is %d; A=%s", (int)(A == E), (int)(A != E), rl::str(a).c_str());
		if ((A == F) || !(A != F)) c.failk("==,!=/one-element-differs" + suffix, "A == B is %d, A != B is %d where B differs from A only in [%d][%d] (%s instead of %s); A=%s", (int)(A == F), (int)(A != F), ec, er, rl::num(nv).c_str(), rl::num(a.e[ec][er]).c_str(), rl::str(a).c_str());
	}
	// compound operators and assignment with another scalar type U (values exactly representable in both types)
	if (cls == VC_SMALL || cls == VC_ZEROS) {
		const U ku = (U)k, kdu = (U)kd;
		glm::mat<C, Rw, U, Q> BU(U(0));
		for (int i = 0; i < C; ++i) for (int r = 0; r < Rw; ++r) BU[i][r] = (U)b.e[i][r];
		{ M x = A; x += ku; chk("m+=U(s)", x, w_as); }
		{ M x = A; x -= ku; chk("m-=U(s)", x, w_ss); }
		{ M x = A; x *= ku; chk("m*=U(s)", x, w_ms); }
		{ M x = A; x /= kdu; chk("m/=U(s)", x, w_ds); }
		{ M x = A; x += BU; chk("m+=mat<U>", x, w_am); }
		{ M x = A; x -= BU; chk("m-=mat<U>", x, w_sm); }
		{ M x = A; M* p = &(x = BU); chk("m=mat<U>", x, b); self("m=mat<U>", p, &x); }
	}
}

// access: operator[], byte image, row()/column()
template <int C, int Rw, class T, glm::qualifier Q> static void t_access(pbt::Ctx& c) {
	typedef glm::mat<C, Rw, T, Q> M;
	static const std::string suffix = "/" + shp(C, Rw) + "/" + tqn<T, Q>();
	int cls = pick<T>(c);
	Src<T> s(c, cls, C * Rw + C + Rw);
	Mx<T> a(C, Rw);
	Vx<T> nr(C), nc(Rw);
	fill(s, a); fill(s, nr); fill(s, nc);
	const int ri = (int)c.draw(Rw), ci = (int)c.draw(C);
	c.cls(vcname<T>(cls));
	Distinct<T> d(s.latin); d.add(a); d.add(nr); d.add(nc);
	if (d.good()) c.nontrivial();
	if (c.verbose) c.logf("access %s %s (%s) A=%s row %d <- %s, column %d <- %s", shp(C, Rw).c_str(), tqn<T, Q>().c_str(), vcname<T>(cls), rl::str(a).c_str(), ri, rl::str(nr).c_str(), ci, rl::str(nc).c_str());
	auto in = [&] { return "A=" + rl::str(a) + " row index " + std::to_string(ri) + " column index " + std::to_string(ci) + " new row " + rl::str(nr) + " new column " + rl::str(nc); };
	auto chk = [&](const char* op, const Mx<T>& got, const Mx<T>& want) {
		int i = mdiff(c, got, want, CMP_BITS);
		if (i >= 0) mfail(c, op + suffix + "/" + vcname<T>(cls), i, got, want, in());
	};
	// the matrix is built from its column-major byte image (manual: "Matrix types store their values in column-major order"), then read with operator[]
	M A(T(0));
	if constexpr (sizeof(M) == sizeof(T) * C * Rw) {
		T raw[16];
		for (int i = 0; i < C; ++i) for (int r = 0; r < Rw; ++r) raw[i * Rw + r] = a.e[i][r];
		memcpy(static_cast<void*>(&A), raw, sizeof(T) * C * Rw);
		chk("operator[]/read-byte-image", fromG(A), a);
		const M& CA = A;
		Mx<T> viaconst(C, Rw);
		for (int i = 0; i < C; ++i) for (int r = 0; r < Rw; ++r) viaconst.e[i][r] = CA[i][r];
		chk("operator[]const/read-byte-image", viaconst, a);
		M W = toG<C, Rw, T, Q>(a);
		T back[16];
		memcpy(back, static_cast<const void*>(&W), sizeof(T) * C * Rw);
		Mx<T> img(C, Rw);
		for (int i = 0; i < C; ++i) for (int r = 0; r < Rw; ++r) img.e[i][r] = back[i * Rw + r];
		chk("operator[]/write-byte-image", img, a);
	} else A = toG<C, Rw, T, Q>(a);
	if ((int)A.length() != C || (int)A[0].length() != Rw || (int)M::length() != C) c.failk("length" + suffix, "length()=%d, column length()=%d", (int)A.length(), (int)A[0].length());
	{  // whole-column assignment through operator[]
		M X = A;
		X[ci] = toGv<Rw, T, Q>(nc);
		Mx<T> want = a;
		for (int r = 0; r < Rw; ++r) want.e[ci][r] = nc.e[r];
		chk("operator[]/assign-column", fromG(X), want);
	}
	{
		glm::vec<C, T, Q> g = glm::row(A, ri);
		Vx<T> want(C);
		for (int i = 0; i < C; ++i) want.e[i] = a.e[i][ri];
		chk("row/get", asM(fromGv(g)), asM(want));
	}
	{
		glm::vec<Rw, T, Q> g = glm::column(A, ci);
		Vx<T> want(Rw);
		for (int r = 0; r < Rw; ++r) want.e[r] = a.e[ci][r];
		chk("column/get", asM(fromGv(g)), asM(want));
	}
	{
		M g = glm::row(A, ri, toGv<C, T, Q>(nr));
		Mx<T> want = a;
		for (int i = 0; i < C; ++i) want.e[i][ri] = nr.e[i];
		chk("row/set", fromG(g), want);
		chk("row/set-leaves-argument", fromG(A), a);
	}
	{
		M g = glm::column(A, ci, toGv<Rw, T, Q>(nc));
		Mx<T> want = a;
		for (int r = 0; r < Rw; ++r) want.e[ci][r] = nc.e[r];
		chk("column/set", fromG(g), want);
	}
}

// convert: mat<C,Rw>(mat<C2,R2>) — overlapping block copied, rest identity. Same shape: the other constructors.
template <class T> struct OtherT { typedef int type; };  // source element type of the cross-type conversion (values are small integers exact in both)
template <> struct OtherT<float> { typedef double type; };
template <> struct OtherT<int> { typedef float type; };
template <> struct OtherT<unsigned int> { typedef short type; };
template <glm::qualifier Q> struct OtherQ { static const glm::qualifier value = glm::highp; };
template <> struct OtherQ<glm::highp> { static const glm::qualifier value = glm::lowp; };
template <size_t I> struct ArgT { typedef typename std::conditional<I % 3 == 0, int, typename std::conditional<I % 3 == 1, float, double>::type>::type type; };
template <class M, class T, size_t... I> static M make_list(const T* p, std::index_sequence<I...>) { return M(p[I]...); }
template <class M, class T, size_t... I> static M make_mixed(const T* p, std::index_sequence<I...>) { return M(static_cast<typename ArgT<I>::type>(p[I])...); }
template <class T> static Vx<T> colv(const Mx<T>& a, int i) { Vx<T> v(a.R); for (int r = 0; r < a.R; ++r) v.e[r] = a.e[i][r]; return v; }
template <class M, int Rw, class T, glm::qualifier Q, size_t... I> static M make_columns(const Mx<T>& a, std::index_sequence<I...>) { return M(toGv<Rw, T, Q>(colv(a, (int)I))...); }
template <size_t I> struct ColT { typedef typename std::conditional<I % 2 == 0, double, int>::type type; };
template <int Rw, class V, class T, glm::qualifier Q> static glm::vec<Rw, V, Q> colas(const Mx<T>& a, int i) { glm::vec<Rw, V, Q> v(V(0)); for (int r = 0; r < Rw; ++r) v[r] = (V)a.e[i][r]; return v; }
template <class M, int Rw, class T, glm::qualifier Q, size_t... I> static M make_mixed_columns(const Mx<T>& a, std::index_sequence<I...>) { return M(colas<Rw, typename ColT<I>::type, T, Q>(a, (int)I)...); }

template <int C, int Rw, int C2, int R2, class T, glm::qualifier Q> static void t_conv(pbt::Ctx& c) {
	typedef glm::mat<C, Rw, T, Q> M;
	static const std::string tq = "/" + tqn<T, Q>();
	int cls = pick<T>(c);
	Src<T> s(c, cls, C2 * R2 + 1);
	Mx<T> a(C2, R2);
	fill(s, a);
	c.cls(vcname<T>(cls));
	Distinct<T> d(s.latin); d.add(a);
	bool nt = d.good();
	// the padding must be distinguishable from the source entries: no source entry equal to 0 or 1 on a padded position is needed
	// (padded positions hold no source entry), but a wrong block would copy an entry where 0/1 belongs, so entries must not be 0 or 1
	for (int i = 0; i < C2; ++i) for (int r = 0; r < R2; ++r) if (a.e[i][r] == T(1)) nt = false;
	if (nt) c.nontrivial();
	auto in = [&] { return "source=" + rl::str(a); };
	if constexpr (C != C2 || Rw != R2) {
		static const std::string op = shp(C, Rw) + "(" + shp(C2, R2) + ")" + tq;
		if (c.verbose) c.logf("%s (%s) source=%s", op.c_str(), vcname<T>(cls), rl::str(a).c_str());
		M g(toG<C2, R2, T, Q>(a));
		judge(c, cls, op, fromG(g), rl::convert(a, C, Rw), nullptr, nullptr, 1, CMP_BITS, "", mk(in));
	} else {
		static const std::string sh = shp(C, Rw);
		if (c.verbose) c.logf("constructors of %s %s (%s) values=%s", sh.c_str(), tqn<T, Q>().c_str(), vcname<T>(cls), rl::str(a).c_str());
		auto chk = [&](const char* what, const M& g, const Mx<T>& want) { judge(c, cls, sh + "(" + what + ")" + tq, fromG(g), want, nullptr, nullptr, 1, CMP_BITS, "", mk(in)); };
		T raw[16];
		for (int i = 0; i < C; ++i) for (int r = 0; r < Rw; ++r) raw[i * Rw + r] = a.e[i][r];
		{ T dg[4] = {a.e[0][0], a.e[0][0], a.e[0][0], a.e[0][0]}; chk("scalar", M(a.e[0][0]), rl::diagonal(C, Rw, dg)); }
		chk("element-list", make_list<M>(raw, std::make_index_sequence<C * Rw>()), a);
		chk("columns", make_columns<M, Rw, T, Q>(a, std::make_index_sequence<C>()), a);
		{ M src = toG<C, Rw, T, Q>(a); M cp(src); chk("copy", cp, a); M as(T(0)); as = src; chk("assign", as, a); }
		{ glm::mat<C, Rw, T, OtherQ<Q>::value> src = toG<C, Rw, T, OtherQ<Q>::value>(a); M g(src); chk("other-qualifier", g, a); }
		if (cls == VC_SMALL || cls == VC_ZEROS) {  // static_cast semantics on values that are exact in every type involved
			typedef typename OtherT<T>::type U;
			Mx<T> viaU = map1(a, [](T x) { return (T)(U)x; });
			glm::mat<C, Rw, U, Q> su(U(0));
			glm::mat<C, Rw, U, OtherQ<Q>::value> suq(U(0));
			for (int i = 0; i < C; ++i) for (int r = 0; r < Rw; ++r) { su[i][r] = (U)a.e[i][r]; suq[i][r] = (U)a.e[i][r]; }
			chk("other-type", M(su), viaU);
			chk("other-type,other-qualifier", M(suq), viaU);
			Mx<T> wantmixed(C, Rw);
			for (int k = 0; k < C * Rw; ++k) wantmixed.e[k / Rw][k % Rw] = k % 3 == 0 ? (T)(int)raw[k] : k % 3 == 1 ? (T)(float)raw[k] : (T)(double)raw[k];
			chk("mixed-type-element-list", make_mixed<M>(raw, std::make_index_sequence<C * Rw>()), wantmixed);
			Mx<T> wantcols(C, Rw);
			for (int i = 0; i < C; ++i) for (int r = 0; r < Rw; ++r) wantcols.e[i][r] = i % 2 == 0 ? (T)(double)a.e[i][r] : (T)(int)a.e[i][r];
			chk("mixed-type-columns", make_mixed_columns<M, Rw, T, Q>(a, std::make_index_sequence<C>()), wantcols);
		}
	}
}

// gtx: major storage, cross product matrix, diagonal, adjugate, determinant
template <int N> struct Major;
#define MAJOR(N, ...) \
	template <> struct Major<N> { \
		template <class T, glm::qualifier Q> static glm::mat<N, N, T, Q> rowv(const glm::vec<N, T, Q>* v) { return glm::rowMajor##N(__VA_ARGS__); } \
		template <class T, glm::qualifier Q> static glm::mat<N, N, T, Q> colv(const glm::vec<N, T, Q>* v) { return glm::colMajor##N(__VA_ARGS__); } \
		template <class T, glm::qualifier Q> static glm::mat<N, N, T, Q> rowm(const glm::mat<N, N, T, Q>& m) { return glm::rowMajor##N(m); } \
		template <class T, glm::qualifier Q> static glm::mat<N, N, T, Q> colm(const glm::mat<N, N, T, Q>& m) { return glm::colMajor##N(m); } \
	};
MAJOR(2, v[0], v[1])
MAJOR(3, v[0], v[1], v[2])
MAJOR(4, v[0], v[1], v[2], v[3])
template <int C, int Rw> struct Diag;
#define DIAG(C, Rw) template <> struct Diag<C, Rw> { template <class T, glm::qualifier Q> static glm::mat<C, Rw, T, Q> call(const glm::vec<(C < Rw ? C : Rw), T, Q>& v) { return glm::diagonal##C##x##Rw(v); } };
DIAG(2, 2) DIAG(2, 3) DIAG(2, 4) DIAG(3, 2) DIAG(3, 3) DIAG(3, 4) DIAG(4, 2) DIAG(4, 3) DIAG(4, 4)

template <int N, class T, glm::qualifier Q> static void t_square(pbt::Ctx& c) {
	static const std::string tq = "/" + tqn<T, Q>(), n = std::to_string(N);
	int cls = pick<T>(c);
	const int sub = (int)c.draw(6);
	// determinant / adjugate: products of up to N entries; only exact classes, entries small enough that nothing overflows or rounds
	if (sub >= 4 && (cls == VC_GENERAL || (cls == VC_ALT && VT<T>::alt != ALT_WRAP))) cls = VC_SMALL;
	Src<T> s(c, cls, N * N, sub >= 4 ? 16 : 0, sub >= 4 ? 10 : 14);
	Mx<T> a(N, N);
	fill(s, a);
	c.cls(vcname<T>(cls));
	Distinct<T> d(s.latin); d.add(a);
	if (d.good()) c.nontrivial();
	auto in = [&] { return "A=" + rl::str(a); };
	glm::mat<N, N, T, Q> A = toG<N, N, T, Q>(a);
	glm::vec<N, T, Q> v[4];
	for (int i = 0; i < N; ++i) v[i] = toGv<N, T, Q>(colv(a, i));
	if (c.verbose) c.logf("gtx square N=%d sub-op %d %s (%s) A=%s", N, sub, tqn<T, Q>().c_str(), vcname<T>(cls), rl::str(a).c_str());
	switch (sub) {
	case 0: c.cls("rowMajor(vectors)"); judge(c, cls, "rowMajor" + n + "(vectors)" + tq, fromG(Major<N>::template rowv<T, Q>(v)), rl::transpose(a), nullptr, nullptr, 1, CMP_BITS, "", mk(in)); break;  // v[i] = column i of A = row i of the result
	case 1: c.cls("rowMajor(matrix)"); judge(c, cls, "rowMajor" + n + "(matrix)" + tq, fromG(Major<N>::template rowm<T, Q>(A)), rl::transpose(a), nullptr, nullptr, 1, CMP_BITS, "", mk(in)); break;
	case 2: c.cls("colMajor(vectors)"); judge(c, cls, "colMajor" + n + "(vectors)" + tq, fromG(Major<N>::template colv<T, Q>(v)), a, nullptr, nullptr, 1, CMP_BITS, "", mk(in)); break;
	case 3: c.cls("colMajor(matrix)"); judge(c, cls, "colMajor" + n + "(matrix)" + tq, fromG(Major<N>::template colm<T, Q>(A)), a, nullptr, nullptr, 1, CMP_BITS, "", mk(in)); break;
	case 4: {
		c.cls("determinant");
		T g = glm::determinant(A), w = rl::determinant(a);
		if (!eqv(g, w)) c.failk("determinant/mat" + n + "x" + n + tq + "/" + vcname<T>(cls), "determinant = %s, Leibniz expansion %s; %s", rl::num(g).c_str(), rl::num(w).c_str(), in().c_str());
		break;
	}
	default: c.cls("adjugate"); judge(c, cls, "adjugate/mat" + n + "x" + n + tq, fromG(glm::adjugate(A)), rl::adjugate(a), nullptr, nullptr, 1, CMP_VALUE, "", mk(in)); break;
	}
}
template <int C, int Rw, class T, glm::qualifier Q> static void t_diag(pbt::Ctx& c) {
	static const std::string op = "diagonal" + std::to_string(C) + "x" + std::to_string(Rw) + "/" + tqn<T, Q>();
	const int L = C < Rw ? C : Rw;
	int cls = pick<T>(c);
	Src<T> s(c, cls, L);
	Vx<T> v(L);
	fill(s, v);
	c.cls(vcname<T>(cls)); c.cls("diagonal");
	Distinct<T> d(false); d.add(v);
	if (d.good()) c.nontrivial();
	if (c.verbose) c.logf("%s (%s) v=%s", op.c_str(), vcname<T>(cls), rl::str(v).c_str());
	judge(c, cls, op, fromG(Diag<C, Rw>::template call<T, Q>(toGv<(C < Rw ? C : Rw), T, Q>(v))), rl::diagonal(C, Rw, v.e), nullptr, nullptr, 1, CMP_BITS, "", mk([&] { return "v=" + rl::str(v); }));
}
template <class T, glm::qualifier Q> static void t_cross(pbt::Ctx& c) {
	static const std::string tq = "/" + tqn<T, Q>();
	int cls = pick<T>(c);
	if (cls == VC_GENERAL) cls = VC_SMALL;  // entries are copied or negated, never rounded
	Src<T> s(c, cls, 3);
	Vx<T> x(3);
	fill(s, x);
	c.cls(vcname<T>(cls)); c.cls("matrixCross");
	Distinct<T> d(false); d.add(x);
	if (d.good()) c.nontrivial();
	if (c.verbose) c.logf("matrixCross3/4 %s (%s) x=%s", tqn<T, Q>().c_str(), vcname<T>(cls), rl::str(x).c_str());
	// column k of the cross-product matrix of x is cross(x, e_k), so that M * v = cross(x, v)
	Mx<T> want3(3, 3), want4(4, 4);
	for (int k = 0; k < 3; ++k) {
		Vx<T> e(3); e.e[k] = T(1);
		Vx<T> col = rl::cross(x, e);
		for (int r = 0; r < 3; ++r) want3.e[k][r] = want4.e[k][r] = col.e[r];
	}
	auto in = [&] { return "x=" + rl::str(x); };
	judge(c, cls, "matrixCross3" + tq, fromG(glm::matrixCross3(toGv<3, T, Q>(x))), want3, nullptr, nullptr, 1, CMP_VALUE, "", mk(in));
	Mx<T> g4 = fromG(glm::matrixCross4(toGv<3, T, Q>(x)));
	// the element [3][3] of the 4x4 form is not documented (0 in this implementation): counted, not judged
	if (g4.e[3][3] == T(0)) c.cls("matrixCross4[3][3]=0"); else if (g4.e[3][3] == T(1)) c.cls("matrixCross4[3][3]=1"); else c.cls("matrixCross4[3][3]=other");
	want4.e[3][3] = g4.e[3][3];
	judge(c, cls, "matrixCross4" + tq, g4, want4, nullptr, nullptr, 1, CMP_VALUE, "", mk(in));
}

// div: square matrices divided by an exactly invertible matrix (signed permutation scaled by powers of two): every step of the
// cofactor inverse and of the following product is exact, so m1/m2 must equal m1 * inverse(m2) exactly.
template <int N, class T, glm::qualifier Q> static void t_div(pbt::Ctx& c) {
	static const std::string tq = "/" + tqn<T, Q>(), sh = shp(N, N);
	const int cls = c.draw(4) == 0 ? VC_ALT : VC_SMALL;
	Src<T> s(c, cls, N * N + 2 * N);
	Mx<T> a(N, N);
	Vx<T> v(N), w(N);
	fill(s, a); fill(s, v); fill(s, w);
	int perm[4] = {0, 1, 2, 3};
	for (int i = N - 1; i > 0; --i) { int j = (int)c.draw((uint64_t)i + 1), t = perm[i]; perm[i] = perm[j]; perm[j] = t; }
	Mx<T> b(N, N), binv(N, N);
	bool ident = true;
	for (int col = 0; col < N; ++col) {
		int e = (int)c.range(-3, 3);
		T val = (T)std::ldexp(c.coin() ? -1.0 : 1.0, e);
		b.e[col][perm[col]] = val;
		binv.e[perm[col]][col] = T(1) / val;
		if (perm[col] != col) ident = false;
	}
	c.cls(vcname<T>(cls));
	c.cls(ident ? "divisor diagonal" : "divisor permutes");
	Distinct<T> d(false); d.add(a); d.add(v); d.add(w);
	if (d.good() && !ident) c.nontrivial();
	if (c.verbose) c.logf("division %s %s (%s) A=%s B=%s v=%s w=%s", sh.c_str(), tqn<T, Q>().c_str(), vcname<T>(cls), rl::str(a).c_str(), rl::str(b).c_str(), rl::str(v).c_str(), rl::str(w).c_str());
	auto in = [&] { return "A=" + rl::str(a) + " B=" + rl::str(b) + " (B^-1=" + rl::str(binv) + ") v=" + rl::str(v) + " w=" + rl::str(w); };
	glm::mat<N, N, T, Q> A = toG<N, N, T, Q>(a), B = toG<N, N, T, Q>(b);
	Mx<T> want = rl::mul(a, binv);
	judge(c, cls, sh + "/" + sh + tq, fromG(A / B), want, nullptr, nullptr, 1, CMP_VALUE, "", mk(in));
	{ glm::mat<N, N, T, Q> X = A; glm::mat<N, N, T, Q>* p = &(X /= B); judge(c, cls, sh + "/=" + sh + tq, fromG(X), want, nullptr, nullptr, 1, CMP_VALUE, "", mk(in)); if (p != &X) c.failk(sh + "/=" + sh + tq + "/returns-self", "m /= m2 does not return m"); }
	judge(c, cls, sh + "/vec" + tq, asM(fromGv(B / toGv<N, T, Q>(v))), asM(rl::mul_mv(binv, v)), nullptr, nullptr, 1, CMP_VALUE, "", mk(in));   // inverse(B) * v
	judge(c, cls, "vec/" + sh + tq, asM(fromGv(toGv<N, T, Q>(w) / B)), asM(rl::mul_vm(w, binv)), nullptr, nullptr, 1, CMP_VALUE, "", mk(in));   // w * inverse(B)
}

// =============================================================================================
// instance dispatch per family
#define SHAPES(X) X(0, 2, 2) X(1, 2, 3) X(2, 2, 4) X(3, 3, 2) X(4, 3, 3) X(5, 3, 4) X(6, 4, 2) X(7, 4, 3) X(8, 4, 4)
#define SHAPES2(X) X(0, 2, 2) X(1, 2, 3) X(2, 2, 4) X(3, 3, 2) X(4, 3, 3) X(5, 3, 4) X(6, 4, 2) X(7, 4, 3) X(8, 4, 4)
enum { F_MUL, F_MULVEC, F_FUNC, F_ELEM, F_ACCESS, F_CONVERT, F_GTX, F_DIV };
template <int FAM, class T, glm::qualifier Q> struct Fam;
template <class T, glm::qualifier Q> struct Fam<F_MUL, T, Q> {
	static void run(pbt::Ctx& c) {
		switch (c.draw(27)) {
#define X(I, C, R) case I * 3: t_mul<C, R, 2, T, Q>(c); break; case I * 3 + 1: t_mul<C, R, 3, T, Q>(c); break; case I * 3 + 2: t_mul<C, R, 4, T, Q>(c); break;
			SHAPES(X)
#undef X
		}
	}
};
#define FAM9(F, FN) \
	template <class T, glm::qualifier Q> struct Fam<F, T, Q> { static void run(pbt::Ctx& c) { switch (c.draw(9)) { SHAPES(FN) } } };
#define X_MULVEC(I, C, R) case I: t_mulvec<C, R, T, Q>(c); break;
#define X_FUNC(I, C, R) case I: t_func<C, R, T, Q>(c); break;
#define X_ELEM(I, C, R) case I: t_elem<C, R, T, Q>(c); break;
#define X_ACCESS(I, C, R) case I: t_access<C, R, T, Q>(c); break;
FAM9(F_MULVEC, X_MULVEC)
FAM9(F_FUNC, X_FUNC)
FAM9(F_ELEM, X_ELEM)
FAM9(F_ACCESS, X_ACCESS)
template <int C2, int R2, class T, glm::qualifier Q> static void conv_to(pbt::Ctx& c, int dst) {
	switch (dst) {
#define X(I, C, R) case I: t_conv<C, R, C2, R2, T, Q>(c); break;
		SHAPES(X)
#undef X
	}
}
template <class T, glm::qualifier Q> struct Fam<F_CONVERT, T, Q> {
	static void run(pbt::Ctx& c) {
		int k = (int)c.draw(81);
		switch (k / 9) {
#define X(I, C, R) case I: conv_to<C, R, T, Q>(c, k % 9); break;
			SHAPES2(X)
#undef X
		}
	}
};
template <class T, glm::qualifier Q> struct Fam<F_GTX, T, Q> {
	static void run(pbt::Ctx& c) {
		int k = (int)c.draw(16);
		switch (k) {
		case 0: case 1: t_square<2, T, Q>(c); break;
		case 2: case 3: t_square<3, T, Q>(c); break;
		case 4: case 5: t_square<4, T, Q>(c); break;
		case 6: t_cross<T, Q>(c); break;
#define X(I, C, R) case 7 + I: t_diag<C, R, T, Q>(c); break;
			SHAPES(X)
#undef X
		}
	}
};
template <class T, glm::qualifier Q> struct Fam<F_DIV, T, Q> {
	static void run(pbt::Ctx& c) { switch (c.draw(3)) { case 0: t_div<2, T, Q>(c); break; case 1: t_div<3, T, Q>(c); break; default: t_div<4, T, Q>(c); break; } }
};

template <class T_, glm::qualifier Q_> struct TQ { typedef T_ T; static const glm::qualifier Q = Q_; };
template <class... E> struct Group {};
template <int FAM, class G> struct Prop;
template <int FAM, class... E> struct Prop<FAM, Group<E...>> {
	static void run(pbt::Ctx& c) {
		const int n = (int)sizeof...(E);
		int i = n > 1 ? (int)c.draw(n) : 0, k = 0;
		(void)std::initializer_list<int>{(k++ == i ? (Fam<FAM, typename E::T, E::Q>::run(c), 0) : 0)...};
	}
};

#define RULE_DISTINCT "non-trivial = no zero entry and all entries of all operands pairwise distinct (8-bit signed small-int class: within every row, column and vector), so any transposed or repeated index changes the result"
#define REG(FAM, G, GN, NAME, Q_, T_, RULE) static pbt::Reg reg_##FAM##_##GN(NAME "/" #GN, &Prop<FAM, G>::run, (uint64_t)(Q_), (uint64_t)(T_), RULE)
// C02_FAMS: bit mask of the families registered by this translation unit (compile-time split of one element-type group)
#ifndef C02_FAMS
#define C02_FAMS 0xff
#endif
#if C02_FAMS & 1
#define REG_MUL(G, GN, SC, TC) REG(F_MUL, G, GN, "mat*mat", 1000000 * SC, 100000000ULL * TC, "one of the 27 products mat<C,R>*mat<C2,C> (square: also m*=m) per case against (A*B)[c][r]=sum_k A[k][r]*B[c][k]; value classes small-int/dyadic/large/wrap (exact), general floats (8 K u sum|a_k b_k|), zeros; " RULE_DISTINCT);
#else
#define REG_MUL(G, GN, SC, TC)
#endif
#if C02_FAMS & 2
#define REG_MULVEC(G, GN, SC, TC) REG(F_MULVEC, G, GN, "mat*vec,vec*mat", 500000 * SC, 50000000ULL * TC, "one of the 9 shapes per case: (M*v)[r]=sum_k M[k][r] v[k] and (v*M)[c]=sum_r v[r] M[c][r]; same value classes; " RULE_DISTINCT);
#else
#define REG_MULVEC(G, GN, SC, TC)
#endif
#if C02_FAMS & 4
#define REG_FUNC(G, GN, SC, TC) REG(F_FUNC, G, GN, "transpose,outerProduct,matrixCompMult", 500000 * SC, 50000000ULL * TC, "one of the 9 shapes per case: transpose (bit copy), outerProduct(c,r)[j][i]=c[i]*r[j], matrixCompMult[c][r]=x[c][r]*y[c][r] (one correctly rounded product); " RULE_DISTINCT);
#else
#define REG_FUNC(G, GN, SC, TC)
#endif
#if C02_FAMS & 8
#define REG_ELEM(G, GN, SC, TC) REG(F_ELEM, G, GN, "elementwise", 300000 * SC, 30000000ULL * TC, "one of the 9 shapes per case, every element-wise operator (binary with scalar/matrix, unary, compound incl. other scalar type, ++/--, ==/!=, operator=) against the single IEEE / modular operation per element; divisors non-zero; " RULE_DISTINCT);
#else
#define REG_ELEM(G, GN, SC, TC)
#endif
#if C02_FAMS & 16
#define REG_ACCESS(G, GN, SC, TC) REG(F_ACCESS, G, GN, "access", 300000 * SC, 30000000ULL * TC, "one of the 9 shapes per case: operator[] against the column-major byte image (read, const read, write), column assignment, gtc row()/column() get and set at a random index; bit comparison; " RULE_DISTINCT);
#else
#define REG_ACCESS(G, GN, SC, TC)
#endif
#if C02_FAMS & 32
#define REG_CONVERT(G, GN, SC, TC) REG(F_CONVERT, G, GN, "convert", 1000000 * SC, 100000000ULL * TC, "one of the 81 (destination, source) shape pairs per case: overlapping block copied, rest identity (bit comparison); same-shape pairs run the scalar / element-list / column / copy / other-qualifier / other-type / mixed-type constructors; non-trivial = source entries pairwise distinct, none 0 or 1 (distinguishable from the padding)");
#else
#define REG_CONVERT(G, GN, SC, TC)
#endif
#if C02_FAMS & 64
#define REG_GTX(G, GN, SC, TC) REG(F_GTX, G, GN, "gtx", 300000 * SC, 30000000ULL * TC, "rowMajorN/colMajorN from vectors and from a matrix, determinant and adjugate (N=2,3,4; exact classes with |entries|<=16), matrixCross3/4 (column k = cross(x,e_k)), diagonalCxR for the 9 shapes; " RULE_DISTINCT);
#else
#define REG_GTX(G, GN, SC, TC)
#endif
#if C02_FAMS & 128
#define REG_DIV(G, GN, SC, TC) REG(F_DIV, G, GN, "division", 300000 * SC, 30000000ULL * TC, "square N=2,3,4: A/B, A/=B, B/v (=inverse(B)*v), w/B (=w*inverse(B)) with B a signed permutation matrix scaled by powers of two (its cofactor inverse is exact) and A, v, w distinct small integers or dyadics; exact comparison; non-trivial = B is not diagonal and all entries of A, v, w distinct non-zero");
#else
#define REG_DIV(G, GN, SC, TC)
#endif
#define REG_GROUP(G, GN, SC, TC) REG_MUL(G, GN, SC, TC) REG_MULVEC(G, GN, SC, TC) REG_FUNC(G, GN, SC, TC) REG_ELEM(G, GN, SC, TC) REG_ACCESS(G, GN, SC, TC) REG_CONVERT(G, GN, SC, TC) REG_GTX(G, GN, SC, TC)

#if C02_PART == 0
typedef Group<TQ<float, glm::highp>> G_float;
typedef Group<TQ<double, glm::highp>> G_double;
REG_GROUP(G_float, float, 1, 1)
REG_GROUP(G_double, double, 1, 1)
REG_DIV(G_float, float, 1, 1)
REG_DIV(G_double, double, 1, 1)
int main(int argc, char** argv) { return pbt::pbt_main(argc, argv, "C02"); }
#elif C02_PART == 1
typedef Group<TQ<glm::int32, glm::highp>> G_int32;
typedef Group<TQ<glm::uint32, glm::highp>> G_uint32;
REG_GROUP(G_int32, int32, 1, 1)
REG_GROUP(G_uint32, uint32, 1, 1)
#elif C02_PART == 2
typedef Group<TQ<glm::int8, glm::highp>, TQ<glm::uint8, glm::highp>> G_int8;
REG_GROUP(G_int8, int8_uint8, 0.5, 1)
#elif C02_PART == 3
typedef Group<TQ<glm::int16, glm::highp>, TQ<glm::uint16, glm::highp>> G_int16;
REG_GROUP(G_int16, int16_uint16, 0.5, 1)
#elif C02_PART == 4
typedef Group<TQ<glm::int64, glm::highp>, TQ<glm::uint64, glm::highp>> G_int64;
REG_GROUP(G_int64, int64_uint64, 0.5, 1)
#elif C02_PART == 5
typedef Group<TQ<float, glm::mediump>, TQ<float, glm::lowp>, TQ<double, glm::lowp>> G_fq;
REG_GROUP(G_fq, float_double_mediump_lowp, 0.5, 1)
REG_DIV(G_fq, float_double_mediump_lowp, 0.5, 1)
#elif C02_PART == 6
typedef Group<TQ<glm::int32, glm::mediump>, TQ<glm::uint32, glm::lowp>> G_iq;
REG_GROUP(G_iq, int32_uint32_mediump_lowp, 0.5, 1)
#endif
