// C15 (language level as detected from the compiler flag): optable/langprobe.cpp is built once per (compiler, -std=c++98/11/14/17/20)
// with no GLM_FORCE_CXX* macro; every function of its table must return bit-identical values in all of them (two NaNs count as equal;
// the sign of a zero result of the min/max family is unspecified by C and GLSL and is not compared).
#include "pbt.hpp"
#include "fp.hpp"
#include <dlfcn.h>
#include <string>
#include <vector>

struct Lib {
	std::string name; void* h;
	int (*count)(); const char* (*fname)(int); int (*domain)(int);
	float (*evf)(int, float, float); double (*evd)(int, double, double);
	long (*cpp)(); int (*lang)(); int (*stl)();
};
static std::vector<Lib> g_libs;
struct FnEnt { std::string name; int idx, dom; bool is_double, zero_sign_free; };
static std::vector<FnEnt> g_fns;

template <class T> static T gen_dom(pbt::Ctx& c, int dom) {
	using namespace fp;
	switch (dom) {
	case 0: { T v = gen_float<T>(c, FD_ANY); if (is_nan(v)) v = std::numeric_limits<T>::quiet_NaN(); return v; }
	case 1: return gen_float<T>(c, FD_FINITE);
	case 2: { T v = gen_float<T>(c, FD_FINITE); v = v < 0 ? -v : v; return v == 0 ? T(0.5) : v; }
	case 3: { uint64_t k = c.draw(6); return k == 0 ? T(0) : k == 1 ? T(0.5) : k == 2 ? T(-0.5) : (T)c.uniform(-0.999, 0.999); }
	case 4: { T v = gen_moderate<T>(c, 6, 6); return T(1) + (v < 0 ? -v : v); }
	case 6: { T v = gen_moderate<T>(c, 8, 8); return v; }
	default: return gen_moderate<T>(c, 10, 10);
	}
}

template <class T> static void prop_fn(pbt::Ctx& c, const FnEnt& f) {
	T x = gen_dom<T>(c, f.dom), y = gen_dom<T>(c, f.dom);
	if (f.dom == 6 && y == 0) y = T(3);
	if (c.draw(8) == 0) y = x;                                  // equal operands
	if (c.draw(8) == 0) y = -x;                                 // opposite operands
	c.logf("%s(%a, %a)", f.name.c_str(), (double)x, (double)y);
	c.nontrivial();
	T base = sizeof(T) == 4 ? (T)g_libs[0].evf(f.idx, (float)x, (float)y) : (T)g_libs[0].evd(f.idx, (double)x, (double)y);
	for (size_t i = 1; i < g_libs.size(); ++i) {
		T r = sizeof(T) == 4 ? (T)g_libs[i].evf(f.idx, (float)x, (float)y) : (T)g_libs[i].evd(f.idx, (double)x, (double)y);
		bool same = fp::same_bits(r, base) || (fp::is_nan(r) && fp::is_nan(base)) || (f.zero_sign_free && r == base);
		if (!same) c.failk(g_libs[i].name + "/bits", "%s(%a, %a): %s gives %a, %s gives %a", f.name.c_str(), (double)x, (double)y, g_libs[0].name.c_str(), (double)base, g_libs[i].name.c_str(), (double)r);
	}
}
static void prop_any(pbt::Ctx& c, int k) { const FnEnt& f = g_fns[k]; if (f.is_double) prop_fn<double>(c, f); else prop_fn<float>(c, f); }
template <int I> static void tramp(pbt::Ctx& c) { prop_any(c, I); }
template <int... Is> static void fill(pbt::PropFn* t, std::integer_sequence<int, Is...>) { ((t[Is] = &tramp<Is>), ...); }
static pbt::PropFn g_tr[128];

int main(int argc, char** argv) {
	const char* libs = getenv("LP_LIBS");
	if (!libs) { fprintf(stderr, "LP_LIBS not set\n"); return 2; }
	std::string s = libs; size_t p = 0;
	while (p < s.size()) {
		size_t e = s.find(';', p); if (e == std::string::npos) e = s.size();
		std::string item = s.substr(p, e - p); p = e + 1;
		if (item.empty()) continue;
		size_t c = item.find(':');
		Lib L; L.name = item.substr(0, c);
		L.h = dlopen(item.substr(c + 1).c_str(), RTLD_NOW | RTLD_LOCAL);
		if (!L.h) { fprintf(stderr, "dlopen %s: %s\n", item.c_str(), dlerror()); return 2; }
		L.count = (int (*)())dlsym(L.h, "lp_count"); L.fname = (const char* (*)(int))dlsym(L.h, "lp_name"); L.domain = (int (*)(int))dlsym(L.h, "lp_domain");
		L.evf = (float (*)(int, float, float))dlsym(L.h, "lp_eval_f"); L.evd = (double (*)(int, double, double))dlsym(L.h, "lp_eval_d");
		L.cpp = (long (*)())dlsym(L.h, "lp_cplusplus"); L.lang = (int (*)())dlsym(L.h, "lp_glm_lang"); L.stl = (int (*)())dlsym(L.h, "lp_has_cxx11_stl");
		if (!L.count || !L.evf || !L.evd || !L.cpp) { fprintf(stderr, "%s: missing entry points\n", item.c_str()); return 2; }
		fprintf(stderr, "[lib] %-16s __cplusplus=%ld GLM_LANG=0x%x GLM_HAS_CXX11_STL=%d\n", L.name.c_str(), L.cpp(), (unsigned)L.lang(), L.stl());
		g_libs.push_back(L);
	}
	if (g_libs.size() < 2) { fprintf(stderr, "need at least two libraries\n"); return 2; }
	const int n = g_libs[0].count();
	for (int d = 0; d < 2; ++d) for (int i = 0; i < n; ++i) {
		FnEnt f; f.idx = i; f.dom = g_libs[0].domain(i); f.is_double = d == 1;
		std::string b = g_libs[0].fname(i);
		f.zero_sign_free = b == "min" || b == "max" || b == "fmin" || b == "fmax" || b == "fclamp" || b == "fmin.vec3" || b == "min.vec4";
		f.name = b + ".lang." + (d ? "double" : "float");
		g_fns.push_back(f);
	}
	if (g_fns.size() > 128) { fprintf(stderr, "too many functions\n"); return 2; }
	fill(g_tr, std::make_integer_sequence<int, 128>());
	static std::string rule = "x, y from the function's domain (specials, ties, powers of two, random bit patterns; y = x and y = -x planted), the same values given to every language-level build; every result bit-identical to the g++ -std=c++17 build; every case non-trivial";
	for (size_t i = 0; i < g_fns.size(); ++i) {
		pbt::Target t; t.name = g_fns[i].name; t.fn = g_tr[i]; t.quick_cases = 20000; t.thorough_cases = 2000000; t.rule = rule;
		pbt::targets().push_back(t);
	}
	return pbt::pbt_main(argc, argv, "C15");
}
