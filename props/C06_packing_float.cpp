// C06 (3/3) — floating-point formats: packF2x11_1x10 (unsigned 11/11/10-bit floats), packF3x9_E1x5 (RGB9_E5),
// packRGBM/unpackRGBM, and the lane layout of the half packers (the half conversion itself is property C07).
// Oracles (engine/ref/refpack.hpp): the OpenGL definitions of the unsigned small floats (5-bit exponent, bias 15,
// denormals, Inf = exponent 31 / mantissa 0, NaN = exponent 31 / mantissa != 0; conversion: negative -> 0, above the
// maximum -> maximum, +Inf -> Inf), the EXT_texture_shared_exponent encoder/decoder, IEEE binary16, and for RGBM the
// published encoding GLM cites (alpha = ceil(clamp(max(rgb/6, 1e-6)) * 255) / 255, rgb/6/alpha; decode 6 * rgb * alpha).
#include "ref/refpack.hpp"
#include <glm/glm.hpp>
#include <glm/packing.hpp>
#include <glm/gtc/packing.hpp>

using namespace fp;
using namespace refpack;

// =====================================================================================================================
// F2x11_1x10: fields x: bits 0..10 (6-bit mantissa), y: bits 11..21 (6-bit mantissa), z: bits 22..31 (5-bit mantissa)
static const int UF_POS[3] = {0, 11, 22}, UF_BITS[3] = {11, 11, 10}, UF_MB[3] = {6, 6, 5};
static inline uint32_t uf_field(uint32_t w, int i) { return (w >> UF_POS[i]) & ((1u << UF_BITS[i]) - 1); }
static std::string k3(const char* a, int field, const char* b) { std::string k = a; k += "/field"; k += (char)('0' + field); k += '/'; k += b; return k; }
// keys of the small-float checks name the codec (f11: components 0 and 1, f10: component 2); the component is in the detail text
static std::string kuf(const char* a, int field, const char* b) { std::string k = a; k += field < 2 ? "/f11/" : "/f10/"; k += b; return k; }

static void check_f2x11_word(pbt::Ctx& c, uint32_t p) {
	glm::vec3 d = glm::unpackF2x11_1x10(p);
	glm::uint32 rp = glm::packF2x11_1x10(d);
	glm::vec3 d2 = glm::unpackF2x11_1x10(rp);
	c.logf("unpackF2x11_1x10(0x%08x) = (%a, %a, %a); re-packed 0x%08x", p, (double)d.x, (double)d.y, (double)d.z, rp);
	int normals = 0;
	for (int i = 0; i < 3; ++i) {
		uint32_t code = uf_field(p, i);
		UfClass k = uf_class(code, UF_MB[i]);
		double want = uf_value(code, UF_MB[i]);
		const bool higher = (p >> (UF_POS[i] + UF_BITS[i])) != 0;  // the fields above this one are not all zero
		const char* cn = UFCLASS[k];
		c.cls(cn);
		if (k == UF_NORMAL || k == UF_SUBNORMAL) ++normals;
		bool ok = k == UF_NAN ? is_nan(d[i]) : ((double)d[i] == want && !sign_bit(d[i]));
		if (!ok) c.failk(kuf("unpack", i, cn) + (k == UF_ZERO ? (higher ? "/higher-fields-nonzero" : "/higher-fields-zero") : ""), "unpackF2x11_1x10(0x%08x) component %d: code 0x%03x (exponent %u, mantissa %u) decodes to %a, expected %a", p, i, code, code >> UF_MB[i], code & ((1u << UF_MB[i]) - 1), (double)d[i], want);
		// finite codes are canonical: re-packing returns them
		if (k != UF_NAN && k != UF_INF && uf_field(rp, i) != code) c.failk(kuf("repack", i, cn), "word 0x%08x component %d: code 0x%03x -> %a -> re-packed code 0x%03x", p, i, code, (double)d[i], uf_field(rp, i));
		// every word: unpack(pack(unpack(p))) == unpack(p)
		if (!(f2u(d[i]) == f2u(d2[i]) || (is_nan(d[i]) && is_nan(d2[i])))) c.failk(kuf("idempotent", i, cn), "word 0x%08x component %d: unpack = %a, unpack(pack(unpack)) = %a (re-packed word 0x%08x)", p, i, (double)d[i], (double)d2[i], rp);
	}
	if (normals == 3 && uf_field(p, 0) != uf_field(p, 1) && (uf_field(p, 0) >> 1) != uf_field(p, 2) && (uf_field(p, 1) >> 1) != uf_field(p, 2)) c.nontrivial();
}
static void prop_f2x11_words(pbt::Ctx& c) { check_f2x11_word(c, (uint32_t)c.draw(1ULL << 32)); }
PBT_SWEEP("F2x11_1x10/words", prop_f2x11_words, 1ULL << 32, 256, 1, "packed word -> unpackF2x11_1x10 -> every component against the GL small-float value of its code (denormals, Inf, NaN); finite codes re-pack to themselves; unpack(pack(unpack)) = unpack; non-trivial = three non-zero finite codes with pairwise different values");
static void prop_f2x11_fields(pbt::Ctx& c) {
	uint64_t idx = c.draw(3ULL * (2048 + 2048 + 1024));
	int fill = (int)(idx % 3); idx /= 3;
	int fi = idx < 2048 ? 0 : idx < 4096 ? 1 : 2;
	uint32_t code = (uint32_t)(idx - (fi == 0 ? 0 : fi == 1 ? 2048 : 4096));
	uint32_t others = fill == 0 ? 0u : fill == 1 ? ~0u : (uint32_t)c.draw(1ULL << 32);
	uint32_t fm = ((1u << UF_BITS[fi]) - 1) << UF_POS[fi];
	c.cls(fill == 0 ? "others-zero" : fill == 1 ? "others-ones" : "others-random");
	check_f2x11_word(c, (others & ~fm) | (code << UF_POS[fi]));
}
PBT_SWEEP("F2x11_1x10/fields", prop_f2x11_fields, 3ULL * (2048 + 2048 + 1024), 1, 1, "every code of each of the three fields, the other fields all-zero / all-one / random; same checks as words");

enum XC { X_ZERO, X_NORMAL, X_SUBHI, X_SUBLO, X_BELOWMIN, X_ABOVEMAX, X_PINF, X_NEG, X_NINF, X_NAN };
// the denormal range [2^-14-mb, 2^-14) is split at 2^-15: GLM's codec treats exponent field 0 as the binade [2^-15, 2^-14)
static const char* const XCN[] = {"zero", "normal-range", "denormal-range[2^-15,2^-14)", "denormal-range<2^-15", "below-smallest", "above-largest", "+inf", "negative", "negative", "nan"};
static XC uf_xclass(float x, int mb) {
	if (is_nan(x)) return X_NAN;
	if (x == 0.0f) return X_ZERO;
	if (is_inf(x)) return sign_bit(x) ? X_NINF : X_PINF;
	if (x < 0) return X_NEG;
	if ((double)x > uf_max(mb)) return X_ABOVEMAX;
	if ((double)x < uf_min_sub(mb)) return X_BELOWMIN;
	if ((double)x < std::ldexp(1.0, -15)) return X_SUBLO;
	if ((double)x < std::ldexp(1.0, -14)) return X_SUBHI;
	return X_NORMAL;
}
static float gen_uf_input(pbt::Ctx& c, int mb, bool representable_only) {
	static const int REPR[] = {1, 3, 4, 11};  // classes that yield a value inside the normal range (mostly)
	switch (representable_only ? REPR[c.draw(4)] : (int)c.draw(12)) {
	case 0: c.cls("gen:zero"); return c.coin() ? -0.0f : 0.0f;
	case 1: case 2: { c.cls("gen:code-value"); uint32_t code = 1 + (uint32_t)c.draw(uf_max_code(mb)); return (float)uf_value(code, mb); }
	case 3: { c.cls("gen:code-value+-ulps"); uint32_t code = 1 + (uint32_t)c.draw(uf_max_code(mb)); return packcheck::nudge((float)uf_value(code, mb), c.range(-2, 2)); }
	case 4: case 5: c.cls("gen:normal-loguniform"); return (float)std::ldexp(1.0 + c.unit(), (int)c.range(-14, 15));
	case 6: c.cls("gen:denormal-range"); return (float)(uf_min_sub(mb) * (1.0 + c.unit() * ((double)(1 << mb) - 1.0)));
	case 7: c.cls("gen:below-smallest"); return c.coin() ? (float)(uf_min_sub(mb) * c.uniform(0.01, 0.999)) : (float)c.loguniform(1e-44, uf_min_sub(mb) * 0.99);
	case 8: c.cls("gen:above-largest"); { float t[] = {packcheck::nudge((float)uf_max(mb), 1), 65536.0f, 65535.0f, 1e5f, 1e10f, 3.40282347e+38f, (float)(uf_max(mb) * (1.0 + c.unit()))}; return t[c.draw(7)]; }
	case 9: c.cls("gen:negative"); { float t[] = {-1.0f, -0.5f, -1e-6f, -65000.0f, -1e30f, -1.4012984643e-45f, -(float)c.loguniform(1e-8, 1e6)}; return t[c.draw(7)]; }
	case 10: c.cls("gen:inf-nan"); { float t[] = {INFINITY, -INFINITY, std::numeric_limits<float>::quiet_NaN(), u2f(0x7f800001u + (uint32_t)c.draw(0x7ffffe)), u2f(0xff800001u + (uint32_t)c.draw(0x7ffffe))}; return t[c.draw(5)]; }
	default: c.cls("gen:edges"); { float t[] = {(float)uf_max(mb), (float)std::ldexp(1.0, -14), packcheck::nudge((float)std::ldexp(1.0, -14), -1), (float)uf_min_sub(mb), packcheck::nudge((float)uf_min_sub(mb), -1), 1.0f, 2.0f, 0.5f, 0.1f, 0.9f}; return t[c.draw(10)]; }
	}
}
// code order == value order for the non-NaN codes of an unsigned small float
static void prop_f2x11_pack(pbt::Ctx& c) {
	float x[3];
	const bool all_representable = c.draw(3) == 0;  // a third of the cases: three in-range values (layout / monotone / quantisation), else mixed classes
	for (int i = 0; i < 3; ++i) x[i] = gen_uf_input(c, UF_MB[i], all_representable);
	glm::uint32 w = glm::packF2x11_1x10(glm::vec3(x[0], x[1], x[2]));
	glm::vec3 d = glm::unpackF2x11_1x10(w);
	int j = (int)c.draw(3);
	float x2[3] = {x[0], x[1], x[2]};
	if (is_finite(x[j])) x2[j] = packcheck::nudge(x[j], c.range(1, 3));
	glm::uint32 w2 = glm::packF2x11_1x10(glm::vec3(x2[0], x2[1], x2[2]));
	c.logf("packF2x11_1x10(%a, %a, %a) = 0x%08x codes (0x%03x, 0x%03x, 0x%03x) -> unpack (%a, %a, %a); component %d raised to %a -> 0x%08x", (double)x[0], (double)x[1], (double)x[2], w, uf_field(w, 0), uf_field(w, 1), uf_field(w, 2), (double)d.x, (double)d.y, (double)d.z, j, (double)x2[j], w2);
	int normals = 0;
	for (int i = 0; i < 3; ++i) {
		const int mb = UF_MB[i];
		XC k = uf_xclass(x[i], mb);
		c.cls(XCN[k]);
		uint32_t g = uf_field(w, i);
		UfClass gk = uf_class(g, mb);
		double v = uf_value(g, mb), xd = (double)x[i];
		const char* why = nullptr;
		switch (k) {
		case X_NAN: if (gk != UF_NAN) why = "NaN must pack to a NaN code"; break;
		case X_PINF: if (gk != UF_INF) why = "+Inf must pack to the Inf code"; break;
		case X_ZERO: if (g != 0) why = "zero must pack to code 0"; break;
		case X_NEG: case X_NINF: case X_BELOWMIN: if (g > 1) why = "negative / sub-minimum input must pack to zero or the smallest code"; break;
		case X_ABOVEMAX: if (g != uf_max_code(mb)) why = "finite input above the largest value must clamp to the largest finite code"; break;
		case X_SUBHI: case X_SUBLO: if (gk == UF_INF || gk == UF_NAN || std::fabs(v - xd) > uf_min_sub(mb)) why = "decoded value more than one mantissa step (the denormal spacing) away"; break;
		case X_NORMAL: {
			++normals;
			int e; std::frexp(xd, &e);
			double step = std::ldexp(1.0, e - 1 - mb);
			if (gk == UF_INF || gk == UF_NAN || std::fabs(v - xd) > step) why = "decoded value more than one mantissa step away";
			break;
		}
		}
		if (why) c.failk(kuf("pack", i, XCN[k]), "packF2x11_1x10 component %d = %a (%.9g): code 0x%03x (value %.9g): %s", i, xd, xd, g, v, why);
		// end to end through GLM's own unpack, for the inputs the format can represent (only where the code itself was right:
		// a wrong code is already reported above)
		if (!why && (k == X_ZERO || k == X_NORMAL || k == X_SUBHI || k == X_SUBLO)) {
			int e; std::frexp(xd, &e);
			double step = k == X_ZERO ? 0.0 : k != X_NORMAL ? uf_min_sub(mb) : std::ldexp(1.0, e - 1 - mb);
			const bool higher = (w >> (UF_POS[i] + UF_BITS[i])) != 0;
			if (!(std::fabs((double)d[i] - xd) <= step)) c.failk(kuf("roundtrip", i, XCN[k]) + (k == X_ZERO ? (higher ? "/higher-fields-nonzero" : "/higher-fields-zero") : ""), "component %d = %a: unpackF2x11_1x10(packF2x11_1x10(v)) = %a, more than one mantissa step (%a) away", i, xd, (double)d[i], step);
		}
		// layout / independence / monotone
		uint32_t g2 = uf_field(w2, i);
		if (i != j && g2 != g) c.failk(k3("independence", i, "changed"), "raising component %d changed field %d from 0x%03x to 0x%03x", j, i, g, g2);
		if (i == j && !why && k == uf_xclass(x2[j], mb) && (k == X_NORMAL || k == X_SUBHI || k == X_SUBLO) && g2 < g) c.failk(kuf("monotone", i, XCN[k]), "component %d: %a -> code 0x%03x but larger %a -> code 0x%03x", i, xd, g, (double)x2[j], g2);
	}
	if (normals == 3 && d.x != d.y && d.y != d.z && d.x != d.z) c.nontrivial();
}
PBT_RANDOM("F2x11_1x10/pack", prop_f2x11_pack, 1500000, 60000000, "per component: values of finite codes (+-2 ulp), log-uniform normals, denormal range, below the smallest denormal, above the largest finite, negative, +-0, +-Inf, NaN; code judged with the reference decoder (one mantissa step; clamps per the GL conversion rules), GLM's unpack of the result within one step, one component raised (monotone within its class, other fields unchanged); non-trivial = three normal-range inputs with pairwise different decoded values");

// =====================================================================================================================
// F3x9_E1x5 (RGB9_E5): mantissas at bits 0..8, 9..17, 18..26, shared exponent at bits 27..31
static inline const char* maxclass(double mx) { return mx > 32768.0 ? "max>2^15" : "max<=2^15"; }
static void check_f3x9_word(pbt::Ctx& c, uint32_t p) {
	const uint32_t e = p >> 27, m[3] = {p & 511, (p >> 9) & 511, (p >> 18) & 511};
	glm::vec3 d = glm::unpackF3x9_E1x5(p);
	glm::uint32 rp = glm::packF3x9_E1x5(d);
	glm::vec3 d2 = glm::unpackF3x9_E1x5(rp);
	uint32_t mmax = m[0] > m[1] ? m[0] : m[1]; if (m[2] > mmax) mmax = m[2];
	const double vmax = rgb9e5_value(mmax, e);
	const bool canonical = mmax >= 256 || e == 0;  // what the specification's encoder produces for the decoded colour
	c.logf("unpackF3x9_E1x5(0x%08x: mantissas %u,%u,%u exponent %u) = (%a, %a, %a); re-packed 0x%08x", p, m[0], m[1], m[2], e, (double)d.x, (double)d.y, (double)d.z, rp);
	c.cls(canonical ? "canonical-word" : "non-canonical-word");
	c.cls(maxclass(vmax));
	for (int i = 0; i < 3; ++i) {
		double want = rgb9e5_value(m[i], e);
		if ((double)d[i] != want) c.failk(k3("unpack", i, "value"), "unpackF3x9_E1x5(0x%08x) component %d = %a, expected %u * 2^(%u-24) = %a", p, i, (double)d[i], m[i], e, want);
	}
	if (canonical && rp != p) c.failk(std::string("repack/canonical/") + maxclass(vmax), "canonical word 0x%08x -> (%a, %a, %a) -> re-packed 0x%08x", p, (double)d.x, (double)d.y, (double)d.z, rp);
	if (f2u(d.x) != f2u(d2.x) || f2u(d.y) != f2u(d2.y) || f2u(d.z) != f2u(d2.z)) c.failk(std::string("idempotent/") + maxclass(vmax), "word 0x%08x: unpack = (%a, %a, %a) but unpack(pack(unpack)) = (%a, %a, %a) (re-packed word 0x%08x)", p, (double)d.x, (double)d.y, (double)d.z, (double)d2.x, (double)d2.y, (double)d2.z, rp);
	if (mmax && m[0] != m[1] && m[1] != m[2] && m[0] != m[2]) c.nontrivial();
}
static void prop_f3x9_words(pbt::Ctx& c) { check_f3x9_word(c, (uint32_t)c.draw(1ULL << 32)); }
PBT_SWEEP("F3x9_E1x5/words", prop_f3x9_words, 1ULL << 32, 256, 1, "packed word -> unpackF3x9_E1x5 -> mantissa * 2^(exponent-24) exactly; canonical words (largest mantissa >= 256 or exponent 0) re-pack to themselves; unpack(pack(unpack)) = unpack for every word; non-trivial = three different mantissas");
static void prop_f3x9_fields(pbt::Ctx& c) {
	uint64_t idx = c.draw(3ULL * (512 * 3 + 32));
	int fill = (int)(idx % 3); idx /= 3;
	int fi = idx < 1536 ? (int)(idx / 512) : 3;
	uint32_t code = fi < 3 ? (uint32_t)(idx % 512) : (uint32_t)(idx - 1536);
	uint32_t others = fill == 0 ? 0u : fill == 1 ? ~0u : (uint32_t)c.draw(1ULL << 32);
	uint32_t fm = fi < 3 ? (511u << (9 * fi)) : (31u << 27);
	c.cls(fill == 0 ? "others-zero" : fill == 1 ? "others-ones" : "others-random");
	check_f3x9_word(c, (others & ~fm) | (code << (fi < 3 ? 9 * fi : 27)));
}
PBT_SWEEP("F3x9_E1x5/fields", prop_f3x9_fields, 3ULL * (512 * 3 + 32), 1, 1, "every code of each mantissa field and of the exponent field, the other fields all-zero / all-one / random; same checks as words");

static float gen_rgb9e5_input(pbt::Ctx& c) {
	switch (c.draw(12)) {
	case 0: c.cls("gen:zero"); return c.coin() ? -0.0f : 0.0f;
	case 1: case 2: c.cls("gen:representable"); return (float)rgb9e5_value((uint32_t)c.draw(512), (uint32_t)c.draw(32));
	case 3: c.cls("gen:power-of-two+-ulps"); return packcheck::nudge((float)std::ldexp(1.0, (int)c.range(-18, 16)), c.range(-2, 2));
	case 4: case 5: c.cls("gen:loguniform"); return (float)std::ldexp(1.0 + c.unit(), (int)c.range(-20, 15));
	case 6: c.cls("gen:(2^15,max]"); return (float)c.uniform(32768.0, RGB9E5_MAX);
	case 7: c.cls("gen:above-max"); { float t[] = {65409.0f, 65536.0f, 1e5f, 1e20f, 3.40282347e+38f, INFINITY, packcheck::nudge(65408.0f, 1)}; return t[c.draw(7)]; }
	case 8: c.cls("gen:negative"); { float t[] = {-1.0f, -0.5f, -1e-6f, -65000.0f, -1e30f, -INFINITY, -(float)c.loguniform(1e-8, 1e6)}; return t[c.draw(7)]; }
	case 9: c.cls("gen:tiny"); return (float)c.loguniform(1e-12, std::ldexp(1.0, -16));
	case 10: c.cls("gen:edges"); { float t[] = {65408.0f, 32768.0f, packcheck::nudge(32768.0f, 1), packcheck::nudge(32768.0f, -1), 65280.0f, 1.0f, 2.0f, 0.1f, 0.5f, 0.9f, (float)std::ldexp(1.0, -24), (float)std::ldexp(1.0, -25), (float)std::ldexp(511.0, -24)}; return t[c.draw(13)]; }
	default: c.cls("gen:mantissa-midpoint+-ulps"); { int e = (int)c.draw(32); return packcheck::nudge((float)std::ldexp((double)c.range(256, 511) + 0.5, e - 24), c.range(-2, 2)); }
	}
}
static void prop_f3x9_pack(pbt::Ctx& c) {
	float x[3]; double xd[3], cl[3];
	for (int i = 0; i < 3; ++i) { x[i] = gen_rgb9e5_input(c); xd[i] = x[i]; cl[i] = rgb9e5_clamp(xd[i]); }
	if (c.draw(4) == 0) x[1] = x[0], xd[1] = xd[0], cl[1] = cl[0];
	int es = 0;
	const uint32_t wref = rgb9e5_encode(xd, &es);
	const double step = std::ldexp(1.0, es - 24);
	double mx = cl[0] > cl[1] ? cl[0] : cl[1]; if (cl[2] > mx) mx = cl[2];
	glm::uint32 w = glm::packF3x9_E1x5(glm::vec3(x[0], x[1], x[2]));
	glm::vec3 d = glm::unpackF3x9_E1x5(w);
	const uint32_t e = w >> 27;
	int j = (int)c.draw(3);
	float x2[3] = {x[0], x[1], x[2]};
	if (is_finite(x[j])) x2[j] = packcheck::nudge(x[j], c.range(1, 3));
	glm::uint32 w2 = glm::packF3x9_E1x5(glm::vec3(x2[0], x2[1], x2[2]));
	c.logf("packF3x9_E1x5(%a, %a, %a) = 0x%08x (mantissas %u,%u,%u exponent %u; specification encoder 0x%08x) -> unpack (%a, %a, %a); component %d raised to %a -> 0x%08x", xd[0], xd[1], xd[2], w, w & 511, (w >> 9) & 511, (w >> 18) & 511, e, wref, (double)d.x, (double)d.y, (double)d.z, j, (double)x2[j], w2);
	c.cls(w == wref ? "equals-specification-encoder" : mx > 32768.0 ? "differs-from-specification-encoder(max>2^15)" : "differs-from-specification-encoder(max<=2^15)");
	c.cls(maxclass(mx));
	for (int i = 0; i < 3; ++i) {
		const char* cc = xd[i] < 0 ? "negative" : xd[i] > RGB9E5_MAX ? "above-largest" : "in-range";
		c.cls(cc);
		double v = rgb9e5_value((w >> (9 * i)) & 511, e);
		std::string suffix = std::string(cc) + "/" + maxclass(mx);
		const bool pack_ok = std::fabs(v - cl[i]) <= step;
		if (!pack_ok) c.failk("pack/" + suffix, "packF3x9_E1x5 component %d = %a (clamped %.9g): mantissa %u exponent %u = %.9g, more than one mantissa step 2^%d of the shared exponent away", i, xd[i], cl[i], (w >> (9 * i)) & 511, e, v, es - 24);
		if (pack_ok && !(std::fabs((double)d[i] - cl[i]) <= step)) c.failk("quantise/" + suffix, "component %d = %a (clamped %.9g): unpackF3x9_E1x5(packF3x9_E1x5(v)) = %.9g, more than one mantissa step 2^%d away", i, xd[i], cl[i], (double)d[i], es - 24);
	}
	// the raised component never decodes lower (reference decoder on both words)
	{
		double v1 = rgb9e5_value((w >> (9 * j)) & 511, e), v2 = rgb9e5_value((w2 >> (9 * j)) & 511, w2 >> 27);
		double m2 = rgb9e5_clamp(x2[j]) > mx ? rgb9e5_clamp(x2[j]) : mx;
		if (v2 < v1) c.failk(std::string("monotone/") + maxclass(m2), "component %d: %a decodes to %.9g but larger %a decodes to %.9g", j, xd[j], v1, (double)x2[j], v2);
	}
	if (mx > 0 && cl[0] != cl[1] && cl[1] != cl[2] && cl[0] != cl[2]) c.nontrivial();
}
PBT_RANDOM("F3x9_E1x5/pack", prop_f3x9_pack, 1500000, 60000000, "per component: representable values, powers of two +-2 ulp, mantissa midpoints +-2 ulp, log-uniform, (2^15, 65408], above the maximum, negative, tiny, +-0, +-Inf; result decoded with the reference decoder must lie within one mantissa step (of the specification's shared exponent) of clamp(x, 0, 65408), same through GLM's unpack, one component raised never decodes lower; non-trivial = three different clamped components, not all zero");

// =====================================================================================================================
// RGBM
template <class T> static void prop_rgbm(pbt::Ctx& c, const char* tn) {
	typedef long double W;
	T x[3];
	bool above = false;
	for (int i = 0; i < 3; ++i) {
		switch (c.draw(6)) {
		case 0: x[i] = (T)c.uniform(0.0, 6.0); break;
		case 1: x[i] = (T)((double)c.range(0, 255) * 6.0 / 255.0); break;  // alpha lands on a multiple of 1/255
		case 2: x[i] = (T)c.loguniform(1e-9, 6.0); break;
		case 3: { T t[] = {(T)0, (T)6, (T)1, (T)3, (T)6e-6, (T)5.9999, (T)1e-7, (T)0.5}; x[i] = t[c.draw(8)]; break; }
		case 4: x[i] = (T)c.uniform(6.0, 60.0); break;
		default: x[i] = (T)c.uniform(0.0, 1.0); break;
		}
		if (x[i] > (T)6) above = true;
	}
	const char* rc = above ? "above-6" : "within-[0,6]";
	c.cls(rc);
	glm::vec<4, T> p = glm::packRGBM(glm::vec<3, T>(x[0], x[1], x[2]));
	glm::vec<3, T> u = glm::unpackRGBM(p);
	c.logf("%s packRGBM(%.9g, %.9g, %.9g) = (%.9g, %.9g, %.9g, alpha %.9g = %.6f/255) -> unpackRGBM (%.9g, %.9g, %.9g)", tn, (double)x[0], (double)x[1], (double)x[2], (double)p.x, (double)p.y, (double)p.z, (double)p.w, (double)p.w * 255.0, (double)u.x, (double)u.y, (double)u.z);
	const W eps = (W)std::numeric_limits<T>::epsilon();
	// alpha is a multiple of 1/255 in [1/255, 1] ...
	W a255 = (W)p.w * 255.0L, k = floorl(a255 + 0.5L);
	if (!(fabsl(a255 - k) <= 8 * eps * 255.0L) || k < 1 || k > 255) c.failk(std::string("packRGBM/") + tn + "/alpha-not-k/255", "alpha = %.17g = %.9Lf / 255", (double)p.w, a255);
	// ... the smallest one not below clamp(max(rgb/6, 1e-6), 0, 1) (ceil; either neighbour when the scaled value is within rounding of an integer)
	W m = (W)x[0]; if ((W)x[1] > m) m = (W)x[1]; if ((W)x[2] > m) m = (W)x[2];
	m /= 6.0L; if (m < 1e-6L) m = 1e-6L; if (m > 1) m = 1;
	W slack = 16 * eps * 255.0L;
	W klo = ceill(m * 255.0L - slack), khi = ceill(m * 255.0L + slack);
	if (klo < 1) klo = 1;
	if (khi > 255) khi = 255;
	if (k < klo || k > khi) c.failk(std::string("packRGBM/") + tn + "/alpha-value/" + rc, "max(rgb)/6 = %.12Lg: alpha = %.9Lf/255, expected ceil(%.9Lf)/255", m, a255, m * 255.0L);
	if (klo != khi) c.cls("alpha-at-ceil-boundary");
	for (int i = 0; i < 3; ++i) {
		// channel i = x_i / 6 / alpha (3 roundings + the rounded constant 1/6), channels in [0,1] when the colour is within [0,6]
		W want = (W)x[i] / 6.0L / (W)p.w;
		W tol = 8 * 2 * eps * fabsl(want) + (W)std::numeric_limits<T>::denorm_min();
		W err = fabsl((W)p[i] - want);
		c.metric("rgbm channel err/tol", (double)(err / tol));
		if (!(err <= tol)) c.failk(std::string("packRGBM/") + tn + "/channel" + (char)('0' + i), "channel %d = %.17g, expected %.17Lg / 6 / alpha = %.17Lg", i, (double)p[i], (W)x[i], want);
		if (!above && !((W)p[i] >= 0 && (W)p[i] <= 1 + 8 * eps)) c.failk(std::string("packRGBM/") + tn + "/channel-outside-[0,1]", "colour within [0,6] but channel %d = %.17g", i, (double)p[i]);
		// round trip: 5 roundings
		W tol2 = 8 * 2.5L * eps * fabsl((W)x[i]) + (W)std::numeric_limits<T>::denorm_min();
		W err2 = fabsl((W)u[i] - (W)x[i]);
		c.metric("rgbm roundtrip err/tol", (double)(err2 / tol2));
		if (!(err2 <= tol2)) c.failk(std::string("unpackRGBM(packRGBM)/") + tn + "/" + rc, "channel %d: %.17g -> %.17g", i, (double)x[i], (double)u[i]);
		// unpackRGBM alone: 6 * rgb * alpha on the packed vector
		W want3 = 6.0L * (W)p[i] * (W)p.w, tol3 = 8 * eps * fabsl(want3) + (W)std::numeric_limits<T>::denorm_min();
		if (!(fabsl((W)u[i] - want3) <= tol3)) c.failk(std::string("unpackRGBM/") + tn + "/value", "unpackRGBM channel %d = %.17g, expected 6 * %.17g * %.17g", i, (double)u[i], (double)p[i], (double)p.w);
	}
	if (x[0] != x[1] && x[1] != x[2] && x[0] != x[2] && x[0] > 0 && x[1] > 0 && x[2] > 0) c.nontrivial();
}
static void prop_rgbm_f(pbt::Ctx& c) { prop_rgbm<float>(c, "float"); }
static void prop_rgbm_d(pbt::Ctx& c) { prop_rgbm<double>(c, "double"); }
#define RULE_RGBM "colours uniform in [0,6], on the alpha grid k*6/255, log-uniform down to 1e-9, edge table, above 6 (alpha saturates); alpha = ceil(clamp(max(rgb/6,1e-6))*255)/255, channel = x/6/alpha within 16 eps, channels in [0,1] when the colour is in [0,6], unpackRGBM(packRGBM(x)) = x within 20 eps, unpackRGBM = 6*rgb*alpha; non-trivial = three different positive channels"
PBT_RANDOM("RGBM/float", prop_rgbm_f, 1000000, 30000000, RULE_RGBM);
PBT_RANDOM("RGBM/double", prop_rgbm_d, 1000000, 30000000, RULE_RGBM);

// =====================================================================================================================
// half packers: lane layout only (packHalf1x16, core packHalf2x16, packHalf4x16, packHalf<L>) against IEEE binary16
template <int L, class PackFn, class UnpackFn> static void check_half_word(pbt::Ctx& c, uint64_t p, const char* name, PackFn pack, UnpackFn unpack) {
	float d[4] = {0, 0, 0, 0};
	unpack(p, d);
	uint64_t rp = pack(d);
	bool distinct = true, inner = false;
	for (int i = 0; i < L; ++i) {
		uint16_t h = (uint16_t)(p >> (16 * i));
		for (int k = 0; k < i; ++k) if ((uint16_t)(p >> (16 * k)) == h) distinct = false;
		if (h & 0x7fff) inner = true;
		bool nan = half_is_nan(h);
		if (nan) c.cls("nan-code"); else if (half_is_inf(h)) c.cls("inf-code"); else if (((h >> 10) & 31) == 0 && (h & 1023)) c.cls("subnormal-code");
		bool ok = nan ? is_nan(d[i]) : half_is_inf(h) ? (is_inf(d[i]) && sign_bit(d[i]) == (bool)(h >> 15)) : ((double)d[i] == half_value(h) && sign_bit(d[i]) == (bool)(h >> 15));
		if (!ok) c.failk(k3("unpack", i, nan ? "nan" : "non-nan"), "%s word 0x%llx lane %d: half 0x%04x decodes to %a", name, (unsigned long long)p, i, h, (double)d[i]);
		uint16_t r = (uint16_t)(rp >> (16 * i));
		if (nan ? !half_is_nan(r) : r != h) c.failk(k3("repack", i, nan ? "nan" : "non-nan"), "%s word 0x%llx lane %d: half 0x%04x -> %a -> 0x%04x", name, (unsigned long long)p, i, h, (double)d[i], r);
	}
	if constexpr (L < 4) if (rp >> (16 * L)) c.fail("repack/stray-bits", "%s re-pack 0x%llx has bits above lane %d", name, (unsigned long long)rp, L - 1);
	c.logf("%s word 0x%llx -> (%a, %a, %a, %a)[%d] -> 0x%llx", name, (unsigned long long)p, (double)d[0], (double)d[1], (double)d[2], (double)d[3], L, (unsigned long long)rp);
	if (inner && (distinct || L == 1)) c.nontrivial();
}
template <int L> static uint64_t half_sweep_word(pbt::Ctx& c) {
	uint64_t idx = c.draw(3ULL * L * 65536);
	int fill = (int)(idx % 3); idx /= 3;
	int lane = (int)(idx >> 16); uint64_t code = idx & 0xffff;
	uint64_t others = fill == 0 ? 0 : fill == 1 ? ~0ULL : c.draw(0);
	uint64_t fm = 0xffffULL << (16 * lane);
	uint64_t p = (others & ~fm) | (code << (16 * lane));
	if constexpr (L < 4) p &= (1ULL << (16 * L)) - 1;
	c.cls(fill == 0 ? "others-zero" : fill == 1 ? "others-ones" : "others-random");
	return p;
}
template <int L> struct HalfT {
	static uint64_t pack(const float* v) { glm::vec<L, float> x; for (int i = 0; i < L; ++i) x[i] = v[i]; glm::vec<L, glm::uint16> r = glm::packHalf(x); uint64_t w = 0; for (int i = 0; i < L; ++i) w |= (uint64_t)r[i] << (16 * i); return w; }
	static void unpack(uint64_t w, float* o) { glm::vec<L, glm::uint16> p; for (int i = 0; i < L; ++i) p[i] = (glm::uint16)(w >> (16 * i)); glm::vec<L, float> r = glm::unpackHalf(p); for (int i = 0; i < L; ++i) o[i] = r[i]; }
};
#define RULE_HALF "every half code in every lane, the other lanes all-zero / all-one / random: lane i of the unpacked vector is the IEEE binary16 value of bits [16i,16i+16) (NaN -> NaN), and re-packing returns every non-NaN code in its lane; non-trivial = lanes pairwise distinct, one not +-0"
static void prop_half1(pbt::Ctx& c) { check_half_word<1>(c, half_sweep_word<1>(c), "Half1x16", [](const float* v) { return (uint64_t)glm::packHalf1x16(v[0]); }, [](uint64_t w, float* o) { o[0] = glm::unpackHalf1x16((glm::uint16)w); }); }
PBT_SWEEP("Half1x16/layout", prop_half1, 3ULL * 1 * 65536, 1, 1, RULE_HALF);
static void prop_half2(pbt::Ctx& c) { check_half_word<2>(c, half_sweep_word<2>(c), "Half2x16", [](const float* v) { return (uint64_t)glm::packHalf2x16(glm::vec2(v[0], v[1])); }, [](uint64_t w, float* o) { glm::vec2 r = glm::unpackHalf2x16((glm::uint)w); o[0] = r.x; o[1] = r.y; }); }
PBT_SWEEP("Half2x16/layout", prop_half2, 3ULL * 2 * 65536, 1, 1, RULE_HALF);
static void prop_half4(pbt::Ctx& c) { check_half_word<4>(c, half_sweep_word<4>(c), "Half4x16", [](const float* v) { return (uint64_t)glm::packHalf4x16(glm::vec4(v[0], v[1], v[2], v[3])); }, [](uint64_t w, float* o) { glm::vec4 r = glm::unpackHalf4x16((glm::uint64)w); for (int i = 0; i < 4; ++i) o[i] = r[i]; }); }
PBT_SWEEP("Half4x16/layout", prop_half4, 3ULL * 4 * 65536, 1, 1, RULE_HALF);
static void prop_halfT1(pbt::Ctx& c) { check_half_word<1>(c, half_sweep_word<1>(c), "packHalf<1>", HalfT<1>::pack, HalfT<1>::unpack); }
PBT_SWEEP("packHalf<1>/layout", prop_halfT1, 3ULL * 1 * 65536, 1, 1, RULE_HALF);
static void prop_halfT2(pbt::Ctx& c) { check_half_word<2>(c, half_sweep_word<2>(c), "packHalf<2>", HalfT<2>::pack, HalfT<2>::unpack); }
PBT_SWEEP("packHalf<2>/layout", prop_halfT2, 3ULL * 2 * 65536, 1, 1, RULE_HALF);
static void prop_halfT3(pbt::Ctx& c) { check_half_word<3>(c, half_sweep_word<3>(c), "packHalf<3>", HalfT<3>::pack, HalfT<3>::unpack); }
PBT_SWEEP("packHalf<3>/layout", prop_halfT3, 3ULL * 3 * 65536, 1, 1, RULE_HALF);
static void prop_halfT4(pbt::Ctx& c) { check_half_word<4>(c, half_sweep_word<4>(c), "packHalf<4>", HalfT<4>::pack, HalfT<4>::unpack); }
PBT_SWEEP("packHalf<4>/layout", prop_halfT4, 3ULL * 4 * 65536, 1, 1, RULE_HALF);
