// C01 (integer functions) — glm/integer.hpp (detail/func_integer.inl) and glm/ext/vector_integer.hpp against their scalar
// overloads per component, all integer element types of the tier, L 1..4, every qualifier. All results are integers/bools:
// identity is required. The carry/borrow/extended-multiplication functions exist for 32-bit only (uint / int).
#include "fp.hpp"
#include "ref/c01_support.hpp"
#include <glm/glm.hpp>
#include <glm/ext/scalar_int_sized.hpp>
#include <glm/ext/scalar_uint_sized.hpp>
#include <glm/ext/scalar_integer.hpp>
#include <glm/ext/vector_integer.hpp>
#include "c01_have.hpp"

#ifndef C01_TIER
#define C01_TIER 0
#endif
using namespace c01;
namespace c01 {
struct Fn_bitCount {}; struct Fn_findLSB {}; struct Fn_findMSB {}; struct Fn_bitfieldReverse {}; struct Fn_bitfieldExtract {}; struct Fn_bitfieldInsert {}; struct Fn_isPowerOfTwo {};
struct Fn_nextPowerOfTwo {}; struct Fn_prevPowerOfTwo {}; struct Fn_isMultiple {}; struct Fn_nextMultiple {}; struct Fn_prevMultiple {}; struct Fn_findNSB {};
}

template <class T, int L, glm::qualifier Q> static void run_int(pbt::Ctx& c, const Inst& in) {
	typedef glm::vec<L, T, Q> V;
	typedef glm::vec<L, int, Q> I;
	const int W = sizeof(T) * 8;
	FnCtx fc(c, in);
	T x[4], y[4];
	fill(c, x, L, [&] { return gen_any<T>(c); });
	fill(c, y, L, [&] { return gen_any<T>(c); });
	// positive, moderate operands for the power-of-two / multiple helpers (no overflow: value + multiple < 2^(W-2))
	T p[4], m[4], sm;
	auto gen_small = [&](int maxbits) { int b = (int)c.range(1, maxbits); return (T)(1 + c.draw((1ULL << b) - 1)); };
	fill(c, p, L, [&] { return gen_small(W - 3); });
	fill(c, m, L, [&] { return gen_small(W / 2); });
	sm = gen_small(W / 2);
	if (c.draw(4) == 0) { int i = (int)c.draw(L); p[i] = (T)(m[i] * (T)(1 + c.draw(5))); }  // exact multiples
	if (c.draw(4) == 0) { int i = (int)c.draw(L); p[i] = (T)((T)1 << c.draw(W - 2)); }         // exact powers of two
	int off = (int)c.draw(W + 1), bits = (int)c.draw(W - off + 1);
	if (c.verbose) c.logf("%s x=%s y=%s p=%s m=%s sm=%s offset=%d bits=%d", in.name.c_str(), showv(x, L).c_str(), showv(y, L).c_str(), showv(p, L).c_str(), showv(m, L).c_str(), show(sm).c_str(), off, bits);

	if constexpr (HaveFn<Fn_bitCount, T>::v) fn1<V>(fc, "bitCount", JBits(), x, C01_F1(bitCount), "bitCount");
	if constexpr (HaveFn<Fn_findLSB, T>::v) fn1<V>(fc, "findLSB", JBits(), x, C01_F1(findLSB), "findLSB");
	if constexpr (HaveFn<Fn_findMSB, T>::v) fn1<V>(fc, "findMSB", JBits(), x, C01_F1(findMSB), "findMSB");
	if constexpr (HaveFn<Fn_bitfieldReverse, T>::v) fn1<V>(fc, "bitfieldReverse", JBits(), x, C01_F1(bitfieldReverse), "bitfieldReverse");
	if constexpr (HaveFn<Fn_bitfieldExtract, T>::v) {
		V r = glm::bitfieldExtract(mkv<V>(x), off, bits);
		T want[4];
		for (int i = 0; i < L; ++i) {
			want[i] = glm::bitfieldExtract(x[i], off, bits);
			if (r[i] != want[i]) { c.failk(key("bitfieldExtract", "vec.int.int", L, in.tn), "%s: bitfieldExtract(%s, %d, %d) component %d = %s, scalar overload gives %s", in.name.c_str(), showv(x, L).c_str(), off, bits, i, show<T>(r[i]).c_str(), show(want[i]).c_str()); break; }
		}
		note_nontrivial(fc, L, x, want, "bitfieldExtract", bits > 0 && bits < W);
	}
	if constexpr (HaveFn<Fn_bitfieldInsert, T>::v) {
		V r = glm::bitfieldInsert(mkv<V>(x), mkv<V>(y), off, bits);
		T want[4];
		for (int i = 0; i < L; ++i) {
			want[i] = glm::bitfieldInsert(x[i], y[i], off, bits);
			if (r[i] != want[i]) { c.failk(key("bitfieldInsert", "vec.vec.int.int", L, in.tn), "%s: bitfieldInsert(%s, %s, %d, %d) component %d = %s, scalar overload gives %s", in.name.c_str(), showv(x, L).c_str(), showv(y, L).c_str(), off, bits, i, show<T>(r[i]).c_str(), show(want[i]).c_str()); break; }
		}
		note_nontrivial(fc, L, x, want, "bitfieldInsert", bits > 0 && bits < W && distinct(y, L));
	}
	// ext/vector_integer
	if constexpr (HaveFn<Fn_isPowerOfTwo, T>::v) {
		fn1<V>(fc, "isPowerOfTwo", JBits(), p, C01_F1(isPowerOfTwo), nullptr);
		int np = 0; for (int i = 0; i < L; ++i) np += (p[i] & (T)(p[i] - 1)) == 0;
		if (np > 0 && np < L) c.cls("isPowerOfTwo: both outcomes among the lanes");
	}
	if constexpr (HaveFn<Fn_nextPowerOfTwo, T>::v) fn1<V>(fc, "nextPowerOfTwo", JBits(), p, C01_F1(nextPowerOfTwo), "nextPowerOfTwo");
	if constexpr (HaveFn<Fn_prevPowerOfTwo, T>::v) fn1<V>(fc, "prevPowerOfTwo", JBits(), p, C01_F1(prevPowerOfTwo), "prevPowerOfTwo");
	if constexpr (HaveFn<Fn_isMultiple, T>::v) {
		fn2<V, 3>(fc, "isMultiple", JBits(), p, m, sm, C01_F2(isMultiple), nullptr);
		int nm = 0; for (int i = 0; i < L; ++i) nm += (p[i] % m[i]) == 0;
		if (nm > 0 && nm < L) c.cls("isMultiple: both outcomes among the lanes");
	}
	if constexpr (HaveFn<Fn_nextMultiple, T>::v) fn2<V, 3>(fc, "nextMultiple", JBits(), p, m, sm, C01_F2(nextMultiple), "nextMultiple");
	if constexpr (HaveFn<Fn_prevMultiple, T>::v) fn2<V, 3>(fc, "prevMultiple", JBits(), p, m, sm, C01_F2(prevMultiple), "prevMultiple");
	if constexpr (HaveFn<Fn_findNSB, T>::v) {
		int n[4]; I vn;
		for (int i = 0; i < L; ++i) { n[i] = (int)c.range(1, W); if (c.coin()) { int bc = glm::bitCount(x[i]); if (bc > 0) n[i] = 1 + (int)c.draw(bc); } vn[i] = n[i]; }
		I r = glm::findNSB(mkv<V>(x), vn);
		int want[4];
		for (int i = 0; i < L; ++i) {
			want[i] = glm::findNSB(x[i], n[i]);
			if (r[i] != want[i]) { c.failk(key("findNSB", "vec.ivec", L, in.tn), "%s: findNSB(%s, %s) component %d = %d, scalar overload gives %d", in.name.c_str(), showv(x, L).c_str(), showv(n, L).c_str(), i, r[i], want[i]); break; }
		}
		note_nontrivial(fc, L, x, want, "findNSB");
	}
	if (fc.nontriv) c.nontrivial();
}

// ---- 32-bit only: uaddCarry usubBorrow umulExtended imulExtended ---------------------------------------------------
template <int L, glm::qualifier Q> static void run_carry(pbt::Ctx& c, const Inst& in) {
	typedef glm::vec<L, glm::uint, Q> U;
	typedef glm::vec<L, int, Q> I;
	glm::uint x[4], y[4];
	fill(c, x, L, [&] { return gen_any<glm::uint>(c); });
	fill(c, y, L, [&] { return gen_any<glm::uint>(c); });
	for (int i = 0; i < L; ++i) if (c.draw(4) == 0) y[i] = (glm::uint)(0u - x[i] + (glm::uint)c.range(-2, 2));  // sums around 2^32
	if (c.verbose) c.logf("%s x=%s y=%s", in.name.c_str(), showv(x, L).c_str(), showv(y, L).c_str());
	U carry(9u), borrow(9u), msb(9u), lsb(9u);
	U sum = glm::uaddCarry(mkv<U>(x), mkv<U>(y), carry), dif = glm::usubBorrow(mkv<U>(x), mkv<U>(y), borrow);
	glm::umulExtended(mkv<U>(x), mkv<U>(y), msb, lsb);
	int xi[4], yi[4];
	for (int i = 0; i < L; ++i) { xi[i] = (int)x[i]; yi[i] = (int)y[i]; }
	I imsb(9), ilsb(9);
	glm::imulExtended(mkv<I>(xi), mkv<I>(yi), imsb, ilsb);
	int ncarry = 0, nborrow = 0;
	for (int i = 0; i < L; ++i) {
		glm::uint wc = 7, wb = 7, wm = 7, wl = 7; int im = 7, il = 7;
		glm::uint ws = glm::uaddCarry(x[i], y[i], wc), wd = glm::usubBorrow(x[i], y[i], wb);
		glm::umulExtended(x[i], y[i], wm, wl);
		glm::imulExtended(xi[i], yi[i], im, il);
		ncarry += wc != 0; nborrow += wb != 0;
		if (sum[i] != ws || carry[i] != wc) c.failk(key("uaddCarry", "vec.vec.out-vec", L, "uint32"), "%s: uaddCarry(%s, %s) component %d = (%u, carry %u), scalar overload gives (%u, carry %u)", in.name.c_str(), showv(x, L).c_str(), showv(y, L).c_str(), i, sum[i], carry[i], ws, wc);
		if (dif[i] != wd || borrow[i] != wb) c.failk(key("usubBorrow", "vec.vec.out-vec", L, "uint32"), "%s: usubBorrow(%s, %s) component %d = (%u, borrow %u), scalar overload gives (%u, borrow %u)", in.name.c_str(), showv(x, L).c_str(), showv(y, L).c_str(), i, dif[i], borrow[i], wd, wb);
		if (msb[i] != wm || lsb[i] != wl) c.failk(key("umulExtended", "vec.vec.out-vec", L, "uint32"), "%s: umulExtended(%s, %s) component %d = (%u, %u), scalar overload gives (%u, %u)", in.name.c_str(), showv(x, L).c_str(), showv(y, L).c_str(), i, msb[i], lsb[i], wm, wl);
		if (imsb[i] != im || ilsb[i] != il) c.failk(key("imulExtended", "vec.vec.out-vec", L, "int32"), "%s: imulExtended(%s, %s) component %d = (%d, %d), scalar overload gives (%d, %d)", in.name.c_str(), showv(xi, L).c_str(), showv(yi, L).c_str(), i, imsb[i], ilsb[i], im, il);
	}
	if (L >= 2 && distinct(x, L) && distinct(y, L)) { c.nontrivial(); if (ncarry > 0 && ncarry < L) c.cls("carry in some lanes only"); if (nborrow > 0 && nborrow < L) c.cls("borrow in some lanes only"); }
}
template <class T, int L, glm::qualifier Q> static void run_carry_t(pbt::Ctx& c, const Inst& in) { run_carry<L, Q>(c, in); }

static Table& tab() { static Table t; return t; }
static Table& tabc() { static Table t; return t; }
static void prop_int(pbt::Ctx& c) { Table& t = tab(); const Inst& in = t[c.draw(t.size())]; in.run(c, in); }
static void prop_carry(pbt::Ctx& c) { Table& t = tabc(); const Inst& in = t[c.draw(t.size())]; in.run(c, in); }
static int reg_all() {
	C01_REG(tab(), run_int, glm::int32) C01_REG(tab(), run_int, glm::uint32) C01_REG(tab(), run_int, glm::int8) C01_REG(tab(), run_int, glm::uint64)
#if C01_TIER
	C01_REG(tab(), run_int, glm::uint8) C01_REG(tab(), run_int, glm::int16) C01_REG(tab(), run_int, glm::uint16) C01_REG(tab(), run_int, glm::int64)
#endif
	C01_REG(tabc(), run_carry_t, glm::uint32)
	add_target("integer", prop_int, tab().size(), 30000, 800000,
	           "instance = vec<L,integer type,Q>; every case runs bitCount findLSB findMSB bitfieldReverse bitfieldExtract bitfieldInsert (offset+bits <= width) and ext isPowerOfTwo nextPowerOfTwo prevPowerOfTwo "
	           "isMultiple nextMultiple prevMultiple findNSB; operands: single bits, runs of ones, extremes, random (bit functions), positive overflow-free values with exact multiples / powers of two planted "
	           "(multiple helpers); non-trivial = L >= 2, pairwise distinct components with pairwise distinct scalar results (per-function class counters)");
	add_target("integer-carry-borrow-mul", prop_carry, tabc().size(), 25000, 2500000,
	           "instance = vec<L,uint/int,Q>; uaddCarry usubBorrow umulExtended imulExtended, results and out-parameters, operands around 2^32 sums planted; non-trivial = L >= 2, pairwise distinct operands");
	return 0;
}
static const int reg_integer = reg_all();
