// C01 (operators), part 2 of 3: element types uint32, int8, uint64 and the exhaustive int8 operand-pair sweep (see C01_ops.cpp).
#define C01_OPS_PART 2
#include "C01_ops.cpp"
