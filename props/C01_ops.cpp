// C01 (operators) — every arithmetic / bitwise / shift / unary / increment / comparison operator of vec<1..4,T,Q> in every
// overload shape against the built-in C++ operator applied per component:
//   vec.vec  vec.scalar  scalar.vec  vec.vec1  vec1.vec  assign.vec (op=)  assign.scalar  assign.vec1
// Oracle: component i of the GLM result == `T r = x_i; r op= y_i;` on plain scalars of the element type (BITS class:
// integer results and single IEEE operations are exact). A scalar / vec1 operand is the same value paired with every
// component. Operand generation is sound: shift counts in [0,width), divisors != 0, no INT_MIN / -1, no signed overflow
// in the promoted type (operands are shrunk until the built-in operation is defined), NaN/inf allowed for float arithmetic.
// This file is compiled in several parts (C01_OPS_PART selects the element types; see C01_ops_b.cpp, C01_ops_c.cpp).
#include "fp.hpp"
#include "ref/c01_support.hpp"
#include <glm/glm.hpp>
#include <glm/ext/scalar_int_sized.hpp>
#include <glm/ext/scalar_uint_sized.hpp>
#include "c01_have.hpp"

#ifndef C01_OPS_PART
#define C01_OPS_PART 1
#endif
#ifndef C01_TIER
#define C01_TIER 0
#endif

using namespace c01;

// ---- operator tags ---------------------------------------------------------------------------------------
enum { K_ADD, K_SUB, K_MUL, K_DIV, K_MOD, K_AND, K_OR, K_XOR, K_SHL, K_SHR };
#define C01_BINOP(TAG, TOK, KIND, WORD) \
	struct TAG { \
		static const int kind = KIND; \
		static const char* word() { return WORD; } static const char* tok() { return #TOK; } \
		template <class A, class B> static auto bin(const A& a, const B& b) -> decltype(a TOK b) { return a TOK b; } \
		template <class A, class B> static A& asg(A& a, const B& b) { return a TOK## = b; } \
	};
namespace c01 {
C01_BINOP(Op_add, +, K_ADD, "op-add") C01_BINOP(Op_sub, -, K_SUB, "op-sub") C01_BINOP(Op_mul, *, K_MUL, "op-mul") C01_BINOP(Op_div, /, K_DIV, "op-div")
C01_BINOP(Op_mod, %, K_MOD, "op-mod") C01_BINOP(Op_and, &, K_AND, "op-and") C01_BINOP(Op_or, |, K_OR, "op-or") C01_BINOP(Op_xor, ^, K_XOR, "op-xor")
C01_BINOP(Op_shl, <<, K_SHL, "op-shl") C01_BINOP(Op_shr, >>, K_SHR, "op-shr")
}

static const char* const SHAPE[8] = {"vec.vec", "vec.scalar", "scalar.vec", "vec.vec1", "vec1.vec", "assign.vec", "assign.scalar", "assign.vec1"};

// ---- soundness of the built-in operation on (x, y) -------------------------------------------------------
// The built-in operator works in the promoted type P (int for 8/16-bit types); converting the result back to T is
// modular. Undefined behaviour arises only when the operation overflows a signed P, divides by 0, or shifts out of range.
template <class T> static bool op_safe(int k, T x, T y) {
	if constexpr (!is_int<T>::v) { (void)k; (void)x; (void)y; return true; }
	else {
		typedef decltype(x + y) P;
		typedef __int128 W;
		const bool PS = std::is_signed<P>::value;
		const W Plo = (W)std::numeric_limits<P>::min(), Phi = (W)std::numeric_limits<P>::max();
		const int B = sizeof(T) * 8;
		auto fits = [&](W r) { return !PS || (r >= Plo && r <= Phi); };
		switch (k) {
		case K_ADD: return fits((W)x + (W)y);
		case K_SUB: return fits((W)x - (W)y);
		case K_MUL: return fits((W)x * (W)y);
		case K_DIV: case K_MOD: return y != 0 && !(PS && (W)x == Plo && (W)y == -1);
		case K_SHL: if (!((W)y >= 0 && (W)y < B)) return false; return !PS || ((W)x >= 0 && (((W)x) << (int)y) <= Phi);
		case K_SHR: return (W)y >= 0 && (W)y < B;
		default: return true;
		}
	}
}
template <class T> static void fix_right(int k, T x, T& y) {
	(void)x;
	if constexpr (is_int<T>::v) {
		typedef typename std::make_unsigned<T>::type U;
		const int B = sizeof(T) * 8;
		switch (k) {
		case K_ADD: case K_SUB: y = (T)(y / 2); break;
		case K_MUL: y = (T)(y >> (B / 2 + 1)); break;
		case K_DIV: case K_MOD: y = 1; break;
		case K_SHL: case K_SHR: y = (T)((U)y % (U)B); break;
		default: break;
		}
	}
}
template <class T> static void fix_left(int k, T& x, T y) {
	if constexpr (is_int<T>::v) {
		const int B = sizeof(T) * 8;
		switch (k) {
		case K_ADD: case K_SUB: x = (T)(x / 2); break;
		case K_MUL: x = (T)(x >> (B / 2 + 1)); break;
		case K_DIV: case K_MOD: x = (T)(x + 1); break;
		case K_SHL: x = (T)(x & (T)(std::numeric_limits<T>::max() >> (int)y)); break;
		default: break;
		}
	}
}
// pairs (x[i or 0], y[i or 0]); returns false if some pair stayed unsound (the case is then discarded)
template <class T> static bool fix_pairs(int k, T* x, int nx, T* y, int ny) {
	const int n = nx > ny ? nx : ny;
	for (int i = 0; i < n; ++i) { T& X = x[nx == 1 ? 0 : i]; T& Y = y[ny == 1 ? 0 : i]; if (!op_safe(k, X, Y)) fix_right(k, X, Y); }
	for (int i = 0; i < n; ++i) { T& X = x[nx == 1 ? 0 : i]; T& Y = y[ny == 1 ? 0 : i]; if (!op_safe(k, X, Y)) fix_left(k, X, Y); }
	for (int i = 0; i < n; ++i) if (!op_safe(k, x[nx == 1 ? 0 : i], y[ny == 1 ? 0 : i])) return false;
	if constexpr (is_int<T>::v && std::is_signed<T>::value) {
		// no MIN dividend next to a -1 divisor in ANY lane: a defect that pairs the wrong lanes must show as a wrong value, not as SIGFPE
		if (k == K_DIV || k == K_MOD) {
			bool m1 = false;
			for (int i = 0; i < ny; ++i) if (y[i] == (T)-1) m1 = true;
			if (m1) for (int i = 0; i < nx; ++i) if (x[i] == std::numeric_limits<T>::min()) x[i] = (T)(x[i] + 1);
		}
	}
	return true;
}

// ---- per-instance state ----------------------------------------------------------------------------------
template <class T, int L, glm::qualifier Q> struct OpsCase {
	typedef glm::vec<L, T, Q> V;
	typedef glm::vec<1, T, Q> V1;
	pbt::Ctx& c;
	const Inst& in;
	bool nontriv = false;
	OpsCase(pbt::Ctx& c_, const Inst& in_) : c(c_), in(in_) {}

	static V mk(const T* p) { V v; for (int i = 0; i < L; ++i) v[i] = p[i]; return v; }

	void cmp(const char* word, const char* tok, const char* shape, const V& got, const T* want, const T* x, int nx, const T* y, int ny, const char* cls = nullptr) {
		for (int i = 0; i < L; ++i) {
			if (match<T>(c, BITS, got[i], want[i])) continue;
			c.failk(key(word, shape, L, in.tn, cls), "%s: (%s %s %s) [%s]: component %d = %s, the built-in operator on component %d gives %s",
			        in.name.c_str(), nx ? showv(x, nx).c_str() : "", tok, ny ? showv(y, ny).c_str() : "", shape, i, show<T>(got[i]).c_str(), i, show(want[i]).c_str());
			return;
		}
	}

	template <class Op> void binop(const T* a0, const T* b0, T s0, const char* clsname) {
		const int k = Op::kind;
		T want[4];
		bool nt = false;
		// ---- vec op vec, vec op= vec
		{
			T a[4], b[4];
			for (int i = 0; i < L; ++i) { a[i] = a0[i]; b[i] = b0[i]; }
			if (fix_pairs(k, a, L, b, L)) {
				for (int i = 0; i < L; ++i) { T r = a[i]; Op::asg(r, b[i]); want[i] = r; }
				if constexpr (Have<Op, 0, L, T>::v) cmp(Op::word(), Op::tok(), SHAPE[0], Op::bin(mk(a), mk(b)), want, a, L, b, L);
				if constexpr (Have<Op, 5, L, T>::v) {
					V x = mk(a); V& ret = Op::asg(x, mk(b));
					cmp(Op::word(), Op::tok(), SHAPE[5], x, want, a, L, b, L);
					if (&ret != &x) c.failk(key(Op::word(), SHAPE[5], L, in.tn, "return-value"), "%s: compound assignment does not return *this", in.name.c_str());
				}
				if (L >= 2 && distinct(a, L) && distinct(b, L) && distinct(want, L)) nt = true;
			}
		}
		// ---- the right operand is the left operand itself (v op= v), or one of its components taken by reference (v op= v[0] or v[L-1]):
		//      the result is the one obtained with an independent copy of the operand
		if constexpr (Have<Op, 5, L, T>::v) {
			T aa[4], bb[4];
			for (int i = 0; i < L; ++i) { aa[i] = b0[i]; bb[i] = b0[i]; }
			bool same = fix_pairs(k, aa, L, bb, L);
			for (int i = 0; i < L && same; ++i) if (!eq_bits(aa[i], bb[i])) same = false;
			if (same) {
				for (int i = 0; i < L; ++i) { T r = aa[i]; Op::asg(r, bb[i]); want[i] = r; }
				V x = mk(aa); Op::asg(x, x);
				cmp(Op::word(), Op::tok(), "assign.self", x, want, aa, L, bb, L);
			}
		}
		if constexpr (Have<Op, 6, L, T>::v) {
			T a[4], s;
			for (int i = 0; i < L; ++i) a[i] = a0[i];
			const int j = c.coin() ? 0 : L - 1;  // first component: an in-place loop changes it before the others read it; last: a reversed one
			s = a[j];
			const T s_before = s;
			if (fix_pairs(k, a, L, &s, 1) && eq_bits(s, s_before) && eq_bits(a[j], s)) {
				for (int i = 0; i < L; ++i) { T r = a[i]; Op::asg(r, s); want[i] = r; }
				V x = mk(a); Op::asg(x, x[j]);
				cmp(Op::word(), Op::tok(), "assign.own-component", x, want, a, L, &s, 1);
			}
		}
		// ---- vec op scalar, vec op vec1, vec op= scalar, vec op= vec1
		{
			T a[4], s = s0;
			for (int i = 0; i < L; ++i) a[i] = a0[i];
			if (fix_pairs(k, a, L, &s, 1)) {
				for (int i = 0; i < L; ++i) { T r = a[i]; Op::asg(r, s); want[i] = r; }
				if constexpr (Have<Op, 1, L, T>::v) cmp(Op::word(), Op::tok(), SHAPE[1], Op::bin(mk(a), s), want, a, L, &s, 1);
				if constexpr (Have<Op, 6, L, T>::v) { V x = mk(a); Op::asg(x, s); cmp(Op::word(), Op::tok(), SHAPE[6], x, want, a, L, &s, 1); }
				if constexpr (L > 1) {
					if constexpr (Have<Op, 3, L, T>::v) cmp(Op::word(), Op::tok(), SHAPE[3], Op::bin(mk(a), V1(s)), want, a, L, &s, 1);
					if constexpr (Have<Op, 7, L, T>::v) { V x = mk(a); Op::asg(x, V1(s)); cmp(Op::word(), Op::tok(), SHAPE[7], x, want, a, L, &s, 1); }
				}
				bool differs = false;
				for (int i = 0; i < L; ++i) if (!eq_bits(a[i], s)) differs = true;
				if (L >= 2 && distinct(a, L) && distinct(want, L) && differs) nt = true;
			}
		}
		// ---- scalar op vec, vec1 op vec
		{
			T a[4], s = s0;
			for (int i = 0; i < L; ++i) a[i] = b0[i];
			if (fix_pairs(k, &s, 1, a, L)) {
				for (int i = 0; i < L; ++i) { T r = s; Op::asg(r, a[i]); want[i] = r; }
				if constexpr (Have<Op, 2, L, T>::v) cmp(Op::word(), Op::tok(), SHAPE[2], Op::bin(s, mk(a)), want, &s, 1, a, L);
				if constexpr (L > 1) { if constexpr (Have<Op, 4, L, T>::v) cmp(Op::word(), Op::tok(), SHAPE[4], Op::bin(V1(s), mk(a)), want, &s, 1, a, L); }
				if (L >= 2 && distinct(a, L) && distinct(want, L)) nt = true;
			}
		}
		if (nt) { nontriv = true; c.cls(clsname); }
	}

	void unary(const T* a0) {
		T a[4], want[4];
		const bool wide_signed = std::is_signed<T>::value && is_int<T>::v && sizeof(T) >= 4;
		// unary plus: identity
		for (int i = 0; i < L; ++i) a[i] = a0[i];
		cmp("op-plus", "+", "unary", +mk(a), a, a, 0, a, L);
		// unary minus (BITS: the point of negation is the sign, DESIGN 5.1): -x of the built-in type
		for (int i = 0; i < L; ++i) { if (wide_signed && a[i] == std::numeric_limits<T>::min()) a[i] = (T)(a[i] + 1); want[i] = (T)(-a[i]); }
		if constexpr (!std::is_same<T, bool>::value) {
			V got = -mk(a);
			for (int i = 0; i < L; ++i) {
				if (match<T>(c, BITS, got[i], want[i])) continue;
				const char* cls = (is_fp<T>::v && a[i] == 0) ? "zero-sign" : "value";
				c.failk(key("op-neg", "unary", L, in.tn, cls), "%s: -%s: component %d = %s, the built-in negation gives %s", in.name.c_str(), showv(a, L).c_str(), i, show<T>(got[i]).c_str(), show(want[i]).c_str());
				break;
			}
			if (L >= 2 && distinct(a, L)) { nontriv = true; c.cls("neg"); }
		}
		// ++ / -- (prefix and postfix)
		if constexpr (!std::is_same<T, bool>::value) {
			for (int i = 0; i < L; ++i) {
				a[i] = a0[i];
				if (wide_signed && a[i] == std::numeric_limits<T>::max()) a[i] = (T)(a[i] - 1);
				if (wide_signed && a[i] == std::numeric_limits<T>::min()) a[i] = (T)(a[i] + 1);
			}
			T inc[4], dec[4];
			for (int i = 0; i < L; ++i) { T r = a[i]; ++r; inc[i] = r; r = a[i]; --r; dec[i] = r; }
			{ V x = mk(a); V& r = ++x; cmp("op-inc", "++", "prefix", x, inc, a, 0, a, L); if (&r != &x) c.failk(key("op-inc", "prefix", L, in.tn, "return-value"), "%s: ++v does not return v", in.name.c_str()); }
			{ V x = mk(a); V& r = --x; cmp("op-dec", "--", "prefix", x, dec, a, 0, a, L); if (&r != &x) c.failk(key("op-dec", "prefix", L, in.tn, "return-value"), "%s: --v does not return v", in.name.c_str()); }
			{ V x = mk(a); V old = x++; cmp("op-inc", "++", "postfix", x, inc, a, L, a, 0); cmp("op-inc", "++ (value returned by the postfix form)", "postfix-result", old, a, a, L, a, 0); }
			{ V x = mk(a); V old = x--; cmp("op-dec", "--", "postfix", x, dec, a, L, a, 0); cmp("op-dec", "-- (value returned by the postfix form)", "postfix-result", old, a, a, L, a, 0); }
			if (L >= 2 && distinct(a, L)) c.cls("inc-dec");
		}
		if constexpr (is_int<T>::v) {
			for (int i = 0; i < L; ++i) { a[i] = a0[i]; want[i] = (T)(~a[i]); }
			cmp("op-not", "~", "unary", ~mk(a), want, a, 0, a, L);
			if (L >= 2 && distinct(a, L)) c.cls("bitwise-not");
		}
	}

	// == and != : true iff every component compares equal with the built-in ==
	void equality(const T* a0, const T* b0) {
		T a[4], b[4];
		for (int i = 0; i < L; ++i) { a[i] = a0[i]; b[i] = b0[i]; }
		// mode: 0 independent, 1 b = a, 2 b = a except one lane, 3 b = a with +0/-0 or NaN planted in one lane (floats)
		int mode = (int)c.draw(4), lane = (int)c.draw(L);
		if (mode >= 1) for (int i = 0; i < L; ++i) b[i] = a[i];
		if (mode == 2) { b[lane] = b0[lane]; }
		if constexpr (is_fp<T>::v) {
			if (mode == 3) { if (c.coin()) { a[lane] = T(0); b[lane] = -T(0); } else { a[lane] = b[lane] = std::numeric_limits<T>::quiet_NaN(); } }
		}
		bool all = true; int ndiff = 0, first = -1;
		for (int i = 0; i < L; ++i) if (!(a[i] == b[i])) { all = false; ++ndiff; if (first < 0) first = i; }
		static const char* LANE[5] = {"differ-at-0", "differ-at-1", "differ-at-2", "differ-at-3", "all-equal"};
		const char* cls = all ? LANE[4] : (ndiff == 1 ? LANE[first] : "several-differ");
		bool ge = (mk(a) == mk(b)), gn = (mk(a) != mk(b));
		if (ge != all) c.failk(key("op-eq", "vec.vec", L, in.tn, cls), "%s: %s == %s gives %d, component-wise == gives %d", in.name.c_str(), showv(a, L).c_str(), showv(b, L).c_str(), (int)ge, (int)all);
		if (gn != !all) c.failk(key("op-ne", "vec.vec", L, in.tn, cls), "%s: %s != %s gives %d, component-wise == gives %d", in.name.c_str(), showv(a, L).c_str(), showv(b, L).c_str(), (int)gn, (int)!all);
		if (ndiff == 1) { nontriv = true; c.cls("eq:exactly-one-lane-differs"); }
		else if (all) c.cls("eq:all-equal");
		else c.cls("eq:several-differ");
		if constexpr (std::is_same<T, bool>::value) {
			typedef glm::vec<L, bool, Q> B;
			B ra = mk(a) && mk(b), ro = mk(a) || mk(b);
			for (int i = 0; i < L; ++i) {
				if (ra[i] != (a[i] && b[i])) c.failk(key("op-land", "vec.vec", L, in.tn), "%s: %s && %s component %d = %d", in.name.c_str(), showv(a, L).c_str(), showv(b, L).c_str(), i, (int)ra[i]);
				if (ro[i] != (a[i] || b[i])) c.failk(key("op-lor", "vec.vec", L, in.tn), "%s: %s || %s component %d = %d", in.name.c_str(), showv(a, L).c_str(), showv(b, L).c_str(), i, (int)ro[i]);
			}
		}
	}
};

template <class T, int L, glm::qualifier Q> static void run_ops(pbt::Ctx& c, const Inst& in) {
	OpsCase<T, L, Q> oc(c, in);
	T a[4], b[4], s;
	fill(c, a, L, [&] { return gen_any<T>(c); });
	fill(c, b, L, [&] { return gen_any<T>(c); });
	s = gen_any<T>(c);
	if constexpr (is_fp<T>::v) {  // NaN / inf / signed zero planted in single lanes (arithmetic and == are defined on them by IEEE 754)
		static const T SP[6] = {std::numeric_limits<T>::quiet_NaN(), std::numeric_limits<T>::infinity(), -std::numeric_limits<T>::infinity(), T(0), -T(0), std::numeric_limits<T>::denorm_min()};
		if (c.draw(6) == 0) a[c.draw(L)] = SP[c.draw(6)];
		if (c.draw(6) == 0) b[c.draw(L)] = SP[c.draw(6)];
		if (c.draw(12) == 0) s = SP[c.draw(6)];
		int nn = 0; for (int i = 0; i < L; ++i) nn += fp::is_nan(a[i]) || fp::is_nan(b[i]);
		if (nn > 0 && nn < L) c.cls("NaN operand in some lanes only");
	}
	if (c.verbose) c.logf("%s a=%s b=%s s=%s", in.name.c_str(), showv(a, L).c_str(), showv(b, L).c_str(), show(s).c_str());
	if constexpr (!std::is_same<T, bool>::value) {
		oc.template binop<Op_add>(a, b, s, "add");
		oc.template binop<Op_sub>(a, b, s, "sub");
		oc.template binop<Op_mul>(a, b, s, "mul");
		oc.template binop<Op_div>(a, b, s, "div");
	}
	if constexpr (is_int<T>::v) {
		oc.template binop<Op_mod>(a, b, s, "mod");
		oc.template binop<Op_and>(a, b, s, "and");
		oc.template binop<Op_or>(a, b, s, "or");
		oc.template binop<Op_xor>(a, b, s, "xor");
		oc.template binop<Op_shl>(a, b, s, "shl");
		oc.template binop<Op_shr>(a, b, s, "shr");
	}
	oc.unary(a);
	oc.equality(a, b);
	if (oc.nontriv) c.nontrivial();
}

// exhaustive 8-bit operand pairs: lane 0 carries (x, y), the other lanes carry derived pairs; the scalar operand is y
template <class T, int L, glm::qualifier Q> static void run_ops8(pbt::Ctx& c, uint64_t idx) {
	static const Inst in = {std::string("vec") + std::to_string(L) + "<" + TN<T>::n() + "," + qn((int)Q) + ">", nullptr, L, (int)Q, TN<T>::n()};
	OpsCase<T, L, Q> oc(c, in);
	T x = (T)(uint8_t)(idx & 255), y = (T)(uint8_t)(idx >> 8);
	T a[4] = {x, (T)(x + 1), (T)~x, (T)(x ^ 0x55)}, b[4] = {y, (T)~y, (T)(y + 3), (T)(y ^ 0x33)};
	if (c.verbose) c.logf("%s a=%s b=%s s=%s", in.name.c_str(), showv(a, L).c_str(), showv(b, L).c_str(), show(y).c_str());
	oc.template binop<Op_add>(a, b, y, "add"); oc.template binop<Op_sub>(a, b, y, "sub"); oc.template binop<Op_mul>(a, b, y, "mul"); oc.template binop<Op_div>(a, b, y, "div");
	oc.template binop<Op_mod>(a, b, y, "mod"); oc.template binop<Op_and>(a, b, y, "and"); oc.template binop<Op_or>(a, b, y, "or"); oc.template binop<Op_xor>(a, b, y, "xor");
	oc.template binop<Op_shl>(a, b, y, "shl"); oc.template binop<Op_shr>(a, b, y, "shr");
	oc.unary(a);
	if (oc.nontriv) c.nontrivial();
}

// ---- registration -----------------------------------------------------------------------------------------
template <class T, int L, glm::qualifier Q> static void reg1(Table& t) {
	t.push_back({std::string("vec") + std::to_string(L) + "<" + TN<T>::n() + "," + qn((int)Q) + ">", &run_ops<T, L, Q>, L, (int)Q, TN<T>::n()});
}
template <class T, glm::qualifier Q> static void regq(Table& t) { reg1<T, 1, Q>(t); reg1<T, 2, Q>(t); reg1<T, 3, Q>(t); reg1<T, 4, Q>(t); }
template <class T> static void regt(Table& t) {
	regq<T, glm::highp>(t);
#if C01_TIER
	regq<T, glm::mediump>(t);
#endif
	regq<T, glm::lowp>(t);
}

#define C01_OPS_TARGET(T, N) \
	static Table& tab_##N() { static Table t; return t; } \
	static void prop_ops_##N(pbt::Ctx& c) { Table& t = tab_##N(); const Inst& in = t[c.draw(t.size())]; in.run(c, in); } \
	static const int reg_ops_##N = (regt<T>(tab_##N()), add_target("operators/" #N, prop_ops_##N, tab_##N().size(), 60000, 1000000, \
		"instance = vec<L," #N ",Q> (L 1..4 x qualifiers), every case runs every operator of the type in all 8 overload shapes + unary + ++/-- + ==/!=; operands: structured + random full-range values made sound " \
		"per operator (shift counts mod width, divisor != 0, no INT_MIN/-1, no signed overflow); non-trivial = L >= 2, pairwise distinct components with pairwise distinct results, scalar operand different from some component (per-operator class counters)"), 0);

#if C01_OPS_PART == 1
C01_OPS_TARGET(float, float)
C01_OPS_TARGET(double, double)
C01_OPS_TARGET(glm::int32, int32)
#elif C01_OPS_PART == 2
C01_OPS_TARGET(glm::uint32, uint32)
C01_OPS_TARGET(glm::int8, int8)
C01_OPS_TARGET(glm::uint64, uint64)
// exhaustive 8-bit pairs
static void prop_ops8_i(pbt::Ctx& c) { uint64_t i = c.draw(65536ULL * 4); uint64_t p = i & 65535; switch (i >> 16) { case 0: run_ops8<glm::int8, 1, glm::highp>(c, p); break; case 1: run_ops8<glm::int8, 2, glm::lowp>(c, p); break; case 2: run_ops8<glm::int8, 3, glm::highp>(c, p); break; default: run_ops8<glm::int8, 4, glm::lowp>(c, p); } }
static const int reg_ops8_i = (add_sweep("operators/int8-all-pairs", prop_ops8_i, 65536ULL * 4, 1, 1, "every (x,y) pair of int8 in lane 0 (other lanes x+1,~x,x^0x55 / ~y,y+3,y^0x33; scalar operand y) x L 1..4, all operators and shapes; non-trivial as for operators/*"), 0);
#elif C01_OPS_PART == 3
#if C01_TIER
C01_OPS_TARGET(glm::uint8, uint8)
C01_OPS_TARGET(glm::int16, int16)
C01_OPS_TARGET(glm::uint16, uint16)
C01_OPS_TARGET(glm::int64, int64)
C01_OPS_TARGET(bool, bool)
static void prop_ops8_u(pbt::Ctx& c) { uint64_t i = c.draw(65536ULL * 4); uint64_t p = i & 65535; switch (i >> 16) { case 0: run_ops8<glm::uint8, 1, glm::mediump>(c, p); break; case 1: run_ops8<glm::uint8, 2, glm::highp>(c, p); break; case 2: run_ops8<glm::uint8, 3, glm::lowp>(c, p); break; default: run_ops8<glm::uint8, 4, glm::highp>(c, p); } }
static const int reg_ops8_u = (add_sweep("operators/uint8-all-pairs", prop_ops8_u, 65536ULL * 4, 1, 1, "every (x,y) pair of uint8 in lane 0 x L 1..4, all operators and shapes"), 0);
#endif
#endif
