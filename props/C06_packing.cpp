// C06 (1/3) — normalised fixed-point formats of glm/packing.hpp and glm/gtc/packing.hpp.
// Oracle: engine/ref/refpack.hpp (k/M, clamp(k/M,-1,1), round(clamp(x)*M) from the doc comments / GLSL 4.20 section 8.4);
// the adapters below are the only code that calls GLM. Field lists are least-significant field first: "the first component
// of the vector will be written to the least significant bits of the output".
//   <fmt>/words  : every word (<=16 bit: always; 32 bit: strided in quick, complete in thorough; 64 bit: structured random)
//   <fmt>/fields : every code of every field with the other fields 0 / all-ones / random
//   <fmt>/pack   : generated real inputs (code preimages, midpoints +-ulps, range ends and beyond, +-0, subnormals, inf)
//   <fmt>/floats : every float bit pattern through the scalar packers
#include "ref/refpack.hpp"
#include <glm/glm.hpp>
#include <glm/packing.hpp>
#include <glm/gtc/packing.hpp>

using refpack::Field; using refpack::UNORM; using refpack::SNORM;

#define FMT_BEGIN(NAME, NFv, ...) \
	struct NAME { typedef float T; static constexpr int NF = NFv; static constexpr Field fields[4] = {__VA_ARGS__}; static const char* name() { return #NAME; }
#define FMT_END };
#define U(b) Field{b, UNORM}
#define S(b) Field{b, SNORM}

// ---- core
FMT_BEGIN(Unorm2x16, 2, U(16), U(16))
	static uint64_t pack(const float* v) { return glm::packUnorm2x16(glm::vec2(v[0], v[1])); }
	static void unpack(uint64_t w, float* o) { glm::vec2 r = glm::unpackUnorm2x16((glm::uint)w); o[0] = r.x; o[1] = r.y; }
FMT_END
FMT_BEGIN(Snorm2x16, 2, S(16), S(16))
	static uint64_t pack(const float* v) { return glm::packSnorm2x16(glm::vec2(v[0], v[1])); }
	static void unpack(uint64_t w, float* o) { glm::vec2 r = glm::unpackSnorm2x16((glm::uint)w); o[0] = r.x; o[1] = r.y; }
FMT_END
FMT_BEGIN(Unorm4x8, 4, U(8), U(8), U(8), U(8))
	static uint64_t pack(const float* v) { return glm::packUnorm4x8(glm::vec4(v[0], v[1], v[2], v[3])); }
	static void unpack(uint64_t w, float* o) { glm::vec4 r = glm::unpackUnorm4x8((glm::uint)w); for (int i = 0; i < 4; ++i) o[i] = r[i]; }
FMT_END
FMT_BEGIN(Snorm4x8, 4, S(8), S(8), S(8), S(8))
	static uint64_t pack(const float* v) { return glm::packSnorm4x8(glm::vec4(v[0], v[1], v[2], v[3])); }
	static void unpack(uint64_t w, float* o) { glm::vec4 r = glm::unpackSnorm4x8((glm::uint)w); for (int i = 0; i < 4; ++i) o[i] = r[i]; }
FMT_END
// ---- gtc
FMT_BEGIN(Unorm1x8, 1, U(8))
	static uint64_t pack(const float* v) { return glm::packUnorm1x8(v[0]); }
	static void unpack(uint64_t w, float* o) { o[0] = glm::unpackUnorm1x8((glm::uint8)w); }
FMT_END
FMT_BEGIN(Unorm2x8, 2, U(8), U(8))
	static uint64_t pack(const float* v) { return glm::packUnorm2x8(glm::vec2(v[0], v[1])); }
	static void unpack(uint64_t w, float* o) { glm::vec2 r = glm::unpackUnorm2x8((glm::uint16)w); o[0] = r.x; o[1] = r.y; }
FMT_END
FMT_BEGIN(Snorm1x8, 1, S(8))
	static uint64_t pack(const float* v) { return glm::packSnorm1x8(v[0]); }
	static void unpack(uint64_t w, float* o) { o[0] = glm::unpackSnorm1x8((glm::uint8)w); }
FMT_END
FMT_BEGIN(Snorm2x8, 2, S(8), S(8))
	static uint64_t pack(const float* v) { return glm::packSnorm2x8(glm::vec2(v[0], v[1])); }
	static void unpack(uint64_t w, float* o) { glm::vec2 r = glm::unpackSnorm2x8((glm::uint16)w); o[0] = r.x; o[1] = r.y; }
FMT_END
FMT_BEGIN(Unorm1x16, 1, U(16))
	static uint64_t pack(const float* v) { return glm::packUnorm1x16(v[0]); }
	static void unpack(uint64_t w, float* o) { o[0] = glm::unpackUnorm1x16((glm::uint16)w); }
FMT_END
FMT_BEGIN(Unorm4x16, 4, U(16), U(16), U(16), U(16))
	static uint64_t pack(const float* v) { return glm::packUnorm4x16(glm::vec4(v[0], v[1], v[2], v[3])); }
	static void unpack(uint64_t w, float* o) { glm::vec4 r = glm::unpackUnorm4x16((glm::uint64)w); for (int i = 0; i < 4; ++i) o[i] = r[i]; }
FMT_END
FMT_BEGIN(Snorm1x16, 1, S(16))
	static uint64_t pack(const float* v) { return glm::packSnorm1x16(v[0]); }
	static void unpack(uint64_t w, float* o) { o[0] = glm::unpackSnorm1x16((glm::uint16)w); }
FMT_END
FMT_BEGIN(Snorm4x16, 4, S(16), S(16), S(16), S(16))
	static uint64_t pack(const float* v) { return glm::packSnorm4x16(glm::vec4(v[0], v[1], v[2], v[3])); }
	static void unpack(uint64_t w, float* o) { glm::vec4 r = glm::unpackSnorm4x16((glm::uint64)w); for (int i = 0; i < 4; ++i) o[i] = r[i]; }
FMT_END
FMT_BEGIN(Snorm3x10_1x2, 4, S(10), S(10), S(10), S(2))
	static uint64_t pack(const float* v) { return glm::packSnorm3x10_1x2(glm::vec4(v[0], v[1], v[2], v[3])); }
	static void unpack(uint64_t w, float* o) { glm::vec4 r = glm::unpackSnorm3x10_1x2((glm::uint32)w); for (int i = 0; i < 4; ++i) o[i] = r[i]; }
FMT_END
FMT_BEGIN(Unorm3x10_1x2, 4, U(10), U(10), U(10), U(2))
	static uint64_t pack(const float* v) { return glm::packUnorm3x10_1x2(glm::vec4(v[0], v[1], v[2], v[3])); }
	static void unpack(uint64_t w, float* o) { glm::vec4 r = glm::unpackUnorm3x10_1x2((glm::uint32)w); for (int i = 0; i < 4; ++i) o[i] = r[i]; }
FMT_END
FMT_BEGIN(Unorm2x4, 2, U(4), U(4))
	static uint64_t pack(const float* v) { return glm::packUnorm2x4(glm::vec2(v[0], v[1])); }
	static void unpack(uint64_t w, float* o) { glm::vec2 r = glm::unpackUnorm2x4((glm::uint8)w); o[0] = r.x; o[1] = r.y; }
FMT_END
FMT_BEGIN(Unorm4x4, 4, U(4), U(4), U(4), U(4))
	static uint64_t pack(const float* v) { return glm::packUnorm4x4(glm::vec4(v[0], v[1], v[2], v[3])); }
	static void unpack(uint64_t w, float* o) { glm::vec4 r = glm::unpackUnorm4x4((glm::uint16)w); for (int i = 0; i < 4; ++i) o[i] = r[i]; }
FMT_END
FMT_BEGIN(Unorm1x5_1x6_1x5, 3, U(5), U(6), U(5))
	static uint64_t pack(const float* v) { return glm::packUnorm1x5_1x6_1x5(glm::vec3(v[0], v[1], v[2])); }
	static void unpack(uint64_t w, float* o) { glm::vec3 r = glm::unpackUnorm1x5_1x6_1x5((glm::uint16)w); for (int i = 0; i < 3; ++i) o[i] = r[i]; }
FMT_END
FMT_BEGIN(Unorm3x5_1x1, 4, U(5), U(5), U(5), U(1))
	static uint64_t pack(const float* v) { return glm::packUnorm3x5_1x1(glm::vec4(v[0], v[1], v[2], v[3])); }
	static void unpack(uint64_t w, float* o) { glm::vec4 r = glm::unpackUnorm3x5_1x1((glm::uint16)w); for (int i = 0; i < 4; ++i) o[i] = r[i]; }
FMT_END
FMT_BEGIN(Unorm2x3_1x2, 3, U(3), U(3), U(2))
	static uint64_t pack(const float* v) { return glm::packUnorm2x3_1x2(glm::vec3(v[0], v[1], v[2])); }
	static void unpack(uint64_t w, float* o) { glm::vec3 r = glm::unpackUnorm2x3_1x2((glm::uint8)w); for (int i = 0; i < 3; ++i) o[i] = r[i]; }
FMT_END

#define RULE_WORDS "packed word -> unpack -> compare every field with k/M (snorm: clamp(k/M,-1,1)), re-pack, unpack again; non-trivial = some field code not in {0, max}"
#define RULE_FIELDS "every code of every field, other fields all-zero / all-one / random; same checks as words; non-trivial = some field code not in {0, max}"
#define RULE_PACK "per component: code preimage k/M (+-3 ulp), midpoint (k+1/2)/M +-3 ulp, range ends / beyond / +-0 / subnormal / +-inf, uniform in [lo-1/4, 5/4]; field value against round(clamp(x)*M) (either neighbour within 4 ulp of a midpoint), unpack within half a step, one component raised (monotone, other fields unchanged); non-trivial = field values pairwise distinct and one not in {0, +-max}"
#define RULE_FLOATS "every non-NaN float bit pattern: field value against round(clamp(x)*M), unpack within half a step, next float up never packs lower; non-trivial = x strictly inside the range and non-zero"

// 8/16-bit words: complete in both tiers
#define SMALLFMT(F) \
	static void w_##F(pbt::Ctx& c) { packcheck::prop_norm_words<F>(c); } \
	PBT_SWEEP(#F "/words", w_##F, 1ULL << packcheck::total_bits<F>(), 1, 1, RULE_WORDS); \
	static void p_##F(pbt::Ctx& c) { packcheck::prop_norm_pack<F>(c); } \
	PBT_RANDOM(#F "/pack", p_##F, 400000, 20000000, RULE_PACK);
// 32-bit words: one word per block of 256 in quick, every word in thorough; field sweep complete in both
#define WORD32FMT(F) \
	static void w_##F(pbt::Ctx& c) { packcheck::prop_norm_words<F>(c); } \
	PBT_SWEEP(#F "/words", w_##F, 1ULL << 32, 256, 1, RULE_WORDS); \
	static void f_##F(pbt::Ctx& c) { packcheck::prop_norm_fields<F>(c); } \
	PBT_SWEEP(#F "/fields", f_##F, packcheck::fields_domain<F>(), 1, 1, RULE_FIELDS); \
	static void p_##F(pbt::Ctx& c) { packcheck::prop_norm_pack<F>(c); } \
	PBT_RANDOM(#F "/pack", p_##F, 400000, 20000000, RULE_PACK);
#define WORD64FMT(F) \
	static void w_##F(pbt::Ctx& c) { packcheck::prop_norm_words<F>(c); } \
	PBT_RANDOM(#F "/words", w_##F, 1000000, 50000000, "every field drawn from {0, 1, max, max-1, most negative and neighbours, random}; " RULE_WORDS); \
	static void f_##F(pbt::Ctx& c) { packcheck::prop_norm_fields<F>(c); } \
	PBT_SWEEP(#F "/fields", f_##F, packcheck::fields_domain<F>(), 1, 1, RULE_FIELDS); \
	static void p_##F(pbt::Ctx& c) { packcheck::prop_norm_pack<F>(c); } \
	PBT_RANDOM(#F "/pack", p_##F, 400000, 20000000, RULE_PACK);
#define SCALARFMT(F, QSTRIDE) \
	static void s_##F(pbt::Ctx& c) { packcheck::prop_norm_scalar_sweep<F>(c); } \
	PBT_SWEEP(#F "/floats", s_##F, 1ULL << 32, QSTRIDE, 1, RULE_FLOATS);

WORD32FMT(Unorm2x16)
WORD32FMT(Snorm2x16)
WORD32FMT(Unorm4x8)
WORD32FMT(Snorm4x8)
SMALLFMT(Unorm1x8)
SCALARFMT(Unorm1x8, 16)
SMALLFMT(Unorm2x8)
SMALLFMT(Snorm1x8)
SCALARFMT(Snorm1x8, 16)
SMALLFMT(Snorm2x8)
SMALLFMT(Unorm1x16)
SCALARFMT(Unorm1x16, 16)
WORD64FMT(Unorm4x16)
SMALLFMT(Snorm1x16)
SCALARFMT(Snorm1x16, 16)
WORD64FMT(Snorm4x16)
WORD32FMT(Snorm3x10_1x2)
WORD32FMT(Unorm3x10_1x2)
SMALLFMT(Unorm2x4)
SMALLFMT(Unorm4x4)
SMALLFMT(Unorm1x5_1x6_1x5)
SMALLFMT(Unorm3x5_1x1)
SMALLFMT(Unorm2x3_1x2)

int main(int argc, char** argv) { return pbt::pbt_main(argc, argv, "C06"); }
