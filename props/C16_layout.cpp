// C16 — storage layout contract of vec / mat / qua in one GLM configuration (this file is compiled once per
// configuration; C16_CFG names it, C16_EXPECT_* encode what the documentation promises for that configuration).
// Every instantiation vec<L,T,Q>, mat<C,R,T,Q>, qua<T,Q> is enumerated; static facts (size, alignment, component
// addresses, length type) are checked against the contract model and tagged values are round-tripped through
// value_ptr / operator[] / named members / make_* / raw byte images.
#include "fp.hpp"
#include <glm/glm.hpp>
#include <glm/gtc/type_ptr.hpp>
#include <glm/gtc/quaternion.hpp>
#include <glm/ext/scalar_int_sized.hpp>
#include <glm/ext/scalar_uint_sized.hpp>
#include <glm/fwd.hpp>
#if GLM_CONFIG_ALIGNED_GENTYPES == GLM_ENABLE
#include <glm/gtc/type_aligned.hpp>
#endif
#include "c16_typedefs.inc"
#include <cstddef>
#include <functional>
#include <type_traits>

#ifndef C16_CFG
#define C16_CFG "default"
#endif

struct Inst { std::string name; void (*run)(pbt::Ctx&, const std::string&); };
static std::vector<Inst>& insts() { static std::vector<Inst> v; return v; }

template <class T> struct TN;
#define TNAME(T, N) template <> struct TN<T> { static const char* name() { return N; } };
TNAME(bool, "bool") TNAME(glm::int8, "int8") TNAME(glm::uint8, "uint8") TNAME(glm::int16, "int16") TNAME(glm::uint16, "uint16") TNAME(glm::int32, "int32")
TNAME(glm::uint32, "uint32") TNAME(glm::int64, "int64") TNAME(glm::uint64, "uint64") TNAME(float, "float") TNAME(double, "double")
static const char* qname(glm::qualifier q) {
	switch ((int)q) { case 0: return "packed_highp"; case 1: return "packed_mediump"; case 2: return "packed_lowp"; case 3: return "aligned_highp"; case 4: return "aligned_mediump"; case 5: return "aligned_lowp"; }
	return "?";
}
template <glm::qualifier Q> struct Al { static const bool v = glm::detail::is_aligned<Q>::value; };

// distinct tags: component k of a case gets base + k (bool: alternating pattern chosen by the case)
template <class T> static T tag(pbt::Ctx& c, int k, uint64_t base) { (void)c; if (base == (1ULL << 62)) return (T)0; return (T)(base + (uint64_t)k); }
template <> bool tag<bool>(pbt::Ctx&, int k, uint64_t base) { if (base == (1ULL << 62)) return false; return ((base >> (k & 15)) & 1) != 0; }
template <> float tag<float>(pbt::Ctx&, int k, uint64_t base) { if (base == (1ULL << 62)) return (k & 1) ? -0.0f : 0.0f; return (float)((base & 0xffff) + (uint64_t)k) + 0.25f; }
template <> double tag<double>(pbt::Ctx&, int k, uint64_t base) { if (base == (1ULL << 62)) return (k & 1) ? -0.0 : 0.0; return (double)((base & 0xffffffff) + (uint64_t)k) + 0.125; }
// one filling in eight is the all-zero object (floating-point components alternate +0 / -0): value-dependent special cases in the
// builders (a "null" quaternion, an all-zero column) must not change what is stored
static const uint64_t ZERO_BASE = 1ULL << 62;
template <class T> static uint64_t draw_base(pbt::Ctx& c) { if (c.draw(8) == 0) { c.cls("all-zero filling"); return ZERO_BASE; } return sizeof(T) == 1 ? c.draw(100) : c.draw(1ULL << 14); }

#define FAIL(fact, ...) c.failk(name + "/" fact, __VA_ARGS__)

// expected size / alignment of vec<L,T,Q> from the documented contract
template <int L, class T, glm::qualifier Q> static size_t exp_vec_size() { return Al<Q>::v ? (size_t)(L == 3 ? 4 : L) * sizeof(T) : (size_t)L * sizeof(T); }
template <int L, class T, glm::qualifier Q> static size_t exp_vec_align() { return Al<Q>::v ? (size_t)(L == 3 ? 4 : L) * sizeof(T) : alignof(T); }
// Alignment contract of an aligned type of `size` bytes: the generic storage is alignas(size); a type stored in SIMD registers has the
// alignment of the widest register of the configured instruction set that it fills (an aligned dvec4 is two __m128d below AVX, so 16).
// Nothing documents more than that, so any power of two in [min(size, widest register), size] is accepted.
static inline bool aligned_align_ok(size_t a, size_t size) {
#if GLM_ARCH & GLM_ARCH_AVX_BIT
	const size_t reg = 32;
#else
	const size_t reg = 16;
#endif
	size_t lo = size < reg ? size : reg;
	return a >= lo && a <= size && (a & (a - 1)) == 0;
}

template <class V> static void check_length_type(pbt::Ctx& c, const std::string& name) {
#ifdef C16_EXPECT_SIZE_T_LENGTH
	if (!std::is_same<decltype(V::length()), std::size_t>::value) FAIL("length-type", "length() is not std::size_t under GLM_FORCE_SIZE_T_LENGTH");
#else
	if (!std::is_same<decltype(V::length()), int>::value) FAIL("length-type", "length() is not int in this configuration");
#endif
	if (!std::is_same<decltype(V::length()), glm::length_t>::value) FAIL("length-type", "length() does not return glm::length_t");
}

template <int L, class T, glm::qualifier Q> static void check_vec(pbt::Ctx& c, const std::string& name) {
	typedef glm::vec<L, T, Q> V;
	c.logf("%s", name.c_str());
	if (L >= 2) c.nontrivial();
	if (sizeof(V) != exp_vec_size<L, T, Q>()) FAIL("sizeof", "sizeof=%zu, contract %zu", sizeof(V), exp_vec_size<L, T, Q>());
	if (Al<Q>::v ? !aligned_align_ok(alignof(V), exp_vec_align<L, T, Q>()) : alignof(V) != exp_vec_align<L, T, Q>()) FAIL("alignof", "alignof=%zu, contract %zu", alignof(V), exp_vec_align<L, T, Q>());
	if ((int)V::length() != L) FAIL("length", "length()=%d", (int)V::length());
	check_length_type<V>(c, name);
	uint64_t base = draw_base<T>(c);
	T raw[4];
	for (int k = 0; k < L; ++k) raw[k] = tag<T>(c, k, base);
	V v;
	for (int k = 0; k < L; ++k) v[k] = raw[k];
	const char* p0 = reinterpret_cast<const char*>(&v);
	for (int k = 0; k < L; ++k) {
		if (reinterpret_cast<const char*>(&v[k]) - p0 != (ptrdiff_t)(k * sizeof(T))) FAIL("component-address", "&v[%d] is at byte %td, expected %zu", k, reinterpret_cast<const char*>(&v[k]) - p0, k * sizeof(T));
		if (&v[k] != &v.x + k) FAIL("component-address", "&v[%d] != &v.x + %d", k, k);
	}
	// named members alias operator[]
	if (v.x != raw[0]) FAIL("named-members", "x");
	if constexpr (L >= 2) { if (v.y != raw[1] || &v.y != &v[1]) FAIL("named-members", "y"); }
	if constexpr (L >= 3) { if (v.z != raw[2] || &v.z != &v[2]) FAIL("named-members", "z"); }
	if constexpr (L >= 4) { if (v.w != raw[3] || &v.w != &v[3]) FAIL("named-members", "w"); }
#ifndef C16_XYZW_ONLY
	if constexpr (L >= 2) { if (&v.r != &v.x || &v.g != &v.y || &v.s != &v.x || &v.t != &v.y) FAIL("named-members", "rgba/stpq do not alias xyzw"); }
	if constexpr (L >= 4) { if (&v.b != &v.z || &v.a != &v.w || &v.p != &v.z || &v.q != &v.w) FAIL("named-members", "ba/pq do not alias zw"); }
#endif
	// value_ptr
	const V& cv = v;
	if (glm::value_ptr(v) != &v.x || glm::value_ptr(cv) != &cv.x) FAIL("value_ptr", "value_ptr does not point at the first component");
	for (int k = 0; k < L; ++k) if (glm::value_ptr(cv)[k] != raw[k]) FAIL("value_ptr", "value_ptr(v)[%d] != v[%d]", k, k);
	// byte image of the leading L*sizeof(T) bytes equals the raw array (packed: the whole object)
	if (memcmp(&v, raw, L * sizeof(T)) != 0) FAIL("byte-image", "object bytes differ from the raw array");
	// write through value_ptr, read through operator[]
	V w;
	for (int k = 0; k < L; ++k) glm::value_ptr(w)[k] = raw[L - 1 - k];
	for (int k = 0; k < L; ++k) if (w[k] != raw[L - 1 - k]) FAIL("value_ptr", "store through value_ptr not visible at [%d]", k);
	// make_vecN builds the default-qualified type from a raw array
	if constexpr (L == 2) { auto m = glm::make_vec2(raw); if (m.length() != 2 || m[0] != raw[0] || m[1] != raw[1]) FAIL("make_vec", "make_vec2"); }
	if constexpr (L == 3) { auto m = glm::make_vec3(raw); for (int k = 0; k < 3; ++k) if (m[k] != raw[k]) FAIL("make_vec", "make_vec3 [%d]", k); }
	if constexpr (L == 4) { auto m = glm::make_vec4(raw); for (int k = 0; k < 4; ++k) if (m[k] != raw[k]) FAIL("make_vec", "make_vec4 [%d]", k); }
}

template <int C, int R, class T, glm::qualifier Q> struct MakeMat;
#define MAKEMAT(C, R) template <class T, glm::qualifier Q> struct MakeMat<C, R, T, Q> { static glm::mat<C, R, T, glm::defaultp> make(const T* p) { return glm::make_mat##C##x##R(p); } };
MAKEMAT(2, 2) MAKEMAT(2, 3) MAKEMAT(2, 4) MAKEMAT(3, 2) MAKEMAT(3, 3) MAKEMAT(3, 4) MAKEMAT(4, 2) MAKEMAT(4, 3) MAKEMAT(4, 4)

template <int C, int R, class T, glm::qualifier Q> static void check_mat(pbt::Ctx& c, const std::string& name) {
	typedef glm::mat<C, R, T, Q> M; typedef glm::vec<R, T, Q> Col;
	c.logf("%s", name.c_str());
	c.nontrivial();
	if (sizeof(M) != (size_t)C * sizeof(Col)) FAIL("sizeof", "sizeof=%zu, contract C*sizeof(column)=%zu", sizeof(M), (size_t)C * sizeof(Col));
	if (sizeof(Col) != exp_vec_size<R, T, Q>()) FAIL("sizeof-column", "sizeof(column)=%zu, contract %zu", sizeof(Col), exp_vec_size<R, T, Q>());
	if (alignof(M) != alignof(Col)) FAIL("alignof", "alignof=%zu, column %zu", alignof(M), alignof(Col));
	if (!std::is_same<typename M::col_type, Col>::value) FAIL("col_type", "col_type is not vec<R,T,Q>");
	if ((int)M::length() != C || (int)Col::length() != R) FAIL("length", "length()=%d, column length()=%d", (int)M::length(), (int)Col::length());
	check_length_type<M>(c, name);
	uint64_t base = draw_base<T>(c);
	T raw[16];
	for (int k = 0; k < C * R; ++k) raw[k] = tag<T>(c, k, base);
	M m;
	for (int col = 0; col < C; ++col) for (int r = 0; r < R; ++r) m[col][r] = raw[col * R + r];
	const char* p0 = reinterpret_cast<const char*>(&m);
	for (int col = 0; col < C; ++col) {
		if (reinterpret_cast<const char*>(&m[col]) - p0 != (ptrdiff_t)(col * sizeof(Col))) FAIL("column-address", "column %d at byte %td, expected %zu", col, reinterpret_cast<const char*>(&m[col]) - p0, col * sizeof(Col));
		for (int r = 0; r < R; ++r) if (reinterpret_cast<const char*>(&m[col][r]) - p0 != (ptrdiff_t)(col * sizeof(Col) + r * sizeof(T))) FAIL("element-address", "m[%d][%d] misplaced", col, r);
	}
	const M& cm = m;
	if (glm::value_ptr(m) != &m[0].x || glm::value_ptr(cm) != &cm[0].x) FAIL("value_ptr", "value_ptr does not point at m[0][0]");
	if constexpr (!Al<Q>::v || R != 3) {
		// contiguous column-major: value_ptr(m)[c*R+r] == m[c][r] (aligned 3-row columns are padded to 4 and are excluded by the contract)
		for (int k = 0; k < C * R; ++k) if (glm::value_ptr(cm)[k] != raw[k]) FAIL("value_ptr-column-major", "value_ptr(m)[%d] != m[%d][%d]", k, k / R, k % R);
		if (memcmp(&m, raw, sizeof(T) * C * R) != 0) FAIL("byte-image", "object bytes differ from the column-major raw array");
		M w;
		for (int k = 0; k < C * R; ++k) glm::value_ptr(w)[k] = raw[C * R - 1 - k];
		for (int col = 0; col < C; ++col) for (int r = 0; r < R; ++r) if (w[col][r] != raw[C * R - 1 - (col * R + r)]) FAIL("value_ptr-column-major", "store through value_ptr lands elsewhere than [%d][%d]", col, r);
	}
	// make_mat builds the default-qualified type from the memory image value_ptr exposes. When that type has padded (aligned, 3-row)
	// columns the image is not a contiguous C*R array, so there the contract is the round trip make_mat(value_ptr(m)) == m.
	glm::mat<C, R, T, glm::defaultp> md;
	for (int col = 0; col < C; ++col) for (int r = 0; r < R; ++r) md[col][r] = raw[col * R + r];
	const T* image = (Al<glm::defaultp>::v && R == 3) ? glm::value_ptr(md) : raw;
	glm::mat<C, R, T, glm::defaultp> mk = MakeMat<C, R, T, Q>::make(image);
	for (int col = 0; col < C; ++col) for (int r = 0; r < R; ++r) if (mk[col][r] != raw[col * R + r]) FAIL("make_mat", "make_mat%dx%d [%d][%d]", C, R, col, r);
	if constexpr (C == R) {
		if constexpr (C == 2) { auto s = glm::make_mat2(image); if (!(s == mk)) FAIL("make_mat", "make_mat2 != make_mat2x2"); }
		if constexpr (C == 3) { auto s = glm::make_mat3(image); if (!(s == mk)) FAIL("make_mat", "make_mat3 != make_mat3x3"); }
		if constexpr (C == 4) { auto s = glm::make_mat4(image); if (!(s == mk)) FAIL("make_mat", "make_mat4 != make_mat4x4"); }
	}
}

template <class T, glm::qualifier Q> static void check_qua(pbt::Ctx& c, const std::string& name) {
	typedef glm::qua<T, Q> Qt;
	c.logf("%s", name.c_str());
	c.nontrivial();
	size_t es = Al<Q>::v ? 4 * sizeof(T) : 4 * sizeof(T), ea = Al<Q>::v ? 4 * sizeof(T) : alignof(T);
	if (sizeof(Qt) != es) FAIL("sizeof", "sizeof=%zu, contract %zu", sizeof(Qt), es);
	if (Al<Q>::v ? !aligned_align_ok(alignof(Qt), ea) : alignof(Qt) != ea) FAIL("alignof", "alignof=%zu, contract %zu", alignof(Qt), ea);
	if ((int)Qt::length() != 4) FAIL("length", "length()=%d", (int)Qt::length());
	check_length_type<Qt>(c, name);
	uint64_t base = draw_base<T>(c);
	T tw = tag<T>(c, 0, base), tx = tag<T>(c, 1, base), ty = tag<T>(c, 2, base), tz = tag<T>(c, 3, base);
	Qt q(tw, tx, ty, tz);  // constructor order is (w, x, y, z) in every configuration
	if (q.w != tw || q.x != tx || q.y != ty || q.z != tz) FAIL("ctor-wxyz", "qua(w,x,y,z) stored (w=%g,x=%g,y=%g,z=%g)", (double)q.w, (double)q.x, (double)q.y, (double)q.z);
	const char* p0 = reinterpret_cast<const char*>(&q);
	ptrdiff_t ox = reinterpret_cast<const char*>(&q.x) - p0, oy = reinterpret_cast<const char*>(&q.y) - p0, oz = reinterpret_cast<const char*>(&q.z) - p0, ow = reinterpret_cast<const char*>(&q.w) - p0;
	const ptrdiff_t S = sizeof(T);
#ifdef C16_EXPECT_WXYZ
	if (!(ow == 0 && ox == S && oy == 2 * S && oz == 3 * S)) FAIL("memory-order", "offsets w=%td x=%td y=%td z=%td, expected w,x,y,z", ow, ox, oy, oz);
	T mem[4] = {tw, tx, ty, tz};
#else
	if (!(ox == 0 && oy == S && oz == 2 * S && ow == 3 * S)) FAIL("memory-order", "offsets x=%td y=%td z=%td w=%td, expected x,y,z,w", ox, oy, oz, ow);
	T mem[4] = {tx, ty, tz, tw};
#endif
	for (int k = 0; k < 4; ++k) {
		if (reinterpret_cast<const char*>(&q[k]) - p0 != k * S) FAIL("component-address", "&q[%d] at byte %td", k, reinterpret_cast<const char*>(&q[k]) - p0);
		if (q[k] != mem[k]) FAIL("index-memory-order", "q[%d] is not the %d-th stored component", k, k);
	}
	const Qt& cq = q;
	if (reinterpret_cast<const char*>(glm::value_ptr(cq)) != p0 || reinterpret_cast<const char*>(glm::value_ptr(q)) != p0) FAIL("value_ptr", "value_ptr does not point at the first stored component");
	for (int k = 0; k < 4; ++k) if (glm::value_ptr(cq)[k] != mem[k]) FAIL("value_ptr", "value_ptr(q)[%d]", k);
	if (memcmp(&q, mem, sizeof mem) != 0) FAIL("byte-image", "object bytes differ from the raw array in memory order");
	auto mk = glm::make_quat(mem);  // raw array in memory order -> same quaternion
	if (mk.w != tw || mk.x != tx || mk.y != ty || mk.z != tz) FAIL("make_quat", "make_quat(value_ptr(q)) != q");
}

template <class T, glm::qualifier Q> static void reg_tq() {
	std::string tq = std::string(TN<T>::name()) + "," + qname(Q) + ">";
#define RV(L) insts().push_back({std::string("vec<" #L ",") + tq, &check_vec<L, T, Q>});
	RV(1) RV(2) RV(3) RV(4)
	if constexpr (!std::is_same<T, bool>::value) {
#define RM(C, R) insts().push_back({std::string("mat<" #C "," #R ",") + tq, &check_mat<C, R, T, Q>});
		RM(2, 2) RM(2, 3) RM(2, 4) RM(3, 2) RM(3, 3) RM(3, 4) RM(4, 2) RM(4, 3) RM(4, 4)
	}
	if constexpr (std::is_floating_point<T>::value) insts().push_back({std::string("qua<") + tq, &check_qua<T, Q>});
}
template <glm::qualifier Q> static void reg_q() {
	reg_tq<bool, Q>(); reg_tq<glm::int8, Q>(); reg_tq<glm::uint8, Q>(); reg_tq<glm::int16, Q>(); reg_tq<glm::uint16, Q>(); reg_tq<glm::int32, Q>(); reg_tq<glm::uint32, Q>();
	reg_tq<glm::int64, Q>(); reg_tq<glm::uint64, Q>(); reg_tq<float, Q>(); reg_tq<double, Q>();
}

// ---- named typedefs (glm/fwd.hpp, gtc/type_aligned.hpp): the name decides the type ---------------------------------------
struct TdRow { const char* name; const char* expected; bool same; size_t size, align, esize, ealign; };
#define TDROW(NAME, ...) {#NAME, #__VA_ARGS__, std::is_same<glm::NAME, __VA_ARGS__>::value, sizeof(glm::NAME), alignof(glm::NAME), sizeof(__VA_ARGS__), alignof(__VA_ARGS__)},
static const TdRow TD_ROWS[] = {
	TD_FWD(TDROW)
#if GLM_CONFIG_ALIGNED_GENTYPES == GLM_ENABLE
	TD_ALIGNED(TDROW)
#endif
};
static void prop_typedefs(pbt::Ctx& c) {
	const size_t N = sizeof(TD_ROWS) / sizeof(TD_ROWS[0]);
	const TdRow& r = TD_ROWS[c.draw(N)];
	c.logf("glm::%s", r.name);
	c.nontrivial();
	c.cls(strncmp(r.name, "aligned_", 8) == 0 ? "aligned_*" : strncmp(r.name, "packed_", 7) == 0 ? "packed_*" : "fwd.hpp");
	if (!r.same) c.failk(std::string("typedef/") + r.name + "/type", "glm::%s is not %s (sizeof %zu alignof %zu; the named type has sizeof %zu alignof %zu)", r.name, r.expected, r.size, r.align, r.esize, r.ealign);
}

// ---- what the configuration macros promise about the default types -----------------------------------------------------
static void prop_config(pbt::Ctx& c) {
	uint64_t k = c.draw(8);
	c.nontrivial();
	c.logf("configuration %s, default-type fact %d", C16_CFG, (int)k);
#define CFG_SAME(K, A, ...) if (k == K && !std::is_same<A, __VA_ARGS__>::value) c.failk(std::string("config/") + #A, "glm::" #A " is not " #__VA_ARGS__ " in configuration %s (sizeof %zu, alignof %zu)", C16_CFG, sizeof(A), alignof(A));
#ifdef C16_EXPECT_DEFAULT_ALIGNED
	// manual 2.10: GLM_FORCE_DEFAULT_ALIGNED_GENTYPES makes every default gentype aligned and padded
	CFG_SAME(0, glm::vec4, glm::vec<4, float, glm::aligned_highp>) CFG_SAME(1, glm::vec3, glm::vec<3, float, glm::aligned_highp>) CFG_SAME(2, glm::dvec2, glm::vec<2, double, glm::aligned_highp>)
	CFG_SAME(3, glm::ivec3, glm::vec<3, int, glm::aligned_highp>) CFG_SAME(4, glm::mat3, glm::mat<3, 3, float, glm::aligned_highp>) CFG_SAME(5, glm::mat4, glm::mat<4, 4, float, glm::aligned_highp>)
	CFG_SAME(6, glm::quat, glm::qua<float, glm::aligned_highp>) CFG_SAME(7, glm::uvec4, glm::vec<4, glm::uint, glm::aligned_highp>)
	if (k == 1 && (sizeof(glm::vec3) != 16 || alignof(glm::vec3) != 16)) c.failk("config/vec3/size", "sizeof(vec3)=%zu alignof=%zu, manual 2.10 says 16 / 16", sizeof(glm::vec3), alignof(glm::vec3));
	if (k == 4 && sizeof(glm::mat3) != 48) c.failk("config/mat3/size", "sizeof(mat3)=%zu, three padded columns are 48 bytes", sizeof(glm::mat3));
	struct MyStruct { glm::vec2 a; glm::vec3 b; glm::vec2 c; };  // manual 2.10 example: 48 bytes when aligned by default (32 packed)
	if (k == 0 && sizeof(MyStruct) != 48) c.failk("config/manual-2.10-MyStruct", "sizeof(MyStruct{vec2, vec3, vec2}) = %zu, manual 2.10 says 48", sizeof(MyStruct));
#else
	CFG_SAME(0, glm::vec4, glm::vec<4, float, glm::packed_highp>) CFG_SAME(1, glm::vec3, glm::vec<3, float, glm::packed_highp>) CFG_SAME(2, glm::dvec2, glm::vec<2, double, glm::packed_highp>)
	CFG_SAME(3, glm::ivec3, glm::vec<3, int, glm::packed_highp>) CFG_SAME(4, glm::mat3, glm::mat<3, 3, float, glm::packed_highp>) CFG_SAME(5, glm::mat4, glm::mat<4, 4, float, glm::packed_highp>)
	CFG_SAME(6, glm::quat, glm::qua<float, glm::packed_highp>) CFG_SAME(7, glm::uvec4, glm::vec<4, glm::uint, glm::packed_highp>)
	if (k == 1 && (sizeof(glm::vec3) != 12 || alignof(glm::vec3) != 4)) c.failk("config/vec3/size", "sizeof(vec3)=%zu alignof=%zu, packed is 12 / 4", sizeof(glm::vec3), alignof(glm::vec3));
#endif
#ifdef C16_EXPECT_ALIGNED
	if (GLM_CONFIG_ALIGNED_GENTYPES != GLM_ENABLE) c.failk("config/aligned-gentypes", "configuration %s was expected to provide aligned types", C16_CFG);
#endif
}

static void prop_layout(pbt::Ctx& c) {
	const size_t N = insts().size();
	uint64_t i = c.draw(N * 32);
	const Inst& in = insts()[i % N];
	in.run(c, in.name);
}

int main(int argc, char** argv) {
	reg_q<glm::packed_highp>(); reg_q<glm::packed_mediump>(); reg_q<glm::packed_lowp>();
#if GLM_CONFIG_ALIGNED_GENTYPES == GLM_ENABLE
	reg_q<glm::aligned_highp>(); reg_q<glm::aligned_mediump>(); reg_q<glm::aligned_lowp>();
#endif
	pbt::Target t; t.name = std::string("layout/") + C16_CFG; t.fn = prop_layout; t.domain = insts().size() * 32; t.quick_stride = 1; t.thorough_stride = 1;
	t.rule = "every vec<L,T,Q> / mat<C,R,T,Q> / qua<T,Q> instantiation of this configuration x 32 tag fillings; non-trivial = more than one component (order observable), distinct tags";
	pbt::targets().push_back(t);
	pbt::Target t2; t2.name = std::string("typedefs/") + C16_CFG; t2.fn = prop_typedefs; t2.domain = sizeof(TD_ROWS) / sizeof(TD_ROWS[0]); t2.quick_stride = 1; t2.thorough_stride = 1;
	t2.rule = "every named vec/mat/quat typedef of glm/fwd.hpp and (with aligned gentypes) glm/gtc/type_aligned.hpp present in the tree: the type it denotes is the one its name spells ([aligned_|packed_][precision_]<element><shape>), so a packed_* name is L contiguous T and an aligned_* name is padded; non-trivial = every row";
	pbt::targets().push_back(t2);
	pbt::Target t3; t3.name = std::string("config/") + C16_CFG; t3.fn = prop_config; t3.domain = 8; t3.quick_stride = 1; t3.thorough_stride = 1;
	t3.rule = "the default gentypes (vec4, vec3, dvec2, ivec3, mat3, mat4, quat, uvec4) are the packed types, or with GLM_FORCE_DEFAULT_ALIGNED_GENTYPES the aligned ones (manual 2.10 sizes, MyStruct example); non-trivial = every fact";
	pbt::targets().push_back(t3);
	return pbt::pbt_main(argc, argv, "C16");
}
