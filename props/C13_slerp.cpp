// C13 (part 1 of 2) — quaternion slerp (with and without extra spins), mix, lerp of glm/ext/quaternion_common.hpp and
// gtx shortMix / fastMix of glm/gtx/quaternion.hpp, float and double.
// Oracle: the great-arc model of engine/ref/refslerp.hpp in long double (no GLM code): the result g is decomposed into its
// coordinates (g.e1, g.e2) in the plane of the arc, its distance from that plane and its length; the property asks for
//   |g| = 1, g in span{x,y}, polar angle of g = a * theta (slerp: shorter arc to +-y; spin: a * (theta + k pi); mix: oriented),
//   slerp(x,y,0) = x and slerp(x,y,1) = +-y to a few ulps, never NaN/Inf for slerp, slerp(x,y,a) = +-slerp(y,x,1-a).
// Tolerance: forward-error bound of the interpolation formula (refslerp::arc_tol: coefficient scale, rounding of the sine arguments
// amplified by 1/sin(theta), conditioning of acos(dot) times the sensitivity of the result to the angle; x8 margin), plus the chord
// distance of the linear fallback where cos(theta) is within rounding of / above 1 - epsilon. A comparison is *decided*
// only when its bound is below CAP = 0.05 rad; above that only finiteness is required (counted), and the case is trivial.
// For k != 0 the formula bound is infinite around and below the fallback threshold; below it a gross check (result within 0.5 of
// +-the spun position when the axis is determined to < 0.1 rad) reports spins that are dropped altogether.
#include "fp.hpp"
#include "ref/refslerp.hpp"
#include <glm/glm.hpp>
#include <glm/ext/quaternion_common.hpp>
#include <glm/ext/quaternion_float.hpp>
#include <glm/ext/quaternion_double.hpp>
#include <glm/gtc/quaternion.hpp>
#include <glm/gtx/quaternion.hpp>

using namespace refslerp;

static const R CAP = 0.05L;       // bounds above this decide nothing
static const R NONTRIV = 1e-2L;   // DESIGN 5.2: cases whose bound exceeds 1e-2 are trivial

template <class T> static glm::qua<T> GQ(const T* v) { return glm::qua<T>::wxyz(v[0], v[1], v[2], v[3]); }
template <class T> static void XQ(const glm::qua<T>& q, T* v) { v[0] = q.w; v[1] = q.x; v[2] = q.y; v[3] = q.z; }
template <class T> static const char* tname() { return sizeof(T) == 4 ? "float" : "double"; }
static inline bool within(pbt::Ctx& c, const char* metric, R err, R tol) { R r = err == 0 ? 0 : err / tol; c.metric(metric, (r == r && r < 1e30L) ? (double)r : 1e30); return err <= tol; }
template <class T> static R tiny() { return 8 * (R)std::numeric_limits<T>::denorm_min(); }

#define REG2(fn, name, q, t, rule) \
	static void fn##_f(pbt::Ctx& c) { fn<float>(c); } PBT_RANDOM(name "/float", fn##_f, q, t, rule); \
	static void fn##_d(pbt::Ctx& c) { fn<double>(c); } PBT_RANDOM(name "/double", fn##_d, q, t, rule)

enum Mode { M_SLERP, M_SPIN, M_MIX };
static const char* const MODE_FN[] = {"slerp", "slerp-spin", "mix"};
enum Zone { Z_EQUAL, Z_BELOW, Z_NEAR, Z_GENERIC };
static const char* const ZONE_KEY[] = {"equal-inputs", "below-linear-threshold", "near-linear-threshold", "generic"};
static const char* const ZONE_CLS[] = {"zone: theta = 0 exactly", "zone: below the linear-fallback threshold (theta^2 < eps/4)", "zone: around the threshold (eps/4 <= theta^2 <= 16 eps, either branch)", "zone: above the threshold"};
static const char* const SPIN_CLS[] = {"k=-3", "k=-2", "k=-1", "k=0", "k=+1", "k=+2", "k=+3"};

static std::string key(const char* fn, const char* ty, const char* what, const char* zone, const char* tr = nullptr) {
	std::string s = std::string(fn) + "/" + ty + "/" + what + "/" + zone;
	if (tr) { s += "/"; s += tr; }
	return s;
}
template <class T> static const char* trange(T a) { return a == 0 ? "t=0" : a == 1 ? "t=1" : (a > 0 && a < 1) ? "t-in-(0,1)" : "t-outside-[0,1]"; }

struct Setup {
	R rx[4], ry[4], rz[4];
	R sgn;            // reference sign of the end point: z = sgn * y
	bool ambiguous;   // |dot| within the rounding of a T dot product: either sign is the shorter arc
	Arc A;
	int zone;
};
template <class T> static void setup_arc(Setup& S, const T* x, const T* y, bool shortest, R sgn_override = 0) {
	lift(x, S.rx); lift(y, S.ry);
	R d = dot4(S.rx, S.ry);
	S.ambiguous = shortest && rabs(d) <= 4 * U<T>() * adot4(S.rx, S.ry);
	S.sgn = (shortest && d < 0) ? -1 : 1;
	if (sgn_override != 0) S.sgn = sgn_override;
	for (int i = 0; i < 4; ++i) S.rz[i] = S.sgn * S.ry[i];
	S.A = make_arc(S.rx, S.rz);
	R r = S.A.theta * S.A.theta / (2 * EPS<T>());
	S.zone = S.A.degenerate ? (S.A.theta == 0 ? Z_EQUAL : Z_GENERIC) : r < 0.125L ? Z_BELOW : r <= 8 ? Z_NEAR : Z_GENERIC;
}

// plane / length / angle of g against the arc point at psi; returns the largest err/tol (for choosing between two admissible signs)
struct ArcErr { R unit, plane, angle; };
static ArcErr arc_err(const Arc& A, const R* g, R psi) {
	Decomp D = decompose(A, g);
	ArcErr e; e.unit = rabs(D.len - 1); e.plane = D.perp; e.angle = rabs(wrap_pi(D.ang - psi)) * rmin(D.len, 1);
	return e;
}

// =============================================================================================
// slerp, slerp with spins, mix
template <class T, int MODE> static void arc_prop(pbt::Ctx& c) {
	T x[4], y[4];
	int xc, tc;
	int sc = gen_pair<T>(c, x, y, &xc);
	T a = gen_factor<T>(c, &tc);
	int k = 0;
	if (MODE == M_SPIN) { static const int KS[] = {1, -1, 2, -2, 3, -3, 0}; k = KS[c.draw(7)]; }
	bool kshort = MODE == M_SPIN && c.coin();  // the spin count is a template parameter S: exercise two integer types
	const char* fn = MODE_FN[MODE];
	const char* ty = tname<T>();
	c.cls(SP_NAME[sc]); c.cls(UQ_NAME[xc]); c.cls(TF_NAME[tc]);
	if (MODE == M_SPIN) c.cls(SPIN_CLS[k + 3]);

	Setup S; setup_arc<T>(S, x, y, MODE != M_MIX);
	const Arc& A = S.A;
	c.cls(ZONE_CLS[S.zone]);
	if (MODE != M_MIX) c.cls(S.ambiguous ? "sign: dot within rounding of 0 (either end point accepted)" : S.sgn < 0 ? "sign: dot<0 (y negated)" : "sign: dot>=0");
	if (MODE == M_MIX && A.theta > PI_L / 2) c.cls("mix: theta > pi/2 (long way round is the documented oriented arc)");
	const R ra = (R)a;
	Tol tol = arc_tol<T>(A, ra, k);
	const R phi = A.theta + k * PI_L, psi = ra * phi;
	if (c.verbose) c.logf("%s<%s> x=%s y=%s a=%.17g k=%d | theta=%.6Lg (%s), %s, bound %.3Lg", fn, ty, qstr(x).c_str(), qstr(y).c_str(), (double)a, k, A.theta, ZONE_KEY[S.zone], SP_NAME[sc], tol.total);

	glm::qua<T> X = GQ(x), Y = GQ(y);
	T g[4];
	if (MODE == M_SLERP) XQ(glm::slerp(X, Y, a), g);
	else if (MODE == M_MIX) XQ(glm::mix(X, Y, a), g);
	else if (kshort) XQ(glm::slerp(X, Y, a, (short)k), g);
	else XQ(glm::slerp(X, Y, a, k), g);
	R rg[4]; lift(g, rg);
	const char* zk = ZONE_KEY[S.zone];
	const char* tr = trange(a);

	const bool decided = tol.total < CAP && !(A.degenerate && A.theta != 0);
	// 1. finiteness: slerp must never produce NaN/Inf, whatever the pair; mix only where its bound means something
	if (MODE != M_MIX || decided) {
		if (!finite4(g)) { c.failk(key(fn, ty, "non-finite", zk), "%s(x=%s, y=%s, a=%.17g%s)=%s is not finite (theta=%.6Lg)", fn, qstr(x).c_str(), qstr(y).c_str(), (double)a, MODE == M_SPIN ? (", k=" + std::to_string(k)).c_str() : "", qstr(g).c_str(), A.theta); return; }
	} else if (!finite4(g)) { c.cls("mix: non-finite result next to antipodal inputs (outside the decided range, counted)"); return; }

	if (A.degenerate) {
		if (A.theta == 0 && k == 0) {  // y = +-x exactly: the arc is the single point x for every a
			R want[4]; for (int i = 0; i < 4; ++i) want[i] = S.rx[i];
			if (!within(c, "equal inputs err/tol", dist4(rg, want), tol.total))
				c.failk(key(fn, ty, "value", zk, tr), "%s(x=%s, y=%s, a=%.17g)=%s, expected x (distance %.3Lg, bound %.3Lg)", fn, qstr(x).c_str(), qstr(y).c_str(), (double)a, qstr(g).c_str(), dist4(rg, want), tol.total);
		} else c.cls(A.theta == 0 ? "equal inputs with k != 0 (axis undefined, finiteness only)" : "exactly antipodal inputs for mix (arc undefined, not checked)");
		return;
	}

	if (!decided) c.cls("bound above cap: ill-conditioned, finiteness only");
	if (decided) {
		// the admissible reference arcs: one, or both end-point signs when dot is within rounding of 0
		ArcErr e = arc_err(A, rg, psi);
		Tol tl = tol;
		if (S.ambiguous) {
			Setup S2; setup_arc<T>(S2, x, y, true, -S.sgn);
			Tol t2 = arc_tol<T>(S2.A, ra, k);
			ArcErr e2 = arc_err(S2.A, rg, ra * (S2.A.theta + k * PI_L));
			if (rmax(e2.angle, rmax(e2.plane, e2.unit)) / t2.total < rmax(e.angle, rmax(e.plane, e.unit)) / tl.total) { e = e2; tl = t2; }
		}
		if (tl.total < NONTRIV && A.theta > 1e-6L && A.theta < PI_L - 1e-6L && a != 0 && a != 1 && (MODE != M_SPIN || k != 0)) c.nontrivial();
		char what[200];
		snprintf(what, sizeof what, "%s(x=%s, y=%s, a=%.17g, k=%d)", fn, qstr(x).c_str(), qstr(y).c_str(), (double)a, k);
		// the length of the sine-formula result hardly depends on the computed angle (both coefficients use the same theta_c): its own bound
		// replaces the conditioning term sens * dtheta of the arc position by |d|r|/dtheta_c| * dtheta. Only in the generic zone (the linear
		// fallback is not admissible there) and without spins.
		R tol_unit = tl.total;
		if (S.zone == Z_GENERIC && k == 0 && !S.ambiguous && A.sn * A.sn > 16 * EPS<T>()) {
			const R th = A.theta, u = U<T>();
			const R s1 = sinl((1 - ra) * th), s2 = sinl(ra * th), c1 = cosl((1 - ra) * th), c2 = cosl(ra * th), sn = A.sn, cs = A.cs;
			const R dN = 2 * s1 * c1 * (1 - ra) + 2 * s2 * c2 * ra + 2 * cs * ((1 - ra) * c1 * s2 + ra * c2 * s1);
			const R sens_len = rabs(dN / (2 * sn * sn) - cs / sn);
			const R Aterm = 2 * (rabs(tl.k0) + rabs(tl.k1)) + 1, Bterm = 1.5L * (rabs(psi) + rabs(th - psi)) / sn, dth = 1.5L * 4 * u / sn + 2 * u * th;
			const R tu = 4 * (u * (Aterm + Bterm) + sens_len * dth);  // x4 margin: the observed maximum on the pinned tree is 0.22 of this bound (quick and thorough tiers)
			if (tu < tol_unit) tol_unit = tu;
			c.metric(MODE == M_SLERP ? "slerp |len-1| err/unit-bound" : "mix |len-1| err/unit-bound", (double)(e.unit / tol_unit));
		}
		if (!within(c, MODE == M_SLERP ? "slerp |len-1| err/tol" : MODE == M_SPIN ? "slerp-spin |len-1| err/tol" : "mix |len-1| err/tol", e.unit, tol_unit))
			c.failk(key(fn, ty, "unit-length", zk, tr), "%s=%s has length 1%+.3Lg (bound %.3Lg, theta=%.9Lg)", what, qstr(g).c_str(), norm4(rg) - 1, tol_unit, A.theta);
		if (!within(c, MODE == M_SLERP ? "slerp off-plane err/tol" : MODE == M_SPIN ? "slerp-spin off-plane err/tol" : "mix off-plane err/tol", e.plane, tl.total))
			c.failk(key(fn, ty, "leaves-plane", zk, tr), "%s=%s is %.3Lg away from span{x,y} (bound %.3Lg, theta=%.9Lg)", what, qstr(g).c_str(), e.plane, tl.total, A.theta);
		if (!within(c, MODE == M_SLERP ? "slerp angle err/tol" : MODE == M_SPIN ? "slerp-spin angle err/tol" : "mix angle err/tol", e.angle, tl.total)) {
			Decomp D = decompose(A, rg);
			c.failk(key(fn, ty, "angle", zk, tr), "%s=%s sits at angle %.9Lg from x along the arc, a*(theta%+d*pi) = %.9Lg with theta=%.9Lg (error %.3Lg, bound %.3Lg)", what, qstr(g).c_str(), D.ang, k, psi, A.theta, e.angle, tl.total);
		}
	}

	// 2. spins must not be lost. Below the linear-fallback threshold the formula bound decides nothing for k != 0 (1/sin^2 theta), but the
	//    *problem* is well conditioned there in double (the axis is known to ~8u/sin(theta)): when that is below 0.1 and the un-spun chord
	//    point is more than 1 away from the spun position and from its negative (a different rotation, not only a different quaternion sign), the result
	//    must at least be within 0.5 of +-the spun position.
	if (MODE == M_SPIN && k != 0 && S.zone == Z_NEAR) c.cls("spin around the threshold: either branch, formula bound infinite (finiteness only)");
	if (MODE == M_SPIN && k != 0 && S.zone == Z_BELOW) {
		R pc = 8 * U<T>() * (2 * rabs(psi) + 2 + 8 / A.sn);
		R P[4], L[4]; arc_point(A, psi, P);
		for (int i = 0; i < 4; ++i) L[i] = (1 - ra) * S.rx[i] + ra * S.rz[i];
		if (pc < 0.1L && rmin(dist4(P, L), dist4s(P, L, -1)) > 1) {   // up to the quaternion sign: the *rotation* must differ
			c.cls("spin below threshold: axis well determined and spun position > 1 away from +-chord point (gross check applied)");
			c.nontrivial();
			if (rmin(dist4(rg, P), dist4s(rg, P, -1)) > 0.5L)
				c.failk(key(fn, ty, "spins-lost", zk), "slerp(x=%s, y=%s, a=%.17g, k=%d)=%s: theta=%.6Lg, the point at a*(theta%+d*pi)=%.6Lg rad from x is documented (axis determined to %.2Lg rad), result is %.3Lg away from it and %.3Lg from the un-spun chord point", qstr(x).c_str(), qstr(y).c_str(), (double)a, k, qstr(g).c_str(), A.theta, k, psi, pc, dist4(rg, P), dist4(rg, L));
		} else c.cls("spin below threshold: axis ill-determined or spun position near the chord point (finiteness only)");
	}

	// 3. end points to a few ulps per component (k = 0): slerp(x,y,0) = x, slerp(x,y,1) = +-y
	if (k == 0 && MODE != M_SPIN && (a == 0 || a == 1)) {
		R worst = 0; int wi = 0; R bestsg = S.sgn;
		for (int pass = 0; pass < (S.ambiguous && a == 1 ? 2 : 1); ++pass) {
			R sg = pass ? -S.sgn : S.sgn, w = 0; int wj = 0;
			for (int i = 0; i < 4; ++i) {
				R want = a == 0 ? S.rx[i] : sg * S.ry[i];
				R r = rabs(rg[i] - want) / (12 * U<T>() * rabs(want) + tiny<T>());
				if (r > w) { w = r; wj = i; }
			}
			if (pass == 0 || w < worst) { worst = w; wi = wj; bestsg = sg; }
		}
		c.metric(MODE == M_SLERP ? "slerp end point err/tol" : "mix end point err/tol", (double)worst);
		if (worst > 1)
			c.failk(key(fn, ty, a == 0 ? "end-point-0" : "end-point-1", zk), "%s(x=%s, y=%s, a=%g)=%s, component %d differs from %s by more than 12 u relative", fn, qstr(x).c_str(), qstr(y).c_str(), (double)a, qstr(g).c_str(), wi, a == 0 ? "x" : (bestsg < 0 ? "-y" : "y"));
	}

	// 4. slerp(x,y,a) = +- slerp(y,x,1-a)
	if (MODE != M_MIX && decided) {
		T b = T(1) - a;
		T h[4];
		if (MODE == M_SLERP) XQ(glm::slerp(Y, X, b), h);
		else if (kshort) XQ(glm::slerp(Y, X, b, (short)k), h);
		else XQ(glm::slerp(Y, X, b, k), h);
		if (!finite4(h)) { c.failk(key(fn, ty, "non-finite", zk), "%s(y, x, 1-a) with x=%s y=%s a=%.17g k=%d is %s", fn, qstr(x).c_str(), qstr(y).c_str(), (double)a, k, qstr(h).c_str()); return; }
		R rh[4]; lift(h, rh);
		R sx[4]; for (int i = 0; i < 4; ++i) sx[i] = S.sgn * S.rx[i];
		Arc A2 = make_arc(S.ry, sx);
		Tol t2 = arc_tol<T>(A2, (R)b, k);
		if (t2.total < CAP) {
			R tsym = tol.total + t2.total + rabs((R)b - (1 - ra)) * rabs(phi) + 4 * U<T>();
			R sg = dist4s(rg, rh, 1) <= dist4s(rg, rh, -1) ? 1 : -1;   // "up to sign": either sign is accepted (counted)
			R d = dist4s(rg, rh, sg);
			if (sg != S.sgn * ((k & 1) ? -1 : 1) && !S.ambiguous) c.cls("symmetry holds with the sign opposite to the arc model's (counted)");
			if (!within(c, MODE == M_SLERP ? "slerp symmetry err/tol" : "slerp-spin symmetry err/tol", d, tsym))
				c.failk(key(fn, ty, "symmetry", zk, tr), "%s(x,y,a)=%s but %s(y,x,1-a)=%s for x=%s y=%s a=%.17g k=%d: not equal up to sign (nearest sign %+.0Lf, distance %.3Lg, bound %.3Lg)", fn, qstr(g).c_str(), fn, qstr(h).c_str(), qstr(x).c_str(), qstr(y).c_str(), (double)a, k, sg, d, tsym);
		}
	}
}
template <class T> static void slerp_p(pbt::Ctx& c) { arc_prop<T, M_SLERP>(c); }
template <class T> static void spin_p(pbt::Ctx& c) { arc_prop<T, M_SPIN>(c); }
template <class T> static void mix_p(pbt::Ctx& c) { arc_prop<T, M_MIX>(c); }
#define PAIR_RULE "pairs of unit quaternions rounded to T (identity / axis / coordinate rotations / rational / random / mixed-magnitude x; y = cos(theta) x + sin(theta) d with d orthogonal to x) at separations theta log-uniform " \
	"1e-9..pi/2 from parallel and from antipodal, around the linear-fallback threshold sqrt(2 eps) on both sides (factor 0.01..100, +-2^-30), around pi/2 (sign flip), uniform, independent pairs, exactly equal / antipodal / orthogonal; " \
	"a in {0, 1, 1/2, neighbours within 4 ulps, k/8, uniform [0,1], uniform [-2,3]}; "
REG2(slerp_p, "slerp", 2500000, 100000000,
     PAIR_RULE "result against the long-double arc point: unit length, in span{x,y}, angle a*theta on the shorter arc to +-y, end points to 12 u per component, finite for every pair, slerp(x,y,a) = +-slerp(y,x,1-a); "
     "non-trivial = theta in (1e-6, pi-1e-6), a not in {0,1}, bound < 1e-2");
REG2(spin_p, "slerp-spin", 2500000, 100000000,
     PAIR_RULE "spin count k in -3..3 (as int and as short); angle a*(theta + k pi) from x on the great circle through x and +-y (shorter arc end point), unit length, in-plane, finite, symmetry up to sign; "
     "below the linear-fallback threshold the formula bound (1/sin^2 theta) decides nothing, there a gross check asks that the spins are not lost when the axis is well determined; "
     "non-trivial = k != 0, theta in (1e-6, pi-1e-6), a not in {0,1}, bound < 1e-2 (or the gross check applied)");
REG2(mix_p, "mix", 2500000, 100000000,
     PAIR_RULE "oriented arc from x to y (no sign flip, theta up to pi): unit length, in-plane, angle a*theta, end points to 12 u per component; decided only where the bound (which grows like 1/sin^2 theta next to antipodal inputs) is below 0.05; "
     "non-trivial = theta in (1e-6, pi-1e-6), a not in {0,1}, bound < 1e-2");

// =============================================================================================
// lerp: "Linear interpolation of two quaternions ... defined in the range [0, 1]" = x*(1-a) + y*a per component, evaluated in T
template <class T> static void lerp_p(pbt::Ctx& c) {
	T x[4], y[4];
	int xc, tc;
	int sc = gen_pair<T>(c, x, y, &xc);
	if (c.draw(3) == 0) { T sx = (T)c.loguniform(0.25, 4.0), sy = (T)c.loguniform(0.25, 4.0); for (int i = 0; i < 4; ++i) { x[i] *= sx; y[i] *= sy; } c.cls("non-unit operands"); }
	T a = gen_factor<T>(c, &tc, true);
	c.cls(SP_NAME[sc]); c.cls(TF_NAME[tc]);
	if (c.verbose) c.logf("lerp<%s> x=%s y=%s a=%.17g", tname<T>(), qstr(x).c_str(), qstr(y).c_str(), (double)a);
	T g[4]; XQ(glm::lerp(GQ(x), GQ(y), a), g);
	bool differ = false;
	for (int i = 0; i < 4; ++i) differ = differ || (x[i] != y[i]);
	if (differ && a != 0 && a != 1) c.nontrivial();
	for (int i = 0; i < 4; ++i) {
		T want = x[i] * (T(1) - a) + y[i] * a;
		if (!fp::same_value(g[i], want))
			c.failk(key("lerp", tname<T>(), "affine-blend", a == 0 ? "t=0" : a == 1 ? "t=1" : "t-in-(0,1)"), "lerp(x=%s, y=%s, a=%.17g) component %d = %.17g, x*(1-a)+y*a = %.17g", qstr(x).c_str(), qstr(y).c_str(), (double)a, i, (double)g[i], (double)want);
		else if (!fp::same_bits(g[i], want)) c.cls("zero-sign-differs(counted)");
	}
	if (a == 0 || a == 1) for (int i = 0; i < 4; ++i) if (!(g[i] == (a == 0 ? x[i] : y[i])))
		c.failk(key("lerp", tname<T>(), "end-point", a == 0 ? "t=0" : "t=1"), "lerp(x=%s, y=%s, a=%g) component %d = %.17g", qstr(x).c_str(), qstr(y).c_str(), (double)a, i, (double)g[i]);
}
REG2(lerp_p, "lerp", 1000000, 60000000,
     "quaternion pairs as for slerp (one third scaled to non-unit length), a in [0,1] only (asserted precondition): 0, 1, 1/2, neighbours, k/8, uniform; every component equals x*(1-a)+y*a evaluated in T (VALUE), "
     "end points exact; non-trivial = x != y and a not in {0,1}");

// =============================================================================================
// shortMix: "Quaternion interpolation using the rotation short path": end points (a = 0: x, a = 1: +-y), unit length, in the plane of
// x and y, on the shorter arc between x and +-y (polar angle within [0, theta]). Constant speed is not documented for it and not asked.
template <class T> static void shortmix_p(pbt::Ctx& c) {
	T x[4], y[4];
	int xc, tc;
	int sc = gen_pair<T>(c, x, y, &xc);
	T a = gen_factor<T>(c, &tc, true);
	c.cls(SP_NAME[sc]); c.cls(TF_NAME[tc]);
	Setup S; setup_arc<T>(S, x, y, true);
	const Arc& A = S.A;
	c.cls(ZONE_CLS[S.zone]);
	c.cls(S.ambiguous ? "sign: dot within rounding of 0 (either end point accepted)" : S.sgn < 0 ? "sign: dot<0 (y negated)" : "sign: dot>=0");
	const char* ty = tname<T>();
	const char* zk = ZONE_KEY[S.zone];
	Tol tol = arc_tol<T>(A, (R)a, 0);
	if (c.verbose) c.logf("shortMix<%s> x=%s y=%s a=%.17g | theta=%.6Lg (%s), bound %.3Lg", ty, qstr(x).c_str(), qstr(y).c_str(), (double)a, A.theta, zk, tol.total);
	T g[4]; XQ(glm::shortMix(GQ(x), GQ(y), a), g);
	if (!finite4(g)) { c.failk(key("shortMix", ty, "non-finite", zk), "shortMix(x=%s, y=%s, a=%.17g)=%s", qstr(x).c_str(), qstr(y).c_str(), (double)a, qstr(g).c_str()); return; }
	R rg[4]; lift(g, rg);
	if (a == 0 || a == 1) {
		R worst = 1e30L;
		for (int pass = 0; pass < (a == 1 ? 2 : 1); ++pass) {
			R w = 0;
			for (int i = 0; i < 4; ++i) { R want = a == 0 ? S.rx[i] : (pass ? -S.ry[i] : S.ry[i]); w = rmax(w, rabs(rg[i] - want) / (12 * U<T>() * rabs(want) + tiny<T>())); }
			worst = rmin(worst, w);
		}
		c.metric("shortMix end point err/tol", (double)worst);
		if (worst > 1) c.failk(key("shortMix", ty, a == 0 ? "end-point-0" : "end-point-1", zk), "shortMix(x=%s, y=%s, a=%g)=%s is not %s to 12 u per component", qstr(x).c_str(), qstr(y).c_str(), (double)a, qstr(g).c_str(), a == 0 ? "x" : "+-y");
		return;
	}
	if (A.degenerate) {  // y = +-x: the single point x
		if (!within(c, "shortMix equal inputs err/tol", dist4(rg, S.rx), tol.total)) c.failk(key("shortMix", ty, "value", zk), "shortMix(x=%s, y=%s, a=%.17g)=%s, expected x", qstr(x).c_str(), qstr(y).c_str(), (double)a, qstr(g).c_str());
		return;
	}
	if (!(tol.total < CAP)) { c.cls("bound above cap: ill-conditioned, finiteness only"); return; }
	R best = 1e30L; ArcErr be = {0, 0, 0}; R bover = 0; Tol bt = tol; R bth = A.theta;
	for (int pass = 0; pass < (S.ambiguous ? 2 : 1); ++pass) {
		Setup S2; const Arc* B = &A; Tol t2 = tol;
		if (pass) { setup_arc<T>(S2, x, y, true, -S.sgn); B = &S2.A; t2 = arc_tol<T>(S2.A, (R)a, 0); }
		Decomp D = decompose(*B, rg);
		ArcErr e; e.unit = rabs(D.len - 1); e.plane = D.perp; e.angle = 0;
		R over = D.ang < 0 ? -D.ang : (D.ang > B->theta ? D.ang - B->theta : 0);   // distance of the polar angle from [0, theta]
		R m = rmax(rmax(e.unit, e.plane), over) / t2.total;
		if (m < best) { best = m; be = e; bover = over; bt = t2; bth = B->theta; }
	}
	if (bt.total < NONTRIV && A.theta > 1e-6L) c.nontrivial();
	if (!within(c, "shortMix |len-1| err/tol", be.unit, bt.total)) c.failk(key("shortMix", ty, "unit-length", zk), "shortMix(x=%s, y=%s, a=%.17g)=%s has length 1%+.3Lg (bound %.3Lg, theta=%.9Lg)", qstr(x).c_str(), qstr(y).c_str(), (double)a, qstr(g).c_str(), norm4(rg) - 1, bt.total, bth);
	if (!within(c, "shortMix off-plane err/tol", be.plane, bt.total)) c.failk(key("shortMix", ty, "leaves-plane", zk), "shortMix(x=%s, y=%s, a=%.17g)=%s is %.3Lg away from span{x,y} (bound %.3Lg)", qstr(x).c_str(), qstr(y).c_str(), (double)a, qstr(g).c_str(), be.plane, bt.total);
	if (!within(c, "shortMix outside-arc err/tol", bover, bt.total)) c.failk(key("shortMix", ty, "off-short-arc", zk), "shortMix(x=%s, y=%s, a=%.17g)=%s lies %.3Lg rad outside the shorter arc [0, theta=%.9Lg] between x and +-y (bound %.3Lg)", qstr(x).c_str(), qstr(y).c_str(), (double)a, qstr(g).c_str(), bover, bth, bt.total);
}
REG2(shortmix_p, "shortMix", 1000000, 60000000,
     "pairs as for slerp, a in [0,1]: a = 0 gives x and a = 1 gives +-y to 12 u per component, otherwise finite, unit length, in span{x,y} and with polar angle inside [0, theta] of the shorter arc (bound of the slerp formula); "
     "non-trivial = a not in {0,1}, theta > 1e-6, bound < 1e-2");

// =============================================================================================
// fastMix: "Quaternion normalized linear interpolation" = normalize(x*(1-a) + y*a). The blend b has |error| <= 2u(|1-a| + |a|) per
// component, normalisation is relative (4/2 + 3) u: distance from the reference <= 8 (2u(|1-a|+|a|)/|b| + 5u); length 1 +- 8*5u always.
template <class T> static void fastmix_p(pbt::Ctx& c) {
	T x[4], y[4];
	int xc, tc;
	int sc = gen_pair<T>(c, x, y, &xc);
	T a = gen_factor<T>(c, &tc);
	c.cls(SP_NAME[sc]); c.cls(TF_NAME[tc]);
	const char* ty = tname<T>();
	R rx[4], ry[4], b[4]; lift(x, rx); lift(y, ry);
	const R ra = (R)a, u = U<T>();
	for (int i = 0; i < 4; ++i) b[i] = rx[i] * (1 - ra) + ry[i] * ra;
	R nb = norm4(b);
	if (c.verbose) c.logf("fastMix<%s> x=%s y=%s a=%.17g | |blend|=%.6Lg", ty, qstr(x).c_str(), qstr(y).c_str(), (double)a, nb);
	R tol = 8 * (2 * u * (rabs(1 - ra) + rabs(ra)) / nb + 5 * u);
	if (!(nb > 1e-3L) || !(tol < CAP)) { c.cls("blend nearly zero (antipodal inputs around a = 1/2): direction undefined, not checked"); return; }
	const char* tr = trange(a);
	T g[4]; XQ(glm::fastMix(GQ(x), GQ(y), a), g);
	if (!finite4(g)) { c.failk(key("fastMix", ty, "non-finite", tr), "fastMix(x=%s, y=%s, a=%.17g)=%s", qstr(x).c_str(), qstr(y).c_str(), (double)a, qstr(g).c_str()); return; }
	R rg[4], want[4]; lift(g, rg);
	for (int i = 0; i < 4; ++i) want[i] = b[i] / nb;
	bool differ = false; for (int i = 0; i < 4; ++i) differ = differ || (x[i] != y[i]);
	if (differ && a != 0 && a != 1) c.nontrivial();
	if (!within(c, "fastMix |len-1| err/tol", rabs(norm4(rg) - 1), 8 * 5 * u))
		c.failk(key("fastMix", ty, "unit-length", tr), "fastMix(x=%s, y=%s, a=%.17g)=%s has length 1%+.3Lg", qstr(x).c_str(), qstr(y).c_str(), (double)a, qstr(g).c_str(), norm4(rg) - 1);
	if (!within(c, "fastMix value err/tol", dist4(rg, want), tol))
		c.failk(key("fastMix", ty, "normalized-blend", tr), "fastMix(x=%s, y=%s, a=%.17g)=%s, normalize(x*(1-a)+y*a)=(w=%.17Lg,x=%.17Lg,y=%.17Lg,z=%.17Lg) (distance %.3Lg, bound %.3Lg)", qstr(x).c_str(), qstr(y).c_str(), (double)a, qstr(g).c_str(), want[0], want[1], want[2], want[3], dist4(rg, want), tol);
}
REG2(fastmix_p, "fastMix", 1000000, 60000000,
     "pairs as for slerp, a as for slerp ([-2,3] incl. 0, 1, 1/2): result against normalize(x*(1-a)+y*a) in long double with the conditioning 1/|blend| (skipped when |blend| < 1e-3), unit length to 40 u; "
     "non-trivial = x != y and a not in {0,1}");

int main(int argc, char** argv) { return pbt::pbt_main(argc, argv, "C13"); }
