// C14 (part 2) — comparisons in ULPs and with an epsilon: equal / notEqual (ext scalar, vec1-4, the 9 matrix shapes,
// quaternion) and epsilonEqual / epsilonNotEqual (gtc scalar, vec1-4, quaternion), plus the exact matrix / quaternion
// equal / notEqual of the same anchor files.
//
// ULP forms — oracle: |order(x) - order(y)| <= maxULPs on the integer image of the IEEE order (+0 and -0 coincide),
// per component; a matrix column is the conjunction of its components; notEqual is the negation.
// Failure keys carry the sign class of the pair (same sign bit / +0,-0 / straddling zero within the budget /
// opposite sign same magnitude / opposite sign beyond the budget) because GLM treats pairs of different sign bits
// separately; a matrix column is keyed by "has a pair with different sign bits" or not, and is also compared with GLM's
// own vector overload on the same column ("identically for the scalar, vector and matrix overloads").
//
// Epsilon forms — oracle: position of the exact |x - y| relative to epsilon (engine/ref/refulp.hpp: the rounded
// difference decides unless it equals epsilon; then TwoSum gives the exact side). Away from epsilon every reading
// ("<" of the GLM doc comments, "<=" of the property statement and of the ext code) gives the same answer and the
// result is judged. AT epsilon the doc comment and the statement disagree, so the absolute value is NOT judged there;
// what is judged at the boundary is: notEqual == !equal, vector lanes and matrix columns agree with the scalar overload
// of the same family, epsilonNotEqual == !epsilonEqual, gtc vector lanes agree with the gtc scalar overload. The
// observed boundary behaviour of each family is recorded in class counters. Cases where only the rounded difference
// equals epsilon are counted as rounding-ambiguous.
#include "fp.hpp"
#include "ref/refulp.hpp"
#include <glm/glm.hpp>
#include <glm/ext/scalar_relational.hpp>
#include <glm/ext/vector_relational.hpp>
#include <glm/ext/matrix_relational.hpp>
#include <glm/ext/quaternion_float.hpp>
#include <glm/ext/quaternion_double.hpp>
#include <glm/ext/quaternion_relational.hpp>
#include <glm/gtc/epsilon.hpp>
#include <string>

using namespace fp;
using refulp::tname;

template <class T> static unsigned long long ubits(T x) { return (unsigned long long)tobits<T>(x); }
template <class T> struct Elem { T x, y; };
template <class T> static T flip_sign(T x) { return frombits<T>(tobits<T>(x) ^ (typename bits_of<T>::U(1) << (sizeof(T) * 8 - 1))); }

// =================================================================================================================
// ULP comparisons
// =================================================================================================================
static int gen_maxulps(pbt::Ctx& c) {
	static const int S[5] = {0, 1, 2, 4, 64};
	return c.draw(4) ? S[c.draw(5)] : (int)c.draw(67);
}
// element pair relative to a budget M: `hi` raises the share of pairs inside the budget (matrix columns are conjunctions)
template <class T> static Elem<T> gen_ulp_elem(pbt::Ctx& c, int M, bool hi) {
	Elem<T> e;
	auto at = [&](T x, bool within) {
		long long d = within ? (long long)M - (long long)c.draw((uint64_t)(M < 3 ? M : 3) + 1) : (long long)M + 1 + (long long)c.draw(3);
		if (c.coin()) d = -d;
		T y = x;
		if (!refulp::step<T>(x, d, &y)) refulp::step<T>(x, -d, &y);
		return y;
	};
	uint64_t r = c.draw(32);
	const uint64_t cut = hi ? 24 : 13;
	if (r < cut) { e.x = refulp::gen_base<T>(c); e.y = at(e.x, true); }
	else if (r < 27) { e.x = refulp::gen_base<T>(c); e.y = at(e.x, false); }
	else if (r == 27) {  // mirrored value, half of the time with one exponent/mantissa bit flipped (opposite sign, nearly the same pattern)
		e.x = refulp::gen_base<T>(c); e.y = flip_sign(e.x);
		if (c.coin()) { T t = frombits<T>(tobits<T>(e.y) ^ (typename bits_of<T>::U(1) << c.draw(sizeof(T) * 8 - 1))); if (is_finite(t)) e.y = t; }
	}
	else if (r == 28) { e.x = refulp::gen_base<T>(c); e.y = refulp::gen_base<T>(c); }
	else if (r < 31) { e.x = from_ordered<T>((typename bits_of<T>::S)c.range(-70, 70)); e.y = at(e.x, c.coin()); }
	else { e.x = c.coin() ? flip_sign(T(0)) : T(0); e.y = c.coin() ? flip_sign(T(0)) : T(0); }
	return e;
}
template <class T> static const char* ulp_pair_class(T x, T y, int M) {
	if (sign_bit(x) == sign_bit(y)) return "same-signbit";
	if (refulp::ord<T>(x) == 0 && refulp::ord<T>(y) == 0) return "signed-zeros";
	if (refulp::dist<T>(x, y) <= (typename refulp::wide<T>::type)M) return "straddles-zero-within-maxULPs";
	if (refulp::ord<T>(x) == -refulp::ord<T>(y)) return "opposite-sign-same-magnitude";
	return "opposite-sign-beyond-maxULPs";
}
template <class T> static bool ulp_want(T x, T y, int M) { return refulp::dist<T>(x, y) <= (typename refulp::wide<T>::type)M; }

// got = fn(x, y, M) for one component; neg: the function is a notEqual
template <class T> static void judge_ulps(pbt::Ctx& c, const char* fn, const char* form, T x, T y, int M, bool got, bool neg) {
	bool want = ulp_want(x, y, M) != neg;
	if (got == want) return;
	const char* pc = ulp_pair_class(x, y, M);
	if (refulp::repeat_failure(c, refulp::key_hash(fn, form, pc, nullptr, sizeof(T)))) return;
	c.failk(std::string(fn) + "-ulps/" + refulp::key_form(form) + tname<T>() + "/" + pc, "[%s] %s(%a [0x%llx], %a [0x%llx], maxULPs=%d) = %s; the values are %lld representable value(s) apart, expected %s", form, fn, (double)x, ubits(x),
	        (double)y, ubits(y), M, got ? "true" : "false", (long long)refulp::dist<T>(x, y), want ? "true" : "false");
}

template <class T, int L> static void vec_ulps(pbt::Ctx& c, const Elem<T>* e, const int* Mc) {
	glm::vec<L, T> x(0), y(0); glm::vec<L, int> m(0);
	for (int i = 0; i < L; ++i) { x[i] = e[i * 4].x; y[i] = e[i * 4].y; m[i] = Mc[i]; }
	glm::vec<L, bool> r1 = glm::equal(x, y, m), r2 = glm::notEqual(x, y, m), r3 = glm::equal(x, y, Mc[0]), r4 = glm::notEqual(x, y, Mc[0]);
	for (int i = 0; i < L; ++i) {
		judge_ulps<T>(c, "equal", "vec-ivec/", x[i], y[i], Mc[i], r1[i], false);
		judge_ulps<T>(c, "notEqual", "vec-ivec/", x[i], y[i], Mc[i], r2[i], true);
		judge_ulps<T>(c, "equal", "vec-int/", x[i], y[i], Mc[0], r3[i], false);
		judge_ulps<T>(c, "notEqual", "vec-int/", x[i], y[i], Mc[0], r4[i], true);
	}
}

template <class T, int C, int R> static void mat_ulps(pbt::Ctx& c, const Elem<T>* e, const int* Mc) {
	glm::mat<C, R, T> A(0), B(0); glm::vec<C, int> mv(0);
	for (int i = 0; i < C; ++i) { mv[i] = Mc[i]; for (int j = 0; j < R; ++j) { A[i][j] = e[i * 4 + j].x; B[i][j] = e[i * 4 + j].y; } }
	glm::vec<C, bool> r[4] = {glm::equal(A, B, mv), glm::notEqual(A, B, mv), glm::equal(A, B, Mc[0]), glm::notEqual(A, B, Mc[0])};
	glm::vec<C, bool> ex = glm::equal(A, B), nx = glm::notEqual(A, B);
	static const char* const FN[4] = {"equal", "notEqual", "equal", "notEqual"};
	static const char* const FORM[4] = {"mat-ivec/", "mat-ivec/", "mat-int/", "mat-int/"};
	char shape[8]; snprintf(shape, sizeof shape, "%dx%d", C, R);
	for (int i = 0; i < C; ++i) {
		bool same_real = true;
		for (int j = 0; j < R; ++j) same_real = same_real && refulp::same_real<T>(A[i][j], B[i][j]);
		if (ex[i] != same_real && !refulp::repeat_failure(c, refulp::key_hash("equal", "mat-exact", nullptr, nullptr, sizeof(T))))
			c.failk(std::string("equal/mat-exact/") + tname<T>(), "equal(mat%s, mat%s) column %d = %s, expected %s", shape, shape, i, ex[i] ? "true" : "false", same_real ? "true" : "false");
		if (nx[i] != !same_real && !refulp::repeat_failure(c, refulp::key_hash("notEqual", "mat-exact", nullptr, nullptr, sizeof(T))))
			c.failk(std::string("notEqual/mat-exact/") + tname<T>(), "notEqual(mat%s, mat%s) column %d = %s, expected %s", shape, shape, i, nx[i] ? "true" : "false", !same_real ? "true" : "false");
		for (int k = 0; k < 4; ++k) {
			int M = k < 2 ? Mc[i] : Mc[0];
			bool neg = (k & 1) != 0;
			bool all_in = true, mixed = false; int bad = -1;
			for (int j = 0; j < R; ++j) {
				bool w = ulp_want(A[i][j], B[i][j], M);
				if (!w && bad < 0) bad = j;
				all_in = all_in && w;
				if (sign_bit(A[i][j]) != sign_bit(B[i][j])) mixed = true;
			}
			bool want = all_in != neg;
			const char* cc = mixed ? "column-with-a-pair-of-different-signbits" : "column-of-same-signbit-pairs";
			if (r[k][i] != want && !refulp::repeat_failure(c, refulp::key_hash(FN[k], FORM[k], cc, nullptr, sizeof(T))))
				c.failk(std::string(FN[k]) + "-ulps/" + refulp::key_form(FORM[k]) + tname<T>() + "/" + cc, "[%s] %s(mat%s, mat%s, maxULPs=%d) column %d = %s, expected %s (first component beyond the budget: row %d)", FORM[k], FN[k], shape, shape, M, i,
				        r[k][i] ? "true" : "false", want ? "true" : "false", bad);
			// the matrix overload against GLM's own vector overload on the same column
			bool viavec = neg ? glm::any(glm::notEqual(A[i], B[i], M)) : glm::all(glm::equal(A[i], B[i], M));
			if (r[k][i] != viavec && !refulp::repeat_failure(c, refulp::key_hash(FN[k], FORM[k], "vs-vec", nullptr, sizeof(T))))
				c.failk(std::string(FN[k]) + "-ulps/" + refulp::key_form(FORM[k]) + tname<T>() + "/differs-from-vector-overload", "[%s] %s(mat%s, mat%s, maxULPs=%d) column %d = %s but the vector overload on that column gives %s", FORM[k], FN[k], shape,
				        shape, M, i, r[k][i] ? "true" : "false", viavec ? "true" : "false");
		}
	}
}

template <class T> static void quat_exact(pbt::Ctx& c, const Elem<T>* e) {
	glm::qua<T> p(1, 0, 0, 0), q(1, 0, 0, 0);
	for (int i = 0; i < 4; ++i) { p[i] = e[i * 4].x; q[i] = e[i * 4].y; }
	glm::vec<4, bool> eq = glm::equal(p, q), ne = glm::notEqual(p, q);
	for (int i = 0; i < 4; ++i) {
		bool same = refulp::same_real<T>(p[i], q[i]);
		if (eq[i] != same) c.failk(std::string("equal/quat-exact/") + tname<T>(), "equal(quat, quat)[%d] = %s for components %a, %a", i, eq[i] ? "true" : "false", (double)p[i], (double)q[i]);
		if (ne[i] != !same) c.failk(std::string("notEqual/quat-exact/") + tname<T>(), "notEqual(quat, quat)[%d] = %s for components %a, %a", i, ne[i] ? "true" : "false", (double)p[i], (double)q[i]);
	}
}

template <class T> static void prop_equal_ulps(pbt::Ctx& c) {
	int Mc[4];
	Mc[0] = gen_maxulps(c);
	bool same_budget = c.coin();
	for (int i = 1; i < 4; ++i) Mc[i] = same_budget ? Mc[0] : gen_maxulps(c);
	Elem<T> e[16];
	int at_boundary = 0, inside = 0, outside = 0;
	for (int i = 0; i < 4; ++i) for (int j = 0; j < 4; ++j) {
		Elem<T>& p = e[i * 4 + j];
		p = gen_ulp_elem<T>(c, Mc[i], j != 0);
		typename refulp::wide<T>::type d = refulp::dist<T>(p.x, p.y);
		if (i == 0 && j == 0) c.logf("%s, 16 pairs [column.row] x|y (steps apart / maxULPs)", tname<T>());
		c.logf("[%d.%d] %a|%a (%lld/%d)", i, j, (double)p.x, (double)p.y, (long long)(d > (1LL << 62) ? (1LL << 62) : d), Mc[i]);
		if (d == Mc[i] || d == (typename refulp::wide<T>::type)Mc[i] + 1) ++at_boundary;
		if (d <= Mc[i]) ++inside; else ++outside;
		const std::string pc = ulp_pair_class(p.x, p.y, Mc[i]);
		if (pc == "same-signbit") c.cls("pair: same sign bit");
		else if (pc == "signed-zeros") c.cls("pair: +0 and -0");
		else if (pc == "straddles-zero-within-maxULPs") c.cls("pair: straddles zero, within maxULPs");
		else if (pc == "opposite-sign-same-magnitude") c.cls("pair: opposite sign, same magnitude, beyond maxULPs");
		else c.cls("pair: opposite sign, beyond maxULPs");
		if (d == Mc[i]) c.cls("distance == maxULPs"); else if (d == (typename refulp::wide<T>::type)Mc[i] + 1) c.cls("distance == maxULPs+1");
		if (d == 0) c.cls("distance 0");
	}
	c.cls(same_budget ? "one budget for all columns" : "per-column budgets");
	// scalar overloads on the 4 first-row elements
	for (int i = 0; i < 4; ++i) {
		judge_ulps<T>(c, "equal", "scalar/", e[i * 4].x, e[i * 4].y, Mc[i], glm::equal(e[i * 4].x, e[i * 4].y, Mc[i]), false);
		judge_ulps<T>(c, "notEqual", "scalar/", e[i * 4].x, e[i * 4].y, Mc[i], glm::notEqual(e[i * 4].x, e[i * 4].y, Mc[i]), true);
	}
	vec_ulps<T, 1>(c, e, Mc); vec_ulps<T, 2>(c, e, Mc); vec_ulps<T, 3>(c, e, Mc); vec_ulps<T, 4>(c, e, Mc);
	mat_ulps<T, 2, 2>(c, e, Mc); mat_ulps<T, 2, 3>(c, e, Mc); mat_ulps<T, 2, 4>(c, e, Mc);
	mat_ulps<T, 3, 2>(c, e, Mc); mat_ulps<T, 3, 3>(c, e, Mc); mat_ulps<T, 3, 4>(c, e, Mc);
	mat_ulps<T, 4, 2>(c, e, Mc); mat_ulps<T, 4, 3>(c, e, Mc); mat_ulps<T, 4, 4>(c, e, Mc);
	quat_exact<T>(c, e);
	if (at_boundary && inside && outside) c.nontrivial();
}
static void prop_equal_ulps32(pbt::Ctx& c) { prop_equal_ulps<float>(c); }
static void prop_equal_ulps64(pbt::Ctx& c) { prop_equal_ulps<double>(c); }
#define ULPS_RULE "16 pairs (x from the structured generator: +-0, subnormals, binade boundaries, +-max, values straddling zero, moderate, raw; y at distance maxULPs-3..maxULPs+3 either side, -x, " \
	"unrelated, +-0 pairs) with maxULPs in {0,1,2,4,64} or 0..66, through equal/notEqual: scalar, vec1-4 (int and ivec budgets), 9 matrix shapes (int and ivec budgets), exact matrix/quaternion equal; " \
	"non-trivial = some pair exactly at distance maxULPs or maxULPs+1 and both outcomes present"
PBT_RANDOM("equal_ulps/float", prop_equal_ulps32, 150000, 10000000, ULPS_RULE);
PBT_RANDOM("equal_ulps/double", prop_equal_ulps64, 150000, 10000000, ULPS_RULE);

// =================================================================================================================
// epsilon comparisons
// =================================================================================================================
template <class T> static T gen_epsilon(pbt::Ctx& c) {
	switch (c.draw(4)) {
	case 0: case 1: {
		static const double S[14] = {0.0, 1.0, 0.5, 0.1, 0.01, 0.001, 0.0001, 1e-6, 2.0, 1000.0, -1.0 /*eps*/, -2.0 /*2 eps*/, -3.0 /*denorm_min*/, -4.0 /*min normal*/};
		double v = S[c.draw(14)];
		if (v == -1.0) return std::numeric_limits<T>::epsilon();
		if (v == -2.0) return 2 * std::numeric_limits<T>::epsilon();
		if (v == -3.0) return std::numeric_limits<T>::denorm_min();
		if (v == -4.0) return std::numeric_limits<T>::min();
		return (T)v; }
	case 2: return (T)std::ldexp(1.0, (int)c.range(-30, 10));
	default: return (T)c.loguniform(1e-9, 1e3);
	}
}
// element pair relative to an epsilon E: |x - y| aimed at E-1ulp, E, E+1ulp (and 0, E/2, 2E, unrelated)
template <class T> static Elem<T> gen_eps_elem(pbt::Ctx& c, T E, bool hi) {
	Elem<T> e;
	switch (c.draw(6)) {
	case 0: e.x = T(0); break;
	case 1: e.x = (T)(int)c.range(-4, 4) * E; break;
	case 2: e.x = gen_moderate<T>(c); break;
	case 3: e.x = (T)(int)c.range(-5, 5) * (E / 2); break;
	case 4: e.x = (T)std::ldexp(1.0, (int)c.range(-20, 20)) * (c.coin() ? T(-1) : T(1)); break;
	default: e.x = gen_float<T>(c, FD_FINITE); break;
	}
	if (!is_finite(e.x)) e.x = T(1);
	uint64_t r = c.draw(32);
	const uint64_t cut = hi ? 24 : 13;
	T a = E, t;
	if (r < cut) {  // aimed at or below E
		switch (c.draw(5)) {
		case 0: a = E; break;
		case 1: a = refulp::step<T>(E, -1, &t) && t >= 0 ? t : E; break;
		case 2: a = E / 2; break;
		case 3: a = T(0); break;
		default: a = refulp::step<T>(E, -2, &t) && t >= 0 ? t : E; break;
		}
	} else if (r < 29) {  // aimed above E
		switch (c.draw(4)) {
		case 0: a = refulp::step<T>(E, 1, &t) ? t : E; break;
		case 1: a = refulp::step<T>(E, 2, &t) ? t : E; break;
		case 2: a = 2 * E; break;
		default: a = E + (T)c.loguniform(1e-6, 10.0); break;
		}
	} else if (r == 29) { e.y = flip_sign(e.x); return e; }
	else { e.y = gen_float<T>(c, FD_FINITE); return e; }
	volatile T y = c.coin() ? e.x - a : e.x + a;
	e.y = y;
	if (!is_finite(e.y)) e.y = e.x;
	return e;
}
static const char* pos_name(refulp::EpsPos p) {
	switch (p) {
	case refulp::EP_BELOW: return "below-epsilon";
	case refulp::EP_ABOVE: return "above-epsilon";
	case refulp::EP_AT_EXACT: return "at-epsilon";
	default: return "at-epsilon-after-rounding";
	}
}
// absolute judgement of one component of an equal-like (neg=false) / notEqual-like (neg=true) result; not judged at epsilon
template <class T> static void judge_eps(pbt::Ctx& c, const char* fn, const char* form, T x, T y, T E, bool got, bool neg) {
	refulp::EpsPos p = refulp::eps_position<T>(x, y, E);
	if (p != refulp::EP_BELOW && p != refulp::EP_ABOVE) return;
	bool want = (p == refulp::EP_BELOW) != neg;
	if (got == want) return;
	if (refulp::repeat_failure(c, refulp::key_hash(fn, form, pos_name(p), nullptr, sizeof(T)))) return;
	c.failk(std::string(fn) + "/" + refulp::key_form(form) + tname<T>() + "/" + pos_name(p), "[%s] %s(%a, %a, epsilon=%a) = %s but |x - y| is %s epsilon (|fl(x-y)| = %a)", form, fn, (double)x, (double)y, (double)E, got ? "true" : "false",
	        p == refulp::EP_BELOW ? "below" : "above", (double)std::fabs((double)(T)(x - y)));
}
// agreement of two GLM results that must coincide under every reading of the documentation
template <class T> static void judge_same(pbt::Ctx& c, const char* what, const char* form, T x, T y, T E, bool got, bool ref, const char* gotname, const char* refname) {
	if (got == ref) return;
	refulp::EpsPos p = refulp::eps_position<T>(x, y, E);
	if (refulp::repeat_failure(c, refulp::key_hash(what, form, pos_name(p), nullptr, sizeof(T)))) return;
	c.failk(std::string(what) + "/" + refulp::key_form(form) + tname<T>() + "/" + pos_name(p), "x=%a y=%a epsilon=%a (|x-y| %s): %s = %s but %s = %s", (double)x, (double)y, (double)E, pos_name(p), gotname, got ? "true" : "false", refname,
	        ref ? "true" : "false");
}

template <class T, int L> static void vec_eps(pbt::Ctx& c, const Elem<T>* e, const T* Ec) {
	glm::vec<L, T> x(0), y(0), ev(0);
	for (int i = 0; i < L; ++i) { x[i] = e[i * 4].x; y[i] = e[i * 4].y; ev[i] = Ec[i]; }
	glm::vec<L, bool> r1 = glm::equal(x, y, ev), r2 = glm::notEqual(x, y, ev), r3 = glm::equal(x, y, Ec[0]), r4 = glm::notEqual(x, y, Ec[0]);
	glm::vec<L, bool> g1 = glm::epsilonEqual(x, y, ev), g2 = glm::epsilonNotEqual(x, y, ev), g3 = glm::epsilonEqual(x, y, Ec[0]), g4 = glm::epsilonNotEqual(x, y, Ec[0]);
	for (int i = 0; i < L; ++i) {
		judge_eps<T>(c, "equal", "vec-vec/", x[i], y[i], Ec[i], r1[i], false); judge_eps<T>(c, "notEqual", "vec-vec/", x[i], y[i], Ec[i], r2[i], true);
		judge_eps<T>(c, "equal", "vec-scalar/", x[i], y[i], Ec[0], r3[i], false); judge_eps<T>(c, "notEqual", "vec-scalar/", x[i], y[i], Ec[0], r4[i], true);
		judge_eps<T>(c, "epsilonEqual", "vec-vec/", x[i], y[i], Ec[i], g1[i], false); judge_eps<T>(c, "epsilonNotEqual", "vec-vec/", x[i], y[i], Ec[i], g2[i], true);
		judge_eps<T>(c, "epsilonEqual", "vec-scalar/", x[i], y[i], Ec[0], g3[i], false); judge_eps<T>(c, "epsilonNotEqual", "vec-scalar/", x[i], y[i], Ec[0], g4[i], true);
		// same family, same documented formula: lanes must agree with the scalar overload everywhere, the boundary included
		judge_same<T>(c, "equal-epsilon-vec-vs-scalar", "vec-vec/", x[i], y[i], Ec[i], r1[i], glm::equal(x[i], y[i], Ec[i]), "equal(vec,vec,vec)[i]", "equal(x[i],y[i],eps[i])");
		judge_same<T>(c, "notEqual-epsilon-vec-vs-scalar", "vec-vec/", x[i], y[i], Ec[i], r2[i], glm::notEqual(x[i], y[i], Ec[i]), "notEqual(vec,vec,vec)[i]", "notEqual(x[i],y[i],eps[i])");
		judge_same<T>(c, "equal-epsilon-vec-vs-scalar", "vec-scalar/", x[i], y[i], Ec[0], r3[i], glm::equal(x[i], y[i], Ec[0]), "equal(vec,vec,eps)[i]", "equal(x[i],y[i],eps)");
		judge_same<T>(c, "notEqual-epsilon-vec-vs-scalar", "vec-scalar/", x[i], y[i], Ec[0], r4[i], glm::notEqual(x[i], y[i], Ec[0]), "notEqual(vec,vec,eps)[i]", "notEqual(x[i],y[i],eps)");
		judge_same<T>(c, "epsilonEqual-vec-vs-scalar", "vec-vec/", x[i], y[i], Ec[i], g1[i], glm::epsilonEqual(x[i], y[i], Ec[i]), "epsilonEqual(vec,vec,vec)[i]", "epsilonEqual(x[i],y[i],eps[i])");
		judge_same<T>(c, "epsilonNotEqual-vec-vs-scalar", "vec-vec/", x[i], y[i], Ec[i], g2[i], glm::epsilonNotEqual(x[i], y[i], Ec[i]), "epsilonNotEqual(vec,vec,vec)[i]", "epsilonNotEqual(x[i],y[i],eps[i])");
		judge_same<T>(c, "epsilonEqual-vec-vs-scalar", "vec-scalar/", x[i], y[i], Ec[0], g3[i], glm::epsilonEqual(x[i], y[i], Ec[0]), "epsilonEqual(vec,vec,eps)[i]", "epsilonEqual(x[i],y[i],eps)");
		judge_same<T>(c, "epsilonNotEqual-vec-vs-scalar", "vec-scalar/", x[i], y[i], Ec[0], g4[i], glm::epsilonNotEqual(x[i], y[i], Ec[0]), "epsilonNotEqual(vec,vec,eps)[i]", "epsilonNotEqual(x[i],y[i],eps)");
	}
}

template <class T, int C, int R> static void mat_eps(pbt::Ctx& c, const Elem<T>* e, const T* Ec) {
	glm::mat<C, R, T> A(0), B(0); glm::vec<C, T> ev(0);
	for (int i = 0; i < C; ++i) { ev[i] = Ec[i]; for (int j = 0; j < R; ++j) { A[i][j] = e[i * 4 + j].x; B[i][j] = e[i * 4 + j].y; } }
	glm::vec<C, bool> r[4] = {glm::equal(A, B, ev), glm::notEqual(A, B, ev), glm::equal(A, B, Ec[0]), glm::notEqual(A, B, Ec[0])};
	static const char* const FN[4] = {"equal", "notEqual", "equal", "notEqual"};
	static const char* const FORM[4] = {"mat-vec/", "mat-vec/", "mat-scalar/", "mat-scalar/"};
	char shape[8]; snprintf(shape, sizeof shape, "%dx%d", C, R);
	for (int i = 0; i < C; ++i) for (int k = 0; k < 4; ++k) {
		T E = k < 2 ? Ec[i] : Ec[0];
		bool neg = (k & 1) != 0;
		int above = -1, at = -1; bool via_scalar = true;
		for (int j = 0; j < R; ++j) {
			refulp::EpsPos p = refulp::eps_position<T>(A[i][j], B[i][j], E);
			if (p == refulp::EP_ABOVE) { if (above < 0) above = j; }
			else if (p != refulp::EP_BELOW) { if (at < 0) at = j; }
			via_scalar = via_scalar && glm::equal(A[i][j], B[i][j], E);
		}
		if (neg) via_scalar = !via_scalar;
		// absolute: a component above epsilon decides the column; a component at epsilon (and none above) leaves it unjudged
		if (above >= 0 || at < 0) {
			bool want = (above < 0) != neg;
			const char* cc = above >= 0 ? "column-with-a-component-above-epsilon" : "column-all-below-epsilon";
			if (r[k][i] != want && !refulp::repeat_failure(c, refulp::key_hash(FN[k], FORM[k], cc, nullptr, sizeof(T))))
				c.failk(std::string(FN[k]) + "/" + refulp::key_form(FORM[k]) + tname<T>() + "/" + cc, "[%s] %s(mat%s, mat%s, epsilon=%a) column %d = %s, expected %s (first row above epsilon: %d)", FORM[k], FN[k], shape, shape, (double)E, i,
				        r[k][i] ? "true" : "false", want ? "true" : "false", above);
		} else c.cls("matrix column decided by a component at epsilon (absolute value not judged)");
		if (r[k][i] != via_scalar && !refulp::repeat_failure(c, refulp::key_hash(FN[k], FORM[k], "vs-scalar", nullptr, sizeof(T) + (at >= 0 ? 16 : 0))))
			c.failk(std::string(FN[k]) + "/" + refulp::key_form(FORM[k]) + tname<T>() + "/differs-from-scalar-overload" + (at >= 0 ? "/column-with-a-component-at-epsilon" : ""),
			        "[%s] %s(mat%s, mat%s, epsilon=%a) column %d = %s but combining the scalar overload over its components gives %s", FORM[k], FN[k], shape, shape, (double)E, i, r[k][i] ? "true" : "false", via_scalar ? "true" : "false");
	}
}

template <class T> static void quat_eps(pbt::Ctx& c, const Elem<T>* e, T E) {
	glm::qua<T> p(1, 0, 0, 0), q(1, 0, 0, 0);
	for (int i = 0; i < 4; ++i) { p[i] = e[i * 4].x; q[i] = e[i * 4].y; }
	glm::vec<4, bool> eq = glm::equal(p, q, E), ne = glm::notEqual(p, q, E), geq = glm::epsilonEqual(p, q, E), gne = glm::epsilonNotEqual(p, q, E);
	for (int i = 0; i < 4; ++i) {
		T x = p[i], y = q[i];
		judge_eps<T>(c, "equal", "quat/", x, y, E, eq[i], false); judge_eps<T>(c, "notEqual", "quat/", x, y, E, ne[i], true);
		judge_eps<T>(c, "epsilonEqual", "quat/", x, y, E, geq[i], false); judge_eps<T>(c, "epsilonNotEqual", "quat/", x, y, E, gne[i], true);
		judge_same<T>(c, "notEqual-is-not-equal", "quat/", x, y, E, ne[i], !eq[i], "notEqual(quat,quat,eps)[i]", "!equal(quat,quat,eps)[i]");
		judge_same<T>(c, "epsilonNotEqual-is-not-epsilonEqual", "quat/", x, y, E, gne[i], !geq[i], "epsilonNotEqual(quat,quat,eps)[i]", "!epsilonEqual(quat,quat,eps)[i]");
		if (refulp::eps_position<T>(x, y, E) == refulp::EP_AT_EXACT) {
			c.cls(eq[i] ? "|x-y|==epsilon exactly: ext equal(quat) -> true" : "|x-y|==epsilon exactly: ext equal(quat) -> false");
			c.cls(geq[i] ? "|x-y|==epsilon exactly: gtc epsilonEqual(quat) -> true" : "|x-y|==epsilon exactly: gtc epsilonEqual(quat) -> false");
		}
	}
}

template <class T> static void prop_equal_eps(pbt::Ctx& c) {
	T Ec[4];
	Ec[0] = gen_epsilon<T>(c);
	bool same_eps = c.coin();
	for (int i = 1; i < 4; ++i) Ec[i] = same_eps ? Ec[0] : gen_epsilon<T>(c);
	Elem<T> e[16];
	int n_at = 0, n_near = 0, n_below = 0, n_above = 0;
	for (int i = 0; i < 4; ++i) for (int j = 0; j < 4; ++j) {
		Elem<T>& p = e[i * 4 + j];
		p = gen_eps_elem<T>(c, Ec[i], j != 0);
		refulp::EpsPos pos = refulp::eps_position<T>(p.x, p.y, Ec[i]);
		T a = (T)std::fabs((double)(T)(p.x - p.y));
		if (i == 0 && j == 0) c.logf("%s, 16 pairs [column.row] x|y (epsilon, position of |x-y|)", tname<T>());
		c.logf("[%d.%d] %a|%a (%a, %s)", i, j, (double)p.x, (double)p.y, (double)Ec[i], pos_name(pos));
		switch (pos) {
		case refulp::EP_BELOW: ++n_below; c.cls("|x-y| < epsilon"); break;
		case refulp::EP_ABOVE: ++n_above; c.cls("|x-y| > epsilon"); break;
		case refulp::EP_AT_EXACT: ++n_at; c.cls("|x-y| == epsilon exactly (doc '<' and statement '<=' differ: absolute value not judged)"); break;
		default: ++n_at; c.cls("rounding_ambiguous: |fl(x-y)| == epsilon, exact difference is not"); break;
		}
		if (is_finite(a) && refulp::dist<T>(a, Ec[i]) == 1) { ++n_near; c.cls(a < Ec[i] ? "|fl(x-y)| one step below epsilon" : "|fl(x-y)| one step above epsilon"); }
		if (refulp::ord<T>(a) == 0) c.cls("x == y");
	}
	c.cls(same_eps ? "one epsilon for all columns" : "per-column epsilons");
	for (int i = 0; i < 4; ++i) {
		T x = e[i * 4].x, y = e[i * 4].y, E = Ec[i];
		bool se = glm::equal(x, y, E), sn = glm::notEqual(x, y, E), ge = glm::epsilonEqual(x, y, E), gn = glm::epsilonNotEqual(x, y, E);
		judge_eps<T>(c, "equal", "scalar/", x, y, E, se, false); judge_eps<T>(c, "notEqual", "scalar/", x, y, E, sn, true);
		judge_eps<T>(c, "epsilonEqual", "scalar/", x, y, E, ge, false); judge_eps<T>(c, "epsilonNotEqual", "scalar/", x, y, E, gn, true);
		judge_same<T>(c, "notEqual-is-not-equal", "scalar/", x, y, E, sn, !se, "notEqual(x,y,eps)", "!equal(x,y,eps)");
		judge_same<T>(c, "epsilonNotEqual-is-not-epsilonEqual", "scalar/", x, y, E, gn, !ge, "epsilonNotEqual(x,y,eps)", "!epsilonEqual(x,y,eps)");
		if (refulp::eps_position<T>(x, y, E) == refulp::EP_AT_EXACT) {
			c.cls(se ? "|x-y|==epsilon exactly: ext equal -> true" : "|x-y|==epsilon exactly: ext equal -> false");
			c.cls(ge ? "|x-y|==epsilon exactly: gtc epsilonEqual -> true" : "|x-y|==epsilon exactly: gtc epsilonEqual -> false");
		}
	}
	vec_eps<T, 1>(c, e, Ec); vec_eps<T, 2>(c, e, Ec); vec_eps<T, 3>(c, e, Ec); vec_eps<T, 4>(c, e, Ec);
	mat_eps<T, 2, 2>(c, e, Ec); mat_eps<T, 2, 3>(c, e, Ec); mat_eps<T, 2, 4>(c, e, Ec);
	mat_eps<T, 3, 2>(c, e, Ec); mat_eps<T, 3, 3>(c, e, Ec); mat_eps<T, 3, 4>(c, e, Ec);
	mat_eps<T, 4, 2>(c, e, Ec); mat_eps<T, 4, 3>(c, e, Ec); mat_eps<T, 4, 4>(c, e, Ec);
	quat_eps<T>(c, e, Ec[0]);
	if ((n_at || n_near) && n_below && n_above) c.nontrivial();
}
static void prop_equal_eps32(pbt::Ctx& c) { prop_equal_eps<float>(c); }
static void prop_equal_eps64(pbt::Ctx& c) { prop_equal_eps<double>(c); }
#define EPS_RULE "16 pairs with |x-y| aimed at epsilon-2ulp..epsilon+2ulp, 0, epsilon/2, 2 epsilon or unrelated (x: 0, multiples of epsilon and epsilon/2, powers of two, moderate, raw finite), epsilon in " \
	"{0, 1e-6..1000, T epsilon, 2 T epsilon, denorm_min, min normal, 2^k, log-uniform}, through equal/notEqual (ext scalar, vec1-4 with scalar and vector epsilon, 9 matrix shapes with scalar and " \
	"vector epsilon, quaternion) and epsilonEqual/epsilonNotEqual (gtc scalar, vec1-4, quaternion); non-trivial = some pair at or one step from epsilon and both outcomes present"
PBT_RANDOM("equal_epsilon/float", prop_equal_eps32, 150000, 10000000, EPS_RULE);
PBT_RANDOM("equal_epsilon/double", prop_equal_eps64, 150000, 10000000, EPS_RULE);
