// C02 part 6: element types selected by C02_PART (see C02_linalg.cpp, which is the whole harness)
#define C02_PART 6
#include "C02_linalg.cpp"
