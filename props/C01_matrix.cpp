// C01 (matrix versions acting per element) — glm/ext/matrix_common.hpp abs(mat), mix(mat,mat,scalar), mix(mat,mat,mat) and
// glm/ext/matrix_relational.hpp equal / notEqual (exact, epsilon, per-column epsilon, ULPs, per-column ULPs) over the 9 shapes:
// every element against the scalar overload on that element; the comparison functions return one bool per column, documented as
// "true if this expression is satisfied per column", i.e. all (equal) / any (notEqual) over the rows of the scalar answer.
#include "fp.hpp"
#include "ref/c01_support.hpp"
#include <glm/glm.hpp>
#include <glm/ext/scalar_common.hpp>
#include <glm/ext/scalar_relational.hpp>
#include <glm/ext/vector_relational.hpp>
#include <glm/ext/matrix_relational.hpp>
#include <glm/ext/matrix_common.hpp>
#include "c01_have.hpp"

#ifndef C01_TIER
#define C01_TIER 0
#endif
using namespace c01;
template <class T> static long double ld(T v) { return (long double)v; }
template <class T> static long double eps_() { return (long double)std::numeric_limits<T>::epsilon(); }

// ---- matrix versions: abs, mix, equal / notEqual, per element ----------------------------------------------------------------
template <class T> static long double mixtol(T x, T y, T a) { return 8 * eps_<T>() * (fabsl(ld(x)) * fabsl(1 - ld(a)) + fabsl(ld(y)) * fabsl(ld(a))) + 4 * (long double)std::numeric_limits<T>::denorm_min(); }

// which matrix overloads compile (pre-pass): fn 0 abs, 1 mix(mat,mat,scalar), 2 mix(mat,mat,mat), 3 equal/notEqual family
template <int C, int R> constexpr bool have_mat(int fn) {
#define C01_HM(C_, R_) if (C == C_ && R == R_) return fn == 0 ? C01_HAVE_MAT_ABS_##C_##R_ : fn == 1 ? C01_HAVE_MAT_MIX_SCALAR_##C_##R_ : fn == 2 ? C01_HAVE_MAT_MIX_MAT_##C_##R_ : C01_HAVE_MAT_EQUAL_##C_##R_;
	C01_HM(2, 2) C01_HM(2, 3) C01_HM(2, 4) C01_HM(3, 2) C01_HM(3, 3) C01_HM(3, 4) C01_HM(4, 2) C01_HM(4, 3) C01_HM(4, 4)
#undef C01_HM
	return true;
}

template <int C, int R, class T, glm::qualifier Q> static void run_mat(pbt::Ctx& c, const Inst& in) {
	typedef glm::mat<C, R, T, Q> M;
	typedef glm::vec<C, bool, Q> BC;
	T x[16], y[16], a[16], any[16];
	const int N = C * R;
	for (int k = 0; k < N; ++k) { x[k] = gen_mod<T>(c); y[k] = gen_mod<T>(c); a[k] = (c.draw(4) == 0) ? gen_mod<T>(c, 3, 2) : gen_in<T>(c, 0.0, 1.0); any[k] = gen_any<T>(c); }
	T sa = gen_in<T>(c, 0.0, 1.0);
	auto mk = [&](const T* p) { M m; for (int i = 0; i < C; ++i) for (int r = 0; r < R; ++r) m[i][r] = p[i * R + r]; return m; };
	if (c.verbose) c.logf("%s x=%s y=%s a=%s any=%s sa=%s", in.name.c_str(), showv(x, N).c_str(), showv(y, N).c_str(), showv(a, N).c_str(), showv(any, N).c_str(), show(sa).c_str());
	const std::string shape = std::string("mat") + std::to_string(C) + "x" + std::to_string(R) + "<" + in.tn + ">";
	// abs
	if constexpr (have_mat<C, R>(0)) {
		M r = glm::abs(mk(any));
		for (int k = 0; k < N; ++k) { T w = glm::abs(any[k]); if (!match<T>(c, BITS, r[k / R][k % R], w)) { c.failk("abs/" + shape, "%s: abs(m)[%d][%d] = %s, scalar abs(%s) = %s", in.name.c_str(), k / R, k % R, show<T>(r[k / R][k % R]).c_str(), show(any[k]).c_str(), show(w).c_str()); break; } }
	}
	// mix(mat, mat, scalar) and mix(mat, mat, mat)
	if constexpr (have_mat<C, R>(1)) {
		M r = glm::mix(mk(x), mk(y), sa);
		for (int k = 0; k < N; ++k) {
			T w = glm::mix(x[k], y[k], sa);
			if (!within<T>(c, "mix(mat) err/tol", r[k / R][k % R], w, mixtol(x[k], y[k], sa))) { c.failk("mix/mat.mat.scalar/" + shape, "%s: mix(x,y,%s)[%d][%d] = %s, scalar mix(%s,%s,%s) = %s", in.name.c_str(), show(sa).c_str(), k / R, k % R, show<T>(r[k / R][k % R]).c_str(), show(x[k]).c_str(), show(y[k]).c_str(), show(sa).c_str(), show(w).c_str()); break; }
		}
	}
	if constexpr (have_mat<C, R>(2)) {
		M r2 = glm::mix(mk(x), mk(y), mk(a));
		for (int k = 0; k < N; ++k) {
			T w2 = glm::mix(x[k], y[k], a[k]);
			if (!within<T>(c, "mix(mat) err/tol", r2[k / R][k % R], w2, mixtol(x[k], y[k], a[k]))) { c.failk("mix/mat.mat.mat/" + shape, "%s: mix(x,y,a)[%d][%d] = %s, scalar mix(%s,%s,%s) = %s", in.name.c_str(), k / R, k % R, show<T>(r2[k / R][k % R]).c_str(), show(x[k]).c_str(), show(y[k]).c_str(), show(a[k]).c_str(), show(w2).c_str()); break; }
		}
	}
	// equal / notEqual: b = x except a few elements (one element in one column decides that column)
	if constexpr (have_mat<C, R>(3)) {
		T b[16]; T ep = (T)std::ldexp(1.0, -(int)c.range(2, 12)); int ul = (int)c.draw(5);
		T epc[4]; int ulc[4];
		for (int i = 0; i < 4; ++i) { epc[i] = (T)std::ldexp(1.0, -(int)c.range(2, 12)); ulc[i] = (int)c.draw(5); }
		for (int k = 0; k < N; ++k) b[k] = x[k];
		int nch = (int)c.draw(3);
		for (int j = 0; j < nch; ++j) {
			int k = (int)c.draw(N);
			switch (c.draw(4)) { case 0: b[k] = y[k]; break; case 1: b[k] = x[k] + ep * T(0.75); break; case 2: b[k] = x[k] + ep * T(2); break; default: b[k] = fp::from_ordered<T>(fp::ordered<T>(x[k]) + (typename fp::bits_of<T>::S)c.range(1, 6)); }
		}
		glm::vec<C, T, Q> vep; glm::vec<C, int, Q> vul;
		for (int i = 0; i < C; ++i) { vep[i] = epc[i]; vul[i] = ulc[i]; }
		M mx = mk(x), mb = mk(b);
		BC g[10] = {glm::equal(mx, mb), glm::notEqual(mx, mb), glm::equal(mx, mb, ep), glm::notEqual(mx, mb, ep), glm::equal(mx, mb, vep), glm::notEqual(mx, mb, vep),
		            glm::equal(mx, mb, ul), glm::notEqual(mx, mb, ul), glm::equal(mx, mb, vul), glm::notEqual(mx, mb, vul)};
		static const char* NAME[10] = {"equal/mat.mat", "notEqual/mat.mat", "equal/mat.mat.epsilon", "notEqual/mat.mat.epsilon", "equal/mat.mat.vec-epsilon", "notEqual/mat.mat.vec-epsilon",
		                               "equal/mat.mat.ulps", "notEqual/mat.mat.ulps", "equal/mat.mat.ivec-ulps", "notEqual/mat.mat.ivec-ulps"};
		int ncoldiff = 0;
		for (int i = 0; i < C; ++i) {
			bool w[10] = {true, false, true, false, true, false, true, false, true, false};
			bool opp = false;
			for (int r = 0; r < R; ++r) {
				T p = x[i * R + r], q = b[i * R + r];
				if (fp::sign_bit(p) != fp::sign_bit(q)) opp = true;
				w[0] = w[0] && (p == q); w[1] = w[1] || (p != q);
				w[2] = w[2] && glm::equal(p, q, ep); w[3] = w[3] || glm::notEqual(p, q, ep);
				w[4] = w[4] && glm::equal(p, q, epc[i]); w[5] = w[5] || glm::notEqual(p, q, epc[i]);
				w[6] = w[6] && glm::equal(p, q, ul); w[7] = w[7] || glm::notEqual(p, q, ul);
				w[8] = w[8] && glm::equal(p, q, ulc[i]); w[9] = w[9] || glm::notEqual(p, q, ulc[i]);
			}
			if (!w[0]) ++ncoldiff;
			for (int f = 0; f < 10; ++f) if (g[f][i] != w[f]) {
				std::string k = std::string(NAME[f]) + "/"; if (f >= 6) k += std::string(in.tn) + (opp ? "/opposite-signs" : "/same-sign"); else k += shape;  // ULP forms: the sign class, not the shape, separates defects
				c.failk(k, "%s: %s column %d = %d, all/any over the rows of the scalar overload gives %d (x=%s b=%s)", in.name.c_str(), NAME[f], i, (int)g[f][i], (int)w[f], showv(x + i * R, R).c_str(), showv(b + i * R, R).c_str());
			}
		}
		if (ncoldiff > 0 && ncoldiff < C) { c.nontrivial(); c.cls("matrix equal: some columns differ"); }
		else if (ncoldiff == 0) c.cls("matrix equal: all columns equal"); else c.cls("matrix equal: every column differs");
	}
}
template <class T, int L, glm::qualifier Q> static void run_mats(pbt::Ctx& c, const Inst& in) {
	// L selects the column count 2..4 and, through the case, the row count (L == 1: rows vary over 2..4 with 2 columns... keep the table regular)
	const int sel = (int)c.draw(9);
	Inst i2 = in;
	static const char* MN[9] = {"mat2x2", "mat2x3", "mat2x4", "mat3x2", "mat3x3", "mat3x4", "mat4x2", "mat4x3", "mat4x4"};
	i2.name = std::string(MN[sel]) + "<" + in.tn + "," + qn(in.q) + ">";
	switch (sel) {
	case 0: run_mat<2, 2, T, Q>(c, i2); break; case 1: run_mat<2, 3, T, Q>(c, i2); break; case 2: run_mat<2, 4, T, Q>(c, i2); break;
	case 3: run_mat<3, 2, T, Q>(c, i2); break; case 4: run_mat<3, 3, T, Q>(c, i2); break; case 5: run_mat<3, 4, T, Q>(c, i2); break;
	case 6: run_mat<4, 2, T, Q>(c, i2); break; case 7: run_mat<4, 3, T, Q>(c, i2); break; default: run_mat<4, 4, T, Q>(c, i2); break;
	}
}

static Table& tab_mat() { static Table t; return t; }
static void prop_mat(pbt::Ctx& c) { Table& t = tab_mat(); const Inst& in = t[c.draw(t.size())]; in.run(c, in); }
#if C01_TIER
#define C01_REG_MAT(T) tab_mat().push_back({std::string("mat<") + TN<T>::n() + ",highp>", &run_mats<T, 4, glm::highp>, 4, 0, TN<T>::n()}); tab_mat().push_back({std::string("mat<") + TN<T>::n() + ",mediump>", &run_mats<T, 4, glm::mediump>, 4, 1, TN<T>::n()}); tab_mat().push_back({std::string("mat<") + TN<T>::n() + ",lowp>", &run_mats<T, 4, glm::lowp>, 4, 2, TN<T>::n()});
#else
#define C01_REG_MAT(T) tab_mat().push_back({std::string("mat<") + TN<T>::n() + ",highp>", &run_mats<T, 4, glm::highp>, 4, 0, TN<T>::n()}); tab_mat().push_back({std::string("mat<") + TN<T>::n() + ",lowp>", &run_mats<T, 4, glm::lowp>, 4, 2, TN<T>::n()});
#endif
static int reg_all() {
	C01_REG_MAT(float) C01_REG_MAT(double)
	add_target("matrix-abs-mix-equal", prop_mat, tab_mat().size(), 40000, 4000000,
	           "instance = mat<C,R,float|double,Q>, shape drawn per case among the 9; abs(m), mix(x,y,scalar), mix(x,y,mat) per element against the scalar overload, equal/notEqual (exact, epsilon, per-column epsilon, ULPs, per-column ULPs): "
	           "column result against all/any over the rows of the scalar overload; b = x with 0..2 elements changed by y, 0.75 eps, 2 eps or 1..6 ULPs; non-trivial = some but not all columns differ");
	return 0;
}
static const int reg_matrix = reg_all();
